/-
  GV.Model.Direct — the DIRECT (non-resumable) translation of MiniGo statements (`GV.Ctrl`) into a MiniJS
  with ECMAScript completion semantics (core Lean only).

  Mirrors `/repo/compiler/statements.go` with `flatten = false`:
    * `translateLoopingStmt` (statements.go:637-695):  `L: while (true) { if (!(c)) { break; } body; post }`; the
      trailing post statement is omitted when the last body statement is a return / branch (`isTerminated`, 672-680);
    * `BranchStmt` (statements.go:304-325): `break [L];`  and  `continue`, which is PRECEDED by the post statement of
      the loop it targets (`data.postStmt()`; `data = fc.flowDatas[label]`);
    * `SwitchStmt` after astrewrite simplification (statements.go:78-122): the single default clause is emitted as
      `[L:] switch (0) { default: body }` when the statement is labelled or `analysis.HasBreak(clause)`
      (compiler/internal/analysis/break.go), otherwise the body is emitted bare; the switch's `flowData` inherits the
      post statement of the enclosing loop (statements.go:87-93);
    * `IfStmt` (statements.go:58-76 + `translateBranchingStmt` 550-635 with `canBreak = false`): an if / else-if / else chain,
      no wrapper, no label;
    * `BlockStmt` (statements.go:55-56): the statement list is emitted without braces.

  MiniJS semantics: ECMAScript 2015 §13 completion records — `LabelledEvaluation` with a label set, `LoopContinues`,
  the BreakableStatement rule (a `break` with empty target ends at the innermost loop / switch), statement lists evaluate
  their elements with an empty label set.
-/
import GV.Model.Ctrl

namespace GV.Direct
open GV.Ctrl

inductive JStmt where
  | skip
  /-- expression statement -/
  | act (a : Nat)
  | call (f : Nat)
  | seq (s t : JStmt)
  /-- `if (c) { t } else { e }` (`e = skip`: no else part) -/
  | ite (c : Nat) (t e : JStmt)
  /-- `if (!(c)) { break; }` -/
  | ifNotBreak (c : Nat)
  /-- `while (true) { b }` -/
  | whileTrue (b : JStmt)
  /-- `switch (0) { default: b }` -/
  | switch0 (b : JStmt)
  /-- `l: s` -/
  | labeled (l : Nat) (s : JStmt)
  /-- statements of a Go block, emitted without braces (kept only so that `else { if … }` and `else if …` differ) -/
  | block (s : JStmt)
  | brk (l : Option Nat)
  | cont (l : Option Nat)
  | ret
  deriving Repr, DecidableEq, Inhabited

/-- ECMAScript `LoopContinues(completion, labelSet)` -/
def loopContinues (ls : List Nat) : Sig → Bool
  | .normal => true
  | .cont none => true
  | .cont (some l) => ls.contains l
  | _ => false

/-- BreakableStatement: a break completion with empty target becomes normal -/
def breakable : Sig → Sig
  | .brk none => .normal
  | g => g

/-- LabelledStatement `l: s`: a break completion whose target is `l` becomes normal -/
def unlabel (l : Nat) : Sig → Sig
  | .brk (some x) => if x = l then .normal else .brk (some x)
  | g => g

/-- JS completion semantics. The first index is the label set of `LabelledEvaluation`. -/
inductive EvalJ (E : Env σ) : List Nat → JStmt → σ → Sig → σ → Prop where
  | skip : EvalJ E ls .skip st .normal st
  | act : EvalJ E ls (.act a) st .normal (E.act a st)
  | call : EvalJ E ls (.call f) st .normal (E.call f st)
  | seqN : EvalJ E [] s st .normal st1 → EvalJ E [] t st1 g st2 → EvalJ E ls (.seq s t) st g st2
  | seqA : EvalJ E [] s st g st1 → g ≠ .normal → EvalJ E ls (.seq s t) st g st1
  | iteT : E.cond c st = (true, st1) → EvalJ E [] t st1 g st2 → EvalJ E ls (.ite c t e) st g st2
  | iteF : E.cond c st = (false, st1) → EvalJ E [] e st1 g st2 → EvalJ E ls (.ite c t e) st g st2
  | inbT : E.cond c st = (true, st1) → EvalJ E ls (.ifNotBreak c) st .normal st1
  | inbF : E.cond c st = (false, st1) → EvalJ E ls (.ifNotBreak c) st (.brk none) st1
  | block : EvalJ E [] s st g st1 → EvalJ E ls (.block s) st g st1
  | brk : EvalJ E ls (.brk l) st (.brk l) st
  | cont : EvalJ E ls (.cont l) st (.cont l) st
  | ret : EvalJ E ls .ret st .ret st
  | switch0 : EvalJ E [] b st g st1 → EvalJ E ls (.switch0 b) st (breakable g) st1
  | labeled : EvalJ E (ls ++ [l]) s st g st1 → EvalJ E ls (.labeled l s) st (unlabel l g) st1
  | whileIter : EvalJ E [] b st g st1 → loopContinues ls g = true → EvalJ E ls (.whileTrue b) st1 g' st2 →
      EvalJ E ls (.whileTrue b) st g' st2
  | whileExit : EvalJ E [] b st g st1 → loopContinues ls g = false → EvalJ E ls (.whileTrue b) st (breakable g) st1

/-- Fuel-indexed interpreter of MiniJS (driver). `none` = out of fuel. -/
def evalJF (E : Env σ) : Nat → List Nat → JStmt → σ → Option (Sig × σ)
  | 0, _, _, _ => none
  | fuel + 1, ls, s, st =>
    match s with
    | .skip => some (.normal, st)
    | .act a => some (.normal, E.act a st)
    | .call f => some (.normal, E.call f st)
    | .seq s t =>
      match evalJF E fuel [] s st with
      | some (.normal, st1) => evalJF E fuel [] t st1
      | r => r
    | .ite c t e =>
      match E.cond c st with
      | (true, st1) => evalJF E fuel [] t st1
      | (false, st1) => evalJF E fuel [] e st1
    | .ifNotBreak c =>
      match E.cond c st with
      | (true, st1) => some (.normal, st1)
      | (false, st1) => some (.brk none, st1)
    | .block s => evalJF E fuel [] s st
    | .brk l => some (.brk l, st)
    | .cont l => some (.cont l, st)
    | .ret => some (.ret, st)
    | .switch0 b =>
      match evalJF E fuel [] b st with
      | some (g, st1) => some (breakable g, st1)
      | none => none
    | .labeled l s =>
      match evalJF E fuel (ls ++ [l]) s st with
      | some (g, st1) => some (unlabel l g, st1)
      | none => none
    | .whileTrue b =>
      match evalJF E fuel [] b st with
      | none => none
      | some (g, st1) =>
        if loopContinues ls g then evalJF E fuel ls (.whileTrue b) st1
        else some (breakable g, st1)

/-! ### The translation -/

/-- the part of `fc.flowDatas` the direct translation reads: the post statement `continue` has to emit -/
structure Ctx where
  /-- `fc.flowDatas[nil].postStmt` -/
  cur : Simple
  /-- `fc.flowDatas[label].postStmt`, innermost first -/
  labs : List (Nat × Simple)
  deriving Repr, Inhabited

def Ctx.top : Ctx := { cur := .none, labs := [] }

def Ctx.post (k : Ctx) : Option Nat → Simple
  | none => k.cur
  | some l => (k.labs.lookup l).getD .none

def simpleJ : Simple → JStmt
  | .none => .skip
  | .act a => .act a
  | .call f => .call f

/-- `analysis.HasBreak` on the clause (compiler/internal/analysis/break.go:8-32): an unlabelled `break` that is not
    inside a nested for / switch -/
def hasBreak : Stmt → Bool
  | .brk none => true
  | .seq s t => hasBreak s || hasBreak t
  | .ite _ t e => hasBreak t || hasBreak e
  | .block s => hasBreak s
  | _ => false

def wrapLabel : Option Nat → JStmt → JStmt
  | none, s => s
  | some l, s => .labeled l s

def pushLab (l : Option Nat) (p : Simple) (labs : List (Nat × Simple)) : List (Nat × Simple) :=
  match l with
  | some x => (x, p) :: labs
  | none => labs

/-- statements.go `translateStmt` with `flatten = false` -/
def direct (k : Ctx) : Stmt → JStmt
  | .skip => .skip
  | .act a => .act a
  | .call f => .call f
  | .seq s t => .seq (direct k s) (direct k t)
  | .ite c t e => .ite c (direct k t) (direct k e)
  | .block s => .block (direct k s)
  | .brk l => .brk l
  -- statements.go:316-318  `data.postStmt(); continue L;`
  | .cont l => .seq (simpleJ (k.post l)) (.cont l)
  | .ret => .ret
  -- statements.go:87-122
  | .sw l b =>
    let k' : Ctx := { cur := k.cur, labs := pushLab l k.cur k.labs }
    if l.isSome || hasBreak b then wrapLabel l (.switch0 (direct k' b)) else .block (direct k' b)
  -- statements.go:637-695
  | .loop l c p b =>
    let k' : Ctx := { cur := p, labs := pushLab l p k.labs }
    let body := direct k' b
    let body := if lastIsBranch b then body else .seq body (simpleJ p)
    let body := match c with
      | some c => .seq (.ifNotBreak c) body
      | none => body
    wrapLabel l (.whileTrue body)

/-- Go's label rules as far as the translation depends on them: `continue L` never names a switch
    (go/types: "invalid continue label"), i.e. no `continue l` occurs inside `l: switch`. -/
def occursCont (y : Nat) : Stmt → Bool
  | .cont (some x) => x == y
  | .seq s t => occursCont y s || occursCont y t
  | .ite _ t e => occursCont y t || occursCont y e
  | .loop _ _ _ b => occursCont y b
  | .sw _ b => occursCont y b
  | .block s => occursCont y s
  | _ => false

def wf : Stmt → Bool
  | .seq s t => wf s && wf t
  | .ite _ t e => wf t && wf e
  | .loop _ _ _ b => wf b
  | .block s => wf s
  | .sw (some l) b => !occursCont l b && wf b
  | .sw none b => wf b
  | _ => true

/-! ### Skeleton of the emitted code (I-tie against the real compiler output) -/

def labTok (p : String) : Option Nat → String
  | none => p
  | some l => p ++ toString l

mutual
/-- tokens: `W{` while(true){ · `NB<c>` if(!(c)){break;} · `S{` switch(0){default: · `L<n>:` · `B[n]` · `C[n]` · `R` ·
    `I<c>{` · `}EI<c>{` · `}E{` · `}` · `a<n>` action · `f<n>` call -/
def skel : JStmt → List String
  | .skip => []
  | .act a => [s!"a{a}"]
  | .call f => [s!"f{f}"]
  | .seq s t => skel s ++ skel t
  | .block s => skel s
  | .ifNotBreak c => [s!"NB{c}"]
  | .whileTrue b => ["W{"] ++ skel b ++ ["}"]
  | .switch0 b => ["S{"] ++ skel b ++ ["}"]
  | .labeled l s => [s!"L{l}:"] ++ skel s
  | .brk l => [labTok "B" l]
  | .cont l => [labTok "C" l]
  | .ret => ["R"]
  | .ite c t e => [s!"I{c}" ++ "{"] ++ skel t ++ elsePart e
def elsePart : JStmt → List String
  | .skip => ["}"]
  | .ite c t e => ["}" ++ s!"EI{c}" ++ "{"] ++ skel t ++ elsePart e
  | .act a => ["}E{", s!"a{a}", "}"]
  | .call f => ["}E{", s!"f{f}", "}"]
  | .seq s t => ["}E{"] ++ skel s ++ skel t ++ ["}"]
  | .block s => ["}E{"] ++ skel s ++ ["}"]
  | .ifNotBreak c => ["}E{", s!"NB{c}", "}"]
  | .whileTrue b => ["}E{", "W{"] ++ skel b ++ ["}", "}"]
  | .switch0 b => ["}E{", "S{"] ++ skel b ++ ["}", "}"]
  | .labeled l s => ["}E{", s!"L{l}:"] ++ skel s ++ ["}"]
  | .brk l => ["}E{", labTok "B" l, "}"]
  | .cont l => ["}E{", labTok "C" l, "}"]
  | .ret => ["}E{", "R", "}"]
end

end GV.Direct
