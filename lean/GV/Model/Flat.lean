/-
  GV.Model.Flat — the flattened (resumable) translation of a MiniGo function body (core Lean only).

  `flatten : Stmt → List Instr` mirrors the `flatten = true` paths of `compiler/statements.go`:
    * `translateBranchingStmt` (statements.go:550-629): an if / else-if / else chain with `m` clauses allocates
      `caseOffset … caseOffset+m-1` for the clauses, `caseOffset+m` for the default clause (if any) and the next
      number as `endCase`, *before* any body is translated; dispatch `if (c_i) { $s = off+i; continue; }` …
      `$s = defaultCase; continue;`, then `case off+i:` body `$s = endCase; continue;` (omitted after the last
      clause without default, and when the body `EndsWithReturn`), `case endCase:`;
    * `translateLoopingStmt` (statements.go:631-695): `beginCase = n`, `endCase = n+1`;
      `case B: if(!(c)) { $s = E; continue; } body; post; $s = B; continue; case E:` (post and back jump omitted
      when the body's last statement is a return/branch statement);
    * the flattened `SwitchStmt` (statements.go:95-104): `endCase = n`, body, `case endCase:`;
    * `BranchStmt` (statements.go:304-325): `break` → `$s = endCase; continue s;`, `continue` → post statement,
      `$s = beginCase; continue s;`;
    * `ReturnStmt` (statements.go:327-369) non-blocking form `$s = -1; return`;
    * `translateCall` (expressions.go:847-863): `$r = f(); $s = N; case N: if($c) { $c = false; $r = $r.$blk(); }
      if ($r && $r.$blk !== undefined) { break s; }` — one fused instruction `call f N`, which is also the label `N`;
    * statements without a blocking node are NOT flattened (`fc.Flattened[s]` false, `analysis.markBlocking`
      info.go:716-721 marks exactly the ancestors of a blocking node): they are emitted in direct form, with
      escaping break/continue/return still printed as jumps (`PrintCond(data.endCase == 0, …)`): `direct s ctx`.
  `caseCounter` starts at 1 (functions.go:41); `case 0:` is the function entry (functions.go:336).

  Machine semantics: a frame is (`$s`, store, `$r`, `$c`); `Exec` is the machine without suspension, `RunS` the
  machine under a schedule `sched : dynamic call index → call site → store → number of suspensions`, where every suspension saves
  the frame (`$f = {…}`, functions.go:302-304), returns, and the next invocation restores it
  (`$restore`, functions.go:299-300 and prelude/goroutines.js:223-228) and re-enters through `switch ($s)`.
  `forget : σ → σ` is what a save/restore round trip does to the store (locals that are not saved come back
  undefined; everything else is untouched).
-/
import GV.Model.Ctrl

namespace GV.Flat
open GV.Ctrl

/-- `flowData` (statements.go, `fc.flowDatas`): jump targets of break / continue. 0 = "not flattened". -/
structure Tgt where
  brk : Nat
  cont : Nat
  post : Simple
  deriving Repr, DecidableEq, Inhabited

structure Ctx where
  inner : Tgt                    -- `fc.flowDatas[nil]`
  labs : List (Nat × Tgt)        -- `fc.flowDatas[label]`
  deriving Repr, DecidableEq, Inhabited

def Ctx.top : Ctx := ⟨⟨0, 0, .none⟩, []⟩

def lookupLab (x : Nat) : List (Nat × Tgt) → Option Tgt
  | [] => none
  | (y, t) :: r => if x = y then some t else lookupLab x r

def Ctx.tgt (ctx : Ctx) : Option Nat → Tgt
  | none => ctx.inner
  | some x => (lookupLab x ctx.labs).getD ⟨0, 0, .none⟩

/-- statements.go:632-646 -/
def Ctx.enterLoop (ctx : Ctx) (l : Option Nat) (en bg : Nat) (p : Simple) : Ctx :=
  let t : Tgt := ⟨en, bg, p⟩
  ⟨t, match l with | none => ctx.labs | some x => (x, t) :: ctx.labs⟩

/-- statements.go:86-96 and 562-574: a switch keeps the continue target of the enclosing loop.
    (For its own label the continue data of an outer binding of the same label is kept; Go forbids
    `continue L` to a switch label and duplicate labels, so this case never arises in a valid program.) -/
def Ctx.enterSw (ctx : Ctx) (l : Option Nat) (en : Nat) : Ctx :=
  ⟨{ ctx.inner with brk := en },
   match l with
   | none => ctx.labs
   | some x => (x, { ctx.tgt (some x) with brk := en }) :: ctx.labs⟩

/-- `fc.Flattened[s]`: the statement contains a blocking node — a call, or a `continue` leading to a blocking post
    statement (`propagateContinueBlocking`, info.go:363-374). Only the `post` fields of `ctx` matter. -/
def needsFlat (ctx : Ctx) : Stmt → Bool
  | .call _ => true
  | .cont l => (ctx.tgt l).post.isCall
  | .seq s t => needsFlat ctx s || needsFlat ctx t
  | .ite _ t e => needsFlat ctx t || needsFlat ctx e
  | .block s => needsFlat ctx s
  | .sw l b => needsFlat (ctx.enterSw l 0) b
  | .loop l _ p b => p.isCall || needsFlat (ctx.enterLoop l 0 0 p) b
  | _ => false

inductive Instr where
  | case (n : Nat)
  | act (a : Nat)
  | jmp (n : Nat)                      -- `$s = n; continue s;`
  | jmpIf (c : Nat) (n : Nat)          -- `if (c) { $s = n; continue; }`
  | jmpIfNot (c : Nat) (n : Nat)       -- `if(!(c)) { $s = n; continue; }`
  | call (f : Nat) (n : Nat)           -- `$r = f(); $s = n; case n: <resume block>`
  | ret                                -- `$s = -1; return`
  | direct (s : Stmt) (ctx : Ctx)      -- unflattened statement, escaping signals mapped through ctx
  deriving Repr, DecidableEq, Inhabited

/-- code of a simple (post) statement; a blocking post allocates a resume case -/
def simpleCode : Simple → Nat → List Instr × Nat
  | .none, n => ([], n)
  | .act a, n => ([.act a], n)
  | .call f, n => ([.call f n], n + 1)

def spineLen : Stmt → Nat
  | .ite _ _ e => 1 + spineLen e
  | _ => 0

def spineDefault : Stmt → Bool
  | .ite _ _ e => spineDefault e
  | .skip => false
  | _ => true

/-- dispatch part of a flattened if-chain (statements.go:588-600) -/
def dispatch (off : Nat) : Stmt → Nat → List Instr
  | .ite c _ e, i => .jmpIf c (off + i) :: dispatch off e (i + 1)
  | _, i => [.jmp (off + i)]

/-- `$s = endCase; continue;` after a clause body (statements.go:611-616) -/
def clauseJmp (en : Nat) (t : Stmt) : List Instr :=
  if endsWithReturn t then [] else [.jmp en]

/-- chain mode of `flat`: `some (off, en, i)` = the statement is the else-part of a flattened if-chain whose
    next clause index is `i` (clause cases start at `off`, `en` is the chain's `endCase`). -/
abbrev Mode := Option (Nat × Nat × Nat)

/-- a default clause body is preceded by its `case off+i:` (statements.go:620-625) -/
def pre (m : Mode) (r : List Instr × Nat) : List Instr × Nat :=
  match m with
  | none => r
  | some (off, _, i) => (.case (off + i) :: r.1, r.2)

/-- `$s = endCase; continue;` after clause body `t` unless it is the last clause and there is no default
    (statements.go:611-616: `i < len(caseClauses)-1 || defaultClause != nil`) -/
def chainJmp (en : Nat) (t e : Stmt) : List Instr :=
  match e with
  | .skip => []
  | _ => clauseJmp en t

/-- translateStmt with the case counter threaded: returns (code, next free case number).
    Mode `none`: an ordinary statement. Mode `some (off,en,i)`: the else-part of a flattened if-chain
    (`skip` = no else, `ite` = else-if clause `i`, anything else = the default clause). -/
def flatM (ctx : Ctx) : Stmt → Mode → Nat → List Instr × Nat
  | .skip, _, n => ([], n)
  | .act a, m, n => pre m ([.act a], n)
  | .call f, m, n => pre m ([.call f n], n + 1)
  | .seq s t, m, n =>
    let r1 := flatM ctx s none n
    let r2 := flatM ctx t none r1.2
    pre m (r1.1 ++ r2.1, r2.2)
  | .block s, m, n => pre m (flatM ctx s none n)
  | .brk l, m, n => pre m ([.jmp (ctx.tgt l).brk], n)
  | .cont l, m, n =>
    let r := simpleCode (ctx.tgt l).post n
    pre m (r.1 ++ [.jmp (ctx.tgt l).cont], r.2)
  | .ret, m, n => pre m ([.ret], n)
  | .sw l b, m, n =>
    if needsFlat ctx (.sw l b) then
      let r := flatM (ctx.enterSw l n) b none (n + 1)
      pre m (r.1 ++ [.case n], r.2)
    else pre m ([.direct (.sw l b) ctx], n)
  | .loop l c p b, m, n =>
    if needsFlat ctx (.loop l c p b) then
      let r := flatM (ctx.enterLoop l (n + 1) n p) b none (n + 2)
      let condc : List Instr := match c with | none => [] | some c => [.jmpIfNot c (n + 1)]
      let pc := if lastIsBranch b then (([] : List Instr), r.2) else
        let q := simpleCode p r.2
        (q.1 ++ [.jmp n], q.2)
      pre m (.case n :: condc ++ r.1 ++ pc.1 ++ [.case (n + 1)], pc.2)
    else pre m ([.direct (.loop l c p b) ctx], n)
  | .ite _ t e, some (off, en, i), n =>
    -- else-if clause `i` of an enclosing flattened chain
    let a := flatM ctx t none n
    let r := flatM ctx e (some (off, en, i + 1)) a.2
    (.case (off + i) :: a.1 ++ chainJmp en t e ++ r.1, r.2)
  | .ite c t e, none, n =>
    if needsFlat ctx (.ite c t e) then
      let en := n + spineLen (.ite c t e) + (if spineDefault e then 1 else 0)
      let a := flatM ctx t none (en + 1)
      let r := flatM ctx e (some (n, en, 1)) a.2
      (dispatch n (.ite c t e) 0 ++ .case (n + 0) :: a.1 ++ chainJmp en t e ++ r.1 ++ [.case en], r.2)
    else ([.direct (.ite c t e) ctx], n)

def flat (ctx : Ctx) (s : Stmt) (n : Nat) : List Instr × Nat := flatM ctx s none n

/-- translateFunctionBody (functions.go:245-262, 335-338): a function with no flattened statement is emitted in
    direct form; otherwise `case 0:` body and a final return unless the body `EndsWithReturn`. -/
def flatten (body : Stmt) : List Instr :=
  if needsFlat Ctx.top body then
    .case 0 :: (flat Ctx.top body 1).1 ++ (if endsWithReturn body then [] else [.ret])
  else [.direct body Ctx.top]

/-! ### Machine semantics -/

def isLabel (n : Nat) : Instr → Bool
  | .case m => m == n
  | .call _ m => m == n
  | _ => false

/-- `switch ($s)`: the code from label `n` on (the label instruction included); no such label → the switch falls
    through to `} return;` -/
def seek (n : Nat) : List Instr → List Instr
  | [] => []
  | i :: rest => if isLabel n i then i :: rest else seek n rest

def labelOf : Instr → Option Nat
  | .case m => some m
  | .call _ m => some m
  | _ => none

def labels (code : List Instr) : List Nat := code.filterMap labelOf

/-- The machine WITHOUT suspension: every call completes immediately. `Exec E code suffix st out`. -/
inductive Exec (E : Env σ) (code : List Instr) : List Instr → σ → σ → Prop where
  | nil : Exec E code [] st st
  | case : Exec E code rest st o → Exec E code (.case n :: rest) st o
  | act : Exec E code rest (E.act a st) o → Exec E code (.act a :: rest) st o
  | jmp : Exec E code (seek n code) st o → Exec E code (.jmp n :: rest) st o
  | jmpIfT : E.cond c st = (true, st1) → Exec E code (seek n code) st1 o → Exec E code (.jmpIf c n :: rest) st o
  | jmpIfF : E.cond c st = (false, st1) → Exec E code rest st1 o → Exec E code (.jmpIf c n :: rest) st o
  | jmpIfNotT : E.cond c st = (true, st1) → Exec E code rest st1 o → Exec E code (.jmpIfNot c n :: rest) st o
  | jmpIfNotF : E.cond c st = (false, st1) → Exec E code (seek n code) st1 o → Exec E code (.jmpIfNot c n :: rest) st o
  | call : Exec E code rest (E.call f st) o → Exec E code (.call f n :: rest) st o
  | ret : Exec E code (.ret :: rest) st st
  | directN : hasCall s = false → Eval E s st .normal st1 → Exec E code rest st1 o →
      Exec E code (.direct s ctx :: rest) st o
  | directB : hasCall s = false → Eval E s st (.brk l) st1 → Exec E code (seek (ctx.tgt l).brk code) st1 o →
      Exec E code (.direct s ctx :: rest) st o
  | directC : hasCall s = false → Eval E s st (.cont l) st1 → (ctx.tgt l).post.isCall = false →
      Exec E code (seek (ctx.tgt l).cont code) (evalSimple E (ctx.tgt l).post st1) o →
      Exec E code (.direct s ctx :: rest) st o
  | directR : hasCall s = false → Eval E s st .ret st1 → Exec E code (.direct s ctx :: rest) st st1

/-- The machine under a schedule. Configuration: code suffix, store, `$r` (`some (f, m)` = a suspended callee that
    will suspend `m` more times before completing), `$c`, index of the next dynamic call.
    A suspension (`break s`, save `$f`, return; later `$restore`, `switch ($s)`) continues at `seek n code` with the
    store `forget st`, the saved `$r`, and `$c = true`. -/
inductive RunS (E : Env σ) (forget : σ → σ) (sched : Nat → Nat → σ → Nat) (code : List Instr) :
    List Instr → σ → Option (Nat × Nat) → Bool → Nat → σ → Prop where
  | nil : RunS E forget sched code [] st r c k st
  | case : RunS E forget sched code rest st r c k o → RunS E forget sched code (.case n :: rest) st r c k o
  | act : RunS E forget sched code rest (E.act a st) r c k o → RunS E forget sched code (.act a :: rest) st r c k o
  | jmp : RunS E forget sched code (seek n code) st r c k o → RunS E forget sched code (.jmp n :: rest) st r c k o
  | jmpIfT : E.cond cc st = (true, st1) → RunS E forget sched code (seek n code) st1 r c k o →
      RunS E forget sched code (.jmpIf cc n :: rest) st r c k o
  | jmpIfF : E.cond cc st = (false, st1) → RunS E forget sched code rest st1 r c k o →
      RunS E forget sched code (.jmpIf cc n :: rest) st r c k o
  | jmpIfNotT : E.cond cc st = (true, st1) → RunS E forget sched code rest st1 r c k o →
      RunS E forget sched code (.jmpIfNot cc n :: rest) st r c k o
  | jmpIfNotF : E.cond cc st = (false, st1) → RunS E forget sched code (seek n code) st1 r c k o →
      RunS E forget sched code (.jmpIfNot cc n :: rest) st r c k o
  | ret : RunS E forget sched code (.ret :: rest) st r c k st
  | directN : hasCall s = false → Eval E s st .normal st1 → RunS E forget sched code rest st1 r c k o →
      RunS E forget sched code (.direct s ctx :: rest) st r c k o
  | directB : hasCall s = false → Eval E s st (.brk l) st1 →
      RunS E forget sched code (seek (ctx.tgt l).brk code) st1 r c k o →
      RunS E forget sched code (.direct s ctx :: rest) st r c k o
  | directC : hasCall s = false → Eval E s st (.cont l) st1 → (ctx.tgt l).post.isCall = false →
      RunS E forget sched code (seek (ctx.tgt l).cont code) (evalSimple E (ctx.tgt l).post st1) r c k o →
      RunS E forget sched code (.direct s ctx :: rest) st r c k o
  | directR : hasCall s = false → Eval E s st .ret st1 → RunS E forget sched code (.direct s ctx :: rest) st r c k st1
  /-- fresh call that completes at once: `$r = f()` is a value -/
  | callNow : sched k f st = 0 → RunS E forget sched code rest (E.call f st) none false (k + 1) o →
      RunS E forget sched code (.call f n :: rest) st none false k o
  /-- fresh call that suspends: `$r = f()` is a frame, `$s = n`, `break s`, save, return; restore, re-enter -/
  | callSusp : sched k f st = m + 1 → RunS E forget sched code (seek n code) (forget st) (some (f, m)) true (k + 1) o →
      RunS E forget sched code (.call f n :: rest) st none false k o
  /-- re-entered at `case n` with `$c`: `$c = false; $r = $r.$blk()` completes -/
  | resumeDone : RunS E forget sched code rest (E.call f' st) none false k o →
      RunS E forget sched code (.call f n :: rest) st (some (f', 0)) true k o
  /-- re-entered at `case n` with `$c`: the callee suspends again -/
  | resumeMore : RunS E forget sched code (seek n code) (forget st) (some (f', m)) true k o →
      RunS E forget sched code (.call f n :: rest) st (some (f', m + 1)) true k o

/-! ### Executable machine (driver) -/

structure RunStat where
  suspensions : Nat := 0
  calls : Nat := 0
  deriving Repr

/-- fuel-indexed executable version of `RunS` (also counts suspensions). `none` = out of fuel or stuck. -/
def runF (E : Env σ) (forget : σ → σ) (sched : Nat → Nat → σ → Nat) (code : List Instr) :
    Nat → List Instr → σ → Option (Nat × Nat) → Bool → Nat → Nat → Option (σ × Nat × Nat)
  | 0, _, _, _, _, _, _ => none
  | _ + 1, [], st, _, _, k, ns => some (st, k, ns)
  | fuel + 1, i :: rest, st, r, c, k, ns =>
    match i with
    | .case _ => runF E forget sched code fuel rest st r c k ns
    | .act a => runF E forget sched code fuel rest (E.act a st) r c k ns
    | .jmp n => runF E forget sched code fuel (seek n code) st r c k ns
    | .jmpIf cc n =>
      match E.cond cc st with
      | (true, st1) => runF E forget sched code fuel (seek n code) st1 r c k ns
      | (false, st1) => runF E forget sched code fuel rest st1 r c k ns
    | .jmpIfNot cc n =>
      match E.cond cc st with
      | (true, st1) => runF E forget sched code fuel rest st1 r c k ns
      | (false, st1) => runF E forget sched code fuel (seek n code) st1 r c k ns
    | .ret => some (st, k, ns)
    | .direct s ctx =>
      if hasCall s then none else
      match evalF E fuel s st with
      | none => none
      | some (.normal, st1) => runF E forget sched code fuel rest st1 r c k ns
      | some (.brk l, st1) => runF E forget sched code fuel (seek (ctx.tgt l).brk code) st1 r c k ns
      | some (.cont l, st1) =>
        if (ctx.tgt l).post.isCall then none
        else runF E forget sched code fuel (seek (ctx.tgt l).cont code) (evalSimple E (ctx.tgt l).post st1) r c k ns
      | some (.ret, st1) => some (st1, k, ns)
    | .call f n =>
      match r, c with
      | none, false =>
        match sched k f st with
        | 0 => runF E forget sched code fuel rest (E.call f st) none false (k + 1) ns
        | m + 1 => runF E forget sched code fuel (seek n code) (forget st) (some (f, m)) true (k + 1) (ns + 1)
      | some (f', 0), true => runF E forget sched code fuel rest (E.call f' st) none false k ns
      | some (f', m + 1), true => runF E forget sched code fuel (seek n code) (forget st) (some (f', m)) true k (ns + 1)
      | _, _ => none

/-! ### Skeleton rendering (I-tie with the emitted JavaScript) -/

/-- jumps printed by an unflattened statement: escaping break / continue / return (`PrintCond(endCase == 0, …)`) -/
def directSkel (ctx : Ctx) : Stmt → List String
  | .brk l => if (ctx.tgt l).brk = 0 then [] else [s!"j{(ctx.tgt l).brk}"]
  | .cont l => if (ctx.tgt l).cont = 0 then [] else [s!"j{(ctx.tgt l).cont}"]
  | .ret => ["x"]
  | .seq s t => directSkel ctx s ++ directSkel ctx t
  | .ite _ t e => directSkel ctx t ++ directSkel ctx e
  | .block s => directSkel ctx s
  | .sw l b => directSkel (ctx.enterSw l 0) b
  | .loop l _ p b => directSkel (ctx.enterLoop l 0 0 p) b
  | _ => []

def skelInstr : Instr → List String
  | .case n => [s!"c{n}"]
  | .act _ => []
  | .jmp n => [s!"j{n}"]
  | .jmpIf _ n => [s!"j{n}"]
  | .jmpIfNot _ n => [s!"j{n}"]
  | .call _ n => [s!"r{n}"]
  | .ret => ["x"]
  | .direct s ctx => directSkel ctx s

/-- a function without any flattened statement is emitted in plain direct form (`return x;`, no `$s`) -/
def skeleton (code : List Instr) : List String :=
  match code with
  | [.direct _ _] => []
  | _ => code.flatMap skelInstr

end GV.Flat
