/-
  GV.Model.JsConv — transcription of the type-directed Go ↔ JavaScript value conversion of
  compiler/prelude/jsmapping.js (`$needsExternalization`, `$externalize`, `$externalizeFunction`,
  `$internalize`), with the helpers it relies on (`$flatten64` numeric.js:33-35, the `$Int64/$Uint64`
  constructors types.js:104-120, `$nativeArray` types.js:494-521, `$mapArray` prelude.js:101-107,
  `$sliceToNativeArray` prelude.js:196-201, `$keys` prelude.js:72, `$makeFunc` prelude.js:77).

  Numbers.  A JavaScript number is modelled as `Num`: an integer-valued double (`int n`, exact), `-0`, NaN,
  ±Infinity, or a finite non-integral double which is an opaque token carrying its integer part (toward zero) and
  its sign.  Every Go numeric value of a non-64-bit kind *is* such a JavaScript number in GopherJS.
  What is assumed (not modelled): `Number::toString`/`parseFloat` round-trip every double; `parseInt` of the
  decimal rendering of a double with 1e-6 ≤ |x| < 1e21 is its integer part; a value stored into a Float32Array /
  Float64Array is representable in that element type (generated inputs obey all three).
-/
import GV.Model.Utf16

namespace GV.JsConv
open GV.Utf16

/-! ## values and types -/

inductive Num where
  | int (n : Int)
  | negZero
  | nan
  | pinf
  | ninf
  | frac (tok : Nat) (trunc : Int) (neg : Bool)
  deriving DecidableEq, Repr, Inhabited

/-- the non-64-bit integer kinds -/
inductive IK where
  | int | i8 | i16 | i32 | uint | u8 | u16 | u32 | uptr
  deriving DecidableEq, Repr

/-- typed-array element classes -/
inductive TA where
  | i8 | i16 | i32 | u8 | u16 | u32 | f32 | f64
  deriving DecidableEq, Repr

/-- a struct field: its name (bytes of the Go identifier, used verbatim as the JavaScript property name) and
    whether it is exported -/
structure Fld where
  name : List Nat
  exported : Bool
  deriving DecidableEq, Repr

/-- Go types (the kinds the conversion distinguishes). `map e` is `map[string]e`; `iface` is `interface{}`;
    `jsobj` is `*js.Object`. -/
inductive Ty where
  | bool
  | int (k : IK)
  | i64
  | u64
  | f32
  | f64
  | str
  | slice (e : Ty)
  | arr (n : Nat) (e : Ty)
  | map (e : Ty)
  | struct (flds : List Fld) (tys : List Ty)
  | ptr (e : Ty)
  | iface
  | func (ps : List Ty) (rs : List Ty) (variadic : Bool)
  | jsobj
  deriving Repr, Inhabited

/-- JavaScript values. `obj ks vs` is a plain object with own enumerable string keys `ks` (UTF-16) in
    `Object.keys` order and values `vs`; `gofun id` is the `$externalizeWrapper` of the Go function `id`;
    `wrapper id` is an object whose `__internal_object__` is the Go value `id`. -/
inductive JsVal where
  | undef
  | null
  | bool (b : Bool)
  | num (x : Num)
  | str (u : List Nat)
  | typed (c : TA) (xs : List Num)
  | arr (es : List JsVal)
  | obj (ks : List (List Nat)) (vs : List JsVal)
  | jsfun (id : Nat)
  | gofun (id : Nat)
  | wrapper (id : Nat)
  deriving Repr, Inhabited

/-- Go values. `nil` is the nil slice / map / pointer / func / interface; `i64 hi lo` is `{$high, $low}`;
    `map ks vs` a non-nil `map[string]T` in insertion order; `iface τ v` a non-nil interface value with dynamic
    type τ; `func id` a Go function known by identity; `jsfunc j` the Go closure that `$internalize` builds around
    the JavaScript value `j`; `jsobj j` a `*js.Object` (nil is `jsobj null`); `opaque id` a Go value reached
    through `__internal_object__`. -/
inductive GoVal where
  | bool (b : Bool)
  | num (x : Num)
  | i64 (hi : Int) (lo : Nat)
  | str (s : List Nat)
  | nil
  | slice (es : List GoVal)
  | arr (es : List GoVal)
  | map (ks : List (List Nat)) (vs : List GoVal)
  | struct (fs : List GoVal)
  | ptr (v : GoVal)
  | iface (τ : Ty) (v : GoVal)
  | func (id : Nat)
  | jsfunc (j : JsVal)
  | jsobj (j : JsVal)
  | opaque (id : Nat)
  deriving Repr, Inhabited

inductive Err where
  | cannotExternalize     -- "cannot externalize <type>"
  | cannotInternalize     -- "cannot internalize …"
  | wrongSize             -- "got array with wrong size from JavaScript native"
  | typeError             -- a JavaScript TypeError (property read on null / undefined)
  | illTyped              -- the Go value does not have the given type (never produced by the compiler)
  | unmodelled            -- outside the fragment described above
  deriving DecidableEq, Repr

abbrev R := Except Err

/-! ## JavaScript number helpers -/

/-- `ToUint<bits>` on an integer -/
def wrapU (bits : Nat) (n : Int) : Int := n % (2 ^ bits : Int)

/-- `ToInt<bits>` on an integer -/
def wrapS (bits : Nat) (n : Int) : Int :=
  let m := n % (2 ^ bits : Int)
  if m ≥ (2 ^ (bits - 1) : Int) then m - (2 ^ bits : Int) else m

/-- the integer that ECMAScript's `ToInt32/ToUint32` family starts from: NaN, ±Infinity, -0 ↦ 0, otherwise the
    integer part toward zero -/
def Num.truncInt : Num → Int
  | .int n => n
  | .frac _ t _ => t
  | _ => 0


/-- IEEE-754 double rounding (round to nearest, ties to even) of a natural number -/
def roundNat (n : Nat) : Nat :=
  if n < 2 ^ 53 then n else
    let e := Nat.log2 n - 52
    let q := n / 2 ^ e
    let r := n % 2 ^ e
    let half := 2 ^ (e - 1)
    if r < half then q * 2 ^ e
    else if r > half then (q + 1) * 2 ^ e
    else if q % 2 = 0 then q * 2 ^ e else (q + 1) * 2 ^ e

def roundInt (n : Int) : Int := if n < 0 then - (roundNat n.natAbs : Int) else (roundNat n.toNat : Int)

/-- numeric.js:33-35 `$flatten64`: `x.$high * 4294967296 + x.$low` — the product is exact, the sum is rounded
    once to a double. -/
def flatten64 (hi : Int) (lo : Nat) : Int := roundInt (hi * 4294967296 + (lo : Int))

/-- types.js:103-118 — `new $Int64(0, low)` / `new $Uint64(0, low)`:
    `$high = (0 + Math.floor(Math.trunc(low) / 4294967296)) >> 0` (`>>> 0` for uint64), `$low = low >>> 0`.
    (NaN / ±Infinity: `NaN >> 0 = 0`, which is what `truncInt = 0` yields as well.) -/
def mk64 (signed : Bool) (x : Num) : GoVal :=
  let c := x.truncInt
  let hi : Int := if signed then wrapS 32 (c / 4294967296) else wrapU 32 (c / 4294967296)
  .i64 hi (wrapU 32 c).toNat

/-- the fix-up applied to `parseInt(v)` per kind (jsmapping.js:215-231) -/
def fixInt (k : IK) (x : Num) : Num :=
  match k with
  | .int => .int (wrapS 32 x.truncInt)             -- `>> 0`
  | .uint => .int (wrapU 32 x.truncInt)            -- `>>> 0`
  | .i8 => .int (wrapS 8 x.truncInt)               -- `<< 24 >> 24`
  | .i16 => .int (wrapS 16 x.truncInt)             -- `<< 16 >> 16`
  | .i32 => .int (wrapS 32 x.truncInt)             -- `>> 0`
  | .u8 => .int (wrapU 8 x.truncInt)               -- `<< 24 >>> 24`
  | .u16 => .int (wrapU 16 x.truncInt)             -- `<< 16 >>> 16`
  | .u32 | .uptr => .int (wrapU 32 x.truncInt)     -- `>>> 0`

/-- element conversion of an assignment into a typed array of class `c` -/
def storeTA (c : TA) (x : Num) : Num :=
  match c with
  | .i8 => .int (wrapS 8 x.truncInt)
  | .i16 => .int (wrapS 16 x.truncInt)
  | .i32 => .int (wrapS 32 x.truncInt)
  | .u8 => .int (wrapU 8 x.truncInt)
  | .u16 => .int (wrapU 16 x.truncInt)
  | .u32 => .int (wrapU 32 x.truncInt)
  | .f32 | .f64 => x

/-- types.js:494-521 `$nativeArray(elem.kind)`; `none` = `Array` -/
def nativeTA : Ty → Option TA
  | .int .int | .int .i32 => some .i32
  | .int .i8 => some .i8
  | .int .i16 => some .i16
  | .int .uint | .int .u32 | .int .uptr => some .u32
  | .int .u8 => some .u8
  | .int .u16 => some .u16
  | .f32 => some .f32
  | .f64 => some .f64
  | _ => none

/-- the slice type `$internalize` picks for a typed array passed as `interface{}` (jsmapping.js:283-298) -/
def tyOfTA : TA → Ty
  | .i8 => .int .i8
  | .i16 => .int .i16
  | .i32 => .int .int
  | .u8 => .int .u8
  | .u16 => .int .u16
  | .u32 => .int .uint
  | .f32 => .f32
  | .f64 => .f64

/-! ## JavaScript `ToString`, `parseInt`, `parseFloat`, truthiness on the modelled values -/

def digitsOfNat (n : Nat) : List Nat := (toString n).toList.map Char.toNat

def asciiUnits (s : String) : List Nat := s.toList.map Char.toNat

/-- `String(x)` for a number (integers with |n| ≤ 2^53 only, where the decimal expansion is the shortest
    round-trip rendering; other doubles are not modelled) -/
def numToString : Num → R (List Nat)
  | .int n => if n.natAbs ≤ 2 ^ 53 then
      .ok (if n < 0 then 45 :: digitsOfNat n.natAbs else digitsOfNat n.natAbs) else .error .unmodelled
  | .negZero => .ok [48]
  | .nan => .ok (asciiUnits "NaN")
  | .pinf => .ok (asciiUnits "Infinity")
  | .ninf => .ok (asciiUnits "-Infinity")
  | .frac _ _ _ => .error .unmodelled

/-- `String(v)` (jsmapping.js:342) -/
def toStringJs : JsVal → R (List Nat)
  | .undef => .ok (asciiUnits "undefined")
  | .null => .ok (asciiUnits "null")
  | .bool b => .ok (asciiUnits (if b then "true" else "false"))
  | .num x => numToString x
  | .str u => .ok u
  | .obj _ _ => .ok (asciiUnits "[object Object]")
  | _ => .error .unmodelled

def isWhite (c : Nat) : Bool :=
  c == 9 || c == 10 || c == 11 || c == 12 || c == 13 || c == 32 || c == 160 || c == 0x1680 ||
  (0x2000 ≤ c && c ≤ 0x200A) || c == 0x2028 || c == 0x2029 || c == 0x202F || c == 0x205F || c == 0x3000 || c == 0xFEFF

def digitVal (radix c : Nat) : Option Nat :=
  let d := if 48 ≤ c && c ≤ 57 then some (c - 48)
    else if 97 ≤ c && c ≤ 122 then some (c - 87)
    else if 65 ≤ c && c ≤ 90 then some (c - 55) else none
  match d with
  | some d => if d < radix then some d else none
  | none => none

def takeDigits (radix : Nat) : List Nat → Nat → Nat → Nat × Nat
  | [], acc, k => (acc, k)
  | c :: cs, acc, k =>
    match digitVal radix c with
    | some d => takeDigits radix cs (acc * radix + d) (k + 1)
    | none => (acc, k)

/-- ECMAScript `parseInt(string)` (radix undefined): strip white space, sign, `0x`/`0X` prefix, digits.
    Exact for results below 2^53. -/
def parseIntStr (u : List Nat) : Num :=
  let u := u.dropWhile isWhite
  let (neg, u) := match u with
    | 45 :: t => (true, t)
    | 43 :: t => (false, t)
    | _ => (false, u)
  let (radix, u) := match u with
    | 48 :: 120 :: t => (16, t)
    | 48 :: 88 :: t => (16, t)
    | _ => (10, u)
  let (v, k) := takeDigits radix u 0 0
  if k = 0 then .nan
  else if neg then (if v = 0 then .negZero else .int (- (v : Int))) else .int v

/-- `parseInt(x)` for a number x = `parseInt(String(x))` -/
def parseIntNum : Num → R Num
  | .int n => if n.natAbs < 10 ^ 21 then .ok (.int n) else .error .unmodelled
  | .negZero => .ok (.int 0)                    -- String(-0) = "0"
  | .nan | .pinf | .ninf => .ok .nan
  | .frac _ t neg => .ok (if t = 0 ∧ neg then .negZero else .int t)   -- "-0.5" ↦ -0

/-- `parseInt(v)` -/
def parseIntJs : JsVal → R Num
  | .num x => parseIntNum x
  | .str u => .ok (parseIntStr u)
  | .undef | .null | .bool _ => .ok .nan
  | .obj _ _ => .ok .nan                         -- "[object Object]"
  | _ => .error .unmodelled

/-- `$parseFloat(x)` for a number x (numeric.js:4-9): `f.constructor === Number` → returned unchanged (so `-0` stays `-0`) -/
def parseFloatNum : Num → Num
  | x => x

/-- `$parseFloat(v)` (jsmapping.js:237; numeric.js:4-9 — numbers pass through, everything else goes to `parseFloat`);
    strings: optionally signed decimal integers only -/
def parseFloatJs : JsVal → R Num
  | .num x => .ok (parseFloatNum x)
  | .undef | .null | .bool _ => .ok .nan
  | .obj _ _ => .ok .nan
  | .str u =>
    let t := u.dropWhile isWhite
    let body := match t with
      | 45 :: r => r
      | 43 :: r => r
      | _ => t
    if body.all (fun c => 48 ≤ c && c ≤ 57) && !body.isEmpty then .ok (parseIntStr (t.filter (· != 43)))
    else if (takeDigits 10 body 0 0).2 = 0 && !(body.take 1 == [46]) && !(body.take 8 == asciiUnits "Infinity") then .ok .nan
    else .error .unmodelled
  | _ => .error .unmodelled

/-- `!!v` (jsmapping.js:214) -/
def truthy : JsVal → Bool
  | .undef | .null => false
  | .bool b => b
  | .num (.int n) => n != 0
  | .num .negZero | .num .nan => false
  | .num _ => true
  | .str u => !u.isEmpty
  | _ => true

/-! ## object / map helpers -/

/-- `o[k] = v` on a plain object: overwrite in place, else append -/
def objSet : List (List Nat × α) → List Nat → α → List (List Nat × α)
  | [], k, v => [(k, v)]
  | (k', v') :: t, k, v => if k' = k then (k, v) :: t else (k', v') :: objSet t k v

def objOfPairs (ps : List (List Nat × α)) : List (List Nat × α) :=
  ps.foldl (fun acc p => objSet acc p.1 p.2) []

/-- `v[name]` for a property name that is not inherited from a prototype (exported Go field names start with an
    upper-case letter; no standard prototype property does) -/
def lookupProp : List (List Nat) → List JsVal → List Nat → JsVal
  | k :: ks, v :: vs, name => if k = name then v else lookupProp ks vs name
  | _, _, _ => .undef

def isNullish : JsVal → Bool
  | .undef | .null => true
  | _ => false

/-- `$needsExternalization(t)` — jsmapping.js:3-21 -/
def needsExt : Ty → Bool
  | .bool | .int _ | .f32 | .f64 => false
  | .jsobj => false
  | _ => true

def getNum : GoVal → R Num
  | .num x => .ok x
  | _ => .error .illTyped

/-- a Go array / slice backing store whose elements need no externalization, as the JavaScript value handed out:
    the typed array of `$nativeArray(elem.kind)`, or a JavaScript Array (bool elements, `*js.Object` elements) -/
def nativeView (e : Ty) (es : List GoVal) : R JsVal :=
  match nativeTA e with
  | some c => do let xs ← es.mapM getNum; .ok (.typed c xs)
  | none =>
    match e with
    | .bool => do
        let bs ← es.mapM (fun v => match v with | .bool b => .ok (JsVal.bool b) | _ => .error Err.illTyped)
        .ok (.arr bs)
    | .jsobj => do
        let js ← es.mapM (fun v => match v with | .jsobj j => .ok j | _ => .error Err.illTyped)
        .ok (.arr js)
    | _ => .error .illTyped

/-! ## `$externalize` — jsmapping.js:23-150 (with `makeWrapper === undefined`) -/

/-- `searchJsObject(v, t)` — jsmapping.js:108-129: follows pointers, interfaces and FIRST fields down to a
    `*js.Object`; `none` = `noJsObject`. -/
def searchJs : Ty → GoVal → Option JsVal
  | .jsobj, .jsobj j => some j
  | .ptr e, .ptr v => searchJs e v
  | .struct _ (t0 :: _), .struct (f0 :: _) => searchJs t0 f0
  | .iface, .iface τ v =>
    match τ, v with
    -- :124-125 `searchJsObject(v.$val, v.constructor)`: for an interface holding a `*js.Object` this returns the
    -- js.Object wrapper STRUCT (`v.$val`), not `v.$val.object` as :55-57 does: an object with the one property `object`
    | .jsobj, .jsobj j => some (.obj [asciiUnits "object"] [j])
    | τ, v => searchJs τ v
  | _, _ => none

mutual
/-- `$externalize(v, t)` -/
def externalize (τ : Ty) (v : GoVal) : R JsVal :=
  match τ with
  | .jsobj =>                                            -- :24-26 `if (t === $jsObjectPtr) return v;`
    match v with
    | .jsobj j => .ok j
    | _ => .error .illTyped
  | .bool =>                                             -- :28-40 `return v;`
    match v with
    | .bool b => .ok (.bool b)
    | _ => .error .illTyped
  | .int _ | .f32 | .f64 =>
    match v with
    | .num x => .ok (.num x)
    | _ => .error .illTyped
  | .i64 | .u64 =>                                       -- :41-43 `return $flatten64(v);`
    match v with
    | .i64 hi lo => .ok (.num (.int (flatten64 hi lo)))
    | _ => .error .illTyped
  | .arr _ e =>                                          -- :44-48
    match v with
    | .arr es =>
      if needsExt e then do let js ← extList e es; .ok (.arr js) else nativeView e es
    | _ => .error .illTyped
  | .func _ _ _ =>                                       -- :49-50, `$externalizeFunction` :152-186
    match v with
    | .nil => .ok .null                                  -- `v === $throwNilPointerError`
    | .func id => .ok (.gofun id)                        -- the cached `$externalizeWrapper` (see `WrapCache`)
    | .jsfunc _ => .error .unmodelled
    | _ => .error .illTyped
  | .iface =>                                            -- :51-58
    match v with
    | .nil => .ok .null
    | .iface σ w =>
      match σ with
      | .jsobj =>
        match w with
        | .jsobj j => .ok j                              -- `v.$val.object`
        | _ => .error .illTyped
      | _ => externalize σ w
    | .opaque _ => .error .unmodelled
    | _ => .error .illTyped
  | .map e =>                                            -- :59-69
    match v with
    | .nil => .ok .null                                  -- `v.keys === undefined`
    | .map ks vs => do
      let js ← extList e vs
      let ps := objOfPairs ((ks.map externalizeString).zip js)
      .ok (.obj (ps.map (·.1)) (ps.map (·.2)))
    | _ => .error .illTyped
  | .ptr e =>                                            -- :70-74
    match v with
    | .nil => .ok .null
    | .ptr w => externalize e w
    | _ => .error .illTyped
  | .slice e =>                                          -- :75-82
    match v with
    | .nil => .ok .null
    | .slice es =>
      if needsExt e then do let js ← extList e es; .ok (.arr js) else nativeView e es
    | _ => .error .illTyped
  | .str =>                                              -- :83-99
    match v with
    | .str s => .ok (.str (externalizeString s))
    | _ => .error .illTyped
  | .struct flds tys =>                                  -- :100-147 (package time is not loaded)
    match v with
    | .struct fs =>
      match searchJs (.struct flds tys) (.struct fs) with
      | some o => .ok o
      | none => do
        let ps ← extFields flds tys fs
        let ps := objOfPairs ps
        .ok (.obj (ps.map (·.1)) (ps.map (·.2)))
    | _ => .error .illTyped

/-- `$mapArray(…, e => $externalize(e, t.elem))` -/
def extList (e : Ty) (vs : List GoVal) : R (List JsVal) :=
  match vs with
  | [] => .ok []
  | v :: rest => do
    let j ← externalize e v
    let js ← extList e rest
    .ok (j :: js)

/-- jsmapping.js:139-147: `for (i …) { if (!f.exported) continue; o[f.name] = $externalize(v[f.prop], f.typ); }` -/
def extFields (flds : List Fld) (tys : List Ty) (fs : List GoVal) : R (List (List Nat × JsVal)) :=
  match fs with
  | [] => .ok []
  | v :: rest =>
    match flds, tys with
    | f :: flds', t :: tys' =>
      if f.exported then do
        let j ← externalize t v
        let ps ← extFields flds' tys' rest
        .ok ((f.name, j) :: ps)
      else extFields flds' tys' rest
    | _, _ => .error .illTyped
end

/-! ## `$internalize` — jsmapping.js:188-405 (with `makeWrapper === undefined`, package time not loaded, no cycles) -/

/-- `m.set(t.key.keyFor(k), {k, v})` on a Go map: an existing key keeps its position, the entry is replaced -/
def goMapOfPairs (ps : List (List Nat × GoVal)) : GoVal :=
  let m := objOfPairs ps
  .map (m.map (·.1)) (m.map (·.2))

mutual
/-- `$internalize(v, $emptyInterface)` — jsmapping.js:195-197 and 272-322 -/
def internIface (j : JsVal) : R GoVal :=
  match j with
  | .wrapper id => .ok (.opaque id)                      -- :195-197 `$assertType(v.__internal_object__, t, false)`
  | .null => .ok .nil                                    -- :276-278
  | .undef => .ok (.iface .jsobj (.jsobj .undef))        -- :279-281
  | .typed c xs => .ok (.iface (.slice (tyOfTA c)) (.slice (xs.map .num)))   -- :283-298 (shares the array)
  | .arr es => do                                        -- :299-300 → slice case :336-340
    let gs ← internIfaceList es
    .ok (.iface (.slice .iface) (.slice gs))
  | .bool b => .ok (.iface .bool (.bool b))              -- :301-302
  | .num x => .ok (.iface .f64 (.num (parseFloatNum x))) -- :312-313 `new $Float64(parseFloat(v))`
  | .str u => .ok (.iface .str (.str (internalizeString u)))   -- :314-315
  | .jsfun id => .ok (.iface (.func [.slice .iface] [.jsobj] true) (.jsfunc (.jsfun id)))   -- :309-311
  | .gofun id => .ok (.iface (.func [.slice .iface] [.jsobj] true) (.jsfunc (.gofun id)))
  | .obj ks vs => do                                     -- :316-321 → map case :323-331
    let gs ← internIfaceList vs
    .ok (.iface (.map .iface) (goMapOfPairs ((ks.map internalizeString).zip gs)))

def internIfaceList (js : List JsVal) : R (List GoVal) :=
  match js with
  | [] => .ok []
  | j :: rest => do
    let g ← internIface j
    let gs ← internIfaceList rest
    .ok (g :: gs)
end

mutual
/-- the zero value `t.zero()` -/
def zeroVal : Ty → GoVal
  | .bool => .bool false
  | .int _ | .f32 | .f64 => .num (.int 0)
  | .i64 | .u64 => .i64 0 0
  | .str => .str []
  | .arr n e => .arr (List.replicate n (zeroVal e))
  | .struct _ tys => .struct (zeroList tys)
  | .jsobj => .jsobj .null
  | .slice _ | .map _ | .ptr _ | .iface | .func _ _ _ => .nil

def zeroList : List Ty → List GoVal
  | [] => []
  | t :: ts => zeroVal t :: zeroList ts
end

/-- `searchJsObject(t)` of `$internalize` — jsmapping.js:363-388: if the FIRST-field chain of `t` reaches
    `*js.Object`, a fresh zero struct whose first field holds `v`. -/
def wrapJs : Ty → JsVal → Option GoVal
  | .jsobj, j => some (.jsobj j)
  | .ptr e, j => wrapJs e j
  | .struct _ (t0 :: ts), j =>
    match wrapJs t0 j with
    | some o => some (.struct (o :: zeroList ts))
    | none => none
  | _, _ => none

/-- elements written by `$mapArray` into `new v.constructor(v.length)` and then, by the slice constructor
    (types.js:226-234), into `new typ.nativeArray(array)` when the classes differ -/
def storeElems (src : Option TA) (dst : Option TA) (gs : List GoVal) : R (List GoVal) :=
  match src, dst with
  | none, none => .ok gs
  | none, some d => gs.mapM (fun g => do let x ← getNum g; .ok (.num (storeTA d x)))
  | some s, some d => gs.mapM (fun g => do let x ← getNum g; .ok (.num (storeTA d (storeTA s x))))
  | some _, none => .error .unmodelled

/-- jsmapping.js:195-197: `if (v && v.__internal_object__ !== undefined) return $assertType(v.__internal_object__, t, false);`
    — tested before the kind switch, for every `t` other than `*js.Object`. -/
def guardWrapper (j : JsVal) (k : R GoVal) : R GoVal :=
  match j with
  | .wrapper id => .ok (.opaque id)
  | _ => k

/-- `new t(0, v)` for the values `v` whose `Math.ceil` / `>>> 0` are modelled -/
def intern64 (signed : Bool) (j : JsVal) : R GoVal :=
  match j with
  | .num x => .ok (mk64 signed x)
  | .undef => .ok (mk64 signed .nan)
  | .null => .ok (mk64 signed (.int 0))
  | .bool b => .ok (mk64 signed (.int (if b then 1 else 0)))
  | _ => .error .unmodelled

mutual
/-- `$internalize(v, t)` -/
def internalize (τ : Ty) (j : JsVal) : R GoVal :=
  match τ with
  | .jsobj => .ok (.jsobj j)                             -- :189-191
  | .iface => internIface j                              -- :195-197, :272-322
  | .bool => guardWrapper j (.ok (.bool (truthy j)))     -- :213-214
  | .int k => guardWrapper j (do let x ← parseIntJs j; .ok (.num (fixInt k x)))        -- :215-231
  | .i64 => guardWrapper j (intern64 true j)             -- :232-234 `new t(0, v)`
  | .u64 => guardWrapper j (intern64 false j)
  | .f32 | .f64 => guardWrapper j (do let x ← parseFloatJs j; .ok (.num x))           -- :235-237
  | .arr n e =>                                          -- :238-245
    match j with
    | .wrapper id => .ok (.opaque id)
    | .undef | .null => .error .cannotInternalize
    -- `$toNativeArray(t.elem.kind, $mapArray(v, …))`: the elements are written into an array of v's class and then
    -- converted to the backing class of the Go array
    | .arr es =>
      if es.length ≠ n then .error .wrongSize
      else do
        let gs ← es.mapM (internalize e)
        let gs ← storeElems none (nativeTA e) gs
        .ok (.arr gs)
    | .typed c xs =>
      if xs.length ≠ n then .error .wrongSize
      else do
        let gs ← xs.mapM (fun x => internalize e (.num x))
        let gs ← storeElems (some c) (nativeTA e) gs
        .ok (.arr gs)
    | .str u => if u.length ≠ n then .error .wrongSize else .error .unmodelled
    | _ => .error .wrongSize                             -- `v.length` is undefined
  | .func _ _ _ => guardWrapper j (.ok (.jsfunc j))      -- :246-271
  | .map e =>                                            -- :323-331
    match j with
    | .wrapper id => .ok (.opaque id)
    | .obj ks vs => do
      let gs ← vs.mapM (internalize e)
      .ok (goMapOfPairs ((ks.map internalizeString).zip gs))
    | .undef | .null => .ok .nil                         -- `v == null` → `t.zero()`, the nil map
    | .bool _ | .num _ | .jsfun _ | .gofun _ => .ok (.map [] [])   -- `$keys` yields []
    | .str u => if u.isEmpty then .ok (.map [] []) else .error .unmodelled
    | _ => .error .unmodelled
  | .ptr e =>                                            -- :332-335, falls through to the slice case
    match e with
    | .struct _ _ => guardWrapper j (do let g ← internalize e j; .ok (.ptr g))
    | _ => guardWrapper j (if isNullish j then .ok .nil else .error .unmodelled)
  | .slice e =>                                          -- :336-340
    match j with
    | .wrapper id => .ok (.opaque id)
    | .undef | .null => .ok .nil                         -- `v == null` → `t.zero()`
    | .arr es => do
      let gs ← es.mapM (internalize e)
      let gs ← storeElems none (nativeTA e) gs
      .ok (.slice gs)
    | .typed c xs => do
      let gs ← xs.mapM (fun x => internalize e (.num x))
      let gs ← storeElems (some c) (nativeTA e) gs
      .ok (.slice gs)
    | _ => .error .unmodelled
  | .str => guardWrapper j (do let u ← toStringJs j; .ok (.str (internalizeString u)))   -- :341-360
  | .struct flds tys =>                                  -- :361-402
    guardWrapper j (
      match wrapJs (.struct flds tys) j with
      | some o => .ok o
      | none => do
        let fs ← internFields flds tys j
        .ok (.struct fs))

/-- jsmapping.js:393-401: `n = new t.ptr(); for (i …) { if (!f.exported) continue; n[f.prop] = $internalize(v[f.name], f.typ) }` -/
def internFields (flds : List Fld) (tys : List Ty) (j : JsVal) : R (List GoVal) :=
  match tys with
  | [] => .ok []
  | t :: tys' =>
    match flds with
    | [] => .error .illTyped
    | f :: flds' =>
      if f.exported then
        if isNullish j then .error .typeError            -- `v[f.name]` on null / undefined
        else do
          let prop := match j with
            | .obj ks vs => lookupProp ks vs f.name
            | _ => .undef
          let g ← internalize t prop
          let gs ← internFields flds' tys' j
          .ok (g :: gs)
      else do
        let gs ← internFields flds' tys' j
        .ok (zeroVal t :: gs)
end

/-! ## exposed functions — `$externalizeFunction` wrapper body (jsmapping.js:158-183) and `$makeFunc` (prelude.js:77) -/

def internArgs : List Ty → Bool → List JsVal → R (List GoVal)
  | [], _, _ => .ok []
  | [p], true, args =>                                   -- variadic: the rest as a slice of `p.elem`
    match p with
    | .slice e => do
      let gs ← args.mapM (internalize e)
      let gs ← storeElems none (nativeTA e) gs
      .ok [.slice gs]
    | _ => .error .illTyped
  | p :: ps, variadic, args => do
    let g ← internalize p (args.headD .undef)
    let gs ← internArgs ps variadic args.tail
    .ok (g :: gs)

def extResults : List Ty → List GoVal → R (List JsVal)
  | [], _ => .ok []
  | t :: ts, v :: vs => do
    let j ← externalize t v
    let js ← extResults ts vs
    .ok (j :: js)
  | _, _ => .error .illTyped

/-- a call of the JavaScript wrapper of a Go function of type `func(ps) rs` whose Go-level behaviour is `f` -/
def callWrapper (ps rs : List Ty) (variadic : Bool) (f : List GoVal → R (List GoVal)) (args : List JsVal) : R JsVal := do
  let gargs ← internArgs ps variadic args
  let res ← f gargs
  match rs with
  | [] => .ok .undef
  | [t] =>
    match res with
    | [v] => externalize t v
    | _ => .error .illTyped
  | _ => do let js ← extResults rs res; .ok (.arr js)

/-- `$makeFunc(fn)` invoked with `this` and `args`: `fn(this, []*js.Object(args))` externalized as `interface{}` -/
def callMakeFunc (fn : JsVal → List JsVal → GoVal) (this : JsVal) (args : List JsVal) : R JsVal :=
  externalize .iface (fn this args)

/-! ## the `$externalizeWrapper` cache — jsmapping.js:152-186 -/

/-- which Go functions (by id) carry a `$externalizeWrapper`, and the id of that wrapper; `next` = number of
    wrapper closures created so far -/
structure WrapCache where
  entries : List (Nat × Nat)
  next : Nat
  deriving Repr

def WrapCache.empty : WrapCache := ⟨[], 0⟩

def WrapCache.lookup (c : WrapCache) (f : Nat) : Option Nat := (c.entries.find? (·.1 == f)).map (·.2)

/-- `$externalizeFunction(v, …)` for a non-nil `v`: create the wrapper once, return the stored one afterwards -/
def externalizeFunction (c : WrapCache) (f : Nat) : WrapCache × Nat :=
  match c.lookup f with
  | some w => (c, w)
  | none => (⟨(f, c.next) :: c.entries, c.next + 1⟩, c.next)

/-- a history of externalisations: the wrapper ids handed out -/
def runHistory : WrapCache → List Nat → List (Nat × Nat)
  | _, [] => []
  | c, f :: fs => let r := externalizeFunction c f; (f, r.2) :: runHistory r.1 fs

end GV.JsConv
