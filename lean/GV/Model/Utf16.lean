/-
  GV.Model.Utf16 — transcription of the two string transcoding loops of
  compiler/prelude/jsmapping.js:

    * `$externalize`, case `$kindString` (jsmapping.js:83-99): Go string (UTF-8 bytes held as code
      units 0..255) → JavaScript string (UTF-16 code units), via `$decodeRune`;
    * `$internalize`, case `$kindString` (jsmapping.js:341-360): JavaScript string → Go string, via
      `$encodeRune`.

  Go strings are `List Nat` with every element < 256 (`GV.Utf8.Str`); JavaScript strings are
  `List Nat` with every element < 65536 (UTF-16 code units).  `charCodeAt` past the end is NaN,
  modelled as `none`.
-/
import GV.Model.Utf8

namespace GV.Utf16
open GV.Utf8

abbrev Str16 := List Nat

/-- jsmapping.js:422-429 `$isASCII`: no code unit ≥ 128. -/
def isASCII (s : List Nat) : Bool := s.all (· < 128)

/-- the code units appended for one decoded rune `c` (jsmapping.js:90-97):
    `c > 0xFFFF` → `h = floor((c - 0x10000) / 0x400) + 0xD800`, `l = (c - 0x10000) % 0x400 + 0xDC00`;
    otherwise `String.fromCharCode(c)`. -/
def unitsOf (c : Nat) : Str16 :=
  if c > 0xFFFF then [(c - 0x10000) / 0x400 + 0xD800, (c - 0x10000) % 0x400 + 0xDC00] else [c]

/-- jsmapping.js:88-98: `for (var i = 0; i < v.length; i += r[1]) { r = $decodeRune(v, i); … }`.
    Fuel = length suffices because every width is ≥ 1. -/
def extLoop (s : Str) : Nat → Nat → Str16
  | 0, _ => []
  | fuel + 1, i =>
    if i < s.length then
      let r := decodeRune s i
      unitsOf r.1 ++ extLoop s fuel (i + r.2)
    else []

/-- jsmapping.js:83-99 — `$externalize(v, $String)`. -/
def externalizeString (s : Str) : Str16 :=
  if isASCII s then s else extLoop s s.length 0

/-- `$encodeRune(NaN)` (prelude.js:298-312): every comparison with NaN is false, so the 4-byte branch is
    taken and `NaN >> k` is 0: the bytes F0 80 80 80. -/
def encodeRuneNaN : Str := [0xF0, 0x80, 0x80, 0x80]

/-- jsmapping.js:346-360, the `while (i < v.length)` loop, on the list of remaining code units.
    `h` in 0xD800..0xDBFF: `l = v.charCodeAt(i + 1)` (NaN at the end of the string),
    `c = (h - 0xD800) * 0x400 + l - 0xDC00 + 0x10000`, `$encodeRune(c)`, `i += 2` — there is NO test that `l` is a
    low surrogate; otherwise `$encodeRune(h)`, `i++`. -/
def intLoop : Str16 → Str
  | [] => []
  | [h] =>
    if 0xD800 ≤ h ∧ h ≤ 0xDBFF then encodeRuneNaN else encodeRune (h : Int)
  | h :: l :: rest =>
    if 0xD800 ≤ h ∧ h ≤ 0xDBFF then
      encodeRune (((h : Int) - 0xD800) * 0x400 + (l : Int) - 0xDC00 + 0x10000) ++ intLoop rest
    else encodeRune (h : Int) ++ intLoop (l :: rest)

/-- jsmapping.js:341-360 — `$internalize(v, $String)` for a JavaScript string `v`. -/
def internalizeString (u : Str16) : Str :=
  if isASCII u then u else intLoop u

end GV.Utf16
