import GV.Model.Sched
/-
  GV.Model.SchedInv — executable (Bool) statements of the global bookkeeping invariants of the runtime model:
  queue entries vs sleeping goroutines, the run queue, the liveness counters. Stated as properties in
  GV.Props.C03 (`no_lost_wakeup`, `awake_count`); evaluated by the driver on every state it visits.
-/
namespace GV.SchedInv
open GV.Chan GV.Sched

/-- entry `e` queued on channel `k` (send side iff `snd`) belongs to goroutine `e.gid`, which is asleep in exactly
    that operation -/
def entryOwned (s : State) (k : Nat) (snd : Bool) (e : Entry) : Bool :=
  let x := getG s e.gid
  decide (e.gid < s.gs.length) && x.asleep && !x.exit &&
  match e.sel, x.blocked with
  | none, some (.send c v) => snd && c == k && v == e.val
  | none, some (.recv c) => !snd && c == k
  | some i, some (.select cs) =>
    (match cs.getD i .dflt with
     | .send c v => snd && c == k && v == e.val
     | .recv c => !snd && c == k
     | .dflt => false)
  | _, _ => false

def chanIdx : List Chan → Nat → List (Nat × Chan)
  | [], _ => []
  | x :: r, i => (i, x) :: chanIdx r (i + 1)

/-- every queue entry belongs to exactly one asleep goroutine blocked in exactly that operation, no goroutine is
    queued twice for the same case, runnable goroutines are not asleep and are scheduled once -/
def entriesOwned (s : State) : Bool :=
  (chanIdx s.chans 0).all fun (k, ch) =>
    ch.sendQ.all (entryOwned s k true) && ch.recvQ.all (entryOwned s k false) &&
    (ch.sendQ.map fun e => (e.gid, e.sel)).eraseDups.length == ch.sendQ.length &&
    (ch.recvQ.map fun e => (e.gid, e.sel)).eraseDups.length == ch.recvQ.length

def schedOK (s : State) : Bool :=
  s.scheduled.all (fun g => decide (g < s.gs.length) && !(getG s g).asleep && !(getG s g).exit) &&
  s.scheduled.eraseDups.length == s.scheduled.length &&
  (match s.cur with
   | some g => decide (g < s.gs.length) && !(getG s g).asleep && !(getG s g).exit && !s.scheduled.contains g
   | none => true)

/-- `$awakeGoroutines` = goroutines not asleep + pending `$setTimeout` callbacks; `$totalGoroutines` = goroutines
    that have not exited -/
def countersOK (s : State) : Bool :=
  s.awake == ((s.gs.countP fun x => !x.asleep) + (s.timers.countP fun t => t.2 != .runSched) : Nat) &&
  s.total == ((s.gs.countP fun x => !x.exit) : Nat)

def globalInv (s : State) : Bool := entriesOwned s && schedOK s && countersOK s

end GV.SchedInv
