/-
  GV.Model.Escape — captured variables of a resumable function (core Lean only).

  A JavaScript activation of a Go function holds every Go local in a JS local variable.  A closure (function literal,
  or the pointer object made for `&x`) created by activation `A` refers to `A`'s JS variable itself.  When the
  goroutine is suspended the function returns its frame `$f = {x: <value of x>, …}`; on resumption a NEW activation
  `A'` is entered whose JS variables are initialised from `$f` BY VALUE (`var {x, …} = $restore(this, {…})`,
  functions.go:299-304).  A variable that must stay shared between `A'` and the closures made by `A` is therefore
  boxed: `x = [x];` (utils.go:657-674) — the JS variable then holds a reference to a one-element array, the reference
  is what is saved and restored, and closures and both activations reach the same array.

  Which variables are boxed (`analysis.EscapingObjects`, escape.go; call sites functions.go:246-249 for a blocking
  function's whole body, statements.go:661 for every loop body):
    * a variable used inside a function literal or under `&` is *captured*;
    * captured and declared in a loop BODY  → boxed at the top of that body (every function, needed for
      per-iteration variables);
    * captured and declared anywhere else in the function (parameter, function level, `for` init variable, `range`
      key / value — everything between the function scope and the next loop-body / literal scope) → boxed at function
      entry, but only in a BLOCKING function (a non-blocking function is never re-entered).
-/
namespace GV.Escape

/-- where a local variable of the function is declared -/
inductive Site where
  | param
  | funcLevel
  | loopHeader     -- `for i := …` init variable, `range` key / value
  | loopBody
  deriving Repr, DecidableEq, Inhabited

/-- the boxing rule of the real code -/
def boxed (blocking : Bool) (site : Site) (captured : Bool) : Bool :=
  captured && (match site with
    | .loopBody => true
    | _ => blocking)

/-- the rule of the change "the loop boxes its own variables": loop-header variables are nobody's -/
def boxedHeaderSkipped (blocking : Bool) (site : Site) (captured : Bool) : Bool :=
  captured && (match site with
    | .loopBody => true
    | .loopHeader => false
    | _ => blocking)

/-- a memory cell: the JS variable `x` of activation `act`, or a box -/
inductive Cell where
  | slot (act : Nat) (x : Nat)
  | box (b : Nat)
  deriving Repr, DecidableEq, Inhabited

/-- an activation: its identity and, for each boxed variable, the box its JS variable refers to -/
structure Frame where
  act : Nat
  boxOf : Nat → Option Nat

/-- the cell that code running in (or closed over) this activation reaches for variable `x` -/
def Frame.cell (f : Frame) (x : Nat) : Cell :=
  match f.boxOf x with
  | some b => .box b
  | none => .slot f.act x

/-- save `$f`, return, re-enter: a new activation whose variables are copies of the saved values; a box reference
    survives iff the variable is in the saved list -/
def resume (f : Frame) (saved : Nat → Bool) (newAct : Nat) : Frame :=
  ⟨newAct, fun x => if saved x then f.boxOf x else none⟩

/-- heap of cells, and the two sides of the story: a closure made by the old activation writes, the resumed
    activation reads -/
def write (h : Cell → Nat) (c : Cell) (v : Nat) : Cell → Nat := fun c' => if c' = c then v else h c'

end GV.Escape
