import GV.Model.JSInt
import GV.Model.Num64
import GV.Spec.Num
/-
  GV.Model.NumScheme — for every integer type and operator, the JavaScript expression that
  compiler/expressions.go emits, as a function of the (canonical, in-range) operand values.

  Operand shapes. `formatExprInternal` (expressions.go:1412-1550) renders an operand as a literal (constant),
  as an identifier (variable) or binds a sub-expression to a fresh `x` temporary when it is used more than once;
  in all three cases the operand *value* is the same JS number, so one function of the values describes all
  shapes — except for shifts, where a constant count takes a different branch (`constCount`).
  That sub-expression results are again canonical is theorem `repr_inv`.
-/
namespace GV.NumScheme
open GV.JSInt GV.Num64 GV.Spec.Num

/-- the integer types that are JS numbers (`int`, `uint`, `uintptr` are 32 bits wide under GopherJS) -/
inductive ITy where
  | int8 | int16 | int32 | int | uint8 | uint16 | uint32 | uint | uintptr
  deriving DecidableEq, Repr

def ITy.bits : ITy → Nat
  | .int8 | .uint8 => 8
  | .int16 | .uint16 => 16
  | _ => 32

def ITy.signed : ITy → Bool
  | .int8 | .int16 | .int32 | .int => true
  | _ => false

def ITy.all : List ITy := [.int8, .int16, .int32, .int, .uint8, .uint16, .uint32, .uint, .uintptr]

/-- the canonical JS representatives of the values of a type -/
def InRange (τ : ITy) (v : Int) : Prop :=
  if τ.signed then -(2 ^ (τ.bits - 1) : Int) ≤ v ∧ v < 2 ^ (τ.bits - 1) else 0 ≤ v ∧ v < 2 ^ τ.bits

instance (τ : ITy) (v : Int) : Decidable (InRange τ v) := by unfold InRange; exact inferInstance

/-- expressions.go:1363-1384 `fixNumber` -/
def fixNumber (τ : ITy) (v : Int) : Int :=
  match τ with
  | .int8 => sar (shl v 24) 24                 -- (%s << 24 >> 24)
  | .uint8 => shr (shl v 24) 24                -- (%s << 24 >>> 24)
  | .int16 => sar (shl v 16) 16                -- (%s << 16 >> 16)
  | .uint16 => shr (shl v 16) 16               -- (%s << 16 >>> 16)
  | .int32 | .int => sar v 0                   -- (%s >> 0)
  | .uint32 | .uint | .uintptr => shr v 0      -- (%s >>> 0)

/-- result of an emitted expression: a JS number or the run-time panic `$throwRuntimeError("integer divide by zero")` -/
inductive Res where
  | ok (v : JSNum)
  | panic
  deriving DecidableEq, Repr

def Res.render : Res → String
  | .ok v => v.render
  | .panic => "panic"

/-- expressions.go:372-431, binary operators on non-64-bit integers -/
def schemeBin (τ : ITy) (op : BinOp) (x y : Int) : Res :=
  match op with
  | .add => .ok (.int (fixNumber τ (x + y)))                       -- :377 fixNumber("%e + %e")
  | .sub => .ok (.int (fixNumber τ (x - y)))
  | .mul =>                                                         -- :379-386
    match τ with
    | .int32 | .int => .ok (.int (imul x y))                        -- ($imul(%e, %e))
    | .uint32 | .uint | .uintptr => .ok (.int (shr (imul x y) 0))   -- ($imul(%e, %e) >>> 0)
    | _ => .ok (.int (fixNumber τ (JSInt.mul x y).toInt))           -- fixNumber("%e * %e")
  | .quo =>                                                         -- QUO case (after fix C06-quo-fixup)
    -- (_q = x / y, (_q === _q && _q !== 1/0 && _q !== -1/0) ? fixNumber(_q) : $throwRuntimeError(…));
    -- every fix-up starts with a ToInt32 coercion, which truncates the fraction toward zero
    match JSInt.div x y with
    | .nonFinite => .panic
    | .trunc q => .ok (.int (fixNumber τ q))
  | .rem =>                                                         -- REM case (after fix C06-rem-fixup)
    -- (_r = x % y, _r === _r ? fixNumber(_r) : $throwRuntimeError(…))
    match JSInt.rem x y with
    | none => .panic
    | some r => .ok (.int (fixNumber τ r.toInt))
  | .and => .ok (.int (if τ.signed then band x y else shr (band x y) 0))   -- :420-424
  | .or => .ok (.int (if τ.signed then bor x y else shr (bor x y) 0))
  | .andNot => .ok (.int (fixNumber τ (band x (bnot y))))           -- :425-426 fixNumber("%e & ~%e")
  | .xor => .ok (.int (fixNumber τ (bxor x y)))                     -- :427-428

/-- every intermediate JS number of `schemeBin` (before coercions), for `exact_doubles` -/
def schemeBinInter (τ : ITy) (op : BinOp) (x y : Int) : List Int :=
  match op with
  | .add => [x + y]
  | .sub => [x - y]
  | .mul =>
    match τ with
    | .int8 | .int16 | .uint8 | .uint16 => [x * y]
    | _ => [imul x y]
  | .quo => match JSInt.div x y with | .trunc q => [q] | .nonFinite => []
  | .rem => match JSInt.rem x y with | some r => [r.toInt] | none => []
  | .and => [band x y]
  | .or => [bor x y]
  | .andNot => [bnot y, band x (bnot y)]
  | .xor => [bxor x y]

/-- the JS shift operator chosen at expressions.go:403-406 -/
def jsShift (τ : ITy) (op : ShOp) (x n : Int) : Int :=
  match op with
  | .shl => shl x n
  | .shr => if τ.signed then sar x n else shr x n

/-- expressions.go:402-418, shifts. `n` is the value of the count (a 64-bit count goes through `$flatten64`, `%f`).
    constant count: `i >= 32 → 0` (signed `>>`: `fixNumber((%e >> 31))`, fix C06-shr-const-count), else `fixNumber("%e op i")`;
    variable count, signed `>>`: `fixNumber((%e >> $min(%f, 31)))`;
    otherwise `fixNumber((y = %f, y < 32 ? (%e op y) : 0))`. -/
def schemeShift (τ : ITy) (op : ShOp) (constCount : Bool) (x n : Int) : Int :=
  if constCount then
    (if n ≥ 32 then (if op = .shr ∧ τ.signed then fixNumber τ (sar x 31) else 0) else fixNumber τ (jsShift τ op x n))
  else if op = .shr ∧ τ.signed then fixNumber τ (sar x (jsMin n 31))
  else fixNumber τ (if n < 32 then jsShift τ op x n else 0)

/-- unary operators (expressions.go, `case *ast.UnaryExpr`): `fixNumber("-%e")` for every non-64-bit integer type
    (after fix C06-unary-minus; the parenthesised fix-up also keeps `- -a` from being emitted as `--a`), `fixNumber("~%e")`. -/
def schemeUn (τ : ITy) (op : UnOp) (x : Int) : JSNum :=
  match op with
  | .neg => .int (fixNumber τ (JSInt.neg x).toInt)
  | .not => .int (fixNumber τ (bnot x))

/-- expressions.go:363-376: `===`, `<`, `<=`, `>`, `>=` on JS numbers; `!=` is `!(… === …)` (:315-321). -/
def schemeCmp (op : CmpOp) (x y : Int) : Bool :=
  match op with
  | .eql => decide (x = y)
  | .neq => !decide (x = y)
  | .lss => decide (x < y)
  | .leq => decide (x ≤ y)
  | .gtr => decide (x > y)
  | .geq => decide (x ≥ y)

/-- expressions.go:1150-1151: conversion between non-64-bit integer types is `fixNumber(expr, desiredType)`. -/
def conv (to : ITy) (x : Int) : Int := fixNumber to x

/-- expressions.go:1143-1147: 64-bit → small: `fixNumber((%1l + ((%1h >> 31) * 4294967296)))` when both are
    signed, else `fixNumber(x.$low)`. -/
def conv64to (fromSigned : Bool) (to : ITy) (x : W64) : Int :=
  if to.signed ∧ fromSigned then fixNumber to (x.low + (sar x.high 31) * 4294967296)
  else fixNumber to x.low

/-- expressions.go:1135-1141: small → 64-bit: `new T(0, %e)`; 64 → 64: `new T(%h, %l)`. -/
def convTo64 (s : Bool) (x : Int) : W64 := mk64 s 0 x
def conv64to64 (s : Bool) (x : W64) : W64 := mk64 s x.high x.low

/-- expressions.go:330-361, binary operators on int64/uint64 (`s` = signed); `none` = divide-by-zero panic. -/
def scheme64Bin (s : Bool) (op : BinOp) (x y : W64) : Option W64 :=
  match op with
  | .add => some (mk64 s (x.high + y.high) (x.low + y.low))        -- new T(%1h + %2h, %1l + %2l)
  | .sub => some (mk64 s (x.high - y.high) (x.low - y.low))
  | .mul => some (mul64 s x y)
  | .quo => div64 s x y false
  | .rem => div64 s x y true
  | .and => some (mk64 s (band x.high y.high) (shr (band x.low y.low) 0))   -- new T(%1h & %2h, (%1l & %2l) >>> 0)
  | .or => some (mk64 s (bor x.high y.high) (shr (bor x.low y.low) 0))
  | .xor => some (mk64 s (bxor x.high y.high) (shr (bxor x.low y.low) 0))
  | .andNot => some (mk64 s (band x.high (bnot y.high)) (shr (band x.low (bnot y.low)) 0))

/-- expressions.go:292-293, 303-305: `new T(-%h, -%l)`, `new T(~%h, ~%l >>> 0)` -/
def scheme64Un (s : Bool) (op : UnOp) (x : W64) : W64 :=
  match op with
  | .neg => mk64 s (-x.high) (-x.low)
  | .not => mk64 s (bnot x.high) (shr (bnot x.low) 0)

/-- expressions.go:338-341 -/
def scheme64Shift (s : Bool) (op : ShOp) (x : W64) (n : Int) : W64 :=
  match op with
  | .shl => shiftLeft64 s x n
  | .shr => if s then shiftRightInt64 x n else shiftRightUint64 x n

/-- expressions.go:342-351: comparisons on the halves -/
def scheme64Cmp (op : CmpOp) (x y : W64) : Bool :=
  match op with
  | .eql => decide (x.high = y.high ∧ x.low = y.low)
  | .neq => !decide (x.high = y.high ∧ x.low = y.low)
  | .lss => decide (x.high < y.high ∨ (x.high = y.high ∧ x.low < y.low))
  | .leq => decide (x.high < y.high ∨ (x.high = y.high ∧ x.low ≤ y.low))
  | .gtr => decide (x.high > y.high ∨ (x.high = y.high ∧ x.low > y.low))
  | .geq => decide (x.high > y.high ∨ (x.high = y.high ∧ x.low ≥ y.low))

/-! ### Repaired defects: the schemes as they were before the fixes C06-unary-minus, C06-quo-fixup, C06-rem-fixup,
    C06-shr-const-count (kept only so that the old counterexamples stay machine-checked) -/

/-- before C06-unary-minus: `-%e` without fix-up for signed types -/
def schemeNegV0 (τ : ITy) (x : Int) : JSNum :=
  if τ.signed then JSInt.neg x else .int (fixNumber τ (JSInt.neg x).toInt)

/-- before C06-quo-fixup: `_q >> 0` / `_q >>> 0` for every width -/
def schemeQuoV0 (τ : ITy) (x y : Int) : Res :=
  match JSInt.div x y with
  | .nonFinite => .panic
  | .trunc q => .ok (.int (if τ.signed then sar q 0 else shr q 0))

/-- before C06-rem-fixup: `_r` without fix-up -/
def schemeRemV0 (x y : Int) : Res :=
  match JSInt.rem x y with
  | none => .panic
  | some r => .ok r

/-- before C06-shr-const-count: a constant count ≥ 32 folded to the literal 0 -/
def schemeShiftConstV0 (τ : ITy) (op : ShOp) (x n : Int) : Int :=
  if n ≥ 32 then 0 else fixNumber τ (jsShift τ op x n)

end GV.NumScheme
