/-
  GV.Model.Slice — transcription of the slice helpers of compiler/prelude/prelude.js and types.js:
  `$subslice` (prelude.js:168-186), `$copySlice` (362-366), `$copyArray` (368-402), `$append` (434-436),
  `$appendSlice` (438-444), `$internalAppend` (455-468), `$calculateNewCapacity` (473-475),
  `$growSlice` (484-515), `$makeSlice` (types.js:675-691), `$sliceToGoArray` (prelude.js:207-232).

  A slice is a header (`$array`, `$offset`, `$length`, `$capacity`) over a heap of backing arrays.
  The heap of arrays is `List (List α)`, an array id is its index; `α` is the cell value. Typed-array
  backing (`Int32Array` …) and plain `Array` backing are distinguished only where the code does
  (`src.subarray` in `$copyArray`, `array.constructor === Array` in `$growSlice`); typed `set` is the
  ECMAScript memmove (%TypedArray%.prototype.set clones the source when the buffers coincide).
-/
namespace GV.Slice

/-- slice object (types.js:227-245); `isNil` records `slice === slice.constructor.nil`. -/
structure Hdr where
  arr : Nat
  off : Nat
  len : Nat
  cap : Nat
  isNil : Bool
deriving DecidableEq, Repr

/-- what the element representation is: TypedArray cell / plain Array of immediates or references /
    plain Array of struct-or-array objects (`elem.kind` ∈ {$kindArray,$kindStruct}). -/
inductive Kind where
  | typed | plain | spine
deriving DecidableEq, Repr

abbrev Arrays (α : Type) := List (List α)

def getArr {α} (A : Arrays α) (id : Nat) : List α := A.getD id []

/-- header invariant: `len ≤ cap` and the capacity window lies inside the backing array -/
def Hdr.wf {α} (A : Arrays α) (s : Hdr) : Prop :=
  s.len ≤ s.cap ∧ s.off + s.cap ≤ (getArr A s.arr).length

/-- the elements a Go program sees through the header -/
def view {α} (A : Arrays α) (s : Hdr) : List α := ((getArr A s.arr).drop s.off).take s.len

/-- the whole capacity window -/
def capView {α} (A : Arrays α) (s : Hdr) : List α := ((getArr A s.arr).drop s.off).take s.cap

/-- prelude.js:168-186 `$subslice(slice, low, high, max)`; `none` = `$throwRuntimeError("slice bounds out of range")`. -/
def subslice (s : Hdr) (low : Int) (high max : Option Int) : Option Hdr :=
  let high := high.getD s.len
  let max := max.getD s.cap
  if low < 0 ∨ high < low ∨ max < high ∨ high > s.cap ∨ max > s.cap then none
  else if s.isNil then some s
  else some { arr := s.arr, off := s.off + low.toNat, len := (high - low).toNat, cap := (max - low).toNat, isNil := false }

/-- one iteration `dst[dstOffset + i] = src[srcOffset + i]` (prelude.js:383,387,394,399; for struct/array
    elements `elem.copy(dst[..], src[..])`, which overwrites the *contents* of the destination element).
    When `same` the source array is the array being written. -/
def stepCopy {α} (same : Bool) (src : List α) (dOff sOff : Nat) (d : List α) (i : Nat) : List α :=
  match (if same then d else src)[sOff + i]? with
  | some v => d.set (dOff + i) v
  | none => d

/-- `for (var i = 0; i < n; i++)` -/
def copyFwd {α} (same : Bool) (dst src : List α) (dOff sOff n : Nat) : List α :=
  (List.range n).foldl (stepCopy same src dOff sOff) dst

/-- `for (var i = n - 1; i >= 0; i--)` -/
def copyBwd {α} (same : Bool) (dst src : List α) (dOff sOff n : Nat) : List α :=
  (List.range n).reverse.foldl (stepCopy same src dOff sOff) dst

/-- `dst.set(src.subarray(srcOffset, srcOffset + n), dstOffset)` (prelude.js:374): ECMAScript memmove. -/
def memmove {α} (dst src : List α) (dOff sOff n : Nat) : List α :=
  let chunk := (src.drop sOff).take n
  dst.take dOff ++ chunk ++ dst.drop (dOff + chunk.length)

/-- prelude.js:368-402 `$copyArray(dst, src, dstOffset, srcOffset, n, elem)`.
    `srcTyped` = `src.subarray` is defined; `same` = `dst === src` (then `src` must be `dst`).
    The struct/array branch (380-390) and the default branch (392-401) have the same loop structure. -/
def copyArray {α} (srcTyped : Bool) (spine : Bool) (same : Bool) (dst src : List α) (dOff sOff n : Nat) : List α :=
  if n = 0 ∨ (same = true ∧ dOff = sOff) then dst
  else if srcTyped then memmove dst src dOff sOff n
  else if spine then
    if same = true ∧ dOff > sOff then copyBwd same dst src dOff sOff n else copyFwd same dst src dOff sOff n
  else
    if same = true ∧ dOff > sOff then copyBwd same dst src dOff sOff n else copyFwd same dst src dOff sOff n

/-- prelude.js:362-366 `$copySlice(dst, src)`: returns the new heap and `n`. -/
def copySlice {α} (k : Kind) (A : Arrays α) (dst src : Hdr) : Arrays α × Nat :=
  let n := min src.len dst.len
  let same := dst.arr == src.arr
  let d := getArr A dst.arr
  let d' := copyArray (k == .typed) (k == .spine) same d (getArr A src.arr) dst.off src.off n
  (A.set dst.arr d', n)

/-- prelude.js:473-475 -/
def calculateNewCapacity (minCapacity oldCapacity : Nat) : Nat :=
  max minCapacity (if oldCapacity < 1024 then oldCapacity * 2 else oldCapacity * 5 / 4)

structure Grown (α : Type) where
  arrays : Arrays α
  hdr : Hdr
  /-- does the new backing array hold the *same element objects* as the old window? `array.slice` is shallow, but
      since the repair of C07-growslice-shares-elements the kept elements of array/struct kind are `$clone`d
      (prelude.js `$growSlice`, the loop right after `array.slice`), so this is always `false`. -/
  reusedElemObjects : Bool

/-- `$growSlice` BEFORE the repair shared the element objects of a non-empty reallocated window of array/struct
    elements (kept for the "repaired defects" section of GV.Props.C07). -/
def reusedBeforeRepair (k : Kind) (s : Hdr) (minCapacity : Nat) : Bool :=
  decide (minCapacity > s.cap) && k == .spine && decide (s.len > 0)

/-- prelude.js `$growSlice(slice, minCapacity)`; a new slice object is always returned. -/
def growSlice {α} (_k : Kind) (zero : α) (A : Arrays α) (s : Hdr) (minCapacity : Nat) : Grown α :=
  if minCapacity > s.cap then
    let capacity := calculateNewCapacity minCapacity s.cap
    let old := ((getArr A s.arr).drop s.off).take s.len
    -- Array: `array.slice(offset, offset+length)`, kept array/struct elements `$clone`d, `length = capacity`, zero fill;
    -- typed: `new ctor(capacity)` + `set`
    let newArray := old ++ List.replicate (capacity - s.len) zero
    { arrays := A ++ [newArray],
      hdr := { arr := A.length, off := 0, len := s.len, cap := capacity, isNil := false },
      reusedElemObjects := false }
  else
    { arrays := A, hdr := { s with isNil := false }, reusedElemObjects := false }

/-- prelude.js:455-468 `$internalAppend(slice, array, offset, length)`. The source is either a heap array
    (`srcId = some id`, from `$appendSlice`) or the `arguments` object of `$append` (`srcId = none`, cells `args`,
    never typed, never the destination). -/
def internalAppend {α} (k : Kind) (zero : α) (A : Arrays α) (s : Hdr) (srcId : Option Nat) (args : List α)
    (offset length : Nat) : Grown α :=
  if length = 0 then { arrays := A, hdr := s, reusedElemObjects := false }
  else
    let newLength := s.len + length
    let g := growSlice k zero A s newLength
    let newArray := getArr g.arrays g.hdr.arr
    let (same, src, srcTyped) :=
      match srcId with
      | some id => (id == g.hdr.arr, getArr g.arrays id, k == Kind.typed)
      | none => (false, args, false)
    let newArray' := copyArray srcTyped (k == Kind.spine) same newArray src (g.hdr.off + g.hdr.len) offset length
    { arrays := g.arrays.set g.hdr.arr newArray',
      hdr := { g.hdr with len := newLength },
      reusedElemObjects := g.reusedElemObjects }

/-- prelude.js:434-436 `$append(slice, v1, …, vn)` -/
def append {α} (k : Kind) (zero : α) (A : Arrays α) (s : Hdr) (vals : List α) : Grown α :=
  internalAppend k zero A s none vals 0 vals.length

/-- prelude.js:438-444 `$appendSlice(slice, toAppend)` (slice operand; the string operand belongs to C14) -/
def appendSlice {α} (k : Kind) (zero : α) (A : Arrays α) (s t : Hdr) : Grown α :=
  internalAppend k zero A s (some t.arr) [] t.off t.len

inductive MakeResult (α : Type) where
  | ok (A : Arrays α) (s : Hdr)
  | panicLen
  | panicCap

/-- types.js:675-691 `$makeSlice(typ, length, capacity = length)` -/
def makeSlice {α} (zero : α) (A : Arrays α) (length : Int) (capacity : Option Int) : MakeResult α :=
  let capacity := capacity.getD length
  if length < 0 ∨ length > 2147483647 then .panicLen
  else if capacity < 0 ∨ capacity < length ∨ capacity > 2147483647 then .panicCap
  else .ok (A ++ [List.replicate capacity.toNat zero])
           { arr := A.length, off := 0, len := length.toNat, cap := capacity.toNat, isNil := false }

inductive ToArray where
  | panicLength            -- "cannot convert slice with length …"
  | nilPtr                 -- nil slice → nil array pointer
  | shares (arr off : Nat) -- the result aliases cells `[off, off+len)` of backing array `arr`
  | freshEmpty             -- `new arrayType([])`
  | unsupported            -- "non-numeric slice to underlying array conversion is not supported for subslices"
deriving DecidableEq, Repr

/-- prelude.js:207-232 `$sliceToGoArray(slice, arrayPtrType)` with `arrayType.len = n` -/
def sliceToGoArray (k : Kind) (s : Hdr) (n : Nat) : ToArray :=
  if s.len < n then .panicLength
  else if s.isNil then .nilPtr
  else if k = .typed then .shares s.arr s.off
  else if s.off = 0 ∧ s.len = s.cap ∧ s.len = n then .shares s.arr 0
  else if n = 0 then .freshEmpty
  else .unsupported

end GV.Slice
