/-
  GV.Model.Ctrl — MiniGo: structured control flow over an abstract store (core Lean only).

  Shared by C01 (direct translation) and C02 (flattened, resumable translation).  The language is the
  control skeleton of a Go function body *after* astrewrite simplification
  (`compiler/sources/sources.go:78-90`, vendor `astrewrite/simplify.go`):

    * primitive actions, conditions and calls are OPAQUE total functions of the store (`Env`); they may
      append to an output trace, which is simply part of the store `σ`;
    * `call f` is a statement that may suspend the goroutine (only the flattened translation cares);
    * `for init; c; post { b }`  is  `block (seq init (loop ℓ? c post b))` (`statements.go:174-189` emits the
      init statement in front of the loop); `post` is a Go *simple statement*, hence `Simple`;
    * `switch` arrives from astrewrite as a single default clause holding `_tag := x` and an if-else chain
      (`simplify.go:457-473`, `fallthrough` is resolved there by body duplication), i.e. a *breakable block*:
      `sw ℓ? body`;
    * `if c {t} else if c' {t'} else {e}` is `ite c t (ite c' t' (block e))`; a missing else is `skip`;
    * labels are attached to the loop / switch they name (`translateStmt(stmt, label)`, `statements.go:460-466`);
      `goto` is not modelled.

  Reference semantics: big-step with completion signals {normal, break ℓ?, continue ℓ?, return}, as an
  inductive relation `Eval` (for proofs) and as a fuel-indexed interpreter `evalF` (for the drivers), linked by
  `evalF_sound`.
-/
namespace GV.Ctrl

/-- Interpretation of the opaque primitives over a store `σ` (the trace is part of `σ`). -/
structure Env (σ : Type) where
  /-- primitive action (assignment, println, ...) -/
  act  : Nat → σ → σ
  /-- condition; may have side effects (e.g. print) -/
  cond : Nat → σ → Bool × σ
  /-- total effect of calling `f` to completion (callee frames are abstracted) -/
  call : Nat → σ → σ

/-- Go simple statement used as the post statement of a `for` clause. -/
inductive Simple where
  | none
  | act (a : Nat)
  | call (f : Nat)
  deriving Repr, DecidableEq, Inhabited

inductive Stmt where
  | skip
  | act (a : Nat)
  | call (f : Nat)
  | seq (s t : Stmt)
  | ite (c : Nat) (t e : Stmt)
  | loop (l : Option Nat) (c : Option Nat) (post : Simple) (body : Stmt)
  | sw (l : Option Nat) (body : Stmt)
  | brk (l : Option Nat)
  | cont (l : Option Nat)
  | ret
  | block (s : Stmt)
  deriving Repr, DecidableEq, Inhabited

/-- completion signal of a statement -/
inductive Sig where
  | normal
  | brk (l : Option Nat)
  | cont (l : Option Nat)
  | ret
  deriving Repr, DecidableEq, Inhabited

/-- what a loop labelled `l` does with the completion signal of its body -/
inductive LoopAct where
  | again   -- run the post statement and iterate
  | exit    -- leave the loop normally
  | prop    -- propagate the signal
  deriving Repr, DecidableEq

def targets (l : Option Nat) : Option Nat → Bool
  | none => true
  | some x => l == some x

def loopAct (l : Option Nat) : Sig → LoopAct
  | .normal => .again
  | .cont x => if targets l x then .again else .prop
  | .brk x => if targets l x then .exit else .prop
  | .ret => .prop

/-- completion of a switch (breakable block) labelled `l` whose body completed with `g` -/
def swSig (l : Option Nat) : Sig → Sig
  | .brk x => if targets l x then .normal else .brk x
  | g => g

def evalCond (E : Env σ) : Option Nat → σ → Bool × σ
  | none, st => (true, st)
  | some c, st => E.cond c st

def evalSimple (E : Env σ) : Simple → σ → σ
  | .none, st => st
  | .act a, st => E.act a st
  | .call f, st => E.call f st

/-- Reference big-step semantics (Go spec: for/switch/break/continue/return). -/
inductive Eval (E : Env σ) : Stmt → σ → Sig → σ → Prop where
  | skip : Eval E .skip st .normal st
  | act : Eval E (.act a) st .normal (E.act a st)
  | call : Eval E (.call f) st .normal (E.call f st)
  | seqN : Eval E s st .normal st1 → Eval E t st1 g st2 → Eval E (.seq s t) st g st2
  | seqA : Eval E s st g st1 → g ≠ .normal → Eval E (.seq s t) st g st1
  | iteT : E.cond c st = (true, st1) → Eval E t st1 g st2 → Eval E (.ite c t e) st g st2
  | iteF : E.cond c st = (false, st1) → Eval E e st1 g st2 → Eval E (.ite c t e) st g st2
  | block : Eval E s st g st1 → Eval E (.block s) st g st1
  | brk : Eval E (.brk l) st (.brk l) st
  | cont : Eval E (.cont l) st (.cont l) st
  | ret : Eval E .ret st .ret st
  | sw : Eval E b st g st1 → Eval E (.sw l b) st (swSig l g) st1
  | loopDone : evalCond E c st = (false, st1) → Eval E (.loop l c p b) st .normal st1
  | loopAgain : evalCond E c st = (true, st1) → Eval E b st1 g st2 → loopAct l g = .again →
      Eval E (.loop l c p b) (evalSimple E p st2) g' st3 → Eval E (.loop l c p b) st g' st3
  | loopExit : evalCond E c st = (true, st1) → Eval E b st1 g st2 → loopAct l g = .exit →
      Eval E (.loop l c p b) st .normal st2
  | loopProp : evalCond E c st = (true, st1) → Eval E b st1 g st2 → loopAct l g = .prop →
      Eval E (.loop l c p b) st g st2

/-- Fuel-indexed interpreter (drivers). `none` = out of fuel. -/
def evalF (E : Env σ) : Nat → Stmt → σ → Option (Sig × σ)
  | 0, _, _ => none
  | fuel + 1, s, st =>
    match s with
    | .skip => some (.normal, st)
    | .act a => some (.normal, E.act a st)
    | .call f => some (.normal, E.call f st)
    | .seq s t =>
      match evalF E fuel s st with
      | some (.normal, st1) => evalF E fuel t st1
      | r => r
    | .ite c t e =>
      match E.cond c st with
      | (true, st1) => evalF E fuel t st1
      | (false, st1) => evalF E fuel e st1
    | .block s => evalF E fuel s st
    | .brk l => some (.brk l, st)
    | .cont l => some (.cont l, st)
    | .ret => some (.ret, st)
    | .sw l b =>
      match evalF E fuel b st with
      | some (g, st1) => some (swSig l g, st1)
      | none => none
    | .loop l c p b =>
      match evalCond E c st with
      | (false, st1) => some (.normal, st1)
      | (true, st1) =>
        match evalF E fuel b st1 with
        | none => none
        | some (g, st2) =>
          match loopAct l g with
          | .again => evalF E fuel (.loop l c p b) (evalSimple E p st2)
          | .exit => some (.normal, st2)
          | .prop => some (g, st2)

/-- The interpreter only produces derivable results. -/
theorem evalF_sound (E : Env σ) : ∀ fuel s st g st', evalF E fuel s st = some (g, st') → Eval E s st g st' := by
  intro fuel
  induction fuel with
  | zero => intro s st g st' h; simp [evalF] at h
  | succ n ih =>
    intro s st g st' h
    cases s with
    | skip => simp [evalF] at h; obtain ⟨rfl, rfl⟩ := h; exact .skip
    | act a => simp [evalF] at h; obtain ⟨rfl, rfl⟩ := h; exact .act
    | call f => simp [evalF] at h; obtain ⟨rfl, rfl⟩ := h; exact .call
    | brk l => simp [evalF] at h; obtain ⟨rfl, rfl⟩ := h; exact .brk
    | cont l => simp [evalF] at h; obtain ⟨rfl, rfl⟩ := h; exact .cont
    | ret => simp [evalF] at h; obtain ⟨rfl, rfl⟩ := h; exact .ret
    | block s => simp only [evalF] at h; exact .block (ih _ _ _ _ h)
    | seq s t =>
      simp only [evalF] at h
      cases h1 : evalF E n s st with
      | none => rw [h1] at h; simp at h
      | some r =>
        obtain ⟨g1, st1⟩ := r
        rw [h1] at h
        cases g1 with
        | normal => exact .seqN (ih _ _ _ _ h1) (ih _ _ _ _ h)
        | brk l => simp at h; obtain ⟨rfl, rfl⟩ := h; exact .seqA (ih _ _ _ _ h1) (by simp)
        | cont l => simp at h; obtain ⟨rfl, rfl⟩ := h; exact .seqA (ih _ _ _ _ h1) (by simp)
        | ret => simp at h; obtain ⟨rfl, rfl⟩ := h; exact .seqA (ih _ _ _ _ h1) (by simp)
    | ite c t e =>
      simp only [evalF] at h
      cases hc : E.cond c st with
      | mk b st1 =>
        rw [hc] at h
        cases b with
        | true => exact .iteT hc (ih _ _ _ _ h)
        | false => exact .iteF hc (ih _ _ _ _ h)
    | sw l b =>
      simp only [evalF] at h
      cases h1 : evalF E n b st with
      | none => rw [h1] at h; simp at h
      | some r =>
        obtain ⟨g1, st1⟩ := r
        rw [h1] at h; simp at h; obtain ⟨rfl, rfl⟩ := h
        exact .sw (ih _ _ _ _ h1)
    | loop l c p b =>
      simp only [evalF] at h
      cases hc : evalCond E c st with
      | mk bb st1 =>
        rw [hc] at h
        cases bb with
        | false => simp at h; obtain ⟨rfl, rfl⟩ := h; exact .loopDone hc
        | true =>
          simp only at h
          cases h1 : evalF E n b st1 with
          | none => rw [h1] at h; simp at h
          | some r =>
            obtain ⟨g1, st2⟩ := r
            rw [h1] at h; simp only at h
            cases ha : loopAct l g1 with
            | again => rw [ha] at h; exact .loopAgain hc (ih _ _ _ _ h1) ha (ih _ _ _ _ h)
            | exit => rw [ha] at h; simp at h; obtain ⟨rfl, rfl⟩ := h; exact .loopExit hc (ih _ _ _ _ h1) ha
            | prop => rw [ha] at h; simp at h; obtain ⟨rfl, rfl⟩ := h; exact .loopProp hc (ih _ _ _ _ h1) ha

/-! ### Syntactic helpers shared by the translations -/

def Simple.isCall : Simple → Bool
  | .call _ => true
  | _ => false

/-- `astutil.EndsWithReturn` (`compiler/astutil/astutil.go:263-278`) on the statement list of `s`. -/
def endsWithReturn : Stmt → Bool
  | .seq _ t => endsWithReturn t
  | .block s => endsWithReturn s
  | .ret => true
  | _ => false

/-- last statement of the list is a return or branch statement (`statements.go:667-672`, `isTerminated`). -/
def lastIsBranch : Stmt → Bool
  | .seq _ t => lastIsBranch t
  | .brk _ => true
  | .cont _ => true
  | .ret => true
  | _ => false

/-- the statement contains a call (a potential suspension point) -/
def hasCall : Stmt → Bool
  | .call _ => true
  | .seq s t => hasCall s || hasCall t
  | .ite _ t e => hasCall t || hasCall e
  | .loop _ _ p b => p.isCall || hasCall b
  | .sw _ b => hasCall b
  | .block s => hasCall s
  | _ => false

theorem eval_endsWithReturn (E : Env σ) : ∀ {s st g st'}, Eval E s st g st' → endsWithReturn s = true → g ≠ .normal := by
  intro s st g st' h
  induction h with
  | seqN _ _ _ ih2 => intro hr; exact ih2 (by simpa [endsWithReturn] using hr)
  | seqA _ hne _ => intro _; exact hne
  | block _ ih => intro hr; exact ih (by simpa [endsWithReturn] using hr)
  | ret => intro _; simp
  | _ => intro hr; simp [endsWithReturn] at hr

theorem eval_lastIsBranch (E : Env σ) : ∀ {s st g st'}, Eval E s st g st' → lastIsBranch s = true → g ≠ .normal := by
  intro s st g st' h
  induction h with
  | seqN _ _ _ ih2 => intro hr; exact ih2 (by simpa [lastIsBranch] using hr)
  | seqA _ hne _ => intro _; exact hne
  | ret => intro _; simp
  | brk => intro _; simp
  | cont => intro _; simp
  | _ => intro hr; simp [lastIsBranch] at hr

/-! ### Erasing calls that do nothing (the inserted `yield(site)` statements of C02) -/

def eraseSimple (isY : Nat → Bool) : Simple → Simple
  | .call f => if isY f then .none else .call f
  | p => p

/-- remove every call statement selected by `isY` -/
def eraseCalls (isY : Nat → Bool) : Stmt → Stmt
  | .call f => if isY f then .skip else .call f
  | .seq s t => .seq (eraseCalls isY s) (eraseCalls isY t)
  | .ite c t e => .ite c (eraseCalls isY t) (eraseCalls isY e)
  | .loop l c p b => .loop l c (eraseSimple isY p) (eraseCalls isY b)
  | .sw l b => .sw l (eraseCalls isY b)
  | .block s => .block (eraseCalls isY s)
  | s => s

theorem evalSimple_erase (E : Env σ) (isY : Nat → Bool) (hY : ∀ f st, isY f = true → E.call f st = st) (p : Simple) (st : σ) :
    evalSimple E (eraseSimple isY p) st = evalSimple E p st := by
  cases p with
  | none => rfl
  | act a => rfl
  | call f =>
    simp only [eraseSimple]
    split
    · rename_i h; simp only [evalSimple]; exact (hY f st h).symm
    · rfl

/-- a program with extra calls that have no effect on the store computes what the program without them computes -/
theorem eval_erase (E : Env σ) (isY : Nat → Bool) (hY : ∀ f st, isY f = true → E.call f st = st) :
    ∀ {s st g st'}, Eval E s st g st' → Eval E (eraseCalls isY s) st g st' := by
  intro s st g st' h
  induction h with
  | skip => exact .skip
  | act => exact .act
  | @call f st =>
    simp only [eraseCalls]
    split
    · rename_i h; rw [hY f st h]; exact .skip
    · exact .call
  | seqN _ _ ih1 ih2 => exact .seqN ih1 ih2
  | seqA _ hne ih1 => exact .seqA ih1 hne
  | iteT hc _ ih => exact .iteT hc ih
  | iteF hc _ ih => exact .iteF hc ih
  | block _ ih => exact .block ih
  | brk => exact .brk
  | cont => exact .cont
  | ret => exact .ret
  | sw _ ih => exact .sw ih
  | loopDone hc => exact .loopDone hc
  | loopAgain hc _ ha _ ih1 ih2 =>
    refine .loopAgain hc ih1 ha ?_
    rw [evalSimple_erase E isY hY]
    exact ih2
  | loopExit hc _ ha ih1 => exact .loopExit hc ih1 ha
  | loopProp hc _ ha ih1 => exact .loopProp hc ih1 ha

end GV.Ctrl
