/-
  GV.Model.Augment — executable model of the overlay merge of gopherjs
  (`/repo/build/build.go:170-597`, directives of `/repo/compiler/astutil/astutil.go:77-223`).

  A Go file is projected to a list of top-level declarations. Everything the merge code looks at is
  kept: names, receiver keys, directive actions of the associated comment groups, the selector heads
  (see below), and for every comment group whether it carries a
  `//go:linkname ` / `//go:embed ` line. Everything the merge code treats as opaque (bodies, signatures,
  initialiser expressions) is an identity number assigned by the projection (pointer identity of the
  AST node), so that "the original body under the new signature" is visible.

  INPUT CONTRACT for every `sels` / `tsels` / `bsels` list: it holds the base identifiers `X` of the selector
  expressions `X.Sel` of that subtree whose `X` DOES NOT RESOLVE TO A FILE-LOCAL OBJECT — i.e. `X` names an
  import, a universe or dot-imported object, nothing at all, or a package-level object declared in another file.
  A local variable, parameter, receiver, named result, type parameter or a package-level declaration of the same
  file spelled like an import is NOT in the list. build.go:487-489 implements this test as `id.Obj == nil`, which
  is only correct when the files were parsed WITH the parser's object resolution (build.go:231,256 use plain
  `parser.ParseComments`); the harness computes the lists with go/types, independently of `ast.Object`, and the
  tie through the real `parseAndAugment` (which does its own parsing) checks that the two agree.

  Slices whose elements are set to `nil` and squeezed later (`file.Decls`, `GenDecl.Specs`,
  `ValueSpec.Names`, `ValueSpec.Values`) are lists of `Option`s; parsed files contain no `none`.
  `file.Imports` is not stored: it is the list of import specs of the declarations (the parser fills it
  that way and every function below keeps both views in step); the position of an import in that list
  (pointer identity in the Go code) is the `id` of the import spec.
-/
namespace GV.Augment

/-- one comment group: does one of its lines start with `//go:linkname ` / `//go:embed ` -/
structure Cm where
  linkname : Bool
  embed : Bool
deriving DecidableEq, Repr, Inhabited

/-- an initialiser expression. `id` = identity; for constants of the generated grammar the value is
`a * iota + b`; `sels` = unresolved selector heads inside the expression. -/
structure Val where
  id : Nat
  a : Nat
  b : Nat
  sels : List String
deriving DecidableEq, Repr, Inhabited

/-- an identifier of a value spec (`id` = identity of the `*ast.Ident`) -/
structure Name where
  id : Nat
  n : String
deriving DecidableEq, Repr, Inhabited

structure ImportSpec where
  id : Nat
  name : Option String
  path : String
  dirs : List String
  cms : List Cm
deriving DecidableEq, Repr, Inhabited

inductive Spec where
  | type (id : Nat) (name : String) (dirs : List String) (sels : List String) (cms : List Cm)
  | value (names : List (Option Name)) (values : List (Option Val)) (dirs : List String)
      (tsels : List String) (cms : List Cm)
  | imp (i : ImportSpec)
deriving DecidableEq, Repr, Inhabited

inductive Tok where
  | imp | const | type | var
deriving DecidableEq, Repr, Inhabited

/-- receiver + type parameters + parameters + results of a function declaration: exactly the four
fields `override-signature` transplants (build.go:363-368). `recvKey` = `astutil.FuncReceiverKey`
("" = no receiver). -/
structure Sig where
  id : Nat
  recvKey : String
  sels : List String
  cms : List Cm
deriving DecidableEq, Repr, Inhabited

structure Func where
  id : Nat
  name : String
  dirs : List String
  doc : List Cm
  sig : Sig
  bsels : List String
  bcms : List Cm
deriving DecidableEq, Repr, Inhabited

inductive Decl where
  | func (f : Func)
  | gen (tok : Tok) (dirs : List String) (doc : List Cm) (specs : List (Option Spec))
deriving DecidableEq, Repr, Inhabited

structure File where
  doc : List Cm
  /-- `file.Comments` -/
  comments : List Cm
  decls : List (Option Decl)
deriving DecidableEq, Repr, Inhabited

/-- build.go:126-142 `overrideInfo` -/
structure Info where
  keep : Bool := false
  purge : Bool := false
  oversig : Option Sig := none
deriving DecidableEq, Repr, Inhabited

/-- the Go map `overrides` as an association list with distinct keys -/
abbrev Overrides := List (String × Info)

def erase {β : Type} (k : String) (m : List (String × β)) : List (String × β) := m.filter (fun p => p.1 ≠ k)
def set {β : Type} (k : String) (v : β) (m : List (String × β)) : List (String × β) := (k, v) :: erase k m
def get {β : Type} (k : String) (m : List (String × β)) : Option β := (m.find? (fun p => p.1 == k)).map (·.2)
def has {β : Type} (k : String) (m : List (String × β)) : Bool := (get k m).isSome

/-- astutil.go:193-210 `hasDirective`, on the projected directive actions of the node's own comment groups -/
def hasDir (dirs : List String) (a : String) : Bool := dirs.contains a

/-- astutil.go:102-107 `FuncKey` -/
def funcKey (f : Func) : String :=
  if f.sig.recvKey ≠ "" then f.sig.recvKey ++ "." ++ f.name else f.name

def Spec.dirs : Spec → List String
  | .type _ _ d _ _ => d
  | .value _ _ d _ _ => d
  | .imp i => i.dirs

def Decl.dirs : Decl → List String
  | .func f => f.dirs
  | .gen _ d _ _ => d

/-- astutil.go:284-296 `Squeeze`: drop the nil entries, keep the order -/
def squeeze {α : Type} (l : List (Option α)) : List (Option α) := (l.filterMap id).map some

/-! ### comment groups reachable from the tree (what `finalizeRemovals` keeps, build.go:588-596) -/

def Spec.cms : Spec → List Cm
  | .type _ _ _ _ c => c
  | .value _ _ _ _ c => c
  | .imp i => i.cms

def Decl.cms : Decl → List Cm
  | .func f => f.doc ++ f.sig.cms ++ f.bcms
  | .gen _ _ doc specs => doc ++ (specs.filterMap id).flatMap Spec.cms

def reachable (f : File) : List Cm := f.doc ++ (f.decls.filterMap id).flatMap Decl.cms

/-! ### `finalizeRemovals` (build.go:543-597) -/

/-- build.go:551-571, one spec; the Bool is its contribution to `declChanged` -/
def finSpec : Option Spec → Option Spec × Bool
  | none => (none, true)
  | some (.value names values dirs tsels cms) =>
    if names.any Option.isNone then
      let names' := squeeze names
      let values' := squeeze values
      if names'.isEmpty then (none, true) else (some (.value names' values' dirs tsels cms), false)
    else (some (.value names values dirs tsels cms), false)
  | some s => (some s, false)

/-- build.go:545-580, one declaration; the Bool is its contribution to `fileChanged` -/
def finDecl : Option Decl → Option Decl × Bool
  | none => (none, true)
  | some (.gen tok dirs doc specs) =>
    let r := specs.map finSpec
    let specs' := r.map (·.1)
    if r.any (·.2) then
      let specs'' := squeeze specs'
      if specs''.isEmpty then (none, true) else (some (.gen tok dirs doc specs''), false)
    else (some (.gen tok dirs doc specs'), false)
  | some d => (some d, false)

def finalizeRemovals (f : File) : File :=
  let r := f.decls.map finDecl
  let decls := r.map (·.1)
  let decls := if r.any (·.2) then squeeze decls else decls
  let f' : File := { f with decls := decls }
  { f' with comments := reachable f' }

/-! ### `pruneImports` (build.go:441-538) -/

/-- build.go:442-452 -/
def isOnlyImports (f : File) : Bool :=
  f.decls.all fun
    | some (.gen .imp _ _ _) => true
    | _ => false

/-- astutil.go:214-223 `HasDirectivePrefix` for the two prefixes used -/
def hasLinkname (f : File) : Bool := f.comments.any (·.linkname)
def hasEmbed (f : File) : Bool := f.comments.any (·.embed)

def Spec.imports : Option Spec → List ImportSpec
  | some (.imp i) => [i]
  | _ => []

def Decl.imports : Option Decl → List ImportSpec
  | some (.gen _ _ _ specs) => specs.flatMap Spec.imports
  | _ => []

/-- `file.Imports` -/
def importsOf (f : File) : List ImportSpec := f.decls.flatMap Decl.imports

def dropTrailingSlashes : List Char → List Char
  | l => (l.reverse.dropWhile (· == '/')).reverse

def afterLastSlash (l : List Char) : List Char :=
  (l.reverse.takeWhile (· != '/')).reverse

/-- Go `path.Base` -/
def pathBase (p : String) : String :=
  if p == "" then "." else
  let l := afterLastSlash (dropTrailingSlashes p.toList)
  if l.isEmpty then "/" else String.ofList l

/-- astutil.go:83-98 `ImportName` -/
def importName (i : ImportSpec) : String :=
  let name := match i.name with
    | some n => n
    | none => pathBase i.path
  if name == "_" || name == "." || name == "/" then "" else name

def Spec.sels : Spec → List String
  | .type _ _ _ s _ => s
  | .value _ values _ tsels _ => tsels ++ (values.filterMap id).flatMap Val.sels
  | .imp _ => []

def Decl.sels : Decl → List String
  | .func f => f.sig.sels ++ f.bsels
  | .gen _ _ _ specs => (specs.filterMap id).flatMap Spec.sels

/-- the selector bases `ast.Inspect(file, …)` meets that do not resolve to a file-local object (build.go:486-493;
see the input contract in the header) -/
def fileSels (f : File) : List String := (f.decls.filterMap id).flatMap Decl.sels

/-- build.go:478-483 -/
def buildUnused (imps : List ImportSpec) : List (String × Nat) :=
  imps.foldl (fun m i => let n := importName i; if n = "" then m else set n i.id m) []

/-- build.go:499-512: is this (otherwise unused) import kept for a directive -/
def isDirectiveImport (f : File) (i : ImportSpec) : Bool :=
  (i.path == "unsafe" && hasLinkname f) || (i.path == "embed" && hasEmbed f)

def mapImportsSpec (g : ImportSpec → Option ImportSpec) : Option Spec → Option Spec
  | some (.imp i) => (g i).map Spec.imp
  | s => s

def mapImportsDecl (g : ImportSpec → Option ImportSpec) : Option Decl → Option Decl
  | some (.gen tok dirs doc specs) => some (.gen tok dirs doc (specs.map (mapImportsSpec g)))
  | d => d

/-- apply `g` to every import spec (`none` = set the slot to nil) -/
def mapImports (g : ImportSpec → Option ImportSpec) (f : File) : File :=
  { f with decls := f.decls.map (mapImportsDecl g) }

def pruneImports (f : File) : File :=
  if isOnlyImports f && !hasLinkname f then { f with decls := [] }
  else
    let imps := importsOf f
    let unused0 := buildUnused imps
    let unused1 := (fileSels f).foldl (fun m s => erase s m) unused0
    if unused1.isEmpty then f else
    let kept := unused1.filter fun p => (imps.find? (·.id == p.2)).any (isDirectiveImport f)
    let keptIds := kept.map (·.2)
    let f1 := mapImports (fun i => if keptIds.contains i.id then some { i with name := some "_" } else some i) f
    let unused2 := unused1.filter fun p => !keptIds.contains p.2
    if unused2.isEmpty then f1 else
    let ids := unused2.map (·.2)
    finalizeRemovals (mapImports (fun i => if ids.contains i.id then none else some i) f1)

/-! ### `augmentOverlayFile` (build.go:284-327) -/

/-- build.go:300-316: the overrides a spec contributes -/
def ovSpecCollect (purgeDecl : Bool) (ov : Overrides) : Option Spec → Overrides
  | some (.type _ name dirs _ _) => set name { purge := purgeDecl || hasDir dirs "purge" } ov
  | some (.value names _ _ _ _) =>
    names.foldl (fun m n => match n with | some n => set n.n {} m | none => m) ov
  | _ => ov

/-- build.go:312-315: the spec after purging -/
def ovSpecMark (purgeDecl : Bool) : Option Spec → Option Spec
  | some s => if purgeDecl || hasDir s.dirs "purge" then none else some s
  | none => none

def ovDeclCollect (ov : Overrides) : Option Decl → Overrides
  | some (.func f) =>
    set (funcKey f) { keep := hasDir f.dirs "keep-original",
                      oversig := if hasDir f.dirs "override-signature" then some f.sig else none } ov
  | some (.gen _ dirs _ specs) => specs.foldl (ovSpecCollect (hasDir dirs "purge")) ov
  | none => ov

def ovDeclMark : Option Decl → Option Decl
  | some (.func f) =>
    if hasDir f.dirs "purge" || hasDir f.dirs "override-signature" then none else some (.func f)
  | some (.gen tok dirs doc specs) =>
    if hasDir dirs "purge" then none else some (.gen tok dirs doc (specs.map (ovSpecMark false)))
  | none => none

def specPurged : Option Spec → Bool
  | some s => hasDir s.dirs "purge"
  | none => false

def ovDeclChanged : Option Decl → Bool
  | some (.func f) => hasDir f.dirs "purge" || hasDir f.dirs "override-signature"
  | some (.gen _ dirs _ specs) => hasDir dirs "purge" || specs.any specPurged
  | none => false

def augmentOverlayFile (ov : Overrides) (f : File) : Overrides × File :=
  let ov' := f.decls.foldl ovDeclCollect ov
  let f' : File := { f with decls := f.decls.map ovDeclMark }
  (ov', if f.decls.any ovDeclChanged then pruneImports (finalizeRemovals f') else f')

/-! ### `augmentOriginalImports` (build.go:331-344) -/

def nosyncPackages : List String :=
  ["crypto/rand", "encoding/gob", "encoding/json", "expvar", "go/token", "log", "math/big", "math/rand",
   "regexp", "time"]

def nosyncPath : String := "github.com/gopherjs/gopherjs/nosync"

def augmentOriginalImports (importPath : String) (f : File) : File :=
  if nosyncPackages.contains importPath then
    mapImports (fun i =>
      if i.path == "sync" then
        some { i with name := some (i.name.getD "sync"), path := nosyncPath }
      else some i) f
  else f

/-! ### `augmentOriginalFile` (build.go:349-439) -/

def overridden (ov : Overrides) : Option Name → Bool
  | some n => has n.n ov
  | none => false

def blankIf (ov : Overrides) : Option Name → Option Name
  | some n => if has n.n ov then some { n with n := "_" } else some n
  | none => none

def isBlank : Option Name → Bool
  | some n => n.n == "_"
  | none => true

/-- build.go:381-431, one spec; the Bool is its contribution to `anyChange` -/
def origSpec (ov : Overrides) : Option Spec → Option Spec × Bool
  | some (.type id name dirs sels cms) =>
    if has name ov then (none, true) else (some (.type id name dirs sels cms), false)
  | some (.value names values dirs tsels cms) =>
    if names.length == values.length then
      let hit := names.map (overridden ov)
      let names' := List.zipWith (fun n h => if h then none else n) names hit
      let values' := List.zipWith (fun v h => if h then none else v) values hit
      (some (.value names' values' dirs tsels cms), hit.any id)
    else
      let nameRemoved := names.any (overridden ov)
      let names' := names.map (blankIf ov)
      if nameRemoved && names'.all isBlank then (none, true)
      else (some (.value names' values dirs tsels cms), false)
  | s => (s, false)

/-- build.go:351-433, one declaration -/
def origDecl (ov : Overrides) : Option Decl → Option Decl × Bool
  | some (.func f) =>
    match get (funcKey f) ov with
    | some info =>
      let f1 := if info.keep then { f with name := "_gopherjs_original_" ++ f.name } else f
      let f2 := match info.oversig with
        | some s => { f1 with sig := s }
        | none => f1
      (if !info.keep && info.oversig.isNone then none else some (.func f2), true)
    | none =>
      if f.sig.recvKey ≠ "" then
        match get f.sig.recvKey ov with
        | some info => if info.purge then (none, true) else (some (.func f), false)
        | none => (some (.func f), false)
      else (some (.func f), false)
  | some (.gen tok dirs doc specs) =>
    let r := specs.map (origSpec ov)
    (some (.gen tok dirs doc (r.map (·.1))), r.any (·.2))
  | none => (none, false)

def augmentOriginalFile (ov : Overrides) (f : File) : File :=
  let r := f.decls.map (origDecl ov)
  let f' : File := { f with decls := r.map (·.1) }
  if r.any (·.2) then pruneImports (finalizeRemovals f') else f'

/-! ### `parseAndAugment` (build.go:170-195), after parsing -/

def collectOverlays (overlays : List File) : Overrides × List File :=
  overlays.foldl (fun (acc : Overrides × List File) f =>
    let r := augmentOverlayFile acc.1 f
    (r.1, acc.2 ++ [r.2])) ([], [])

/-- `overrides` after `delete(overrides, "init")` -/
def overridesOf (overlays : List File) : Overrides := erase "init" (collectOverlays overlays).1

def merge (importPath : String) (overlays originals : List File) : List File × Overrides :=
  let ov := overridesOf overlays
  let originals1 := originals.map (augmentOriginalImports importPath)
  let originals2 := if ov.isEmpty then originals1 else originals1.map (augmentOriginalFile ov)
  ((collectOverlays overlays).2 ++ originals2, ov)

/-! ### observables of a file: declared entries, constant values, initialisers -/

inductive Kind where
  | func | type | var | const
deriving DecidableEq, Repr, Inhabited

/-- one declared name. `id` = identity of the declaring node (func decl, type spec, identifier);
`aux` = signature identity for funcs; `init` = initial value identity for vars `(expr id, result index)`;
`cval` = constant value for consts (none = no initialiser reachable). -/
structure Entry where
  kind : Kind
  name : String
  id : Nat
  aux : Nat := 0
  init : Option (Nat × Nat) := none
  cval : Option Nat := none
deriving DecidableEq, Repr, Inhabited

/-- initial value identity of the `k`-th name of a var spec: own expression in the multi-value context,
`k`-th result of the single call otherwise (build.go:389-430 distinguishes the same two contexts) -/
def initOf (nNames : Nat) (values : List Val) (k : Nat) : Option (Nat × Nat) :=
  if nNames == values.length then (values[k]?).map (fun v => (v.id, 0))
  else match values with
    | [v] => some (v.id, k)
    | _ => none

def varEntries (names : List Name) (values : List Val) : List Entry :=
  names.zipIdx.map fun (n, k) => { kind := .var, name := n.n, id := n.id, init := initOf names.length values k }

/-- Go spec "Constant declarations": inside a parenthesised group an empty expression list repeats the
previous non-empty one; `iota` = index of the spec in the group. `inh` = the expression list in force
(go/types assigns it position by position; a name without a partner has no value).
Every spec is evaluated, entries are emitted only for the specs selected by `keep`.
A spec all of whose names have been set to nil is about to be squeezed away by `finalizeRemovals`
(build.go:563-569) and is skipped; parsed files contain no such spec. -/
def constEntries (keep : Spec → Bool) : List Spec → (iota : Nat) → (inh : List Val) → List Entry
  | [], _, _ => []
  | .value names values dirs tsels cms :: rest, iota, inh =>
    let ns := names.filterMap id
    if ns.isEmpty then constEntries keep rest iota inh else
    let vs := values.filterMap id
    let eff := if vs.isEmpty then inh else vs
    let es := ns.zipIdx.map fun (n, k) =>
      ({ kind := .const, name := n.n, id := n.id,
         cval := (eff[k]?).map (fun v => v.a * iota + v.b) } : Entry)
    (if keep (.value names values dirs tsels cms) then es else []) ++ constEntries keep rest (iota + 1) eff
  | _ :: rest, iota, inh => constEntries keep rest iota inh   -- not a value spec: cannot occur in a const declaration

def Spec.entries (tok : Tok) : Spec → List Entry
  | .type id name _ _ _ => [{ kind := .type, name := name, id := id }]
  | .value names values _ _ _ =>
    if tok == .var then varEntries (names.filterMap id) (values.filterMap id) else []
  | .imp _ => []

def Decl.entries : Decl → List Entry
  | .func f => [{ kind := .func, name := funcKey f, id := f.id, aux := f.sig.id }]
  | .gen tok _ _ specs =>
    if tok == .const then constEntries (fun _ => true) (specs.filterMap id) 0 []
    else if tok == .imp then []      -- an import declaration declares no package-level name
    else (specs.filterMap id).flatMap (Spec.entries tok)

def entries (f : File) : List Entry := (f.decls.filterMap id).flatMap Decl.entries

end GV.Augment
