/-
  GV.Model.BuildTags — file selection by build constraints as GopherJS configures go/build.

  Mirrors:
    * go/build `(*Context).matchTag`, `goodOSArchFile`, `shouldBuild` (GOROOT/src/go/build/build.go)
      — this is the algorithm the real selection runs;
    * the configuration GopherJS feeds it: build/context.go `goCtx` (Compiler "gc", BuildTags =
      user tags ++ defaultBuildTags, CgoEnabled false, ReleaseTags = first compiler.GoVersion
      release tags), `DefaultEnv` (GOOS=js, GOARCH=ecmascript), `applyPreloadTweaks`
      (standard-library packages: GOOS=js, GOARCH=wasm), compiler/incjs/file.go (.inc.js rule).

  Tags are structured: `rel n` stands for the release tag "go1.n" (the driver parses the
  text form), everything else is `named s`.
-/
namespace GV.BuildTags

inductive Tag where
  | named (s : String)
  | rel (minor : Nat)          -- "go1.<minor>"
deriving DecidableEq, Repr

/-- `//go:build` expressions (go/build/constraint). -/
inductive Expr where
  | tag (t : Tag)
  | not (e : Expr)
  | and (a b : Expr)
  | or (a b : Expr)
deriving Repr

def Expr.eval (env : Tag → Bool) : Expr → Bool
  | .tag t => env t
  | .not e => !(e.eval env)
  | .and a b => a.eval env && b.eval env
  | .or a b => a.eval env || b.eval env

def Expr.mentions (t : Tag) : Expr → Bool
  | .tag u => u == t
  | .not e => e.mentions t
  | .and a b => a.mentions t || b.mentions t
  | .or a b => a.mentions t || b.mentions t

/-- the fields of go/build.Context that matter for matching -/
structure Ctx where
  goos : String
  goarch : String
  compiler : String
  cgoEnabled : Bool
  buildTags : List Tag
  toolTags : List Tag
  releaseTags : List Tag

def unixOS : List String :=
  ["aix", "android", "darwin", "dragonfly", "freebsd", "hurd", "illumos", "ios", "linux", "netbsd", "openbsd", "solaris"]

def knownOS : List String :=
  ["aix", "android", "darwin", "dragonfly", "freebsd", "hurd", "illumos", "ios", "js", "linux", "nacl", "netbsd",
   "openbsd", "plan9", "solaris", "wasip1", "windows", "zos"]

def knownArch : List String :=
  ["386", "amd64", "amd64p32", "arm", "armbe", "arm64", "arm64be", "loong64", "mips", "mipsle", "mips64", "mips64le",
   "mips64p32", "mips64p32le", "ppc", "ppc64", "ppc64le", "riscv", "riscv64", "s390", "s390x", "sparc", "sparc64", "wasm"]

/-- go/build `matchTag` (build.go). -/
def matchTag (c : Ctx) (t : Tag) : Bool :=
  match t with
  | .rel _ => c.buildTags.contains t || c.toolTags.contains t || c.releaseTags.contains t
  | .named name =>
    if c.cgoEnabled && name == "cgo" then true
    else if name == c.goos || name == c.goarch || name == c.compiler then true
    else if c.goos == "android" && name == "linux" then true
    else if c.goos == "illumos" && name == "solaris" then true
    else if c.goos == "ios" && name == "darwin" then true
    else if name == "unix" && unixOS.contains c.goos then true
    else
      let name := if name == "boringcrypto" then "goexperiment.boringcrypto" else name
      c.buildTags.contains (.named name) || c.toolTags.contains (.named name) || c.releaseTags.contains (.named name)

/-- go/build `goodOSArchFile` on the `_`-separated parts of the file name *after* the first `_`
    (i.e. `strings.Split(name[i:], "_")` with the leading empty string dropped; `none` when the
    base name contains no `_`). -/
def goodOSArch (c : Ctx) (parts : Option (List String)) : Bool :=
  match parts with
  | none => true
  | some l0 =>
    let l := "" :: l0                       -- Split of "_a_b" = ["", "a", "b"]
    let l := if l.getLast? == some "test" then l.dropLast else l
    let n := l.length
    let last := l.getLast?.getD ""
    let prev := (l.dropLast).getLast?.getD ""
    if n ≥ 2 && knownOS.contains prev && knownArch.contains last then
      matchTag c (.named last) && matchTag c (.named prev)
    else if n ≥ 1 && (knownOS.contains last || knownArch.contains last) then
      matchTag c (.named last)
    else true

/-- what the harness tells the model about one file of a package directory -/
structure SrcFile where
  hidden : Bool                      -- name starts with `_` or `.`
  isGo : Bool                        -- extension .go
  isIncJS : Bool                     -- name ends in .inc.js
  isTest : Bool                      -- name ends in _test.go
  parts : Option (List String)       -- see `goodOSArch`
  goBuild : Option Expr              -- the //go:build line, if any
  plusBuild : List Expr              -- legacy // +build lines (consulted only without //go:build)
  importsC : Bool                    -- import "C"

/-- go/build `shouldBuild`. -/
def shouldBuild (c : Ctx) (f : SrcFile) : Bool :=
  match f.goBuild with
  | some e => e.eval (matchTag c)
  | none => f.plusBuild.all (fun e => e.eval (matchTag c))

/-- the file ends up in `Package.GoFiles` (non-test Go sources compiled into the package). -/
def selectedGo (c : Ctx) (f : SrcFile) : Bool :=
  !f.hidden && f.isGo && !f.isTest && goodOSArch c f.parts && shouldBuild c f && (!f.importsC || c.cgoEnabled)

/-- compiler/incjs/file.go: `.inc.js` files of the directory, minus hidden ones, whatever their name says. -/
def selectedIncJS (f : SrcFile) : Bool := f.isIncJS && !f.hidden

/-! ### the configuration GopherJS builds -/

def releaseTagsUpTo (n : Nat) : List Tag := (List.range n).map (fun i => Tag.rel (i + 1))

/-- facts read from the code on every run (see GV/Generated/BuildEnv.lean) -/
structure Facts where
  goos : String
  goarch : String
  compiler : String
  cgoEnabled : Bool
  defaultTags : List String
  goVersion : Nat
  stdGoos : String
  stdGoarch : String
deriving DecidableEq, Repr

/-- build/context.go `goCtx`: user packages -/
def userCtx (fx : Facts) (userTags : List Tag) : Ctx :=
  { goos := fx.goos, goarch := fx.goarch, compiler := fx.compiler, cgoEnabled := fx.cgoEnabled,
    buildTags := userTags ++ fx.defaultTags.map Tag.named, toolTags := [],
    releaseTags := releaseTagsUpTo fx.goVersion }

/-- `applyPreloadTweaks`: standard-library packages -/
def stdCtx (fx : Facts) (userTags : List Tag) : Ctx :=
  { userCtx fx userTags with goos := fx.stdGoos, goarch := fx.stdGoarch }

/-- the documented facts (doc/compatibility.md, build/context.go comments, the property text) -/
def documented : Facts :=
  { goos := "js", goarch := "ecmascript", compiler := "gc", cgoEnabled := false,
    defaultTags := ["netgo", "purego", "math_big_pure_go", "gopherjs"], goVersion := 20,
    stdGoos := "js", stdGoarch := "wasm" }

end GV.BuildTags
