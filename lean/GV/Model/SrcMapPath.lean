/-
  GV.Model.SrcMapPath — `Filter.normalizePath` and `srcRelative` of internal/sourcemapx/filter.go:202-231:
  the function that turns the absolute file name of a mapped position into the name written to "sources" of the
  source map. Strings are byte lists; '/' = 47, ':' = 58. `filepath.Clean` is `GV.PathClean.clean` (on unix
  filepath.Clean and path.Clean are the same algorithm); `filepath.ToSlash` is the identity on unix.
  `normalizePath` is the code as it is (since the repair c63a0c1, fixes/C19-normalizepath-src-boundary.patch);
  `normalizePathOld` / `hasGopathPrefix` are the scheme before that repair, kept for the "repaired defects" theorems.
-/
import GV.Model.PathClean

namespace GV.SrcMapPath
open GV.PathClean (clean)

abbrev Str := List Nat

/-- `strings.HasPrefix(s, p)` -/
def hasPrefix (s p : Str) : Bool := p.isPrefixOf s

/-- split at every ':' (always at least one element) -/
def splitColon : Str → List Str
  | [] => [[]]
  | c :: cs =>
    match splitColon cs with
    | [] => [[c]]            -- unreachable
    | e :: es => if c = 58 then [] :: e :: es else (c :: e) :: es

/-- `filepath.SplitList` (path_unix.go): "" gives no element, otherwise `strings.Split(path, ":")` -/
def splitList (s : Str) : List Str := if s = [] then [] else splitColon s

/-- `hasGopathPrefix` (removed by the repair): length of the first cleaned workspace that is a string prefix of `file` -/
def hasGopathPrefix (file : Str) : List Str → Option Nat
  | [] => none
  | ws :: rest =>
    let w := clean ws
    if hasPrefix file w then some w.length else hasGopathPrefix file rest

/-- drop trailing slashes -/
def trimSlashes (s : Str) : Str := (s.reverse.dropWhile (· = 47)).reverse

/-- `filepath.Base` (path.go:191-211): "" → ".", strip trailing slashes, take what follows the last slash, "" → "/" -/
def base (s : Str) : Str :=
  if s = [] then [46]
  else
    let t := trimSlashes s
    let b := (t.reverse.takeWhile (· ≠ 47)).reverse
    if b = [] then [47] else b

/-- `file[k:]`; `none` = the run-time panic "slice bounds out of range" -/
def sliceFrom (file : Str) (k : Nat) : Option Str := if k ≤ file.length then some (file.drop k) else none

/-- `normalizePath` BEFORE the repair c63a0c1: GOPATH workspaces first, then GOROOT, both by bare string prefix, then
    a fixed cut of 4 bytes ("/src") behind the matched root. -/
def normalizePathOld (localMap : Bool) (goroot gopath file : Str) : Option Str :=
  let g := hasGopathPrefix file (splitList gopath)       -- evaluated in the switch's init statement
  if localMap then some file
  else match g with
    | some n => sliceFrom file (n + 4)
    | none =>
      if hasPrefix file goroot then sliceFrom file (goroot.length + 4)
      else some (base file)

/-- filter.go:224-226 `src` of `srcRelative`: TrimSuffix(Clean(root), "/") + "/src/" -/
def srcDir (root : Str) : Str :=
  (if clean root = [47] then [] else clean root) ++ [47, 115, 114, 99, 47]

/-- filter.go:204-231: the lookup loop over `srcRelative`: first root (GOPATH workspaces in order, then GOROOT) whose src directory contains the file,
    tested with the separator boundary; the name keeps its leading slash as before -/
def relToRoots (file : Str) : List Str → Option Str
  | [] => none
  | r :: rest =>
    if hasPrefix file (srcDir r) then some (file.drop ((srcDir r).length - 1)) else relToRoots file rest

/-- filter.go:202-217 `normalizePath` as it is -/
def normalizePath (localMap : Bool) (goroot gopath file : Str) : Str :=
  if localMap then file
  else match relToRoots file (splitList gopath ++ [goroot]) with
    | some n => n
    | none => base file

end GV.SrcMapPath
