/-
  GV.Model.Defer — defer / panic / recover / Goexit.

  A mini-language of function frames with
    (a) `ref`  : Go's REFERENCE semantics, written from the language specification
                 ("Handling panics", "Defer statements", runtime.Goexit): frame-by-frame unwinding,
                 a LIFO defer list per frame, a chain of panics, `recover` effective only in a
                 function called directly by the sequence that runs deferred calls for a panic;
    (b) `emu`  : the EMULATION GopherJS runs: an explicit JS call stack (depth counter), JS
                 exceptions as completions, the try/catch/finally wrapper the compiler emits for
                 functions with `defer` (compiler/functions.go:313-339), and
                 `$callDeferred / $panic / $recover` of compiler/prelude/goroutines.js:1-122
                 transcribed statement by statement AS THEY ARE (including their defects).
  Core Lean only; every recursion is structural on a fuel argument so both interpreters reduce in
  the kernel (concrete witnesses are checked by `decide`).
-/
namespace GV.Defer

abbrev Val := Nat

/-- how a function value is reached at a call / defer site.
    `direct` : plain function, closure, bound method value (no extra JS frame);
    `mexpr`  : method expression `T.M` / `I.M` — `$methodExpr` / `$ifaceMethodExpr` wrapper
               (prelude.js:134-166): one extra JS frame, `$stackDepthOffset--` around the call;
    `pwrap`  : compiler-generated forwarding method (pointer-receiver wrapper of a value method of a
               non-struct named type, compiler/functions.go proxyFunction; promoted method of an
               embedded field, types.js synthesizeMethod): one extra JS frame, `$stackDepthOffset--`
               around the call (since the repair C08-forwarding-recover).
    In Go all three are transparent for `recover`. -/
inductive How | direct | mexpr | pwrap
  deriving DecidableEq, Repr, Inhabited

/-- argument of a deferred call: a constant or the current value of the deferring function's result
    variable — evaluated at the `defer` statement. -/
inductive Arg | const (v : Val) | res
  deriving DecidableEq, Repr

inductive Stmt
  | call (h : How) (f : Nat)            -- `x := f(0, &r); println(x)`
  | defer_ (h : How) (f : Nat) (a : Arg) -- `defer f(a, &r)`
  | deferRecover                         -- `defer recover()` (builtin deferred directly)
  | panic (v : Val)                      -- `panic(v)`
  | nilDeref (v : Val)                   -- a run-time panic raised as a native JS exception (nil dereference)
  | recover                              -- `println(recover())`
  | ret                                  -- `return r`
  | setResult (v : Val)                  -- `r = v`
  | setOuter (v : Val)                   -- `*outer = v` (result variable of the calling / deferring frame)
  | goexit                               -- `runtime.Goexit()`
  deriving DecidableEq, Repr

/-- `named`: the result is a named result (re-read after the deferred calls); otherwise the value is
    fixed by the `return` statement and is the zero value after a recovered panic. -/
structure Func where
  named : Bool
  body : List Stmt
  deriving DecidableEq, Repr

abbrev Prog := List Func

def Prog.fn (P : Prog) (f : Nat) : Func := P.getD f ⟨false, []⟩

def Stmt.isDefer : Stmt → Bool
  | .defer_ .. => true
  | .deferRecover => true
  | _ => false

/-- `fc.HasDefer` (compiler/functions.go:282): the body contains a defer statement. -/
def Func.hasDefer (f : Func) : Bool := f.body.any Stmt.isDefer

inductive Ev
  | run (f : Nat) (a : Val)        -- function f starts executing with argument a
  | recov (r : Option Val)         -- value returned by a `recover()` call
  | result (f : Nat) (v : Val)     -- a call of f returned v to its caller
  deriving DecidableEq, Repr

inductive Outcome
  | normal | panic (v : Val) | goexit | oof | stuck (n : Nat)
  deriving DecidableEq, Repr

structure Obs where
  trace : List Ev
  outcome : Outcome
  deriving DecidableEq, Repr

def argVal (a : Arg) (res : Val) : Val :=
  match a with
  | .const v => v
  | .res => res

/-! ## (a) Reference semantics (Go specification) -/

inductive PEntry
  | panic (v : Val) (recovered : Bool)
  | goexit
  deriving DecidableEq, Repr

def PEntry.isGoexit : PEntry → Bool
  | .goexit => true
  | _ => false

structure RState where
  panics : List PEntry     -- head = newest
  trace : List Ev          -- reversed
  deriving DecidableEq, Repr

def RState.emit (s : RState) (e : Ev) : RState := { s with trace := e :: s.trace }

inductive RComp | normal | panicking | exiting | oof
  deriving DecidableEq, Repr

inductive RDef
  | fn (f : Nat) (a : Val)
  | recoverBuiltin
  deriving DecidableEq, Repr

structure RFrame where
  res : Val
  defers : List RDef        -- head = most recently deferred
  deriving DecidableEq, Repr

structure RBodyRes where
  comp : RComp
  outer : Val
  fr : RFrame
  st : RState

structure RCallRes where
  comp : RComp
  val : Val
  outer : Val
  st : RState

structure RDefRes where
  comp : RComp
  fr : RFrame
  st : RState

/-- `recover()` in a frame: effective iff the frame was called directly by the sequence running
    deferred calls for the newest panic, which is not yet recovered (spec, "Handling panics"). -/
def rRecover (byPanic : Bool) (st : RState) : RState × Option Val :=
  match byPanic, st.panics with
  | true, .panic v false :: ps => ({ st with panics := .panic v true :: ps }, some v)
  | _, _ => (st, none)

def topRecovered (st : RState) : Bool :=
  match st.panics with
  | .panic _ true :: _ => true
  | _ => false

mutual
/-- one function activation: body, then its deferred calls -/
def rCall : Nat → Prog → Nat → Val → Bool → Val → RState → RCallRes
  | 0, _, _, _, _, outer, st => ⟨.oof, 0, outer, st⟩
  | fuel+1, P, f, a, byPanic, outer, st =>
    let st := st.emit (.run f a)
    let base := st.panics.length
    let b := rBody fuel P (P.fn f).body byPanic outer ⟨0, []⟩ st
    let d := rDefers fuel P b.comp base byPanic b.fr b.st
    let v := if (P.fn f).named then d.fr.res
             else (match b.comp with | .normal => b.fr.res | _ => 0)
    ⟨d.comp, v, b.outer, d.st⟩

def rBody : Nat → Prog → List Stmt → Bool → Val → RFrame → RState → RBodyRes
  | 0, _, _, _, outer, fr, st => ⟨.oof, outer, fr, st⟩
  | _+1, _, [], _, outer, fr, st => ⟨.normal, outer, fr, st⟩
  | fuel+1, P, s :: rest, byPanic, outer, fr, st =>
    match s with
    | .call _ g =>
      let r := rCall fuel P g 0 false fr.res st
      let fr := { fr with res := r.outer }
      match r.comp with
      | .normal => rBody fuel P rest byPanic outer fr (r.st.emit (.result g r.val))
      | c => ⟨c, outer, fr, r.st⟩
    | .defer_ _ g a =>
      rBody fuel P rest byPanic outer { fr with defers := .fn g (argVal a fr.res) :: fr.defers } st
    | .deferRecover =>
      rBody fuel P rest byPanic outer { fr with defers := .recoverBuiltin :: fr.defers } st
    | .panic v => ⟨.panicking, outer, fr, { st with panics := .panic v false :: st.panics }⟩
    | .nilDeref v => ⟨.panicking, outer, fr, { st with panics := .panic v false :: st.panics }⟩
    | .recover =>
      let (st, r) := rRecover byPanic st
      rBody fuel P rest byPanic outer fr (st.emit (.recov r))
    | .ret => ⟨.normal, outer, fr, st⟩
    | .setResult v => rBody fuel P rest byPanic outer { fr with res := v } st
    | .setOuter v => rBody fuel P rest byPanic v fr st
    | .goexit => ⟨.exiting, outer, fr, { st with panics := .goexit :: st.panics }⟩

/-- run the deferred calls of a frame, newest first. `mode` = why the frame is returning.
    `base` = length of the panic chain when the frame was entered, `byPanic` = the frame itself was
    called directly by the sequence running deferred calls for a panic. -/
def rDefers : Nat → Prog → RComp → Nat → Bool → RFrame → RState → RDefRes
  | 0, _, _, _, _, fr, st => ⟨.oof, fr, st⟩
  | fuel+1, P, mode, base, byPanic, fr, st =>
    match mode with
    | .oof => ⟨.oof, fr, st⟩
    | _ =>
    match fr.defers with
    | [] => ⟨mode, fr, st⟩
    | .recoverBuiltin :: ds =>
      -- `defer recover()`: recover() is called by the epilogue of this function, i.e. directly by this
      -- function. At a normal return it is effective iff this function is itself a deferred function
      -- run for a panic; run by the panicking sequence (mode = panicking) it is not called by a
      -- deferred function and returns nil.
      let st := if mode == .panicking then st else (rRecover byPanic st).1
      rDefers fuel P mode base byPanic { fr with defers := ds } st
    | .fn g a :: ds =>
      let r := rCall fuel P g a (mode == .panicking) fr.res st
      let fr : RFrame := ⟨r.outer, ds⟩
      match r.comp with
      | .oof => ⟨.oof, fr, r.st⟩
      | .panicking => rDefers fuel P .panicking base byPanic fr r.st
      | .exiting => rDefers fuel P .exiting base byPanic fr r.st
      | .normal =>
        if mode == .panicking && topRecovered r.st then
          -- the panic is recovered: it and every panic raised since this frame was entered are
          -- finished; the frame returns normally — unless a Goexit was among them, which goes on.
          let k := r.st.panics.length - base
          let dropped := r.st.panics.take k
          let kept := r.st.panics.drop k
          if dropped.any PEntry.isGoexit then
            rDefers fuel P .exiting base byPanic fr { r.st with panics := .goexit :: kept }
          else
            rDefers fuel P .normal base byPanic fr { r.st with panics := kept }
        else rDefers fuel P mode base byPanic fr r.st
end

def topPanicValue : List PEntry → Val
  | .panic v _ :: _ => v
  | _ :: ps => topPanicValue ps
  | [] => 0

/-- the goroutine runs function 0 -/
def ref (fuel : Nat) (P : Prog) : Obs :=
  let r := rCall fuel P 0 0 false 0 ⟨[], []⟩
  ⟨r.st.trace.reverse,
   match r.comp with
   | .normal => .normal
   | .panicking => .panic (topPanicValue r.st.panics)
   | .exiting => .goexit
   | .oof => .oof⟩

/-! ## (b) Emulation (generated wrapper + prelude) -/

/-- a JS value that can be thrown / stored in `$err`: `null`, the Error built for an uncaught Go
    panic, a native JS error, the TypeError of `localPanicValue.Object` on undefined. -/
inductive JsVal | null | goErr (v : Val) | jsErr (v : Val) | typeErr
  deriving DecidableEq, Repr

def JsVal.val : JsVal → Val
  | .goErr v => v
  | .jsErr v => v
  | _ => 0

inductive Callee
  | fn (h : How) (f : Nat)
  | recoverBuiltin           -- `defer recover()`: `function() { $stackDepthOffset--; try { $recover(); } finally
                             --   { $stackDepthOffset++; } }` (expressions.go delegatedCall)
  deriving DecidableEq, Repr

/-- `[callable, [args]]` pushed by `$deferred.push` (statements.go:371-373) -/
structure DCall where
  callee : Callee
  arg : Val
  outer : Nat               -- cell of the deferring frame's result variable (`&r`)
  deriving DecidableEq, Repr

structure JS where
  lists : List (List DCall)   -- heap of `$deferred` arrays by id; head = last element
  deferStack : List Nat       -- `$curGoroutine.deferStack`, head = last element
  panicStack : List Val       -- `$curGoroutine.panicStack`, head = last element
  psd : Option Int            -- `$panicStackDepth` (none = null)
  pv : Val                    -- `$panicValue`
  off : Int                   -- `$stackDepthOffset`
  exit : Bool                 -- `$curGoroutine.exit`
  cells : List Val            -- result variables of the activations
  trace : List Ev             -- reversed
  deriving DecidableEq, Repr

def JS.init : JS := ⟨[], [], [], none, 0, 0, false, [0], []⟩
def JS.emit (s : JS) (e : Ev) : JS := { s with trace := e :: s.trace }
def JS.cell (s : JS) (i : Nat) : Val := s.cells.getD i 0
def JS.setCell (s : JS) (i : Nat) (v : Val) : JS := { s with cells := s.cells.set i v }
def JS.list (s : JS) (i : Nat) : List DCall := s.lists.getD i []
def JS.setList (s : JS) (i : Nat) (l : List DCall) : JS := { s with lists := s.lists.set i l }

inductive Comp | normal | ret (v : Val) | throw (e : JsVal) | oof
  deriving DecidableEq, Repr

/-- value of the JS variable `deferred` inside `$callDeferred`: `null`, `undefined` (after
    `deferred = deferStack[deferStack.length - 1]` on an empty stack) or a `$deferred` array. -/
inductive DRef | null | undef | id (n : Nat)
  deriving DecidableEq, Repr

/-- `$getStackDepth()` (goroutines.js:2-8) called from a frame at depth `d` (number of JS frames up
    to and including the caller): `$stackDepthOffset` + number of lines of `new Error().stack`
    = offset + (d + 1 frames) + 1 header line. -/
def getStackDepth (s : JS) (d : Nat) : Int := s.off + d + 2

/-- `$recover` (goroutines.js:116-122); `d` = depth of `$recover`'s own frame. -/
def eRecover (d : Nat) (s : JS) : JS × Option Val :=
  match s.psd with
  | none => (s, none)
  | some p => if p ≠ getStackDepth s d - 2 then (s, none) else ({ s with psd := none }, some s.pv)

/-- local state of an emitted function: result cell, cell of the caller's result, id of `$deferred`,
    depth of the JS frame -/
structure EFrame where
  cell : Nat
  outer : Nat
  did : Nat
  d : Nat

mutual
/-- call of a function value from a frame at depth `d` -/
def eInvoke : Nat → Prog → How → Nat → Val → Nat → Nat → JS → JS × Comp
  | 0, _, _, _, _, _, _, s => (s, .oof)
  | fuel+1, P, .direct, f, a, outer, d, s => eFn fuel P f a outer (d + 1) s
  | fuel+1, P, .pwrap, f, a, outer, d, s =>
    -- functions.go proxyFunction / types.js synthesizeMethod: same bracket as `$methodExpr`
    let (s, c) := eFn fuel P f a outer (d + 2) { s with off := s.off - 1 }
    ({ s with off := s.off + 1 }, c)
  | fuel+1, P, .mexpr, f, a, outer, d, s =>
    -- prelude.js:137-147: $stackDepthOffset--; try { return method(...) } finally { $stackDepthOffset++ }
    let (s, c) := eFn fuel P f a outer (d + 2) { s with off := s.off - 1 }
    ({ s with off := s.off + 1 }, c)

/-- the function the compiler emits (functions.go:238-353); `d` = depth of its frame.
    Returns `ret v`, `throw e` or `oof`. -/
def eFn : Nat → Prog → Nat → Val → Nat → Nat → JS → JS × Comp
  | 0, _, _, _, _, _, s => (s, .oof)
  | fuel+1, P, f, a, outer, d, s =>
    let fn := P.fn f
    let s := s.emit (.run f a)
    let cell := s.cells.length
    let s := { s with cells := s.cells ++ [0] }
    if !fn.hasDefer then
      let (s, c) := eBody fuel P fn.body ⟨cell, outer, 0, d⟩ s
      (s, match c with | .normal => .ret (s.cell cell) | c => c)
    else
      -- var $err = null; try { $deferred = []; $curGoroutine.deferStack.push($deferred); body }
      let did := s.lists.length
      let s := { s with lists := s.lists ++ [[]], deferStack := did :: s.deferStack }
      let (s, c1) := eBody fuel P fn.body ⟨cell, outer, did, d⟩ s
      match c1 with
      | .oof => (s, .oof)
      | _ =>
      let c1 := match c1 with | .normal => Comp.ret (s.cell cell) | c => c
      -- catch(err) { $err = err; [return <zero results>;] }
      let err := match c1 with | .throw e => e | _ => JsVal.null
      let c2 := match c1 with | .throw _ => Comp.ret 0 | c => c
      -- finally { $callDeferred($deferred, $err); [if (!$curGoroutine.asleep) { return <named results>; }] }
      let (s, c3) := eCallDeferred fuel P (.id did) err false (d + 1) s
      match c3 with
      | .throw e => (s, .throw e)
      | .oof => (s, .oof)
      | _ => (s, if fn.named then .ret (s.cell cell) else c2)

def eBody : Nat → Prog → List Stmt → EFrame → JS → JS × Comp
  | 0, _, _, _, s => (s, .oof)
  | _+1, _, [], _, s => (s, .normal)
  | fuel+1, P, st :: rest, fr, s =>
    match st with
    | .call h g =>
      let (s, c) := eInvoke fuel P h g 0 fr.cell fr.d s
      match c with
      | .ret v => eBody fuel P rest fr (s.emit (.result g v))
      | .normal => eBody fuel P rest fr (s.emit (.result g 0))
      | c => (s, c)
    | .defer_ h g a =>
      eBody fuel P rest fr (s.setList fr.did (⟨.fn h g, argVal a (s.cell fr.cell), fr.cell⟩ :: s.list fr.did))
    | .deferRecover =>
      eBody fuel P rest fr (s.setList fr.did (⟨.recoverBuiltin, 0, fr.cell⟩ :: s.list fr.did))
    | .panic v =>
      let (s, c) := ePanic fuel P v (fr.d + 1) s
      match c with
      | .normal => eBody fuel P rest fr s
      | c => (s, c)
    | .nilDeref v => (s, .throw (.jsErr v))
    | .recover =>
      let (s, r) := eRecover (fr.d + 1) s
      eBody fuel P rest fr (s.emit (.recov r))
    | .ret => (s, .ret (s.cell fr.cell))
    | .setResult v => eBody fuel P rest fr (s.setCell fr.cell v)
    | .setOuter v => eBody fuel P rest fr (s.setCell fr.outer v)
    | .goexit =>
      -- runtime.Goexit (natives/src/runtime/runtime.go:314-316) calls `$goexit()`
      eGoexit fuel P (fr.d + 2) s

/-- `$goexit` (goroutines.js:125-146, repair C08-goexit): run the deferred calls of every function of the
    goroutine in place, innermost list first; a `null` thrown by `$callDeferred` (a panic raised by a
    deferred call was recovered) is swallowed; then `exit = true; throw null`. `d` = depth of its frame.
    (`asleep` is always false: suspension is not modelled.) -/
def eGoexit : Nat → Prog → Nat → JS → JS × Comp
  | 0, _, _, s => (s, .oof)
  | fuel+1, P, d, s =>
    match s.deferStack.head? with
    | none => ({ s with exit := true }, .throw .null)
    | some id =>
      let (s, c) := eCallDeferred fuel P (.id id) .null false (d + 1) s
      match c with
      | .oof => (s, .oof)
      | .throw .null => eGoexit fuel P d s
      | .throw e => (s, .throw e)
      | _ => eGoexit fuel P d s

/-- `$panic` (goroutines.js:112-115); `d` = depth of `$panic`'s frame -/
def ePanic : Nat → Prog → Val → Nat → JS → JS × Comp
  | 0, _, _, _, s => (s, .oof)
  | fuel+1, P, v, d, s =>
    eCallDeferred fuel P .null .null true (d + 1) { s with panicStack := v :: s.panicStack }

/-- `$callDeferred(deferred, jsErr, fromPanic)` (goroutines.js:11-110); `c` = depth of its frame.
    Returns `normal`, `throw e` or `oof`. -/
def eCallDeferred : Nat → Prog → DRef → JsVal → Bool → Nat → JS → JS × Comp
  | 0, _, _, _, _, _, s => (s, .oof)
  | fuel+1, P, deferred, jsErr, fromPanic, c, s =>
    -- :12-14
    if !fromPanic && (match deferred with | .id id => !s.deferStack.contains id | .undef => true | .null => false) then
      (s, .throw jsErr)
    -- :15-24
    else if jsErr != .null then
      let (s, cp) := ePanic fuel P jsErr.val (c + 1) s
      match cp with
      | .oof => (s, .oof)
      | _ =>
      let newErr := match cp with | .throw e => e | _ => JsVal.null
      eCallDeferred fuel P deferred newErr false (c + 1) s
    else
      -- :29-37
      let s := { s with off := s.off - 1 }
      let outerPsd := s.psd
      let outerPv := s.pv
      let localV := s.panicStack.head?
      let s := { s with panicStack := s.panicStack.tail }
      let s := match localV with
        | some v => { s with psd := some (getStackDepth s c), pv := v }
        | none => s
      -- :39-87
      let (s, cl, deferred') := eLoop fuel P deferred localV fromPanic c s
      -- :88-99
      let (s, cc) := match cl with
        | .throw e => if fromPanic then (s, Comp.throw e) else eCallDeferred fuel P deferred' e fromPanic (c + 1) s
        | cl => (s, cl)
      -- :100-109 the panic is pushed back only `if ($panicStackDepth !== null && $curGoroutine.asleep)`,
      -- i.e. when a deferred call blocked; suspension is not modelled (asleep = false), so never.
      let s := match localV with
        | some _ => { s with psd := outerPsd, pv := outerPv }
        | none => s
      ({ s with off := s.off + 1 }, cc)

/-- the `while (true)` loop of `$callDeferred` (goroutines.js:40-87), lines 41-61: resolve the variable
    `deferred`; also returns its current value (needed by the catch clause). -/
def eLoop : Nat → Prog → DRef → Option Val → Bool → Nat → JS → JS × Comp × DRef
  | 0, _, deferred, _, _, _, s => (s, .oof, deferred)
  | fuel+1, P, deferred, localV, fromPanic, c, s =>
    match deferred with
    | .undef => (s, .throw .typeErr, .undef)      -- `undefined.pop()` (unreachable)
    | .id id => eStep fuel P id localV fromPanic c s
    | .null =>
      match s.deferStack.head? with
      | some id => eStep fuel P id localV fromPanic c s
      | none =>
        -- :43-60 the panic reached the top of the stack (`deferred` is now `undefined`)
        ({ s with psd := none }, .throw (match localV with | some v => .goErr v | none => .typeErr), .undef)

/-- lines 62-86 of the loop body with `deferred` = the array `id` -/
def eStep : Nat → Prog → Nat → Option Val → Bool → Nat → JS → JS × Comp × DRef
  | 0, _, id, _, _, _, s => (s, .oof, .id id)
  | fuel+1, P, id, localV, fromPanic, c, s =>
    -- :62-70
    match s.list id with
    | [] =>
      let s := { s with deferStack := s.deferStack.tail }
      if localV.isSome then eLoop fuel P .null localV fromPanic c s
      else (s, .normal, .id id)
    | call :: more =>
      let s := s.setList id more
      -- :71
      let (s, r) := match call.callee with
        | .fn h f => eInvoke fuel P h f call.arg call.outer c s
        | .recoverBuiltin =>
          -- lambda frame c+1, `$recover` frame c+2, offset decremented around the call
          let s1 := (eRecover (c + 2) { s with off := s.off - 1 }).1
          ({ s1 with off := s1.off + 1 }, Comp.ret 0)
      match r with
      | .throw e => (s, .throw e, .id id)
      | .oof => (s, .oof, .id id)
      | _ =>
        -- :80-86
        if localV.isSome && s.psd.isNone then
          (s, if fromPanic then .throw .null else .normal, .id id)
        else eLoop fuel P (.id id) localV fromPanic c s
end

/-- `$goroutine` (goroutines.js:131-161): frame depth 1 calls `fun` at depth 2; a thrown value is
    swallowed iff `exit` is set (`goexit`); a normal return of `fun` is `normal`. -/
def emu (fuel : Nat) (P : Prog) : Obs :=
  let (s, c) := eFn fuel P 0 0 0 2 JS.init
  ⟨s.trace.reverse,
   match c with
   | .oof => .oof
   | .throw e =>
     -- `if (!$goroutine.exit) { throw err; }`
     if s.exit then .goexit else
     (match e with
      | .goErr v => .panic v
      | .jsErr v => .panic v
      | .null => .stuck 1
      | .typeErr => .stuck 2)
   | _ => .normal⟩

/-- the goroutine function is entered `d0` JS frames deeper (a recursion of `d0` calls without defer
    before the defer/panic/recover pattern). The reference semantics has no notion of depth. -/
def emuAt (fuel d0 : Nat) (P : Prog) : Obs :=
  let (s, c) := eFn fuel P 0 0 0 (2 + d0) JS.init
  ⟨s.trace.reverse,
   match c with
   | .oof => .oof
   | .throw e =>
     if s.exit then .goexit else
     (match e with
      | .goErr v => .panic v
      | .jsErr v => .panic v
      | .null => .stuck 1
      | .typeErr => .stuck 2)
   | _ => .normal⟩

/-- ASSUMPTION of `getStackDepth` made explicit: the number of lines of `new Error().stack` taken with
    `d` JS frames on the stack when V8 keeps at most `limit` frames (`Error.stackTraceLimit`;
    `none` = Infinity): one header line plus min(d, limit) frame lines. -/
def observedLines (limit : Option Nat) (d : Nat) : Nat :=
  match limit with
  | none => d + 1
  | some l => min d l + 1

/-- the global emulation state left behind: (`$stackDepthOffset`, `$panicStackDepth`, lengths of
    `panicStack` and `deferStack`) -/
def emuState (fuel : Nat) (P : Prog) : Int × Option Int × Nat × Nat :=
  let (s, _) := eFn fuel P 0 0 0 2 JS.init
  (s.off, s.psd, s.panicStack.length, s.deferStack.length)

end GV.Defer
