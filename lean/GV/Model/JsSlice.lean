/-
  GV.Model.JsSlice — the window of its backing array that a Go slice hands to JavaScript.

  A Go slice is `{$array, $offset, $length, $capacity}` (types.js, slice constructor): `$capacity` is the capacity of the
  SLICE (counted from `$offset`), not the length of the backing array.
    `$subslice(slice, low, high, max)`   prelude.js:168-186   s[low:high:max]
    `$sliceToNativeArray(slice)`         prelude.js:198-204   `$array.subarray($offset, $offset + $length)` for typed arrays,
                                                              `$array.slice($offset, $offset + $length)` for Arrays
  `$externalize` of a slice (jsmapping.js, case `$kindSlice`) works on `$sliceToNativeArray(v)`; in GV.Model.JsConv a
  non-nil slice value is the list of its elements, i.e. exactly this window (`sliceToNative_window`).
-/
namespace GV.JsSlice

structure SliceRep (α : Type) where
  backing : List α
  offset : Nat
  length : Nat
  capacity : Nat
  deriving Repr

/-- the invariant every slice built by `new T(array)`, `$makeSlice` and `$subslice` satisfies:
    `0 ≤ len ≤ cap` and `offset + cap ≤ backing.length` -/
def SliceRep.Inv {α : Type} (s : SliceRep α) : Prop :=
  s.length ≤ s.capacity ∧ s.offset + s.capacity ≤ s.backing.length

/-- `new T(array)`: the whole array -/
def ofArray {α : Type} (a : List α) : SliceRep α := ⟨a, 0, a.length, a.length⟩

/-- `TypedArray.prototype.subarray(lo, hi)` / `Array.prototype.slice(lo, hi)` for `0 ≤ lo ≤ hi` (clamped to the array) -/
def subarray {α : Type} (a : List α) (lo hi : Nat) : List α := (a.take hi).drop lo

/-- prelude.js:168-186 `$subslice(slice, low, high, max)`; `none` = "slice bounds out of range" -/
def subslice {α : Type} (s : SliceRep α) (low high max : Nat) : Option (SliceRep α) :=
  if high < low ∨ max < high ∨ high > s.capacity ∨ max > s.capacity then none
  else some ⟨s.backing, s.offset + low, high - low, max - low⟩

/-- prelude.js:198-204 `$sliceToNativeArray(slice)` -/
def sliceToNative {α : Type} (s : SliceRep α) : List α := subarray s.backing s.offset (s.offset + s.length)

/-- the seeded variant: "the slice spans its whole backing array" tested with the slice's capacity -/
def sliceToNativeFast {α : Type} (s : SliceRep α) : List α :=
  if s.offset = 0 ∧ s.length = s.capacity then s.backing else subarray s.backing s.offset (s.offset + s.length)

end GV.JsSlice
