/-
  GV.Model.CbHist — histories of JavaScript-side events over the goroutine scheduler of compiler/prelude/goroutines.js:
  what `$curGoroutine` is whenever control is back in JavaScript.

    `$go(fun, args)`      creates the goroutine closure `$goroutine`, `$schedule`s it
    `$goroutine`          one ACTIVATION: `try { $curGoroutine = $goroutine; r = fun(...); if (r.$blk) { suspend } else exit = true }
                          catch (err) { if (!exit) throw err }  finally { $curGoroutine = $noGoroutine; counters … }`
                          — the reset sits in the `finally`, so it also happens when the goroutine dies of an unrecovered panic
    `$runScheduled`       `nextRun = setTimeout($runScheduled); try { while ((r = $scheduled.shift()) !== undefined) r(); }
                          finally { if ($scheduled.length == 0) clearTimeout(nextRun); }`
    `$schedule(g)`        wake-up bookkeeping, `$scheduled.push(g)`, and `$runScheduled()` at once when called from JavaScript
                          (`$curGoroutine === $noGoroutine`)

  Goroutines are straight-line scripts of channel operations on the one channel of GV.Model.CbGuard (whose `send`, `recv`,
  `select` are reused for operations executed INSIDE a goroutine, where `$schedule` only pushes); operations executed in a
  JavaScript callback (`sendC`, `recvC`, `selectC`) run the scheduler loop wherever the real code calls `$schedule`.
  The clock is frozen (the 4 ms break of the loop never triggers); `timers` counts pending `setTimeout($runScheduled)` timers.
-/
import GV.Model.CbGuard

namespace GV.CbHist
open GV.CbGuard

/-- what a scripted goroutine does next -/
inductive GOp where
  | send (v : Nat)
  | recv
  | select (pick : Nat) (cs : List Case)
  | panic                       -- an unrecovered panic (the exception leaves `fun`)
  | exit                        -- return
  deriving DecidableEq, Repr

structure HSt where
  base : St                            -- channel, `$curGoroutine`, `$scheduled`, asleep flags, `$awakeGoroutines`
  progs : List (Nat × List GOp)        -- live goroutines: what is left of their scripts
  timers : Nat                         -- pending `setTimeout($runScheduled)` timers
  total : Nat                          -- `$totalGoroutines`
  nextG : Nat                          -- goroutines created so far
  deriving DecidableEq, Repr

def init (capacity : Nat) : HSt :=
  { base := GV.CbGuard.init capacity, progs := [], timers := 0, total := 0, nextG := 0 }

/-- how an activation ends -/
inductive ActEnd where
  | exited | blocked | panicked
  deriving DecidableEq, Repr

/-- the body of a goroutine runs its script until it blocks, returns or panics (`$curGoroutine` is the goroutine, so
    `$schedule` only pushes: GV.CbGuard's operations apply as they are) -/
def runOps (s : St) : List GOp → ActEnd × St × List GOp
  | [] => (.exited, s, [])
  | .panic :: _ => (.panicked, s, [])
  | .exit :: _ => (.exited, s, [])
  | .send v :: rest =>
    let r := send s v
    match r.1 with
    | .done => runOps r.2 rest
    | .blocked => (.blocked, r.2, rest)
    | _ => (.panicked, r.2, [])               -- a runtime error nobody recovers
  | .recv :: rest =>
    let r := recv s
    match r.1 with
    | .value _ | .zero => runOps r.2 rest
    | .blocked => (.blocked, r.2, rest)
    | _ => (.panicked, r.2, [])
  | .select pick cs :: rest =>
    let r := select s cs pick
    match r.1 with
    | .selected _ | .selectedValue _ _ | .selectedZero _ => runOps r.2 rest
    | .blocked => (.blocked, r.2, rest)
    | _ => (.panicked, r.2, [])

def progOf (h : HSt) (g : Nat) : List GOp := ((h.progs.find? (·.1 == g)).map (·.2)).getD []

def setProg (ps : List (Nat × List GOp)) (g : Nat) (p : Option (List GOp)) : List (Nat × List GOp) :=
  let ps' := ps.filter (·.1 != g)
  match p with
  | some ops => ps' ++ [(g, ops)]
  | none => ps'

/-- one activation of goroutine `g` (the closure `$goroutine` of `$go`); the Boolean says whether an exception leaves it.
    `$curGoroutine` is reset in the `finally`, on every path. -/
def activate (h : HSt) (g : Nat) : Bool × HSt :=
  let r := runOps { h.base with cur := some g } (progOf h g)
  match r.1 with
  | .exited =>          -- `exit = true`; finally: `$totalGoroutines--; asleep = true; $awakeGoroutines--`
    (false, { h with base := { r.2.1 with cur := none, asleep := g :: r.2.1.asleep, awake := r.2.1.awake - 1 },
                     progs := setProg h.progs g none, total := h.total - 1 })
  | .blocked =>         -- `$block()` marked it asleep; finally: `$awakeGoroutines--` (both done by GV.CbGuard.block)
    (false, { h with base := { r.2.1 with cur := none }, progs := setProg h.progs g (some r.2.2) })
  | .panicked =>        -- catch: `exit` is false → rethrown; finally: only the reset
    (true, { h with base := { r.2.1 with cur := none }, progs := setProg h.progs g none })

/-- the loop of `$runScheduled` (after `nextRun = setTimeout(…)` was counted); fuel bounds the number of activations -/
def loop : Nat → HSt → Bool × HSt
  | 0, h => (false, h)
  | fuel + 1, h =>
    match h.base.scheduled with
    | [] => (false, { h with timers := h.timers - 1 })                 -- finally: queue empty → `clearTimeout(nextRun)`
    | none :: rest =>                                                  -- `$noGoroutine()` → TypeError
      (true, { h with base := { h.base with scheduled := rest }, timers := if rest.isEmpty then h.timers - 1 else h.timers })
    | some g :: rest =>
      let r := activate { h with base := { h.base with scheduled := rest } } g
      if r.1 then
        (true, { r.2 with timers := if r.2.base.scheduled.isEmpty then r.2.timers - 1 else r.2.timers })
      else loop fuel r.2

def loopFuel : Nat := 4096

/-- `$runScheduled()` -/
def runScheduled (h : HSt) : Bool × HSt := loop loopFuel { h with timers := h.timers + 1 }

/-- the bookkeeping half of `$schedule(g)` -/
def pushSched (s : St) (g : Gid) : St :=
  match g with
  | some n =>
    if n ∈ s.asleep then
      { s with asleep := s.asleep.filter (· ≠ n), awake := s.awake + 1, scheduled := s.scheduled ++ [g] }
    else { s with scheduled := s.scheduled ++ [g] }
  | none => { s with scheduled := s.scheduled ++ [none] }

/-- `$schedule(g)` called from JavaScript (`$curGoroutine === $noGoroutine`): push, then run the scheduler at once -/
def scheduleC (h : HSt) (g : Gid) : Bool × HSt := runScheduled { h with base := pushSched h.base g }

/-- outcome of an event as JavaScript sees it -/
inductive HOut where
  | op (o : Out)                -- the channel operation returned / threw as GV.CbGuard describes
  | threw                       -- an exception of a goroutine activated underneath reached JavaScript
  | ok                          -- `$go` / a timer returned normally
  | idle                        -- no timer pending
  deriving DecidableEq, Repr

/-- `$send(chan, v)` in a JavaScript callback -/
def sendC (h : HSt) (v : Nat) : HOut × HSt :=
  let s := h.base
  if s.chan.closed then (.op .errSendClosed, h)
  else
    match s.chan.recvQ with
    | r :: rq =>
      let r' := scheduleC { h with base := { s with chan := removeSel { s.chan with recvQ := rq } r.sel,
                                                     delivered := s.delivered ++ [(r.g, v)] } } r.g
      (if r'.1 then .threw else .op .done, r'.2)
    | [] =>
      if s.chan.buffer.length < s.chan.capacity then
        (.op .done, { h with base := { s with chan := { s.chan with buffer := s.chan.buffer ++ [v] } } })
      else if !canBlock s then (.op .errCannotBlock, h)       -- `$checkCanBlock()`
      else
        let b := block { s with chan := { s.chan with sendQ := s.chan.sendQ ++ [⟨s.cur, v, none⟩] } }
        (.op b.1, { h with base := b.2 })

/-- `$recv(chan)` in a JavaScript callback -/
def recvC (h : HSt) : HOut × HSt :=
  let s := h.base
  let r1 : Bool × HSt :=
    match s.chan.sendQ with
    | e :: sq =>
      let r := scheduleC { h with base := { s with chan := removeSel { s.chan with sendQ := sq } e.sel } } e.g
      if r.1 then (true, r.2)
      else (false, { r.2 with base := { r.2.base with chan := { r.2.base.chan with buffer := r.2.base.chan.buffer ++ [e.v] } } })
    | [] => (false, h)
  if r1.1 then (.threw, r1.2) else
  let h1 := r1.2
  let s1 := h1.base
  match s1.chan.buffer with
  | b :: bs => (.op (.value b), { h1 with base := { s1 with chan := { s1.chan with buffer := bs } } })
  | [] =>
    if s1.chan.closed then (.op .zero, h1)
    else if !canBlock s1 then (.op .errCannotBlock, h1)       -- `$checkCanBlock()`
    else
      let b := block { s1 with chan := { s1.chan with recvQ := s1.chan.recvQ ++ [⟨s1.cur, none⟩] } }
      (.op b.1, { h1 with base := b.2 })

/-- `$select(comms)` in a JavaScript callback -/
def selectC (h : HSt) (cs : List Case) (pick : Nat) : HOut × HSt :=
  let s := h.base
  if sendOnClosed s cs then (.op .errSendClosed, h)
  else
    match choose s cs pick with
    | some i =>
      match cs[i]? with
      | some (.send v) =>
        let r := sendC h v
        (match r.1 with
          | .op .done => .op (.selected i)
          | o => o, r.2)
      | some .recv =>
        let r := recvC h
        (match r.1 with
          | .op (.value b) => .op (.selectedValue i b)
          | .op .zero => .op (.selectedZero i)
          | o => o, r.2)
      | _ => (.op (.selected i), h)
    | none =>
      if !canBlock s then (.op .errCannotBlock, h)            -- `$checkCanBlock()`
      else
        let b := block { s with chan := pushEntries s.chan s.cur s.nextSel cs, nextSel := s.nextSel + 1 }
        (.op b.1, { h with base := b.2 })

/-- events: everything here happens in JavaScript, outside any goroutine -/
inductive HEv where
  | go (prog : List GOp)                      -- a callback executes `go f()`: `$go(fun, [])`
  | cbSend (v : Nat)                          -- a callback sends
  | cbRecv                                    -- a callback receives
  | cbSelect (pick : Nat) (cs : List Case)    -- a callback selects
  | tick                                      -- the event loop fires a pending `$runScheduled` timer
  deriving DecidableEq, Repr

def step (h : HSt) : HEv → HOut × HSt
  | .go prog =>
    -- `$totalGoroutines++; $awakeGoroutines++;` fresh closure (asleep = false); `$schedule($goroutine)`
    let g := h.nextG
    let h1 := { h with base := { h.base with awake := h.base.awake + 1 }, progs := h.progs ++ [(g, prog)],
                       total := h.total + 1, nextG := g + 1 }
    let r := scheduleC h1 (some g)
    (if r.1 then .threw else .ok, r.2)
  | .cbSend v => sendC h v
  | .cbRecv => recvC h
  | .cbSelect pick cs => selectC h cs pick
  | .tick =>
    if h.timers = 0 then (.idle, h)
    else
      let r := runScheduled { h with timers := h.timers - 1 }
      (if r.1 then .threw else .ok, r.2)

def run : HSt → List HEv → List HOut × HSt
  | h, [] => ([], h)
  | h, e :: es => let r := step h e; let rr := run r.2 es; (r.1 :: rr.1, rr.2)

end GV.CbHist
