/-
  GV.Model.NamesPlain — the root function context after the repair `fixes/C01-reserve-globals.patch`:
  besides the reserved keywords (`GV.Names.reserved`, compiler.go:26-38), `newRootCtx` (package.go:145-150) seeds
  `allVars` with the JavaScript globals the generated code refers to by their bare name (`reservedGlobals`, compiler.go).
  Core Lean only; extends `GV.Model.Names` (owned by C16) without changing it.
-/
import GV.Model.Names

namespace GV.NamesPlain
open GV.Names

/-- compiler.go `reservedGlobals`: `console`, `Number`, `Uint8Array`, `DataView` (as byte lists) -/
def reservedGlobals : List Name := [
  /- console -/ [99, 111, 110, 115, 111, 108, 101],
  /- Number -/ [78, 117, 109, 98, 101, 114],
  /- Uint8Array -/ [85, 105, 110, 116, 56, 65, 114, 114, 97, 121],
  /- DataView -/ [68, 97, 116, 97, 86, 105, 101, 119]]

/-- package.go:148-150 `for _, name := range reservedGlobals { funcCtx.allVars[name] = 1 }` -/
def seedExtra (extra : List Name) (sc : Scope) : Scope :=
  { sc with vars := extra.foldl (fun m k => VarMap.set m k 1) sc.vars }

/-- the root context `newRootCtx` builds -/
def rootScopeG : Scope := seedExtra reservedGlobals rootScope

def initStateX (extra : List Name) : NState := { chain := [seedExtra extra rootScope], pkgNames := [] }

/-- start of every history: only the root context, seeded with keywords and globals -/
def initStateG : NState := initStateX reservedGlobals

/-- every name a Go identifier must not be given -/
def reservedAll : List Name := reserved ++ reservedGlobals

end GV.NamesPlain
