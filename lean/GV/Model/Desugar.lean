/-
  GV.Model.Desugar — `x op= y` and `x++ / x--` as the compiler rewrites them before translation (core Lean only).

  Mirrors `/repo/compiler/filter/incdecstmt.go:10-39` (`x++` becomes `x += 1`, `x--` becomes `x -= 1`) and
  `/repo/compiler/filter/assign.go:11-108`: `viaTmpVars` walks the left operand — an index expression recurses into `X`
  (temp name `_slice`) and `Index` (`_index`), a field selector into `X` (`_struct`), a pointer indirection into `X`
  (`_ptr`); identifiers and literals stay; ANY other expression is evaluated once into a fresh temporary
  (`tmp := e`, appended to the statement list in visiting order) — and the statement becomes the block
  `{ tmp…; lhs' = lhs' op (rhs) }`.

  Expressions are abstract: identifiers, literals, temporaries, index / field / indirection, an OPAQUE expression
  `opq k` (a call, a binary expression … — anything `viaTmpVars` does not look into; it may have side effects on the
  store, e.g. append to the output trace) and the binary operation the desugaring itself builds.
-/
namespace GV.Desugar

abbrev Val := Nat
abbrev Loc := Nat

inductive Ex where
  | ident (x : Nat)
  | lit (n : Nat)
  | tmp (j : Nat)
  | index (x i : Ex)
  | sel (x : Ex) (f : Nat)
  | star (x : Ex)
  | opq (k : Nat)
  | bin (l r : Ex)
  /-- a type conversion `T(x)` (numeric, named, pointer, string↔slice …): evaluates `x`, side effects included -/
  | conv (x : Ex)
  deriving Repr, DecidableEq, Inhabited

/-- interpretation of the primitives over a store `σ` (heap, variables, output trace …) -/
structure Env (σ : Type) where
  opq : Nat → σ → Val × σ
  var : Nat → Loc
  lit : Nat → Val
  idx : Val → Val → Loc
  fld : Val → Nat → Loc
  deref : Val → Loc
  load : Loc → σ → Val
  store : Loc → Val → σ → σ
  op : Val → Val → Val
  /-- value conversion -/
  cv : Val → Val

abbrev Tmp := Nat → Val

/-- value of an expression; operands left to right (Go spec, "Order of evaluation") -/
def evalR (E : Env σ) (t : Tmp) : Ex → σ → Val × σ
  | .ident x, s => (E.load (E.var x) s, s)
  | .lit n, s => (E.lit n, s)
  | .tmp j, s => (t j, s)
  | .index x i, s =>
    let r1 := evalR E t x s
    let r2 := evalR E t i r1.2
    (E.load (E.idx r1.1 r2.1) r2.2, r2.2)
  | .sel x f, s =>
    let r1 := evalR E t x s
    (E.load (E.fld r1.1 f) r1.2, r1.2)
  | .star x, s =>
    let r1 := evalR E t x s
    (E.load (E.deref r1.1) r1.2, r1.2)
  | .opq k, s => E.opq k s
  | .bin l r, s =>
    let r1 := evalR E t l s
    let r2 := evalR E t r r1.2
    (E.op r1.1 r2.1, r2.2)
  | .conv x, s =>
    let r1 := evalR E t x s
    (E.cv r1.1, r1.2)

/-- location denoted by an addressable expression (operands of index expressions and pointer indirections are
    evaluated, Go spec "Assignment statements", phase 1) -/
def evalL (E : Env σ) (t : Tmp) : Ex → σ → Loc × σ
  | .ident x, s => (E.var x, s)
  | .index x i, s =>
    let r1 := evalR E t x s
    let r2 := evalR E t i r1.2
    (E.idx r1.1 r2.1, r2.2)
  | .sel x f, s =>
    let r1 := evalR E t x s
    (E.fld r1.1 f, r1.2)
  | .star x, s =>
    let r1 := evalR E t x s
    (E.deref r1.1, r1.2)
  | _, s => (0, s)

/-- **Specification** (Go spec): `x op= y` evaluates the operands of `x` once, then `y`, then stores `x op y`. -/
def specOpAssign (E : Env σ) (t : Tmp) (x y : Ex) (s : σ) : σ :=
  let l := evalL E t x s
  let v := evalR E t y l.2
  E.store l.1 (E.op (E.load l.1 v.2) v.1) v.2

/-- names `viaTmpVars` passes down: 0 `_slice` 1 `_index` 2 `_struct` 3 `_ptr` 4 `_val` -/
def tmpName : Nat → String
  | 0 => "_slice"
  | 1 => "_index"
  | 2 => "_struct"
  | 3 => "_ptr"
  | _ => "_val"

/-- one `tmp := e` statement of the desugared block -/
structure TmpDef where
  j : Nat
  name : Nat
  e : Ex
  deriving Repr, DecidableEq

/-- assign.go:44-82 `viaTmpVars(expr, name)`; `n` = next free temporary, result = (rewritten expression, next free,
    statements appended in visiting order) -/
def viaTmp : Ex → Nat → Nat → Ex × Nat × List TmpDef
  | .index x i, _, n =>
    let rx := viaTmp x 0 n
    let ri := viaTmp i 1 rx.2.1
    (.index rx.1 ri.1, ri.2.1, rx.2.2 ++ ri.2.2)
  | .sel x f, _, n =>
    let rx := viaTmp x 2 n
    (.sel rx.1 f, rx.2.1, rx.2.2)
  | .star x, _, n =>
    let rx := viaTmp x 3 n
    (.star rx.1, rx.2.1, rx.2.2)
  | .ident x, _, n => (.ident x, n, [])
  | .lit k, _, n => (.lit k, n, [])
  | .tmp j, _, n => (.tmp j, n, [])
  | e, name, n => (.tmp n, n + 1, [⟨n, name, e⟩])

/-- assign.go:84-107: the desugared block `{ tmps…; lhs = lhs op (y) }` -/
structure Block where
  tmps : List TmpDef
  lhs : Ex
  rhs : Ex
  deriving Repr

def desugar (x y : Ex) : Block :=
  let r := viaTmp x 4 0
  { tmps := r.2.2, lhs := r.1, rhs := .bin r.1 y }

/-- incdecstmt.go: `x++` is `x += 1` -/
def desugarIncDec (x : Ex) : Block := desugar x (.lit 1)

def setTmp (t : Tmp) (j : Nat) (v : Val) : Tmp := fun i => if i = j then v else t i

/-- `tmp := e` statements, in order -/
def execTmps (E : Env σ) : List TmpDef → Tmp → σ → Tmp × σ
  | [], t, s => (t, s)
  | d :: r, t, s =>
    let v := evalR E t d.e s
    execTmps E r (setTmp t d.j v.1) v.2

/-- plain assignment `l = r` (statements.go:381-387 → `translateAssign`) -/
def execAssign (E : Env σ) (t : Tmp) (l r : Ex) (s : σ) : σ :=
  let loc := evalL E t l s
  let v := evalR E t r loc.2
  E.store loc.1 v.1 v.2

def execBlock (E : Env σ) (t : Tmp) (b : Block) (s : σ) : σ :=
  let r := execTmps E b.tmps t s
  execAssign E r.1 b.lhs b.rhs r.2

/-! ### syntactic predicates -/

def noTmp : Ex → Bool
  | .tmp _ => false
  | .index x i => noTmp x && noTmp i
  | .sel x _ => noTmp x
  | .star x => noTmp x
  | .bin l r => noTmp l && noTmp r
  | .conv x => noTmp x
  | _ => true

/-- opaque sub-expressions in evaluation (= source) order -/
def opqs : Ex → List Nat
  | .opq k => [k]
  | .index x i => opqs x ++ opqs i
  | .sel x _ => opqs x
  | .star x => opqs x
  | .bin l r => opqs l ++ opqs r
  | .conv x => opqs x
  | _ => []

/-! ### which operand forms `viaTmpVars` treats how (assign.go:46-82, after `astutil.RemoveParens`)

  * KEPT IN PLACE, i.e. treated as pure and evaluated again for the read and for the write: `*ast.Ident`, `*ast.BasicLit`
    (and the temporaries, which are identifiers);
  * LOOKED THROUGH (the node is rebuilt, its operands are treated recursively): `*ast.IndexExpr` (X, Index),
    `*ast.SelectorExpr` with a selection (X), `*ast.StarExpr` (X); parentheses are removed first;
  * HOISTED into a temporary — `default:` — EVERYTHING ELSE: calls, type conversions, unary and binary expressions,
    type assertions, composite literals, function literals called in place, slice expressions, qualified identifiers
    … (`opq`, `bin`, `conv` here).
  `desugar_once` holds exactly because the kept-in-place class contains nothing that can have an effect. -/

inductive OperandClass where
  | keptInPlace | lookedThrough | hoisted
  deriving Repr, DecidableEq

def operandClass : Ex → OperandClass
  | .ident _ => .keptInPlace
  | .lit _ => .keptInPlace
  | .tmp _ => .keptInPlace
  | .index _ _ => .lookedThrough
  | .sel _ _ => .lookedThrough
  | .star _ => .lookedThrough
  | _ => .hoisted

/-- A BROKEN variant (the seeded change `C01-conversion-operand-not-hoisted`): "a conversion has no side effects", so a
    conversion operand is kept in place — its argument is never inspected. -/
def viaTmpConvPure : Ex → Nat → Nat → Ex × Nat × List TmpDef
  | .index x i, _, n =>
    let rx := viaTmpConvPure x 0 n
    let ri := viaTmpConvPure i 1 rx.2.1
    (.index rx.1 ri.1, ri.2.1, rx.2.2 ++ ri.2.2)
  | .sel x f, _, n =>
    let rx := viaTmpConvPure x 2 n
    (.sel rx.1 f, rx.2.1, rx.2.2)
  | .star x, _, n =>
    let rx := viaTmpConvPure x 3 n
    (.star rx.1, rx.2.1, rx.2.2)
  | .ident x, _, n => (.ident x, n, [])
  | .lit k, _, n => (.lit k, n, [])
  | .tmp j, _, n => (.tmp j, n, [])
  | .conv x, _, n => (.conv x, n, [])
  | e, name, n => (.tmp n, n + 1, [⟨n, name, e⟩])

def desugarConvPure (x y : Ex) : Block :=
  let r := viaTmpConvPure x 4 0
  { tmps := r.2.2, lhs := r.1, rhs := .bin r.1 y }

/-! ### tuple assignment `l₁, …, lₙ = r₁, …, rₙ` (statements.go:399-414) -/

def evalRs (E : Env σ) (t : Tmp) : List Ex → σ → List Val × σ
  | [], s => ([], s)
  | e :: r, s =>
    let a := evalR E t e s
    let b := evalRs E t r a.2
    (a.1 :: b.1, b.2)

def evalLs (E : Env σ) (t : Tmp) : List Ex → σ → List Loc × σ
  | [], s => ([], s)
  | e :: r, s =>
    let a := evalL E t e s
    let b := evalLs E t r a.2
    (a.1 :: b.1, b.2)

def storeAll (E : Env σ) : List Loc → List Val → σ → σ
  | l :: ls, v :: vs, s => storeAll E ls vs (E.store l v s)
  | _, _, s => s

/-- **Specification** (Go spec, Assignment statements): phase 1 evaluates the operands of index expressions and pointer
    indirections on the left and the expressions on the right, all in the usual order; phase 2 carries out the
    assignments left to right. -/
def specTuple (E : Env σ) (t : Tmp) (ls rs : List Ex) (s : σ) : σ :=
  let l := evalLs E t ls s
  let v := evalRs E t rs l.2
  storeAll E l.1 v.1 v.2

/-- `lhs_i = _tmp_i`, one after the other: the operands of `lhs_i` are evaluated only now (statements.go:409-414) -/
def assignEach (E : Env σ) (t : Tmp) : List Ex → List Val → σ → σ
  | l :: ls, v :: vs, s =>
    let loc := evalL E t l s
    assignEach E t ls vs (E.store loc.1 v loc.2)
  | _, _, s => s

/-- **The code** (statements.go:399-414): every right-hand side into a `_tmp` variable first, then the stores. -/
def codeTuple (E : Env σ) (t : Tmp) (ls rs : List Ex) (s : σ) : σ :=
  let v := evalRs E t rs s
  assignEach E t ls v.1 v.2

def isIdent : Ex → Bool
  | .ident _ => true
  | _ => false

/-! ### driver: shape of the desugaring of the lvalue forms the generated programs use -/

/-- the side-effecting index operand `ix(id, x)` under wrapper `w` (what checks/c01.py renders):
    0 `ix()` · 1 `int(uint8(ix()))` · 2 `int(myInt(ix()))` · 3 `(ix())` · 4 `-(-ix())` · 5 `ix()&3` · 6 `idxs[uint8(ix())]` ·
    7 `any(ix()).(int)` · 8 `func() int { return ix() }()` · 9 `[1]int{ix()}[0]` · 10 `mkP(ix()).a` · 11 `*pint(ix())` ·
    12 `int([]byte(sb(ix()))[0])` · 13 `[]byte(sb(ix()))[0]` -/
def idxOperand : Nat → Ex
  | 1 => .conv (.conv (.opq 1))
  | 2 => .conv (.conv (.opq 1))
  | 5 => .bin (.opq 1) (.lit 3)
  | 6 => .index (.ident 5) (.conv (.opq 1))
  | 9 => .index (.opq 1) (.lit 0)
  | 10 => .sel (.opq 1) 0
  | 11 => .star (.opq 1)
  | 12 => .conv (.index (.conv (.opq 1)) (.lit 0))
  | 13 => .index (.conv (.opq 1)) (.lit 0)
  | _ => .opq 1      -- call, parenthesised call, unary, type assertion, literal called in place: `default:`

/-- pointer / struct base `pg(id, x)` / `ps(id)` under wrapper `w`: 0 plain · 1 parenthesised · 2 pointer conversion
    `(*T)(p())` · 3 conversion through a named pointer type · 4 `(*p())` (struct base only) -/
def baseOperand : Nat → Ex
  | 2 => .conv (.opq 0)
  | 3 => .conv (.conv (.opq 0))
  | 4 => .star (.opq 0)
  | _ => .opq 0

def lvForm (lv wi wb : Nat) : Ex :=
  match lv with
  | 0 => .index (.ident 0) (idxOperand wi)                   -- arr[…]
  | 1 => .star (baseOperand wb)                              -- *pg()
  | 2 => .index (.ident 1) (idxOperand wi)                   -- mp[…]
  | 3 => .index (.sel (.ident 2) 0) (idxOperand wi)          -- sv.x[…]
  | 4 => .index (.ident 3) (idxOperand wi)                   -- sl[…]
  | 5 => .index (.sel (baseOperand wb) 0) (idxOperand wi)    -- ps().x[…]
  | _ => .ident 4

def describe (lv wi wb op : String) : String :=
  match lv.toNat?, wi.toNat?, wb.toNat? with
  | some n, some wi, some wb =>
    let x := lvForm n wi wb
    let b := if op == "incdec" then desugarIncDec x else desugar x (.opq 9)
    let names := b.tmps.map fun d => tmpName d.name
    -- every opaque operand of the lvalue is hoisted exactly once, and the rewritten lvalue mentions none
    let hoistedOnce := decide ((b.tmps.map fun d => opqs d.e).flatten = opqs x) && decide (opqs b.lhs = [])
    (if names.isEmpty then "-" else ",".intercalate names) ++ s!" once={hoistedOnce}"
  | _, _, _ => "bad-op"

end GV.Desugar
