/-
  GV.Model.MapKey — how GopherJS flattens a comparable Go key to the key of a JS `Map`.

  Transcription of the per-kind `keyFor` functions of /repo/compiler/prelude/types.js
  (`$ifaceKeyFor` :41-47, `$idKey` :53-59, `$newType` :85-137,147-151,172,193,219,262-267) and of
  `$floatKey` (/repo/compiler/prelude/numeric.js:25-31), AS REPAIRED by /verif/fixes/C15-complex-nan-key,
  C15-float-array-nan-key and C15-iface-type-id-key.  JS strings are lists of code units (`Str`);
  `$` is 36, `\` is 92.  The global `$idCounter` (prelude.js:71), shared by `$floatKey` (fresh NaN keys)
  and `$idKey` (lazily assigned `$id` of pointers / channels), is explicit state (`KSt`).
  `Number::toString` on finite non-zero doubles is a PARAMETER `fs` of the model (the theorems state what
  they need of it: `GV.Props.C15.ToStringOK`); the driver instantiates it with `halfFs`.
  Core Lean only.
-/
namespace GV.MapKey

/-- a JS string: list of UTF-16 code units (Go strings: bytes 0..255) -/
abbrev Str := List Nat

/-! ### decimal rendering (`String(n)` of an integer-valued JS number) -/

/-- decimal digits of `n`, most significant first -/
def digits (n : Nat) : List Nat :=
  if n < 10 then [n] else digits (n / 10) ++ [n % 10]
decreasing_by omega

def decNat (n : Nat) : Str := (digits n).map (· + 48)

/-- `String(i)` for an integer `i` (sign `-` = 45) -/
def decInt (i : Int) : Str := if i < 0 then 45 :: decNat i.natAbs else decNat i.natAbs

/-! ### floats: the classes that matter for `==` plus the finite non-zero values -/

/-- a float64/float32 value: NaN, ±Inf, ±0, or a finite non-zero double identified by an integer code `v ≠ 0`
    (distinct codes = distinct doubles; the driver uses `v = 2 * value` for multiples of 1/2) -/
inductive Flt
  | nan
  | inf (neg : Bool)
  | zero (neg : Bool)
  | fin (v : Int)
  deriving DecidableEq, Repr, Inhabited

def sNaN : Str := [78, 97, 78]
def sInfinity : Str := [73, 110, 102, 105, 110, 105, 116, 121]
def sNil : Str := [110, 105, 108]
def sTrue : Str := [116, 114, 117, 101]
def sFalse : Str := [102, 97, 108, 115, 101]

/-- `String(n/2)` for a natural `n` -/
def halfStr (n : Nat) : Str :=
  if n % 2 = 0 then decNat (n / 2) else decNat (n / 2) ++ [46, 53]

/-- `Number::toString` for the finite non-zero double `t / 2` (exact decimal, which is what ECMAScript prints for
    these values below 2^53): the instance of the parameter `fs` used by the driver -/
def halfFs (t : Int) : Str := if t < 0 then 45 :: halfStr t.natAbs else halfStr t.natAbs

/-- ECMAScript `String(f)` (Number::toString); `fs` renders the finite non-zero doubles; `String(-0) = "0"` -/
def numStr (fs : Int → Str) : Flt → Str
  | .nan => sNaN
  | .inf false => sInfinity
  | .inf true => 45 :: sInfinity
  | .zero _ => [48]
  | .fin t => fs t

/-! ### values -/

mutual
/-- a comparable Go value as the prelude sees it. Named types have the representation of their
    underlying type; the name only matters inside an interface (`iface tid v`: dynamic type with
    identity `tid` — the JS constructor object — holding `v`). -/
inductive KVal
  | bool (b : Bool)
  /-- every integer kind of at most 32 bits (a JS number) -/
  | int (n : Int)
  /-- int64 / uint64: `{$high, $low}` -/
  | i64 (hi : Int) (lo : Nat)
  | float (f : Flt)
  /-- complex64 / complex128: `{$real, $imag}` -/
  | complex (re im : Flt)
  /-- string as bytes -/
  | str (s : Str)
  /-- pointer or channel: the identity of the JS object (nil is one more object) -/
  | ref (obj : Nat)
  | ifaceNil
  | iface (tid : Nat) (v : KVal)
  /-- array (`isArr = true`) or struct (fields; blank `_` fields are not modelled) -/
  | tuple (isArr : Bool) (es : KVals)
inductive KVals
  | nil
  | cons (h : KVal) (t : KVals)
end

instance : Inhabited KVal := ⟨.ifaceNil⟩
instance : Inhabited KVals := ⟨.nil⟩

def KVals.toList : KVals → List KVal
  | .nil => []
  | .cons h t => h :: t.toList

def KVals.ofList : List KVal → KVals
  | [] => .nil
  | h :: t => .cons h (KVals.ofList t)

def KVals.length : KVals → Nat
  | .nil => 0
  | .cons _ t => t.length + 1

/-! ### state: `$idCounter` and the `$id` properties already assigned -/

structure KSt where
  /-- `$idCounter` (prelude.js:71) -/
  ctr : Nat
  /-- object ↦ its `$id` property, for the objects that have one -/
  ids : List (Nat × Nat)
  deriving Repr, Inhabited

def KSt.init : KSt := ⟨0, []⟩

/-- the key of a JS `Map`: compared with SameValueZero, so numbers, booleans and strings are distinct sorts -/
inductive JKey
  | num (n : Int)
  | bool (b : Bool)
  | str (s : Str)
  deriving DecidableEq, Repr, Inhabited

/-- JS `String(key)` -/
def JKey.toStr : JKey → Str
  | .num n => decInt n
  | .bool true => sTrue
  | .bool false => sFalse
  | .str s => s

/-- `s.replace(/c/g, rep)` for a single code unit `c` -/
def replaceAll (c : Nat) (rep : Str) : Str → Str
  | [] => []
  | x :: xs => if x = c then rep ++ replaceAll c rep xs else x :: replaceAll c rep xs

/-- types.js:149,265 `.replace(/\\/g, "\\\\").replace(/\$/g, "\\$")` -/
def esc (s : Str) : Str := replaceAll 36 [92, 36] (replaceAll 92 [92, 92] s)

/-- `Array.prototype.join.call(parts, "$")` -/
def joinD : List Str → Str
  | [] => []
  | [a] => a
  | a :: b :: l => a ++ 36 :: joinD (b :: l)

/-- numeric.js:25-31 `$floatKey` -/
def floatKey (fs : Int → Str) (f : Flt) (st : KSt) : Str × KSt :=
  match f with
  | .nan => (sNaN ++ 36 :: decNat (st.ctr + 1), { st with ctr := st.ctr + 1 })
  | f => (numStr fs f, st)

/-- types.js:53-59 `$idKey` -/
def idKey (obj : Nat) (st : KSt) : Str × KSt :=
  match st.ids.lookup obj with
  | some i => (decNat i, st)
  | none => (decNat (st.ctr + 1), ⟨st.ctr + 1, (obj, st.ctr + 1) :: st.ids⟩)

mutual
/-- `typ.keyFor(x)` for the type of `x`. The dynamic type `tid` of an interface value is identified by its `typ.id`
    (assigned from `$typeIDCounter` by every `$newType` call, types.js: `typ.id = $typeIDCounter; $typeIDCounter++`),
    so `tid` IS that id. -/
def keyFor (fs : Int → Str) : KVal → KSt → JKey × KSt
  | .bool b, st => (.bool b, st)                                   -- `$identity`
  | .int n, st => (.num n, st)                                     -- `$identity`
  | .i64 hi lo, st => (.str (decInt hi ++ 36 :: decNat lo), st)    -- `x.$high + "$" + x.$low`
  | .float f, st => let r := floatKey fs f st; (.str r.1, r.2)     -- `$floatKey(x)`
  | .complex re im, st =>                                          -- `$floatKey(x.$real) + "$" + $floatKey(x.$imag)`
    let r1 := floatKey fs re st
    let r2 := floatKey fs im r1.2
    (.str (r1.1 ++ 36 :: r2.1), r2.2)
  | .str s, st => (.str (36 :: s), st)                             -- `"$" + x`
  | .ref o, st => let r := idKey o st; (.str r.1, r.2)             -- `$idKey`
  | .ifaceNil, st => (.str sNil, st)                               -- `$ifaceKeyFor`: `'nil'`
  | .iface tid v, st =>                                            -- `c.id + '$' + c.keyFor(x.$val)`
    let r := keyFor fs v st
    (.str (decNat tid ++ 36 :: r.1.toStr), r.2)
  | .tuple _ es, st =>                                             -- array: `Array.from(x, e => esc(String(elem.keyFor(e)))).join("$")`
    let r := keysFor fs es st                                      -- struct: `$mapArray(fields, f => esc(String(f.typ.keyFor(val[f.prop])))).join("$")`
    (.str (joinD r.1), r.2)
/-- the escaped component keys, left to right -/
def keysFor (fs : Int → Str) : KVals → KSt → List Str × KSt
  | .nil, st => ([], st)
  | .cons h t, st =>
    let r := keyFor fs h st
    let r2 := keysFor fs t r.2
    (esc r.1.toStr :: r2.1, r2.2)
end

/-! ### static types (used to state which pairs of values can meet in one map) -/

mutual
inductive KType
  | bool | int | i64 | float | complex | string | ref | iface
  | array (elem : KType) (len : Nat)
  | struct (fields : KTypes)
inductive KTypes
  | nil
  | cons (h : KType) (t : KTypes)
end

/-- a float value that the model can hold: the finite value `fin t` has `t ≠ 0` (zeros are `zero _`) -/
def fwt : Flt → Bool
  | .fin t => t != 0
  | _ => true

mutual
/-- `v` is a value of static type `τ`; `shape tid` is the representation type of dynamic type `tid` -/
def wt (shape : Nat → KType) : KType → KVal → Bool
  | .bool, .bool _ => true
  | .int, .int _ => true
  | .i64, .i64 _ _ => true
  | .float, .float f => fwt f
  | .complex, .complex re im => fwt re && fwt im
  | .string, .str _ => true
  | .ref, .ref _ => true
  | .iface, .ifaceNil => true
  | .iface, .iface tid v => wt shape (shape tid) v
  | .array elem len, .tuple true es => wtAll shape elem es && es.length == len
  | .struct fs, .tuple false es => wtEach shape fs es
  | _, _ => false
def wtAll (shape : Nat → KType) : KType → KVals → Bool
  | _, .nil => true
  | τ, .cons h t => wt shape τ h && wtAll shape τ t
def wtEach (shape : Nat → KType) : KTypes → KVals → Bool
  | .nil, .nil => true
  | .cons τ ts, .cons h t => wt shape τ h && wtEach shape ts t
  | _, _ => false
end

/-! ### vocabulary of map histories (shared by model and specification; values are `Int`) -/

inductive Op
  | store (k : KVal) (v : Int)
  | delete (k : KVal)
  | index (k : KVal)
  | commaOk (k : KVal)
  | len
  | make
  | setNil
  | literal (es : List (KVal × Int))
  /-- store / lookup with an interface key whose dynamic type is not comparable (slice, map, func) -/
  | unhashable

inductive Out
  | unit
  | val (v : Int)
  | valOk (v : Int) (ok : Bool)
  | len (n : Nat)
  | panicNilMap
  | panicUnhashable
  deriving DecidableEq, Repr

end GV.MapKey
