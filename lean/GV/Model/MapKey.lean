/-
  GV.Model.MapKey — how GopherJS flattens a comparable Go key to the key of a JS `Map`.

  Transcription of the per-kind `keyFor` functions of /repo/compiler/prelude/types.js
  (`$ifaceKeyFor` :41-47, `$idKey` :53-59, `$newType` :85-137,147-151,172,193,219,262-267) and of
  `$floatKey` (/repo/compiler/prelude/numeric.js:25-31).  JS strings are lists of code units (`Str`);
  `$` is 36, `\` is 92.  The global `$idCounter` (prelude.js:71), shared by `$floatKey` (fresh NaN keys)
  and `$idKey` (lazily assigned `$id` of pointers / channels), is explicit state (`KSt`).
  Core Lean only.
-/
namespace GV.MapKey

/-- a JS string: list of UTF-16 code units (Go strings: bytes 0..255) -/
abbrev Str := List Nat

/-! ### decimal rendering (`String(n)` of an integer-valued JS number) -/

/-- decimal digits of `n`, most significant first -/
def digits (n : Nat) : List Nat :=
  if n < 10 then [n] else digits (n / 10) ++ [n % 10]
decreasing_by omega

def decNat (n : Nat) : Str := (digits n).map (· + 48)

/-- `String(i)` for an integer `i` (sign `-` = 45) -/
def decInt (i : Int) : Str := if i < 0 then 45 :: decNat i.natAbs else decNat i.natAbs

/-! ### floats: the classes that matter for `==` plus the finite multiples of 1/2 -/

/-- a float64/float32 value: NaN, ±Inf, ±0, or the finite non-zero value `twice / 2` -/
inductive Flt
  | nan
  | inf (neg : Bool)
  | zero (neg : Bool)
  | fin (twice : Int)
  deriving DecidableEq, Repr, Inhabited

def sNaN : Str := [78, 97, 78]
def sInfinity : Str := [73, 110, 102, 105, 110, 105, 116, 121]
def sNil : Str := [110, 105, 108]
def sTrue : Str := [116, 114, 117, 101]
def sFalse : Str := [102, 97, 108, 115, 101]

/-- `String(n/2)` for a natural `n` -/
def halfStr (n : Nat) : Str :=
  if n % 2 = 0 then decNat (n / 2) else decNat (n / 2) ++ [46, 53]

/-- ECMAScript `String(f)` (Number::toString) on the modelled values; `String(-0) = "0"` -/
def numStr : Flt → Str
  | .nan => sNaN
  | .inf false => sInfinity
  | .inf true => 45 :: sInfinity
  | .zero _ => [48]
  | .fin t => if t < 0 then 45 :: halfStr t.natAbs else halfStr t.natAbs

/-! ### values -/

mutual
/-- a comparable Go value as the prelude sees it. Named types have the representation of their
    underlying type; the name only matters inside an interface (`iface tid v`: dynamic type with
    identity `tid` — the JS constructor object — holding `v`). -/
inductive KVal
  | bool (b : Bool)
  /-- every integer kind of at most 32 bits (a JS number) -/
  | int (n : Int)
  /-- int64 / uint64: `{$high, $low}` -/
  | i64 (hi : Int) (lo : Nat)
  | float (f : Flt)
  /-- complex64 / complex128: `{$real, $imag}` -/
  | complex (re im : Flt)
  /-- string as bytes -/
  | str (s : Str)
  /-- pointer or channel: the identity of the JS object (nil is one more object) -/
  | ref (obj : Nat)
  | ifaceNil
  | iface (tid : Nat) (v : KVal)
  /-- array (`isArr = true`, elements of a JS array / typed array) or struct (fields) -/
  | tuple (isArr : Bool) (es : KVals)
inductive KVals
  | nil
  | cons (h : KVal) (t : KVals)
end

instance : Inhabited KVal := ⟨.ifaceNil⟩
instance : Inhabited KVals := ⟨.nil⟩

def KVals.toList : KVals → List KVal
  | .nil => []
  | .cons h t => h :: t.toList

def KVals.ofList : List KVal → KVals
  | [] => .nil
  | h :: t => .cons h (KVals.ofList t)

def KVals.length : KVals → Nat
  | .nil => 0
  | .cons _ t => t.length + 1

/-! ### state: `$idCounter` and the `$id` properties already assigned -/

structure KSt where
  /-- `$idCounter` (prelude.js:71) -/
  ctr : Nat
  /-- object ↦ its `$id` property, for the objects that have one -/
  ids : List (Nat × Nat)
  deriving Repr, Inhabited

def KSt.init : KSt := ⟨0, []⟩

/-- the key of a JS `Map`: compared with SameValueZero, so numbers, booleans and strings are distinct sorts -/
inductive JKey
  | num (n : Int)
  | bool (b : Bool)
  | str (s : Str)
  deriving DecidableEq, Repr, Inhabited

/-- JS `String(key)` -/
def JKey.toStr : JKey → Str
  | .num n => decInt n
  | .bool true => sTrue
  | .bool false => sFalse
  | .str s => s

/-- `s.replace(/c/g, rep)` for a single code unit `c` -/
def replaceAll (c : Nat) (rep : Str) : Str → Str
  | [] => []
  | x :: xs => if x = c then rep ++ replaceAll c rep xs else x :: replaceAll c rep xs

/-- types.js:149,265 `.replace(/\\/g, "\\\\").replace(/\$/g, "\\$")` -/
def esc (s : Str) : Str := replaceAll 36 [92, 36] (replaceAll 92 [92, 92] s)

/-- `Array.prototype.join.call(parts, "$")` -/
def joinD : List Str → Str
  | [] => []
  | [a] => a
  | a :: b :: l => a ++ 36 :: joinD (b :: l)

/-- numeric.js:25-31 `$floatKey` -/
def floatKey (f : Flt) (st : KSt) : Str × KSt :=
  match f with
  | .nan => (sNaN ++ 36 :: decNat (st.ctr + 1), { st with ctr := st.ctr + 1 })
  | f => (numStr f, st)

/-- types.js:53-59 `$idKey` -/
def idKey (obj : Nat) (st : KSt) : Str × KSt :=
  match st.ids.lookup obj with
  | some i => (decNat i, st)
  | none => (decNat (st.ctr + 1), ⟨st.ctr + 1, (obj, st.ctr + 1) :: st.ids⟩)

/-- types.js:147-151: `$mapArray(x, f)` allocates `new x.constructor(x.length)`; for `[n]float32/float64`
    that is a Float32Array/Float64Array (types.js:494-520), so the escaped key *string* of an element is
    converted back to a number when stored: `"NaN\$7"` becomes `NaN`, and `join` prints `"NaN"`.
    Integer and non-NaN float element keys survive the round trip unchanged. -/
def typedArrayCoerce (isArr : Bool) (elem : KVal) (escaped : Str) : Str :=
  match isArr, elem with
  | true, .float .nan => sNaN
  | _, _ => escaped

mutual
/-- `typ.keyFor(x)` for the type of `x`; `reg tid` is `c.string` of the dynamic type `tid` -/
def keyFor (reg : Nat → Str) : KVal → KSt → JKey × KSt
  | .bool b, st => (.bool b, st)                                   -- types.js:87 `$identity`
  | .int n, st => (.num n, st)                                     -- types.js:87 `$identity`
  | .i64 hi lo, st => (.str (decInt hi ++ 36 :: decNat lo), st)    -- types.js:109,118
  | .float f, st => let r := floatKey f st; (.str r.1, r.2)        -- types.js:100
  | .complex re im, st => (.str (numStr re ++ 36 :: numStr im), st) -- types.js:127,136
  | .str s, st => (.str (36 :: s), st)                             -- types.js:93
  | .ref o, st => let r := idKey o st; (.str r.1, r.2)             -- types.js:172,219
  | .ifaceNil, st => (.str sNil, st)                               -- types.js:42-44
  | .iface tid v, st =>                                            -- types.js:45-46
    let r := keyFor reg v st
    (.str (reg tid ++ 36 :: r.1.toStr), r.2)
  | .tuple isArr es, st =>                                         -- types.js:147-151, 262-267
    let r := keysFor reg isArr es st
    (.str (joinD r.1), r.2)
/-- the escaped component keys, left to right -/
def keysFor (reg : Nat → Str) (isArr : Bool) : KVals → KSt → List Str × KSt
  | .nil, st => ([], st)
  | .cons h t, st =>
    let r := keyFor reg h st
    let r2 := keysFor reg isArr t r.2
    (typedArrayCoerce isArr h (esc r.1.toStr) :: r2.1, r2.2)
end

/-! ### static types (used to state which pairs of values can meet in one map) -/

mutual
inductive KType
  | bool | int | i64 | float | complex | string | ref | iface
  | array (elem : KType) (len : Nat)
  | struct (fields : KTypes)
inductive KTypes
  | nil
  | cons (h : KType) (t : KTypes)
end

/-- a float value that the model can hold: the finite value `fin t` has `t ≠ 0` (zeros are `zero _`) -/
def fwt : Flt → Bool
  | .fin t => t != 0
  | _ => true

mutual
/-- `v` is a value of static type `τ`; `shape tid` is the representation type of dynamic type `tid` -/
def wt (shape : Nat → KType) : KType → KVal → Bool
  | .bool, .bool _ => true
  | .int, .int _ => true
  | .i64, .i64 _ _ => true
  | .float, .float f => fwt f
  | .complex, .complex re im => fwt re && fwt im
  | .string, .str _ => true
  | .ref, .ref _ => true
  | .iface, .ifaceNil => true
  | .iface, .iface tid v => wt shape (shape tid) v
  | .array elem len, .tuple true es => wtAll shape elem es && es.length == len
  | .struct fs, .tuple false es => wtEach shape fs es
  | _, _ => false
def wtAll (shape : Nat → KType) : KType → KVals → Bool
  | _, .nil => true
  | τ, .cons h t => wt shape τ h && wtAll shape τ t
def wtEach (shape : Nat → KType) : KTypes → KVals → Bool
  | .nil, .nil => true
  | .cons τ ts, .cons h t => wt shape τ h && wtEach shape ts t
  | _, _ => false
end

/-! ### vocabulary of map histories (shared by model and specification; values are `Int`) -/

inductive Op
  | store (k : KVal) (v : Int)
  | delete (k : KVal)
  | index (k : KVal)
  | commaOk (k : KVal)
  | len
  | make
  | setNil
  | literal (es : List (KVal × Int))
  /-- store / lookup with an interface key whose dynamic type is not comparable (slice, map, func) -/
  | unhashable

inductive Out
  | unit
  | val (v : Int)
  | valOk (v : Int) (ok : Bool)
  | len (n : Nat)
  | panicNilMap
  | panicUnhashable
  deriving DecidableEq, Repr

end GV.MapKey
