/-
  GV.Model.Ptr — Go pointers as GopherJS represents them, on top of the JS heap of GV.Model.Heap.

  * a pointer to a variable / field / element of ARRAY or STRUCT type is the object itself
    (compiler/expressions.go:229-236 `&x` → `x`; `$newDataPointer` returns the struct, types.js);
  * a pointer to any other storage cell is a pointer OBJECT holding a `$get/$set` pair closed over the cell:
      escaping local        `x.$ptr || (x.$ptr = new T(function() { return this.$target[0]; }, function($v) { this.$target[0] = $v; }, x))`   expressions.go:251
      package variable      `$ptr_x || ($ptr_x = new T(function() { return x; }, function($v) { x = $v; }))`                                   expressions.go:253, 259
      field                 `o.$ptr_f || (o.$ptr_f = new T(function() { return this.$target.f; }, function($v) { this.$target.f = $v; }, o))` expressions.go:264
      array / slice element `$indexPtr(array, index, T)`: `array.$ptr[index] || (array.$ptr[index] = new T(() => array[index], v => array[index] = v))`;
                            typed arrays: one cache per ArrayBuffer keyed by the byte offset               types.js `$indexPtr`
    In every case the pointer object is cached ON the container under a key naming the cell, so there is at most
    one pointer object per cell. The model keeps the pointer objects in a table and looks the cell up in it.
-/
import GV.Model.Heap

namespace GV.Ptr
open GV.Heap

/-- a storage cell: container object (variable box, package scope, struct, array / ArrayBuffer) and slot -/
structure Target where
  obj : Nat
  slot : Nat
deriving DecidableEq, Repr

/-- the JS heap plus the pointer objects created so far (pointer object id = index; entry = the cell its
    `$get/$set` closures are closed over) -/
structure PHeap where
  heap : Heap
  ptrs : List Target

/-- a Go pointer value -/
inductive PtrVal where
  | cell (p : Nat)      -- a pointer object
  | obj (id : Nat)      -- pointer to array/struct storage = the object itself
deriving DecidableEq, Repr

/-- the cache lookup `container.$ptr_<slot>` / `array.$ptr[index]` / `$ptr_x` -/
def lookup (t : Target) : List Target → Option Nat
  | [] => none
  | u :: us => if u = t then some 0 else (lookup t us).map (· + 1)

/-- `&cell`: `cache || (cache = new PtrType(get, set, target))` -/
def addrCell (P : PHeap) (t : Target) : PHeap × Nat :=
  match lookup t P.ptrs with
  | some p => (P, p)
  | none => ({ P with ptrs := P.ptrs ++ [t] }, P.ptrs.length)

/-- `&x` for array/struct storage (expressions.go:235) -/
def addrObj (id : Nat) : PtrVal := .obj id

def targetOf (P : PHeap) (p : Nat) : Option Target := P.ptrs[p]?

/-- `p.$get()` -/
def load (P : PHeap) (p : Nat) : Option Int :=
  (targetOf P p).map fun t => P.heap.cell t.obj t.slot

/-- `p.$set(v)` -/
def store (P : PHeap) (p : Nat) (v : Int) : PHeap :=
  match targetOf P p with
  | some t => { P with heap := P.heap.write t.obj t.slot v }
  | none => P

/-- a direct assignment to the variable / field / element itself (`x = v`, `o.f = v`, `a[i] = v`) -/
def assignCell (P : PHeap) (t : Target) (v : Int) : PHeap :=
  { P with heap := P.heap.write t.obj t.slot v }

/-- Go's `p == q` on pointers is JS `===` on the pointer objects / the struct objects -/
def eqPtr (a b : PtrVal) : Bool := a == b

/-- the table holds at most one pointer object per cell -/
def PHeap.wf (P : PHeap) : Prop := P.ptrs.Nodup

end GV.Ptr
