/-
  GV.Model.Bits32 — transcription of the 32-bit overrides of compiler/natives/src/math/bits/bits.go
  (`Mul32`, `Add32`, `Div32`, `Rem32`).

  A Go `uint32` is a natural number `< 2^32`; every Go operation that can wrap is written with an
  explicit `u32` (reduction mod 2^32), exactly where the Go expression has a uint32-typed
  intermediate. `&`, `|`, `>>` cannot leave the range and are written plainly.
-/
namespace GV.Bits32

/-- truncation of a mathematical result to `uint32` -/
def u32 (n : Nat) : Nat := n % 4294967296

/-- Go `a - b` on uint32 -/
def sub32 (a b : Nat) : Nat := (a + 4294967296 - b % 4294967296) % 4294967296

/-- Go `a &^ b` on uint32 (bit clear): `a AND (NOT b)`, NOT within 32 bits -/
abbrev andNot32 (a b : Nat) : Nat := a &&& (b ^^^ 4294967295)

/-- bits.go:21-36 `Mul32` — returns (hi, lo) -/
def mul32 (x y : Nat) : Nat × Nat :=
  let x0 := x &&& 65535
  let x1 := x >>> 16
  let y0 := y &&& 65535
  let y1 := y >>> 16
  let w0 := u32 (x0 * y0)
  let t := u32 (u32 (x1 * y0) + w0 >>> 16)
  let w1 := t &&& 65535
  let w2 := t >>> 16
  let w1 := u32 (w1 + u32 (x0 * y1))
  let hi := u32 (u32 (u32 (x1 * y1) + w2) + w1 >>> 16)
  let lo := u32 (x * y)
  (hi, lo)

/-- bits.go:38-43 `Add32` — returns (sum, carryOut) -/
def add32 (x y carry : Nat) : Nat × Nat :=
  let sum := u32 (u32 (x + y) + carry)
  let carryOut := ((x &&& y) ||| (andNot32 (x ||| y) sum)) >>> 31
  (sum, carryOut)

/-- upstream `bits.LeadingZeros32` (not overridden): `32 - Len32(x)` -/
def leadingZeros32 (x : Nat) : Nat := if x = 0 then 32 else 31 - Nat.log2 x

/-- Go `x << s` on uint32 with a `uint` count: 0 once the count reaches 32 -/
def shl32 (x s : Nat) : Nat := if s < 32 then u32 (x <<< s) else 0
/-- Go `x >> s` on uint32 with a `uint` count -/
def shr32 (x s : Nat) : Nat := if s < 32 then x >>> s else 0

inductive DivResult where
  | ok (quo rem : Nat)
  | divideError          -- panic(divideError): "runtime error: integer divide by zero"
  | overflowError        -- panic(overflowError): "runtime error: integer overflow"
  | fuel                 -- the model's loop budget ran out (proved impossible: `div32_no_fuel`)
  deriving DecidableEq, Repr

/-- the two correction loops of `Div32` (bits.go:71-77 and 83-89):
    `for q >= two16 || q*yn0 > two16*rhat+un { q--; rhat += yn1; if rhat >= two16 { break } }`
    with all arithmetic on uint32. `fuel` bounds the iterations of the model; `none` = budget exhausted. -/
def corrLoop : Nat → Nat → Nat → Nat → Nat → Nat → Option Nat
  | 0, _, _, _, _, _ => none
  | fuel + 1, q, rhat, yn1, yn0, un =>
    if q ≥ 65536 ∨ u32 (q * yn0) > u32 (u32 (65536 * rhat) + un) then
      let q' := sub32 q 1
      let rhat' := u32 (rhat + yn1)
      if rhat' ≥ 65536 then some q' else corrLoop fuel q' rhat' yn1 yn0 un
    else some q

/-- iterations the model allows each correction loop (Knuth: at most 2 are ever needed; 3rd evaluation exits) -/
def loopFuel : Nat := 3

/-- one quotient digit of `Div32`: the estimate `q := u1 / yn1; rhat := u1 - q*yn1` followed by its correction loop.
    The Go code has this block twice: bits.go:68-77 (q1, on un16/un1) and bits.go:80-89 (q0, on un21/un0). -/
def digit (yn1 yn0 u1 u0 : Nat) : Option Nat :=
  corrLoop loopFuel (u1 / yn1) (sub32 u1 (u32 (u1 / yn1 * yn1))) yn1 yn0 u0

/-- bits.go:80-91: the low digit q0 (given as the outcome of its `digit` computation) and the results
    `q1*two16 + q0, (un21*two16 + un0 - q0*y) >> s` -/
def div32Lo (y un21 un0 q1 s : Nat) : Option Nat → DivResult
  | none => .fuel
  | some q0 => .ok (u32 (u32 (q1 * 65536) + q0)) (shr32 (sub32 (u32 (u32 (un21 * 65536) + un0)) (u32 (q0 * y))) s)

/-- bits.go:79: `un21 := un16*two16 + un1 - q1*y`, then the low digit on (un21, un0) -/
def div32Hi (y yn1 yn0 un16 un1 un0 s : Nat) : Option Nat → DivResult
  | none => .fuel
  | some q1 =>
    div32Lo y (sub32 (u32 (u32 (un16 * 65536) + un1)) (u32 (q1 * y))) un0 q1 s
      (digit yn1 yn0 (sub32 (u32 (u32 (un16 * 65536) + un1)) (u32 (q1 * y))) un0)

/-- bits.go:68-91: the two digits on the normalised operands -/
def div32Core (y yn1 yn0 un16 un1 un0 s : Nat) : DivResult :=
  div32Hi y yn1 yn0 un16 un1 un0 s (digit yn1 yn0 un16 un1)

/-- bits.go:57-66: the normalised operands for the shift count s:
    `y <<= s; yn1 := y >> 16; yn0 := y & mask16; un16 := hi<<s | lo>>(32-s); un10 := lo << s; un1 := un10 >> 16; un0 := un10 & mask16` -/
def div32Norm (hi lo y s : Nat) : DivResult :=
  div32Core (shl32 y s) (shl32 y s >>> 16) (shl32 y s &&& 65535) (shl32 hi s ||| shr32 lo (32 - s))
    (shl32 lo s >>> 16) (shl32 lo s &&& 65535) s

/-- bits.go:45-92 `Div32` (lines 51-56: panics and `s := uint(LeadingZeros32(y))`) -/
def div32 (hi lo y : Nat) : DivResult :=
  if y = 0 then .divideError
  else if y ≤ hi then .overflowError
  else div32Norm hi lo y (leadingZeros32 y)

inductive RemResult where
  | ok (rem : Nat)
  | divideError
  | fuel
  deriving DecidableEq, Repr

/-- bits.go:94-103 `Rem32`: `hi%y` panics with the *runtime's* divide error when y = 0 -/
def rem32 (hi lo y : Nat) : RemResult :=
  if y = 0 then .divideError
  else match div32 (hi % y) lo y with
    | .ok _ r => .ok r
    | .divideError => .divideError
    | .overflowError => .fuel      -- unreachable: hi % y < y
    | .fuel => .fuel

end GV.Bits32
