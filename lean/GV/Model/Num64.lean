import GV.Model.JSInt
/-
  GV.Model.Num64 — transcription of GopherJS's 64-bit integer emulation:
  the `{$high,$low}` constructor of compiler/prelude/types.js:103-119 and the helpers of
  compiler/prelude/numeric.js ($flatten64, $shiftLeft64, $shiftRightInt64, $shiftRightUint64, $mul64, $div64).
  Values are mathematical integers; every JS operator is the one of GV.Model.JSInt.
-/
namespace GV.Num64
open GV.JSInt

/-- a 64-bit integer object: `$high` (int32 for int64, uint32 for uint64) and `$low` (uint32) -/
structure W64 where
  high : Int
  low : Int
  deriving DecidableEq, Repr, Inhabited

/-- types.js:103-107 (`$kindInt64`, signed = true) and 111-115 (`$kindUint64`):
    `this.$high = (high + Math.floor(Math.ceil(low) / 4294967296)) >> 0` (`>>> 0` for uint64);
    `this.$low = low >>> 0`. `low` is an integer here, so `Math.ceil(low) = low` and the floor of the
    quotient is Euclidean division by a positive number. -/
def mk64 (signed : Bool) (high low : Int) : W64 :=
  { high := if signed then toInt32 (high + low / 4294967296) else toUint32 (high + low / 4294967296),
    low := toUint32 low }

/-- numeric.js:33-35 `$flatten64`: `x.$high * 4294967296 + x.$low` -/
def flatten64 (x : W64) : Int := x.high * 4294967296 + x.low

/-- numeric.js:37-48 `$shiftLeft64` -/
def shiftLeft64 (s : Bool) (x : W64) (y : Int) : W64 :=
  if y = 0 then x
  else if y < 32 then mk64 s (bor (shl x.high y) (shr x.low (32 - y))) (shr (shl x.low y) 0)
  else if y < 64 then mk64 s (shl x.low (y - 32)) 0
  else mk64 s 0 0

/-- numeric.js:50-64 `$shiftRightInt64` -/
def shiftRightInt64 (x : W64) (y : Int) : W64 :=
  if y = 0 then x
  else if y < 32 then mk64 true (sar x.high y) (shr (bor (shr x.low y) (shl x.high (32 - y))) 0)
  else if y < 64 then mk64 true (sar x.high 31) (shr (sar x.high (y - 32)) 0)
  else if x.high < 0 then mk64 true (-1) 4294967295
  else mk64 true 0 0

/-- numeric.js:66-77 `$shiftRightUint64` -/
def shiftRightUint64 (x : W64) (y : Int) : W64 :=
  if y = 0 then x
  else if y < 32 then mk64 false (shr x.high y) (shr (bor (shr x.low y) (shl x.high (32 - y))) 0)
  else if y < 64 then mk64 false 0 (shr x.high (y - 32))
  else mk64 false 0 0

/-- the four 16-bit limbs and the two result words of `$mul64` before the constructor call
    (numeric.js:79-116). Returned as (hi, lo, intermediates) so that exactness can be stated. -/
def mul64Core (x y : W64) : Int × Int × List Int :=
  let x48 := shr x.high 16
  let x32 := band x.high 0xFFFF
  let x16 := shr x.low 16
  let x00 := band x.low 0xFFFF
  let y48 := shr y.high 16
  let y32 := band y.high 0xFFFF
  let y16 := shr y.low 16
  let y00 := band y.low 0xFFFF
  let z00a := 0 + x00 * y00          -- z00 += x00 * y00
  let z16a := 0 + shr z00a 16        -- z16 += z00 >>> 16
  let z00 := band z00a 0xFFFF        -- z00 &= 0xFFFF
  let z16b := z16a + x16 * y00       -- z16 += x16 * y00
  let z32a := 0 + shr z16b 16        -- z32 += z16 >>> 16
  let z16c := band z16b 0xFFFF       -- z16 &= 0xFFFF
  let z16d := z16c + x00 * y16       -- z16 += x00 * y16
  let z32b := z32a + shr z16d 16     -- z32 += z16 >>> 16
  let z16 := band z16d 0xFFFF        -- z16 &= 0xFFFF
  let z32c := z32b + x32 * y00       -- z32 += x32 * y00
  let z48a := 0 + shr z32c 16        -- z48 += z32 >>> 16
  let z32d := band z32c 0xFFFF       -- z32 &= 0xFFFF
  let z32e := z32d + x16 * y16       -- z32 += x16 * y16
  let z48b := z48a + shr z32e 16     -- z48 += z32 >>> 16
  let z32f := band z32e 0xFFFF       -- z32 &= 0xFFFF
  let z32g := z32f + x00 * y32       -- z32 += x00 * y32
  let z48c := z48b + shr z32g 16     -- z48 += z32 >>> 16
  let z32 := band z32g 0xFFFF        -- z32 &= 0xFFFF
  let z48d := z48c + (x48 * y00 + x32 * y16 + x16 * y32 + x00 * y48)
  let z48 := band z48d 0xFFFF        -- z48 &= 0xFFFF
  let hi := shr (bor (shl z48 16) z32) 0
  let lo := shr (bor (shl z16 16) z00) 0
  (hi, lo, [z00a, z16b, z16d, z32c, z32e, z32g, z48d, x48 * y00, x32 * y16, x16 * y32, x00 * y48, hi, lo])

/-- numeric.js:79-116 `$mul64` -/
def mul64 (s : Bool) (x y : W64) : W64 :=
  let r := mul64Core x y
  mk64 s r.1 r.2.1

/-- numeric.js:148-152: the normalisation loop
    `while (yHigh < 2147483648 && ((xHigh > yHigh) || (xHigh === yHigh && xLow > yLow)))`.
    `fuel` bounds the iteration count (64 suffices: `div64_fuel_enough`); returns (yHigh, yLow, n, fuel left). -/
def div64Norm : Nat → Int → Int → Int → Int → Nat → Int × Int × Nat × Nat
  | 0, _, _, yHigh, yLow, n => (yHigh, yLow, n, 0)
  | fuel + 1, xHigh, xLow, yHigh, yLow, n =>
    if yHigh < 2147483648 ∧ (xHigh > yHigh ∨ (xHigh = yHigh ∧ xLow > yLow)) then
      div64Norm fuel xHigh xLow (shr (bor (shl yHigh 1) (shr yLow 31)) 0) (shr (shl yLow 1) 0) (n + 1)
    else (yHigh, yLow, n, fuel + 1)

/-- state of the second loop of `$div64` -/
structure DivSt where
  xHigh : Int
  xLow : Int
  yHigh : Int
  yLow : Int
  high : Int
  low : Int
  deriving DecidableEq, Repr

/-- numeric.js:154-171: one iteration of `for (var i = 0; i <= n; i++) { … }` -/
def div64Step (st : DivSt) : DivSt :=
  let high := bor (shl st.high 1) (shr st.low 31)
  let low := shr (shl st.low 1) 0
  let st1 : DivSt :=
    if st.xHigh > st.yHigh ∨ (st.xHigh = st.yHigh ∧ st.xLow ≥ st.yLow) then
      let xHigh := st.xHigh - st.yHigh
      let xLow := st.xLow - st.yLow
      let xHigh' := if xLow < 0 then xHigh - 1 else xHigh
      let xLow' := if xLow < 0 then xLow + 4294967296 else xLow
      let low1 := low + 1
      let high' := if low1 = 4294967296 then high + 1 else high
      let low' := if low1 = 4294967296 then 0 else low1
      { st with xHigh := xHigh', xLow := xLow', high := high', low := low' }
    else { st with high := high, low := low }
  { st1 with yLow := shr (bor (shr st.yLow 1) (shl st.yHigh (32 - 1))) 0, yHigh := shr st.yHigh 1 }

def div64Loop : Nat → DivSt → DivSt
  | 0, st => st
  | k + 1, st => div64Loop k (div64Step st)

/-- numeric.js:126-134 (and 138-146 for y): the magnitude of a pair whose high word is negative:
    `if (xHigh < 0) { xHigh = -xHigh; if (xLow !== 0) { xHigh--; xLow = 4294967296 - xLow; } }` -/
def magnitude (h l : Int) : Int × Int :=
  if h < 0 then (if l ≠ 0 then (-h - 1, 4294967296 - l) else (-h, l)) else (h, l)

/-- numeric.js:118-177 `$div64`; `none` = `$throwRuntimeError("integer divide by zero")`.
    `sg` is the variable `s` of the code (sign of the quotient), `rs` the sign of the remainder. -/
def div64 (s : Bool) (x y : W64) (returnRemainder : Bool) : Option W64 :=
  if y.high = 0 ∧ y.low = 0 then none
  else
    let rs : Int := if x.high < 0 then -1 else 1
    let sg : Int := if y.high < 0 then rs * -1 else rs
    let mx := magnitude x.high x.low
    let my := magnitude y.high y.low
    let nr := div64Norm 64 mx.1 mx.2 my.1 my.2 0
    let st := div64Loop (nr.2.2.1 + 1) ⟨mx.1, mx.2, nr.1, nr.2.1, 0, 0⟩
    if returnRemainder then some (mk64 s (st.xHigh * rs) (st.xLow * rs))
    else some (mk64 s (st.high * sg) (st.low * sg))

/-- canonical representative: `$high` in the 32-bit range of the type, `$low` in [0, 2^32) -/
def Canon (s : Bool) (x : W64) : Prop :=
  (if s then -2147483648 ≤ x.high ∧ x.high < 2147483648 else 0 ≤ x.high ∧ x.high < 4294967296) ∧
  0 ≤ x.low ∧ x.low < 4294967296

instance (s : Bool) (x : W64) : Decidable (Canon s x) := by unfold Canon; cases s <;> exact inferInstance

/-- the canonical pair of a mathematical integer (taken modulo 2^64) -/
def ofInt (s : Bool) (v : Int) : W64 := mk64 s (v / 4294967296) (v % 4294967296)

end GV.Num64
