/-
  GV.Model.NoSync — the single-threaded replacements of the sync primitives (/repo/nosync/mutex.go, once.go,
  map.go, pool.go) as state machines: one instance of each of Mutex, RWMutex, WaitGroup, Once, Map, Pool and the
  operations a goroutine can apply to them. Map keys / values and Pool items are CODES of Go values: 0 = nil interface,
  1 = typed nil pointer (*int)(nil), 2 = int(0), 3 = "", other n = int n. A Map entry whose value is code 0 is a key
  PRESENT with a nil value (comma-ok lookup says ok = true). A panic is an outcome (the Go value is recoverable, the state keeps
  whatever the method changed before panicking).
-/
namespace GV.NoSync

/-- the function handed to `Once.Do` -/
inductive OnceFn where
  | ok       -- returns normally
  | panic    -- panics
  | nest     -- calls `Do(g)` on the same Once, g returns normally
  deriving DecidableEq, Repr

inductive Op where
  | mLock | mUnlock
  | rwLock | rwUnlock | rwRLock | rwRUnlock
  | wgAdd (d : Int) | wgDone | wgWait
  | onceDo (f : OnceFn)
  | mapLoad (k : Int) | mapStore (k v : Int) | mapLoadOrStore (k v : Int) | mapDelete (k : Int)
  | mapRange (n : Int)              -- n < 0: f always returns true; else f returns false at its n-th call
  | poolPut (x : Option Int)        -- none = Put(nil)
  | poolGet (new : Option Int)      -- none: p.New == nil; some v: p.New returns v
  deriving DecidableEq, Repr

/-- observable result of an operation that returns -/
inductive Val where
  | unit
  | ran (n : Nat)                   -- Once.Do: 1 if f ran, +10 if the nested g ran
  | loaded (v : Option Int) (ok : Bool)
  | pairs (l : List (Int × Int))    -- Range to the end: the visited pairs, sorted by key
  | calls (n : Nat)                 -- Range stopped by f: number of calls of f
  | item (x : Option Int)           -- Pool.Get: none = nil
  deriving DecidableEq, Repr

inductive Out where
  | ok (v : Val)
  | panic (msg : String)
  deriving DecidableEq, Repr

structure State where
  mLocked : Bool := false            -- Mutex.locked
  rwWrite : Bool := false            -- RWMutex.writeLocked
  rwReaders : Int := 0               -- RWMutex.readLockCounter (int32; wrap-around after 2^31 RLocks not modelled)
  wg : Int := 0                      -- WaitGroup.counter
  onceDoing : Bool := false
  onceDone : Bool := false
  map : Option (List (Int × Int)) := none   -- Map.m: none = nil map; a Go map as association list without duplicate keys
  pool : List Int := []              -- Pool.store
  deriving DecidableEq, Repr

/-- Go `m[k]` on a possibly nil map -/
def goLookup (m : Option (List (Int × Int))) (k : Int) : Option Int := (m.getD []).lookup k

/-- Go `m[k] = v` on a non-nil map -/
def goInsert : List (Int × Int) → Int → Int → List (Int × Int)
  | [], k, v => [(k, v)]
  | (k', v') :: rest, k, v => if k' = k then (k, v) :: rest else (k', v') :: goInsert rest k v

/-- Go `delete(m, k)` -/
def goDelete (m : List (Int × Int)) (k : Int) : List (Int × Int) := m.filter (fun p => p.1 ≠ k)

def insertSorted (p : Int × Int) : List (Int × Int) → List (Int × Int)
  | [] => [p]
  | q :: rest => if p.1 ≤ q.1 then p :: q :: rest else q :: insertSorted p rest

def sortPairs (l : List (Int × Int)) : List (Int × Int) := l.foldr insertSorted []

/-- map.go:60-66 `Range` over the entries in the order `order` (any enumeration of the map);
    f returns `n < 0 || calls < n` -/
def rangeCalls (n : Int) : List (Int × Int) → Nat → Nat
  | [], calls => calls
  | _ :: rest, calls =>
    let calls := calls + 1
    if n < 0 ∨ (calls : Int) < n then rangeCalls n rest calls else calls

/-- once.go:27-41 `Do` with the body of f given as a state transformer -/
def onceDoCore (s : State) (body : State → State × Out) : State × Out :=
  if s.onceDone then (s, .ok (.ran 0))
  else if s.onceDoing then (s, .panic "nosync: Do called within f")
  else
    let s1 := { s with onceDoing := true }
    let r := body s1
    -- the deferred func runs when f returns and when f panics
    ({ r.1 with onceDoing := false, onceDone := true }, r.2)

def onceBody : OnceFn → State → State × Out
  | .ok, s => (s, .ok (.ran 1))
  | .panic, s => (s, .panic "f")
  | .nest, s =>
    match onceDoCore s (fun s => (s, .ok (.ran 10))) with
    | (s', .ok (.ran k)) => (s', .ok (.ran (1 + k)))
    | (s', o) => (s', o)

def step (s : State) : Op → State × Out
  -- mutex.go:13-18 / 21-26
  | .mLock => if s.mLocked then (s, .panic "nosync: mutex is already locked") else ({ s with mLocked := true }, .ok .unit)
  | .mUnlock => if !s.mLocked then (s, .panic "nosync: unlock of unlocked mutex") else ({ s with mLocked := false }, .ok .unit)
  -- mutex.go:41-46 / 49-54 / 57-62 / 65-70
  | .rwLock =>
    if s.rwReaders ≠ 0 ∨ s.rwWrite then (s, .panic "nosync: mutex is already locked") else ({ s with rwWrite := true }, .ok .unit)
  | .rwUnlock => if !s.rwWrite then (s, .panic "nosync: unlock of unlocked mutex") else ({ s with rwWrite := false }, .ok .unit)
  | .rwRLock => if s.rwWrite then (s, .panic "nosync: mutex is already locked") else ({ s with rwReaders := s.rwReaders + 1 }, .ok .unit)
  | .rwRUnlock =>
    if s.rwReaders = 0 then (s, .panic "nosync: unlock of unlocked mutex") else ({ s with rwReaders := s.rwReaders - 1 }, .ok .unit)
  -- mutex.go:78-83 / 86-88 / 91-95
  | .wgAdd d =>
    let s' := { s with wg := s.wg + d }
    if s'.wg < 0 then (s', .panic "sync: negative WaitGroup counter") else (s', .ok .unit)
  | .wgDone =>
    let s' := { s with wg := s.wg + -1 }
    if s'.wg < 0 then (s', .panic "sync: negative WaitGroup counter") else (s', .ok .unit)
  | .wgWait => if s.wg ≠ 0 then (s, .panic "sync: WaitGroup counter not zero") else (s, .ok .unit)
  | .onceDo f => onceDoCore s (onceBody f)
  -- map.go:16-19 / 22-27 / 32-41 / 44-49 / 60-66
  | .mapLoad k => (s, .ok (.loaded (goLookup s.map k) (goLookup s.map k).isSome))
  | .mapStore k v =>
    let m := match s.map with | none => [] | some m => m
    ({ s with map := some (goInsert m k v) }, .ok .unit)
  | .mapLoadOrStore k v =>
    match goLookup s.map k with
    | some x => (s, .ok (.loaded (some x) true))
    | none =>
      let m := match s.map with | none => [] | some m => m
      ({ s with map := some (goInsert m k v) }, .ok (.loaded (some v) false))
  | .mapDelete k =>
    match s.map with
    | none => (s, .ok .unit)
    | some m => ({ s with map := some (goDelete m k) }, .ok .unit)
  | .mapRange n =>
    let m := s.map.getD []
    if n < 0 then (s, .ok (.pairs (sortPairs m))) else (s, .ok (.calls (rangeCalls n m 0)))
  -- pool.go:42-52 / 55-60
  | .poolGet new =>
    if s.pool.length = 0 then (s, .ok (.item new))
    else ({ s with pool := s.pool.dropLast }, .ok (.item s.pool.getLast?))
  | .poolPut x =>
    match x with
    | none => (s, .ok .unit)
    | some x => ({ s with pool := s.pool ++ [x] }, .ok .unit)

def run : State → List Op → List Out
  | _, [] => []
  | s, op :: ops => (step s op).2 :: run (step s op).1 ops

end GV.NoSync
