/-
  GV.Model.CaseMap — transcription of compiler/natives/src/unicode/unicode.go (`to`, the binary search over
  a `[]CaseRange` table that backs unicode.To/ToUpper/ToLower/ToTitle and SpecialCase), and the linear-scan
  specification of a case-range table.

  Runes are `Int` (Go int32, no arithmetic here can leave the range for table entries ≤ MaxRune);
  `CaseRange.Lo/Hi` are uint32 (Nat), `Delta` is `[MaxCase]rune`.
-/
namespace GV.CaseMap

structure CaseRange where
  lo : Nat
  hi : Nat
  d0 : Int       -- Delta[UpperCase]
  d1 : Int       -- Delta[LowerCase]
  d2 : Int       -- Delta[TitleCase]
  deriving DecidableEq, Repr

def MaxRune : Int := 1114111          -- unicode.MaxRune  '\U0010FFFF'
def ReplacementChar : Int := 65533    -- unicode.ReplacementChar
def MaxCase : Nat := 3
def UpperLower : Int := MaxRune + 1   -- letters.go: delta value marking alternating Upper/Lower sequences

def CaseRange.delta (cr : CaseRange) (c : Nat) : Int :=
  match c with
  | 0 => cr.d0
  | 1 => cr.d1
  | _ => cr.d2

/-- what `to` returns once the range containing r is found (unicode.go:15-20):
    `delta > MaxRune` marks an alternating sequence: `Lo + ((r-Lo)&^1 | (_case&1))` -/
def mapIn (c : Nat) (r : Int) (cr : CaseRange) : Int :=
  let delta := cr.delta c
  if delta > MaxRune then
    let d := (r - cr.lo).toNat
    (cr.lo : Int) + (((d - d % 2) ||| (c % 2) : Nat) : Int)      -- d &^ 1 | (_case & 1), d ≥ 0
  else r + delta

/-- the loop of `to` (unicode.go:9-27): binary search between lo and hi -/
def search (c : Nat) (r : Int) (t : Array CaseRange) (lo hi : Nat) : Int × Bool :=
  if h : lo < hi then
    let m := lo + (hi - lo) / 2
    if hm : m < t.size then
      let cr := t[m]
      if (cr.lo : Int) ≤ r ∧ r ≤ (cr.hi : Int) then (mapIn c r cr, true)
      else if r < (cr.lo : Int) then search c r t lo m
      else search c r t (m + 1) hi
    else (r, false)     -- index out of range: cannot happen for hi ≤ size (Go would panic)
  else (r, false)
termination_by hi - lo
decreasing_by all_goals omega

/-- unicode.go:5-28 `to(_case, r, caseRange)`; `_case` is an `int` -/
def to (c : Int) (r : Int) (t : Array CaseRange) : Int × Bool :=
  if c < 0 ∨ (MaxCase : Int) ≤ c then (ReplacementChar, false)
  else search c.toNat r t 0 t.size

/-- SPECIFICATION: first range of the table (in table order) that contains r decides -/
def scan (c : Nat) (r : Int) : List CaseRange → Int × Bool
  | [] => (r, false)
  | cr :: rest => if (cr.lo : Int) ≤ r ∧ r ≤ (cr.hi : Int) then (mapIn c r cr, true) else scan c r rest

def toSpec (c : Int) (r : Int) (t : List CaseRange) : Int × Bool :=
  if c < 0 ∨ 3 ≤ c then (ReplacementChar, false) else scan c.toNat r t

/-- a table is well formed: every range non-empty, ranges strictly increasing and disjoint -/
def Sorted : List CaseRange → Prop
  | [] => True
  | [a] => a.lo ≤ a.hi
  | a :: b :: rest => a.lo ≤ a.hi ∧ a.hi < b.lo ∧ Sorted (b :: rest)

/-- executable form of `Sorted` (equivalence: `GV.Props.C13.sortedB_iff`) -/
def sortedB : List CaseRange → Bool
  | [] => true
  | [a] => decide (a.lo ≤ a.hi)
  | a :: b :: rest => decide (a.lo ≤ a.hi) && decide (a.hi < b.lo) && sortedB (b :: rest)

end GV.CaseMap
