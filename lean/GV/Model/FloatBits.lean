/-
  GV.Model.FloatBits — the bit-pattern / class level of compiler/natives/src/math/math.go.

  A float64 is its IEEE-754 binary64 bit pattern, a natural number `< 2^64`, decoded into
  sign (bit 63), biased exponent (bits 62..52) and mantissa (bits 51..0).  JavaScript's arithmetic on the
  *exact* values is modelled only where the override relies on it:
    * comparisons with 0 / ±Infinity / itself (`x < 0`, `x == posInf`, `x != x`),
    * `1/x == negInf`  — true exactly for negative x with |x| ≤ 2^-1024 (the quotient rounds to -Infinity;
      this includes -0 and the negative subnormals with mantissa ≤ 2^50): IEEE round-to-nearest, assumed of the engine,
    * `x >> 0` (ToInt32: truncate, reduce mod 2^32, read as signed),
    * `Math.floor/ceil` and `%` by their ECMAScript definitions on the exact value,
    * the typed-array aliasing of `Float64bits`/`Float64frombits` (little-endian word order, as the code assumes).
  IEEE rounding of `+ - * /` on non-integers and the transcendental functions are NOT modelled.
-/
namespace GV.FloatBits

abbrev two52 : Nat := 4503599627370496
abbrev two63 : Nat := 9223372036854775808
abbrev two64 : Nat := 18446744073709551616
abbrev two32 : Nat := 4294967296

def sign (b : Nat) : Nat := b / two63 % 2
def expo (b : Nat) : Nat := b / two52 % 2048
def mant (b : Nat) : Nat := b % two52

def isNaN (b : Nat) : Bool := expo b == 2047 && mant b != 0
def isInf (b : Nat) : Bool := expo b == 2047 && mant b == 0
def isZero (b : Nat) : Bool := expo b == 0 && mant b == 0
def isFinite (b : Nat) : Bool := expo b != 2047

def posInf : Nat := 0x7FF0000000000000
def negInf : Nat := 0xFFF0000000000000
def nanBits : Nat := 0x7FF8000000000000     -- the engine's NaN ($NaN)

/-- JS `-x`: flips the sign bit (also of zeros, infinities and NaNs) -/
def neg (b : Nat) : Nat := if b < two63 then b + two63 else b - two63

/-- JS `x < 0` -/
def ltZero (b : Nat) : Bool := !isNaN b && sign b == 1 && !isZero b
/-- JS `1/x == negInf` (see the header) -/
def recipIsNegInf (b : Nat) : Bool := sign b == 1 && expo b == 0 && mant b ≤ 1125899906842624
/-- JS `x == y` against an infinity constant -/
def eqBits (b c : Nat) : Bool := !isNaN b && b == c

/-! ### bit reinterpretation — math.go:220-248 -/

/-- the shared 8-byte buffer seen as two uint32 words (index 0 = low word: little-endian) -/
structure Buf where
  w0 : Nat
  w1 : Nat
  deriving DecidableEq, Repr

/-- `buf.float64array[0] = f` -/
def storeF64 (f : Nat) : Buf := ⟨f % two32, f / two32 % two32⟩
/-- `buf.float64array[0]` -/
def loadF64 (b : Buf) : Nat := b.w1 * two32 + b.w0

/-- math.go:239-242 `Float64bits`: `uint64(buf.uint32array[1])<<32 + uint64(buf.uint32array[0])` -/
def float64bits (f : Nat) : Nat :=
  let b := storeF64 f
  ((b.w1 * two32) % two64 + b.w0) % two64

/-- math.go:244-248 `Float64frombits`: `uint32array[0] = uint32(b); uint32array[1] = uint32(b >> 32)` -/
def float64frombits (b : Nat) : Nat :=
  loadF64 ⟨b % two32, (b / two32) % two32⟩

/-! ### sign and classification — math.go:56-61, 111-133, 203-205 -/

/-- math.go:203-205 `Signbit`: `x < 0 || 1/x == negInf` -/
def signbit (x : Nat) : Bool := ltZero x || recipIsNegInf x

/-- math.go:56-61 `Copysign` -/
def copysign (x y : Nat) : Nat := if signbit x != signbit y then neg x else x

/-- math.go:131-133 `IsNaN`: `f != f` -/
def isNaNJS (f : Nat) : Bool := isNaN f

/-- math.go:121-129 `IsInf(f, sign)`; `sg` is the sign argument's sign: -1, 0, 1 -/
def isInfJS (f : Nat) (sg : Int) : Bool :=
  if eqBits f posInf then sg ≥ 0
  else if eqBits f negInf then sg ≤ 0
  else false

/-- math.go:111-119 `Inf(sign)` -/
def inf (sg : Int) : Nat := if sg ≥ 0 then posInf else negInf

/-- upstream abs.go `Abs` = `Float64frombits(Float64bits(x) &^ (1<<63))`, through the overridden reinterpretations -/
def abs (x : Nat) : Nat := float64frombits (float64bits x % two63)

/-! ### integer parts -/

/-- magnitude of the exact value truncated toward zero, for a finite pattern -/
def truncMag (b : Nat) : Nat :=
  if expo b < 1023 then 0
  else if expo b ≤ 1075 then (two52 + mant b) >>> (1075 - expo b)
  else (two52 + mant b) <<< (expo b - 1075)

/-- does the exact value have a non-zero fractional part? (finite pattern) -/
def hasFrac (b : Nat) : Bool :=
  if expo b < 1023 then !isZero b
  else if expo b ≤ 1075 then (two52 + mant b) % 2 ^ (1075 - expo b) != 0
  else false

/-- bit pattern of the non-negative integer n ≤ 2^53 as a float64 (exact conversion) -/
def encodeNat (n : Nat) : Nat :=
  if n = 0 then 0
  else
    let e := Nat.log2 n
    (1023 + e) * two52 + (n - 2 ^ e) * 2 ^ (52 - e)

/-- JS `x >> 0` then `float64(...)`: ToInt32 of a finite pattern, converted back to a float64 bit pattern.
    Returns (is the int32 negative, bits). -/
def toInt32Float (b : Nat) : Nat :=
  let t := truncMag b % two32                       -- |trunc(x)| mod 2^32
  let u := if sign b == 1 then (two32 - t) % two32 else t   -- two's complement of the signed value
  if u < 2147483648 then encodeNat u else two63 + encodeNat (two32 - u)

/-- REPAIRED DEFECT (fixes/C13-math-trunc.patch) — the scheme before the repair:
    `if x == posInf || x == negInf || x != x || 1/x == negInf { return x }; return Copysign(float64(int(x)), x)` -/
def truncOld (x : Nat) : Nat :=
  if eqBits x posInf || eqBits x negInf || isNaN x || recipIsNegInf x then x
  else copysign (toInt32Float x) x

/-- math.go `Trunc` = `Math.trunc(x)`, by its ECMAScript definition: NaN, ±0, ±∞ unchanged; 0 < x < 1 gives +0,
    -1 < x < 0 gives -0; otherwise the integral part of the exact value, sign of x -/
def trunc (x : Nat) : Nat :=
  if !isFinite x || isZero x then x
  else if expo x ≥ 1075 then x                       -- already an integer
  else sign x * two63 + encodeNat (truncMag x)

/-- upstream floor.go `Trunc` (via `Modf`: clear the fractional mantissa bits) — the SPECIFICATION -/
def truncGo (x : Nat) : Nat :=
  if isZero x || isNaN x || isInf x then x
  else if expo x < 1023 then sign x * two63
  else if expo x < 1075 then x - mant x % 2 ^ (1075 - expo x)
  else x

/-- ECMAScript `Math.floor` on a bit pattern: the greatest integer ≤ the exact value; NaN, ±0, ±∞ unchanged;
    (math.go:98-100 `Floor` = `Math.floor`) -/
def floorJS (x : Nat) : Nat :=
  if !isFinite x || isZero x then x
  else if expo x ≥ 1075 then x                       -- already an integer
  else
    let t := truncMag x
    if sign x == 0 then encodeNat t
    else if hasFrac x then two63 + encodeNat (t + 1) else two63 + encodeNat t

/-- ECMAScript `Math.ceil`: -(floor(-x)); results in (-1, 0) give -0  (math.go:52-54 `Ceil`) -/
def ceilJS (x : Nat) : Nat :=
  if !isFinite x || isZero x then x
  else if expo x ≥ 1075 then x
  else
    let t := truncMag x
    if sign x == 1 then two63 + encodeNat t
    else if hasFrac x then encodeNat (t + 1) else encodeNat t

/-- upstream floor.go `Floor`: `if x < 0 { d, fract := Modf(-x); if fract != 0.0 { d = d + 1 }; return -d }; d, _ := Modf(x)`,
    with `Modf`'s integer part = `truncGo` and `d + 1` exact below 2^53 -/
def floorGo (x : Nat) : Nat :=
  if isZero x || isNaN x || isInf x then x
  else if sign x == 1 then
    -- d ≥ 0, so `-d` sets the sign bit
    if hasFrac x then two63 + encodeNat (truncMag x + 1) else two63 + truncGo (neg x)
  else truncGo x

/-- upstream floor.go `Ceil`: `-Floor(-x)` -/
def ceilGo (x : Nat) : Nat := neg (floorGo (neg x))

/-- result of `Modf` at the level the model decides: the integer part's bit pattern, and the sign and zero-ness of
    the fractional part (its magnitude is the exact fractional part in both implementations) -/
structure ModfOut where
  int : Nat
  fracNaN : Bool
  fracSign : Nat
  fracZero : Bool
  deriving DecidableEq, Repr

/-- REPAIRED DEFECT (fixes/C13-math-modf.patch) — the scheme before the repair:
    `if 1/f == negInf { return f, f }; frac := $mod(f, 1); return f - frac, frac` -/
def modfOld (f : Nat) : ModfOut :=
  if eqBits f posInf || eqBits f negInf then ⟨f, true, 0, false⟩
  else if recipIsNegInf f then ⟨f, false, sign f, isZero f⟩
  else if isNaN f then ⟨nanBits, true, 0, false⟩
  else
    let fz := !hasFrac f
    let ip := if expo f < 1023 then 0 else truncGo f
    ⟨ip, false, sign f, fz⟩

/-- math.go `Modf`: `frac := $mod(f, 1); return Copysign(f-frac, f), frac`.
    JS `%` keeps the dividend's sign (also on a zero result); `f - frac` is exact: +0 for |f| < 1 (x - x = +0, and
    (-0) - (-0) = +0), otherwise the integral part with the sign of f. -/
def modf (f : Nat) : ModfOut :=
  if eqBits f posInf || eqBits f negInf then ⟨f, true, 0, false⟩
  else if isNaN f then ⟨nanBits, true, 0, false⟩
  else
    let d := if expo f < 1023 then 0 else truncGo f
    ⟨copysign d f, false, sign f, !hasFrac f⟩

/-- upstream modf.go `Modf` — the SPECIFICATION -/
def modfGo (f : Nat) : ModfOut :=
  if isNaN f then ⟨nanBits, true, 0, false⟩
  else if isInf f then ⟨f, true, 0, false⟩
  else ⟨truncGo f, false, sign f, !hasFrac f⟩

def isNaNOut (o : ModfOut) : Bool := isNaN o.int

/-! ### scaling and decomposition — math.go:135-143 `Ldexp`, upstream frexp.go / ldexp.go -/

/-- math.go:135-143 `Ldexp`: for -1024 < exp < 1024 `if frac == 0 { return frac }; return frac * Math.pow(2, exp)`.
    2^exp is then finite, positive and non-zero, so NaN and ±Inf pass through; the product of a NORMAL frac with 2^exp is
    exact whenever the result is normal (exponent field adds). `none`: subnormal operand or result, overflow (IEEE
    rounding — not modelled) or |exp| ≥ 1024 (delegated to the upstream `ldexp`, compared compiled-vs-native only). -/
def ldexp (frac : Nat) (e : Int) : Option Nat :=
  if -1024 < e ∧ e < 1024 then
    if isZero frac then some frac
    else if isNaN frac then some nanBits
    else if isInf frac then some frac
    else if expo frac ≠ 0 ∧ 1 ≤ (expo frac : Int) + e ∧ (expo frac : Int) + e ≤ 2046 then
      some (sign frac * two63 + ((expo frac : Int) + e).toNat * two52 + mant frac)
    else none
  else none

/-- upstream ldexp.go `ldexp` on a zero, NaN, infinite or NORMAL frac (normalize is then the identity), any exp:
    `exp += e(frac)`; underflow below -1075 gives ±0, overflow above 1023 gives ±Inf, a normal result replaces the
    exponent field; `none`: subnormal frac or denormal result (one rounding, not modelled) -/
def ldexpGo (frac : Nat) (e : Int) : Option Nat :=
  if isZero frac then some frac
  else if isNaN frac then some nanBits
  else if isInf frac then some frac
  else if expo frac = 0 then none
  else
    let ex := (expo frac : Int) - 1023 + e
    if ex < -1075 then some (sign frac * two63)
    else if ex > 1023 then some (sign frac * two63 + 2047 * two52)
    else if ex < -1022 then none
    else some (sign frac * two63 + (ex + 1023).toNat * two52 + mant frac)

/-- upstream frexp.go `frexp` (compiled by GopherJS through the overridden Float64bits/Float64frombits; the override
    `Frexp` just calls it): ±0, ±Inf, NaN give (f, 0); a subnormal is first normalised (`f * (1<<52)`, exact);
    the fraction gets exponent field 1022 (value in [1/2, 1)) -/
def frexp (f : Nat) : Nat × Int :=
  if isZero f || isInf f || isNaN f then (f, 0)
  else if expo f ≠ 0 then (sign f * two63 + 1022 * two52 + mant f, (expo f : Int) - 1022)
  else
    let k := Nat.log2 (mant f)                       -- mant ≠ 0: f = mant·2^-1074, leading bit at position k
    (sign f * two63 + 1022 * two52 + (mant f - 2 ^ k) * 2 ^ (52 - k), (k : Int) - 1073)

end GV.FloatBits
