/-
  GV.Model.Link — how GopherJS orders packages in the emitted program and how the per-package
  `$init` functions initialise the program (property C10).

  Mirrors
  * compiler/compiler.go:89-122   `ImportDependencies` (DFS with the `paths` set, `runtime` first, main appended last)
  * compiler/compiler.go:179-199  the tail of `WriteProgramCode`: `$finishSetup` for all packages,
                                   `$synthesizeMethods`, `$initLinknames` for all packages,
                                   `$packages["runtime"].$init()` (synchronous), `$go($mainPkg.$init, [])`
  * compiler/compiler.go:339-363  the emitted `$init` function: `$pkg.$init = function() {};` on entry, then the
                                   `InitCode` of the package's decls inside a resumable `switch ($s)`
  * compiler/decls.go:158-207     `importDecls` (imports sorted by path) and `importInitializer`
                                   (a *blocking* call of the imported package's `$init`)
  * compiler/decls.go:215-248     `varDecls`: synthetic zero initialisers first, then `types.Info.InitOrder`
  * compiler/decls.go:289-347     `funcDecls`: functions in source order (files as ordered by `Sources.Sort`),
                                   the call of every `init`, the call of `main.main` appended last
  * compiler/package.go:203       `allDecls = imports ++ types ++ vars ++ funcs`
  * compiler/sources/sources.go:68-72 `Sources.Sort`: files by DESCENDING file name

  Core Lean only.
-/
namespace GV.Link

/-! ## 1. `ImportDependencies` -/

section Deps
variable {α : Type} [DecidableEq α]

/-- compiler.go:92-108 `collectDependencies(path)`. `deps` is both the result slice and the `paths` set
    (`paths[dep.ImportPath] = true` is executed together with `deps = append(deps, dep)`).
    `imports p` is `Archive.Imports` of `p`. The recursion of the real code is bounded by the depth of the
    (acyclic) import graph; here it is bounded by `fuel`. -/
def collect (imports : α → List α) : Nat → List α → α → List α
  | 0, deps, _ => deps
  | fuel + 1, deps, p =>
    if p ∈ deps then deps
    else (imports p).foldl (collect imports fuel) deps ++ [p]

/-- compiler.go:89-122 `ImportDependencies(archive, importPkg)`: the closure of `runtime`, then of every import of
    the main package, then the main package itself. -/
def importDependencies (imports : α → List α) (fuel : Nat) (runtime main : α) : List α :=
  let d0 := collect imports fuel [] runtime
  let d1 := (imports main).foldl (collect imports fuel) d0
  d1 ++ [main]

/-- `q` is reachable from `p` along import edges (reflexive, transitive). -/
inductive Reach (imports : α → List α) : α → α → Prop
  | refl (p : α) : Reach imports p p
  | step {p q r : α} : q ∈ imports p → Reach imports q r → Reach imports p r

/-- The import graph is acyclic: there is a rank that strictly decreases along every import edge
    (go/build rejects import cycles). -/
def Acyclic (imports : α → List α) (rank : α → Nat) : Prop :=
  ∀ p q, q ∈ imports p → rank q < rank p

end Deps

/-! ## 2. The `$init` protocol as a state machine

The whole initialisation runs on ONE JavaScript call stack: `$mainPkg.$init` calls the `$init` of its imports
(`importInitializer`, a blocking call: the caller inspects the result and, if the callee returned a saved frame
`{$blk: …}`, saves its own frame and returns it too), each of which first replaces `$pkg.$init` by a no-op.
A suspended frame chain is resumed by the scheduler from the outermost frame inwards, which re-establishes the
same stack. In the machine below the stack is therefore explicit data, a suspension is an event that leaves the
stack untouched, and the position `$s` of a frame is represented by the suffix of steps still to run. -/

/-- observable events of a run -/
inductive Ev (α : Type) where
  | enter (p : α)              -- first entry of `p.$init`: `$pkg.$init = function() {};`
  | begin (p : α) (i : Nat)    -- body item `i` of `p` (a variable initialiser, an `init()` call, the `main()` call) starts
  | yield                      -- the running item suspends: the goroutine's frames are saved, other goroutines run
  | fin (p : α) (i : Nat)      -- body item `i` of `p` has completed
  | done (p : α)               -- `p.$init` returns normally: the package is initialised
deriving DecidableEq, Repr

/-- One activation of a package's `$init` (`$f = {$blk: $init, $s, $r}`). -/
structure Frame (α : Type) where
  pkg : α
  /-- import initialisers not yet called (suffix of the sorted import list) -/
  imps : List α
  /-- body items not yet completed (suffix of `[0, …, n-1]`) -/
  items : List Nat
  /-- `some k`: the head item has begun and will still suspend `k` times -/
  cur : Option Nat
deriving DecidableEq, Repr

structure State (α : Type) where
  /-- packages whose `$pkg.$init` has been replaced by the no-op -/
  replaced : List α
  /-- the call stack, innermost frame first -/
  stack : List (Frame α)
  trace : List (Ev α)
deriving Repr

/-- Static description of the program for the protocol: sorted imports and number of body items per package. -/
structure Prog (α : Type) where
  imports : α → List α
  nitems : α → Nat

section Machine
variable {α : Type} [DecidableEq α]

def newFrame (G : Prog α) (p : α) : Frame α :=
  { pkg := p, imps := G.imports p, items := List.range (G.nitems p), cur := none }

/-- the call `p.$init()`: the no-op if `p` was entered before, otherwise entry (self-replacement) -/
def call (G : Prog α) (s : State α) (p : α) : State α :=
  if p ∈ s.replaced then s
  else { replaced := p :: s.replaced, stack := newFrame G p :: s.stack, trace := s.trace ++ [Ev.enter p] }

/-- One step of the goroutine that runs the initialisation. `sched p i` is the number of times body item `i` of
    package `p` suspends (an arbitrary function: the theorems quantify over it). -/
def step (G : Prog α) (sched : α → Nat → Nat) (s : State α) : State α :=
  match s.stack with
  | [] => s
  | f :: rest =>
    match f.imps with
    | q :: qs =>
      -- compiler/decls.go:195-207: `$r = q.$init(); $s = N; case N: …` — the frame's position moves past the call
      call G { s with stack := { f with imps := qs } :: rest } q
    | [] =>
      match f.items with
      | i :: is =>
        match f.cur with
        | none => { s with stack := { f with cur := some (sched f.pkg i) } :: rest, trace := s.trace ++ [Ev.begin f.pkg i] }
        | some 0 => { s with stack := { f with items := is, cur := none } :: rest, trace := s.trace ++ [Ev.fin f.pkg i] }
        | some (k + 1) => { s with stack := { f with cur := some k } :: rest, trace := s.trace ++ [Ev.yield] }
      | [] => { s with stack := rest, trace := s.trace ++ [Ev.done f.pkg] }

def steps (G : Prog α) (sched : α → Nat → Nat) : Nat → State α → State α
  | 0, s => s
  | n + 1, s => steps G sched n (step G sched s)

/-- compiler.go:191-196: `$packages["runtime"].$init(); $go($mainPkg.$init, []);` — the run of the protocol for `n`
    machine steps after both calls. (The first call is synchronous and outside any goroutine; see
    `Props.C10.init_once_after_imports` for the hypothesis this needs.) -/
def bootState (G : Prog α) (runtime : α) : State α :=
  call G { replaced := [], stack := [], trace := [] } runtime

/-- compiler.go:193 `$packages["runtime"].$init();` is a plain synchronous call outside any goroutine: if an
    initialiser suspended there, the saved frame object returned by `$init` would be discarded and nothing would ever
    resume it. One step of that synchronous phase: like `step`, except that a suspension loses the whole stack. -/
def stepSync (G : Prog α) (sched : α → Nat → Nat) (s : State α) : State α :=
  match s.stack with
  | [] => s
  | f :: _ =>
    match f.imps, f.items, f.cur with
    | [], _ :: _, some (_ + 1) => { s with stack := [], trace := s.trace ++ [Ev.yield] }
    | _, _, _ => step G sched s

def stepsSync (G : Prog α) (sched : α → Nat → Nat) : Nat → State α → State α
  | 0, s => s
  | n + 1, s => stepsSync G sched n (stepSync G sched s)

/-! ### The await rule of `importInitializer`, made explicit

compiler/decls.go:199-207 marks EVERY call `q.$init()` emitted for an import as blocking (`fc.Blocking[call] = true`):
the importer inspects the result and, when the callee returned a saved frame, saves its own frame and returns it too
("awaits"). The machine `stepA` takes that rule as a parameter `awaits importer imported`: when the running item
suspends, the JavaScript stack unwinds through the callers as long as each caller awaits its callee; the first caller
that does NOT await (a plain `q.$init();` whose result is ignored) simply continues with its next step while the
frames below it are detached (whatever happens to them later, they no longer hold their callers back). -/

/-- `none`: every caller on the stack awaits its callee — the whole goroutine suspends with the stack intact.
    `some st`: a caller that does not await continues; `st` is the stack from that caller on. -/
def unwind (awaits : α → α → Bool) : List (Frame α) → Option (List (Frame α))
  | [] => none
  | [_] => none
  | f :: g :: rest => if awaits g.pkg f.pkg then unwind awaits (g :: rest) else some (g :: rest)

def stepA (G : Prog α) (sched : α → Nat → Nat) (awaits : α → α → Bool) (s : State α) : State α :=
  match s.stack with
  | [] => s
  | f :: _ =>
    match f.imps, f.items, f.cur with
    | [], _ :: _, some (_ + 1) =>
      match unwind awaits s.stack with
      | none => step G sched s
      | some st => { s with stack := st, trace := s.trace ++ [Ev.yield] }
    | _, _, _ => step G sched s

def stepsA (G : Prog α) (sched : α → Nat → Nat) (awaits : α → α → Bool) : Nat → State α → State α
  | 0, s => s
  | n + 1, s => stepsA G sched awaits n (stepA G sched awaits s)

/-- the real rule (decls.go:203): always await -/
def awaitsAlways : α → α → Bool := fun _ _ => true

/-- the rule "await only if the imported package's OWN initialisers can suspend" (does not look at that package's
    imports) — not the code's rule; kept as the subject of a counterexample -/
def awaitsIfDirectlyBlocking (G : Prog α) (sched : α → Nat → Nat) : α → α → Bool :=
  fun _ q => (List.range (G.nitems q)).any fun i => sched q i != 0

/-- the direct-style description of one complete `$init` activation (used by the proofs and by the driver):
    events of `p.$init()` called in a state where `repl` are the replaced packages. -/
def itemEvs (sched : α → Nat → Nat) (p : α) (i : Nat) : List (Ev α) :=
  [Ev.begin p i] ++ List.replicate (sched p i) Ev.yield ++ [Ev.fin p i]

def initRec (G : Prog α) (sched : α → Nat → Nat) : Nat → List α → α → List α × List (Ev α)
  | 0, repl, _ => (repl, [])
  | fuel + 1, repl, p =>
    if p ∈ repl then (repl, [])
    else
      let r := (G.imports p).foldl
        (fun (acc : List α × List (Ev α)) q =>
          let r' := initRec G sched fuel acc.1 q
          (r'.1, acc.2 ++ r'.2))
        (p :: repl, [Ev.enter p])
      (r.1, r.2 ++ (List.range (G.nitems p)).flatMap (itemEvs sched p) ++ [Ev.done p])

/-- the whole program: runtime first, then main -/
def programTrace (G : Prog α) (sched : α → Nat → Nat) (fuel : Nat) (runtime main : α) : List (Ev α) :=
  let r0 := initRec G sched fuel [] runtime
  let r1 := initRec G sched fuel r0.1 main
  r0.2 ++ r1.2

end Machine

/-! ## 3. Order of the declarations of one package (compiler/package.go:203, decls.go) -/

/-- the `InitCode`-carrying declarations of a package, in emission order -/
inductive Item where
  | importInit (path : String)            -- decls.go:181-193 newImportDecl: `$r = path.$init()`
  | varZero (name : String)               -- decls.go:224-234 synthetic zero-value initialiser
  | varInit (name : String)               -- decls.go:239 entries of types.Info.InitOrder
  | initCall (file : String) (idx : Nat)  -- decls.go:381 call of the idx-th `init` of `file`
  | mainCall                              -- decls.go:331-341 the call of main.main, appended last
deriving DecidableEq, Repr

/-- `Sources.Sort` (sources.go:68-72): `sort.Slice(files, name(i) > name(j))` — descending by file name. -/
def sortFiles (names : List String) : List String :=
  names.mergeSort (fun a b => decide (b ≤ a))

/-- `importDecls` (decls.go:158-178): `sort.Slice(imports, path(i) < path(j))` -/
def sortImports (paths : List String) : List String :=
  paths.mergeSort (fun a b => decide (a ≤ b))

/-- One source file as the model sees it: the variables it declares without / with initialiser (in source
    order) and the number of `init` functions. -/
structure File where
  name : String
  ninits : Nat
deriving DecidableEq, Repr

/-- init calls of the package: files in `Sources.Sort` order, the `init`s of each file in source order -/
def initCalls (files : List File) : List Item :=
  (sortFiles (files.map (·.name))).flatMap fun n =>
    match files.find? (·.name == n) with
    | some f => (List.range f.ninits).map (Item.initCall n)
    | none => []

/-- compiler/package.go:203 restricted to decls that carry `InitCode` -/
def declOrder (imports : List String) (zeroVars initOrder : List String) (files : List File) (isMain : Bool) : List Item :=
  (sortImports imports).map Item.importInit
    ++ zeroVars.map Item.varZero
    ++ initOrder.map Item.varInit
    ++ initCalls files
    ++ (if isMain then [Item.mainCall] else [])

/-! ## 4. Variable initialisation order

`types.Info.InitOrder` is computed by go/types (trusted). For predicting whole traces the driver uses the rule
of the Go specification: repeatedly pick the first variable in declaration order that is ready, i.e. whose
initialiser depends on no variable that still waits. `deps v` are the variables (of the same package, with an
initialiser) that `v`'s initialiser refers to, directly or through functions. -/

def ready (deps : String → List String) (pending : List String) (v : String) : Bool :=
  (deps v).all fun d => !(pending.contains d) || d == v

/-- the Go specification's selection, bounded by fuel = number of variables -/
def specVarOrder (deps : String → List String) : Nat → List String → List String
  | 0, _ => []
  | fuel + 1, pending =>
    match pending.find? (ready deps pending) with
    | some v => v :: specVarOrder deps fuel (pending.filter (· != v))
    | none => []   -- initialisation cycle: rejected by the type checker

/-- a sequence respects the dependencies when every dependency of an element that occurs in the sequence at all
    occurs before it -/
def Respects (deps : String → List String) (l : List String) : Prop :=
  ∀ pre v post, l = pre ++ v :: post → ∀ d ∈ deps v, d ≠ v → d ∈ l → d ∈ pre

end GV.Link
