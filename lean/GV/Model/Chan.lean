/-
  GV.Model.Chan — per-channel data of the GopherJS runtime, transcribed from
  /repo/compiler/prelude/types.js:557-569 (`$Chan`, `$chanNil`) and the queue manipulation of
  /repo/compiler/prelude/goroutines.js:230-389.  Core Lean only.

  A JS queue entry is a closure; the model keeps what the closure captures:
  the goroutine (`thisGoroutine`), for `$select` entries the case index `i`, and for send
  entries the value.  Closure identity (`queue.indexOf(entry)`) is the pair (gid, sel).
-/
namespace GV.Chan

/-- one closure in `$sendQueue` / `$recvQueue` (goroutines.js:246-250, 275-279, 363-382) -/
structure Entry where
  gid : Nat
  /-- `none` = entry of a plain `$send`/`$recv`; `some i` = case `i` of a `$select` -/
  sel : Option Nat
  /-- value carried by a send entry (0 for receive entries) -/
  val : Nat
deriving DecidableEq, Repr

/-- `$Chan` object (types.js:557-567).  `isNil` marks the single `$chanNil` object whose queues are the
    dummy `{length:0, push(){}, shift(){return undefined}, indexOf(){return -1}}` (types.js:568-569).
    `hCommit/hRecv` are ghost histories (not in the JS): values that entered the channel (pushed to the
    buffer, handed to a queued receiver, or pulled from a queued sender), values handed to receivers. -/
structure Chan where
  isNil : Bool
  cap : Nat
  buf : List Nat
  sendQ : List Entry
  recvQ : List Entry
  closed : Bool
  hCommit : List Nat
  hRecv : List Nat
deriving Repr

/-- `new $Chan(elem, capacity)` types.js:557-567 -/
def Chan.make (cap : Nat) : Chan :=
  { isNil := false, cap := cap, buf := [], sendQ := [], recvQ := [], closed := false, hCommit := [], hRecv := [] }

/-- `$chanNil = new $Chan(null, 0)` types.js:568 -/
def Chan.nil : Chan := { Chan.make 0 with isNil := true }

/-- `queue.push(entry)`; the dummy queues of `$chanNil` swallow the push (types.js:569) -/
def pushQ (isNil : Bool) (q : List Entry) (e : Entry) : List Entry :=
  if isNil then q else q ++ [e]

/-- `index = queue.indexOf(entry); if (index !== -1) queue.splice(index, 1)` goroutines.js:352-355, for the
    closure registered by goroutine `g` for case `i`. (A closure is registered once, so removing every
    match and removing the first match coincide.) -/
def removeEntry (g i : Nat) (q : List Entry) : List Entry :=
  q.filter fun e => !(e.gid == g && e.sel == some i)

/-- communication clause handed to `$select` (statements.go:486-526): `[]`, `[chan]`, `[chan, value]` -/
inductive Case where
  | dflt
  | recv (c : Nat)
  | send (c : Nat) (v : Nat)
deriving DecidableEq, Repr

/-- recv case readiness, goroutines.js:314 -/
def Chan.recvReady (ch : Chan) : Bool :=
  ch.sendQ.length != 0 || ch.buf.length != 0 || ch.closed

/-- send case readiness, goroutines.js:322 -/
def Chan.sendReady (ch : Chan) : Bool :=
  ch.recvQ.length != 0 || decide (ch.buf.length < ch.cap)

end GV.Chan
