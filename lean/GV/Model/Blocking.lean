/-
  GV.Model.Blocking — which functions are compiled in resumable form (core Lean only).

  Mirrors `compiler/internal/analysis/info.go`:
    * a function (instance / literal) is *blocking* iff its `Blocking` node map is non-empty (`IsBlocking`, info.go:327-329);
    * intrinsic marks come from `Visit`/`visitCallExpr`/`callToNamedFunc` (info.go:376-714): channel send/receive,
      range over a channel, select without default, calls through an interface method, a function-typed variable,
      an index expression or any other non-trivial callee expression, and functions without a body (info.go:84-92);
    * every statically resolved call is recorded as a pending edge caller → callee (`instCallees`,
      `literalFuncCallees`, info.go:689-697, 545-552);
    * `PropagateAnalysis` / `propagateFunctionBlocking` (info.go:211-258) repeat passes over all pending edges, in an
      order that depends on package order, function order and Go map iteration; an edge whose callee is blocking
      *at that moment* marks the caller and is deleted; the loop ends after a pass that changed nothing.
  The visiting order of each pass is a parameter (`ord`).
-/
namespace GV.Blocking

abbrev Edge := Nat × Nat   -- (caller, callee)

structure Graph where
  intrinsic : List Nat
  edges : List Edge
  deriving Repr

/-- state of one pass: blocking set, edges kept for later passes, "something changed" (`done = false`) -/
abbrev PassState := List Nat × List Edge × Bool

/-- info.go:237-245: `if info.IsBlocking(callee) { caller.markBlocking(..); Delete(callee); done = false }` -/
def passStep (s : PassState) (e : Edge) : PassState :=
  if s.1.contains e.2 then (e.1 :: s.1, s.2.1, true) else (s.1, e :: s.2.1, s.2.2)

def pass (B : List Nat) (es : List Edge) : PassState :=
  es.foldl passStep (B, [], false)

/-- info.go:213-222: `for !done { done = true; for each info { if !propagate… { done = false } } }` -/
def propagate (ord : Nat → List Edge → List Edge) : Nat → Nat → List Nat → List Edge → List Nat
  | 0, _, B, _ => B
  | fuel + 1, i, B, pending =>
    let r := pass B (ord i pending)
    if r.2.2 then propagate ord fuel (i + 1) r.1 r.2.1 else r.1

/-- the blocking set computed by the real loop, for a given visiting order -/
def blocking (ord : Nat → List Edge → List Edge) (g : Graph) : List Nat :=
  propagate ord (g.edges.length + 1) 0 g.intrinsic g.edges

/-- canonical order (used by the driver): pending edges as they are -/
def idOrd : Nat → List Edge → List Edge := fun _ p => p

/-- number of passes executed (driver statistic) -/
def passes (ord : Nat → List Edge → List Edge) : Nat → Nat → List Nat → List Edge → Nat
  | 0, i, _, _ => i
  | fuel + 1, i, B, pending =>
    let r := pass B (ord i pending)
    if r.2.2 then passes ord fuel (i + 1) r.1 r.2.1 else i + 1

/-- Specification: the least set containing the intrinsic marks and closed under "calls a blocking callee". -/
inductive Reach (g : Graph) : Nat → Prop where
  | base : v ∈ g.intrinsic → Reach g v
  | step : (a, b) ∈ g.edges → Reach g b → Reach g a

/-- `S` contains the intrinsic marks and is closed under "calls a blocking callee". -/
def Closed (g : Graph) (S : Nat → Prop) : Prop :=
  (∀ v, v ∈ g.intrinsic → S v) ∧ (∀ a b, (a, b) ∈ g.edges → S b → S a)

/-! ### An iteration scheme that revisits only "dependent" packages (not the real code)

  The propagation of the real code revisits EVERY package in every pass.  The scheme below revisits, from the second pass
  on, only the packages in which the previous pass marked something and the packages importing such a package.  A generic
  instance is analysed in the package that declares the generic function, but its callees may live in the instantiating
  package, which the declaring package does not import: the scheme never comes back to it. -/

structure PGraph where
  g : Graph
  pkg : Nat → Nat                  -- package of a function / instance
  imports : Nat → Nat → Bool       -- `imports p q`: package p imports package q

/-- one pass restricted to the callers whose package satisfies `allowed`; also collects the packages that changed -/
def passStepF (P : PGraph) (allowed : Nat → Bool) (s : List Nat × List Edge × List Nat) (e : Edge) :
    List Nat × List Edge × List Nat :=
  if allowed (P.pkg e.1) && s.1.contains e.2 then (e.1 :: s.1, s.2.1, P.pkg e.1 :: s.2.2) else (s.1, e :: s.2.1, s.2.2)

def dependsOnAny (P : PGraph) (changed : List Nat) (p : Nat) : Bool :=
  changed.contains p || changed.any (fun q => P.imports p q)

def propagateDep (P : PGraph) : Nat → Option (List Nat) → List Nat → List Edge → List Nat
  | 0, _, B, _ => B
  | fuel + 1, changed, B, pending =>
    let allowed : Nat → Bool := match changed with
      | none => fun _ => true
      | some ch => dependsOnAny P ch
    let r := pending.foldl (passStepF P allowed) (B, [], [])
    if r.2.2.isEmpty then r.1 else propagateDep P fuel (some r.2.2) r.1 r.2.1.reverse

/-- blocking set computed by the "revisit only dependents" scheme -/
def blockingDep (P : PGraph) : List Nat := propagateDep P (P.g.edges.length + 1) none P.g.intrinsic P.g.edges

end GV.Blocking
