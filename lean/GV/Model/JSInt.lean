/-
  GV.Model.JSInt — the fragment of ECMAScript number semantics that GopherJS's integer code relies on,
  on *mathematical integers* (JS numbers that are integers of magnitude ≤ 2^53 are exact doubles), with
  explicit tracking of IEEE negative zero where it can arise (unary minus, `%`, `*`, `/`).

  ECMAScript references: ToInt32 (7.1.6), ToUint32 (7.1.7), the shift operators (13.9: count = ToUint32(rhs) & 31),
  binary bitwise operators (13.12: both operands through ToInt32), `~` (13.5.6), Math.imul (21.3.2.19),
  `%` on numbers (6.1.6.1.6: result has the sign of the dividend, so a zero result of a negative dividend is -0),
  unary minus (6.1.6.1.1: -(+0) = -0).
-/
namespace GV.JSInt

/-- 2^53: integers up to this magnitude are exactly representable doubles. -/
def two53 : Int := 9007199254740992

/-- A JS number known to be an integer, or IEEE negative zero. -/
inductive JSNum where
  | int (v : Int)
  | negZero
  deriving DecidableEq, Repr, Inhabited

/-- the mathematical value (ToNumber of -0 compares equal to 0) -/
def JSNum.toInt : JSNum → Int
  | .int v => v
  | .negZero => 0

/-- the sign bit of the double -/
def JSNum.signBit : JSNum → Bool
  | .int v => decide (v < 0)
  | .negZero => true

def JSNum.render : JSNum → String
  | .int v => toString v
  | .negZero => "-0"

/-- ToUint32 on an integer: modulo 2^32 (also maps -0 to +0: the argument is the mathematical value). -/
def toUint32 (v : Int) : Int := v % 4294967296

/-- ToInt32 on an integer: modulo 2^32 into [-2^31, 2^31). -/
def toInt32 (v : Int) : Int :=
  if v % 4294967296 < 2147483648 then v % 4294967296 else v % 4294967296 - 4294967296

/-- effective shift count: ToUint32(count) & 31 -/
def shiftCount (n : Int) : Nat := (toUint32 n % 32).toNat

/-- `a << n` -/
def shl (a n : Int) : Int := toInt32 (toInt32 a * 2 ^ shiftCount n)

/-- `a >> n` (sign-propagating): floor division of ToInt32(a) -/
def sar (a n : Int) : Int := toInt32 a / 2 ^ shiftCount n

/-- `a >>> n` (zero-fill) -/
def shr (a n : Int) : Int := toUint32 a / 2 ^ shiftCount n

/-- bit pattern of ToInt32/ToUint32(a) as a natural number -/
def bits32 (a : Int) : Nat := (toUint32 a).toNat

/-- `a & b` -/
def band (a b : Int) : Int := toInt32 (Int.ofNat (bits32 a &&& bits32 b))
/-- `a | b` -/
def bor (a b : Int) : Int := toInt32 (Int.ofNat (bits32 a ||| bits32 b))
/-- `a ^ b` -/
def bxor (a b : Int) : Int := toInt32 (Int.ofNat (bits32 a ^^^ bits32 b))
/-- `~a` = -ToInt32(a) - 1 -/
def bnot (a : Int) : Int := -(toInt32 a) - 1

/-- `Math.imul(a, b)`: the low 32 bits of the exact product of ToInt32(a) and ToInt32(b), as int32.
    (numeric.js:17-23 has a 16-bit-limb fallback that is only used when Math.imul is missing.) -/
def imul (a b : Int) : Int := toInt32 (toInt32 a * toInt32 b)

/-- The fallback of numeric.js:17-23: `((al*bl) + (((ah*bl + al*bh) << 16) >>> 0) >> 0)`. -/
def imulFallback (a b : Int) : Int :=
  let ah := band (shr a 16) 0xffff
  let al := band a 0xffff
  let bh := band (shr b 16) 0xffff
  let bl := band b 0xffff
  sar ((al * bl) + shr (shl (ah * bl + al * bh) 16) 0) 0

/-- `Math.min` on integers -/
def jsMin (a b : Int) : Int := if a ≤ b then a else b

/-- unary minus: `-(+0)` is `-0`. -/
def neg (v : Int) : JSNum := if v = 0 then .negZero else .int (-v)

/-- `x % y` on integers (both canonical, not -0): `none` = NaN (y = 0); the result takes the sign of the
    dividend, so a zero result of a negative dividend is `-0`. -/
def rem (x y : Int) : Option JSNum :=
  if y = 0 then none
  else if Int.tmod x y = 0 ∧ x < 0 then some .negZero
  else some (.int (Int.tmod x y))

/-- `x * y` on integers: a zero product with exactly one negative factor is `-0`. -/
def mul (x y : Int) : JSNum :=
  if x * y = 0 ∧ (decide (x < 0) != decide (y < 0)) then .negZero else .int (x * y)

/-- Outcome of `x / y` on integers as far as the integer schemes look at it:
    `nonFinite` (y = 0: ±Infinity or NaN) or the quotient truncated toward zero (what ToInt32/ToUint32 do
    to the fraction). ASSUMPTION (IEEE): for |x|,|y| < 2^32 the correctly rounded double quotient has the
    same integer part as the exact quotient (the rounding error q·2^-53 is smaller than 1/|y|). -/
inductive Quot where
  | nonFinite
  | trunc (q : Int)
  deriving DecidableEq, Repr

def div (x y : Int) : Quot := if y = 0 then .nonFinite else .trunc (Int.tdiv x y)

end GV.JSInt
