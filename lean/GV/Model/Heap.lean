/-
  GV.Model.Heap — how GopherJS represents Go values of array/struct type (JavaScript objects with
  reference identity) and where the translator inserts a copy.

  * `Ty`      Go value types  τ ::= int | ptr τ | slice τ | map | iface | struct [τ] | array n τ
  * `Heap`    JS heap: object id → slot → value; a value is an `Int` that is either an immediate number or
              an object id (which of the two is decided by the static type, as in the generated code)
  * `zero`    `T.zero()`                     compiler/prelude/types.js:140-141 (array), 351-356 (struct ctor)
  * `copyInto` `T.copy(dst, src)`            types.js:152-163 (array → `$copyArray` prelude.js:368-402), 268-281 (struct)
  * `clone`   `$clone(src, T)`               prelude.js:404-408
  * `cloneAt` the table of copy contexts: does the translator emit `$clone` there (anchors on each line)
  * `runJS`   semantics of the copy-context language on the JS heap (references + clone where `cloneAt`)
  The Go-side semantics of the same language (values are flat blocks of cells that are copied) is GV.Spec.GoValue.
-/
namespace GV.Heap

inductive Ty where
  | int
  | ptr (t : Ty)
  | slice (t : Ty)
  | map
  | iface
  | struct (fs : List Ty)
  | array (n : Nat) (t : Ty)
deriving Repr

mutual
/-- structural equality of types (the derive handler does not cover nested inductives) -/
def Ty.beq : Ty → Ty → Bool
  | .int, .int => true
  | .ptr a, .ptr b => Ty.beq a b
  | .slice a, .slice b => Ty.beq a b
  | .map, .map => true
  | .iface, .iface => true
  | .struct fs, .struct gs => Ty.beqList fs gs
  | .array n a, .array m b => n == m && Ty.beq a b
  | _, _ => false
def Ty.beqList : List Ty → List Ty → Bool
  | [], [] => true
  | a :: as, b :: bs => Ty.beq a b && Ty.beqList as bs
  | _, _ => false
end

/-- `$kindArray` / `$kindStruct`: the kinds `typ.copy` recurses into (types.js:271-274, prelude.js:380-381) -/
def isSpine : Ty → Bool
  | .struct _ => true
  | .array _ _ => true
  | _ => false

structure Heap where
  /-- object id → slot index → value -/
  cell : Nat → Nat → Int
  /-- allocation pointer: ids `≥ next` have never been allocated -/
  next : Nat

def Heap.empty : Heap := { cell := fun _ _ => 0, next := 0 }

/-- `obj[slot] = v` -/
def Heap.write (H : Heap) (id i : Nat) (v : Int) : Heap :=
  { H with cell := fun a b => if a = id ∧ b = i then v else H.cell a b }

/-- a new object with the given slots -/
def Heap.alloc (H : Heap) (slots : List Int) : Heap × Int :=
  ({ cell := fun a b => if a = H.next then slots.getD b 0 else H.cell a b, next := H.next + 1 }, (H.next : Int))

/-- the nil pointer / slice / map / interface value -/
def nilRef : Int := -1

/-- run `f` `n` times threading the heap, collecting results -/
def iter (f : Heap → Heap × Int) : Nat → Heap → Heap × List Int
  | 0, H => (H, [])
  | n + 1, H =>
    let (H1, v) := f H
    let (H2, vs) := iter f n H1
    (H2, v :: vs)

mutual
/-- `T.zero()`: struct → `new T.ptr(zero fields…)` (constructor args, expressions.go:198 / types.js struct ctor);
    array → `$mapArray(new Array(len), e => elem.zero())` or a zero-filled typed array (types.js:140-141). -/
def zero : Ty → Heap → Heap × Int
  | .int, H => (H, 0)
  | .ptr _, H => (H, nilRef)
  | .slice _, H => (H, nilRef)
  | .map, H => (H, nilRef)
  | .iface, H => (H, nilRef)
  | .struct fs, H =>
    let (H1, vs) := zeroFields fs H
    H1.alloc vs
  | .array n t, H =>
    let (H1, vs) := iter (zero t) n H
    H1.alloc vs
def zeroFields : List Ty → Heap → Heap × List Int
  | [], H => (H, [])
  | f :: fs, H =>
    let (H1, v) := zero f H
    let (H2, vs) := zeroFields fs H1
    (H2, v :: vs)
end

mutual
/-- `T.copy(dst, src)`.
    struct (types.js:268-281): per field, `f.typ.copy(dst[f], src[f])` for array/struct fields, `dst[f] = src[f]` otherwise.
    array (types.js:152-163 → `$copyArray(dst, src, 0, 0, n, elem)`, prelude.js:368-402): nothing when `n === 0` or
    `dst === src`; `elem.copy(dst[i], src[i])` for array/struct elements, `dst[i] = src[i]` otherwise, `i` ascending
    (typed arrays: `dst.set(src.subarray(0, n), 0)`, the same cell-wise copy for distinct arrays). -/
def copyInto : Ty → Heap → Int → Int → Heap
  | .struct fs, H, d, s => copyFields fs H d.toNat s.toNat 0
  | .array n t, H, d, s =>
    if n = 0 ∨ d = s then H
    else if isSpine t then
      (List.range n).foldl (fun H i => copyInto t H (H.cell d.toNat i) (H.cell s.toNat i)) H
    else
      (List.range n).foldl (fun H i => H.write d.toNat i (H.cell s.toNat i)) H
  | _, H, _, _ => H
def copyFields : List Ty → Heap → Nat → Nat → Nat → Heap
  | [], H, _, _, _ => H
  | f :: fs, H, d, s, i =>
    let H1 := if isSpine f then copyInto f H (H.cell d i) (H.cell s i) else H.write d i (H.cell s i)
    copyFields fs H1 d s (i + 1)
end

/-- prelude.js:404-408 `$clone(src, type)`: `var clone = type.zero(); type.copy(clone, src); return clone;` -/
def clone (t : Ty) (H : Heap) (v : Int) : Heap × Int :=
  let (H1, c) := zero t H
  (copyInto t H1 c v, c)

mutual
/-- the Go value represented by JS value `v` of type `t`: its cells in memory order (abstraction function) -/
def flat : Ty → Heap → Int → List Int
  | .struct fs, H, v => flatFields fs H v.toNat 0
  | .array n t, H, v => (List.range n).flatMap (fun i => flat t H (H.cell v.toNat i))
  | _, _, v => [v]
def flatFields : List Ty → Heap → Nat → Nat → List Int
  | [], _, _, _ => []
  | f :: fs, H, id, i => flat f H (H.cell id i) ++ flatFields fs H id (i + 1)
end

mutual
/-- the objects that make up the array/struct spine of `v` (root first) -/
def spine : Ty → Heap → Int → List Nat
  | .struct fs, H, v => v.toNat :: spineFields fs H v.toNat 0
  | .array n t, H, v => v.toNat :: (List.range n).flatMap (fun i => spine t H (H.cell v.toNat i))
  | _, _, _ => []
def spineFields : List Ty → Heap → Nat → Nat → List Nat
  | [], _, _, _ => []
  | f :: fs, H, id, i => spine f H (H.cell id i) ++ spineFields fs H id (i + 1)
end

mutual
/-- number of memory cells of a Go value of this type (pointers, slices, maps, interfaces count as one opaque cell) -/
def size : Ty → Nat
  | .struct fs => sizeFields fs
  | .array n t => n * size t
  | _ => 1
def sizeFields : List Ty → Nat
  | [] => 0
  | f :: fs => size f + sizeFields fs
end

/-- type of the sub-value at a path of field / element indices -/
def typeAt : Ty → List Nat → Option Ty
  | t, [] => some t
  | .struct fs, i :: p => match fs[i]? with
    | some f => typeAt f p
    | none => none
  | .array n t, i :: p => if i < n then typeAt t p else none
  | _, _ :: _ => none

/-- cell offset of the sub-value at a path (Go memory layout) -/
def offsetAt : Ty → List Nat → Nat
  | _, [] => 0
  | .struct fs, i :: p => sizeFields (fs.take i) + (match fs[i]? with | some f => offsetAt f p | none => 0)
  | .array _ t, i :: p => i * size t + offsetAt t p
  | _, _ :: _ => 0

/-- JS navigation `v.f.g[i]…`: the value stored at a path -/
def navigate (H : Heap) : Int → List Nat → Int
  | v, [] => v
  | v, i :: p => navigate H (H.cell v.toNat i) p

/-! ### Copy contexts -/

inductive Ctx where
  | assign | define | arg | result | rangeValue | rangeOperand | send | recv | mapStore | mapLoad
  | elemStore | fieldStore | ptrStore | litElem | box | unbox | recvValue | methodValue
  /-- invocation of a method value `f := x.m; f()`: the callee's value receiver is initialised from the bound receiver -/
  | boundCall
  /-- value-receiver method invoked through an interface (`var i I = x; i.m()`, also `I = &x`): the callee's receiver is
      initialised from the value held by (or pointed to from) the interface -/
  | ifaceCall
  /-- `defer x.M(args)`: the receiver is evaluated and copied when the defer statement executes
      (the deferred function is the method value `x.M`, statements.go DeferStmt → delegatedCall → expressions.go:616) -/
  | deferRecv
  /-- `go x.M(args)`: the receiver is evaluated and copied when the go statement executes (same path) -/
  | goRecv
  /-- the automatic dereference of a pointer operand in `p.M` / `e.M` through an embedded `*T`: a temporary that
      denotes the pointee itself (makeReceiver re-types the pointer as the pointee: the struct/array pointer IS the object) -/
  | deref
  /-- a conversion `T(x)` / `(T)(x)` between identical types: `translateConversion` returns the operand's translation
      (expressions.go: `if types.Identical(exprType, desiredType) { return fc.translateExpr(expr) }`), i.e. the SAME object;
      conversions between distinct types with the same underlying array/struct type `$clone` (a fresh object, harmless) -/
  | conv
deriving DecidableEq, Repr

inductive CtxKind where
  | inPlace      -- an existing location is overwritten
  | newLocation  -- a new storage location is initialised
  | temporary    -- an expression result that is consumed by another context at once
deriving DecidableEq, Repr

def Ctx.kind : Ctx → CtxKind
  | .assign | .elemStore | .fieldStore | .ptrStore => .inPlace
  | .define | .arg | .rangeValue | .rangeOperand | .send | .mapStore | .litElem | .box | .recvValue | .methodValue
  | .boundCall | .ifaceCall | .deferRecv | .goRecv => .newLocation
  | .result | .recv | .mapLoad | .unbox | .deref | .conv => .temporary

/-- Does the translator emit `$clone(…)` when a value of array/struct type flows through the context?
    Transcribed from /repo/compiler (anchors = file:line of the emission, or of the place where none is emitted). -/
def cloneAt : Ctx → Bool
  | .assign => false        -- statements.go:738  `T.copy(lhs, rhs)` (in place, no new object)
  | .elemStore => false     -- statements.go:738  (lhs `a[i]` of array/struct type)
  | .fieldStore => false    -- statements.go:738  (lhs `x.f`)
  | .ptrStore => false      -- statements.go:738  (lhs `*p`); `$set` of struct pointers is `typ.copy(this, v)` types.js:246
  | .define => true         -- statements.go:736  `lhs = $clone(rhs, T)` (skipped for a composite literal rhs :726-728)
  | .arg => true            -- utils.go:167       translateArgs → translateImplicitConversionWithCloning
  | .rangeValue => true     -- statements.go:253  translateAssign(s.Value, _ref[_i], define) → :736
  | .rangeOperand => true   -- statements.go RangeStmt: `_ref = $clone(X, T)` for an array VALUE operand with an iteration value (repair of C07-range-array-operand)
  | .send => true           -- statements.go:476, 499
  | .mapStore => true       -- statements.go:717  (key: 712)
  | .litElem => true        -- expressions.go:147, 170, 181, 192
  | .box => true            -- expressions.go translateImplicitConversion, case Interface: `new T($clone(x, T))` for array and struct values (repair of C07-box-no-clone)
  | .recvValue => true      -- expressions.go:963 makeReceiver
  | .methodValue => true    -- expressions.go:616 `$methodVal(makeReceiver(e), …)` → :963
  | .boundCall => true      -- functions.go translateFunctionBody prologue: `recv = $clone(this[.$val], T)` for array/struct receivers (repair of C07-method-value-shared-receiver)
  | .ifaceCall => true      -- same prologue: the callee copies its receiver whoever calls it (repair of C07-iface-dispatch-shared-receiver)
  -- RECEIVER-EVALUATION RULE: the receiver of a method value / defer / go statement is copied at binding time
  -- according to the METHOD's declared receiver type (`methodsRecvType`), whatever the operand's static type
  -- (value, pointer with automatic dereference, path through embedded `T` / `*T`, pointer to a named array type,
  -- element, map value): makeReceiver `translateImplicitConversionWithCloning(x, methodsRecvType)`.
  | .deferRecv => true      -- expressions.go makeReceiver (via delegatedCall → translateExpr(expr.Fun) → `$methodVal(makeReceiver(e), …)`)
  | .goRecv => true         -- same path
  | .conv => false          -- expressions.go translateConversion, identical types: no object is created
  | .deref => false         -- makeReceiver `x = fc.setType(x, methodsRecvType)`: no object is created
  | .result => false        -- statements.go:786  translateResults → translateImplicitConversion
  | .recv => false          -- expressions.go `$recv` result `[0]`
  | .mapLoad => false       -- expressions.go map index: `entry.v`
  | .unbox => false         -- `$assertType(x, T)` returns `x.$val`

/-- the new-location contexts for which the translator emitted NO copy before the repairs -/
def nonCloningBeforeRepair : List Ctx := [.box, .rangeOperand, .boundCall, .ifaceCall]

/-- the clone table of the translator BEFORE the repairs (kept for the "repaired defects" section of GV.Props.C07) -/
def cloneAtBeforeRepair (c : Ctx) : Bool := cloneAt c && !(nonCloningBeforeRepair.contains c)

/-- expressions: a location `x.path`, possibly passed through temporary contexts -/
inductive Expr where
  | loc (x : Nat) (path : List Nat)
  | via (c : Ctx) (e : Expr)
deriving Repr

inductive Stmt where
  /-- `var x T` — a new location holding the zero value -/
  | decl (t : Ty)
  /-- a new storage location initialised from `e` through context `c` -/
  | bind (c : Ctx) (e : Expr)
  /-- `x.path = e` through an in-place context (array/struct typed destination) -/
  | store (c : Ctx) (x : Nat) (path : List Nat) (e : Expr)
  /-- write one non-spine leaf cell `x.path = n` -/
  | setLeaf (x : Nat) (path : List Nat) (n : Int)
  /-- observe all cells of location `x` -/
  | dump (x : Nat)
deriving Repr

structure JState where
  heap : Heap
  slots : List (Ty × Int)
  out : List (List Int)

def JState.init : JState := { heap := Heap.empty, slots := [], out := [] }

/-- evaluate an expression under the clone table `tbl`: (heap, type, value) -/
def evalJS (tbl : Ctx → Bool) (slots : List (Ty × Int)) : Expr → Heap → Option (Heap × Ty × Int)
  | .loc x p, H =>
    match slots[x]? with
    | some (t, v) => match typeAt t p with
      | some t' => some (H, t', navigate H v p)
      | none => none
    | none => none
  | .via c e, H =>
    match evalJS tbl slots e H with
    | some (H1, t, v) =>
      if tbl c && isSpine t then let (H2, v') := clone t H1 v; some (H2, t, v') else some (H1, t, v)
    | none => none

/-- one statement on the JS side; ill-formed statements are skipped -/
def stepJS (tbl : Ctx → Bool) (σ : JState) : Stmt → JState
  | .decl t => let (H, v) := zero t σ.heap; { σ with heap := H, slots := σ.slots ++ [(t, v)] }
  | .bind c e =>
    match evalJS tbl σ.slots e σ.heap with
    | some (H1, t, v) =>
      if tbl c && isSpine t then
        let (H2, v') := clone t H1 v
        { σ with heap := H2, slots := σ.slots ++ [(t, v')] }
      else { σ with heap := H1, slots := σ.slots ++ [(t, v)] }
    | none => σ
  | .store _ x p e =>
    match evalJS tbl σ.slots e σ.heap with
    | some (H1, t, v) =>
      match σ.slots[x]? with
      | some (tx, vx) =>
        match typeAt tx p with
        | some t' =>
          if Ty.beq t' t && isSpine t then { σ with heap := copyInto t H1 (navigate H1 vx p) v } else σ
        | none => σ
      | none => σ
    | none => σ
  | .setLeaf x p n =>
    match σ.slots[x]? with
    | some (tx, vx) =>
      match typeAt tx p with
      | some t =>
        if isSpine t then σ
        else match p.getLast?, p.dropLast with
          | some i, q => { σ with heap := σ.heap.write (navigate σ.heap vx q).toNat i n }
          | none, _ => { σ with slots := σ.slots.set x (tx, n) }
      | none => σ
    | none => σ
  | .dump x =>
    match σ.slots[x]? with
    | some (t, v) => { σ with out := σ.out ++ [flat t σ.heap v] }
    | none => σ

def runJS (tbl : Ctx → Bool) (prog : List Stmt) : List (List Int) :=
  (prog.foldl (stepJS tbl) JState.init).out

end GV.Heap
