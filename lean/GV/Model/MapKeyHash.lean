/-
  GV.Model.MapKeyHash — which dynamic key types are hashable, as the prelude decides it, over the recursive type
  language `GV.Spec.GoComparable.Ty` (named / blank / embedded fields, arrays, slices, maps, funcs).

  Transcription of compiler/prelude/types.js:
    * `typ.comparable = true` by default (end of `$newType`); `false` for slice / map / func (`init` of those kinds);
    * arrays: getter `elem.comparable`;
    * structs (`typ.init`): getter `fields.every(f => f.typ.comparable)` — over ALL fields, blank ones included;
    * struct `keyFor`: `$mapArray(fields.filter(f => f.name !== "_"), …)` — blank fields are skipped in the KEY only;
    * `$ifaceKeyFor` (types.js:41-51): `if (!c.comparable) $throwRuntimeError("hash of unhashable type " + c.string)`,
      evaluated by every emitted map operation (store, index, comma-ok, delete, literal) before the map is touched.
  Core Lean only.
-/
import GV.Spec.GoComparable

namespace GV.MapKeyHash
open GV.Spec.GoComparable

def Fields.toList : Fields → List (FieldKind × Ty)
  | .nil => []
  | .cons k t rest => (k, t) :: Fields.toList rest

mutual
/-- the `typ.comparable` property / getter of the type object -/
def typComparable : Ty → Bool
  | .int => true
  | .str => true
  | .iface => true
  | .slice => false
  | .map => false
  | .func => false
  | .arr _ e => typComparable e
  | .struct fs => fieldsEvery fs
/-- `fields.every(f => f.typ.comparable)`: no field kind is exempt -/
def fieldsEvery : Fields → Bool
  | .nil => true
  | .cons _ t rest => if typComparable t then fieldsEvery rest else false
end

/-- the fields whose values enter the key: `fields.filter(f => f.name !== "_")` -/
def keyFields : Fields → List (FieldKind × Ty)
  | .nil => []
  | .cons .blank _ rest => keyFields rest
  | .cons k t rest => (k, t) :: keyFields rest

/-- how a map operation with an interface key of dynamic type `t` ends before it touches the map -/
inductive HashOutcome
  | key             -- a key is produced, the operation goes on
  | panicUnhashable -- `runtime error: hash of unhashable type …`
  deriving DecidableEq, Repr

/-- `$ifaceKeyFor` on a non-nil interface value of dynamic type `t` -/
def ifaceKeyOutcome (t : Ty) : HashOutcome := if typComparable t then .key else .panicUnhashable

/-- a static key type `τ` that contains interface positions (directly, in fields or array elements): the operation
    panics iff the dynamic type put into (one of) them is unhashable; `τ` itself is comparable (checked by the compiler) -/
def nestedKeyOutcome (dyn : Ty) : HashOutcome := ifaceKeyOutcome dyn

/-! ### order of the steps of a read-like map operation -/

/-- state of the map operand -/
inductive MapState
  | nil        -- JS `false`
  | empty      -- `new Map()` without entries
  | populated
  deriving DecidableEq, Repr

/-- `m[k]`, `v, ok := m[k]`, `delete(m, k)` -/
inductive ReadOp
  | index
  | commaOk
  | delete
  deriving DecidableEq, Repr

/-- what the operation does after the key exists -/
inductive ReadResult
  | miss        -- zero value / ok = false / no-op (nil and empty maps)
  | looked      -- the `Map` was consulted
  deriving DecidableEq, Repr

/-- the argument expression `K.keyFor(k)` of the emitted call; `none` = it threw `hash of unhashable type` -/
def hashStep (dyn : Ty) : Option Unit := if typComparable dyn then some () else none

/-- `$mapIndex(m, key)` / `$mapDelete(m, key)` (prelude.js:109-116): `typeof m.get === "function" ? m.get(key) : undefined` -/
def helperStep : MapState → ReadResult
  | .nil => .miss
  | .empty => .looked
  | .populated => .looked

/-- emitted `$mapIndex(m, K.keyFor(k))`, `$mapDelete(m, K.keyFor(k))` (expressions.go:508-528,1066-1075): JS evaluates the
    arguments first, so the key is hashed BEFORE the helper tests whether `m` is a map — as Go's runtime does
    (`mapaccess`/`mapdelete` call `mapKeyError` also when the map is nil or empty). `none` = panic. -/
def readOp (dyn : Ty) (m : MapState) (_op : ReadOp) : Option ReadResult :=
  (hashStep dyn).bind fun _ => some (helperStep m)

/-- NOT the code: the rejected variant that passes `K.keyFor` and the raw key to the helper, which hashes only if `m`
    is a map -/
def seededReadOp (dyn : Ty) (m : MapState) (_op : ReadOp) : Option ReadResult :=
  match m with
  | .nil => some .miss
  | m => (hashStep dyn).bind fun _ => some (helperStep m)

mutual
/-- NOT the code: the rejected variant whose comparability decision skips blank fields -/
def seededComparable : Ty → Bool
  | .int => true
  | .str => true
  | .iface => true
  | .slice => false
  | .map => false
  | .func => false
  | .arr _ e => seededComparable e
  | .struct fs => seededEvery fs
def seededEvery : Fields → Bool
  | .nil => true
  | .cons k t rest => if k == .blank || seededComparable t then seededEvery rest else false
end

end GV.MapKeyHash
