/-
  GV.Model.SrcMap — transcription of gopherjs' source-map hint machinery:

    internal/sourcemapx/hint.go     HintMagic, FindHint, ReadHint, Hint.WriteTo
    internal/sourcemapx/filter.go   Filter.Write (hint extraction, line/column bookkeeping),
                                    defaultJSMappingCallback (offsetting of prelude / .inc.js mappings)
    compiler/utils.go               funcContext.Write / Printf / SetPos / writePos / CatchOutput / Delayed

  A byte string is a `List Nat` (every element < 256 — a side condition that only matters for the
  16-bit size field and is carried by the theorems where needed). Go panics are modelled as explicit
  error values. The payload of a hint (type flag + gob encoding, hint.go:82-127) is opaque here: the
  filter only moves it around; decoding it is left to a `decode` function supplied by the driver's caller.
-/
namespace GV.SrcMap

set_option linter.unusedVariables false

abbrev Bytes := List Nat

/-- hint.go:16 `const HintMagic byte = '\b'` -/
def magic : Nat := 8
/-- `'\n'` -/
def nl : Nat := 10

/-- hint.go:33-35 `FindHint` = `bytes.IndexByte(b, HintMagic)`; `none` = -1. -/
def findHint : Bytes → Option Nat
  | [] => none
  | b :: tl => if b = magic then some 0 else (findHint tl).map (· + 1)

/-- the encoded form written by `Hint.WriteTo` (hint.go:70-72): magic, big-endian uint16 size, payload. -/
def enc (payload : Bytes) : Bytes :=
  magic :: payload.length / 256 :: payload.length % 256 :: payload

/-- hint.go:66-80 `Hint.WriteTo`; `none` = the panic for payloads longer than 0xFFFF bytes. -/
def writeTo (payload : Bytes) : Option Bytes :=
  if payload.length > 0xFFFF then none else some (enc payload)

inductive ReadErr where
  | shortHeader   -- hint.go:48-50
  | noMagic       -- hint.go:51-53
  | shortPayload  -- hint.go:55-57
  deriving DecidableEq, Repr

def ReadErr.toString : ReadErr → String
  | .shortHeader => "panic:short-header"
  | .noMagic => "panic:no-magic"
  | .shortPayload => "panic:short-payload"

/-- hint.go:47-62 `ReadHint`: (payload, number of bytes occupied) or the panic. -/
def readHint (b : Bytes) : Except ReadErr (Bytes × Nat) :=
  match b with
  | m :: hi :: lo :: rest =>
    if m ≠ magic then .error .noMagic
    else
      let size := hi * 256 + lo                      -- binary.BigEndian.Uint16(b[1:3])
      if rest.length < size then .error .shortPayload  -- len(b) < size+3
      else .ok (rest.take size, size + 3)
  | _ => .error .shortHeader                          -- len(b) < 3

/-- Filter.line / Filter.column (filter.go:35-36): newlines written so far, bytes since the last one. -/
structure St where
  line : Nat
  column : Nat
  deriving DecidableEq, Repr

/-- filter.go:67-76: the bookkeeping loop over the bytes `w` that reached the writer
    (`IndexByte(w,'\n')`: every newline bumps `line` and zeroes `column`, the rest adds to `column`). -/
def advance (st : St) : Bytes → St
  | [] => st
  | b :: tl => if b = nl then advance ⟨st.line + 1, 0⟩ tl else advance ⟨st.line, st.column + 1⟩ tl

/-- one call of the Go mapping callback (filter.go:89,91): generated line (1-based), generated column,
    and the hint payload the original position / name are unpacked from. -/
structure Mapping where
  line : Nat
  column : Nat
  payload : Bytes
  deriving DecidableEq, Repr

/-- outcome of `Write`: new state, bytes passed to the underlying writer, callback calls in order,
    the returned `n`, and the panic if one happened (then `out` is what had been written before). -/
structure Res where
  st : St
  out : Bytes
  maps : List Mapping
  n : Nat
  err : Option ReadErr
  deriving DecidableEq, Repr

theorem findHint_lt : ∀ {p : Bytes} {i : Nat}, findHint p = some i → i < p.length
  | [], _, h => by simp [findHint] at h
  | b :: tl, i, h => by
    unfold findHint at h
    split at h
    · cases h; simp
    · cases hf : findHint tl with
      | none => simp [hf] at h
      | some j =>
        simp [hf] at h
        have := findHint_lt hf
        subst h; simp; omega

theorem readHint_len_pos {b : Bytes} {pl : Bytes} {len : Nat} (h : readHint b = .ok (pl, len)) : 3 ≤ len := by
  unfold readHint at h
  split at h
  · split at h
    · cases h
    · simp only at h
      split at h
      · cases h
      · cases h; omega
  · cases h

/-- filter.go:56-99 `Filter.Write`: scan to the first magic byte, pass the prefix on, advance line/column
    over it, decode the hint, report the mapping at the current position, continue behind the hint. -/
def write (st : St) (p : Bytes) : Res :=
  match hf : findHint p with
  | none => ⟨advance st p, p, [], p.length, none⟩
  | some i =>
    let w := p.take i
    let st' := advance st w
    match hr : readHint (p.drop i) with
    | .error e => ⟨st', w, [], w.length, some e⟩
    | .ok (payload, length) =>
      let r := write st' (p.drop (i + length))
      ⟨r.st, w ++ r.out, ⟨st'.line + 1, st'.column, payload⟩ :: r.maps, w.length + length + r.n, r.err⟩
termination_by p.length
decreasing_by
  have h1 := findHint_lt hf
  have h2 := readHint_len_pos hr
  simp only [List.length_drop]
  omega

/-- consecutive `Write` calls on one filter (stops at the first panic, like the process would). -/
def writeAll (st : St) : List Bytes → Res
  | [] => ⟨st, [], [], 0, none⟩
  | c :: cs =>
    let r := write st c
    match r.err with
    | some e => ⟨r.st, r.out, r.maps, r.n, some e⟩
    | none =>
      let r2 := writeAll r.st cs
      ⟨r2.st, r.out ++ r2.out, r.maps ++ r2.maps, r.n + r2.n, r2.err⟩

/-- a fresh `Filter{}`: line 0, column 0 -/
def init : St := ⟨0, 0⟩


/-! ### resolution of hint positions: the FileSet is part of the filter state (filter.go:26, compiler.go WritePkgCode) -/

/-- one file of a `token.FileSet`: name, size, and a line table with a line start every `step` bytes -/
structure FileSpec where
  name : String
  size : Nat
  step : Nat
  deriving DecidableEq, Repr

/-- a FileSet built by `AddFile(name, fs.Base(), size)` for each spec: bases 1, 1 + size₀ + 1, … -/
abbrev FileSetSpec := List FileSpec

/-- an original position: file, line, column (as `token.Position`) -/
abbrev Orig := Option (String × Nat × Nat)

def resolveAux (base : Nat) : FileSetSpec → Nat → Orig
  | [], _ => none
  | f :: tl, pos =>
    if base ≤ pos ∧ pos ≤ base + f.size then
      let off := pos - base
      some (f.name, off / (max f.step 1) + 1, off % (max f.step 1) + 1)
    else resolveAux (base + f.size + 1) tl pos

/-- `FileSet.Position(pos)` (filter.go:89,91): `NoPos` and positions outside every file are invalid -/
def resolve (fs : FileSetSpec) (pos : Nat) : Orig := if pos = 0 then none else resolveAux 1 fs pos

/-- a mapping as it reaches the source map: generated position and resolved original position -/
structure RMapping where
  line : Nat
  column : Nat
  orig : Orig
  deriving DecidableEq, Repr

/-- one filter, a sequence of segments: `f.FileSet = fs` (compiler.go WritePkgCode), then the Write calls of that package.
    Every hint is resolved in the FileSet that is installed WHEN IT IS WRITTEN. `decode` = Hint.Unpack (payload → position). -/
def writeSeq (decode : Bytes → Nat) (st : St) : List (FileSetSpec × List Bytes) → Bytes × List RMapping
  | [] => ([], [])
  | (fs, chunks) :: tl =>
    let r := writeAll st chunks
    let rest := writeSeq decode r.st tl
    (r.out ++ rest.1, r.maps.map (fun m => ⟨m.line, m.column, resolve fs (decode m.payload)⟩) ++ rest.2)

/-- the resolution order of a whole program: per segment its FileSet and the positions of its hints -/
def resolveSeq (segs : List (FileSetSpec × List Nat)) : List Orig :=
  segs.flatMap (fun s => s.2.map (resolve s.1))

/-- file containing `pos`, with its base (FileSet.File) -/
def fileOf (base : Nat) : FileSetSpec → Nat → Option (Nat × FileSpec)
  | [], _ => none
  | f :: tl, pos => if base ≤ pos ∧ pos ≤ base + f.size then some (base, f) else fileOf (base + f.size + 1) tl pos

def posIn (bf : Nat × FileSpec) (pos : Nat) : Orig :=
  some (bf.2.name, (pos - bf.1) / (max bf.2.step 1) + 1, (pos - bf.1) % (max bf.2.step 1) + 1)

/-- NOT the code: `position` of a variant that remembers the file of the previous hint and tries it first -/
def stalePos (fs : FileSetSpec) (cache : Option (Nat × FileSpec)) (p : Nat) : Orig × Option (Nat × FileSpec) :=
  if p = 0 then (none, cache)
  else
    let viaSet : Orig × Option (Nat × FileSpec) :=
      match fileOf 1 fs p with
      | some bf' => (posIn bf' p, some bf')
      | none => (none, cache)
    match cache with
    | some bf => if bf.1 ≤ p ∧ p ≤ bf.1 + bf.2.size then (posIn bf p, cache) else viaSet
    | none => viaSet

def stalePosList (fs : FileSetSpec) : Option (Nat × FileSpec) → List Nat → List Orig × Option (Nat × FileSpec)
  | cache, [] => ([], cache)
  | cache, p :: ps =>
    let r := stalePos fs cache p
    let rest := stalePosList fs r.2 ps
    (r.1 :: rest.1, rest.2)

/-- … and keeps that cache across FileSet changes (it is never invalidated) -/
def resolveSeqStale (cache : Option (Nat × FileSpec)) : List (FileSetSpec × List Nat) → List Orig
  | [] => []
  | (fs, ps) :: tl =>
    let r := stalePosList fs cache ps
    r.1 ++ resolveSeqStale r.2 tl

/-! ### mappings of JavaScript sources (prelude, .inc.js) -/

/-- a decoded mapping of an isolated JS file as produced by `sourcemap.Map.DecodedMappings`
    (generated line 1-based, generated column 0-based), original side kept opaque. -/
structure JSMapping where
  genLine : Nat
  genColumn : Nat
  orig : String
  deriving DecidableEq, Repr

/-- filter.go:174-200 `defaultJSMappingCallback`, the position arithmetic:
    `if isolated.GeneratedLine == 1 { col += f.column }; isolated.GeneratedLine += f.line`
    (generated lines of decoded mappings are 1-based; before the repair C19-js-first-line-column the test was
    `== 0` and never fired, see "repaired defects" in GV.Props.C19). -/
def offsetJS (st : St) (m : JSMapping) : JSMapping :=
  let col := if m.genLine = 1 then m.genColumn + st.column else m.genColumn
  { m with genLine := m.genLine + st.line, genColumn := col }

/-! ### the output buffer of a function context (compiler/utils.go:44-118) -/

/-- the fields of `funcContext` / `pkgContext` that the output path touches -/
structure Ctx where
  output : Bytes
  delayed : Bytes
  posAvail : Bool
  pos : Nat
  indent : Nat
  deriving Repr

/-- utils.go:71-82 `writePos`, with `pack : token.Pos → payload` (Hint.Pack) as a parameter.
    The hint goes through `fc.Write`, whose own `writePos` finds `posAvailable` already false. -/
def Ctx.writePos (pack : Nat → Bytes) (c : Ctx) : Ctx :=
  if c.posAvail then { c with posAvail := false, output := c.output ++ enc (pack c.pos) } else c

/-- utils.go:44-48 `Write` -/
def Ctx.write (pack : Nat → Bytes) (c : Ctx) (b : Bytes) : Ctx :=
  let c := c.writePos pack
  { c with output := c.output ++ b }

/-- utils.go:66-69 `SetPos` -/
def Ctx.setPos (c : Ctx) (p : Nat) : Ctx := { c with posAvail := true, pos := p }

/-- utils.go:50-56 `Printf("%s", s)`: indentation, text, newline, delayed output; `fmt.Fprintf` with the
    single verb `%s` issues exactly one `Write` of the text. -/
def Ctx.printf (pack : Nat → Bytes) (c : Ctx) (s : Bytes) : Ctx :=
  let c := c.write pack (List.replicate c.indent 9)
  let c := c.write pack s
  let c := c.write pack [nl]
  let c := c.write pack c.delayed
  { c with delayed := [] }

/-- scripts driving a context; `catch k body` = `CatchOutput(k, body)` whose result is kept as a capture,
    `use j` = `Write(capture j)`. -/
inductive Op where
  | setPos (p : Nat)
  | write (b : Bytes)
  | printf (b : Bytes)
  | use (j : Nat)
  | indented (body : List Op)
  | catch (k : Nat) (body : List Op)
  | delayed (body : List Op)

mutual
/-- one operation; the captures list grows at the START of a `catch` (slot reserved, filled at its end). -/
def Ctx.step (pack : Nat → Bytes) (c : Ctx) (caps : List Bytes) : Op → Ctx × List Bytes
  | .setPos p => (c.setPos p, caps)
  | .write b => (c.write pack b, caps)
  | .printf b => (c.printf pack b, caps)
  | .use j => (match caps[j]? with | some b => c.write pack b | none => c, caps)
  | .indented body =>                                   -- utils.go:86-90
    let (c1, caps1) := Ctx.run pack { c with indent := c.indent + 1 } caps body
    ({ c1 with indent := c1.indent - 1 }, caps1)
  | .catch k body =>                                    -- utils.go:99-109
    let idx := caps.length
    let (c1, caps1) := Ctx.run pack { c with output := [], indent := c.indent + k } (caps ++ [[]]) body
    let c2 := c1.writePos pack
    ({ c2 with output := c.output, indent := c2.indent - k }, caps1.set idx c2.output)
  | .delayed body =>                                    -- utils.go:111-113 (CatchOutput(0, f) into delayedOutput)
    let (c1, caps1) := Ctx.run pack { c with output := [] } caps body
    let c2 := c1.writePos pack
    ({ c2 with output := c.output, delayed := c2.output }, caps1)
def Ctx.run (pack : Nat → Bytes) (c : Ctx) (caps : List Bytes) : List Op → Ctx × List Bytes
  | [] => (c, caps)
  | op :: tl =>
    let (c1, caps1) := Ctx.step pack c caps op
    Ctx.run pack c1 caps1 tl
end

def Ctx.empty : Ctx := ⟨[], [], false, 0, 0⟩

end GV.SrcMap
