/-
  GV.Model.Inst — executable model of GopherJS's whole-program collection of generic instances
  (compiler/internal/typeparams/{collect.go,instance.go,map.go,resolver.go,utils.go}).

  An abstract program is a table of *definitions* (generic functions, methods of generic types, generic named
  types, types declared inside generic functions).  Each definition carries the identifiers that the AST walk of
  its declaration visits, in walk order, reduced to the two kinds the visitor reacts to:
    * `use c τ inScope`  — `info.Instances[ident]`: an instantiation of the generic object `c` with the type
                            argument terms `τ` (terms over the type parameters of the definition being walked and
                            of its nesting function); `inScope` is `obj.Parent().Contains(ident.Pos())`;
    * `decl c`           — `info.Defs[ident]` is the `*types.TypeName` of a non-generic named type (a type
                            declared inside a generic function).
  Non-generic code contributes the seed identifiers.

  Types are first-order terms.  Argument lists inside a term are encoded with `tnil`/`tcons`, so that `Ty` is an
  ordinary (non-nested) inductive type; `types.Identical` on closed terms is structural equality.
-/
namespace GV.Inst

/-- type terms -/
inductive Ty where
  | basic (b : Nat)                          -- int, string, uint8, …
  | own (i : Nat)                            -- i-th type parameter of the definition being scanned (`Resolver.tParams`)
  | nest (i : Nat)                           -- i-th type parameter of its nesting function (`Resolver.nestTParams`)
  | free (i : Nat)                           -- a type parameter bound by neither (parameter of a local generic type met while walking the enclosing function)
  | slice (t : Ty)
  | ptr (t : Ty)
  | chan (t : Ty)
  | map (k v : Ty)
  | named (o : Nat) (args : Ty)              -- package-level named type `o` with type arguments `args`
  | con (g : Nat) (args : Ty)                -- unnamed composite type with ATTRIBUTES: `g` encodes the constructor and everything that is
                                             -- part of its identity besides the component types (channel direction, array length,
                                             -- variadic / number of parameters, struct field names, tags, embeddedness); `args` = components
  | lnamed (o : Nat) (args : Ty) (nu : Ty)   -- named type declared inside a generic function: its Go identity includes the
                                             -- type arguments `nu` of the enclosing function instance
  | tnil
  | tcons (hd tl : Ty)
deriving DecidableEq, Repr, Inhabited

/-- an instance: `typeparams.Instance{Object, TArgs, TNest}` (instance.go:16-25) -/
structure Inst where
  obj : Nat
  nest : List Ty
  args : List Ty
deriving DecidableEq, Repr, Inhabited

/-- what the visitor reacts to (collect.go:33-47) -/
inductive Event where
  | use (callee : Nat) (args : List Ty) (inScope : Bool)
  | decl (c : Nat)
deriving DecidableEq, Repr, Inhabited

/-- one entry of the object table -/
structure Def where
  pkg : Nat                 -- package of the object = index of its import path in sorted order
  isSig : Bool              -- `Object.Type()` is a `*types.Signature` (function or method) rather than a `*types.Named`
  hasNode : Bool            -- `objMap` has the declaring node (generic FuncDecl / TypeSpec, collect.go:151-172)
  mentions : Bool           -- (local types) the underlying type mentions a type parameter of the nesting function
  methods : List Nat        -- (named types) `t.Method(i).Origin()` in order
  events : List Event       -- identifiers below the declaring node in walk order
deriving Repr, Inhabited

structure Prog where
  defs : Nat → Def
  seeds : List Event        -- identifiers of the non-generic code of all packages, in `Scan` order

/-! ### substitution and genericity, as the code computes them -/

/-- `Resolver.Substitute` → `subst.typ` (resolver.go:150-155, govendor/subst/subst.go:88-165, 313-440).
    The subster is created with `origin = nil` (export.go:26), so `declaredWithin` is always false and a type declared
    inside a generic function is never re-created per instantiation: only its explicit type arguments are
    substituted.  go/types' `*Named` for such a type does not carry the nesting arguments at all, which the model
    renders by erasing `nu`. -/
def Ty.substC (N θ : List Ty) : Ty → Ty
  | .basic b => .basic b
  | .own i => (θ[i]?).getD (.own i)
  | .nest i => (N[i]?).getD (.nest i)
  | .free i => .free i
  | .slice t => .slice (substC N θ t)
  | .ptr t => .ptr (substC N θ t)
  | .chan t => .chan (substC N θ t)
  | .map k v => .map (substC N θ k) (substC N θ v)
  | .named o a => .named o (substC N θ a)
  | .con g a => .con g (substC N θ a)          -- subst.go:105-147: rebuilt with the SAME direction / length / variadicity / fields
  | .lnamed o a _ => .lnamed o (substC N θ a) .tnil
  | .tnil => .tnil
  | .tcons h t => .tcons (substC N θ h) (substC N θ t)

/-- `isGeneric` (utils.go:107-183) on one type: a type parameter is still present.  For a named type the type
    arguments are searched and then the underlying type, with the type's own parameters "managed"; the underlying type
    of a package-level type mentions nothing else, the one of a type declared in a generic function may mention the
    function's parameters (`mentions`). -/
def Ty.genericC (mentions : Nat → Bool) : Ty → Bool
  | .basic _ => false
  | .own _ => true
  | .nest _ => true
  | .free _ => true
  | .slice t => genericC mentions t
  | .ptr t => genericC mentions t
  | .chan t => genericC mentions t
  | .map k v => genericC mentions k || genericC mentions v
  | .named _ a => genericC mentions a
  | .con _ a => genericC mentions a
  | .lnamed o a _ => genericC mentions a || mentions o
  | .tnil => false
  | .tcons h t => genericC mentions h || genericC mentions t

def Prog.mentions (P : Prog) (o : Nat) : Bool := (P.defs o).mentions

def Prog.pkgOf (P : Prog) (i : Inst) : Nat := (P.defs i.obj).pkg

/-- `visitor.addInstance` (collect.go:101-127): nothing when a type argument is still generic, else the instance
    followed by the methods of the named type with the same arguments. -/
def instancesOf (P : Prog) (obj : Nat) (args nest : List Ty) : List Inst :=
  if args.any (Ty.genericC P.mentions) then []
  else ⟨obj, nest, args⟩ :: (P.defs obj).methods.map (fun m => ⟨m, nest, args⟩)

/-- the visitor's fields (collect.go:16-23): the resolver's replacement lists, `nestTArgs`, and whether there is a
    resolver at all (none while seeding from non-generic code). -/
structure Ctx where
  N : List Ty
  θ : List Ty
  nestTArgs : List Ty
  hasResolver : Bool

/-- `visitIdent` (collect.go:33-47) = `visitInstance` (49-77) / `visitNestedType` (79-99) -/
def visit (P : Prog) (c : Ctx) : Event → List Inst
  | .use callee τ inScope =>
    instancesOf P callee (if c.hasResolver then τ.map (Ty.substC c.N c.θ) else τ) (if inScope then c.nestTArgs else [])
  | .decl d =>
    if c.hasResolver && c.θ.length > 0 then instancesOf P d [] c.θ else []

def seedCtx : Ctx := ⟨[], [], [], false⟩

/-- `scanSignature` / `scanNamed` (collect.go:259-299): the instances handed to `Add` while the declaration of
    `i.obj` is walked with the resolver of `i`, in order.  For a function or method the resolver has no nesting
    replacements (`NewResolver`, resolver.go:57-70) and `nestTArgs = inst.TArgs`; for a named type the nesting
    replacements and `nestTArgs` are `inst.TNest`; a named type without a node (non-generic local type) is skipped. -/
def discover (P : Prog) (i : Inst) : List Inst :=
  let d := P.defs i.obj
  if d.isSig then d.events.flatMap (visit P ⟨[], i.args, i.args, true⟩)
  else if d.hasNode then d.events.flatMap (visit P ⟨i.nest, i.args, i.nest, true⟩)
  else []

/-! ### instance sets -/

/-- `PackageInstanceSets` (instance.go:246-285): per package the instances in discovery order (`InstanceSet.values`,
    the id of an instance is its index, instance.go:152-160) and the cursor `unprocessed`; `keys` are the packages
    that have a set. -/
structure St where
  keys : List Nat
  insts : Nat → List Inst
  cur : Nat → Nat

def St.empty : St := ⟨[], fun _ => [], fun _ => 0⟩

/-- `PackageInstanceSets.Add` → `InstanceSet.Add` (instance.go:273-279, 152-162); `seen.Has` (map.go:38-72) compares the
    object by identity and both argument lists with `types.Identical`, i.e. structurally on closed terms. -/
def add (P : Prog) (s : St) (i : Inst) : St :=
  let p := P.pkgOf i
  if i ∈ s.insts p then s
  else
    { keys := if p ∈ s.keys then s.keys else s.keys ++ [p]
      insts := fun q => if q = p then s.insts p ++ [i] else s.insts q
      cur := s.cur }

def addAll (P : Prog) (s : St) (l : List Inst) : St := l.foldl (add P) s

/-- `InstanceSet.ID` (instance.go:189-195) -/
def idOf (P : Prog) (s : St) (i : Inst) : Option Nat :=
  let l := s.insts (P.pkgOf i)
  if i ∈ l then some (l.idxOf i) else none

def St.mem (P : Prog) (s : St) (i : Inst) : Prop := i ∈ s.insts (P.pkgOf i)

instance (P : Prog) (s : St) (i : Inst) : Decidable (s.mem P i) := by unfold St.mem; exact inferInstance

/-- `Collector.propagate` (collect.go:244-257): take instances of package `p` from the cursor until the set is
    exhausted (or the fuel is). -/
def propagate (P : Prog) : Nat → St → Nat → St
  | 0, s, _ => s
  | fuel + 1, s, p =>
    match (s.insts p)[s.cur p]? with
    | none => s
    | some i =>
      let s1 : St := { s with cur := fun q => if q = p then s.cur p + 1 else s.cur q }
      propagate P fuel (addAll P s1 (discover P i)) p

/-- `PackageInstanceSets.allExhausted` (instance.go:252-259) -/
def allExhausted (s : St) : Bool := s.keys.all (fun p => (s.insts p).length ≤ s.cur p)

/-- `Collector.Finish` (collect.go:224-242) with the order in which the packages are visited in each round as a
    parameter (applied to the current key list). -/
def finishWith (P : Prog) (order : List Nat → List Nat) : Nat → St → St
  | 0, s => s
  | fuel + 1, s =>
    if allExhausted s then s
    else finishWith P order fuel ((order s.keys).foldl (fun acc p => propagate P (fuel + 1) acc p) s)

/-- `Collector.Scan` over all packages (collect.go:197-222): seeds from non-generic code -/
def seedState (P : Prog) : St := addAll P St.empty (P.seeds.flatMap (visit P seedCtx))

/-- `Scan`* ; `Finish` — `none` when the fuel did not suffice to exhaust all sets. -/
def collectWith (P : Prog) (order : List Nat → List Nat) (fuel : Nat) : Option St :=
  let s := finishWith P order fuel (seedState P)
  if allExhausted s then some s else none

/-- the order of the code after the repair: `sort.Strings(pkgPaths)` (packages are numbered in path order) -/
def sortedOrder (ks : List Nat) : List Nat := ks.mergeSort (fun a b => decide (a ≤ b))

def collect (P : Prog) (fuel : Nat) : Option St := collectWith P sortedOrder fuel

end GV.Inst
