/-
  GV.Model.RetDefer — deferred calls and the blocking `return` protocol of a resumable function (core Lean only).
  A layer on top of `GV.Model.Flat`: the body of the function is flattened MiniGo; this file models what happens from
  the moment a `return` statement is reached in a function that has deferred calls which may suspend.

  What the code does (`compiler/statements.go:327-369`, `compiler/functions.go:313-339`, `prelude/goroutines.js:11-110`):
    * `defer f(args)` pushes `[f, args]` on the frame's `$deferred` array (statements.go:371-373);
    * a `return e` marked Blocking (some deferred call may block, `analysis/defer.go`, `return.go`) is emitted as
        `$24r = e; $s = n; case n: return $24r;`     (`rVar := fc.newLocalVariable("$r")`, statements.go:355-368)
      inside `try { … } finally { $callDeferred($deferred, $err); [if (!$curGoroutine.asleep) { return <named results>; }]
      if ($curGoroutine.asleep) { var $f = {…}; return $f; } }`;
    * `$callDeferred` pops and calls the deferred calls LIFO; when one returns a suspended frame `r` it pushes
      `[r.$blk, [], r]` back and returns with the goroutine asleep; the function saves its frame (with `$s = n`, `$24r`
      and `$deferred`) and returns it;
    * on resumption the function is re-entered through `switch ($s)` at `case n:`, i.e. the `return` statement is
      EXECUTED AGAIN (issue #603), the `finally` block runs `$callDeferred` again, which resumes the pushed-back entry.
  The value the function finally returns is the value of the LAST execution of the `return` statement (unnamed results)
  or the named result variables read after the last deferred call (named results).

  `cache = true` is the real code; `cache = false` is the scheme "re-evaluate the result expression on resumption"
  (no `$24r` temporary), kept to state precisely why the temporary is needed.
-/
namespace GV.RetDefer

/-- interpretation of the opaque parts: total effect of a deferred call run to completion, and the result
    expression of the `return` statement as a function of the store -/
structure DEnv (σ V : Type) where
  dcall : Nat → σ → σ
  retv : σ → V

/-- an entry of `$deferred`: `[f, args]` not yet started, or `[r.$blk, [], r]` — a suspended deferred call that will
    suspend `m` more times before completing -/
inductive DEntry where
  | fresh (d : Nat)
  | susp (d : Nat) (m : Nat)
  deriving Repr, DecidableEq, Inhabited

/-- Go: deferred calls run in LIFO order (the list is the stack, top first) -/
def goDefers (E : DEnv σ V) : List Nat → σ → σ
  | [], st => st
  | d :: ds, st => goDefers E ds (E.dcall d st)

/-- Go specification of `return e` with pending deferred calls `ds`: unnamed results are fixed when the `return`
    statement executes; named results are read after the deferred calls ran. -/
def goReturn (E : DEnv σ V) (named : Bool) (ds : List Nat) (st : σ) : V × σ :=
  let st' := goDefers E ds st
  (if named then E.retv st' else E.retv st, st')

/-- one run of `$callDeferred` (goroutines.js:39-87): pops entries until the array is empty or a call suspends.
    `CallDef st entries k (st', entries', asleep, k')`; `k` = index of the next dynamic deferred call for the schedule. -/
inductive CallDef (E : DEnv σ V) (sched : Nat → Nat → σ → Nat) :
    σ → List DEntry → Nat → σ × List DEntry × Bool × Nat → Prop where
  | done : CallDef E sched st [] k (st, [], false, k)
  | freshNow : sched k d st = 0 → CallDef E sched (E.dcall d st) ds (k + 1) r →
      CallDef E sched st (.fresh d :: ds) k r
  | freshSusp : sched k d st = m + 1 →
      CallDef E sched st (.fresh d :: ds) k (st, .susp d m :: ds, true, k + 1)
  | resumeNow : CallDef E sched (E.dcall d st) ds k r → CallDef E sched st (.susp d 0 :: ds) k r
  | resumeMore : CallDef E sched st (.susp d (m + 1) :: ds) k (st, .susp d m :: ds, true, k)

/-- the `return` statement that is (re-)executed at the head of every segment -/
inductive RetKind (V : Type) where
  /-- real code: `$24r = e; $s = n; case n: return $24r;` — the cached value `c` (statements.go:355-368) -/
  | cached (c : V)
  /-- the scheme without temporary: `$s = n; case n: return e;` re-evaluates `e` in the current store -/
  | reeval
  /-- a recovered panic in a function with unnamed results (functions.go:316-323): the first segment is
      `catch(err) { $err = err; $s = -1; return <zero>; }`; on resumption `$s = -1` matches no case and the function
      falls to `} return; }`, i.e. returns `undefined` (`u`) -/
  | panicZero (z u : V)

/-- value produced by one execution of the return statement (`first` = the first segment) -/
def retNow (E : DEnv σ V) : RetKind V → Bool → σ → V
  | .cached c, _, _ => c
  | .reeval, _, st => E.retv st
  | .panicZero z u, first, _ => if first then z else u

/-- The function from the first execution of the blocking `return` on: each segment executes the return statement, then
    the `finally` block; a suspension saves and restores the frame (`forget`) and re-enters through `switch ($s)`.
    With named results the `finally` block ends in `if (!$curGoroutine.asleep) { return <named results>; }`. -/
inductive RunRet (E : DEnv σ V) (forget : σ → σ) (sched : Nat → Nat → σ → Nat) (kind : RetKind V) (named : Bool) :
    σ → List DEntry → Nat → Bool → V × σ → Prop where
  | finish : CallDef E sched st es k (st', [], false, k') →
      RunRet E forget sched kind named st es k first
        (if named then E.retv st' else retNow E kind first st, st')
  | suspend : CallDef E sched st es k (st', es', true, k') →
      RunRet E forget sched kind named (forget st') es' k' false r →
      RunRet E forget sched kind named st es k first r

/-- fuel-indexed executable `$callDeferred` (driver); also counts suspensions -/
def callDefF (E : DEnv σ V) (sched : Nat → Nat → σ → Nat) : Nat → σ → List DEntry → Nat → Option (σ × List DEntry × Bool × Nat)
  | 0, _, _, _ => none
  | _ + 1, st, [], k => some (st, [], false, k)
  | fuel + 1, st, .fresh d :: ds, k =>
    match sched k d st with
    | 0 => callDefF E sched fuel (E.dcall d st) ds (k + 1)
    | m + 1 => some (st, .susp d m :: ds, true, k + 1)
  | fuel + 1, st, .susp d 0 :: ds, k => callDefF E sched fuel (E.dcall d st) ds k
  | _ + 1, st, .susp d (m + 1) :: ds, k => some (st, .susp d m :: ds, true, k)

/-- fuel-indexed executable `RunRet`; returns (value, store, number of suspensions) -/
def runRetF (E : DEnv σ V) (forget : σ → σ) (sched : Nat → Nat → σ → Nat) (kind : RetKind V) (named : Bool) :
    Nat → σ → List DEntry → Nat → Bool → Nat → Option (V × σ × Nat)
  | 0, _, _, _, _, _ => none
  | fuel + 1, st, es, k, first, ns =>
    match callDefF E sched (fuel + 1) st es k with
    | none => none
    | some (st', _, false, _) => some (if named then E.retv st' else retNow E kind first st, st', ns)
    | some (st', es', true, k') => runRetF E forget sched kind named fuel (forget st') es' k' false (ns + 1)

end GV.RetDefer

namespace GV.RetDefer

/-! ### Unwinding a suspended goroutine through SEVERAL frames with pending defers

  When the goroutine is asleep every frame on the call path returns its saved frame `$f` to its caller.  A frame with
  `defer` statements leaves through `finally { $callDeferred($deferred, $err); if ($curGoroutine.asleep) { save } }`
  (functions.go:313-330).  `$callDeferred` first checks that the frame's `$deferred` list is still on the goroutine's
  `deferStack` (goroutines.js:12-14; if a panic already ran and popped it, the function must keep unwinding:
  `throw jsErr`), then returns at once because the goroutine is asleep (goroutines.js:25-27): nothing is run or popped,
  the frame is saved WITH its `$deferred` list, and the deferStack — state of the goroutine, not of a frame — is
  unchanged.  Callees that hold pending defers of their own sit ABOVE the frame's list on the deferStack. -/

/-- the guard of the real code: the list is anywhere on the deferStack (`indexOf(deferred) != -1`) -/
def guardAnywhere (stack : List Nat) (d : Nat) : Bool := stack.contains d

/-- the guard "the list is the TOP of the deferStack" (the stack is written top first) -/
def guardTop (stack : List Nat) (d : Nat) : Bool := stack.head? == some d

/-- frames on the unwinding path, innermost first; `some d` = the frame has pending defers in list `d`.
    Result: number of frames saved, or `none` = a frame threw `jsErr` (= null) instead of saving itself. -/
def unwind (guard : List Nat → Nat → Bool) (stack : List Nat) : List (Option Nat) → Option Nat
  | [] => some 0
  | none :: fs => (unwind guard stack fs).map (· + 1)
  | some d :: fs => if guard stack d then (unwind guard stack fs).map (· + 1) else none

end GV.RetDefer
