/-
  GV.Model.GoMap — the JS `Map` that represents a Go map, and the operations the compiler emits on it.

  * `JMap`: ECMAScript `Map` (ECMA-262 24.1): a list of slots in insertion order; deleting a key empties
    its slot (the slot is never reused), `set` of a present key overwrites in place, `set` of a new key
    appends. A key iterator is an index into the slot list and is *live*: it sees later appends and skips
    emptied slots; once it has reported `done` it stays done.
  * Emitted operations (entries are `{k, v}` objects stored under `keyFor(k)`):
      literal      `$makeMap(K.keyFor, [{k,v},…])`                      expressions.go:166-172, types.js:626-633
      index        `(_entry = $mapIndex(m, K.keyFor(k)), _entry !== undefined ? _entry.v : zero)`
                                                                         expressions.go:508-528, prelude.js:109-112
      store        `_key = k; (m || $throwRuntimeError("assignment to entry in nil map")).set(K.keyFor(_key), {k:_key, v})`
                                                                         statements.go:703-719
      delete       `$mapDelete(m, K.keyFor(k))`                          expressions.go:1035-1043, prelude.js:113-116
      len          `(m ? m.size : 0)`                                    expressions.go:1008-1009
      make         `new $global.Map()`                                   expressions.go:982-986
      range        statements.go:211-236
  Core Lean only.
-/
import GV.Model.MapKey

namespace GV.GoMap
open GV.MapKey

/-- the `{k, v}` object -/
abbrev Entry := KVal × Int

/-- slots in insertion order; `none` = emptied by `delete` -/
abbrev JMap := List (Option (JKey × Entry))

namespace JMap

def get : JMap → JKey → Option Entry
  | [], _ => none
  | none :: m, k => get m k
  | some (k', e) :: m, k => if k' = k then some e else get m k

def set : JMap → JKey → Entry → JMap
  | [], k, e => [some (k, e)]
  | none :: m, k, e => none :: set m k e
  | some (k', e') :: m, k, e => if k' = k then some (k, e) :: m else some (k', e') :: set m k e

def delete : JMap → JKey → JMap
  | [], _ => []
  | none :: m, k => none :: delete m k
  | some (k', e') :: m, k => if k' = k then none :: m else some (k', e') :: delete m k

def size : JMap → Nat
  | [] => 0
  | none :: m => size m
  | some _ :: m => size m + 1

/-- live entries in insertion order -/
def live : JMap → List (JKey × Entry)
  | [] => []
  | none :: m => live m
  | some x :: m => x :: live m

/-- first live slot among `m` (whose head has absolute position `p`): its key and the position after it -/
def nextAux : JMap → Nat → Option (JKey × Nat)
  | [], _ => none
  | none :: m, p => nextAux m (p + 1)
  | some (k, _) :: _, p => some (k, p + 1)

/-- `keys.next()`: iterator state `some i` = next slot to look at, `none` = done for good.
    Returns `.value` (`none` = `undefined`) and the new iterator state. -/
def next (m : JMap) : Option Nat → Option JKey × Option Nat
  | none => (none, none)
  | some i => match nextAux (m.drop i) i with
    | some (k, p) => (some k, some p)
    | none => (none, none)

end JMap

/-- a Go map variable: `none` = nil map (JS `false`), together with the prelude's key state -/
structure MSt where
  m : Option JMap
  st : KSt

def MSt.init : MSt := ⟨none, KSt.init⟩

/-- `$makeMap` (types.js:626-633) -/
def makeMap (fs : Int → Str) : List Entry → JMap → KSt → JMap × KSt
  | [], m, st => (m, st)
  | e :: es, m, st =>
    let r := keyFor fs e.1 st
    makeMap fs es (m.set r.1 e) r.2

def outOfEntry : Option Entry → Int
  | some e => e.2
  | none => 0

/-- one emitted map operation -/
def step (fs : Int → Str) (s : MSt) : Op → MSt × Out
  | .store k v =>
    match s.m with
    | none => (s, .panicNilMap)                      -- `(m || $throwRuntimeError(…))` comes before `keyFor`
    | some jm =>
      let r := keyFor fs k s.st
      (⟨some (jm.set r.1 (k, v)), r.2⟩, .unit)
  | .delete k =>
    let r := keyFor fs k s.st
    (⟨s.m.map (·.delete r.1), r.2⟩, .unit)
  | .index k =>
    let r := keyFor fs k s.st
    (⟨s.m, r.2⟩, .val (outOfEntry (s.m.bind (·.get r.1))))
  | .commaOk k =>
    let r := keyFor fs k s.st
    (⟨s.m, r.2⟩, match s.m.bind (·.get r.1) with
      | some e => .valOk e.2 true
      | none => .valOk 0 false)
  | .len => (s, .len (match s.m with | some jm => jm.size | none => 0))
  | .make => (⟨some [], s.st⟩, .unit)
  | .setNil => (⟨none, s.st⟩, .unit)
  | .literal es =>
    let r := makeMap fs es [] s.st
    (⟨some r.1, r.2⟩, .unit)
  | .unhashable => (s, .panicUnhashable)             -- `c.keyFor` is undefined for slice/map/func types: the call throws

def run (fs : Int → Str) : MSt → List Op → List Out
  | _, [] => []
  | s, o :: os => let r := step fs s o; r.2 :: run fs r.1 os

/-! ### `for k, v := range m { body }` (statements.go:211-236) -/

/-- what a loop body may do to the map being ranged over -/
inductive Mut
  | store (k : KVal) (v : Int)
  | delete (k : KVal)

/-- a loop body: from the entry and its own state, the mutations it performs (in order) and its new state -/
abbrev Body (σ : Type) := Entry → σ → List Mut × σ

def applyMut (fs : Int → Str) (ms : JMap × KSt) : Mut → JMap × KSt
  | .store k v => let r := keyFor fs k ms.2; (ms.1.set r.1 (k, v), r.2)
  | .delete k => let r := keyFor fs k ms.2; (ms.1.delete r.1, r.2)

structure LoopSt (σ : Type) where
  jm : JMap
  /-- `_keys` -/
  it : Option Nat
  st : KSt
  user : σ
  /-- slot position and entry of every visit, in order -/
  visited : List (Nat × Entry)

/-- `n` = `_size - _i` iterations remain -/
def rangeLoop {σ : Type} (fs : Int → Str) (body : Body σ) : Nat → LoopSt σ → LoopSt σ
  | 0, s => s
  | n + 1, s =>
    let nx := JMap.next s.jm s.it                      -- `_key = _keys.next().value`
    match nx.1.bind (JMap.get s.jm) with               -- `_entry = m.get(_key)`; `m.get(undefined)` is undefined
    | none => rangeLoop fs body n { s with it := nx.2 }  -- `if (_entry === undefined) continue` (post: `_i++`)
    | some e =>
      let b := body e s.user
      let ms := b.1.foldl (applyMut fs) (s.jm, s.st)
      rangeLoop fs body n
        { jm := ms.1, it := nx.2, st := ms.2, user := b.2,
          visited := s.visited ++ [((nx.2.getD 0) - 1, e)] }

/-- the whole statement on a non-nil map: `_keys = m.keys(); _size = m.size` then the loop -/
def range {σ : Type} (fs : Int → Str) (body : Body σ) (jm : JMap) (st : KSt) (u : σ) : LoopSt σ :=
  rangeLoop fs body jm.size { jm := jm, it := some 0, st := st, user := u, visited := [] }

/-! ### binding forms of the range clause -/

/-- which iteration variables the range clause binds: `for k, v :=` | `for k :=`, `for k, _ :=` | `for _, v :=` |
    `for range m`, `for _ = range m`, `for _, _ = range m` -/
inductive RangeForm
  | keyValue
  | keyOnly
  | valueOnly
  | unbound
  deriving DecidableEq, Repr

/-- a loop body that sees only what the clause binds -/
abbrev FBody (σ : Type) := Option KVal → Option Int → σ → List Mut × σ

/-- statements.go:228-233: `if !isBlank(s.Key) { k = _entry.k }`, `if !isBlank(s.Value) { v = _entry.v }` -/
def bindEntry : RangeForm → Entry → Option KVal × Option Int
  | .keyValue, e => (some e.1, some e.2)
  | .keyOnly, e => (some e.1, none)
  | .valueOnly, e => (none, some e.2)
  | .unbound, _ => (none, none)

/-- statements.go:211-236 for a given binding form. The `_keys` iterator, the `_size` snapshot, `_keys.next()`,
    the `get` re-check and its `continue` are emitted for EVERY form; the form only decides which of the two
    assignments from `_entry` follow the re-check. So it is the same walk (`range`) with a body that ignores what is
    not bound. -/
def rangeForm {σ : Type} (fs : Int → Str) (form : RangeForm) (body : FBody σ) (jm : JMap) (st : KSt) (u : σ) : LoopSt σ :=
  range fs (fun e u' => body (bindEntry form e).1 (bindEntry form e).2 u') jm st u

/-- NOT the emitted code — the loop shape of a rejected change, kept to state what is wrong with it: an unbound range
    compiled to a plain counting loop, `for (_i = 0; _i < _size; _i++) { body }`, without key walk and re-check. -/
def seededUnboundLoop {σ : Type} (fs : Int → Str) (body : FBody σ) : Nat → JMap × KSt × σ → JMap × KSt × σ
  | 0, s => s
  | n + 1, (jm, st, u) =>
    let b := body none none u
    let ms := b.1.foldl (applyMut fs) (jm, st)
    seededUnboundLoop fs body n (ms.1, ms.2, b.2)

def seededUnbound {σ : Type} (fs : Int → Str) (body : FBody σ) (jm : JMap) (st : KSt) (u : σ) : JMap × KSt × σ :=
  seededUnboundLoop fs body jm.size (jm, st, u)

end GV.GoMap
