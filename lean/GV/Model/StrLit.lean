/-
  GV.Model.StrLit — string literal emission (compiler/utils.go:810-839 `encodeString`) and the
  ECMAScript reading of the double-quoted literal it produces (ECMA-262 12.9.4: the escapes
  `\b \f \n \r \t \v \" \\` and `\xHH`; every other character stands for itself).
  Go strings are byte lists (each < 256); the emitted literal is a list of ASCII code units.
-/
namespace GV.StrLit

def hexUpper (n : Nat) : Nat := if n < 10 then 48 + n else 55 + n      -- '0'..'9','A'..'F' (`%02X`)

/-- one byte of `encodeString` -/
def encByte (r : Nat) : List Nat :=
  if r = 8 then [92, 98]            -- \b
  else if r = 12 then [92, 102]     -- \f
  else if r = 10 then [92, 110]     -- \n
  else if r = 13 then [92, 114]     -- \r
  else if r = 9 then [92, 116]      -- \t
  else if r = 11 then [92, 118]     -- \v
  else if r = 34 then [92, 34]      -- \"
  else if r = 92 then [92, 92]      -- \\
  else if r < 0x20 ∨ r > 0x7E then [92, 120, hexUpper (r / 16), hexUpper (r % 16)]   -- \xHH
  else [r]

def encBody (s : List Nat) : List Nat := (s.map encByte).flatten

/-- `encodeString`: the body between two `"` -/
def encodeString (s : List Nat) : List Nat := [34] ++ encBody s ++ [34]

def hexVal (c : Nat) : Option Nat :=
  if 48 ≤ c ∧ c ≤ 57 then some (c - 48)
  else if 65 ≤ c ∧ c ≤ 70 then some (c - 55)
  else if 97 ≤ c ∧ c ≤ 102 then some (c - 87)
  else none

/-- ECMAScript: string value of the characters after the opening quote, up to the closing quote.
    `none` = not a well-formed literal of the fragment (unterminated, raw line terminator,
    unsupported escape, characters after the closing quote). -/
def unescapeBody : List Nat → List Nat → Option (List Nat)
  | [], _ => none                                   -- unterminated
  | 34 :: rest, acc => if rest = [] then some acc.reverse else none
  | 92 :: 120 :: h :: l :: rest, acc =>
    match hexVal h, hexVal l with
    | some a, some b => unescapeBody rest ((a * 16 + b) :: acc)
    | _, _ => none
  | 92 :: c :: rest, acc =>
    if c = 98 then unescapeBody rest (8 :: acc)
    else if c = 102 then unescapeBody rest (12 :: acc)
    else if c = 110 then unescapeBody rest (10 :: acc)
    else if c = 114 then unescapeBody rest (13 :: acc)
    else if c = 116 then unescapeBody rest (9 :: acc)
    else if c = 118 then unescapeBody rest (11 :: acc)
    else if c = 34 then unescapeBody rest (34 :: acc)
    else if c = 92 then unescapeBody rest (92 :: acc)
    else none
  | [92], _ => none
  | c :: rest, acc =>
    if c = 10 ∨ c = 13 then none                    -- raw line terminator inside a literal
    else unescapeBody rest (c :: acc)

def jsStringValue (lit : List Nat) : Option (List Nat) :=
  match lit with
  | 34 :: rest => unescapeBody rest []
  | _ => none

end GV.StrLit
