/-
  GV.Model.Utf8 — transcription of the string helpers of compiler/prelude/prelude.js
  ($decodeRune, $encodeRune, $stringToRunes, $runesToString, $substring, $stringToBytes,
  $bytesToString, $copyString).

  A Go string is a JS string whose UTF-16 code units are the bytes 0..255; it is modelled as
  `List Nat` (every element < 256, a side condition carried by the theorems).
  `str.charCodeAt(i)` past the end is NaN, modelled as `none`: every comparison with NaN is
  false and `c !== c` is true, which is what the `match` arms below encode.
-/
namespace GV.Utf8

abbrev Str := List Nat

/-- `str.charCodeAt(pos)`; `none` = NaN. -/
def charCodeAt (s : Str) (pos : Nat) : Option Nat := s[pos]?

def RuneError : Nat := 0xFFFD

/-- a continuation byte test as written in the prelude: `c !== c || c < 0x80 || 0xC0 <= c` is the *failure*. -/
def contBad (c : Option Nat) : Bool :=
  match c with
  | none => true
  | some c => c < 0x80 || 0xC0 ≤ c

/-- prelude.js `$decodeRune` (lines 239-293) as a function of the four code units it may read
    (`charCodeAt` is pure, so reading them eagerly is the same computation). Returns (rune, width). -/
def decodeCore (c0o c1o c2o c3o : Option Nat) : Nat × Nat :=
  match c0o with
  | none => (RuneError, 1)                         -- c0 < 0x80 false; c0 !== c0 true
  | some c0 =>
    if c0 < 0x80 then (c0, 1)
    else if c0 < 0xC0 then (RuneError, 1)
    else if contBad c1o then (RuneError, 1)
    else
      let c1 := c1o.getD 0
      if c0 < 0xE0 then
        let r := (c0 &&& 0x1F) <<< 6 ||| (c1 &&& 0x3F)
        if r ≤ 0x7F then (RuneError, 1) else (r, 2)
      else if contBad c2o then (RuneError, 1)
      else
        let c2 := c2o.getD 0
        if c0 < 0xF0 then
          let r := (c0 &&& 0x0F) <<< 12 ||| (c1 &&& 0x3F) <<< 6 ||| (c2 &&& 0x3F)
          if r ≤ 0x7FF then (RuneError, 1)
          else if 0xD800 ≤ r && r ≤ 0xDFFF then (RuneError, 1)
          else (r, 3)
        else if contBad c3o then (RuneError, 1)
        else
          let c3 := c3o.getD 0
          if c0 < 0xF8 then
            let r := (c0 &&& 0x07) <<< 18 ||| (c1 &&& 0x3F) <<< 12 ||| (c2 &&& 0x3F) <<< 6 ||| (c3 &&& 0x3F)
            if r ≤ 0xFFFF || 0x10FFFF < r then (RuneError, 1) else (r, 4)
          else (RuneError, 1)

def decodeRune (s : Str) (pos : Nat) : Nat × Nat :=
  decodeCore (charCodeAt s pos) (charCodeAt s (pos + 1)) (charCodeAt s (pos + 2)) (charCodeAt s (pos + 3))

/-- prelude.js `$encodeRune` (lines 295-310). Runes are Go `int32`; modelled on `Int`. -/
def encodeRune (r0 : Int) : Str :=
  let r : Nat :=
    if r0 < 0 || r0 > 0x10FFFF || (0xD800 ≤ r0 && r0 ≤ 0xDFFF) then RuneError else r0.toNat
  if r ≤ 0x7F then [r]
  else if r ≤ 0x7FF then [0xC0 ||| r >>> 6, 0x80 ||| (r &&& 0x3F)]
  else if r ≤ 0xFFFF then [0xE0 ||| r >>> 12, 0x80 ||| (r >>> 6 &&& 0x3F), 0x80 ||| (r &&& 0x3F)]
  else [0xF0 ||| r >>> 18, 0x80 ||| (r >>> 12 &&& 0x3F), 0x80 ||| (r >>> 6 &&& 0x3F), 0x80 ||| (r &&& 0x3F)]

/-- `$stringToRunes`: `for (i = 0; i < str.length; i += rune[1], j++)`. Fuel = length suffices
    because every width is ≥ 1 (proved in Props.C14: `decodeRune_width_pos`). -/
def stringToRunesAux (s : Str) : Nat → Nat → List Nat
  | 0, _ => []
  | fuel + 1, i =>
    if i < s.length then
      let d := decodeRune s i
      d.1 :: stringToRunesAux s fuel (i + d.2)
    else []

def stringToRunes (s : Str) : List Nat := stringToRunesAux s s.length 0

/-- the (index, rune) sequence of `for i, r := range s` (statements.go: range over string
    uses `$decodeRune(s, i)` and `i += rune[1]`). -/
def rangeAux (s : Str) : Nat → Nat → List (Nat × Nat)
  | 0, _ => []
  | fuel + 1, i =>
    if i < s.length then
      let d := decodeRune s i
      (i, d.1) :: rangeAux s fuel (i + d.2)
    else []

def rangeString (s : Str) : List (Nat × Nat) := rangeAux s s.length 0

/-- `$runesToString` -/
def runesToString (rs : List Int) : Str := (rs.map encodeRune).flatten

/-- `$substring(str, low, high)`: `none` = run-time panic "slice bounds out of range". -/
def substring (s : Str) (low high : Int) : Option Str :=
  if low < 0 || high < low || high > s.length then none
  else some ((s.drop low.toNat).take (high.toNat - low.toNat))

/-- `$substring(str, low)` — the two-argument form emitted for `s[low:]`: `high` is `undefined` and (since fix: fc7319c)
    defaults to `str.length`. -/
def substringOpen (s : Str) (low : Int) : Option Str := substring s low s.length

/-- `$copyString(dst, src)` on a destination window of length `dstLen`: returns (n, bytes written). -/
def copyString (dstLen : Nat) (src : Str) : Nat × Str :=
  let n := min src.length dstLen
  (n, src.take n)

/-- `TypedArray.prototype.subarray(lo, hi)` for 0 ≤ lo, hi (clamped to the array) -/
def subarray (a : List Nat) (lo hi : Nat) : List Nat := (a.take hi).drop lo

/-- prelude.js `$bytesToString` (lines 320-329): the loop `for (i = 0; i < length; i += chunk)` appending
    `fromCharCode.apply(subarray(offset + i, offset + min(length, i + chunk)))`; `chunk` = 10000 in the code.
    Fuel bounds the number of iterations. -/
def bytesToStringAux (a : List Nat) (offset length chunk : Nat) : Nat → Nat → List Nat
  | 0, _ => []
  | fuel + 1, i =>
    if i < length then
      subarray a (offset + i) (offset + min length (i + chunk)) ++ bytesToStringAux a offset length chunk fuel (i + chunk)
    else []

def bytesToStringChunk (chunk : Nat) (a : List Nat) (offset length : Nat) : List Nat :=
  if length = 0 then [] else bytesToStringAux a offset length chunk (length + 1) 0

def bytesToString := bytesToStringChunk 10000

/-- `$stringToBytes`: `array[i] = str.charCodeAt(i)` into a Uint8Array (values are bytes already) -/
def stringToBytes (s : Str) : List Nat := s.map (· % 256)

/-- string indexing as emitted by compiler/expressions.go (IndexExpr on a string, non-constant operands):
    `(i < 0 || i >= s.length ? $throwRuntimeError("index out of range") : s.charCodeAt(i))`; `none` = panic -/
def indexString (s : Str) (i : Int) : Option Nat :=
  if i < 0 || i ≥ s.length then none else charCodeAt s i.toNat

/-! ### `string(x)` for an integer operand (compiler/expressions.go `translateConversion`, branch `isString(t)`,
    `case *types.Basic`) -/

/-- the integer kinds a `string(x)` operand can have (after `Underlying()`); `int`, `uint`, `uintptr` are 32 bits wide -/
inductive IntKind | i8 | i16 | i32 | i64 | u8 | u16 | u32 | u64 | int | uint | uintptr
deriving DecidableEq, Repr

/-- typesutil `is64Bit` -/
def IntKind.is64 : IntKind → Bool
  | .i64 | .u64 => true
  | _ => false

/-- the values a variable of the kind can hold -/
def IntKind.holds (k : IntKind) (v : Int) : Bool :=
  match k with
  | .i8 => -128 ≤ v && v ≤ 127
  | .i16 => -32768 ≤ v && v ≤ 32767
  | .i32 | .int => -2147483648 ≤ v && v ≤ 2147483647
  | .i64 => -9223372036854775808 ≤ v && v ≤ 9223372036854775807
  | .u8 => 0 ≤ v && v ≤ 255
  | .u16 => 0 ≤ v && v ≤ 65535
  | .u32 | .uint | .uintptr => 0 ≤ v && v ≤ 4294967295
  | .u64 => 0 ≤ v && v ≤ 18446744073709551615

/-- a 64-bit value is the object `{$high, $low}`: `$low` = the unsigned low word, `$high` = the rest
    (signed for int64, unsigned for uint64) — numeric.js `$Int64` / `$Uint64` constructors -/
def high64 (v : Int) : Int := v / 4294967296
def low64 (v : Int) : Int := v % 4294967296

/-- numeric.js `$flatten64`: `x.$high * 4294967296 + x.$low`. Exact on `Int`; in JS the sum is a double and is
    rounded once the magnitude passes 2^53 — `flatten64_margin` (Props.C14) shows that whenever `$high ≠ 0` the exact
    sum is ≤ -1 or ≥ 2^32, both representable, so the (monotone) rounding cannot move it into the rune range. -/
def flatten64 (hi lo : Int) : Int := hi * 4294967296 + lo

/-- the JS expression handed to `$encodeRune`: `$flatten64(x)` for 64-bit operands, `x` itself otherwise
    (expressions.go: `if is64Bit(et) { value = "$flatten64(%s)" }; if isNumeric(et) { return "$encodeRune(%s)" }`) -/
def convArg (k : IntKind) (v : Int) : Int :=
  if k.is64 then flatten64 (high64 v) (low64 v) else v

/-- `string(x)`, x of integer kind `k` holding `v` -/
def intToString (k : IntKind) (v : Int) : Str := encodeRune (convArg k v)

/-- the code before the repair passed only `x.$low` -/
def convArgOld (k : IntKind) (v : Int) : Int := if k.is64 then low64 v else v

/-- the text emitted for `string(x)` (with the operand's translation written `x`) -/
def convShape (k : IntKind) : String :=
  if k.is64 then "$encodeRune($flatten64(x))" else "$encodeRune(x)"

def IntKind.parse : String → Option IntKind
  | "int8" => some .i8 | "int16" => some .i16 | "int32" => some .i32 | "int64" => some .i64
  | "uint8" => some .u8 | "uint16" => some .u16 | "uint32" => some .u32 | "uint64" => some .u64
  | "int" => some .int | "uint" => some .uint | "uintptr" => some .uintptr
  | _ => none

end GV.Utf8
