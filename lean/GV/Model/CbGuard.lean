/-
  GV.Model.CbGuard — a minimal transcription of the pieces of compiler/prelude/goroutines.js that decide what
  happens when Go code blocks inside a JavaScript callback (`$curGoroutine === $noGoroutine`):

    `$block`        goroutines.js:216-221   the guard: throws "cannot block in JavaScript callback, …"
    `$send`         goroutines.js:229-257   enqueues its `$sendQueue` entry (:244-249) BEFORE calling `$block()` (:250)
    `$recv`         goroutines.js:258-282   enqueues its `$recvQueue` entry (:279) BEFORE calling `$block()` (:280)
    `$schedule`     goroutines.js:200-208   pushes the goroutine object on `$scheduled`
    `$runScheduled` goroutines.js:174-198   `r = $scheduled.shift(); r();`

  One channel is enough for the witness.  Goroutine identities: `none` is `$noGoroutine` (a plain object, NOT a
  function), `some g` a goroutine created by `$go`.  The full channel/scheduler model (with `$select`, `$close`,
  timers) is C03's `GV.Model.Chan`; this file only keeps what the callback guard needs.
-/
namespace GV.CbGuard

abbrev Gid := Option Nat

structure Chan where
  buffer : List Nat
  capacity : Nat
  sendQ : List (Gid × Nat)      -- closures `closed => { …; $schedule(thisGoroutine); return value; }`
  recvQ : List Gid              -- closures `v => { f.value = v; $schedule(thisGoroutine); }`
  closed : Bool
  deriving DecidableEq, Repr

structure St where
  chan : Chan
  cur : Gid                     -- `$curGoroutine`
  scheduled : List Gid          -- `$scheduled`
  asleep : List Nat             -- goroutines whose `.asleep` is true
  awake : Nat                   -- `$awakeGoroutines`
  delivered : List (Gid × Nat)  -- `f.value` of woken receivers
  deriving DecidableEq, Repr

inductive Out where
  | done                        -- the operation completed without blocking
  | value (v : Nat)             -- a receive completed with `[v, true]`
  | zero                        -- a receive on a closed channel: `[zero, false]`
  | blocked                     -- `$block()` put the goroutine to sleep
  | errCannotBlock              -- runtime error "cannot block in JavaScript callback, fix by wrapping code in goroutine"
  | errSendClosed               -- runtime error "send on closed channel"
  | typeErrorNotAFunction       -- `TypeError: r is not a function` inside `$runScheduled`
  | resumed (g : Nat)           -- `$runScheduled` resumed goroutine g
  | idle                        -- `$scheduled` was empty
  deriving DecidableEq, Repr

def init (capacity : Nat) : St :=
  { chan := { buffer := [], capacity := capacity, sendQ := [], recvQ := [], closed := false },
    cur := none, scheduled := [], asleep := [], awake := 0, delivered := [] }

/-- goroutines.js:174-198 the `while ((r = $scheduled.shift()) !== undefined) { r(); … }` loop of `$runScheduled`
    (clock frozen, so the 4 ms break never triggers; resumed goroutines are not followed any further here):
    returns whether `r()` threw `TypeError: r is not a function`, and what is left of the queue. -/
def drain : List Gid → Bool × List Gid
  | [] => (false, [])
  | none :: rest => (true, rest)
  | some _ :: rest => drain rest

/-- goroutines.js:200-208 `$schedule(goroutine)`: `if (goroutine.asleep) { goroutine.asleep = false; $awakeGoroutines++; }
    $scheduled.push(goroutine); if ($curGoroutine === $noGoroutine) { $runScheduled(); }` — `$noGoroutine.asleep` is
    `false` (:124), so it is pushed as it is.  The Boolean says whether the immediate `$runScheduled()` threw. -/
def schedule (s : St) (g : Gid) : Bool × St :=
  let s1 : St :=
    match g with
    | some n =>
      if n ∈ s.asleep then
        { s with asleep := s.asleep.filter (· ≠ n), awake := s.awake + 1, scheduled := s.scheduled ++ [g] }
      else { s with scheduled := s.scheduled ++ [g] }
    | none => { s with scheduled := s.scheduled ++ [none] }
  match s.cur with
  | none => let d := drain s1.scheduled; (d.1, { s1 with scheduled := d.2 })
  | some _ => (false, s1)

/-- goroutines.js:216-221 `$block` -/
def block (s : St) : Out × St :=
  match s.cur with
  | none => (.errCannotBlock, s)
  | some g => (.blocked, { s with asleep := g :: s.asleep, awake := s.awake - 1 })

/-- goroutines.js:229-257 `$send(chan, value)` -/
def send (s : St) (v : Nat) : Out × St :=
  if s.chan.closed then (.errSendClosed, s)
  else
    match s.chan.recvQ with
    | r :: rq =>                                         -- :233-237 `queuedRecv([value, true])`
      let r' := schedule { s with chan := { s.chan with recvQ := rq }, delivered := s.delivered ++ [(r, v)] } r
      (if r'.1 then .typeErrorNotAFunction else .done, r'.2)
    | [] =>
      if s.chan.buffer.length < s.chan.capacity then     -- :238-241
        (.done, { s with chan := { s.chan with buffer := s.chan.buffer ++ [v] } })
      else
        -- :243-249 `chan.$sendQueue.push(closed => {…})` — and only then :250 `$block()`
        block { s with chan := { s.chan with sendQ := s.chan.sendQ ++ [(s.cur, v)] } }

/-- goroutines.js:258-282 `$recv(chan)` -/
def recv (s : St) : Out × St :=
  -- :259-262 `queuedSend = chan.$sendQueue.shift(); if (…) chan.$buffer.push(queuedSend(false));` — the entry calls
  -- `$schedule(thisGoroutine)` before it returns the value; if that throws, the value is never pushed
  let r1 : Bool × St :=
    match s.chan.sendQ with
    | (g, v) :: sq =>
      let r := schedule { s with chan := { s.chan with sendQ := sq } } g
      if r.1 then (true, r.2)
      else (false, { r.2 with chan := { r.2.chan with buffer := r.2.chan.buffer ++ [v] } })
    | [] => (false, s)
  if r1.1 then (.typeErrorNotAFunction, r1.2) else
  let s1 := r1.2
  match s1.chan.buffer with
  | b :: bs => (.value b, { s1 with chan := { s1.chan with buffer := bs } })   -- :263-266
  | [] =>
    if s1.chan.closed then (.zero, s1)                   -- :267-269
    else
      -- :271-279 `chan.$recvQueue.push(queueEntry)` — and only then :280 `$block()`
      block { s1 with chan := { s1.chan with recvQ := s1.chan.recvQ ++ [s1.cur] } }

/-- goroutines.js:182-184 one iteration of `$runScheduled`: `r = $scheduled.shift(); r();` -/
def dequeue (s : St) : Out × St :=
  match s.scheduled with
  | [] => (.idle, s)
  | none :: rest => (.typeErrorNotAFunction, { s with scheduled := rest })   -- `$noGoroutine` is not callable
  | some g :: rest => (.resumed g, { s with scheduled := rest })

/-- events: an operation executed as goroutine `g` (`none` = inside a JavaScript callback); `$curGoroutine` is
    reset to `$noGoroutine` afterwards (goroutines.js:149) -/
inductive Ev where
  | send (g : Gid) (v : Nat)
  | recv (g : Gid)
  | dequeue
  deriving DecidableEq, Repr

def step (s : St) : Ev → Out × St
  | .send g v => let r := send { s with cur := g } v; (r.1, { r.2 with cur := none })
  | .recv g => let r := recv { s with cur := g }; (r.1, { r.2 with cur := none })
  | .dequeue => dequeue s

def run : St → List Ev → List Out × St
  | s, [] => ([], s)
  | s, e :: es => let r := step s e; let rr := run r.2 es; (r.1 :: rr.1, rr.2)

/-- a send would have to block: channel open, no waiting receiver, buffer full -/
abbrev sendBlocks (s : St) : Prop := s.chan.closed = false ∧ s.chan.recvQ = [] ∧ ¬ s.chan.buffer.length < s.chan.capacity

/-- a receive would have to block: nothing queued or buffered, channel open -/
abbrev recvBlocks (s : St) : Prop := s.chan.sendQ = [] ∧ s.chan.buffer = [] ∧ s.chan.closed = false

end GV.CbGuard
