/-
  GV.Model.CbGuard — a minimal transcription of the pieces of compiler/prelude/goroutines.js that decide what
  happens when Go code blocks inside a JavaScript callback (`$curGoroutine === $noGoroutine`):

    `$checkCanBlock` / `$block`   the guard: throws "cannot block in JavaScript callback, …"
    `$send`         checks the guard BEFORE it pushes its `$sendQueue` entry, then `$block()`
    `$recv`         checks the guard BEFORE it pushes its `$recvQueue` entry, then `$block()`
    `$select`       ready cases / default first; checks the guard BEFORE it pushes one entry per case, then `$block()`
    `$schedule`     pushes the goroutine object on `$scheduled` (and runs `$runScheduled` when called from a callback)
    `$runScheduled` `r = $scheduled.shift(); r();`

  (This mirrors the code with fixes/C11-callback-guard.patch applied; before the patch the three operations enqueued
  first and `$block()` checked afterwards — see the section "repaired defects" of GV.Props.C11.)

  One channel is enough.  Goroutine identities: `none` is `$noGoroutine` (a plain object, NOT a function), `some g` a
  goroutine.  Queue entries created by a `$select` carry the id of that select: when one of them fires it removes its
  siblings from the queues (`removeFromQueues`).  The full channel/scheduler model (`$close`, timers, several channels)
  is C03's `GV.Model.Chan`.
-/
namespace GV.CbGuard

abbrev Gid := Option Nat

/-- a `$sendQueue` entry: `closed => { …; $schedule(thisGoroutine); return value; }` -/
structure SendE where
  g : Gid
  v : Nat
  sel : Option Nat
  deriving DecidableEq, Repr

/-- a `$recvQueue` entry: `v => { f.value = v; $schedule(thisGoroutine); }` -/
structure RecvE where
  g : Gid
  sel : Option Nat
  deriving DecidableEq, Repr

structure Chan where
  buffer : List Nat
  capacity : Nat
  sendQ : List SendE
  recvQ : List RecvE
  closed : Bool
  deriving DecidableEq, Repr

structure St where
  chan : Chan
  cur : Gid                     -- `$curGoroutine`
  scheduled : List Gid          -- `$scheduled`
  asleep : List Nat             -- goroutines whose `.asleep` is true
  awake : Nat                   -- `$awakeGoroutines`
  delivered : List (Gid × Nat)  -- `f.value` / `f.selection` of woken receivers
  nextSel : Nat                 -- number of blocking selects so far (identity of their entry groups)
  deriving DecidableEq, Repr

inductive Out where
  | done                        -- the operation completed without blocking
  | value (v : Nat)             -- a receive completed with `[v, true]`
  | zero                        -- a receive on a closed channel: `[zero, false]`
  | selected (i : Nat)          -- `$select` returned `[i]`
  | selectedValue (i v : Nat)   -- `$select` returned `[i, [v, true]]`
  | selectedZero (i : Nat)      -- `$select` returned `[i, [zero, false]]`
  | blocked                     -- `$block()` put the goroutine to sleep
  | errCannotBlock              -- runtime error "cannot block in JavaScript callback, fix by wrapping code in goroutine"
  | errSendClosed               -- runtime error "send on closed channel"
  | typeErrorNotAFunction       -- `TypeError: r is not a function` inside `$runScheduled`
  | resumed (g : Nat)           -- `$runScheduled` resumed goroutine g
  | idle                        -- `$scheduled` was empty
  deriving DecidableEq, Repr

def init (capacity : Nat) : St :=
  { chan := { buffer := [], capacity := capacity, sendQ := [], recvQ := [], closed := false },
    cur := none, scheduled := [], asleep := [], awake := 0, delivered := [], nextSel := 0 }

/-- the `while ((r = $scheduled.shift()) !== undefined) { r(); … }` loop of `$runScheduled` (clock frozen, so the 4 ms
    break never triggers; resumed goroutines are not followed any further here): returns whether `r()` threw
    `TypeError: r is not a function`, and what is left of the queue. -/
def drain : List Gid → Bool × List Gid
  | [] => (false, [])
  | none :: rest => (true, rest)
  | some _ :: rest => drain rest

/-- `$schedule(goroutine)`: `if (goroutine.asleep) { goroutine.asleep = false; $awakeGoroutines++; }
    $scheduled.push(goroutine); if ($curGoroutine === $noGoroutine) { $runScheduled(); }` — `$noGoroutine.asleep` is
    `false`, so it would be pushed as it is.  The Boolean says whether the immediate `$runScheduled()` threw. -/
def schedule (s : St) (g : Gid) : Bool × St :=
  let s1 : St :=
    match g with
    | some n =>
      if n ∈ s.asleep then
        { s with asleep := s.asleep.filter (· ≠ n), awake := s.awake + 1, scheduled := s.scheduled ++ [g] }
      else { s with scheduled := s.scheduled ++ [g] }
    | none => { s with scheduled := s.scheduled ++ [none] }
  match s.cur with
  | none => let d := drain s1.scheduled; (d.1, { s1 with scheduled := d.2 })
  | some _ => (false, s1)

/-- `removeFromQueues()` of a select: drop every entry of that select from both queues -/
def removeSel (c : Chan) (sel : Option Nat) : Chan :=
  match sel with
  | none => c
  | some k => { c with sendQ := c.sendQ.filter (·.sel ≠ some k), recvQ := c.recvQ.filter (·.sel ≠ some k) }

/-- `$checkCanBlock` — the guard -/
def canBlock (s : St) : Bool := s.cur.isSome

/-- `$block` (reached only after `$checkCanBlock` succeeded) -/
def block (s : St) : Out × St :=
  match s.cur with
  | none => (.errCannotBlock, s)
  | some g => (.blocked, { s with asleep := g :: s.asleep, awake := s.awake - 1 })

/-- `$send(chan, value)` -/
def send (s : St) (v : Nat) : Out × St :=
  if s.chan.closed then (.errSendClosed, s)
  else
    match s.chan.recvQ with
    | r :: rq =>                                         -- `queuedRecv([value, true])`
      let r' := schedule { s with chan := removeSel { s.chan with recvQ := rq } r.sel, delivered := s.delivered ++ [(r.g, v)] } r.g
      (if r'.1 then .typeErrorNotAFunction else .done, r'.2)
    | [] =>
      if s.chan.buffer.length < s.chan.capacity then
        (.done, { s with chan := { s.chan with buffer := s.chan.buffer ++ [v] } })
      else if !canBlock s then (.errCannotBlock, s)      -- `$checkCanBlock()` BEFORE the entry is pushed
      else block { s with chan := { s.chan with sendQ := s.chan.sendQ ++ [⟨s.cur, v, none⟩] } }

/-- the first half of `$recv`: `queuedSend = chan.$sendQueue.shift(); if (…) chan.$buffer.push(queuedSend(false));` — the
    entry calls `$schedule(thisGoroutine)` before it returns the value; if that throws, the value is never pushed -/
def pullSender (s : St) : Bool × St :=
  match s.chan.sendQ with
  | e :: sq =>
    let r := schedule { s with chan := removeSel { s.chan with sendQ := sq } e.sel } e.g
    if r.1 then (true, r.2)
    else (false, { r.2 with chan := { r.2.chan with buffer := r.2.chan.buffer ++ [e.v] } })
  | [] => (false, s)

/-- `$recv(chan)` -/
def recv (s : St) : Out × St :=
  let r1 := pullSender s
  if r1.1 then (.typeErrorNotAFunction, r1.2) else
  let s1 := r1.2
  match s1.chan.buffer with
  | b :: bs => (.value b, { s1 with chan := { s1.chan with buffer := bs } })
  | [] =>
    if s1.chan.closed then (.zero, s1)
    else if !canBlock s1 then (.errCannotBlock, s1)      -- `$checkCanBlock()` BEFORE the entry is pushed
    else block { s1 with chan := { s1.chan with recvQ := s1.chan.recvQ ++ [⟨s1.cur, none⟩] } }

/-- the cases of a `$select` on the one channel -/
inductive Case where
  | send (v : Nat)
  | recv
  | dflt
  deriving DecidableEq, Repr

/-- is case `c` ready? (`$select`, first loop) -/
def ready (s : St) : Case → Bool
  | .recv => !s.chan.sendQ.isEmpty || !s.chan.buffer.isEmpty || s.chan.closed
  | .send _ => !s.chan.recvQ.isEmpty || s.chan.buffer.length < s.chan.capacity
  | .dflt => false

def readyIdx (s : St) (cs : List Case) : List Nat :=
  (List.range cs.length).filter (fun i => match cs[i]? with | some c => ready s c | none => false)

def dfltIdx (cs : List Case) : Option Nat :=
  ((List.range cs.length).filter (fun i => cs[i]? == some Case.dflt)).getLast?

/-- the entries a blocking select pushes, in case order -/
def pushEntries (c : Chan) (g : Gid) (k : Nat) : List Case → Chan
  | [] => c
  | .send v :: r => pushEntries { c with sendQ := c.sendQ ++ [⟨g, v, some k⟩] } g k r
  | .recv :: r => pushEntries { c with recvQ := c.recvQ ++ [⟨g, some k⟩] } g k r
  | .dflt :: r => pushEntries c g k r

/-- `$select`, first loop: a send case on a closed channel throws at once -/
def sendOnClosed (s : St) (cs : List Case) : Bool :=
  s.chan.closed && cs.any (fun c => match c with | .send _ => true | _ => false)

/-- the case `$select` proceeds with, if any: a ready one — `pick` stands for `Math.random()`, the chosen ready case is
    `ready[⌊(2·pick+1)·n / 24⌋]` — or else the default -/
def choose (s : St) (cs : List Case) (pick : Nat) : Option Nat :=
  let rd := readyIdx s cs
  if rd.isEmpty then dfltIdx cs else rd[((2 * pick + 1) * rd.length) / 24]?

/-- `$select(comms)` -/
def select (s : St) (cs : List Case) (pick : Nat) : Out × St :=
  if sendOnClosed s cs then (.errSendClosed, s)
  else
    match choose s cs pick with
    | some i =>
      match cs[i]? with
      | some (.send v) => let r := send s v; (if r.1 = .done then .selected i else r.1, r.2)
      | some .recv =>
        let r := recv s
        (match r.1 with
          | .value b => .selectedValue i b
          | .zero => .selectedZero i
          | o => o, r.2)
      | _ => (.selected i, s)
    | none =>
      if !canBlock s then (.errCannotBlock, s)           -- `$checkCanBlock()` BEFORE any entry is pushed
      else block { s with chan := pushEntries s.chan s.cur s.nextSel cs, nextSel := s.nextSel + 1 }

/-- one iteration of `$runScheduled`: `r = $scheduled.shift(); r();` -/
def dequeue (s : St) : Out × St :=
  match s.scheduled with
  | [] => (.idle, s)
  | none :: rest => (.typeErrorNotAFunction, { s with scheduled := rest })   -- `$noGoroutine` is not callable
  | some g :: rest => (.resumed g, { s with scheduled := rest })

/-- events: an operation executed as goroutine `g` (`none` = inside a JavaScript callback); `$curGoroutine` is
    reset to `$noGoroutine` afterwards -/
inductive Ev where
  | send (g : Gid) (v : Nat)
  | recv (g : Gid)
  | select (g : Gid) (pick : Nat) (cs : List Case)
  | dequeue
  deriving DecidableEq, Repr

def step (s : St) : Ev → Out × St
  | .send g v => let r := send { s with cur := g } v; (r.1, { r.2 with cur := none })
  | .recv g => let r := recv { s with cur := g }; (r.1, { r.2 with cur := none })
  | .select g pick cs => let r := select { s with cur := g } cs pick; (r.1, { r.2 with cur := none })
  | .dequeue => dequeue s

def run : St → List Ev → List Out × St
  | s, [] => ([], s)
  | s, e :: es => let r := step s e; let rr := run r.2 es; (r.1 :: rr.1, rr.2)

/-! ### the scheme before fixes/C11-callback-guard.patch (kept to state what was wrong) -/

/-- `$send` as it was: the entry is pushed first, `$block()` checks afterwards -/
def sendOld (s : St) (v : Nat) : Out × St :=
  if s.chan.closed then (.errSendClosed, s)
  else
    match s.chan.recvQ with
    | r :: rq =>
      let r' := schedule { s with chan := removeSel { s.chan with recvQ := rq } r.sel, delivered := s.delivered ++ [(r.g, v)] } r.g
      (if r'.1 then .typeErrorNotAFunction else .done, r'.2)
    | [] =>
      if s.chan.buffer.length < s.chan.capacity then
        (.done, { s with chan := { s.chan with buffer := s.chan.buffer ++ [v] } })
      else block { s with chan := { s.chan with sendQ := s.chan.sendQ ++ [⟨s.cur, v, none⟩] } }

end GV.CbGuard
