/-
  GV.Model.C09Receiver — C09, method values: model of `funcContext.makeReceiver` (compiler/expressions.go:946-985) and of
  what `$methodVal(recv, name)` (prelude.js:117-133) binds. Core Lean only.

  A Go heap is a list of values indexed by address (address 0 = nil); struct and array values are tuples, stored inline
  when embedded by value. A receiver operand is an addressable variable or a pointer value; the embedding path to the
  method's receiver is a list of steps, each through a field embedded by value or by pointer.
-/
namespace GV.Recv

inductive V
  | int (n : Int)
  | ptr (a : Nat)          -- 0 = nil
  | tup (fs : List V)      -- struct fields / array elements
deriving Repr, Inhabited

abbrev Heap := List V

def sub : V → List Nat → V
  | v, [] => v
  | .tup fs, i :: r => sub (fs.getD i (.int 0)) r
  | _, _ :: _ => .int 0

structure Loc where
  addr : Nat
  path : List Nat
deriving Repr, DecidableEq

def read (h : Heap) (l : Loc) : V := sub (h.getD l.addr (.int 0)) l.path

inductive Step
  | val (i : Nat)     -- field i, embedded by value
  | ptr (i : Nat)     -- field i, an embedded pointer (dereferenced)
deriving Repr, DecidableEq

inductive Operand
  | var (l : Loc)     -- an addressable variable (or any addressable location)
  | ptr (a : Nat)     -- a pointer value
deriving Repr, DecidableEq

def start : Operand → Option Loc
  | .var l => some l
  | .ptr 0 => none
  | .ptr (a + 1) => some ⟨a + 1, []⟩

/-- evaluation of the selector chain `x.f1.f2…` (implicit dereferences included); `none` = nil pointer dereference -/
def resolve (h : Heap) : Loc → List Step → Option Loc
  | l, [] => some l
  | l, .val i :: r => resolve h ⟨l.addr, l.path ++ [i]⟩ r
  | l, .ptr i :: r =>
    match read h ⟨l.addr, l.path ++ [i]⟩ with
    | .ptr (a + 1) => resolve h ⟨a + 1, []⟩ r
    | _ => none

/-- is the receiver expression (operand + path) of pointer type? (`isPointer` in makeReceiver) -/
def lastIsPtr (op : Operand) (path : List Step) : Bool :=
  match path.getLast? with
  | some (.ptr _) => true
  | some (.val _) => false
  | none => match op with | .ptr _ => true | .var _ => false

/-- the pointer VALUE the receiver expression evaluates to, when it is of pointer type: everything but the last
    dereference is evaluated -/
def resolveToPtr (h : Heap) (op : Operand) (path : List Step) : Option Nat :=
  match path.getLast? with
  | none => match op with | .ptr a => some a | .var _ => none
  | some (.val _) => none
  | some (.ptr i) =>
    (start op).bind fun l0 => (resolve h l0 path.dropLast).bind fun l =>
      match read h ⟨l.addr, l.path ++ [i]⟩ with
      | .ptr a => some a
      | _ => none

/-- kind of the method's receiver base type -/
inductive Kind | struct | array | basic
deriving DecidableEq, Repr

/-- what makeReceiver emits around the receiver expression -/
structure Shape where
  addrOf : Bool     -- `&x` (value operand, pointer receiver)
  clone : Bool      -- `$clone(x, T)`
  wrap : Bool       -- `new T(x)`
deriving DecidableEq, Repr

/-- `makeReceiver` (expressions.go:968-988): `isPointer` = the receiver expression has pointer type,
    `pointerExpected` = the method has a pointer receiver, `k` = kind of the receiver's base type.
    `clone` comes from `translateImplicitConversionWithCloning(x, methodsRecvType)`: it depends on the METHOD's receiver
    type only; `wrap` from `isWrapped(recvType)` where `recvType` ends up a pointer type exactly when the method has a
    pointer receiver (address-of branch / dereference branch). -/
def makeReceiver (isPointer pointerExpected : Bool) (k : Kind) : Shape :=
  { addrOf := !isPointer && pointerExpected,
    clone := !pointerExpected && k != .basic,
    wrap := if pointerExpected then k == .array else k != .struct }

/-- `makeReceiver` BEFORE the repair 28d396a: the dereference branch only re-typed the operand (`recvType` stayed a pointer) -/
def makeReceiverOld (isPointer pointerExpected : Bool) (k : Kind) : Shape :=
  let finalIsPtr := isPointer || pointerExpected
  { addrOf := !isPointer && pointerExpected,
    clone := !pointerExpected && k != .basic,
    wrap := if finalIsPtr then k == .array else k != .struct }

/-- outcome of `f := x.M; …; f()` -/
inductive Out
  | panicAtBind
  | panicAtCall
  | val (n : Int)
deriving DecidableEq, Repr

/-- what `$methodVal` holds -/
inductive Bound
  | copy (v : V)        -- a value of its own (a `$clone`, or a primitive read when the method value was evaluated)
  | ref (l : Loc)       -- the live object
  | ptrval (a : Nat)    -- a pointer object, dereferenced only when the method runs
deriving Repr

/-- evaluation of the receiver expression as emitted, at the time the method value is evaluated (heap `h0`): a pointer
    receiver binds the pointer / the address; a value receiver is read NOW — `$clone(x, T)` for structs and arrays, the
    explicit dereference `p.$get()` (a primitive) otherwise. -/
def jsBind (h0 : Heap) (op : Operand) (path : List Step) (pointerExpected : Bool) (k : Kind) : Option Bound :=
  let isPointer := lastIsPtr op path
  let sh := makeReceiver isPointer pointerExpected k
  if pointerExpected then
    if isPointer then (resolveToPtr h0 op path).map .ptrval
    else ((start op).bind (resolve h0 · path)).map .ref
  else if sh.clone then ((start op).bind (resolve h0 · path)).map fun l => .copy (read h0 l)
  else ((start op).bind (resolve h0 · path)).map fun l => .copy (read h0 l)

/-- BEFORE the repair: a value receiver of a non-struct, non-array type reached through a pointer bound the pointer object
    itself (`$methodVal(p, "Val")`; the forwarding method `new N(this.$get()).Val()` read it at call time) -/
def jsBindOld (h0 : Heap) (op : Operand) (path : List Step) (pointerExpected : Bool) (k : Kind) : Option Bound :=
  let isPointer := lastIsPtr op path
  if !pointerExpected && !(makeReceiverOld isPointer pointerExpected k).clone && isPointer then
    (resolveToPtr h0 op path).map .ptrval
  else jsBind h0 op path pointerExpected k

/-- calling the bound function later (heap `h1`); `body` is the method's result as a function of the receiver value -/
def callBound (body : V → Int) (h1 : Heap) : Option Bound → Out
  | none => .panicAtBind
  | some (.copy v) => .val (body v)
  | some (.ref l) => .val (body (read h1 l))
  | some (.ptrval 0) => .panicAtCall
  | some (.ptrval (a + 1)) => .val (body (read h1 ⟨a + 1, []⟩))

def jsMethodValue (body : V → Int) (h0 h1 : Heap) (op : Operand) (path : List Step) (pointerExpected : Bool) (k : Kind) : Out :=
  callBound body h1 (jsBind h0 op path pointerExpected k)

/-! ### the synthesized forwarding method (types.js `synthesizeMethod`) -/

/-- how an embedded field holds its value in the JS object -/
inductive FieldRep
  | object      -- a struct value or any pointer: an object that carries the methods (`v.$val !== undefined`)
  | native      -- array, integer, slice, …: a JS-native value
deriving DecidableEq, Repr

/-- what the forwarder calls the promoted method on -/
inductive FwdRecv
  | fieldObject        -- the field's object itself
  | wrappedValue       -- `new f.typ(v)`: a value of the field's type (methods of the VALUE method set only)
  | fieldAddress       -- `$ptrType(f.typ)` pointer to the field (`new ptrType(v)` for arrays, cached `$ptr_<field>` otherwise)
deriving DecidableEq, Repr

/-- `synthesizeMethod` (types.js, since 80acc7c): methods taken from the POINTER method set of a native field get the
    field's address (`fieldAddr`) -/
def forwarderRecv (fromPtrSet : Bool) (r : FieldRep) : FwdRecv :=
  match r with
  | .object => .fieldObject
  | .native => if fromPtrSet then .fieldAddress else .wrappedValue

/-- the forwarder BEFORE the repair 80acc7c (kept for the "repaired defects" section only) -/
def forwarderRecvOld (_fromPtrSet : Bool) (r : FieldRep) : FwdRecv :=
  match r with
  | .object => .fieldObject
  | .native => .wrappedValue

/-- does a receiver of this form carry a pointer-receiver method of the field's type? -/
def hasPtrMethods : FwdRecv → Bool
  | .fieldObject => true | .fieldAddress => true | .wrappedValue => false

end GV.Recv
