/-
  GV.Model.Minify — executable model of `removeWhitespace` (/repo/compiler/utils.go:887-936),
  the hand-written scanner that strips whitespace and `/* */` comments from generated JavaScript
  when minification is on. Bytes are `Nat`s, a byte slice is a `List Nat`; the result is
  `none` exactly where the Go code panics (index / slice bounds out of range, ReadHint panic).
  Core Lean only.
-/
namespace GV.Minify

/-- utils.go `needsSpace` (after the repair fixes/C16-needsspace-nonascii): `[a-zA-Z0-9_$]`, the hint magic `'\b'`
    and every byte >= 0x80 (part of a multi-byte UTF-8 character, i.e. of an identifier). -/
def needsSpace (c : Nat) : Bool :=
  (97 ≤ c && c ≤ 122) || (65 ≤ c && c ≤ 90) || (48 ≤ c && c ≤ 57) || c == 95 || c == 36 || c == 8 || 128 ≤ c

/-- REPAIRED DEFECT — `needsSpace` as it was before the repair (ASCII identifier characters only). -/
def needsSpaceOld (c : Nat) : Bool :=
  (97 ≤ c && c ≤ 122) || (65 ≤ c && c ≤ 90) || (48 ≤ c && c ≤ 57) || c == 95 || c == 36 || c == 8

/-- internal/sourcemapx/hint.go:47-63 `ReadHint` — only the returned `length` (= size+3) matters here;
    `none` = panic (`len(b) < 3` or `len(b) < size+3`). `b[0] = '\b'` is known at the call site. -/
def readHintLen (b : List Nat) : Option Nat :=
  match b with
  | _ :: hi :: lo :: rest =>
    let size := hi * 256 + lo
    if rest.length < size then none else some (size + 3)
  | _ => none

/-- utils.go:913-923, the inner `for` of the `'"'` case, entered with `b` just after the opening quote:
    repeatedly `i := bytes.IndexAny(b, "\"\\")`, copy `b[:i]`, stop at `"`, copy the two bytes of an escape.
    Returns (bytes copied, rest after the closing quote); `none` = panic (no quote/backslash left: `b[:-1]`;
    a lone trailing backslash: `b[2:]`). -/
def strLoop : List Nat → Option (List Nat × List Nat)
  | [] => none
  | c :: r =>
    if c == 34 then some ([], r)
    else if c == 92 then
      match r with
      | [] => none
      | d :: r' => (strLoop r').map fun p => (92 :: d :: p.1, p.2)
    else (strLoop r).map fun p => (c :: p.1, p.2)

/-- `bytes.Index(b, []byte("*/"))`; `none` = -1. -/
def findStarSlash : List Nat → Option Nat
  | [] => none
  | c :: r =>
    if c == 42 && r.head? == some 47 then some 0
    else (findStarSlash r).map (· + 1)

/-- utils.go:925-928: `i := bytes.Index(b[2:], "*/"); b = b[i+4:]` with `b` starting with `/*`.
    When there is no `*/`, `i = -1` and the code continues at `b[3:]` (panics if `len(b) < 3`). -/
def dropComment (b : List Nat) : Option (List Nat) :=
  match findStarSlash (b.drop 2) with
  | some i => some (b.drop (i + 4))
  | none => if b.length < 3 then none else some (b.drop 3)

/-- utils.go:906, the condition under which a whitespace byte is dropped:
    `(!needsSpace(previous) || !needsSpace(b[1])) && !(previous == '-' && b[1] == '-')`
    with Go's short-circuit evaluation; `b1 = none` means `b[1]` is out of range, `none` result = panic. -/
def wsDrop (prev : Nat) (b1 : Option Nat) : Option Bool :=
  let a : Option Bool := if !needsSpace prev then some true else b1.map fun x => !needsSpace x
  match a with
  | none => none
  | some false => some false
  | some true => if prev != 45 then some true else b1.map fun x => x != 45

/-- utils.go:898-934, the main loop. `fuel` bounds the number of iterations (every iteration consumes
    at least one byte, so `b.length` suffices); `prev` is `previous`. The Go code appends to `out`;
    here the output is consed onto the result of the remaining iterations. -/
def rwLoop : Nat → Nat → List Nat → Option (List Nat)
  | _, _, [] => some []
  | 0, _, _ :: _ => none
  | f + 1, prev, c :: r =>
    if c == 8 then
      -- case '\b': copy the whole hint, `previous` unchanged
      match readHintLen (c :: r) with
      | none => none
      | some n => (rwLoop f prev ((c :: r).drop n)).map fun o => (c :: r).take n ++ o
    else if c == 32 || c == 9 || c == 10 then
      match wsDrop prev r.head? with
      | none => none
      | some true => rwLoop f prev r
      | some false => (rwLoop f c r).map fun o => c :: o
    else if c == 34 then
      match strLoop r with
      | none => none
      | some (cp, rest) => (rwLoop f 34 rest).map fun o => 34 :: (cp ++ 34 :: o)
    else if c == 47 then
      match r.head? with
      | none => none                                 -- `b[1]` out of range
      | some d =>
        if d == 42 then
          match dropComment (c :: r) with
          | none => none
          | some b' => rwLoop f prev b'
        else (rwLoop f c r).map fun o => c :: o
    else (rwLoop f c r).map fun o => c :: o

/-- utils.go:891 `removeWhitespace(b, minify)`. -/
def removeWhitespace (b : List Nat) (minify : Bool) : Option (List Nat) :=
  if !minify then some b else rwLoop b.length 0 b

end GV.Minify
