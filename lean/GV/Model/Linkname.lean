/-
  GV.Model.Linkname — the `//go:linkname` directive: how the comment text is split, which uses are accepted,
  and how a declaration's symbol name is formed (property C10).

  Mirrors
  * compiler/linkname/linkname.go:27-75    `readLinknameFromComment`
  * compiler/linkname/linkname.go:77-105   `isMitigatedVarLinkname`, `isMitigatedInsertLinkname`
  * compiler/linkname/linkname.go:123-176  `ParseGoLinknames` / `processComment`
  * compiler/linkname/linkname.go:184-210  `lookupTopNode`
  * compiler/linkname/linkname.go:225-262  `GoLinknameSet` (`Add`, `IsImplementation`, `FindImplementation`)
  * compiler/internal/symbol/symbol.go:23-70 `symbol.New`, `Name.String`, `Name.IsMethod`

  Texts are lists of characters (`String.toList`); core Lean only.
-/
namespace GV.Linkname

abbrev Text := List Char

/-! ### string helpers (Go's `strings` functions used by the code) -/

/-- `unicode.IsSpace` restricted to the Latin-1 range (the generator uses these only) -/
def isSpace (c : Char) : Bool :=
  c == ' ' || c == '\t' || c == '\n' || c == '\x0b' || c == '\x0c' || c == '\r' || c == '\u0085' || c == '\u00a0'

/-- `strings.Fields` -/
def fieldsAux : Text → Text → List Text
  | [], cur => if cur.isEmpty then [] else [cur.reverse]
  | c :: cs, cur =>
    if isSpace c then (if cur.isEmpty then fieldsAux cs [] else cur.reverse :: fieldsAux cs [])
    else fieldsAux cs (c :: cur)

def fields (t : Text) : List Text := fieldsAux t []

/-- `strings.IndexByte` -/
def indexOf (c : Char) : Text → Option Nat
  | [] => none
  | x :: xs => if x == c then some 0 else (indexOf c xs).map (· + 1)

/-- `strings.LastIndexByte` -/
def lastIndexOf (c : Char) : Text → Option Nat
  | [] => none
  | x :: xs =>
    match lastIndexOf c xs with
    | some i => some (i + 1)
    | none => if x == c then some 0 else none

def hasPrefix (p t : Text) : Bool := p.isPrefixOf t

/-! ### symbol names (symbol.go) -/

/-- `symbol.Name` -/
structure Sym where
  pkg : Text
  name : Text
deriving DecidableEq, Repr

/-- `Name.String()` (symbol.go:58) -/
def Sym.str (s : Sym) : Text := s.pkg ++ ['.'] ++ s.name

/-- the receiver of a declared function -/
inductive Recv where
  | none
  | value (typ : Text)
  | pointer (typ : Text)
deriving DecidableEq, Repr

/-- `symbol.New` (symbol.go:29-56) for functions and methods -/
def symbolNew (pkgPath : Text) (recv : Recv) (name : Text) : Sym :=
  match recv with
  | .none => ⟨pkgPath, name⟩
  | .value t => ⟨pkgPath, t ++ ['.'] ++ name⟩
  | .pointer t => ⟨pkgPath, "(*".toList ++ t ++ ").".toList ++ name⟩

/-- `Name.IsMethod()` (symbol.go:60-70): `(recv, method)`, parentheses of the receiver removed -/
def isMethod (s : Sym) : Option (Text × Text) :=
  match indexOf '.' s.name with
  | none => none
  | some pos =>
    let recv := s.name.take pos
    let method := s.name.drop (pos + 1)
    let size := recv.length
    let recv := if size > 2 && recv.head? == some '(' && recv.getLast? == some ')' then (recv.drop 1).take (size - 2) else recv
    some (recv, method)

/-! ### `readLinknameFromComment` -/

structure Link where
  reference : Sym
  implementation : Sym
deriving DecidableEq, Repr

inductive Read where
  | notDirective          -- not a `//go:linkname ` comment
  | ignored               -- one-argument form, or self reference: silently skipped
  | usage                 -- wrong number of fields: error
  | link (l : Link)
deriving DecidableEq, Repr

/-- linkname.go:60-68: split `importPath.extName` at the first `.` after the last `/` -/
def splitExt (ext : Text) : Text × Text :=
  let pathOffset := match lastIndexOf '/' ext with
    | some pos => pos + 1
    | none => 0
  match indexOf '.' (ext.drop pathOffset) with
  | some idx => (ext.take (pathOffset + idx), ext.drop (pathOffset + idx + 1))
  | none => ([], ext)

/-- `ishex`/`unhex` of net/url -/
def hexVal (c : Char) : Option Nat :=
  if '0' ≤ c ∧ c ≤ '9' then some (c.toNat - 48)
  else if 'a' ≤ c ∧ c ≤ 'f' then some (c.toNat - 87)
  else if 'A' ≤ c ∧ c ≤ 'F' then some (c.toNat - 55)
  else none

/-- `url.PathUnescape`: every `%xy` (two hex digits) becomes the byte `0xxy`; a `%` not followed by two hex digits
    is an error (`none`). Model restriction: bytes ≥ 0x80 are represented by the character with that code (the
    generator of the check emits ASCII escapes only). -/
def pathUnescape : Text → Option Text
  | [] => some []
  | [c] => if c = '%' then none else some [c]
  | [c, a] => if c = '%' then none else (pathUnescape [a]).map (c :: ·)
  | c :: a :: b :: rest =>
    if c = '%' then
      match hexVal a, hexVal b with
      | some x, some y => (pathUnescape rest).map (Char.ofNat (16 * x + y) :: ·)
      | _, _ => none
    else (pathUnescape (a :: b :: rest)).map (c :: ·)

/-- linkname.go:60-73 (after the repair "accept the gc spelling of escaped import paths"): split, then unescape the
    package part; a malformed escape leaves it unchanged. -/
def splitTarget (ext : Text) : Text × Text :=
  let r := splitExt ext
  ((pathUnescape r.1).getD r.1, r.2)

def directivePrefix : Text := "//go:linkname ".toList

/-- linkname.go:27-75 -/
def readLinkname (pkgPath : Text) (comment : Text) : Read :=
  if !hasPrefix directivePrefix comment then .notDirective
  else
    match fields comment with
    | [_, _] => .ignored
    | [_, localName, extName] =>
      if localName == extName then .ignored
      else
        .link { reference := ⟨pkgPath, localName⟩,
                implementation := ⟨(splitTarget extName).1, (splitTarget extName).2⟩ }
    | _ => .usage

/-! ### `ParseGoLinknames` — the decision for one comment -/

/-- what `lookupTopNode(file, localName)` finds -/
inductive Node where
  | missing
  | func (hasBody : Bool)
  | typeSpec
  | valueSpec
deriving DecidableEq, Repr

inductive Decision where
  | skip                   -- no directive recorded, no error
  | accept (l : Link)
  | errUsage
  | errUnsafe              -- `//go:linkname is only allowed in Go files that import "unsafe"`
  | errNotFound            -- local symbol not found in the current source file
  | errNotFunc             -- only supported for functions
  | errInsert              -- can not insert local implementation into an external package
deriving DecidableEq, Repr

/-- linkname.go:80-87 -/
def isMitigatedVar (s : Sym) : Bool :=
  s.str == "reflect.zeroVal".toList || s.str == "math/bits.overflowError".toList || s.str == "math/bits.divideError".toList

/-- linkname.go:93-103 -/
def isMitigatedInsert (s : Sym) : Bool :=
  s.pkg == "runtime".toList || s.pkg == "internal/fuzz".toList ||
  s.str == "internal/bytealg.runtime_cmpstring".toList || s.str == "os.net_newUnixFile".toList

/-- linkname.go:129-166 `processComment`; `importsUnsafe` is `astutil.ImportsUnsafe(file)`, `lookup` is
    `lookupTopNode(file, ·)`. -/
def decide (pkgPath : Text) (importsUnsafe : Bool) (lookup : Text → Node) (comment : Text) : Decision :=
  match readLinkname pkgPath comment with
  | .notDirective => .skip
  | .ignored => .skip
  | .usage => .errUsage
  | .link l =>
    if !importsUnsafe then .errUnsafe
    else
      match lookup l.reference.name with
      | .missing => .errNotFound
      | .func false => .accept l
      | .func true => if isMitigatedInsert l.reference then .skip else .errInsert
      | _ => if isMitigatedVar l.reference then .skip else .errNotFunc

/-! ### `Sources.ParseGoLinknames` — all files of a package -/

/-- what `linkname.ParseGoLinknames` returns for ONE file: the accepted directives and the errors (`decide` folded over
    the file's comments, linkname.go:168-176) -/
structure FileResult where
  links : List Link
  errs : List Decision
deriving DecidableEq, Repr

def parseFileComments (pkgPath : Text) (importsUnsafe : Bool) (lookup : Text → Node) (comments : List Text) : FileResult :=
  comments.foldl (fun acc c =>
    match decide pkgPath importsUnsafe lookup c with
    | .skip => acc
    | .accept l => { acc with links := acc.links ++ [l] }
    | e => { acc with errs := acc.errs ++ [e] }) ⟨[], []⟩

/-- compiler/sources/sources.go:188-203 `Sources.ParseGoLinknames`: the files in `Sources.Sort` order; the directives
    are concatenated and the errors ACCUMULATED (`errs = errs.Append(err)`); the package is rejected iff the accumulated
    list is non-empty. -/
def parsePackage (files : List FileResult) : FileResult :=
  files.foldl (fun acc f => ⟨acc.links ++ f.links, acc.errs ++ f.errs⟩) ⟨[], []⟩

def packageRejected (files : List FileResult) : Bool := !(parsePackage files).errs.isEmpty

/-- NOT the code: the fold in which the error of a file is overwritten by the result of the next file (only the error of
    the last processed file survives) — the subject of a counterexample. -/
def parsePackageOverwriting (files : List FileResult) : FileResult :=
  files.foldl (fun acc f => ⟨acc.links ++ f.links, f.errs⟩) ⟨[], []⟩

/-! ### `GoLinknameSet` -/

/-- `FindImplementation` over the directives of the whole program (the map `byReference`; `Add` rejects a second
    directive for the same reference, so the first match is the only one) -/
def findImplementation (all : List Link) (sym : Sym) : Option Sym :=
  (all.find? (fun l => l.reference == sym)).map (·.implementation)

/-- `IsImplementation` -/
def isImplementation (all : List Link) (sym : Sym) : Bool :=
  all.any (fun l => l.implementation == sym)

/-- `Add` fails iff two directives name the same reference -/
def addConflict : List Link → Bool
  | [] => false
  | l :: ls => ls.any (fun m => m.reference == l.reference) || addConflict ls

/-- `GoLinknameSet` (linkname.go:208-211): the two maps, as association lists in insertion order -/
structure LinkSet where
  byImplementation : List Link
  byReference : List Link
deriving DecidableEq, Repr

/-- `Add` (linkname.go:214-231): the entries are recorded one by one; a second directive for an already recorded
    reference stops the call with an error — after the entry was recorded under its implementation, and without
    looking at the remaining entries. Result: the set and whether an error was returned. -/
def LinkSet.add (s : LinkSet) : List Link → LinkSet × Bool
  | [] => (s, false)
  | e :: es =>
    let s1 : LinkSet := { s with byImplementation := s.byImplementation ++ [e] }
    if s.byReference.any (fun l => l.reference == e.reference) then (s1, true)
    else LinkSet.add { s1 with byReference := s1.byReference ++ [e] } es

/-- compiler.go:135-139: `gls.Add(pkg.GoLinknames)` for every package in link order; the returned error is discarded. -/
def programLinkSet (pkgs : List (List Link)) : LinkSet :=
  pkgs.foldl (fun s l => (s.add l).1) ⟨[], []⟩

/-- compiler.go:295-332: the declaration `ref` (a bodyless function of some package) is bound by `$initLinknames`
    to the entry `$linknames[impl.String()]`; the entries are filled in (keyed by `LinkingName.String()`) for the
    declarations whose `LinkingName` (the struct, not its string) is the implementation of some directive. `decls` are the `LinkingName`s of all declarations of the program. -/
def resolve (all : List Link) (decls : List Sym) (ref : Sym) : Option Sym :=
  match findImplementation all ref with
  | none => none
  | some impl => (decls.filter (isImplementation all)).find? (fun d => d.str == impl.str)

/-- How a call of the bodyless function `ref` gets to an implementation. Inside the declaring package the call goes
    through the package-level JavaScript variable, which `$initLinknames` assigns. From another package the call goes
    through `$pkg.<Name>`, which functions.go (`translateStandaloneFunction`, `fun.Body == nil`, after the repair
    "export bodyless go:linkname functions through $pkg") defines as a forwarder through the same variable. Either
    way the call reaches what `$initLinknames` bound. -/
def callTarget (all : List Link) (decls : List Sym) (ref : Sym) (_samePackage : Bool) : Option Sym :=
  resolve all decls ref

end GV.Linkname
