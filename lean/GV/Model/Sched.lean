import GV.Model.Chan
/-
  GV.Model.Sched — the goroutine scheduler and the channel primitives of
  /repo/compiler/prelude/goroutines.js:125-389 as one transition function
      step : State → Event → State × Obs
  Every nondeterministic choice is an argument of the event: which operation the running goroutine
  performs next, the `Math.random` pick of `$select`, whether the 4 ms slice of `$runScheduled` is over
  (`tick`), which pending timer the JS event loop fires next (`fire id`).

  Primitives run to completion (JS is single threaded).  A blocking operation of goroutine g is one event:
  it contains `$block()`, the unwinding of g's frames up to `$goroutine` (no code runs during it:
  `$callDeferred` returns at once when `$curGoroutine.asleep`, goroutines.js:25), the `finally` block of
  `$goroutine` (goroutines.js:145-159) and, when `$scheduled` is empty, the end of the `$runScheduled` loop.
-/
namespace GV.Sched
open GV.Chan

/-- what a suspended goroutine finds when it is resumed (`f.value`, `closedDuringSend`, `f.selection`) -/
inductive Wake where
  | none
  | recv (v : Nat) (ok : Bool)
  | sent (closed : Bool)
  | sel (i : Nat) (r : Option (Nat × Bool))
deriving DecidableEq, Repr

/-- the operation a goroutine is suspended in (captured by the closures it left in the queues) -/
inductive Blocked where
  | send (c v : Nat)
  | recv (c : Nat)
  | select (cases : List Case)
deriving DecidableEq, Repr

/-- `$goroutine` function object, goroutines.js:131-165 -/
structure Gor where
  asleep : Bool
  exit : Bool
  blocked : Option Blocked
  wake : Wake
deriving Repr

inductive TimerKind where
  /-- `setTimeout($runScheduled)` goroutines.js:175 -/
  | runSched
  /-- `$setTimeout(() => $close(c), t)` — the shape used by runtime.Gosched / time.Sleep (runtime.go:321-325) -/
  | closeChan (c : Nat)
deriving DecidableEq, Repr

structure State where
  /-- channel 0 is `$chanNil` -/
  chans : List Chan
  gs : List Gor
  /-- `$scheduled` goroutines.js:169 -/
  scheduled : List Nat
  /-- `$curGoroutine` (`none` = `$noGoroutine`) -/
  cur : Option Nat
  /-- control is inside the `while` loop of `$runScheduled` -/
  inLoop : Bool
  awake : Int
  total : Int
  mainFinished : Bool
  /-- number of "all goroutines are asleep" reports (goroutines.js:153-158) -/
  deadlocks : Nat
  /-- pending host timers (id, kind) in creation order -/
  timers : List (Nat × TimerKind)
  nextTimer : Nat
  /-- `nextRun` of the running `$runScheduled` -/
  loopTimer : Nat
deriving Repr

def init : State :=
  { chans := [Chan.nil], gs := [], scheduled := [], cur := none, inLoop := false, awake := 0, total := 0,
    mainFinished := false, deadlocks := 0, timers := [], nextTimer := 0, loopTimer := 0 }

inductive Panic where
  | sendClosed      -- "send on closed channel"
  | closeClosed     -- "close of closed channel"
  | closeNil        -- "close of nil channel"
  | nilElem         -- TypeError: `chan.$elem.zero()` on `$chanNil` (elem = null)
deriving DecidableEq, Repr

inductive Obs where
  | invalid
  | ok
  | recvd (v : Nat) (ok : Bool)
  | selected (i : Nat) (r : Option (Nat × Bool))
  | blocked
  | panic (p : Panic)
  /-- the scheduler ran goroutine `g`, which resumed with `w` -/
  | resumed (g : Nat) (w : Wake)
  | idle
deriving DecidableEq, Repr

inductive Event where
  | makechan (cap : Nat)
  | spawn
  | send (c v : Nat)
  | recv (c : Nat)
  | close (c : Nat)
  | select (cases : List Case) (pick : Nat)
  | after (c : Nat)
  | exit
  | mainDone
  | next
  | tick
  | fire (id : Nat)
deriving DecidableEq, Repr

/-! ### accessors -/

def getC (s : State) (c : Nat) : Chan := s.chans.getD c Chan.nil
def setC (s : State) (c : Nat) (ch : Chan) : State := { s with chans := s.chans.set c ch }
def dfltGor : Gor := { asleep := false, exit := false, blocked := none, wake := .none }
def getG (s : State) (g : Nat) : Gor := s.gs.getD g dfltGor
def setG (s : State) (g : Nat) (x : Gor) : State := { s with gs := s.gs.set g x }

/-! ### `$select` bookkeeping -/

/-- `removeFromQueues` goroutines.js:348-357: walk the registered entries (case i ↦ queue of its channel) -/
def removeFromQueues (g : Nat) : List Case → Nat → List Chan → List Chan
  | [], _, chans => chans
  | .dflt :: rest, i, chans => removeFromQueues g rest (i + 1) chans
  | .recv c :: rest, i, chans =>
    let ch := chans.getD c Chan.nil
    removeFromQueues g rest (i + 1) (chans.set c { ch with recvQ := removeEntry g i ch.recvQ })
  | .send c _ :: rest, i, chans =>
    let ch := chans.getD c Chan.nil
    removeFromQueues g rest (i + 1) (chans.set c { ch with sendQ := removeEntry g i ch.sendQ })

/-- registration loop goroutines.js:358-386 -/
def registerCases (g : Nat) : List Case → Nat → List Chan → List Chan
  | [], _, chans => chans
  | .dflt :: rest, i, chans => registerCases g rest (i + 1) chans
  | .recv c :: rest, i, chans =>
    let ch := chans.getD c Chan.nil
    registerCases g rest (i + 1) (chans.set c { ch with recvQ := pushQ ch.isNil ch.recvQ ⟨g, some i, 0⟩ })
  | .send c v :: rest, i, chans =>
    let ch := chans.getD c Chan.nil
    registerCases g rest (i + 1)
      (chans.set c { ch with sendQ := pushQ ch.isNil ch.sendQ ⟨g, some i, v⟩ })

def selectCases (s : State) (g : Nat) : List Case :=
  match (getG s g).blocked with
  | some (.select cs) => cs
  | _ => []

/-! ### scheduler -/

/-- `$schedule(goroutine)` goroutines.js:197-202 without the final `$runScheduled()` call of 203-205, which the
    callers at top level (`fire`, `spawn`) perform through `enterLoop`. -/
def schedule (s : State) (g : Nat) : State :=
  let x := getG s g
  let s1 := if x.asleep then { setG s g { x with asleep := false } with awake := s.awake + 1 } else s
  { s1 with scheduled := s1.scheduled ++ [g] }

/-- `r = $scheduled.shift(); r()` goroutines.js:179-180 up to the first action of the goroutine:
    `$curGoroutine = $goroutine` and the resumed frame's `$r = $r.$blk()`. -/
def runHead (s : State) (g : Nat) (rest : List Nat) : State × Obs :=
  let x := getG s g
  ({ setG s g { x with wake := .none, blocked := none } with scheduled := rest, cur := some g }, .resumed g x.wake)

/-- the loop of `$runScheduled` finds `$scheduled` empty: `clearTimeout(nextRun)` goroutines.js:190-193 -/
def endLoop (s : State) : State :=
  -- timer ids are unique; the id is that of the `setTimeout($runScheduled)` armed by this invocation
  { s with inLoop := false, timers := s.timers.filter fun t => !(t.1 == s.loopTimer && t.2 == TimerKind.runSched) }

/-- `$runScheduled()` goroutines.js:170-180 (entry + first iteration) -/
def enterLoop (s : State) : State × Obs :=
  let tid := s.nextTimer
  let s1 := { s with timers := s.timers ++ [(tid, TimerKind.runSched)], nextTimer := tid + 1, loopTimer := tid, inLoop := true }
  match s1.scheduled with
  | [] => (endLoop s1, .idle)
  | g :: rest => runHead s1 g rest

/-- goroutine `g` hands control back: `finally` of `$goroutine` goroutines.js:145-159, then the loop test
    goroutines.js:179 (an empty `$scheduled` ends `$runScheduled`). -/
def endSlice (s : State) (g : Nat) : State :=
  let x := getG s g
  let s1 := { s with cur := none }
  let s2 := if x.exit then { setG s1 g { x with asleep := true } with total := s1.total - 1 } else s1
  let s3 :=
    if (getG s2 g).asleep then
      let a := s2.awake - 1
      { s2 with awake := a, deadlocks := if !s2.mainFinished && a == 0 then s2.deadlocks + 1 else s2.deadlocks }
    else s2
  if s3.scheduled.isEmpty then endLoop s3 else s3

/-- `$block()` goroutines.js:216-221 + return of the `$blk` frame chain to `$goroutine` -/
def block (s : State) (g : Nat) (b : Blocked) : State :=
  let x := getG s g
  endSlice (setG s g { x with asleep := true, blocked := some b }) g

/-! ### queue entries being called -/

/-- common tail of every queue entry: record the result in the `$blk` object, for `$select` entries
    `removeFromQueues()` (goroutines.js:365, 377; plain entries registered nothing else: `cases = []`), then
    `$schedule(thisGoroutine)` -/
def wakeG (s : State) (g : Nat) (w : Wake) (cases : List Case) : State :=
  let x := getG s g
  let s1 := setG s g { x with wake := w }
  schedule { s1 with chans := removeFromQueues g cases 0 s1.chans } g

/-- a receive entry is called with `[v, ok]`: goroutines.js:275-278 (plain) / 363-367 (select) -/
def fireRecv (s : State) (e : Entry) (v : Nat) (ok : Bool) : State :=
  match e.sel with
  | none => wakeG s e.gid (.recv v ok) []
  | some i => wakeG s e.gid (.sel i (some (v, ok))) (selectCases s e.gid)

/-- a send entry is called with `closed`: goroutines.js:246-250 (plain: `closedDuringSend = closed`) /
    372-382 (select, repaired: when `closed` the pending `$blk` is replaced by one that throws
    "send on closed channel" in the selecting goroutine — observationally the `closedDuringSend` of a plain send) -/
def fireSend (s : State) (e : Entry) (closed : Bool) : State :=
  match e.sel with
  | none => wakeG s e.gid (.sent closed) []
  | some i => wakeG s e.gid (if closed then .sent true else .sel i none) (selectCases s e.gid)

/-! ### channel primitives, executed by goroutine `g` (`$curGoroutine`) -/

/-- result of a primitive: new state and what the caller sees (`blocked` = a `$blk` object was returned and the
    goroutine has already been put to sleep) -/
abbrev Res := State × Obs

/-- `$send(chan, value)` goroutines.js:230-259 -/
def doSend (s : State) (g c v : Nat) : Res :=
  let ch := getC s c
  if ch.closed then (s, .panic .sendClosed)
  else match ch.recvQ with
    | e :: rq =>
      let s1 := setC s c { ch with recvQ := rq, hCommit := ch.hCommit ++ [v], hRecv := ch.hRecv ++ [v] }
      (fireRecv s1 e v true, .ok)
    | [] =>
      if ch.buf.length < ch.cap then
        (setC s c { ch with buf := ch.buf ++ [v], hCommit := ch.hCommit ++ [v] }, .ok)
      else
        let s1 := setC s c { ch with sendQ := pushQ ch.isNil ch.sendQ ⟨g, none, v⟩ }
        (block s1 g (.send c v), .blocked)

/-- second half of `$recv(chan)` goroutines.js:265-281: take from the buffer, or report closed, or block -/
def recvTail (s1 : State) (g c : Nat) : Res :=
  let ch1 := getC s1 c
  match ch1.buf with
  | v :: b => (setC s1 c { ch1 with buf := b, hRecv := ch1.hRecv ++ [v] }, .recvd v true)
  | [] =>
    if ch1.closed then
      if ch1.isNil then (s1, .panic .nilElem) else (s1, .recvd 0 false)
    else
      let s2 := setC s1 c { ch1 with recvQ := pushQ ch1.isNil ch1.recvQ ⟨g, none, 0⟩ }
      (block s2 g (.recv c), .blocked)

/-- `$recv(chan)` goroutines.js:260-282; 261-264 pull a queued sender's value into the buffer first -/
def doRecv (s : State) (g c : Nat) : Res :=
  let ch := getC s c
  match ch.sendQ with
  | e :: sq =>
    let s1 := fireSend (setC s c { ch with sendQ := sq }) e false
    let ch1 := getC s1 c
    recvTail (setC s1 c { ch1 with buf := ch1.buf ++ [e.val], hCommit := ch1.hCommit ++ [e.val] }) g c
  | [] => recvTail s g c

/-- first loop of `$close` goroutines.js:288-294 (re-reads the queue: a select entry removes its siblings) -/
def closeSenders : Nat → State → Nat → State
  | 0, s, _ => s
  | n + 1, s, c =>
    let ch := getC s c
    match ch.sendQ with
    | [] => s
    | e :: sq => closeSenders n (fireSend (setC s c { ch with sendQ := sq }) e true) c

/-- second loop of `$close` goroutines.js:295-301 (re-reads the queue: a select entry removes its siblings) -/
def closeRecvs : Nat → State → Nat → State
  | 0, s, _ => s
  | n + 1, s, c =>
    let ch := getC s c
    match ch.recvQ with
    | [] => s
    | e :: rq => closeRecvs n (fireRecv (setC s c { ch with recvQ := rq }) e 0 false) c

/-- `$close(chan)` goroutines.js:283-305 (repaired: a nil channel panics and `$chanNil` is left alone) -/
def doClose (s : State) (c : Nat) : Res :=
  let ch := getC s c
  if ch.isNil then (s, .panic .closeNil)
  else if ch.closed then (s, .panic .closeClosed)
  else
    let s1 := setC s c { ch with closed := true }
    let s2 := closeSenders ch.sendQ.length s1 c
    (closeRecvs (getC s2 c).recvQ.length s2 c, .ok)

/-- readiness scan of `$select` goroutines.js:304-327: `(ready, selection, threw)` -/
def scan (s : State) : List Case → Nat → List Nat × Option Nat × Bool
  | [], _ => ([], none, false)
  | cs :: rest, i =>
    let (rd, dsel, thr) := scan s rest (i + 1)
    match cs with
    | .dflt => (rd, (match dsel with | some j => some j | none => some i), thr)
    | .recv c => (if (getC s c).recvReady then i :: rd else rd, dsel, thr)
    | .send c _ =>
      if (getC s c).closed then (rd, dsel, true)
      else (if (getC s c).sendReady then i :: rd else rd, dsel, thr)

/-- `ready[Math.floor(Math.random() * ready.length)]` goroutines.js:330 with `Math.random() = (pick+0.5)/12` -/
def pickIndex (pick len : Nat) : Nat := (2 * (pick % 12) + 1) * len / 24

/-- `$select(comms)` goroutines.js:303-389 -/
def doSelect (s : State) (g : Nat) (cases : List Case) (pick : Nat) : Res :=
  let (ready, dsel, thr) := scan s cases 0
  if thr then (s, .panic .sendClosed)
  else
    let selection : Option Nat :=
      if ready.length != 0 then some (ready.getD (pickIndex pick ready.length) 0) else dsel
    match selection with
    | some i =>
      match cases.getD i .dflt with
      | .dflt => (s, .selected i none)
      | .recv c =>
        match doRecv s g c with
        | (s1, .recvd v ok) => (s1, .selected i (some (v, ok)))
        | r => r
      | .send c v =>
        match doSend s g c v with
        | (s1, .ok) => (s1, .selected i none)
        | r => r
    | none =>
      let s1 := { s with chans := registerCases g cases 0 s.chans }
      (block s1 g (.select cases), .blocked)

/-- `$go(fun, args)` goroutines.js:128-167 without the `$runScheduled()` of `$schedule` -/
def goNew (s : State) : State :=
  let g := s.gs.length
  { s with total := s.total + 1, awake := s.awake + 1, gs := s.gs ++ [dfltGor], scheduled := s.scheduled ++ [g] }

def validChan (s : State) (c : Nat) : Bool := decide (c < s.chans.length)

def caseChansValid (s : State) : List Case → Bool
  | [] => true
  | .dflt :: r => caseChansValid s r
  | .recv c :: r => validChan s c && caseChansValid s r
  | .send c _ :: r => validChan s c && caseChansValid s r

def findTimer (ts : List (Nat × TimerKind)) (id : Nat) : Option TimerKind :=
  match ts.find? (fun t => t.1 == id) with
  | some t => some t.2
  | none => none

/-- one event. Events that make no sense in the current control state are ignored (`invalid`). -/
def step (s : State) (ev : Event) : State × Obs :=
  match s.cur with
  | some g =>
    -- a goroutine is running: it performs its next operation
    match ev with
    | .makechan cap => ({ s with chans := s.chans ++ [Chan.make cap] }, .ok)
    | .spawn => (goNew s, .ok)
    | .send c v => if validChan s c then
        (match doSend s g c v with | r => r) else (s, .invalid)
    | .recv c => if validChan s c then doRecv s g c else (s, .invalid)
    | .close c => if validChan s c then doClose s c else (s, .invalid)
    | .select cases pick => if caseChansValid s cases then doSelect s g cases pick else (s, .invalid)
    | .after c =>
      if validChan s c then
        ({ s with awake := s.awake + 1, timers := s.timers ++ [(s.nextTimer, TimerKind.closeChan c)], nextTimer := s.nextTimer + 1 }, .ok)
      else (s, .invalid)
    | .exit => (endSlice (setG s g { getG s g with exit := true }) g, .ok)
    | .mainDone => ({ s with mainFinished := true }, .ok)
    | _ => (s, .invalid)
  | none =>
    if s.inLoop then
      -- between two goroutines inside `$runScheduled` (goroutines.js:179-188)
      match ev with
      | .next =>
        match s.scheduled with
        | g :: rest => runHead s g rest
        | [] => (s, .invalid)
      | .tick => ({ s with inLoop := false }, .ok)
      | _ => (s, .invalid)
    else
      -- JS top level / event loop
      match ev with
      | .makechan cap => ({ s with chans := s.chans ++ [Chan.make cap] }, .ok)
      | .spawn => enterLoop (goNew s)
      | .fire id =>
        match findTimer s.timers id with
        | none => (s, .invalid)
        | some .runSched => enterLoop { s with timers := s.timers.erase (id, TimerKind.runSched) }
        | some (.closeChan c) =>
          let ch := getC s c
          -- modelled only when at most one goroutine is woken (`$schedule` at top level runs the loop inline)
          if ch.sendQ.length + ch.recvQ.length > 1 then (s, .invalid)
          else
            let s1 := { s with timers := s.timers.erase (id, TimerKind.closeChan c), awake := s.awake - 1 }
            match doClose s1 c with
            | (s2, .ok) => if s2.scheduled.length > s1.scheduled.length then enterLoop s2 else (s2, .ok)
            | r => r
      | _ => (s, .invalid)

def runAll (s : State) : List Event → State
  | [] => s
  | e :: es => runAll (step s e).1 es

end GV.Sched
