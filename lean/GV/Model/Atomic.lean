/-
  GV.Model.Atomic — transcription of compiler/natives/src/sync/atomic/atomic.go: the non-atomic
  read-modify-write bodies of Swap*/CompareAndSwap*/Add*/Load*/Store* on a cell of width w (32 or 64 bits;
  signed and unsigned share the bit pattern) and of `Value` (Load/Store/Swap/CompareAndSwap with `checkNew`).
  Every function returns (new cell content, result).
-/
namespace GV.Atomic

/-- atomic.go:11-45 `Swap*`: `old := *addr; *addr = new; return old` -/
def swap {w : Nat} (cell new : BitVec w) : BitVec w × BitVec w := (new, cell)

/-- atomic.go:47-93 `CompareAndSwap*`: `if *addr == old { *addr = new; return true }; return false` -/
def cas {w : Nat} (cell old new : BitVec w) : BitVec w × Bool :=
  if cell = old then (new, true) else (cell, false)

/-- atomic.go:95-123 `Add*`: `new := *addr + delta; *addr = new; return new` (Go wrap-around arithmetic) -/
def add {w : Nat} (cell delta : BitVec w) : BitVec w × BitVec w :=
  let new := cell + delta
  (new, new)

/-- atomic.go:125-147 `Load*` -/
def load {w : Nat} (cell : BitVec w) : BitVec w × BitVec w := (cell, cell)

/-- atomic.go:149-171 `Store*` -/
def store {w : Nat} (_cell val : BitVec w) : BitVec w := val

/-! ### atomic.Value — an interface value is `none` (nil) or `some (type id, comparable payload)` -/

abbrev Iface := Option (Nat × Int)

/-- panic classes: "… of nil value into Value" / "… of inconsistently typed value(s) [into Value]"
    (upstream and override word the second class differently; the wording after "typed" is not compared) -/
inductive PanicKind where
  | nilValue
  | typed
  deriving DecidableEq, Repr

inductive VOut where
  | ok
  | val (x : Iface)
  | bool (b : Bool)
  | panic (k : PanicKind)
  deriving DecidableEq, Repr

/-- atomic.go:222-228 `sameType`: equal constructors. A nil interface is `$ifaceNil`, whose constructor differs
    from every Go type's constructor and equals itself. -/
def sameType (x y : Iface) : Bool :=
  match x, y with
  | none, none => true
  | some a, some b => a.1 == b.1
  | _, _ => false

/-- atomic.go:211-219 `checkNew(op, new)`; `none` = no panic -/
def checkNew (v : Iface) (new : Iface) : Option PanicKind :=
  if new = none then some .nilValue
  else if v ≠ none ∧ !sameType new v then some .typed
  else none

/-- atomic.go:173-175 -/
def vLoad (v : Iface) : Iface × VOut := (v, .val v)

/-- atomic.go:177-180 -/
def vStore (v new : Iface) : Iface × VOut :=
  match checkNew v new with
  | some m => (v, .panic m)
  | none => (new, .ok)

/-- atomic.go:182-186 -/
def vSwap (v new : Iface) : Iface × VOut :=
  match checkNew v new with
  | some m => (v, .panic m)
  | none => (new, .val v)

/-- REPAIRED DEFECT (fixes/C13-atomic-value-cas.patch) — before the repair the type check was
    `if !(v.v == nil && old == nil) && !sameType(old, new)` -/
def vCasOld (v old new : Iface) : Iface × VOut :=
  match checkNew v new with
  | some m => (v, .panic m)
  | none =>
    if !(v = none ∧ old = none) ∧ !sameType old new then (v, .panic .typed)
    else if v ≠ old then (v, .bool false)
    else (new, .bool true)

/-- atomic.go:188-203 `CompareAndSwap`: `if old != nil && !sameType(old, new) { panic }` -/
def vCas (v old new : Iface) : Iface × VOut :=
  match checkNew v new with
  | some m => (v, .panic m)
  | none =>
    if old ≠ none ∧ !sameType old new then (v, .panic .typed)
    else if v ≠ old then (v, .bool false)
    else (new, .bool true)

/-! ### specification of `Value` = upstream sync/atomic/value.go (Go 1.20), run by one goroutine -/

/-- value.go `Store` -/
def specStore (v new : Iface) : Iface × VOut :=
  match new, v with
  | none, _ => (v, .panic .nilValue)
  | some n, none => (some n, .ok)
  | some n, some o =>
    if n.1 ≠ o.1 then (v, .panic .typed) else (some n, .ok)

/-- value.go `Swap` -/
def specSwap (v new : Iface) : Iface × VOut :=
  match new, v with
  | none, _ => (v, .panic .nilValue)
  | some n, none => (some n, .val none)
  | some n, some o =>
    if n.1 ≠ o.1 then (v, .panic .typed) else (some n, .val v)

/-- value.go `CompareAndSwap` -/
def specCas (v old new : Iface) : Iface × VOut :=
  match new with
  | none => (v, .panic .nilValue)
  | some n =>
    if old ≠ none ∧ (old.map (·.1)) ≠ some n.1 then
      (v, .panic .typed)
    else match v with
      | none => if old ≠ none then (v, .bool false) else (some n, .bool true)
      | some o =>
        if o.1 ≠ n.1 then (v, .panic .typed)
        else if v ≠ old then (v, .bool false)
        else (some n, .bool true)

end GV.Atomic
