/-
  GV.Model.F32 — float32 arithmetic as the compiler emits it, over an ABSTRACT rounding function.

  JavaScript has only doubles. A Go float32 value is held as a double that is exactly representable in single precision;
  `$fround` (Math.fround, numeric.js:11-15) rounds a double to the nearest such value. The only property of `$fround` used is that
  it is idempotent on float32 values (`rnd (emb f) = f`); the IEEE operations themselves are the engine's and stay opaque (`op`).

  The scheme (expressions.go, numeric branch of *ast.BinaryExpr): a float32 `+ - * /` is emitted as `fixNumber("%e op %e")`, and
  `fixNumber` for Float32 is `$fround(%s)` — for EVERY operand shape. A sub-expression operand is translated by the same rule, so
  every intermediate result is rounded.
-/
namespace GV.F32

/-- `D` = doubles, `F` = float32 values; `emb` reads a float32 value as the double that holds it -/
structure Rounding (D F : Type) where
  rnd : D → F
  emb : F → D
  idem : ∀ f : F, rnd (emb f) = f

inductive Op where
  | add | sub | mul | quo
  deriving DecidableEq, Repr

/-- a float32 expression tree over variables/constants holding float32 values -/
inductive Expr (F : Type) where
  | val (f : F)
  | bin (op : Op) (a b : Expr F)

variable {D F : Type}

/-- Go specification: "x op y" on float32 operands is the float32 result, i.e. each operation is rounded to single precision -/
def evalSpec (R : Rounding D F) (op : Op → D → D → D) : Expr F → F
  | .val f => f
  | .bin o a b => R.rnd (op o (R.emb (evalSpec R op a)) (R.emb (evalSpec R op b)))

/-- the emitted JavaScript: the double computed by the translation of an expression. A value is its double; a binary operation
    is `$fround(x op y)` of the translated operands (expressions.go: `fc.fixNumber(fc.formatExpr("%e %t %e", …), basic)` with
    fixNumber(Float32) = `$fround(%s)`), read back as a double. -/
def emit (R : Rounding D F) (op : Op → D → D → D) : Expr F → D
  | .val f => R.emb f
  | .bin o a b => R.emb (R.rnd (op o (emit R op a) (emit R op b)))

/-- the variant that rounds only the outermost operation of an expression tree (what an "avoid redundant fround" rewrite would
    emit): intermediates stay doubles. It is NOT the scheme; it is here to state what the obligation on the table excludes. -/
def emitInner (op : Op → D → D → D) (emb : F → D) : Expr F → D
  | .val f => emb f
  | .bin o a b => op o (emitInner op emb a) (emitInner op emb b)

def emitOuterOnly (R : Rounding D F) (op : Op → D → D → D) (e : Expr F) : D :=
  match e with
  | .val f => R.emb f
  | .bin _ _ _ => R.emb (R.rnd (emitInner op R.emb e))

end GV.F32
