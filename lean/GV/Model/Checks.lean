import GV.Spec.GoComparable
/-
  GV.Model.Checks — the run-time checks GopherJS emits inline or keeps in the prelude, each as a
  function of the operand values (Int), transcribed from the code AS IT IS.
  `none` = `$throwRuntimeError(...)` / `$panic(...)`, `some r` = the operation goes on with r.
-/
namespace GV.Checks

/-- `rangeCheck` (compiler/utils.go:938-951), non-constant index:
    `(i < 0 || i >= x.$length) ? $throwRuntimeError("index out of range") : x.$array[x.$offset + i]`.
    Used for slices (`$length`), arrays and — since the fix — strings (`length`, expressions.go:529-540). -/
def indexCheck (len i : Int) : Option Int :=
  if i < 0 || i ≥ len then none else some i

/-- constant index into a slice / string (`constantIndex && !array`): only the upper bound is tested
    (the constant is known to be non-negative by the type checker). -/
def indexCheckConst (len i : Int) : Option Int :=
  if i ≥ len then none else some i

/-- `$subslice(slice, low, high, max)` (prelude.js:168-186). `high`/`max` = none when `undefined`.
    Result: (new length, new capacity, offset increment). -/
def subslice (len cap low : Int) (high max : Option Int) : Option (Int × Int × Int) :=
  let high := high.getD len
  let max := max.getD cap
  if low < 0 || high < low || max < high || high > cap || max > cap then none
  else some (high - low, max - low, low)

/-- `$substring(str, low, high)` (prelude.js:188-196). `s[lo:]` is emitted as `$substring(s, lo)`:
    `if (high === undefined) { high = str.length; }` (repair C08-substring-open-high).
    Result: length of the substring. -/
def substring (len low : Int) (high : Option Int) : Option Int :=
  let high := high.getD len
  if low < 0 || high < low || high > len then none else some (high - low)

/-- `$substring` before the repair: with `high === undefined` every comparison against it was false and
    `str.substring(low)` clamped `low` to the length. -/
def substringOld (len low : Int) (high : Option Int) : Option Int :=
  match high with
  | some high => if low < 0 || high < low || high > len then none else some (high - low)
  | none => if low < 0 then none else some (if low > len then 0 else len - low)

/-- `$makeSlice(typ, length, capacity = length)` (types.js:675-691) -/
def makeSlice (length : Int) (capacity : Option Int) : Option (Int × Int) :=
  let capacity := capacity.getD length
  if length < 0 || length > 2147483647 then none
  else if capacity < 0 || capacity < length || capacity > 2147483647 then none
  else some (length, capacity)

/-- `$sliceToGoArray` (prelude.js:207-211): `slice.$length < arrayType.len` → panic -/
def sliceToArray (slen alen : Int) : Option Unit :=
  if slen < alen then none else some ()

/-- nil map store (statements.go:703-719): `(m || $throwRuntimeError("assignment to entry in nil map")).set(...)`;
    the nil map is the JS value `false`. -/
def mapStore (isNil : Bool) : Option Unit := if isNil then none else some ()

/-- JS `ToInt32` of an integer-valued double -/
def toInt32 (x : Int) : Int := (x + 2147483648) % 4294967296 - 2147483648

/-- integer `/` on int (expressions.go:394-402):
    `(_q = x / y, (_q === _q && _q !== 1/0 && _q !== -1/0) ? _q >> 0 : $throwRuntimeError("integer divide by zero"))`.
    For y = 0 the JS quotient is NaN or ±Infinity; otherwise `>> 0` truncates toward zero and wraps. -/
def quoInt (x y : Int) : Option Int :=
  if y = 0 then none else some (toInt32 (Int.tdiv x y))

/-- integer `%` (expressions.go:407-408): `(_r = x % y, _r === _r ? _r : $throwRuntimeError(...))`; NaN iff y = 0. -/
def remInt (x y : Int) : Option Int :=
  if y = 0 then none else some (Int.tmod x y)

inductive ChanState | nil | open_ | closed
  deriving DecidableEq, Repr

/-- `$close` (goroutines.js:283-305): `chan === $chanNil` → "close of nil channel" (repair 878216e),
    `chan.$closed` → "close of closed channel". -/
def closeChan : ChanState → Option Unit
  | .nil => none
  | .closed => none
  | .open_ => some ()

/-- `$close` before the repair: only `chan.$closed` was tested and `$chanNil.$closed` was false. -/
def closeChanOld : ChanState → Option Unit
  | .closed => none
  | _ => some ()

/-- `$send` (goroutines.js:230-233): panics iff `chan.$closed` (a send on the nil channel blocks). -/
def sendChan : ChanState → Option Unit
  | .closed => none
  | _ => some ()

/-- dynamic value of an interface: nil, or (type id, comparable?, value id) -/
inductive Iface
  | nil
  | val (typ : Nat) (comparable : Bool) (v : Nat)
  deriving DecidableEq, Repr

/-- `$interfaceIsEqual` (prelude.js:553-567) on non-js.Object values: `none` = panic -/
def interfaceIsEqual (a b : Iface) : Option Bool :=
  match a, b with
  | .nil, .nil => some true
  | .nil, _ => some false
  | _, .nil => some false
  | .val ta ca va, .val tb _ vb =>
    if ta ≠ tb then some false
    else if !ca then none
    else some (va == vb)

/-- `$assertType(value, type, false)` for a non-interface target (types.js:725-771):
    `ok = value !== $ifaceNil && value.constructor === type`; not ok → `$panic(TypeAssertionError)`. -/
def assertConcrete (x : Iface) (target : Nat) : Option Nat :=
  match x with
  | .nil => none
  | .val t _ v => if t = target then some v else none

/-! ### `typ.comparable` of the prelude's type constructors (compiler/prelude/types.js `$newType`) -/
open GV.Spec.GoComparable in
mutual
/-- `typ.comparable`: `$kindSlice/$kindMap/$kindFunc: typ.comparable = false` (types.js:190,211,243);
    arrays: getter `elem.comparable` (types.js:147); structs: getter `fields.every(f => f.typ.comparable)`
    (types.js:261) — every field, whatever its name; everything else `true` (types.js:405). -/
def tyComparable : Ty → Bool
  | .slice => false
  | .map => false
  | .func => false
  | .arr _ e => tyComparable e
  | .struct fs => fieldsEvery fs
  | _ => true
/-- `fields.every(f => f.typ.comparable)` -/
def fieldsEvery : Fields → Bool
  | .nil => true
  | .cons _ t rest => if tyComparable t then fieldsEvery rest else false
end

open GV.Spec.GoComparable in
mutual
/-- the variant that skips blank fields (`f.name === "_" || f.typ.comparable`) — NOT what the code does -/
def tyComparableSkipBlank : Ty → Bool
  | .slice => false
  | .map => false
  | .func => false
  | .arr _ e => tyComparableSkipBlank e
  | .struct fs => fieldsEverySkipBlank fs
  | _ => true
def fieldsEverySkipBlank : Fields → Bool
  | .nil => true
  | .cons k t rest => if k == .blank || tyComparableSkipBlank t then fieldsEverySkipBlank rest else false
end

/-- `a == b` for two interface values of identical dynamic type `t` holding equal values: `$interfaceIsEqual`
    panics iff `!a.constructor.comparable` (prelude.js:566) -/
def ifaceEqSameType (t : GV.Spec.GoComparable.Ty) : Option Bool := if tyComparable t then some true else none

/-- `m[k] = v` with `k` an interface value of dynamic type `t`: `$ifaceKeyFor` panics iff `!c.comparable` (types.js:41-50) -/
def ifaceKeyFor (t : GV.Spec.GoComparable.Ty) : Option Unit := if tyComparable t then some () else none

/-! ### assertions to interface types: the emitted code and `$assertType` -/

inductive Dyn | nil | val (typ : Nat) (methods : List Nat)
  deriving DecidableEq, Repr

/-- what the compiler emits for `x.(I)` / `v, ok := x.(I)` -/
inductive AssertCode
  | assertType (I : List Nat) (tuple : Bool)   -- `$assertType(x, I)` / `$assertType(x, I, true)`
  | identity (tuple : Bool)                    -- `x` / `[x, true]` (NOT emitted by the code; see `compileAssertSkipImplied`)
  deriving DecidableEq, Repr

/-- compiler/expressions.go `*ast.TypeAssertExpr` (lines 797-805): `$assertType(%e, %s[, true])` for every asserted
    type; `static` (the method set of the operand's static interface type) is not consulted. -/
def compileAssert (_static I : List Nat) (tuple : Bool) : AssertCode := .assertType I tuple

/-- the "optimisation" that skips the check when the static type already implements I — NOT what the code does -/
def compileAssertSkipImplied (static I : List Nat) (tuple : Bool) : AssertCode :=
  if I.all (fun m => static.contains m) then .identity tuple else .assertType I tuple

inductive AssertRes | value (d : Dyn) | tuple (d : Dyn) (ok : Bool) | panic
  deriving DecidableEq, Repr

/-- `$assertType(value, type, returnTuple)` for an interface `type` (types.js:725-790): `value === $ifaceNil` → not ok;
    otherwise ok iff every method of the interface is in `$methodSet(value.constructor)`; not ok → `[zero, false]`
    or `$panic(new TypeAssertionError…)`; ok → the value itself (or `[value, true]`). -/
def runAssert : AssertCode → Dyn → AssertRes
  | .assertType _ false, .nil => .panic
  | .assertType _ true, .nil => .tuple .nil false
  | .assertType I tup, .val t ms =>
    if I.all (fun m => ms.contains m) then (if tup then .tuple (.val t ms) true else .value (.val t ms))
    else (if tup then .tuple .nil false else .panic)
  | .identity false, d => .value d
  | .identity true, d => .tuple d true

end GV.Checks
