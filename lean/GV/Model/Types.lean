/-
  GV.Model.Types — executable model of the run-time type machinery of the GopherJS prelude
  (/repo/compiler/prelude/types.js, prelude.js). Core Lean only.

  The JS heap of type objects is a list indexed by `typ.id` (`$typeIDCounter` = length).
  Strings are `List Char` (`Str`) so that the cache-key theorems can reason about characters.
  Every canonicalising cache of types.js (`$arrayTypes`, `$funcTypes`, `$structTypes`,
  `$interfaceTypes`, `$mapTypes`, and the per-object fields `elem.ptr`, `elem.slice`,
  `elem.Chan/SendChan/RecvChan`) is one association list keyed by (cache selector, key string);
  a per-object field `elem.ptr` is the entry `(cPtr, dec elem.id)`.
-/
namespace GV.Types

abbrev Str := List Char

/-! ### kinds (types.js:1-26) -/
def kArray : Nat := 17
def kChan : Nat := 18
def kFunc : Nat := 19
def kInterface : Nat := 20
def kMap : Nat := 21
def kPtr : Nat := 22
def kSlice : Nat := 23
def kString : Nat := 24
def kStruct : Nat := 25

/-- a method-list entry `{prop, name, pkg, typ}` (decls.go:600-612, package.go:299-307); `prop` is not modelled -/
structure Method where
  name : Str
  pkg : Str
  typ : Nat
deriving DecidableEq, Repr, Inhabited

/-- a struct field entry `{prop, name, embedded, exported, typ, tag}` (package.go:326-337) -/
structure Field where
  name : Str
  embedded : Bool
  exported : Bool
  typ : Nat
  tag : Str
deriving DecidableEq, Repr, Inhabited

/-- one run-time type object (the fields `$newType`/`init` set; types.js:71-407) -/
structure TypeObj where
  kind : Nat
  str : Str
  named : Bool
  pkg : Str
  methods : List Method := []
  elem : Nat := 0
  key : Nat := 0
  len : Nat := 0
  fields : List Field := []
  pkgPath : Str := []
  params : List Nat := []
  results : List Nat := []
  variadic : Bool := false
  sendOnly : Bool := false
  recvOnly : Bool := false
  comparable : Bool := true
deriving DecidableEq, Repr, Inhabited

abbrev CKey := Nat × Str

def cArray : Nat := 0
def cFunc : Nat := 1
def cIface : Nat := 2
def cMap : Nat := 3
def cStruct : Nat := 4
def cPtr : Nat := 5
def cSlice : Nat := 6
def cChan : Nat := 7
def cSendChan : Nat := 8
def cRecvChan : Nat := 9

/-- the whole mutable state of the type machinery -/
structure St where
  objs : List TypeObj
  cache : List (CKey × Nat)
  /-- `type.implementedBy[value.constructor.id]` of every interface type object: key (iface id, dynamic type id) -/
  implementedBy : List ((Nat × Nat) × Bool) := []
  /-- `type.missingMethodFor[value.constructor.id]` -/
  missingMethodFor : List ((Nat × Nat) × Str) := []
deriving Repr

def dflt : TypeObj := { kind := 0, str := [], named := false, pkg := [] }

def St.get (s : St) (i : Nat) : TypeObj := s.objs.getD i dflt
def St.size (s : St) : Nat := s.objs.length
def St.modify (s : St) (i : Nat) (f : TypeObj → TypeObj) : St :=
  { s with objs := s.objs.set i (f (s.get i)) }

/-- decimal rendering of a number (`String(n)` / implicit conversion in `+`) -/
def dec (n : Nat) : Str := Nat.toDigits 10 n

/-- `Array.prototype.join(sep)` for a one-character separator -/
def joinSep (sep : Char) : List Str → Str
  | [] => []
  | [x] => x
  | x :: y :: r => x ++ sep :: joinSep sep (y :: r)

def joinStr (sep : Str) (l : List Str) : Str := List.intercalate sep l

def boolStr (b : Bool) : Str := if b then "true".toList else "false".toList

/-! ### cache keys, exactly as types.js builds them -/

/-- types.js:531 `elem.id + "$" + len` -/
def arrayKey (elem len : Nat) : Str := dec elem ++ '$' :: dec len
/-- types.js:573 -/
def funcKey (ps rs : List Nat) (v : Bool) : Str :=
  joinSep ',' (ps.map dec) ++ '$' :: (joinSep ',' (rs.map dec) ++ '$' :: boolStr v)
/-- types.js:595 `m.pkg + "," + m.name + "," + m.typ.id` joined by "$" -/
def ifaceKey (ms : List Method) : Str :=
  joinSep '$' (ms.map fun m => m.pkg ++ ',' :: (m.name ++ ',' :: dec m.typ))
/-- types.js:617 -/
def mapKey (k e : Nat) : Str := dec k ++ '$' :: dec e
/-- the cache key of `$structType` BEFORE the repair (`f.name + "," + f.typ.id + "," + f.tag` joined by "$":
    no `embedded`, no `pkgPath`, separators not escaped); kept only for the "repaired defects" section of the proofs -/
def structKeyOld (fs : List Field) : Str :=
  joinSep '$' (fs.map fun f => f.name ++ ',' :: (dec f.typ ++ ',' :: f.tag))

/-- `$structKeyString`: `s.length + ":" + s` -/
def lenStr (x : Str) : Str := dec x.length ++ ':' :: x

/-- one field's part of the `$structType` key:
    `$structKeyString(f.name) + f.typ.id + (f.embedded ? "E" : "e") + (f.exported ? "X" : "x") + $structKeyString(f.tag)` -/
def fieldKey (f : Field) : Str :=
  lenStr f.name ++ (dec f.typ ++ (if f.embedded then 'E' else 'e') :: (if f.exported then 'X' else 'x') :: lenStr f.tag)

/-- `keyPkg`: the package path takes part in the key exactly when some field is not exported -/
def keyPkg (pkgPath : Str) (fs : List Field) : Str := if fs.any (fun f => !f.exported) then pkgPath else []

/-- the `$structType` cache key: `$structKeyString(keyPkg) + fields.map(fieldKey).join("")` -/
def structKey (pkgPath : Str) (fs : List Field) : Str := lenStr (keyPkg pkgPath fs) ++ (fs.map fieldKey).flatten

/-- a call of one of the canonicalising constructors on already canonical component types -/
inductive Ctor
  | array (elem len : Nat)
  | chan (elem : Nat) (sendOnly recvOnly : Bool)
  | func (params results : List Nat) (variadic : Bool)
  | iface (methods : List Method)
  | map (key elem : Nat)
  | ptr (elem : Nat)
  | slice (elem : Nat)
  | struct (pkgPath : Str) (fields : List Field)
deriving DecidableEq, Repr

/-- which cache and which key a constructor call uses -/
def ckey : Ctor → CKey
  | .array e n => (cArray, arrayKey e n)
  | .chan e so ro => (if so then cSendChan else if ro then cRecvChan else cChan, dec e)   -- types.js:548
  | .func ps rs v => (cFunc, funcKey ps rs v)
  | .iface ms => (cIface, ifaceKey ms)
  | .map k e => (cMap, mapKey k e)
  | .ptr e => (cPtr, dec e)
  | .slice e => (cSlice, dec e)
  | .struct p fs => (cStruct, structKey p fs)

def kindOf : Ctor → Nat
  | .array .. => kArray | .chan .. => kChan | .func .. => kFunc | .iface .. => kInterface
  | .map .. => kMap | .ptr .. => kPtr | .slice .. => kSlice | .struct .. => kStruct

/-! ### type strings -/

/-- `tag.replace(/\\/g, "\\\\").replace(/"/g, "\\\"")` (types.js:699) -/
def escTag : Str → Str
  | [] => []
  | c :: r => if c = '\\' then '\\' :: '\\' :: escTag r else if c = '"' then '\\' :: '"' :: escTag r else c :: escTag r

def lit (x : String) : Str := x.toList

/-- the `.string` of a new unnamed type (types.js:534,542-547,576-585,598-603,620,638,669,698-707) -/
def strOf (s : St) : Ctor → Str
  | .array e n => '[' :: (dec n ++ ']' :: (s.get e).str)
  | .chan e so ro =>
    let es := (s.get e).str
    let pre := (if ro then lit "<-" else []) ++ lit "chan" ++ (if so then lit "<- " else lit " ")
    if !so && !ro && es.head? = some '<' then pre ++ '(' :: (es ++ [')']) else pre ++ es
  | .func ps rs v =>
    let pstr := ps.map fun p => (s.get p).str
    let pstr := if v then
        match pstr.reverse with
        | [] => pstr     -- JS would throw; never emitted by the compiler
        | l :: r => (((lit "...") ++ l.drop 2) :: r).reverse
      else pstr
    let base := lit "func(" ++ joinStr (lit ", ") pstr ++ [')']
    match rs with
    | [] => base
    | [r] => base ++ ' ' :: (s.get r).str
    | _ => base ++ lit " (" ++ joinStr (lit ", ") (rs.map fun r => (s.get r).str) ++ [')']
  | .iface ms =>
    if ms.isEmpty then lit "interface {}" else
      lit "interface { " ++ joinStr (lit "; ") (ms.map fun m =>
        (if m.pkg ≠ [] then m.pkg ++ ['.'] else []) ++ m.name ++ ((s.get m.typ).str.drop 4)) ++ lit " }"
  | .map k e => lit "map[" ++ (s.get k).str ++ ']' :: (s.get e).str
  | .ptr e => '*' :: (s.get e).str
  | .slice e => '[' :: ']' :: (s.get e).str
  | .struct _ fs =>
    if fs.isEmpty then lit "struct {}" else
      lit "struct { " ++ joinStr (lit "; ") (fs.map fun f =>
        let str := (s.get f.typ).str ++ (if f.tag ≠ [] then ' ' :: '"' :: (escTag f.tag ++ ['"']) else [])
        if f.embedded then str else f.name ++ ' ' :: str) ++ lit " }"

/-! ### `$newType` and `init` -/

/-- `$newType(size, kind, string, named, pkg, …)` (types.js:71-407): struct and array kinds first create their
    pointer type (`typ.ptr = $newType(...)`, types.js:142,250), which therefore gets the smaller id. -/
def newType (s : St) (kind : Nat) (str : Str) (named : Bool) (pkg : Str) : St × Nat :=
  if kind = kStruct ∨ kind = kArray then
    let n := s.size
    let p : TypeObj := { kind := kPtr, str := '*' :: str, named := false,
                         pkg := if kind = kStruct then pkg else [], elem := n + 1 }
    let t : TypeObj := { kind := kind, str := str, named := named, pkg := pkg }
    ({ s with objs := s.objs ++ [p, t], cache := ((cPtr, dec (n + 1)), n) :: s.cache }, n + 1)
  else
    ({ s with objs := s.objs ++ [{ kind := kind, str := str, named := named, pkg := pkg }] }, s.size)

/-- `typ.init(...)` for each kind (types.js:143-166,173-177,183-188,194-199,205-209,220-224,238-244,254-316) -/
def initType (s : St) (id : Nat) : Ctor → St
  | .array e n => s.modify id fun o => { o with elem := e, len := n }
  | .chan e so ro => s.modify id fun o => { o with elem := e, sendOnly := so, recvOnly := ro }
  | .func ps rs v => s.modify id fun o => { o with params := ps, results := rs, variadic := v, comparable := false }
  | .iface ms => s.modify id fun o => { o with methods := ms }
  | .map k e => s.modify id fun o => { o with key := k, elem := e, comparable := false }
  | .ptr e => s.modify id fun o => { o with elem := e }
  | .slice e => s.modify id fun o => { o with elem := e, comparable := false }
  | .struct pp fs => s.modify id fun o => { o with pkgPath := pp, fields := fs }

/-- `$arrayType`, `$chanType`, `$funcType`, `$interfaceType`, `$mapType`, `$ptrType`, `$sliceType`, `$structType`
    (types.js:529-724): look the key up, otherwise `$newType`, store, `init`. -/
def canon (s : St) (c : Ctor) : St × Nat :=
  match s.cache.lookup (ckey c) with
  | some id => (s, id)
  | none =>
    let r := newType s (kindOf c) (strOf s c) false []
    (initType { r.1 with cache := (ckey c, r.2) :: r.1.cache } r.2 c, r.2)

/-- `T.methods = [...]` (decls.go:546-551) -/
def setMethods (s : St) (id : Nat) (ms : List Method) : St := s.modify id fun o => { o with methods := ms }

/-! ### `$methodSet` (types.js:409-473) -/

structure Ent where
  typ : Nat
  indirect : Bool
deriving DecidableEq, Repr

/-- `$ptrType(e.typ).methods` without creating the pointer type (a fresh pointer type has no methods) -/
def ptrMethods (s : St) (t : Nat) : List Method :=
  match s.cache.lookup (cPtr, dec t) with
  | some p => (s.get p).methods
  | none => []

structure LevelAcc where
  seen : List Nat
  mset : List Method
  next : List Ent
  allocs : List Nat

/-- body of `current.forEach(e => …)` (types.js:429-457) -/
def msVisit (s : St) (a : LevelAcc) (e : Ent) : LevelAcc :=
  let o := s.get e.typ
  if a.seen.contains e.typ then a else
    let a := { a with seen := e.typ :: a.seen }
    let a :=
      if o.named then
        let a := { a with mset := a.mset ++ o.methods }
        if e.indirect then
          { a with mset := a.mset ++ ptrMethods s e.typ,
                   allocs := if (s.cache.lookup (cPtr, dec e.typ)).isSome then a.allocs else a.allocs ++ [e.typ] }
        else a
      else a
    if o.kind = kStruct then
      { a with next := a.next ++ (o.fields.filter (·.embedded)).map fun f =>
          let ft := s.get f.typ
          if ft.kind = kPtr then ⟨ft.elem, true⟩ else ⟨f.typ, e.indirect⟩ }
    else if o.kind = kInterface then
      { a with mset := a.mset ++ o.methods }
    else a

/-- `mset.forEach(m => { if (base[m.name] === undefined) base[m.name] = m; })` (types.js:459-463) -/
def addBase (base : List Method) (mset : List Method) : List Method :=
  mset.foldl (fun b m => if b.any (fun x => x.name == m.name) then b else b ++ [m]) base

/-- the `while (current.length > 0)` loop; `fuel` bounds the number of levels (every level with a non-empty
    successor marks a new type string as seen, so `size + 1` levels suffice) -/
def msLoop (s : St) : Nat → List Ent → List Nat → List Method → List Nat → List Method × List Nat
  | 0, _, _, base, al => (base, al)
  | _ + 1, [], _, base, al => (base, al)
  | f + 1, cur, seen, base, al =>
    let a := cur.foldl (msVisit s) { seen := seen, mset := [], next := [], allocs := al }
    msLoop s f a.next a.seen (addBase base a.mset) a.allocs

/-- `$methodSet(typ)`: the methods (in insertion order; JS sorts them by name afterwards) and the named types
    whose pointer type `$ptrType(e.typ)` gets created on the way (types.js:438) -/
def methodSetAux (s : St) (t : Nat) : List Method × List Nat :=
  let o := s.get t
  let isPtr := o.kind = kPtr ∧ o.named = false
  if isPtr ∧ (s.get o.elem).kind = kInterface then ([], [])
  else msLoop s (s.size + 1) [⟨if isPtr then o.elem else t, isPtr⟩] [] [] []

def methodSet (s : St) (t : Nat) : List Method := (methodSetAux s t).1

/-- state after `$methodSet(typ)`: pointer types created lazily -/
def methodSetSt (s : St) (t : Nat) : St :=
  (methodSetAux s t).2.foldl (fun s e => (canon s (.ptr e)).1) s

/-! ### `$assertType` (types.js:725-779) -/

/-- first interface method not found in the value's method set (name, pkg and type object must agree) -/
def firstMissing (vms : List Method) : List Method → Option Str
  | [] => none
  | tm :: r => if vms.any (fun vm => vm.name == tm.name && vm.pkg == tm.pkg && vm.typ == tm.typ) then firstMissing vms r
               else some tm.name

/-- `$assertType(value, type, true)`: `dyn` is `value.constructor` (`none` = `$ifaceNil`).
    Answer = (ok, missingMethod). The memo tables are explicit state. -/
def assertType (s : St) (dyn : Option Nat) (t : Nat) : St × (Bool × Str) :=
  match dyn with
  | none => (s, (false, []))
  | some v =>
    if (s.get t).kind ≠ kInterface then (s, (v == t, []))
    else
      let vs := v          -- `value.constructor.id`
      match s.implementedBy.lookup (t, vs) with
      | some ok => (s, (ok, if ok then [] else (s.missingMethodFor.lookup (t, vs)).getD []))
      | none =>
        let vms := methodSet s v
        let s1 := methodSetSt s v
        match firstMissing vms (s.get t).methods with
        | none => ({ s1 with implementedBy := ((t, vs), true) :: s1.implementedBy }, (true, []))
        | some nm => ({ s1 with implementedBy := ((t, vs), false) :: s1.implementedBy,
                                missingMethodFor := ((t, vs), nm) :: s1.missingMethodFor }, (false, nm))

/-- a sequence of assertions threaded through the memo state -/
def assertSeq (s : St) : List (Option Nat × Nat) → List Bool
  | [] => []
  | (d, t) :: r => let a := assertType s d t; a.2.1 :: assertSeq a.1 r

/-! ### the prelude's initial state (types.js:475-492,610-613) -/

def basicNames : List (Nat × String) :=
  [(1, "bool"), (2, "int"), (3, "int8"), (4, "int16"), (5, "int32"), (6, "int64"), (7, "uint"), (8, "uint8"),
   (9, "uint16"), (10, "uint32"), (11, "uint64"), (12, "uintptr"), (13, "float32"), (14, "float64"),
   (15, "complex64"), (16, "complex128"), (24, "string"), (26, "unsafe.Pointer")]

/-- ids 0..17 basic types, 18 `$emptyInterface`, 19 `$error`, 20 `func() string` -/
def init : St :=
  let s0 : St := { objs := basicNames.map fun (k, n) =>
      { kind := k, str := n.toList, named := true, pkg := if k = 26 then lit "unsafe" else [] }, cache := [] }
  let s1 := (canon s0 (.iface [])).1
  let r := newType s1 kInterface (lit "error") true []
  let f := canon r.1 (.func [] [16] false)
  initType f.1 r.2 (.iface [{ name := lit "Error", pkg := [], typ := f.2 }])

/-! ### `$interfaceIsEqual` / `$equal` (prelude.js:517-567) -/

/-- run-time values as far as equality looks at them -/
inductive Val
  | num (n : Int)                 -- numbers, bools (0/1), also int64/complex encoded as one number pair below
  | pair (a b : Int)              -- int64/uint64 ($high,$low)
  | flt (x : Option Int)          -- a float; `none` = NaN (`NaN === NaN` is false)
  | cplx (re im : Option Int)     -- a complex number ($real,$imag); `none` = NaN component
  | str (s : Str)
  | ref (addr : Nat)              -- pointer, chan, func, map, slice object identity
  | tuple (vs : List Val)         -- struct fields in order / array elements
  | ifaceNil
  | iface (typ : Nat) (v : Val)   -- `new T(v)` : constructor + $val
deriving Repr

/-- `typ.comparable`: a stored flag for every kind except arrays and structs, where it is the getter
    `elem.comparable` / `fields.every(f => f.typ.comparable)` (types.js init of kindArray / kindStruct).
    `fuel` bounds the nesting depth (a type cannot contain itself by value). -/
def comparableM (s : St) : Nat → Nat → Bool
  | 0, _ => true
  | f + 1, t =>
    let o := s.get t
    if o.kind = kArray then comparableM s f o.elem
    else if o.kind = kStruct then o.fields.all fun fl => comparableM s f fl.typ
    else o.comparable

inductive EqRes | tt | ff | panic
deriving DecidableEq, Repr

def EqRes.ofBool (b : Bool) : EqRes := if b then .tt else .ff

mutual
/-- `$equal(a, b, type)` with `$interfaceIsEqual(a, b)` inlined for interface-typed operands (prelude.js:517-567) -/
def valEqual (s : St) : Val → Val → Nat → EqRes
  | .tuple as, .tuple bs, t =>
    let o := s.get t
    if o.kind = kArray then
      if as.length ≠ bs.length then .ff else listEqualArr s as bs o.elem
    else listEqualStruct s as bs (o.fields.map (·.typ))
  | .ifaceNil, .ifaceNil, _ => .tt
  | .iface ta va, .iface tb vb, _ =>
    if ta ≠ tb then .ff
    else if !comparableM s (s.size + 1) ta then .panic
    else valEqual s va vb ta
  | .num a, .num b, _ => .ofBool (a == b)
  | .pair a b, .pair c d, _ => .ofBool (a == c && b == d)
  | .flt a, .flt b, _ => .ofBool (a.isSome && a == b)
  | .cplx a b, .cplx c d, _ => .ofBool (a.isSome && b.isSome && a == c && b == d)
  | .str a, .str b, _ => .ofBool (a == b)
  | .ref a, .ref b, _ => .ofBool (a == b)
  | _, _, _ => .ff
def listEqualArr (s : St) : List Val → List Val → Nat → EqRes
  | a :: as, b :: bs, t =>
    match valEqual s a b t with
    | .tt => listEqualArr s as bs t
    | r => r
  | _, _, _ => .tt
def listEqualStruct (s : St) : List Val → List Val → List Nat → EqRes
  | a :: as, b :: bs, t :: ts =>
    match valEqual s a b t with
    | .tt => listEqualStruct s as bs ts
    | r => r
  | _, _, _ => .tt
end

/-- `$interfaceIsEqual(a, b)` on two interface values -/
def ifaceEqual (s : St) (a b : Val) : EqRes := valEqual s a b 0


end GV.Types
