/-
  GV.Model.Cache — the build cache of /repo/build/cache/cache.go.

  * key derivation: `commonKey` (Go's `%#v` of a struct of strings, i.e. `strconv.Quote` per string,
    with `unicode.IsPrint` an ABSTRACT predicate), `packageKey` ("package/" + commonKey + "/" + path —
    the REPAIRED scheme of fixes/C20-key-without-path-clean.patch; the old `path.Join` scheme is kept
    as `packageKeyOld` for the "repaired defects" theorems), `cachedPath` (SHA-256 replaced by an
    ABSTRACT function `h`);
  * `isTestPackage` (cache.go:130-133);
  * `Store` (cache.go:135-172) as a sequence of file-system steps over an abstract file system
    (map path → bytes, atomic rename); `Load` (cache.go:174-207, 225-245);
  * the on-disk envelope gzip(gob(buildTime) ++ gob(fields…)) is ABSTRACT: `sealE` / `openE` (seal / open).

  Strings are byte lists. Core Lean only.
-/
import GV.Model.PathClean
import GV.Spec.Utf8

namespace GV.Cache
open GV.PathClean

abbrev Bytes := List Nat
/-- instants (time.Time compared with `After`), e.g. Unix nanoseconds -/
abbrev Time := Int

/-! ### `strconv.Quote` on bytes (what `%#v` prints for a string) -/

/-- lower-case hex digit; injective on all of ℕ (only values < 16 occur for bytes) -/
def hexDigit (n : Nat) : Nat := if n < 10 then 48 + n else 87 + n

/-- `strconv.appendEscapedRune` for one byte that is ASCII or not part of a well-formed UTF-8 sequence
    (strconv/quote.go:33-108): `\a \b \f \n \r \t \v \\ \"`, printable ASCII as is, everything else `\xhh`. -/
def esc (b : Nat) : Str :=
  if b = 34 then [92, 34]
  else if b = 92 then [92, 92]
  else if b = 7 then [92, 97]
  else if b = 8 then [92, 98]
  else if b = 12 then [92, 102]
  else if b = 10 then [92, 110]
  else if b = 13 then [92, 114]
  else if b = 9 then [92, 116]
  else if b = 11 then [92, 118]
  else if 32 ≤ b ∧ b < 127 then [b]
  else [92, 120, hexDigit (b / 16), hexDigit (b % 16)]

/-- lower-case hex digits of `r`, `n` of them, most significant first -/
def hexN : Nat → Nat → Str
  | 0, _ => []
  | n + 1, r => hexN n (r / 16) ++ [hexDigit (r % 16)]

/-- `strconv.appendEscapedRune` for a rune `r ≥ 0x80` decoded from the well-formed bytes `bs`
    (strconv/quote.go:69-108): printable → the bytes themselves, else `\uXXXX` / `\UXXXXXXXX`. -/
def escRune (isPrint : Nat → Bool) (r : Nat) (bs : Str) : Str :=
  if isPrint r then bs
  else if r < 0x10000 then 92 :: 117 :: hexN 4 r
  else 92 :: 85 :: hexN 8 r

/-- the loop of `strconv.appendQuotedWith` (strconv/quote.go:33-67) followed by the closing quote.
    `skip` = number of bytes still to pass over because they belong to a rune already emitted.
    `utf8.DecodeRuneInString` is `GV.Spec.Utf8.decodeL` (Unicode Table 3-7; an invalid byte gives
    (U+FFFD, 1), which `Quote` prints as `\xhh`). -/
def quoteAux (isPrint : Nat → Bool) : Nat → Str → Str
  | _, [] => [34]
  | k + 1, _ :: t => quoteAux isPrint k t
  | 0, a :: t =>
    let d := GV.Spec.Utf8.decodeL (a :: t)
    if d.2 = 1 then esc a ++ quoteAux isPrint 0 t
    else escRune isPrint d.1 ((a :: t).take d.2) ++ quoteAux isPrint (d.2 - 1) t

/-- `strconv.Quote(s)` -/
def quote (isPrint : Nat → Bool) (s : Str) : Str := 34 :: quoteAux isPrint 0 s

/-! ### configuration and key -/

/-- the fields `commonKey` renders (cache.go:250-267); `tags = none` is a nil slice -/
structure Cfg where
  goos : Str
  goarch : Str
  goroot : Str
  gopath : Str
  tags : Option (List Str)
  version : Str
deriving DecidableEq, Repr

/-- `cache.BuildCache` (cache.go:107-124): the key fields plus `TestedPackage` -/
structure BuildCache where
  cfg : Cfg
  tested : Str
deriving DecidableEq, Repr

/-- `package` -/
def litPackage : Str := [112, 97, 99, 107, 97, 103, 101]
/-- `cache.commonKey{GOOS:` -/
def litHead : Str := [99, 97, 99, 104, 101, 46, 99, 111, 109, 109, 111, 110, 75, 101, 121, 123, 71, 79, 79, 83, 58]
/-- `, GOARCH:` -/
def litArch : Str := [44, 32, 71, 79, 65, 82, 67, 72, 58]
/-- `, GOROOT:` -/
def litRoot : Str := [44, 32, 71, 79, 82, 79, 79, 84, 58]
/-- `, GOPATH:` -/
def litPath : Str := [44, 32, 71, 79, 80, 65, 84, 72, 58]
/-- `, BuildTags:` -/
def litTags : Str := [44, 32, 66, 117, 105, 108, 100, 84, 97, 103, 115, 58]
/-- `, Version:` -/
def litVersion : Str := [44, 32, 86, 101, 114, 115, 105, 111, 110, 58]
/-- `[]string(nil)` -/
def litNil : Str := [91, 93, 115, 116, 114, 105, 110, 103, 40, 110, 105, 108, 41]
/-- `[]string{` -/
def litOpen : Str := [91, 93, 115, 116, 114, 105, 110, 103, 123]
/-- `_test` -/
def litTestSuffix : Str := [95, 116, 101, 115, 116]

/-- elements after the first one, then `}` -/
def tagsRest (ip : Nat → Bool) : List Str → Str
  | [] => [125]
  | b :: r => [44, 32] ++ quote ip b ++ tagsRest ip r

/-- `"a", "b"}` -/
def tagsElems (ip : Nat → Bool) : List Str → Str
  | [] => [125]
  | a :: r => quote ip a ++ tagsRest ip r

/-- `%#v` of a `[]string` (fmt/print.go printValue, Slice case) -/
def renderTags (ip : Nat → Bool) : Option (List Str) → Str
  | none => litNil
  | some l => litOpen ++ tagsElems ip l

/-- `commonKey` (cache.go:249-269): `fmt.Sprintf("%#v", ck)` of the function-local struct type;
    `ip` = `unicode.IsPrint` on runes ≥ 0x80 -/
def commonKey (ip : Nat → Bool) (c : Cfg) : Str :=
  litHead ++ (quote ip c.goos ++ (litArch ++ (quote ip c.goarch ++ (litRoot ++ (quote ip c.goroot ++
    (litPath ++ (quote ip c.gopath ++ (litTags ++ (renderTags ip c.tags ++ (litVersion ++
      (quote ip c.version ++ [125])))))))))))

/-- `packageKey` (cache.go, repaired): `"package/" + bc.commonKey() + "/" + importPath` -/
def packageKey (ip : Nat → Bool) (c : Cfg) (p : Str) : Str := litPackage ++ 47 :: (commonKey ip c ++ 47 :: p)

/-- REPAIRED DEFECT — the scheme before fixes/C20-key-without-path-clean.patch:
    `path.Join("package", bc.commonKey(), importPath)` -/
def packageKeyOld (ip : Nat → Bool) (c : Cfg) (p : Str) : Str := pathJoin [litPackage, commonKey ip c, p]

/-- `isTestPackage` (cache.go:130-133) -/
def isTestPackage (bc : BuildCache) (p : Str) : Bool :=
  decide (p ≠ [] ∧ (p = bc.tested ∨ p = bc.tested ++ litTestSuffix))

/-! ### abstract environment: hash, envelope -/

/-- What is NOT modelled: `isPrint` = `unicode.IsPrint` (Unicode tables); `h` = file name derived from SHA-256 of the key (cache.go:72-73);
    `sealE`/`openE` = gzip(gob(buildTime) ++ payload) and its reader. -/
structure Env (Payload : Type) where
  isPrint : Nat → Bool
  h : Str → Str
  sealE : Time × Payload → Bytes
  openE : Bytes → Option (Time × Payload)

/-- `cachedPath(packageKey)` (cache.go:67-74, repaired): `strings.Join` of the single key, then the hash -/
def cachedPath {P : Type} (E : Env P) (c : Cfg) (p : Str) : Str :=
  E.h (joinSlash [packageKey E.isPrint c p])

/-! ### abstract file system and the steps of Store -/

abbrev FS := Str → Option Bytes

def FS.empty : FS := fun _ => none

def FS.set (fs : FS) (p : Str) (v : Option Bytes) : FS := fun q => if q = p then v else fs q

inductive Step where
  | mkdir (final : Str)                  -- os.MkdirAll(filepath.Dir(path))   cache.go:146
  | createTemp (tmp : Str)               -- os.CreateTemp(dir, base)          cache.go:151
  | write (tmp : Str) (chunk : Bytes)    -- writes of gzip output             cache.go:157
  | close (tmp : Str)                    -- f.Close()                         cache.go:163
  | rename (src dst : Str)               -- os.Rename(f.Name(), path)         cache.go:165
  | remove (tmp : Str)                   -- os.Remove(f.Name()) on error      cache.go:160

def exec (fs : FS) : Step → FS
  | .mkdir _ => fs
  | .createTemp t => fs.set t (some [])
  | .write t c => fs.set t (some ((fs t).getD [] ++ c))
  | .close _ => fs
  | .rename s d => (fs.set d (fs s)).set s none
  | .remove t => fs.set t none

def run (fs : FS) (l : List Step) : FS := l.foldl exec fs

/-- the steps of a successful `Store` (cache.go:135-172). `sfx` is the random suffix chosen by
    `os.CreateTemp` (non-empty), `chunks` any chunking of the sealed entry into write calls. -/
def storeSteps {P : Type} (E : Env P) (bc : BuildCache) (p : Str) (sfx : Str) (chunks : List Bytes) : List Step :=
  if isTestPackage bc p then []                              -- cache.go:139-142
  else
    let final := cachedPath E bc.cfg p
    let tmp := final ++ sfx
    (Step.mkdir final :: Step.createTemp tmp :: chunks.map (Step.write tmp)) ++ [Step.close tmp, Step.rename tmp final]

/-- the steps of a `Store` whose serialisation fails after some writes (cache.go:157-162) -/
def storeStepsFail {P : Type} (E : Env P) (bc : BuildCache) (p : Str) (sfx : Str) (chunks : List Bytes) : List Step :=
  if isTestPackage bc p then []
  else
    let final := cachedPath E bc.cfg p
    let tmp := final ++ sfx
    (Step.mkdir final :: Step.createTemp tmp :: chunks.map (Step.write tmp)) ++ [Step.remove tmp]

/-- `Load` (cache.go:174-207 with deserialize 225-245): miss for the package under test, a missing
    file, an envelope that does not open, or an entry older than the sources. -/
def load {P : Type} (E : Env P) (bc : BuildCache) (p : Str) (srcModTime : Time) (fs : FS) : Option P :=
  if isTestPackage bc p then none                            -- cache.go:178-181
  else match fs (cachedPath E bc.cfg p) with
    | none => none                                           -- cache.go:185-193
    | some bytes =>
      match E.openE bytes with
      | none => none                                         -- cache.go:196-199
      | some (buildTime, payload) =>
        if srcModTime > buildTime then none                  -- cache.go:241-243, 200-203
        else some payload

/-- a complete `Store` as one file-system transition -/
def store {P : Type} (E : Env P) (bc : BuildCache) (p : Str) (t : Time) (pl : P) (fs : FS) : FS :=
  run fs (storeSteps E bc p [48] [E.sealE (t, pl)])

/-! ### `Sources.Write` → `prepareFile` (compiler/sources/serializer.go:79-118): the package being stored

  `prepareFile` works on a SHALLOW copy of the `ast.File`: the copy's `Comments` slice shares its backing array
  with the file the current build goes on to compile. The model keeps Go's slice semantics explicit: a heap of
  backing arrays, a slice = (array, length), `append` to a nil slice allocates a fresh array. -/

/-- backing arrays of `[]*ast.CommentGroup` slices; a comment group is a number (its identity) -/
abbrev Heap := Nat → List Nat

structure Slice where
  arr : Nat
  len : Nat
deriving DecidableEq, Repr

/-- the elements a slice denotes -/
def Slice.view (h : Heap) (s : Slice) : List Nat := (h s.arr).take s.len

def Heap.set (h : Heap) (a : Nat) (v : List Nat) : Heap := fun b => if b = a then v else h b

/-- serializer.go:93-108: `var floating []*ast.CommentGroup; for … { if !attached[cg] { floating = append(floating, cg) } }`
    — the appends go to a FRESH backing array `fresh`; returns the heap and the copy's `Comments`. -/
def prepareComments (h : Heap) (comments : Slice) (attached : Nat → Bool) (fresh : Nat) : Heap × Slice :=
  let fl := (comments.view h).filter (fun cg => !attached cg)
  (h.set fresh fl, ⟨fresh, fl.length⟩)

/-- NOT the code: the variant `floating := file.Comments[:0]`, which filters in place — the appends overwrite the
    front of the ORIGINAL backing array (kept to show that `store_preserves_input` is not vacuous). -/
def prepareCommentsInPlace (h : Heap) (comments : Slice) (attached : Nat → Bool) : Heap × Slice :=
  let fl := (comments.view h).filter (fun cg => !attached cg)
  (h.set comments.arr (fl ++ (h comments.arr).drop fl.length), ⟨comments.arr, fl.length⟩)

end GV.Cache
