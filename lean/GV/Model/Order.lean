/-
  GV.Model.Order — the places where an iteration order chosen by the Go runtime (map iteration)
  or by the environment (file listing) could reach the compiler's output, with that order as an
  explicit parameter ("oracle").

  * `sortedKeys`: the idiom `for k := range m { ks = append(ks, k) }; sort.Strings(ks)`
    (build.go BuildFiles/GetSortedSources, context.go Match/updateImports, dce/info.go getDeps,
    expressions.go escapingVars names, resolver.go String, collect.go Finish after the fix,
    sources.go Sort by file name, decls.go importDecls sort by path).
  * `Finish`: compiler/internal/typeparams/collect.go:232-240 — the propagation of generic
    instances over per-package instance sets, ids = discovery order.
-/
namespace GV.Order

/-- Go's `sort.Strings` on a list of keys; `mergeSort` with `≤` (any sort yields the same result on a
    total antisymmetric order, see `Props.C17.sort_perm_invariant`). -/
def sortedKeys (ks : List String) : List String := ks.mergeSort (fun a b => decide (a ≤ b))

/-! ### model of `Collector.Finish` -/

/-- an instance: (object name, rendered type arguments) -/
abbrev Inst := String × String

/-- per package: instances in discovery order (the id of an instance is its index) and the cursor
    `next` of `InstanceSet.next()` -/
structure PkgSet where
  pkg : String
  insts : List Inst
  cursor : Nat
deriving Repr, DecidableEq

abbrev Sets := List PkgSet

/-- `PackageInstanceSets.Add` → `InstanceSet.Add`: append if absent; a new package gets a new set. -/
def addInst (s : Sets) (p : String) (i : Inst) : Sets :=
  if s.any (fun ps => ps.pkg == p) then
    s.map (fun ps => if ps.pkg == p then (if ps.insts.contains i then ps else { ps with insts := ps.insts ++ [i] }) else ps)
  else s ++ [{ pkg := p, insts := [i], cursor := 0 }]

def getSet (s : Sets) (p : String) : Option PkgSet := s.find? (fun ps => ps.pkg == p)

/-- `c.propagate(pkgPath, instances)`: scan instances from the cursor until exhausted; `uses i` are the
    instances that scanning `i` discovers (in source order). Fuel bounds the loop. -/
def propagate (uses : String → Inst → List (String × Inst)) : Nat → Sets → String → Sets
  | 0, s, _ => s
  | fuel + 1, s, p =>
    match getSet s p with
    | none => s
    | some ps =>
      match ps.insts[ps.cursor]? with
      | none => s                                           -- exhausted
      | some i =>
        let s1 := s.map (fun q => if q.pkg == p then { q with cursor := q.cursor + 1 } else q)
        let s2 := (uses p i).foldl (fun acc u => addInst acc u.1 u.2) s1
        propagate uses fuel s2 p

def allExhausted (s : Sets) : Bool := s.all (fun ps => ps.cursor ≥ ps.insts.length)

/-- `Finish` with the order in which the packages are visited in each round given by `order`
    (applied to the current key list). -/
def finishWith (uses : String → Inst → List (String × Inst)) (order : List String → List String) :
    Nat → Sets → Sets
  | 0, s => s
  | fuel + 1, s =>
    if allExhausted s then s
    else
      let ks := order (s.map (·.pkg))
      finishWith uses order fuel (ks.foldl (fun acc p => propagate uses (fuel + 1) acc p) s)

/-- the code before the fix: visit in Go's map iteration order (`oracle`) -/
def finishMapOrder (uses) (oracle : List String → List String) := finishWith uses oracle

/-- the code after the fix: collect the keys in map order, then `sort.Strings` -/
def finishSorted (uses) (oracle : List String → List String) :=
  finishWith uses (fun ks => sortedKeys (oracle ks))

/-- id of an instance = its index in its package's list -/
def idOf (s : Sets) (p : String) (i : Inst) : Option Nat :=
  (getSet s p).bind (fun ps => let k := ps.insts.idxOf i; if k < ps.insts.length then some k else none)

end GV.Order
