/-
  GV.Model.JsTagKey — the JavaScript property accessor emitted for a `js:"…"` struct tag
  (compiler/utils.go `formatJSStructTagVal`, used by expressions.go / statements.go for reading, assigning and calling
  fields of a struct that wraps a *js.Object) and the ECMAScript reading of that accessor.

  The compiler's output is UTF-8 text and a JavaScript engine reads it as a sequence of code points, so the model works
  on code points: the tag is the list of its runes (`for i, r := range jsTag`), the emitted key is a list of source code
  points, the property name it denotes is a list of UTF-16 code units.

  `unicode.IsLetter`, `unicode.IsDigit` and `unicode.IsPrint` are Unicode tables: they are parameters of the model.
-/
import GV.Model.StrLit
import GV.Spec.JsTable

namespace GV.JsTagKey
open GV.Spec.JsTable

/-- the classification tables the Go code consults -/
structure Tables where
  isLetter : Nat → Bool
  isDigit : Nat → Bool
  isPrint : Nat → Bool

inductive Key where
  | dot (name : List Nat)          -- `.name`
  | bracket (lit : List Nat)       -- `[` string literal `]`; `lit` includes the two quotes
  deriving DecidableEq, Repr

/-- `\uHHHH` with upper-case hex digits (text/template's `jsLowUni` + `hex`, and `\u%04X` for r ≤ 0xFFFF) -/
def u4 (r : Nat) : List Nat :=
  [92, 117, GV.StrLit.hexUpper (r / 4096 % 16), GV.StrLit.hexUpper (r / 256 % 16), GV.StrLit.hexUpper (r / 16 % 16),
    GV.StrLit.hexUpper (r % 16)]

/-- `fmt.Fprintf(w, "\\u%04X", r)`: four digits for r ≤ 0xFFFF, five or six beyond (which JavaScript does NOT read
    as one escape) -/
def fmtU (r : Nat) : List Nat :=
  if r ≤ 0xFFFF then u4 r
  else if r ≤ 0xFFFFF then
    [92, 117, GV.StrLit.hexUpper (r / 65536 % 16), GV.StrLit.hexUpper (r / 4096 % 16), GV.StrLit.hexUpper (r / 256 % 16),
      GV.StrLit.hexUpper (r / 16 % 16), GV.StrLit.hexUpper (r % 16)]
  else
    [92, 117, GV.StrLit.hexUpper (r / 1048576 % 16), GV.StrLit.hexUpper (r / 65536 % 16), GV.StrLit.hexUpper (r / 4096 % 16),
      GV.StrLit.hexUpper (r / 256 % 16), GV.StrLit.hexUpper (r / 16 % 16), GV.StrLit.hexUpper (r % 16)]

/-- text/template `JSEscape` (funcs.go:679-727) on one rune of well-formed UTF-8 input -/
def escRune (T : Tables) (r : Nat) : List Nat :=
  if r = 92 then [92, 92]                -- `\\`
  else if r = 39 then [92, 39]           -- `\'`
  else if r = 34 then [92, 34]           -- `\"`
  else if r = 60 ∨ r = 62 ∨ r = 38 ∨ r = 61 then u4 r     -- `<` `>` `&` `=`
  else if r < 32 then u4 r               -- `\u00XX`
  else if r < 128 then [r]
  else if T.isPrint r then [r]           -- copied as it is (UTF-8 in the output file)
  else fmtU r

def jsEscape (T : Tables) (runes : List Nat) : List Nat := (runes.map (escRune T)).flatten

/-- utils.go:988-990 `ok := unicode.IsLetter(r) || (i != 0 && unicode.IsDigit(r)) || r == '$' || r == '_'` for every rune -/
def identFrom (T : Tables) : Bool → List Nat → Bool
  | _, [] => true
  | first, r :: rest => (T.isLetter r || (!first && T.isDigit r) || r == 36 || r == 95) && identFrom T false rest

/-- utils.go:987-998 `formatJSStructTagVal` -/
def tagKey (T : Tables) (runes : List Nat) : Key :=
  if identFrom T true runes then .dot runes else .bracket ([34] ++ jsEscape T runes ++ [34])

/-- the seeded variant: the bracket key built with the compiler's `encodeString` (utils.go:810-839), which renders a Go
    string — its BYTES — one code unit per byte -/
def tagKeyBytes (T : Tables) (runes : List Nat) (bytes : List Nat) : Key :=
  if identFrom T true runes then .dot runes else .bracket (GV.StrLit.encodeString bytes)

/-! ### the ECMAScript reading -/

def hex4 (a b c d : Nat) : Option Nat :=
  match GV.StrLit.hexVal a, GV.StrLit.hexVal b, GV.StrLit.hexVal c, GV.StrLit.hexVal d with
  | some a, some b, some c, some d => some (a * 4096 + b * 256 + c * 16 + d)
  | _, _, _, _ => none

/-- one source character or escape sequence of a double-quoted literal: its UTF-16 code units and what follows.
    Escapes `\\ \' \"`, `\uHHHH`, `\xHH`; a raw source character stands for its UTF-16 encoding. `none` = the closing
    quote, a raw line terminator, or an escape outside this fragment. -/
def litStep (l : List Nat) : Option (List Nat × List Nat) :=
  match l with
  | [] => none
  | c :: rest =>
    if c = 92 then
      match rest with
      | [] => none
      | e :: rest1 =>
        if e = 92 ∨ e = 39 ∨ e = 34 then some ([e], rest1)
        else if e = 117 then
          match rest1 with
          | a :: b :: c2 :: d :: rest2 => (hex4 a b c2 d).map (fun u => ([u], rest2))
          | _ => none
        else if e = 120 then
          match rest1 with
          | a :: b :: rest2 =>
            match GV.StrLit.hexVal a, GV.StrLit.hexVal b with
            | some x, some y => some ([x * 16 + y], rest2)
            | _, _ => none
          | _ => none
        else none
    else if c = 10 ∨ c = 13 ∨ c = 34 then none
    else some (utf16Of c, rest)

/-- string value of the source characters after the opening quote, up to the closing quote, which must be the last
    character (fuel: one unit per character suffices) -/
def unescN : Nat → List Nat → List Nat → Option (List Nat)
  | 0, _, _ => none
  | n + 1, l, acc =>
    if l = [34] then some acc
    else
      match litStep l with
      | some (us, rest) => unescN n rest (acc ++ us)
      | none => none

def unesc (l : List Nat) (acc : List Nat) : Option (List Nat) := unescN l.length l acc

/-- the property name an accessor denotes. Dot notation: the IdentifierName's characters — this presupposes that every rune the
    identifier test lets through is an ECMAScript IdentifierStart/IdentifierPart (letters, `$`, `_`, decimal digits Nd; the
    former `unicode.IsNumber` test also let category No through, e.g. `x²`, which is a SyntaxError — repaired by
    fixes/C11-js-tag-ident-digit.patch). -/
def keyName : Key → Option (List Nat)
  | .dot name => some ((name.map utf16Of).flatten)       -- IdentifierName without escapes: its characters
  | .bracket (34 :: rest) => unesc rest []
  | .bracket _ => none

end GV.JsTagKey
