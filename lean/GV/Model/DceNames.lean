/-
  GV.Model.DceNames — the filter-name grammar of /repo/compiler/internal/dce/filters.go over a term language of types.

  DCE matches a dependency with a declaration by comparing NAME STRINGS.  This file models how the strings are
  built (filterGen.Object / TypeArgs / Signature / Tuple / Type) as a rendering of type terms into TOKEN lists; every
  token stands for a fixed piece of text (`obj p n` ↦ "p.n", `slice` ↦ "[]", `arr k` ↦ "[k]", `map` ↦ "map[",
  `chan` ↦ "chan ", `func` ↦ "func", `comma` ↦ ", ", `semi` ↦ ";", `sp` ↦ " ", `ellipsis` ↦ "..." …).
  Atoms (`atom`, `obj`) are taken as indivisible: identifiers and import paths contain none of the delimiter
  characters `[ ] ( ) , ; * ~ |` and blanks, and an identifier contains no dot.

  The term language is what is left of a Go type AFTER the identifications filters.go makes on purpose
  (they are listed, as statements, in GV/Props/C05.lean section "filter names"):
    (i)   channel directions are dropped (`chan`, `<-chan`, `chan<-` all render "chan "),
    (ii)  parameter / result NAMES are dropped, only their types are rendered (Tuple),
    (iii) a method filter does not mention the receiver type (getMethodFilter),
    (iv)  an unreplaced type parameter is rendered as its constraint, so its name is dropped (TypeParam),
    (v)   struct tags are dropped; union terms and interface methods are sorted.
  Not modelled: struct, interface and union types (rendered by filterGen.Struct/Interface/Union), the `[...]` marker
  for recursive type arguments.
  Core Lean only.
-/
namespace GV.DceNames

inductive Tok
  | atom (s : String)            -- basic type name, e.g. int, string, any, error
  | obj (pkg name : String)      -- objectName: package path, (nest names,) object name
  | star | slice | arr (n : Nat) | chan | map | func
  | lb | rb | lp | rp | comma | semi | sp | ellipsis
deriving DecidableEq, Repr

mutual
  /-- types as filters.go sees them -/
  inductive Ty
    | basic (s : String)
    | named (pkg name : String) (nest args : TyList)   -- filterGen.Object: name[nest; args]
    | ptr (e : Ty)
    | slice (e : Ty)
    | arr (n : Nat) (e : Ty)
    | chan (e : Ty)
    | map (k v : Ty)
    | func (params results : TyList)                    -- "func" + Signature
  /-- tuples and type-argument lists; `variadic t` is a final `...t` parameter -/
  inductive TyList
    | nil
    | cons (t : Ty) (l : TyList)
    | variadic (t : Ty)
end

def TyList.isNil : TyList → Bool
  | .nil => true
  | _ => false

/-- exactly one (non-variadic) element: a single result is rendered without parentheses -/
def TyList.isSingle : TyList → Bool
  | .cons _ .nil => true
  | _ => false

mutual
  /-- filters.go:313-342 `Type` (array, chan, map, named, pointer, signature, slice, basic) -/
  def Ty.render : Ty → List Tok
    | .basic s => [.atom s]
    | .named p n nest args =>
      -- filters.go:254-274 `Object` + 293-311 `TypeArgs`
      .obj p n ::
        (if nest.isNil && args.isNil then []
         else .lb :: ((if nest.isNil then [] else nest.render ++ .semi :: (if args.isNil then [] else [.sp])) ++
                args.render ++ [.rb]))
    | .ptr e => .star :: e.render
    | .slice e => .slice :: e.render
    | .arr n e => .arr n :: e.render
    | .chan e => .chan :: e.render
    | .map k v => .map :: (k.render ++ .rb :: v.render)
    | .func ps rs =>
      -- filters.go:276-291 `Signature`
      .func :: .lp :: (ps.render ++ .rp ::
        (if rs.isNil then [] else if rs.isSingle then .sp :: rs.render else .lp :: (rs.render ++ [.rp])))
  /-- filters.go:313-331 `Tuple` / the `toStr` of `TypeArgs`: elements separated by ", " -/
  def TyList.render : TyList → List Tok
    | .nil => []
    | .cons t l => t.render ++ (if l.isNil then [] else .comma :: l.render)
    | .variadic t => .ellipsis :: t.render
end

/-- filters.go:60-79 `getMethodFilter`: objectName(method) + Signature — the receiver does not occur -/
def methodFilter (pkg name : String) (params results : TyList) : List Tok :=
  .obj pkg name :: (Ty.func params results).render.tail

/-- filters.go:54-56 `getObjectFilter` -/
def objectFilter (pkg name : String) (nest args : TyList) : List Tok := (Ty.named pkg name nest args).render

end GV.DceNames
