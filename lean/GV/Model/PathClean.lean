/-
  GV.Model.PathClean — Go's `path.Clean` / `path.Join` (GOROOT/src/path/path.go), which `cachedPath` and
  `packageKey` of /repo/build/cache/cache.go used BEFORE fixes/C20-key-without-path-clean.patch. Since that
  repair the cache code no longer calls them; the model is kept for the "repaired defects" theorems of
  GV.Props.C20 (the old scheme's collisions) and is still compared with the real `path.Clean`.

  Strings are byte lists (`List Nat`, '/' = 47, '.' = 46).

  `path.Clean` (path.go:65-123) reads the input one '/'-delimited element per loop iteration
  (`case path[r] == '/'` skips the separator / an empty element, the two `.`-cases recognise the
  whole elements "." and "..", the default case copies one element) and writes into a buffer that is
  a '/'-joined stack of elements. The model keeps that stack as a list of elements (top first).
  Go's `dotdot` index marks the protected prefix (the leading "/" of a rooted path, or the leading
  "../../.." of a relative one); since ".." is only ever pushed when it becomes protected, "can
  backtrack" (`out.w > dotdot`) is exactly "the stack is non-empty and its top is not ..".
  `cleanBytes` below is the literal byte/index transcription of the same function (with fuel); the
  driver exposes both and the check compares both with the real `path.Clean`.
-/
namespace GV.PathClean

abbrev Str := List Nat

/-- first '/'-delimited element of `s`, and the remaining elements -/
def split1 : Str → Str × List Str
  | [] => ([], [])
  | c :: cs =>
    let r := split1 cs
    if c = 47 then ([], r.1 :: r.2) else (c :: r.1, r.2)

/-- `strings.Split(s, "/")`: always at least one element -/
def splitSlash (s : Str) : List Str := (split1 s).1 :: (split1 s).2

/-- `strings.Join(es, "/")` -/
def joinSlash : List Str → Str
  | [] => []
  | [e] => e
  | e :: e' :: es => e ++ 47 :: joinSlash (e' :: es)

/-- One loop iteration of `path.Clean` (path.go:85-116) on the element `e`;
    `st` = elements in the output buffer, last one first. -/
def step (rooted : Bool) (st : List Str) (e : Str) : List Str :=
  if e = [] then st                       -- path.go:87 empty path element
  else if e = [46] then st                -- path.go:90 "." element
  else if e = [46, 46] then               -- path.go:93 ".." element
    match st with
    | [] => if rooted then [] else [[46, 46]]                    -- path.go:103-110
    | top :: rest => if top = [46, 46] then [46, 46] :: top :: rest  -- cannot backtrack (not rooted)
                     else rest                                   -- path.go:97-102 backtrack
  else e :: st                            -- path.go:112-120 real path element

/-- `path.Clean` (path.go:65-123) -/
def clean (s : Str) : Str :=
  if s = [] then [46]                                    -- path.go:66-68
  else
    let rooted : Bool := s.head? = some 47               -- path.go:70
    let st := (splitSlash s).foldl (step rooted) []
    let body := joinSlash st.reverse
    if rooted then 47 :: body                            -- buffer starts with "/"
    else if body = [] then [46] else body                -- path.go:119-121

/-- the buffer loop of `path.Join` (path.go:160-170): elements are appended with a '/' once the
    buffer is non-empty; leading empty elements are skipped. -/
def joinRaw : Str → List Str → Str
  | buf, [] => buf
  | buf, e :: es =>
    if buf ≠ [] ∨ e ≠ [] then
      joinRaw ((if buf ≠ [] then buf ++ [47] else buf) ++ e) es
    else joinRaw buf es

/-- `path.Join` (path.go:152-172) -/
def pathJoin (elems : List Str) : Str :=
  if (elems.map List.length).sum = 0 then [] else clean (joinRaw [] elems)

/-! ### literal byte-level transcription (not used in proofs; compared with the real code) -/

structure LazyBuf where
  buf : Array Nat
  w : Nat

/-- `path.Clean` with indices `r`, `w`, `dotdot` exactly as in path.go:65-123 (lazybuf replaced by an
    eager buffer of which only the first `w` bytes count). `fuel` bounds the loop (each iteration
    advances `r`). -/
def cleanBytes (s : Str) : Str :=
  let p := s.toArray
  let n := p.size
  if n = 0 then [46] else
  let rooted := p[0]! = 47
  let rec loop (fuel r w dotdot : Nat) (out : Array Nat) : Nat × Array Nat :=
    match fuel with
    | 0 => (w, out)
    | fuel + 1 =>
      if r < n then
        if p[r]! = 47 then loop fuel (r + 1) w dotdot out
        else if p[r]! = 46 ∧ (r + 1 = n ∨ p[r+1]! = 47) then loop fuel (r + 1) w dotdot out
        else if p[r]! = 46 ∧ p[r+1]! = 46 ∧ (r + 2 = n ∨ p[r+2]! = 47) then
          if w > dotdot then
            let rec back (k w : Nat) : Nat :=
              match k with
              | 0 => w
              | k + 1 => if w > dotdot ∧ out[w]! ≠ 47 then back k (w - 1) else w
            loop fuel (r + 2) (back n (w - 1)) dotdot out
          else if ¬ rooted then
            let (w, out) := if w > 0 then (w + 1, (out.take w).push 47) else (w, out.take w)
            let out := (out.push 46).push 46
            loop fuel (r + 2) (w + 2) (w + 2) out
          else loop fuel (r + 2) w dotdot out
        else
          let (w, out) := if (rooted ∧ w ≠ 1) ∨ (¬ rooted ∧ w ≠ 0) then (w + 1, (out.take w).push 47) else (w, out.take w)
          let rec copy (k r w : Nat) (out : Array Nat) : Nat × Nat × Array Nat :=
            match k with
            | 0 => (r, w, out)
            | k + 1 => if r < n ∧ p[r]! ≠ 47 then copy k (r + 1) (w + 1) (out.push p[r]!) else (r, w, out)
          let (r, w, out) := copy n r w out
          loop fuel r w dotdot out
      else (w, out)
  let (w, out) := if rooted then loop (n + 1) 1 1 1 #[47] else loop (n + 1) 0 0 0 #[]
  if w = 0 then [46] else (out.take w).toList

end GV.PathClean
