/-
  GV.Model.Names — executable model of the JavaScript name allocator of the GopherJS compiler:
  `funcContext.newVariable` (/repo/compiler/utils.go:284-327) with and without minification,
  `encodeIdent` (utils.go:953-963), the reserved-word seeding of the root context
  (/repo/compiler/package.go:119-146, list at compiler.go:26-41) and the allVars copy made by
  `nestedFunctionContext` (/repo/compiler/functions.go:24-69).

  A name is the list of its bytes. A `funcContext` together with its `parent` chain is a
  `List Scope`: the head is the context itself, the tail its parents, the root context last.
  (The compiler only ever allocates in the context it is currently translating and its
  parent chain is exactly the stack of enclosing functions, so the chain is the whole live state.)
  Core Lean + Std.HashMap only.
-/
import Std.Data.HashMap

namespace GV.Names

abbrev Name := List Nat

/-- `allVars map[string]int`; a missing key reads as 0 like a Go map. -/
abbrev VarMap := Std.HashMap Name Nat

def VarMap.cnt (m : VarMap) (k : Name) : Nat := m.getD k 0
def VarMap.set (m : VarMap) (k : Name) (v : Nat) : VarMap := m.insert k v

theorem VarMap.cnt_set (m : VarMap) (k a : Name) (v : Nat) :
    (VarMap.set m k v).cnt a = if k = a then v else m.cnt a := by
  simp [VarMap.cnt, VarMap.set, Std.HashMap.getD_insert]

/-- compiler.go:29-36, the `keywords` list that fills `reservedKeywords` (as byte lists). -/
def reserved : List Name := [
  /- abstract -/ [97, 98, 115, 116, 114, 97, 99, 116],
  /- arguments -/ [97, 114, 103, 117, 109, 101, 110, 116, 115],
  /- await -/ [97, 119, 97, 105, 116],
  /- async -/ [97, 115, 121, 110, 99],
  /- boolean -/ [98, 111, 111, 108, 101, 97, 110],
  /- break -/ [98, 114, 101, 97, 107],
  /- byte -/ [98, 121, 116, 101],
  /- case -/ [99, 97, 115, 101],
  /- catch -/ [99, 97, 116, 99, 104],
  /- char -/ [99, 104, 97, 114],
  /- class -/ [99, 108, 97, 115, 115],
  /- const -/ [99, 111, 110, 115, 116],
  /- continue -/ [99, 111, 110, 116, 105, 110, 117, 101],
  /- debugger -/ [100, 101, 98, 117, 103, 103, 101, 114],
  /- default -/ [100, 101, 102, 97, 117, 108, 116],
  /- delete -/ [100, 101, 108, 101, 116, 101],
  /- do -/ [100, 111],
  /- double -/ [100, 111, 117, 98, 108, 101],
  /- else -/ [101, 108, 115, 101],
  /- enum -/ [101, 110, 117, 109],
  /- eval -/ [101, 118, 97, 108],
  /- export -/ [101, 120, 112, 111, 114, 116],
  /- extends -/ [101, 120, 116, 101, 110, 100, 115],
  /- false -/ [102, 97, 108, 115, 101],
  /- final -/ [102, 105, 110, 97, 108],
  /- finally -/ [102, 105, 110, 97, 108, 108, 121],
  /- float -/ [102, 108, 111, 97, 116],
  /- for -/ [102, 111, 114],
  /- function -/ [102, 117, 110, 99, 116, 105, 111, 110],
  /- goto -/ [103, 111, 116, 111],
  /- if -/ [105, 102],
  /- implements -/ [105, 109, 112, 108, 101, 109, 101, 110, 116, 115],
  /- import -/ [105, 109, 112, 111, 114, 116],
  /- in -/ [105, 110],
  /- instanceof -/ [105, 110, 115, 116, 97, 110, 99, 101, 111, 102],
  /- int -/ [105, 110, 116],
  /- interface -/ [105, 110, 116, 101, 114, 102, 97, 99, 101],
  /- let -/ [108, 101, 116],
  /- long -/ [108, 111, 110, 103],
  /- native -/ [110, 97, 116, 105, 118, 101],
  /- new -/ [110, 101, 119],
  /- null -/ [110, 117, 108, 108],
  /- package -/ [112, 97, 99, 107, 97, 103, 101],
  /- private -/ [112, 114, 105, 118, 97, 116, 101],
  /- protected -/ [112, 114, 111, 116, 101, 99, 116, 101, 100],
  /- public -/ [112, 117, 98, 108, 105, 99],
  /- return -/ [114, 101, 116, 117, 114, 110],
  /- short -/ [115, 104, 111, 114, 116],
  /- static -/ [115, 116, 97, 116, 105, 99],
  /- super -/ [115, 117, 112, 101, 114],
  /- switch -/ [115, 119, 105, 116, 99, 104],
  /- synchronized -/ [115, 121, 110, 99, 104, 114, 111, 110, 105, 122, 101, 100],
  /- this -/ [116, 104, 105, 115],
  /- throw -/ [116, 104, 114, 111, 119],
  /- throws -/ [116, 104, 114, 111, 119, 115],
  /- transient -/ [116, 114, 97, 110, 115, 105, 101, 110, 116],
  /- true -/ [116, 114, 117, 101],
  /- try -/ [116, 114, 121],
  /- typeof -/ [116, 121, 112, 101, 111, 102],
  /- undefined -/ [117, 110, 100, 101, 102, 105, 110, 101, 100],
  /- using -/ [117, 115, 105, 110, 103],
  /- var -/ [118, 97, 114],
  /- void -/ [118, 111, 105, 100],
  /- volatile -/ [118, 111, 108, 97, 116, 105, 108, 101],
  /- while -/ [119, 104, 105, 108, 101],
  /- with -/ [119, 105, 116, 104],
  /- yield -/ [121, 105, 101, 108, 100]]

/-- utils.go:296-304: the inner loop `name = string(rune(offset+(j%26))) + name; j = j/26 - 1; if j == -1 break`
    (bijective base 26). `acc` is the `name` built so far; `j/26 - 1 == -1` iff `j/26 == 0`. -/
def shortChars (off : Nat) (j : Nat) (acc : Name) : Name :=
  if j / 26 = 0 then (off + j % 26) :: acc
  else shortChars off (j / 26 - 1) ((off + j % 26) :: acc)
termination_by j
decreasing_by omega

/-- the `i`-th candidate name: offset `'a'` for locals, `'A'` for package level (utils.go:292-295). -/
def shortName (pkgLevel : Bool) (i : Nat) : Name :=
  shortChars (if pkgLevel then 65 else 97) i []

/-- utils.go:290-309: `for i := 0; ; i++ { name = short(i); if fc.allVars[name] == 0 { break } }`.
    The Go loop is unbounded; `fuel = size of the map + 1` candidates always contain a free one. -/
def firstFree (pkgLevel : Bool) (m : VarMap) : Nat → Nat → Option Name
  | 0, _ => none
  | fuel + 1, i =>
    if m.cnt (shortName pkgLevel i) = 0 then some (shortName pkgLevel i)
    else firstFree pkgLevel m fuel (i + 1)

def hexU (n : Nat) : Nat := if n < 10 then 48 + n else 55 + n

/-- net/url `shouldEscape(c, encodeQueryComponent)` negated: bytes QueryEscape leaves alone. -/
def unreserved (c : Nat) : Bool :=
  (97 ≤ c && c ≤ 122) || (65 ≤ c && c ≤ 90) || (48 ≤ c && c ≤ 57) || c == 45 || c == 95 || c == 46 || c == 126

/-- utils.go:953-963 `encodeIdent`: `url.QueryEscape`, then `%C2%B7` back to the middle dot, then `%` to `$`. -/
def encodeIdent : Name → Name
  | [] => []
  | c :: r =>
    if c == 0xC2 && r.head? == some 0xB7 then 0xC2 :: 0xB7 :: encodeIdent (r.drop 1)
    else if unreserved c then c :: encodeIdent r
    else if c == 32 then 43 :: encodeIdent r
    else 36 :: hexU (c / 16) :: hexU (c % 16) :: encodeIdent r
termination_by l => l.length
decreasing_by all_goals (simp_wf; try omega)
                        

/-- `fmt.Sprintf("%d", n)` as bytes. -/
def decimal (n : Nat) : Name := (toString n).toList.map Char.toNat

/-- the part of a `funcContext` the allocator touches. -/
structure Scope where
  /-- `allVars` -/
  vars : VarMap
  /-- `localVars` -/
  locals : List Name
  /-- `varPtrNames` of this context (after the repair fixes/C16-varptr-per-context): identity of a function-level
      variable ↦ name of the JS variable holding its pointer object. For the root context: the package-wide
      `pkgCtx.varPtrNames` of package-level variables. -/
  ptrNames : List (Nat × Name) := []
  /-- `objectNames` of this context: identity of a function-level object ↦ its JS name -/
  objNames : List (Nat × Name) := []

/-- package.go:142-144: the root context, `allVars[keyword] = 1` for every reserved word. -/
def rootScope : Scope :=
  { vars := reserved.foldl (fun m k => VarMap.set m k 1) ({} : VarMap), locals := [] }

/-- utils.go:284-327 `fc.newVariable(name, pkgLevel)` on the chain `fc :: parents`.
    `none` = panic (empty name) or the (unreachable) fuel bound of the candidate search. -/
def newVariable (minify : Bool) (name : Name) (pkgLevel : Bool) : List Scope → Option (List Scope × Name)
  | [] => none
  | fc :: parents =>
    if name = [] then none else
    match (if minify then firstFree pkgLevel fc.vars (fc.vars.size + 1) 0 else some (encodeIdent name)) with
    | none => none
    | some nm =>
      let n := fc.vars.cnt nm
      let varName := if n > 0 then nm ++ 36 :: decimal n else nm
      if pkgLevel then
        -- `for c2 := fc.parent; c2 != nil; c2 = c2.parent { c2.allVars[name] = n + 1 }`; not a local
        some ({ fc with vars := fc.vars.set nm (n + 1) } ::
              parents.map (fun c => { c with vars := c.vars.set nm (n + 1) }), varName)
      else
        some ({ fc with vars := fc.vars.set nm (n + 1), locals := fc.locals ++ [varName] } :: parents, varName)

/-- functions.go:60 `strings.ReplaceAll(o.Name(), ".", midDot)`. -/
def dotsToMidDot : Name → Name
  | [] => []
  | c :: r => if c == 46 then 0xC2 :: 0xB7 :: dotsToMidDot r else c :: dotsToMidDot r

/-- functions.go:24-69 `nestedFunctionContext`: a new context whose `allVars` is a copy of the parent's,
    which then allocates the function's own package-level reference name. -/
def newChild (minify : Bool) (funcName : Name) : List Scope → Option (List Scope × Name)
  | [] => none
  | fc :: parents => newVariable minify (dotsToMidDot funcName) true ({ vars := fc.vars, locals := [] } :: fc :: parents)

/-- look a variable up in the `varPtrNames` of the context and of its parents -/
def lookupPtr (v : Nat) : List Scope → Option Name
  | [] => none
  | sc :: r =>
    match sc.ptrNames.lookup v with
    | some nm => some nm
    | none => lookupPtr v r

/-- remember `v ↦ nm` in the innermost context -/
def recordPtr (v : Nat) (nm : Name) : List Scope → List Scope
  | [] => []
  | sc :: r => { sc with ptrNames := (v, nm) :: sc.ptrNames } :: r

/-- remember `v ↦ nm` in the root context (the package-wide map) -/
def recordPtrRoot (v : Nat) (nm : Name) : List Scope → List Scope
  | [] => []
  | [sc] => [{ sc with ptrNames := (v, nm) :: sc.ptrNames }]
  | sc :: r => sc :: recordPtrRoot v nm r

/-- `"$ptr"` -/
def ptrSuffix : Name := [36, 112, 116, 114]

/-- utils.go `fc.varPtrName(o)` for a variable that is not an exported package-level one (after the repair):
    function-level variables are looked up in the context chain and otherwise allocated with `newVariable` in the
    current context; package-level ones use the package-wide map and `newVariable(…, true)`. -/
def varPtrName (minify : Bool) (v : Nat) (name : Name) (pkgLevel : Bool) (chain : List Scope) :
    Option (List Scope × Name) :=
  if pkgLevel then
    match (chain.getLast?).bind (fun sc => sc.ptrNames.lookup v) with
    | some nm => some (chain, nm)
    | none =>
      match newVariable minify (name ++ ptrSuffix) true chain with
      | none => none
      | some (c, nm) => some (recordPtrRoot v nm c, nm)
  else
    match lookupPtr v chain with
    | some nm => some (chain, nm)
    | none =>
      match newVariable minify (name ++ ptrSuffix) false chain with
      | none => none
      | some (c, nm) => some (recordPtr v nm c, nm)

/-- `assignedObjectName` for function-level objects: this context, then its parents -/
def lookupObj (o : Nat) : List Scope → Option Name
  | [] => none
  | sc :: r =>
    match sc.objNames.lookup o with
    | some nm => some nm
    | none => lookupObj o r

/-- `fc.objectNames[o] = name` -/
def recordObj (o : Nat) (nm : Name) : List Scope → List Scope
  | [] => []
  | sc :: r => { sc with objNames := (o, nm) :: sc.objNames } :: r

/-- utils.go:421-452 `fc.objectName(o)` for an object of this package that is not an exported variable/constant:
    the name already assigned (package-level objects: in the package context; others: in the context chain), else
    `fc.newVariable(o.Name(), pkgLevel)` IN THE CURRENT CONTEXT — for a package-level object (e.g. a named type
    declared in a function body) this reserves the name in the current context and all its parents — recorded in the
    package context resp. the current one. Returns the new chain, the new package-object table and the name. -/
def objectName (minify : Bool) (o : Nat) (name : Name) (pkgLevel : Bool) (pkgObjs : List (Nat × Name))
    (chain : List Scope) : Option (List Scope × List (Nat × Name) × Name) :=
  match (if pkgLevel then pkgObjs.lookup o else lookupObj o chain) with
  | some nm => some (chain, pkgObjs, nm)
  | none =>
    match newVariable minify name pkgLevel chain with
    | none => none
    | some (c, nm) => if pkgLevel then some (c, (o, nm) :: pkgObjs, nm) else some (recordObj o nm c, pkgObjs, nm)

/-- SEEDED-CHANGE SHAPE (not the code): allocate the name of a package-level object in the package context only,
    i.e. count it in the root scope but not in the function contexts that are being translated. -/
def allocRootOnly (nm : Name) : List Scope → List Scope
  | [] => []
  | [root] => [{ root with vars := root.vars.set nm 1 }]
  | sc :: r => sc :: allocRootOnly nm r

/-- REPAIRED DEFECT — what the second instantiation of a generic function did before the repair: the name cached by
    another context is appended to `localVars` without being counted in `allVars`. -/
def oldReusePtr (nm : Name) : List Scope → List Scope
  | [] => []
  | sc :: r => { sc with locals := sc.locals ++ [nm] } :: r

/-- decls.go:573-576 `structConstructor`: the constructor parameter for a field is the field name with a `_` suffix
    (with and without minification). -/
def ctorParam (field : Name) : Name := field ++ [95]

/-- SEEDED-CHANGE SHAPE (not the code): the parameter is the bare field name when minifying. -/
def ctorParamUnsuffixed (field : Name) : Name := field

/-! ### Histories: what the compiler does with these functions.
  It translates one function at a time; a function literal is translated while its enclosing function is being
  translated. So the live contexts form a stack (the chain), every allocation is made in the innermost one, and a
  finished context is never used again. `pkgNames` records the names given to package-level objects (they are
  declared in the package's outermost function, hence visible in every context). -/

structure NState where
  chain : List Scope
  pkgNames : List Name
  /-- `objectNames` of the package context: identity of a package-level object (incl. the named types declared in
      function bodies, which are package-level in the generated code) ↦ its JS name -/
  pkgObjs : List (Nat × Name) := []

inductive Op where
  /-- start translating a nested function (`nestedFunctionContext`) -/
  | push (funcName : Name)
  /-- the innermost function is finished -/
  | pop
  /-- `newVariable(name, pkgLevel)` in the innermost context -/
  | req (name : Name) (pkgLevel : Bool)
  /-- `varPtrName` of the function-level variable `v` (Go name `name`) in the innermost context -/
  | ptr (v : Nat) (name : Name)
  /-- `objectName` of object `o` (Go name `name`) in the innermost context; `pkgLevel`: a package-level object,
      e.g. a named type declared in the body of the function being translated -/
  | obj (o : Nat) (name : Name) (pkgLevel : Bool)

def initState : NState := { chain := [rootScope], pkgNames := [] }

def stepOp (minify : Bool) (st : NState) : Op → Option NState
  | .push fn =>
    match newChild minify fn st.chain with
    | none => none
    | some (c, nm) => some { st with chain := c, pkgNames := st.pkgNames ++ [nm] }
  | .pop =>
    match st.chain with
    | _ :: p :: r => some { st with chain := p :: r }
    | _ => none
  | .req name pk =>
    match newVariable minify name pk st.chain with
    | none => none
    | some (c, nm) => some { st with chain := c, pkgNames := if pk then st.pkgNames ++ [nm] else st.pkgNames }
  | .obj o name pk =>
    match (if pk then st.pkgObjs.lookup o else lookupObj o st.chain) with
    | some _ => some st
    | none =>
      match newVariable minify name pk st.chain with
      | none => none
      | some (c, nm) =>
        if pk then some { chain := c, pkgNames := st.pkgNames ++ [nm], pkgObjs := (o, nm) :: st.pkgObjs }
        else some { st with chain := recordObj o nm c }
  | .ptr v name =>
    match varPtrName minify v name false st.chain with
    | none => none
    | some (c, _) => some { st with chain := c }

def runOps (minify : Bool) : NState → List Op → Option NState
  | st, [] => some st
  | st, op :: ops =>
    match stepOp minify st op with
    | none => none
    | some st' => runOps minify st' ops

/-- local names of all live contexts, innermost first -/
def chainLocals : List Scope → List Name
  | [] => []
  | sc :: r => sc.locals ++ chainLocals r

/-- every JavaScript name in scope in the innermost context: the package-level names and the locals of all
    enclosing functions -/
def visible (st : NState) : List Name := st.pkgNames ++ chainLocals st.chain

end GV.Names
