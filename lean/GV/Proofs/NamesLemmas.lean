import GV.Model.Names

/-! Helper lemmas for GV.Props.C16: bijective base-26 names and the allocator invariant. -/
namespace GV.Proofs.Names
open GV.Names

/-- value of a short name read as a bijective base-26 numeral, plus one -/
def decodeShort (off : Nat) (l : Name) : Nat := l.foldl (fun a c => a * 26 + (c - off) + 1) 0

theorem shortChars_append (off : Nat) : ∀ (j : Nat) (acc : Name), shortChars off j acc = shortChars off j [] ++ acc := by
  intro j
  induction j using Nat.strongRecOn with
  | _ j ih =>
    intro acc
    rw [shortChars.eq_def off j acc, shortChars.eq_def off j []]
    split
    · simp
    · rw [ih (j / 26 - 1) (by omega) ((off + j % 26) :: acc), ih (j / 26 - 1) (by omega) [off + j % 26]]
      simp

theorem decode_shortChars (off : Nat) : ∀ (j : Nat), decodeShort off (shortChars off j []) = j + 1 := by
  intro j
  induction j using Nat.strongRecOn with
  | _ j ih =>
    rw [shortChars.eq_def]
    split
    · rename_i h
      simp [decodeShort]
      omega
    · rename_i h
      rw [shortChars_append]
      have := ih (j / 26 - 1) (by omega)
      simp only [decodeShort, List.foldl_append, List.foldl_cons, List.foldl_nil] at this ⊢
      rw [this]
      omega

theorem shortChars_class (off : Nat) : ∀ (j : Nat) (acc : Name), ∀ c ∈ shortChars off j acc,
    (off ≤ c ∧ c < off + 26) ∨ c ∈ acc := by
  intro j
  induction j using Nat.strongRecOn with
  | _ j ih =>
    intro acc c hc
    rw [shortChars.eq_def] at hc
    split at hc
    · simp at hc
      rcases hc with h | h
      · left; omega
      · right; exact h
    · have := ih (j / 26 - 1) (by omega) _ c hc
      rcases this with h | h
      · left; exact h
      · simp at h
        rcases h with h | h
        · left; omega
        · right; exact h

theorem firstFree_spec (pk : Bool) (m : VarMap) : ∀ (fuel i : Nat) (nm : Name), firstFree pk m fuel i = some nm →
    (∃ k, nm = shortName pk k) ∧ m.cnt nm = 0 := by
  intro fuel
  induction fuel with
  | zero => intro i nm h; simp [firstFree] at h
  | succ f ih =>
    intro i nm h
    rw [firstFree] at h
    split at h
    · rename_i h0
      simp at h; subst h
      exact ⟨⟨i, rfl⟩, h0⟩
    · exact ih (i + 1) nm h

/-- `c2.allVars[name] = 1` -/
def bump (nm : Name) (c : Scope) : Scope := { c with vars := c.vars.set nm 1 }

theorem newVariable_min {name : Name} {pk : Bool} {fc : Scope} {parents chain' : List Scope} {nm : Name}
    (h : newVariable true name pk (fc :: parents) = some (chain', nm)) :
    (∃ k, nm = shortName pk k) ∧ fc.vars.cnt nm = 0 ∧
      chain' = if pk then (fc :: parents).map (bump nm)
               else { fc with vars := fc.vars.set nm 1, locals := fc.locals ++ [nm] } :: parents := by
  rw [newVariable] at h
  split at h
  · simp at h
  · simp only [if_true] at h
    cases hf : firstFree pk fc.vars (fc.vars.size + 1) 0 with
    | none => simp [hf] at h
    | some nm0 =>
      obtain ⟨hk, h0⟩ := firstFree_spec pk fc.vars _ _ _ hf
      simp only [hf, h0, Nat.lt_irrefl, if_false, Nat.zero_add] at h
      cases pk with
      | true =>
        simp at h
        obtain ⟨h1, h2⟩ := h
        subst h2
        exact ⟨hk, h0, by simp [← h1, bump]⟩
      | false =>
        simp at h
        obtain ⟨h1, h2⟩ := h
        subst h2
        exact ⟨hk, h0, by simp [← h1]⟩

end GV.Proofs.Names

namespace GV.Proofs.Names
open GV.Names

/-- every live context counts the locals of itself and of all its enclosing contexts -/
def LC : List Scope → Prop
  | [] => True
  | sc :: rest => (∀ n ∈ chainLocals (sc :: rest), 1 ≤ sc.vars.cnt n) ∧ LC rest

def isUpper (n : Name) : Prop := ∀ c ∈ n, 65 ≤ c ∧ c < 91
def isLower (n : Name) : Prop := ∀ c ∈ n, 97 ≤ c ∧ c < 123

structure Inv (st : NState) : Prop where
  nodup : (visible st).Nodup
  pkg : ∀ n ∈ st.pkgNames, ∀ sc ∈ st.chain, 1 ≤ sc.vars.cnt n
  lc : LC st.chain
  res : ∀ sc ∈ st.chain, ∀ r ∈ reserved, 1 ≤ sc.vars.cnt r
  notres : ∀ n ∈ visible st, n ∉ reserved
  pkgUpper : ∀ n ∈ st.pkgNames, isUpper n
  locLower : ∀ n ∈ chainLocals st.chain, isLower n

theorem cnt_bump (nm n : Name) (c : Scope) : (bump nm c).vars.cnt n = if nm = n then 1 else c.vars.cnt n := by
  simp [bump, VarMap.cnt_set]

theorem cnt_bump_ge (nm n : Name) (c : Scope) (h : 1 ≤ c.vars.cnt n) : 1 ≤ (bump nm c).vars.cnt n := by
  rw [cnt_bump]; split <;> omega

theorem chainLocals_bump (nm : Name) : ∀ (chain : List Scope), chainLocals (chain.map (bump nm)) = chainLocals chain
  | [] => rfl
  | c :: r => by simp [chainLocals, chainLocals_bump nm r, bump]

theorem LC_bump (nm : Name) : ∀ (chain : List Scope), LC chain → LC (chain.map (bump nm))
  | [], _ => trivial
  | c :: r, h => by
    obtain ⟨h1, h2⟩ := h
    refine ⟨?_, LC_bump nm r h2⟩
    intro n hn
    have : n ∈ chainLocals (c :: r) := by
      have := chainLocals_bump nm (c :: r)
      simp only [List.map_cons] at this
      rw [this] at hn; exact hn
    exact cnt_bump_ge nm n c (h1 n this)

theorem shortName_upper (k : Nat) : isUpper (shortName true k) := by
  intro c hc
  have := shortChars_class 65 k [] c hc
  simp at this; omega

theorem shortName_lower (k : Nat) : isLower (shortName false k) := by
  intro c hc
  have := shortChars_class 97 k [] c hc
  simp at this; omega

theorem rootScope_res : ∀ r ∈ reserved, 1 ≤ rootScope.vars.cnt r := by
  have key : ∀ (l : List Name) (m : VarMap) (r : Name), (r ∈ l ∨ 1 ≤ m.cnt r) →
      1 ≤ (l.foldl (fun m k => VarMap.set m k 1) m).cnt r := by
    intro l
    induction l with
    | nil => intro m r h; simpa using h
    | cons k l ih =>
      intro m r h
      simp only [List.foldl_cons]
      apply ih
      by_cases hk : k = r
      · right; simp [VarMap.cnt_set, hk]
      · rcases h with h | h
        · simp at h
          rcases h with h | h
          · exact absurd h.symm hk
          · left; exact h
        · right; simp [VarMap.cnt_set, hk, h]
  intro r hr
  exact key reserved _ r (Or.inl hr)

theorem inv_init : Inv initState := by
  refine ⟨by simp [visible, initState, chainLocals, rootScope], by simp [initState], ?_, ?_, by simp [visible, initState, chainLocals, rootScope],
    by simp [initState], by simp [initState, chainLocals, rootScope]⟩
  · simp [initState, LC, chainLocals, rootScope]
  · intro sc hsc r hr
    simp [initState] at hsc
    subst hsc
    exact rootScope_res r hr

/-- an allocation in the innermost context keeps the invariant -/
theorem inv_req {st : NState} {name : Name} {pk : Bool} {c : List Scope} {nm : Name} (hi : Inv st)
    (h : newVariable true name pk st.chain = some (c, nm)) :
    Inv { chain := c, pkgNames := if pk then st.pkgNames ++ [nm] else st.pkgNames } ∧ nm ∉ visible st := by
  cases hch : st.chain with
  | nil => rw [hch] at h; simp [newVariable] at h
  | cons fc parents =>
    rw [hch] at h
    obtain ⟨⟨k, hk⟩, h0, hc⟩ := newVariable_min h
    have hlc := hi.lc
    rw [hch] at hlc
    obtain ⟨hlc1, hlc2⟩ := hlc
    have hfresh : nm ∉ visible st := by
      intro hv
      simp only [visible, List.mem_append] at hv
      rcases hv with hv | hv
      · have := hi.pkg nm hv fc (by rw [hch]; simp)
        omega
      · rw [hch] at hv
        have := hlc1 nm hv
        omega
    have hnr : nm ∉ reserved := by
      intro hr
      have := hi.res fc (by rw [hch]; simp) nm hr
      omega
    refine ⟨?_, hfresh⟩
    cases pk with
    | true =>
      simp only [if_true] at hc ⊢
      subst hc
      have hloc : chainLocals ((fc :: parents).map (bump nm)) = chainLocals st.chain := by
        rw [chainLocals_bump, hch]
      refine ⟨?_, ?_, ?_, ?_, ?_, ?_, ?_⟩
      · simp only [visible, hloc]
        have hp : (st.pkgNames ++ [nm] ++ chainLocals st.chain).Perm (nm :: (st.pkgNames ++ chainLocals st.chain)) := by
          simpa using List.perm_middle (l₁ := st.pkgNames) (a := nm) (l₂ := chainLocals st.chain)
        exact hp.nodup_iff.mpr (List.nodup_cons.mpr ⟨hfresh, hi.nodup⟩)
      · intro n hn sc hsc
        simp only [List.mem_map] at hsc
        obtain ⟨sc0, hsc0, rfl⟩ := hsc
        rw [cnt_bump]
        split
        · omega
        · rename_i hne
          simp only [List.mem_append, List.mem_singleton] at hn
          rcases hn with hn | hn
          · exact hi.pkg n hn sc0 (by rw [hch]; exact hsc0)
          · exact absurd hn.symm hne
      · exact LC_bump nm _ (by rw [← hch]; exact hi.lc)
      · intro sc hsc r hr
        simp only [List.mem_map] at hsc
        obtain ⟨sc0, hsc0, rfl⟩ := hsc
        exact cnt_bump_ge nm r sc0 (hi.res sc0 (by rw [hch]; exact hsc0) r hr)
      · intro n hn
        simp only [visible, hloc, List.mem_append, List.mem_singleton] at hn
        rcases hn with (hn | hn) | hn
        · exact hi.notres n (by simp [visible, hn])
        · rw [hn]; exact hnr
        · exact hi.notres n (by simp [visible, hn])
      · intro n hn
        simp only [List.mem_append, List.mem_singleton] at hn
        rcases hn with hn | hn
        · exact hi.pkgUpper n hn
        · rw [hn, hk]; exact shortName_upper k
      · intro n hn
        rw [hloc] at hn
        exact hi.locLower n hn
    | false =>
      simp only [Bool.false_eq_true, if_false] at hc ⊢
      subst hc
      have hloc : chainLocals ({ fc with vars := fc.vars.set nm 1, locals := fc.locals ++ [nm] } :: parents)
          = fc.locals ++ nm :: chainLocals parents := by simp [chainLocals]
      have hold : chainLocals st.chain = fc.locals ++ chainLocals parents := by rw [hch]; rfl
      refine ⟨?_, ?_, ?_, ?_, ?_, ?_, ?_⟩
      · simp only [visible, hloc]
        have hp : (st.pkgNames ++ (fc.locals ++ nm :: chainLocals parents)).Perm (nm :: (st.pkgNames ++ chainLocals st.chain)) := by
          rw [hold, ← List.append_assoc, ← List.append_assoc]
          exact List.perm_middle
        exact hp.nodup_iff.mpr (List.nodup_cons.mpr ⟨hfresh, hi.nodup⟩)
      · intro n hn sc hsc
        simp only [List.mem_cons] at hsc
        rcases hsc with rfl | hsc
        · simp only [VarMap.cnt_set]
          split
          · omega
          · exact hi.pkg n hn fc (by rw [hch]; simp)
        · exact hi.pkg n hn sc (by rw [hch]; simp [hsc])
      · refine ⟨?_, hlc2⟩
        intro n hn
        rw [hloc] at hn
        simp only [VarMap.cnt_set]
        split
        · omega
        · rename_i hne
          simp only [List.mem_append, List.mem_cons] at hn
          apply hlc1 n
          simp only [chainLocals, List.mem_append]
          rcases hn with hn | hn | hn
          · left; exact hn
          · exact absurd hn.symm hne
          · right; exact hn
      · intro sc hsc r hr
        simp only [List.mem_cons] at hsc
        rcases hsc with rfl | hsc
        · simp only [VarMap.cnt_set]
          split
          · omega
          · exact hi.res fc (by rw [hch]; simp) r hr
        · exact hi.res sc (by rw [hch]; simp [hsc]) r hr
      · intro n hn
        simp only [visible, hloc, List.mem_append, List.mem_cons] at hn
        rcases hn with hn | hn | hn | hn
        · exact hi.notres n (by simp [visible, hn])
        · exact hi.notres n (by simp [visible, hold, hn])
        · rw [hn]; exact hnr
        · exact hi.notres n (by simp [visible, hold, hn])
      · exact hi.pkgUpper
      · intro n hn
        rw [hloc] at hn
        simp only [List.mem_append, List.mem_cons] at hn
        rcases hn with hn | hn | hn
        · exact hi.locLower n (by simp [hold, hn])
        · rw [hn, hk]; exact shortName_lower k
        · exact hi.locLower n (by simp [hold, hn])

end GV.Proofs.Names

namespace GV.Proofs.Names
open GV.Names

/-- entering a nested function: the new context starts with a copy of the enclosing `allVars` -/
theorem inv_copy {st : NState} {fc : Scope} {parents : List Scope} (hi : Inv st) (hch : st.chain = fc :: parents) :
    Inv { chain := { vars := fc.vars, locals := [] } :: fc :: parents, pkgNames := st.pkgNames } := by
  have hlc := hi.lc
  rw [hch] at hlc
  have hv : visible { chain := { vars := fc.vars, locals := [] } :: fc :: parents, pkgNames := st.pkgNames } = visible st := by
    simp [visible, chainLocals, hch]
  refine ⟨by rw [hv]; exact hi.nodup, ?_, ?_, ?_, by rw [hv]; exact hi.notres, hi.pkgUpper, ?_⟩
  · intro n hn sc hsc
    simp only [List.mem_cons] at hsc
    rcases hsc with rfl | hsc
    · exact hi.pkg n hn fc (by rw [hch]; simp)
    · exact hi.pkg n hn sc (by rw [hch]; simpa using hsc)
  · refine ⟨?_, hlc⟩
    intro n hn
    simp only [chainLocals, List.nil_append] at hn
    exact hlc.1 n (by simpa [chainLocals] using hn)
  · intro sc hsc r hr
    simp only [List.mem_cons] at hsc
    rcases hsc with rfl | hsc
    · exact hi.res fc (by rw [hch]; simp) r hr
    · exact hi.res sc (by rw [hch]; simpa using hsc) r hr
  · intro n hn
    simp only [chainLocals, List.nil_append] at hn
    exact hi.locLower n (by rw [hch]; simpa [chainLocals] using hn)

/-- the invariant only looks at the context chain and the package-level names -/
theorem inv_of_eq {a b : NState} (hi : Inv a) (hc : a.chain = b.chain) (hp : a.pkgNames = b.pkgNames) : Inv b := by
  have hv : visible b = visible a := by simp [visible, hc, hp]
  exact ⟨by rw [hv]; exact hi.nodup, by rw [← hc, ← hp]; exact hi.pkg, by rw [← hc]; exact hi.lc,
    by rw [← hc]; exact hi.res, by rw [hv]; exact hi.notres, by rw [← hp]; exact hi.pkgUpper,
    by rw [← hc]; exact hi.locLower⟩

/-- recording an object name touches neither `allVars` nor `localVars` -/
theorem inv_recordObj {st : NState} {c : List Scope} (o : Nat) (nm : Name) (hi : Inv { st with chain := c }) :
    Inv { st with chain := recordObj o nm c } := by
  cases c with
  | nil => simpa [recordObj] using hi
  | cons sc r =>
    have hlc := hi.lc
    refine ⟨by simpa [visible, recordObj, chainLocals] using hi.nodup, ?_, ?_, ?_,
      by simpa [visible, recordObj, chainLocals] using hi.notres, hi.pkgUpper,
      by simpa [recordObj, chainLocals] using hi.locLower⟩
    · intro n hn s hs
      simp only [recordObj, List.mem_cons] at hs
      rcases hs with rfl | hs
      · exact hi.pkg n hn sc (by simp)
      · exact hi.pkg n hn s (by simp [hs])
    · exact ⟨by simpa [chainLocals] using hlc.1, hlc.2⟩
    · intro s hs
      simp only [recordObj, List.mem_cons] at hs
      rcases hs with rfl | hs
      · exact hi.res sc (by simp)
      · exact hi.res s (by simp [hs])

/-- SEEDED-CHANGE SHAPE — a package-level name that is counted in the package context only is not reserved in the
    function context being translated: the invariant clause "every package-level name is counted in every live
    context" fails, so the next allocation there may hand the same name out again -/
theorem root_only_breaks (nm : Name) (fc p : Scope) (ps : List Scope) (pk : List Name) (h0 : fc.vars.cnt nm = 0) :
    ¬ Inv { chain := allocRootOnly nm (fc :: p :: ps), pkgNames := pk ++ [nm] } := by
  intro hi
  have := hi.pkg nm (by simp) fc (by simp [allocRootOnly])
  omega

/-- recording a pointer-variable name touches neither `allVars` nor `localVars` -/
theorem inv_recordPtr {st : NState} {c : List Scope} (v : Nat) (nm : Name) (hi : Inv { st with chain := c }) :
    Inv { st with chain := recordPtr v nm c } := by
  cases c with
  | nil => simpa [recordPtr] using hi
  | cons sc r =>
    have hlc := hi.lc
    refine ⟨by simpa [visible, recordPtr, chainLocals] using hi.nodup, ?_, ?_, ?_,
      by simpa [visible, recordPtr, chainLocals] using hi.notres, hi.pkgUpper,
      by simpa [recordPtr, chainLocals] using hi.locLower⟩
    · intro n hn s hs
      simp only [recordPtr, List.mem_cons] at hs
      rcases hs with rfl | hs
      · exact hi.pkg n hn sc (by simp)
      · exact hi.pkg n hn s (by simp [hs])
    · exact ⟨by simpa [chainLocals] using hlc.1, hlc.2⟩
    · intro s hs
      simp only [recordPtr, List.mem_cons] at hs
      rcases hs with rfl | hs
      · exact hi.res sc (by simp)
      · exact hi.res s (by simp [hs])

/-- REPAIRED DEFECT — reusing a name that the current context has not counted breaks the invariant at once -/
theorem old_reuse_breaks (nm : Name) (fc : Scope) (ps : List Scope) (h0 : fc.vars.cnt nm = 0) :
    ¬ LC (oldReusePtr nm (fc :: ps)) := by
  intro h
  have := h.1 nm (by simp [oldReusePtr, chainLocals])
  simp [oldReusePtr] at this
  omega

theorem inv_step {st st' : NState} {op : Op} (hi : Inv st) (h : stepOp true st op = some st') : Inv st' := by
  cases op with
  | push fn =>
    simp only [stepOp] at h
    cases hch : st.chain with
    | nil => rw [hch] at h; simp [newChild] at h
    | cons fc parents =>
      rw [hch] at h
      simp only [newChild] at h
      cases hn : newVariable true (dotsToMidDot fn) true ({ vars := fc.vars, locals := [] } :: fc :: parents) with
      | none => simp [hn] at h
      | some p =>
        obtain ⟨c, nm⟩ := p
        simp [hn] at h
        subst h
        have := (inv_req (inv_copy hi hch) hn).1
        exact inv_of_eq this rfl (by simp)
  | pop =>
    simp only [stepOp] at h
    cases hch : st.chain with
    | nil => rw [hch] at h; simp at h
    | cons top rest =>
      cases rest with
      | nil => rw [hch] at h; simp at h
      | cons p r =>
        rw [hch] at h
        simp at h
        subst h
        have hlc := hi.lc
        rw [hch] at hlc
        have hsub : (st.pkgNames ++ chainLocals (p :: r)).Sublist (visible st) := by
          simp only [visible, hch]
          apply List.Sublist.append_left
          show (chainLocals (p :: r)).Sublist (top.locals ++ chainLocals (p :: r))
          exact List.sublist_append_right _ _
        refine ⟨hi.nodup.sublist hsub, ?_, hlc.2, ?_, ?_, hi.pkgUpper, ?_⟩
        · intro n hn sc hsc
          exact hi.pkg n hn sc (by rw [hch]; exact List.mem_cons_of_mem _ hsc)
        · intro sc hsc
          exact hi.res sc (by rw [hch]; exact List.mem_cons_of_mem _ hsc)
        · intro n hn
          exact hi.notres n (hsub.subset hn)
        · intro n hn
          apply hi.locLower n
          rw [hch]
          show n ∈ top.locals ++ chainLocals (p :: r)
          exact List.mem_append_right _ hn
  | req name pk =>
    simp only [stepOp] at h
    cases hn : newVariable true name pk st.chain with
    | none => simp [hn] at h
    | some p =>
      obtain ⟨c, nm⟩ := p
      simp [hn] at h
      subst h
      exact inv_of_eq (inv_req hi hn).1 rfl rfl
  | obj o name pk =>
    simp only [stepOp] at h
    cases hl : (if pk then st.pkgObjs.lookup o else lookupObj o st.chain) with
    | some nm =>
      simp [hl] at h
      subst h
      exact hi
    | none =>
      simp only [hl] at h
      cases hn : newVariable true name pk st.chain with
      | none => simp [hn] at h
      | some p =>
        obtain ⟨c, nm⟩ := p
        simp only [hn] at h
        have hreq := (inv_req hi hn).1
        cases pk with
        | true =>
          simp at h
          subst h
          exact inv_of_eq hreq rfl (by simp)
        | false =>
          simp at h
          subst h
          have h1 : Inv { st with chain := c } := inv_of_eq hreq rfl (by simp)
          exact inv_recordObj (st := st) o nm h1
  | ptr v name =>
    simp only [stepOp, varPtrName, Bool.false_eq_true, if_false] at h
    cases hl : lookupPtr v st.chain with
    | some nm =>
      simp [hl] at h
      subst h
      exact hi
    | none =>
      simp only [hl] at h
      cases hn : newVariable true (name ++ ptrSuffix) false st.chain with
      | none => simp [hn] at h
      | some p =>
        obtain ⟨c, nm⟩ := p
        simp [hn] at h
        subst h
        have := (inv_req hi hn).1
        simp only [Bool.false_eq_true, if_false] at this
        exact inv_recordPtr (st := st) v nm (inv_of_eq this rfl rfl)

theorem inv_run : ∀ (ops : List Op) (st st' : NState), Inv st → runOps true st ops = some st' → Inv st'
  | [], st, st', hi, h => by simp [runOps] at h; subst h; exact hi
  | op :: ops, st, st', hi, h => by
    simp only [runOps] at h
    cases hs : stepOp true st op with
    | none => simp [hs] at h
    | some s1 =>
      simp [hs] at h
      exact inv_run ops s1 st' (inv_step hi hs) h

end GV.Proofs.Names

namespace GV.Proofs.Names
open GV.Names

theorem rootScope_free (r : Name) (hr : r ∉ reserved) : rootScope.vars.cnt r = 0 := by
  have key : ∀ (l : List Name) (m : VarMap), r ∉ l → (l.foldl (fun m k => VarMap.set m k 1) m).cnt r = m.cnt r := by
    intro l
    induction l with
    | nil => intro m _; rfl
    | cons k l ih =>
      intro m hn
      simp only [List.mem_cons, not_or] at hn
      simp only [List.foldl_cons]
      rw [ih _ hn.2, VarMap.cnt_set]
      simp [Ne.symm hn.1]
  have := key reserved ({} : VarMap) hr
  simp only [rootScope]
  rw [this]
  simp [VarMap.cnt]

/-- the first allocation of a history succeeds and yields `a` -/
theorem first_local : ∃ c, newVariable true [120] false [rootScope] = some (c, [97]) := by
  have h97 : shortName false 0 = [97] := by
    unfold shortName
    rw [shortChars.eq_def]; simp
  have h0 : rootScope.vars.cnt [97] = 0 := rootScope_free [97] (by decide)
  rw [newVariable]
  simp only [if_true]
  rw [firstFree]
  simp [h97, h0]

end GV.Proofs.Names

namespace GV.Proofs.Names
open Std GV.Names

theorem shortName_inj' (pk : Bool) (i j : Nat) (h : shortName pk i = shortName pk j) : i = j := by
  have hi := decode_shortChars (if pk then 65 else 97) i
  have hj := decode_shortChars (if pk then 65 else 97) j
  unfold shortName at h
  rw [h] at hi
  omega

theorem pigeon (pk : Bool) : ∀ (n : Nat) (m : VarMap), (∀ k, k < n → shortName pk k ∈ m) → n ≤ m.size := by
  intro n
  induction n with
  | zero => intro m _; exact Nat.zero_le _
  | succ n ih =>
    intro m h
    have hkey : shortName pk n ∈ m := h n (Nat.lt_succ_self n)
    have h' : ∀ k, k < n → shortName pk k ∈ m.erase (shortName pk n) := by
      intro k hk
      rw [HashMap.mem_erase]
      refine ⟨?_, h k (Nat.lt_succ_of_lt hk)⟩
      have : shortName pk n ≠ shortName pk k := fun e => by
        have := shortName_inj' pk n k e; omega
      simpa using this
    have h1 := ih (m.erase (shortName pk n)) h'
    have h2 : (m.erase (shortName pk n)).size = m.size - 1 := by
      rw [HashMap.size_erase]; simp [hkey]
    have h3 : m.size ≠ 0 := by
      intro h0
      have : m.isEmpty = true := by rw [HashMap.isEmpty_eq_size_eq_zero]; simp [h0]
      have h4 : m.isEmpty = false := HashMap.isEmpty_eq_false_iff_exists_mem.mpr ⟨_, hkey⟩
      rw [this] at h4; cases h4
    omega

theorem firstFree_none (pk : Bool) (m : VarMap) : ∀ (fuel i : Nat), firstFree pk m fuel i = none →
    ∀ k, i ≤ k → k < i + fuel → m.cnt (shortName pk k) ≠ 0 := by
  intro fuel
  induction fuel with
  | zero => intro i _ k h1 h2; omega
  | succ f ih =>
    intro i h k h1 h2
    rw [firstFree] at h
    split at h
    · simp at h
    · rename_i hne
      by_cases hk : k = i
      · subst hk; exact hne
      · exact ih (i + 1) h k (by omega) (by omega)

theorem firstFree_total' (pk : Bool) (m : VarMap) : ∃ nm, firstFree pk m (m.size + 1) 0 = some nm := by
  cases h : firstFree pk m (m.size + 1) 0 with
  | some nm => exact ⟨nm, rfl⟩
  | none =>
    exfalso
    have hall := firstFree_none pk m _ _ h
    have hmem : ∀ k, k < m.size + 1 → shortName pk k ∈ m := by
      intro k hk
      have := hall k (Nat.zero_le _) (by omega)
      apply Classical.byContradiction
      intro hn
      exact this (by simp [VarMap.cnt, HashMap.getD_eq_fallback hn])
    have := pigeon pk (m.size + 1) m hmem
    omega

end GV.Proofs.Names
