/-
  GV.Proofs.GoMapRangeOnce — an entry that stays in the map for the whole loop is reached by the emitted range loop:
  the `_size` snapshot is a sufficient budget of `next()` calls.
-/
import GV.Proofs.GoMapRange

namespace GV.Proofs.GoMapRangeOnce
open GV.MapKey GV.GoMap GV.Proofs.GoMapRange

/-- number of live slots at positions in `[i, p)` -/
def liveIn : JMap → Nat → Nat → Nat
  | [], _, _ => 0
  | _ :: _, _, 0 => 0
  | x :: m, 0, p + 1 => (if x.isSome then 1 else 0) + liveIn m 0 p
  | _ :: m, i + 1, p + 1 => liveIn m i p

theorem liveIn_zero_right (m : JMap) (i : Nat) : liveIn m i 0 = 0 := by
  cases m <;> simp [liveIn]

theorem liveIn_le_size : ∀ (m : JMap) (p : Nat), liveIn m 0 p ≤ m.size
  | [], _ => by simp [liveIn]
  | x :: m, 0 => by simp [liveIn]
  | none :: m, p + 1 => by simp [liveIn, JMap.size]; exact liveIn_le_size m p
  | some _ :: m, p + 1 => by simp [liveIn, JMap.size]; have := liveIn_le_size m p; omega

/-- if slot `p` is live, the live slots before it are fewer than all live slots -/
theorem liveIn_lt_size : ∀ (m : JMap) (p : Nat) (x : JKey × Entry), m[p]? = some (some x) → liveIn m 0 p < m.size
  | [], _, _, h => by simp at h
  | none :: m, 0, _, h => by simp at h
  | some _ :: m, 0, _, _ => by simp [liveIn, JMap.size]
  | none :: m, p + 1, x, h => by
    simp only [List.getElem?_cons_succ] at h
    simp [liveIn, JMap.size]; exact liveIn_lt_size m p x h
  | some _ :: m, p + 1, x, h => by
    simp only [List.getElem?_cons_succ] at h
    simp [liveIn, JMap.size]; have := liveIn_lt_size m p x h; omega

theorem liveIn_set : ∀ (m : JMap) (k : JKey) (e : Entry) (i p : Nat), p ≤ m.length → liveIn (m.set k e) i p ≤ liveIn m i p
  | [], _, _, _, p, h => by
    have : p = 0 := by simpa using h
    subst this; simp [liveIn_zero_right]
  | x :: m, k, e, i, 0, _ => by simp [liveIn_zero_right]
  | none :: m, k, e, 0, p + 1, h => by
    simp only [JMap.set, liveIn]
    have := liveIn_set m k e 0 p (by simpa using h); omega
  | none :: m, k, e, i + 1, p + 1, h => by
    simp only [JMap.set, liveIn]
    exact liveIn_set m k e i p (by simpa using h)
  | some (k', e') :: m, k, e, 0, p + 1, h => by
    by_cases c : k' = k
    · simp [JMap.set, c, liveIn]
    · simp only [JMap.set, c, if_false, liveIn]
      have := liveIn_set m k e 0 p (by simpa using h); omega
  | some (k', e') :: m, k, e, i + 1, p + 1, h => by
    by_cases c : k' = k
    · simp [JMap.set, c, liveIn]
    · simp only [JMap.set, c, if_false, liveIn]
      exact liveIn_set m k e i p (by simpa using h)

theorem liveIn_delete : ∀ (m : JMap) (k : JKey) (i p : Nat), liveIn (m.delete k) i p ≤ liveIn m i p
  | [], _, _, _ => by simp [JMap.delete]
  | x :: m, k, i, 0 => by simp [liveIn_zero_right]
  | none :: m, k, 0, p + 1 => by
    simp only [JMap.delete, liveIn]
    have := liveIn_delete m k 0 p; omega
  | none :: m, k, i + 1, p + 1 => by
    simp only [JMap.delete, liveIn]
    exact liveIn_delete m k i p
  | some (k', e') :: m, k, 0, p + 1 => by
    by_cases c : k' = k
    · simp [JMap.delete, c, liveIn]
    · simp only [JMap.delete, c, if_false, liveIn]
      have := liveIn_delete m k 0 p; omega
  | some (k', e') :: m, k, i + 1, p + 1 => by
    by_cases c : k' = k
    · simp [JMap.delete, c, liveIn]
    · simp only [JMap.delete, c, if_false, liveIn]
      exact liveIn_delete m k i p

theorem length_set : ∀ (m : JMap) (k : JKey) (e : Entry), m.length ≤ (m.set k e).length
  | [], _, _ => by simp [JMap.set]
  | none :: m, k, e => by simp [JMap.set]; exact length_set m k e
  | some (k', e') :: m, k, e => by
    by_cases c : k' = k
    · simp [JMap.set, c]
    · simp [JMap.set, c]; exact length_set m k e

theorem length_delete : ∀ (m : JMap) (k : JKey), (m.delete k).length = m.length
  | [], _ => rfl
  | none :: m, k => by simp [JMap.delete]; exact length_delete m k
  | some (k', e') :: m, k => by
    by_cases c : k' = k
    · simp [JMap.delete, c]
    · simp [JMap.delete, c]; exact length_delete m k

theorem liveIn_muts (fs : Int → Str) (i p : Nat) : ∀ (ms : List Mut) (jm : JMap) (st : KSt), p ≤ jm.length →
    liveIn (ms.foldl (applyMut fs) (jm, st)).1 i p ≤ liveIn jm i p
  | [], _, _, _ => Nat.le_refl _
  | .store k v :: ms, jm, st, h => by
    simp only [List.foldl, applyMut]
    exact Nat.le_trans (liveIn_muts fs i p ms _ _ (Nat.le_trans h (length_set jm _ _))) (liveIn_set jm _ _ i p h)
  | .delete k :: ms, jm, st, h => by
    simp only [List.foldl, applyMut]
    exact Nat.le_trans (liveIn_muts fs i p ms _ _ (by rw [length_delete]; exact h)) (liveIn_delete jm _ i p)

theorem liveIn_drop : ∀ (m : JMap) (i a b : Nat), liveIn (m.drop i) a b = liveIn m (a + i) (b + i)
  | m, 0, a, b => by simp
  | [], i + 1, a, b => by simp [liveIn]
  | x :: m, i + 1, a, b => by
    simp only [List.drop_succ_cons]
    rw [liveIn_drop m i a b]
    rfl

/-- what `nextAux` finds when slot `d` (relative) is live with key `k` -/
theorem nextAux_spec : ∀ (m : JMap) (a d : Nat) (k : JKey) (e : Entry), m[d]? = some (some (k, e)) →
    ∃ k' q, JMap.nextAux m a = some (k', q) ∧ a < q ∧ q ≤ a + d + 1 ∧ (q = a + d + 1 → k' = k) ∧
      (q ≤ a + d → liveIn m (q - a) d + 1 ≤ liveIn m 0 d)
  | [], _, _, _, _, h => by simp at h
  | none :: m, a, 0, _, _, h => by simp at h
  | none :: m, a, d + 1, k, e, h => by
    simp only [List.getElem?_cons_succ] at h
    obtain ⟨k', q, h1, h2, h3, h4, h5⟩ := nextAux_spec m (a + 1) d k e h
    refine ⟨k', q, by simp [JMap.nextAux, h1], by omega, by omega, fun hq => h4 (by omega), ?_⟩
    intro hq
    have := h5 (by omega)
    have e1 : q - a = (q - (a + 1)) + 1 := by omega
    rw [e1]
    simp only [liveIn]
    simpa using this
  | some (k1, e1) :: m, a, d, k, e, h => by
    refine ⟨k1, a + 1, by simp [JMap.nextAux], by omega, by omega, ?_, ?_⟩
    · intro hq
      have : d = 0 := by omega
      subst this
      simp at h
      exact h.1
    · intro hq
      cases d with
      | zero => omega
      | succ d' =>
        have : a + 1 - a = 0 + 1 := by omega
        rw [this]
        simp [liveIn]
        omega

theorem get_of_live : ∀ (m : JMap) (j : Nat) (k : JKey) (e : Entry), m[j]? = some (some (k, e)) → ∃ e', m.get k = some e'
  | [], _, _, _, h => by simp at h
  | none :: m, 0, _, _, h => by simp at h
  | none :: m, j + 1, k, e, h => by
    simp only [List.getElem?_cons_succ] at h
    simpa [JMap.get] using get_of_live m j k e h
  | some (k1, e1) :: m, 0, k, e, h => by
    simp at h
    exact ⟨e1, by simp [JMap.get, h.1]⟩
  | some (k1, e1) :: m, j + 1, k, e, h => by
    simp only [List.getElem?_cons_succ] at h
    by_cases c : k1 = k
    · exact ⟨e1, by simp [JMap.get, c]⟩
    · simpa [JMap.get, c] using get_of_live m j k e h

theorem visited_mono {σ : Type} (fs : Int → Str) (body : Body σ) : ∀ (n : Nat) (s : LoopSt σ) (x : Nat × Entry),
    x ∈ s.visited → x ∈ (rangeLoop fs body n s).visited
  | 0, _, _, h => h
  | n + 1, s, x, h => by
    simp only [rangeLoop]
    split
    · exact visited_mono fs body n _ x h
    · exact visited_mono fs body n _ x (by simp [h])

/-- slot `p` holds key `k` -/
def Keep (p : Nat) (k : JKey) (jm : JMap) : Prop := ∃ e, jm[p]? = some (some (k, e))

theorem reaches {σ : Type} (fs : Int → Str) (body : Body σ) (p : Nat) (k : JKey)
    (hbody : ∀ (x : Entry) (u : σ) (jm : JMap) (st : KSt), Keep p k jm →
      Keep p k ((body x u).1.foldl (applyMut fs) (jm, st)).1) :
    ∀ (n : Nat) (s : LoopSt σ) (i : Nat), s.it = some i → i ≤ p → Keep p k s.jm → liveIn s.jm i p < n →
      p ∈ (rangeLoop fs body n s).visited.map (·.1)
  | 0, _, _, _, _, _, h => by omega
  | n + 1, s, i, hit, hip, hk, hb => by
    obtain ⟨e, he⟩ := hk
    have hd : (s.jm.drop i)[p - i]? = some (some (k, e)) := by
      rw [List.getElem?_drop]; have : i + (p - i) = p := by omega
      rw [this]; exact he
    obtain ⟨k', q, h1, h2, h3, h4, h5⟩ := nextAux_spec (s.jm.drop i) i (p - i) k e hd
    have hnext : JMap.next s.jm s.it = (some k', some q) := by simp [hit, JMap.next, h1]
    have hlive := next_live (m := s.jm) (it := s.it) (k := k') (q := q) (by rw [hnext]) (by rw [hnext])
    obtain ⟨e', hl⟩ := hlive
    obtain ⟨e'', hg⟩ := get_of_live s.jm (q - 1) k' e' hl
    have hlen : p < s.jm.length := by
      have := List.getElem?_eq_some_iff.mp he
      exact this.1
    simp only [rangeLoop, hnext, Option.bind, hg, Option.getD_some]
    by_cases hq : q = p + 1
    · apply List.mem_map.mpr
      refine ⟨(p, e''), ?_, rfl⟩
      apply visited_mono
      simp [hq]
    · have hq' : q ≤ p := by omega
      apply reaches fs body p k hbody n _ q rfl hq' (hbody _ _ _ _ ⟨e, he⟩)
      have l1 := liveIn_muts fs q p (body e'' s.user).1 s.jm s.st (Nat.le_of_lt hlen)
      have l2 := h5 (by omega)
      have e1 : q - i + i = q := by omega
      have e2 : p - i + i = p := by omega
      have e3 : 0 + i = i := by omega
      have d1 := liveIn_drop s.jm i (q - i) (p - i)
      have d2 := liveIn_drop s.jm i 0 (p - i)
      rw [e1, e2] at d1
      rw [e3, e2] at d2
      rw [d1, d2] at l2
      have goal : liveIn ((body e'' s.user).1.foldl (applyMut fs) (s.jm, s.st)).1 q p < n := by omega
      exact goal

end GV.Proofs.GoMapRangeOnce
