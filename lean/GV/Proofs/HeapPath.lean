/-
  GV.Proofs.HeapPath — sub-values: `navigate` along a `typeAt`-valid path stays inside the spine of the root
  and selects the `offsetAt` slice of the root's cells; updating inside a sub-value's spine updates exactly
  that slice.
-/
import GV.Proofs.HeapCopy

namespace GV.Heap
open GV.Spec.GoValue

/-! ### list helpers -/

theorem getElem?_split {α : Type} : ∀ (l : List α) (i : Nat) (a : α), l[i]? = some a →
    ∃ as bs, l = as ++ a :: bs ∧ as.length = i := by
  intro l; induction l with
  | nil => intro i a h; simp at h
  | cons b l ih =>
    intro i a h
    cases i with
    | zero =>
      simp at h
      exact ⟨[], l, by rw [h]; rfl, rfl⟩
    | succ i =>
      simp at h
      obtain ⟨as, bs, e, hl⟩ := ih i a h
      exact ⟨b :: as, bs, by rw [e]; rfl, by simp [hl]⟩

theorem drop_take_mid (A F B : List Int) (o sz : Nat) (h : o + sz ≤ F.length) :
    ((A ++ (F ++ B)).drop (A.length + o)).take sz = (F.drop o).take sz := by
  simp [List.drop_append, List.take_append, List.drop_of_length_le]
  omega

theorem splice_mid (A F B N : List Int) (o : Nat) (h : o + N.length ≤ F.length) :
    splice (A ++ (F ++ B)) (A.length + o) N = A ++ (splice F o N ++ B) := by
  have h1 : A.length + o + N.length - A.length = o + N.length := by omega
  have h2 : o + N.length - F.length = 0 := by omega
  have h3 : o - F.length = 0 := by omega
  simp [splice, List.take_append, List.drop_append, List.take_of_length_le, h1, h2, h3]
  omega

theorem splice_full (L N : List Int) (h : N.length = L.length) : splice L 0 N = N := by
  simp [splice, h]

theorem set_mid (A B : List Int) (c n : Int) : (A ++ ([c] ++ B)).set A.length n = A ++ ([n] ++ B) := by
  simp

theorem splice_set (L : List Int) (off sz k : Nat) (n : Int) (h : off + sz ≤ L.length) (hk : k < sz) :
    splice L off (((L.drop off).take sz).set k n) = L.set (off + k) n := by
  apply List.ext_getElem?
  intro i
  simp only [splice, List.getElem?_append, List.getElem?_set, List.getElem?_take, List.getElem?_drop,
    List.length_append, List.length_take, List.length_drop, List.length_set]
  grind

/-! ### fields: decomposition around one component -/

theorem sizeFields_append : ∀ as bs : List Ty, sizeFields (as ++ bs) = sizeFields as + sizeFields bs := by
  intro as; induction as with
  | nil => intro bs; simp [sizeFields]
  | cons a as ih => intro bs; simp only [List.cons_append, sizeFields, ih]; omega

theorem fields_mid (H : Heap) (id : Nat) (f : Ty) (bs : List Ty) : ∀ (as : List Ty) (k : Nat),
    spineFields (as ++ f :: bs) H id k = spineFields as H id k ++
      (spine f H (H.cell id (k + as.length)) ++ spineFields bs H id (k + as.length + 1)) ∧
    flatFields (as ++ f :: bs) H id k = flatFields as H id k ++
      (flat f H (H.cell id (k + as.length)) ++ flatFields bs H id (k + as.length + 1)) := by
  intro as; induction as with
  | nil => intro k; simp [spineFields, flatFields]
  | cons a as ih =>
    intro k
    have := ih (k + 1)
    have e : k + (as.length + 1) = k + 1 + as.length := by omega
    constructor
    · simp only [List.cons_append, spineFields, List.length_cons, this.1, List.append_assoc, e]
    · simp only [List.cons_append, flatFields, List.length_cons, this.2, List.append_assoc, e]

/-! ### `typeAt` / `offsetAt` / `navigate` -/

theorem kids_some_spine {t : Ty} {i : Nat} {f : Ty} (hk : (kids t)[i]? = some f) : isSpine t = true := by
  cases t <;> simp [kids, isSpine] at *

theorem typeAt_node {t : Ty} {i : Nat} {f : Ty} (hk : (kids t)[i]? = some f) (p : List Nat) :
    typeAt t (i :: p) = typeAt f p ∧
    offsetAt t (i :: p) = sizeFields ((kids t).take i) + offsetAt f p := by
  cases t with
  | struct fs =>
    simp only [kids] at hk ⊢
    constructor <;> simp only [typeAt, offsetAt, hk]
  | array n t =>
    simp only [kids, List.getElem?_replicate] at hk ⊢
    by_cases hi : i < n
    · rw [if_pos hi] at hk
      cases hk
      constructor <;> simp only [typeAt, offsetAt, if_pos hi, List.take_replicate, sizeFields_replicate,
        Nat.min_eq_left (Nat.le_of_lt hi)]
    · rw [if_neg hi] at hk; cases hk
  | _ => simp [kids] at hk

theorem typeAt_cons_inv {t : Ty} {i : Nat} {p : List Nat} {t' : Ty} (h : typeAt t (i :: p) = some t') :
    ∃ f, (kids t)[i]? = some f := by
  cases t with
  | struct fs =>
    simp only [typeAt] at h
    cases hf : fs[i]? with
    | none => rw [hf] at h; cases h
    | some f => exact ⟨f, by simpa [kids] using hf⟩
  | array n t =>
    simp only [typeAt] at h
    by_cases hi : i < n
    · exact ⟨t, by simp [kids, hi]⟩
    · rw [if_neg hi] at h; cases h
  | _ => simp [typeAt] at h

theorem navigate_append (H : Heap) : ∀ (q : List Nat) (v : Int) (r : List Nat),
    navigate H v (q ++ r) = navigate H (navigate H v q) r := by
  intro q; induction q with
  | nil => intro v r; simp [navigate]
  | cons i q ih => intro v r; simp only [List.cons_append, navigate, ih]

theorem typeAt_append : ∀ (q : List Nat) (t : Ty) (r : List Nat) (t' : Ty), typeAt t (q ++ r) = some t' →
    ∃ u, typeAt t q = some u ∧ typeAt u r = some t' ∧ offsetAt t (q ++ r) = offsetAt t q + offsetAt u r := by
  intro q; induction q with
  | nil => intro t r t' h; exact ⟨t, by simp [typeAt], by simpa using h, by simp [offsetAt]⟩
  | cons i q ih =>
    intro t r t' h
    rw [List.cons_append] at h
    obtain ⟨f, hk⟩ := typeAt_cons_inv h
    rw [(typeAt_node hk _).1] at h
    obtain ⟨u, h1, h2, h3⟩ := ih f r t' h
    refine ⟨u, by rw [(typeAt_node hk _).1]; exact h1, h2, ?_⟩
    rw [List.cons_append, (typeAt_node hk _).2, (typeAt_node hk _).2, h3]; omega

/-! ### sub-values -/

/-- the value at a valid path: its spine lies inside the root's spine, its cells are the `offsetAt` slice -/
theorem sub_value (H : Heap) : ∀ (p : List Nat) (t t' : Ty) (v : Int), typeAt t p = some t' →
    (spine t' H (navigate H v p)).Sublist (spine t H v) ∧
    flat t' H (navigate H v p) = ((flat t H v).drop (offsetAt t p)).take (size t') ∧
    offsetAt t p + size t' ≤ size t := by
  intro p; induction p with
  | nil =>
    intro t t' v h
    simp only [typeAt, Option.some.injEq] at h; subst h
    simp only [navigate, offsetAt, List.drop_zero]
    exact ⟨List.Sublist.refl _,
      by rw [List.take_of_length_le (by rw [flat_length]; exact Nat.le_refl _)], by omega⟩
  | cons i p ih =>
    intro t t' v h
    obtain ⟨f, hk⟩ := typeAt_cons_inv h
    have hn := typeAt_node hk p
    rw [hn.1] at h
    have hsp : isSpine t = true := kids_some_spine hk
    obtain ⟨as, bs, e, hl⟩ := getElem?_split _ _ _ hk
    obtain ⟨s1, s2, s3⟩ := ih f t' (H.cell v.toNat i) h
    have hm := fields_mid H v.toNat f bs as 0
    rw [← e, hl, Nat.zero_add] at hm
    have hsz : size t = sizeFields as + (size f + sizeFields bs) := by
      rw [size_node hsp, e, sizeFields_append]; simp only [sizeFields]
    have htk : (kids t).take i = as := by rw [e]; exact List.take_left' hl
    rw [hn.2, htk, spine_node hsp, flat_node hsp, hm.1, hm.2]
    simp only [navigate]
    refine ⟨s1.trans ((List.sublist_append_left _ _).trans ((List.sublist_append_right _ _).trans
      (List.sublist_cons_self _ _))), ?_, by omega⟩
    have := drop_take_mid (flatFields as H v.toNat 0) (flat f H (H.cell v.toNat i))
      (flatFields bs H v.toNat (i + 1)) (offsetAt f p) (size t') (by rw [flat_length]; exact s3)
    rw [flatFields_length'] at this
    rw [s2, this]

/-- a heap change confined to the spine of a sub-value (which keeps its objects) changes exactly the
    corresponding slice of the root's cells and keeps the root's spine -/
theorem sub_update (H H' : Heap) : ∀ (p : List Nat) (t t' : Ty) (v : Int), typeAt t p = some t' →
    (spine t H v).Nodup →
    (∀ id, id ∉ spine t' H (navigate H v p) → ∀ j, H'.cell id j = H.cell id j) →
    spine t' H' (navigate H v p) = spine t' H (navigate H v p) →
    spine t H' v = spine t H v ∧ navigate H' v p = navigate H v p ∧
    flat t H' v = splice (flat t H v) (offsetAt t p) (flat t' H' (navigate H v p)) := by
  intro p; induction p with
  | nil =>
    intro t t' v h _ _ hs
    simp only [typeAt, Option.some.injEq] at h; subst h
    simp only [navigate, offsetAt] at hs ⊢
    exact ⟨hs, trivial, (splice_full _ _ (by rw [flat_length, flat_length])).symm⟩
  | cons i p ih =>
    intro t t' v h hnd hfr hs
    obtain ⟨f, hk⟩ := typeAt_cons_inv h
    have hn := typeAt_node hk p
    rw [hn.1] at h
    have hsp : isSpine t = true := kids_some_spine hk
    obtain ⟨as, bs, e, hl⟩ := getElem?_split _ _ _ hk
    obtain ⟨s1, s2, s3⟩ := sub_value H p f t' (H.cell v.toNat i) h
    have hm := fields_mid H v.toNat f bs as 0
    have hm' := fields_mid H' v.toNat f bs as 0
    rw [← e, hl, Nat.zero_add] at hm hm'
    have htk : (kids t).take i = as := by rw [e]; exact List.take_left' hl
    simp only [navigate] at hfr hs ⊢
    rw [spine_node hsp, hm.1] at hnd
    simp only [List.nodup_cons, List.mem_append, not_or, List.nodup_append] at hnd
    obtain ⟨⟨r1, r2, r3⟩, n1, ⟨n2, n3, n4⟩, n5⟩ := hnd
    have hroot : ∀ j, H'.cell v.toNat j = H.cell v.toNat j := fun j => hfr _ (fun hm => r2 (s1.subset hm)) j
    obtain ⟨u1, u2, u3⟩ := ih f t' (H.cell v.toNat i) h n2 hfr hs
    have ea := fields_congr' as H H' v.toNat 0 (fun j _ _ => hroot j)
      (fun x hx j => hfr x (fun hm => n5 x hx x (Or.inl (s1.subset hm)) rfl) j)
    have eb := fields_congr' bs H H' v.toNat (i + 1) (fun j _ _ => hroot j)
      (fun x hx j => hfr x (fun hm => n4 x (s1.subset hm) x hx rfl) j)
    rw [spine_node hsp, spine_node hsp, flat_node hsp, flat_node hsp, hm.1, hm.2, hm'.1, hm'.2, hroot i,
      ea.1, ea.2, eb.1, eb.2, u1, u3, hn.2, htk]
    refine ⟨rfl, u2, ?_⟩
    have := splice_mid (flatFields as H v.toNat 0) (flat f H (H.cell v.toNat i))
      (flatFields bs H v.toNat (i + 1)) (flat t' H' (navigate H (H.cell v.toNat i) p)) (offsetAt f p)
      (by rw [flat_length, flat_length]; exact s3)
    rw [flatFields_length'] at this
    exact this.symm

/-- writing a non array/struct component of the root object -/
theorem write_leaf (H : Heap) (t : Ty) (w : Int) (i : Nat) (f : Ty) (n : Int)
    (hk : (kids t)[i]? = some f) (hf : isSpine f = false) (hnd : (spine t H w).Nodup) :
    spine t (H.write w.toNat i n) w = spine t H w ∧
    flat t (H.write w.toNat i n) w = (flat t H w).set (sizeFields ((kids t).take i)) n := by
  have hsp : isSpine t = true := kids_some_spine hk
  obtain ⟨as, bs, e, hl⟩ := getElem?_split _ _ _ hk
  have hm := fields_mid H w.toNat f bs as 0
  have hm' := fields_mid (H.write w.toNat i n) w.toNat f bs as 0
  rw [← e, hl, Nat.zero_add] at hm hm'
  have htk : (kids t).take i = as := by rw [e]; exact List.take_left' hl
  rw [spine_node hsp, hm.1] at hnd
  simp only [List.nodup_cons, List.mem_append, not_or] at hnd
  obtain ⟨⟨r1, _, r3⟩, _⟩ := hnd
  have hc : ∀ a b, (H.write w.toNat i n).cell a b = if a = w.toNat ∧ b = i then n else H.cell a b :=
    fun _ _ => rfl
  have ea := fields_congr' as H (H.write w.toNat i n) w.toNat 0
    (fun j _ hj => by rw [hc, if_neg (by omega)])
    (fun x hx j => by rw [hc, if_neg (fun (h : x = w.toNat ∧ j = i) => r1 (h.1 ▸ hx))])
  have eb := fields_congr' bs H (H.write w.toNat i n) w.toNat (i + 1)
    (fun j hj _ => by rw [hc, if_neg (by omega)])
    (fun x hx j => by rw [hc, if_neg (fun (h : x = w.toNat ∧ j = i) => r3 (h.1 ▸ hx))])
  rw [spine_node hsp, spine_node hsp, flat_node hsp, flat_node hsp, hm.1, hm.2, hm'.1, hm'.2,
    ea.1, ea.2, eb.1, eb.2, spine_leaf hf, spine_leaf hf, flat_leaf hf, flat_leaf hf, htk, hc,
    if_pos ⟨rfl, rfl⟩]
  refine ⟨rfl, ?_⟩
  have := set_mid (flatFields as H w.toNat 0) (flatFields bs H w.toNat (i + 1)) (H.cell w.toNat i) n
  rw [flatFields_length'] at this
  exact this.symm

end GV.Heap
