/-
  GV.Proofs.AugmentOrig — the entries the code (`augmentOriginalFile`) leaves in an original file are the
  entries the documented rules (`GV.Spec.Augment.expectedOriginal`) demand.
-/
import GV.Proofs.Augment
import GV.Spec.Augment

namespace GV.Augment
open GV.Spec.Augment

/-- entries of a possibly nil-ed declaration -/
def optDeclEntries : Option Decl → List Entry
  | none => []
  | some d => Decl.entries d

/-! ### generic list lemmas -/

theorem all_isSome_eq {α : Type} (l : List (Option α)) (h : l.all Option.isSome = true) :
    l = (l.filterMap id).map some := by
  induction l with
  | nil => rfl
  | cons a t ih =>
    cases a with
    | none => simp at h
    | some a =>
      have ht : t.all Option.isSome = true := by simpa using h
      simp only [List.filterMap_cons, id, List.map_cons]
      rw [← ih ht]

theorem filter_map_congr' {α β : Type} (F1 F2 : α → β) (p q : β → Bool) (l : List α)
    (h : ∀ a ∈ l, p (F1 a) = q (F2 a) ∧ (p (F1 a) = true → F1 a = F2 a)) :
    (l.map F1).filter p = (l.map F2).filter q := by
  induction l with
  | nil => rfl
  | cons a t ih =>
    have ha := h a List.mem_cons_self
    have iht := ih (fun b hb => h b (List.mem_cons_of_mem _ hb))
    rw [List.map_cons, List.map_cons, List.filter_cons, List.filter_cons, ← ha.1, iht]
    by_cases hp : p (F1 a) = true
    · rw [if_pos hp, if_pos hp, ha.2 hp]
    · rw [if_neg hp, if_neg hp]

theorem zipIdx_map_fst' {α β : Type} (g : α → β) (l : List α) : ∀ i : Nat,
    (l.zipIdx i).map (fun p => g p.1) = l.map g := by
  induction l with
  | nil => intro _; rfl
  | cons a t ih => intro i; simp only [List.zipIdx_cons, List.map_cons, ih]

theorem filter_flatMap' {α β : Type} (g : α → List β) (p : β → Bool) (l : List α) :
    (l.flatMap g).filter p = l.flatMap (fun a => (g a).filter p) := by
  induction l with
  | nil => rfl
  | cons a t ih => rw [List.flatMap_cons, List.flatMap_cons, List.filter_append, ih]

theorem map_flatMap' {α β γ : Type} (g : α → List β) (h : β → γ) (l : List α) :
    (l.flatMap g).map h = l.flatMap (fun a => (g a).map h) := by
  induction l with
  | nil => rfl
  | cons a t ih => rw [List.flatMap_cons, List.flatMap_cons, List.map_append, ih]

/-! ### step 1-2: the entries of the result are the entries of the marked declarations -/

theorem entries_augmentOriginalFile (ov : Overrides) (f : File) :
    entries (augmentOriginalFile ov f) = f.decls.flatMap (fun d => optDeclEntries (origDecl ov d).1) := by
  have key : entries ({ f with decls := (f.decls.map (origDecl ov)).map (·.1) } : File)
      = f.decls.flatMap (fun d => optDeclEntries (origDecl ov d).1) := by
    unfold entries
    simp only []
    rw [flatMap_filterMap_id, List.map_map, flatMap_map']
    congr 1
    funext d
    simp only [Function.comp]
    cases (origDecl ov d).1 <;> rfl
  simp only [augmentOriginalFile]
  split
  · rw [entries_pruneImports, entries_finalizeRemovals]; exact key
  · exact key

/-! ### `Agree` -/

theorem has_of_agree {ov : Overrides} {rules : List (String × Rule)} (h : Agree ov rules) (k : String) :
    has k ov = (ruleFor rules k).isSome := by
  unfold has; rw [h k]; cases ruleFor rules k <;> rfl

/-! ### functions -/

theorem origDecl_func (ov : Overrides) (rules : List (String × Rule)) (h : Agree ov rules) (f : Func) :
    optDeclEntries (origDecl ov (some (.func f))).1 = originalDecl rules (.func f) := by
  simp only [origDecl, originalDecl]
  rw [h (funcKey f)]
  cases hr : ruleFor rules (funcKey f) with
  | some r =>
    simp only [Option.map_some, toInfo]
    cases r with
    | mk keep purge sig =>
      cases keep <;> cases sig <;> simp [optDeclEntries]
  | none =>
    simp only [Option.map_none]
    by_cases hk : f.sig.recvKey = ""
    · simp [hk, optDeclEntries]
    · simp only [ne_eq, hk, not_false_eq_true, if_true]
      rw [h f.sig.recvKey]
      cases hr2 : ruleFor rules f.sig.recvKey with
      | none => simp [optDeclEntries]
      | some r => cases hp : r.purge <;> simp [toInfo, hp, optDeclEntries]

/-! ### `origSpec` on a value spec -/

def nilNames (ov : Overrides) (names : List (Option Name)) : List (Option Name) :=
  List.zipWith (fun n h => if h then none else n) names (names.map (overridden ov))

def nilValues (ov : Overrides) (names : List (Option Name)) (values : List (Option Val)) : List (Option Val) :=
  List.zipWith (fun v h => if h then none else v) values (names.map (overridden ov))

theorem origSpec_value_multi (ov : Overrides) (names : List (Option Name)) (values : List (Option Val))
    (d t : List String) (c : List Cm) (h : names.length = values.length) :
    (origSpec ov (some (.value names values d t c))).1
      = some (.value (nilNames ov names) (nilValues ov names values) d t c) := by
  simp only [origSpec, h, beq_self_eq_true, if_true, nilNames, nilValues]

theorem origSpec_value_single (ov : Overrides) (names : List (Option Name)) (values : List (Option Val))
    (d t : List String) (c : List Cm) (h : names.length ≠ values.length) :
    (origSpec ov (some (.value names values d t c))).1
      = if (names.any (overridden ov) && (names.map (blankIf ov)).all isBlank) = true then none
        else some (.value (names.map (blankIf ov)) values d t c) := by
  have hb : (names.length == values.length) = false := by simpa using h
  simp only [origSpec, hb, Bool.false_eq_true, if_false]
  by_cases hc : (names.any (overridden ov) && (names.map (blankIf ov)).all isBlank) = true
  · rw [if_pos hc, if_pos hc]
  · rw [if_neg hc, if_neg hc]

theorem nilNames_filterMap (ov : Overrides) (ns : List Name) :
    (nilNames ov (ns.map some)).filterMap id = ns.filter (fun n => !has n.n ov) := by
  unfold nilNames
  induction ns with
  | nil => rfl
  | cons n t ih =>
    simp only [List.map_cons, List.zipWith_cons_cons, overridden]
    by_cases hn : has n.n ov = true
    · simp only [hn, if_true, List.filterMap_cons, id, List.filter_cons, Bool.not_true]
      exact ih
    · have hn' : has n.n ov = false := by simpa using hn
      simp only [hn', List.filterMap_cons, id, List.filter_cons, Bool.not_false, if_true]
      simp only [Bool.false_eq_true, if_false]
      rw [ih]

theorem blankNames_filterMap (ov : Overrides) (ns : List Name) :
    ((ns.map some).map (blankIf ov)).filterMap id
      = ns.map (fun n => if has n.n ov then { n with n := "_" } else n) := by
  induction ns with
  | nil => rfl
  | cons n t ih =>
    simp only [List.map_cons, blankIf]
    by_cases hn : has n.n ov = true
    · simp only [hn, if_true, List.filterMap_cons, id]; rw [ih]
    · have hn' : has n.n ov = false := by simpa using hn
      simp only [hn', Bool.false_eq_true, if_false, List.filterMap_cons, id]; rw [ih]

/-- zipping the surviving names with the surviving values = filtering the zipped pairs -/
theorem zipWith_nil_filter {γ : Type} (ov : Overrides) (G : Name → Val → γ) (nm : γ → String)
    (hG : ∀ n v, nm (G n v) = n.n) : ∀ (ns : List Name) (vs : List Val),
    List.zipWith G ((nilNames ov (ns.map some)).filterMap id)
        ((nilValues ov (ns.map some) (vs.map some)).filterMap id)
      = (List.zipWith G ns vs).filter (fun e => !has (nm e) ov) := by
  intro ns
  unfold nilNames nilValues
  induction ns with
  | nil => intro vs; simp
  | cons n t ih =>
    intro vs
    cases vs with
    | nil => simp
    | cons v vt =>
      simp only [List.map_cons, List.zipWith_cons_cons, overridden, List.filter_cons, hG]
      by_cases hn : has n.n ov = true
      · simp only [hn, if_true, List.filterMap_cons, id, Bool.not_true]
        exact ih vt
      · have hn' : has n.n ov = false := by simpa using hn
        simp only [hn', Bool.false_eq_true, if_false, List.filterMap_cons, id, Bool.not_false, if_true,
          List.zipWith_cons_cons]
        rw [ih vt]

theorem nilValues_length (ov : Overrides) : ∀ (ns : List Name) (vs : List Val), ns.length = vs.length →
    ((nilValues ov (ns.map some) (vs.map some)).filterMap id).length
      = ((nilNames ov (ns.map some)).filterMap id).length := by
  intro ns
  unfold nilNames nilValues
  induction ns with
  | nil => intro vs; simp
  | cons n t ih =>
    intro vs hl
    cases vs with
    | nil => simp at hl
    | cons v vt =>
      have hl' : t.length = vt.length := by simpa using hl
      simp only [List.map_cons, List.zipWith_cons_cons, overridden]
      by_cases hn : has n.n ov = true
      · simp only [hn, if_true, List.filterMap_cons, id]
        exact ih vt hl'
      · have hn' : has n.n ov = false := by simpa using hn
        simp only [hn', Bool.false_eq_true, if_false, List.filterMap_cons, id, List.length_cons]
        rw [ih vt hl']

/-! ### variable specs -/

theorem zipIdx_getElem?_eq_zipWith {γ : Type} (E : Name → Option Val → γ) (ns : List Name) (vs : List Val)
    (h : ns.length = vs.length) :
    ns.zipIdx.map (fun p => E p.1 vs[p.2]?) = List.zipWith (fun n v => E n (some v)) ns vs := by
  apply List.ext_getElem
  · simp [h]
  · intro k h1 h2
    have hk1 : k < ns.length := by simpa using h1
    have hk2 : k < vs.length := by omega
    simp [List.getElem_zipWith, hk2]

def varE (n : Name) (v : Val) : Entry := { kind := .var, name := n.n, id := n.id, init := some (v.id, 0) }

theorem varEntries_eq_zipWith (ns : List Name) (vs : List Val) (h : ns.length = vs.length) :
    varEntries ns vs = List.zipWith varE ns vs := by
  unfold varEntries
  have hi : ∀ k, initOf ns.length vs k = (vs[k]?).map (fun v => (v.id, 0)) := by
    intro k; unfold initOf; rw [h]; simp
  simp only [hi]
  let E : Name → Option Val → Entry := fun n o =>
    { kind := .var, name := n.n, id := n.id, init := o.map (fun v => (v.id, 0)) }
  exact zipIdx_getElem?_eq_zipWith E ns vs h

theorem mem_varEntries (ns : List Name) (vs : List Val) (e : Entry) (he : e ∈ varEntries ns vs) :
    ∃ n ∈ ns, e.name = n.n ∧ e.kind = Kind.var ∧ e.cval = none := by
  unfold varEntries at he
  rw [List.mem_map] at he
  obtain ⟨⟨n, k⟩, hm, rfl⟩ := he
  have hn : n ∈ (ns.zipIdx 0).map (fun p => id p.1) := List.mem_map.mpr ⟨(n, k), hm, rfl⟩
  rw [zipIdx_map_fst' id, List.map_id] at hn
  exact ⟨n, hn, rfl, rfl, rfl⟩

/-- the single-value context renames an overridden name to `_` -/
def bl (ov : Overrides) (n : Name) : Name := if has n.n ov then { n with n := "_" } else n

theorem varEntries_blank (ov : Overrides) (ns : List Name) (vs : List Val) :
    (varEntries (ns.map (bl ov)) vs).filter notBlank
      = ((varEntries ns vs).filter (fun e => !has e.name ov)).filter notBlank := by
  unfold varEntries
  rw [List.length_map, List.zipIdx_map, List.map_map, List.filter_filter]
  apply filter_map_congr'
  rintro ⟨n, k⟩ _
  simp only [Function.comp, Prod.map, id, bl, notBlank]
  by_cases hn : has n.n ov = true
  · simp [hn]
  · have hn' : has n.n ov = false := by simpa using hn
    simp [hn']

theorem all_blank (ov : Overrides) (ns : List Name)
    (h : ((ns.map some).map (blankIf ov)).all isBlank = true) : ∀ n ∈ ns, (bl ov n).n = "_" := by
  intro n hn
  rw [List.all_eq_true] at h
  have := h (blankIf ov (some n)) (List.mem_map.mpr ⟨some n, List.mem_map.mpr ⟨n, hn, rfl⟩, rfl⟩)
  unfold blankIf at this
  unfold bl
  by_cases hh : has n.n ov = true
  · simp [hh]
  · have hh' : has n.n ov = false := by simpa using hh
    simpa [hh', isBlank] using this

theorem varEntries_all_blank (ov : Overrides) (ns : List Name) (vs : List Val)
    (h : ∀ n ∈ ns, (bl ov n).n = "_") : (varEntries (ns.map (bl ov)) vs).filter notBlank = [] := by
  rw [List.filter_eq_nil_iff]
  intro e he
  obtain ⟨n', hn', hname, _, _⟩ := mem_varEntries _ _ e he
  obtain ⟨n, hn, rfl⟩ := List.mem_map.mp hn'
  simp [notBlank, hname, h n hn]

/-- one spec of a `type` / `var` / `import` declaration -/
theorem origSpec_entries (ov : Overrides) (tok : Tok) (s : Spec) (hs : specNoNil (some s) = true) :
    (((origSpec ov (some s)).1).elim [] (Spec.entries tok)).filter notBlank
      = ((Spec.entries tok s).filter (fun e => !has e.name ov)).filter notBlank := by
  cases s with
  | type id name dirs sels cms =>
    by_cases hn : has name ov = true
    · simp [origSpec, Spec.entries, hn]
    · have hn' : has name ov = false := by simpa using hn
      simp [origSpec, Spec.entries, hn']
  | imp i => simp [origSpec, Spec.entries]
  | value names values d t c =>
    by_cases htok : tok = Tok.var
    · subst htok
      simp only [specNoNil, Bool.and_eq_true] at hs
      have hN := all_isSome_eq names hs.1
      have hV := all_isSome_eq values hs.2
      generalize names.filterMap id = ns at hN
      generalize values.filterMap id = vs at hV
      subst hN hV
      by_cases hl : (ns.map some).length = (vs.map some).length
      · have hl' : ns.length = vs.length := by simpa using hl
        rw [origSpec_value_multi ov _ _ d t c hl]
        simp only [Option.elim, Spec.entries, beq_self_eq_true, if_true, filterMap_id_map_some]
        rw [varEntries_eq_zipWith _ _ (nilValues_length ov ns vs hl').symm,
          zipWith_nil_filter ov varE (fun e => e.name) (fun _ _ => rfl), varEntries_eq_zipWith ns vs hl']
      · rw [origSpec_value_single ov _ _ d t c hl]
        simp only [Spec.entries, beq_self_eq_true, if_true, filterMap_id_map_some]
        rw [← varEntries_blank]
        split
        · rename_i hc
          simp only [Bool.and_eq_true] at hc
          simp only [Option.elim, List.filter_nil]
          exact (varEntries_all_blank ov ns vs (all_blank ov ns hc.2)).symm
        · simp only [Option.elim, Spec.entries, beq_self_eq_true, if_true, blankNames_filterMap,
            filterMap_id_map_some]
          rfl
    · have h1 : ∀ n v, Spec.entries tok (.value n v d t c) = [] := by
        intro n v; simp [Spec.entries, htok]
      rw [h1]
      by_cases hl : names.length = values.length
      · rw [origSpec_value_multi ov _ _ d t c hl]; simp [h1]
      · rw [origSpec_value_single ov _ _ d t c hl]; split <;> simp [h1]

/-! ### constant specs, names only -/

def constE (n : Name) : Entry := { kind := .const, name := n.n, id := n.id }

/-- the entries of a constant spec without their values -/
def specNames : Spec → List Entry
  | .value names _ _ _ _ => (names.filterMap id).map constE
  | _ => []

theorem constEntries_noVal (keep : Spec → Bool) (specs : List Spec) : ∀ (i : Nat) (inh : List Val),
    (constEntries keep specs i inh).map noVal = (specs.filter keep).flatMap specNames := by
  induction specs with
  | nil => intro _ _; rfl
  | cons s t ih =>
    intro i inh
    cases s with
    | type id name dirs sels cms =>
      simp only [constEntries]
      rw [ih, List.filter_cons]
      split
      · rw [List.flatMap_cons]; rfl
      · rfl
    | imp im =>
      simp only [constEntries]
      rw [ih, List.filter_cons]
      split
      · rw [List.flatMap_cons]; rfl
      · rfl
    | value names values d ts c =>
      simp only [constEntries]
      by_cases hn : (names.filterMap id).isEmpty = true
      · rw [if_pos hn, ih, List.filter_cons]
        have hn' : names.filterMap id = [] := by simpa using hn
        split
        · rw [List.flatMap_cons]; simp only [specNames, hn', List.map_nil, List.nil_append]
        · rfl
      · rw [if_neg hn, List.map_append, ih, List.filter_cons]
        have hes : ∀ (eff : List Val), ((names.filterMap id).zipIdx.map fun (p : Name × Nat) =>
            ({ kind := .const, name := p.1.n, id := p.1.id,
               cval := (eff[p.2]?).map (fun v => v.a * i + v.b) } : Entry)).map noVal
            = (names.filterMap id).map constE := by
          intro eff
          rw [List.map_map, ← zipIdx_map_fst' constE (names.filterMap id) 0]
          apply List.map_congr_left
          rintro ⟨n, k⟩ _
          rfl
        by_cases hk : keep (.value names values d ts c) = true
        · rw [if_pos hk, if_pos hk, List.flatMap_cons]
          congr 1
          exact hes _
        · rw [if_neg hk, if_neg hk]; rfl

theorem filter_noVal (p : Entry → Bool) (hp : ∀ e, p (noVal e) = p e) (l : List Entry) :
    (l.filter p).map noVal = (l.map noVal).filter p := by
  induction l with
  | nil => rfl
  | cons a t ih =>
    rw [List.map_cons, List.filter_cons, List.filter_cons, hp a]
    split
    · rw [List.map_cons, ih]
    · exact ih

theorem constNames_blank (ov : Overrides) (ns : List Name) :
    ((ns.map (bl ov)).map constE).filter notBlank
      = ((ns.map constE).filter (fun e => !has e.name ov)).filter notBlank := by
  rw [List.map_map, List.filter_filter]
  apply filter_map_congr'
  intro n _
  simp only [Function.comp, bl, notBlank, constE]
  by_cases hn : has n.n ov = true
  · simp [hn]
  · have hn' : has n.n ov = false := by simpa using hn
    simp [hn']

theorem constNames_all_blank (ov : Overrides) (ns : List Name)
    (h : ∀ n ∈ ns, (bl ov n).n = "_") : ((ns.map (bl ov)).map constE).filter notBlank = [] := by
  rw [List.filter_eq_nil_iff]
  intro e he
  rw [List.map_map] at he
  obtain ⟨n, hn, rfl⟩ := List.mem_map.mp he
  simp [notBlank, constE, h n hn]

theorem origSpec_names (ov : Overrides) (s : Spec) (hs : specNoNil (some s) = true) :
    (((origSpec ov (some s)).1).elim [] specNames).filter notBlank
      = ((specNames s).filter (fun e => !has e.name ov)).filter notBlank := by
  cases s with
  | type id name dirs sels cms =>
    by_cases hn : has name ov = true
    · simp [origSpec, specNames, hn]
    · have hn' : has name ov = false := by simpa using hn
      simp [origSpec, specNames, hn']
  | imp i => simp [origSpec, specNames]
  | value names values d t c =>
    simp only [specNoNil, Bool.and_eq_true] at hs
    have hN := all_isSome_eq names hs.1
    generalize names.filterMap id = ns at hN
    subst hN
    by_cases hl : (ns.map some).length = values.length
    · rw [origSpec_value_multi ov _ _ d t c hl]
      simp only [Option.elim, specNames, filterMap_id_map_some, nilNames_filterMap]
      rw [List.filter_map, List.filter_map, List.filter_map]
      rfl
    · rw [origSpec_value_single ov _ _ d t c hl]
      simp only [specNames, filterMap_id_map_some]
      rw [← constNames_blank]
      split
      · rename_i hc
        simp only [Bool.and_eq_true] at hc
        simp only [Option.elim, List.filter_nil]
        exact (constNames_all_blank ov ns (all_blank ov ns hc.2)).symm
      · simp only [Option.elim, specNames, blankNames_filterMap]
        rfl

/-! ### general declarations -/

theorem specNoNil_some (s : Option Spec) (h : specNoNil s = true) : ∃ s0, s = some s0 := by
  cases s with
  | none => simp [specNoNil] at h
  | some s0 => exact ⟨s0, rfl⟩

theorem origDecl_gen_fst (ov : Overrides) (tok : Tok) (dirs : List String) (doc : List Cm)
    (specs : List (Option Spec)) :
    (origDecl ov (some (.gen tok dirs doc specs))).1
      = some (.gen tok dirs doc (specs.map (fun s => (origSpec ov s).1))) := by
  simp only [origDecl, List.map_map]; rfl

theorem origDecl_gen (ov : Overrides) (tok : Tok) (dirs : List String) (doc : List Cm)
    (specs : List (Option Spec)) (hd : specs.all specNoNil = true) :
    ((optDeclEntries (origDecl ov (some (.gen tok dirs doc specs))).1).filter notBlank).map noVal
      = (((Decl.entries (.gen tok dirs doc specs)).filter (fun e => !has e.name ov)).filter
          notBlank).map noVal := by
  rw [origDecl_gen_fst]
  simp only [optDeclEntries, Decl.entries_gen]
  rw [List.all_eq_true] at hd
  unfold genEntries
  by_cases hc : tok = Tok.const
  · subst hc
    simp only [beq_self_eq_true, if_true]
    have hnb : ∀ e, notBlank (noVal e) = notBlank e := fun _ => rfl
    have hov : ∀ e, (fun e : Entry => !has e.name ov) (noVal e) = (fun e : Entry => !has e.name ov) e :=
      fun _ => rfl
    rw [filter_noVal _ hnb, filter_noVal _ hnb, filter_noVal _ hov, constEntries_noVal, constEntries_noVal]
    have hft : ∀ l : List Spec, l.filter (fun _ => true) = l := by
      intro l; induction l with
      | nil => rfl
      | cons a t ih => rw [List.filter_cons, if_pos rfl, ih]
    rw [hft, hft]
    rw [flatMap_filterMap_id, flatMap_filterMap_id, flatMap_map', filter_flatMap', filter_flatMap',
      filter_flatMap']
    apply flatMap_congr'
    intro s hs
    obtain ⟨s0, rfl⟩ := specNoNil_some s (hd s hs)
    exact origSpec_names ov s0 (hd _ hs)
  · have hc' : (tok == Tok.const) = false := by simpa using hc
    simp only [hc', Bool.false_eq_true, if_false]
    by_cases hi : tok = Tok.imp
    · subst hi; simp
    · have hi' : (tok == Tok.imp) = false := by simpa using hi
      simp only [hi', Bool.false_eq_true, if_false]
      congr 1
      rw [flatMap_filterMap_id, flatMap_filterMap_id, flatMap_map', filter_flatMap', filter_flatMap',
        filter_flatMap']
      apply flatMap_congr'
      intro s hs
      obtain ⟨s0, rfl⟩ := specNoNil_some s (hd s hs)
      exact origSpec_entries ov tok s0 (hd _ hs)

/-! ### step 3: one declaration -/

theorem origDecl_entries (ov : Overrides) (rules : List (String × Rule)) (h : Agree ov rules)
    (d : Decl) (hd : declNoNil (some d) = true) :
    ((optDeclEntries (origDecl ov (some d)).1).filter notBlank).map noVal
      = ((originalDecl rules d).filter notBlank).map noVal := by
  cases d with
  | func f => rw [origDecl_func ov rules h f]
  | gen tok dirs doc specs =>
    rw [origDecl_gen ov tok dirs doc specs hd]
    have hp : (fun e : Entry => !has e.name ov) = (fun e => (ruleFor rules e.name).isNone) := by
      funext e; rw [has_of_agree h]; cases ruleFor rules e.name <;> rfl
    rw [hp]; rfl

/-! ### main theorem -/

theorem original_entries (ov : Overrides) (rules : List (String × Rule)) (h : Agree ov rules)
    (f : File) (hf : fileNoNil f = true) :
    ((entries (augmentOriginalFile ov f)).filter notBlank).map noVal
      = (expectedOriginal rules f).map noVal := by
  rw [entries_augmentOriginalFile]
  unfold expectedOriginal
  rw [flatMap_filterMap_id, filter_flatMap', filter_flatMap', map_flatMap', map_flatMap']
  apply flatMap_congr'
  intro d hd
  unfold fileNoNil at hf
  rw [List.all_eq_true] at hf
  have hdn := hf d hd
  cases d with
  | none => simp [declNoNil] at hdn
  | some d0 => exact origDecl_entries ov rules h d0 hdn

/-! ### S1: only constants carry a value -/

theorem constEntries_kind (keep : Spec → Bool) (specs : List Spec) : ∀ (i : Nat) (inh : List Val),
    ∀ e ∈ constEntries keep specs i inh, e.kind = Kind.const := by
  induction specs with
  | nil => intro _ _ e he; cases he
  | cons s t ih =>
    intro i inh e he
    cases s with
    | type id name dirs sels cms => exact ih i inh e he
    | imp im => exact ih i inh e he
    | value names values d ts c =>
      simp only [constEntries] at he
      split at he
      · exact ih _ _ e he
      · rw [List.mem_append] at he
        rcases he with he | he
        · split at he
          · rw [List.mem_map] at he
            obtain ⟨⟨n, k⟩, _, rfl⟩ := he
            rfl
          · cases he
        · exact ih _ _ e he

theorem var_entries_noVal (f : File) : ∀ e ∈ entries f, e.kind ≠ Kind.const → noVal e = e := by
  intro e he hk
  unfold entries at he
  rw [List.mem_flatMap] at he
  obtain ⟨d, _, hd⟩ := he
  cases d with
  | func fn =>
    simp only [Decl.entries, List.mem_singleton] at hd
    subst hd; rfl
  | gen tok dirs doc specs =>
    rw [Decl.entries_gen] at hd
    unfold genEntries at hd
    split at hd
    · exact absurd (constEntries_kind _ _ _ _ e hd) hk
    · split at hd
      · cases hd
      · rw [List.mem_flatMap] at hd
        obtain ⟨s, _, hs⟩ := hd
        cases s with
        | type id name dirs sels cms =>
          simp only [Spec.entries, List.mem_singleton] at hs
          subst hs; rfl
        | imp i => simp [Spec.entries] at hs
        | value n v d t c =>
          simp only [Spec.entries] at hs
          split at hs
          · obtain ⟨_, _, _, _, hc⟩ := mem_varEntries _ _ e hs
            cases e with
            | mk k nm i a ini cv =>
              simp only at hc
              subst hc; rfl
          · cases hs

/-! ### S2: an empty override table changes nothing -/

theorem overridden_nil (n : Option Name) : overridden [] n = false := by
  cases n <;> rfl

theorem blankIf_nil (n : Option Name) : blankIf [] n = n := by
  cases n with
  | none => rfl
  | some n => simp [blankIf, has, get]

theorem zipWith_false {α β : Type} (g : β → Bool) (hg : ∀ b, g b = false) :
    ∀ (l : List (Option α)) (m : List β), l.length ≤ m.length →
    List.zipWith (fun a h => if h then none else a) l (m.map g) = l := by
  intro l
  induction l with
  | nil => intro m _; simp
  | cons a t ih =>
    intro m hm
    cases m with
    | nil => simp at hm
    | cons b mt =>
      have hm' : t.length ≤ mt.length := by simpa using hm
      simp only [List.map_cons, List.zipWith_cons_cons, hg, Bool.false_eq_true, if_false]
      rw [ih mt hm']

theorem origSpec_nil (s : Option Spec) : origSpec [] s = (s, false) := by
  cases s with
  | none => rfl
  | some s =>
    cases s with
    | type id name dirs sels cms => simp [origSpec, has, get]
    | imp i => rfl
    | value names values d t c =>
      have hany : names.any (overridden []) = false := by
        rw [List.any_eq_false]; intro n _; simp [overridden_nil]
      by_cases hl : names.length = values.length
      · have hb : (names.length == values.length) = true := by simpa using hl
        simp only [origSpec, hb, if_true]
        rw [zipWith_false _ overridden_nil names names (Nat.le_refl _),
          zipWith_false _ overridden_nil values names (by omega)]
        congr 1
        rw [List.any_eq_false]
        intro b hb'
        obtain ⟨n, _, rfl⟩ := List.mem_map.mp hb'
        simp [overridden_nil]
      · have hb : (names.length == values.length) = false := by simpa using hl
        have hm : names.map (blankIf []) = names := by
          rw [List.map_congr_left (fun n _ => blankIf_nil n), List.map_id']
        simp only [origSpec, hb, Bool.false_eq_true, if_false, hany, Bool.false_and, hm]

theorem origDecl_nil' (d : Option Decl) : origDecl [] d = (d, false) := by
  cases d with
  | none => rfl
  | some d =>
    cases d with
    | func f =>
      simp only [origDecl, get_nil]
      split <;> rfl
    | gen tok dirs doc specs =>
      have hm : specs.map (origSpec []) = specs.map (fun s => (s, false)) :=
        List.map_congr_left (fun s _ => origSpec_nil s)
      simp only [origDecl, hm, List.map_map]
      congr 1
      · have hi : specs.map ((fun x : Option Spec × Bool => x.1) ∘ fun s => (s, false)) = specs :=
          List.map_id' specs
        rw [hi]
      · rw [List.any_eq_false]
        intro p hp
        obtain ⟨s, _, rfl⟩ := List.mem_map.mp hp
        simp

theorem origDecl_nil (d : Option Decl) (_hd : declNoNil d = true) : origDecl [] d = (d, false) :=
  origDecl_nil' d

theorem augmentOriginalFile_nil' (f : File) : augmentOriginalFile [] f = f := by
  have hm : f.decls.map (origDecl []) = f.decls.map (fun d => (d, false)) :=
    List.map_congr_left (fun d _ => origDecl_nil' d)
  have hany : (f.decls.map (fun d : Option Decl => (d, false))).any (·.2) = false := by
    rw [List.any_eq_false]
    intro p hp
    obtain ⟨s, _, rfl⟩ := List.mem_map.mp hp
    simp
  simp only [augmentOriginalFile, hm, hany, Bool.false_eq_true, if_false, List.map_map]
  have : f.decls.map ((fun x : Option Decl × Bool => x.1) ∘ fun d => (d, false)) = f.decls :=
    List.map_id' f.decls
  rw [this]

theorem augmentOriginalFile_nil (f : File) (_hf : fileNoNil f = true) : augmentOriginalFile [] f = f :=
  augmentOriginalFile_nil' f

/-! ### S3: the surviving original declarations are a sublist, in the original order -/

theorem sublist_flatMap_map {α β γ : Type} (g h : α → List β) (p : β → γ) (l : List α)
    (hs : ∀ a ∈ l, ((g a).map p).Sublist ((h a).map p)) :
    ((l.flatMap g).map p).Sublist ((l.flatMap h).map p) := by
  induction l with
  | nil => exact List.Sublist.refl _
  | cons a t ih =>
    rw [List.flatMap_cons, List.flatMap_cons, List.map_append, List.map_append]
    exact List.Sublist.append (hs a List.mem_cons_self) (ih (fun b hb => hs b (List.mem_cons_of_mem _ hb)))

theorem originalDecl_ids_sublist (rules : List (String × Rule)) (d : Decl) :
    ((originalDecl rules d).map (·.id)).Sublist ((Decl.entries d).map (·.id)) := by
  cases d with
  | gen tok dirs doc specs =>
    exact List.Sublist.map _ List.filter_sublist
  | func f =>
    simp only [originalDecl]
    split
    · split
      · simp only [Decl.entries, List.map_cons, List.map_nil]
        split <;> split <;> exact List.Sublist.refl _
      · exact List.nil_sublist _
    · split
      · exact List.nil_sublist _
      · exact List.Sublist.refl _

theorem expectedOriginal_ids_sublist (rules : List (String × Rule)) (f : File) :
    ((expectedOriginal rules f).map (·.id)).Sublist ((entries f).map (·.id)) := by
  unfold expectedOriginal entries
  exact List.Sublist.trans (List.Sublist.map _ List.filter_sublist)
    (sublist_flatMap_map _ _ _ _ (fun d _ => originalDecl_ids_sublist rules d))

/-! ### S4: iota-free constant groups, with the values -/

def constV (n : Name) (o : Option Val) : Entry :=
  { kind := .const, name := n.n, id := n.id, cval := o.map (fun v => v.b) }

/-- the entries of a constant spec that carries its own, `iota`-free expression list -/
def ownEntries : Spec → List Entry
  | .value names values _ _ _ =>
    (names.filterMap id).zipIdx.map (fun p => constV p.1 ((values.filterMap id)[p.2]?))
  | _ => []

theorem constEntries_iotaFree (specs : List Spec) : (∀ s ∈ specs, s.iotaFree) →
    ∀ (i : Nat) (inh : List Val), constEntries (fun _ => true) specs i inh = specs.flatMap ownEntries := by
  induction specs with
  | nil => intro _ _ _; rfl
  | cons s t ih =>
    intro h i inh
    have ih' := ih (fun s hs => h s (List.mem_cons_of_mem _ hs))
    have hs := h s List.mem_cons_self
    rw [List.flatMap_cons]
    cases s with
    | type id name dirs sels cms => exact ih' i inh
    | imp im => exact ih' i inh
    | value n v d ts c =>
      obtain ⟨h1, h2⟩ := hs
      simp only [constEntries]
      by_cases hn : (n.filterMap id).isEmpty = true
      · have hn' : n.filterMap id = [] := by simpa using hn
        rw [if_pos hn, ih' i inh]
        simp [ownEntries, hn']
      · have hv : ¬ (v.filterMap id).isEmpty = true := by
          rcases h1 with h1 | h1
          · rw [h1] at hn; exact absurd rfl hn
          · simpa using h1
        rw [if_neg hn]
        simp only [if_neg hv, if_true]
        rw [ih' (i + 1) (v.filterMap id)]
        congr 1
        simp only [ownEntries]
        apply List.map_congr_left
        rintro ⟨nm, k⟩ _
        simp only [constV]
        cases hk : (v.filterMap id)[k]? with
        | none => rfl
        | some w =>
          have hw : w.a = 0 := h2 w (List.mem_of_getElem? hk)
          simp [hw]

theorem zipWith_nil_mem {α : Type} : ∀ (values : List (Option α)) (hs : List Bool) (v : α),
    some v ∈ List.zipWith (fun v h => if h then none else v) values hs → some v ∈ values := by
  intro values
  induction values with
  | nil => intro hs v h; simp at h
  | cons a t ih =>
    intro hs v h
    cases hs with
    | nil => simp at h
    | cons b bs =>
      rw [List.zipWith_cons_cons, List.mem_cons] at h
      rcases h with h | h
      · cases b with
        | true => simp at h
        | false =>
          have : some v = a := by simpa using h
          rw [this]; exact List.mem_cons_self
      · exact List.mem_cons_of_mem _ (ih bs v h)

theorem origSpec_iotaFree (ov : Overrides) (s : Spec) (hs : specNoNil (some s) = true) (hi : s.iotaFree)
    (s' : Spec) (h : (origSpec ov (some s)).1 = some s') : s'.iotaFree := by
  cases s with
  | type id name dirs sels cms =>
    simp only [origSpec] at h
    split at h
    · cases h
    · cases h; trivial
  | imp i => cases h; trivial
  | value names values d t c =>
    simp only [specNoNil, Bool.and_eq_true] at hs
    have hN := all_isSome_eq names hs.1
    have hV := all_isSome_eq values hs.2
    obtain ⟨h1, h2⟩ := hi
    generalize names.filterMap id = ns at hN h1
    generalize values.filterMap id = vs at hV h1 h2
    subst hN hV
    by_cases hl : (ns.map some).length = (vs.map some).length
    · have hl' : ns.length = vs.length := by simpa using hl
      rw [origSpec_value_multi ov _ _ d t c hl] at h
      cases h
      refine ⟨?_, ?_⟩
      · have hlen := nilValues_length ov ns vs hl'
        by_cases he : (nilValues ov (ns.map some) (vs.map some)).filterMap id = []
        · left
          rw [he] at hlen
          exact List.length_eq_zero_iff.mp hlen.symm
        · exact Or.inr he
      · intro w hw
        apply h2
        rw [List.mem_filterMap] at hw
        obtain ⟨o, ho, hw⟩ := hw
        simp only [id] at hw
        subst hw
        have := zipWith_nil_mem _ _ w ho
        simpa using this
    · rw [origSpec_value_single ov _ _ d t c hl] at h
      split at h
      · cases h
      · cases h
        refine ⟨?_, ?_⟩
        · rcases h1 with h1 | h1
          · left; rw [h1]; rfl
          · right; simpa using h1
        · simpa using h2

theorem own_blank (ov : Overrides) (ns : List Name) (vs : List Val) :
    ((ns.map (bl ov)).zipIdx.map (fun p => constV p.1 vs[p.2]?)).filter notBlank
      = (ns.zipIdx.map (fun p => constV p.1 vs[p.2]?)).filter (fun e => !(has e.name ov) && notBlank e) := by
  rw [List.zipIdx_map, List.map_map]
  apply filter_map_congr'
  rintro ⟨n, k⟩ _
  simp only [Function.comp, Prod.map, id, bl, notBlank, constV]
  by_cases hn : has n.n ov = true
  · simp [hn]
  · have hn' : has n.n ov = false := by simpa using hn
    simp [hn']

theorem own_all_blank (ov : Overrides) (ns : List Name) (vs : List Val)
    (h : ∀ n ∈ ns, (bl ov n).n = "_") :
    ((ns.map (bl ov)).zipIdx.map (fun p => constV p.1 vs[p.2]?)).filter notBlank = [] := by
  rw [List.filter_eq_nil_iff]
  intro e he
  rw [List.zipIdx_map, List.map_map] at he
  obtain ⟨⟨n, k⟩, hm, rfl⟩ := List.mem_map.mp he
  have hn : n ∈ (ns.zipIdx 0).map (fun p => id p.1) := List.mem_map.mpr ⟨(n, k), hm, rfl⟩
  rw [zipIdx_map_fst' id, List.map_id] at hn
  simp [notBlank, constV, h n hn]

theorem origSpec_own (ov : Overrides) (s : Spec) (hs : specNoNil (some s) = true) :
    (((origSpec ov (some s)).1).elim [] ownEntries).filter notBlank
      = (ownEntries s).filter (fun e => !(has e.name ov) && notBlank e) := by
  cases s with
  | type id name dirs sels cms =>
    by_cases hn : has name ov = true
    · simp [origSpec, ownEntries, hn]
    · have hn' : has name ov = false := by simpa using hn
      simp [origSpec, ownEntries, hn']
  | imp i => simp [origSpec, ownEntries]
  | value names values d t c =>
    simp only [specNoNil, Bool.and_eq_true] at hs
    have hN := all_isSome_eq names hs.1
    have hV := all_isSome_eq values hs.2
    generalize names.filterMap id = ns at hN
    generalize values.filterMap id = vs at hV
    subst hN hV
    by_cases hl : (ns.map some).length = (vs.map some).length
    · have hl' : ns.length = vs.length := by simpa using hl
      rw [origSpec_value_multi ov _ _ d t c hl]
      simp only [Option.elim, ownEntries, filterMap_id_map_some]
      rw [zipIdx_getElem?_eq_zipWith constV _ _ (nilValues_length ov ns vs hl').symm,
        zipWith_nil_filter ov (fun n v => constV n (some v)) (fun e => e.name) (fun _ _ => rfl),
        zipIdx_getElem?_eq_zipWith constV ns vs hl', List.filter_filter]
      apply List.filter_congr
      intro e _
      exact Bool.and_comm _ _
    · rw [origSpec_value_single ov _ _ d t c hl]
      simp only [ownEntries, filterMap_id_map_some]
      rw [← own_blank]
      split
      · rename_i hc
        simp only [Bool.and_eq_true] at hc
        simp only [Option.elim, List.filter_nil]
        exact (own_all_blank ov ns vs (all_blank ov ns hc.2)).symm
      · simp only [Option.elim, ownEntries, blankNames_filterMap, filterMap_id_map_some]
        rfl

/-- S4: in a constant group whose specs carry their own `iota`-free expression lists the surviving
constants keep exactly their values -/
theorem origDecl_const_exact (ov : Overrides) (dirs : List String) (doc : List Cm)
    (specs : List (Option Spec)) (hd : declNoNil (some (.gen Tok.const dirs doc specs)) = true)
    (hi : ∀ s ∈ specs.filterMap id, s.iotaFree) :
    (optDeclEntries (origDecl ov (some (.gen Tok.const dirs doc specs))).1).filter notBlank
      = (Decl.entries (.gen Tok.const dirs doc specs)).filter
          (fun e => !(has e.name ov) && notBlank e) := by
  have hd' : ∀ s ∈ specs, specNoNil s = true := by
    have : specs.all specNoNil = true := hd
    rwa [List.all_eq_true] at this
  have hi' : ∀ s' ∈ (specs.map (fun s => (origSpec ov s).1)).filterMap id, s'.iotaFree := by
    intro s' hs'
    rw [List.mem_filterMap] at hs'
    obtain ⟨o, ho, hs'⟩ := hs'
    simp only [id] at hs'
    subst hs'
    obtain ⟨s, hs, hos⟩ := List.mem_map.mp ho
    obtain ⟨s0, rfl⟩ := specNoNil_some s (hd' s hs)
    have hm : s0 ∈ specs.filterMap id := List.mem_filterMap.mpr ⟨some s0, hs, rfl⟩
    exact origSpec_iotaFree ov s0 (hd' _ hs) (hi s0 hm) s' hos
  rw [origDecl_gen_fst]
  simp only [optDeclEntries, Decl.entries_gen]
  unfold genEntries
  simp only [beq_self_eq_true, if_true]
  rw [constEntries_iotaFree _ hi, constEntries_iotaFree _ hi']
  rw [flatMap_filterMap_id, flatMap_filterMap_id, flatMap_map', filter_flatMap', filter_flatMap']
  apply flatMap_congr'
  intro s hs
  obtain ⟨s0, rfl⟩ := specNoNil_some s (hd' s hs)
  exact origSpec_own ov s0 (hd' _ hs)

/-- S4 against the documented rules: same statement as `origDecl_entries`, without `noVal` -/
theorem origDecl_const_exact_rules (ov : Overrides) (rules : List (String × Rule)) (h : Agree ov rules)
    (dirs : List String) (doc : List Cm) (specs : List (Option Spec))
    (hd : declNoNil (some (.gen Tok.const dirs doc specs)) = true)
    (hi : ∀ s ∈ specs.filterMap id, s.iotaFree) :
    (optDeclEntries (origDecl ov (some (.gen Tok.const dirs doc specs))).1).filter notBlank
      = (originalDecl rules (.gen Tok.const dirs doc specs)).filter notBlank := by
  rw [origDecl_const_exact ov dirs doc specs hd hi]
  simp only [originalDecl]
  rw [List.filter_filter]
  apply List.filter_congr
  intro e _
  rw [has_of_agree h, Bool.and_comm]
  cases ruleFor rules e.name <;> rfl

/-! ### T1-T2: `augmentOriginalImports` changes neither the no-nil property nor the expectation -/

theorem specNoNil_mapImportsSpec (g : ImportSpec → Option ImportSpec) (hg : ∀ i, ∃ j, g i = some j)
    (s : Option Spec) : specNoNil (mapImportsSpec g s) = specNoNil s := by
  cases s with
  | none => rfl
  | some s =>
    cases s with
    | type => rfl
    | value => rfl
    | imp i =>
      obtain ⟨j, hj⟩ := hg i
      simp only [mapImportsSpec, hj, Option.map_some]
      rfl

theorem declNoNil_mapImportsDecl (g : ImportSpec → Option ImportSpec) (hg : ∀ i, ∃ j, g i = some j)
    (d : Option Decl) : declNoNil (mapImportsDecl g d) = declNoNil d := by
  cases d with
  | none => rfl
  | some d =>
    cases d with
    | func f => rfl
    | gen tok dirs doc specs =>
      simp only [mapImportsDecl, declNoNil, List.all_map]
      congr 1
      funext s
      exact specNoNil_mapImportsSpec g hg s

theorem fileNoNil_mapImports (g : ImportSpec → Option ImportSpec) (hg : ∀ i, ∃ j, g i = some j)
    (f : File) : fileNoNil (mapImports g f) = fileNoNil f := by
  simp only [fileNoNil, mapImports, List.all_map]
  congr 1
  funext d
  exact declNoNil_mapImportsDecl g hg d

theorem fileNoNil_augmentOriginalImports (ip : String) (f : File) :
    fileNoNil (augmentOriginalImports ip f) = fileNoNil f := by
  unfold augmentOriginalImports
  split
  · apply fileNoNil_mapImports
    intro i
    split <;> exact ⟨_, rfl⟩
  · rfl

theorem originalDecl_mapImportsDecl (rules : List (String × Rule)) (g : ImportSpec → Option ImportSpec)
    (d : Option Decl) :
    (mapImportsDecl g d).elim [] (originalDecl rules) = d.elim [] (originalDecl rules) := by
  cases d with
  | none => rfl
  | some d =>
    cases d with
    | func f => rfl
    | gen tok dirs doc specs =>
      have h := mapImportsDecl_entries g (some (.gen tok dirs doc specs))
      simp only [mapImportsDecl, Option.elim] at h
      simp only [mapImportsDecl, Option.elim, originalDecl]
      rw [h]

theorem expectedOriginal_mapImports (rules : List (String × Rule)) (g : ImportSpec → Option ImportSpec)
    (f : File) : expectedOriginal rules (mapImports g f) = expectedOriginal rules f := by
  unfold expectedOriginal mapImports
  simp only []
  rw [flatMap_filterMap_id, flatMap_filterMap_id, flatMap_map']
  congr 2
  funext d
  exact originalDecl_mapImportsDecl rules g d

theorem expectedOriginal_augmentOriginalImports (rules : List (String × Rule)) (ip : String) (f : File) :
    expectedOriginal rules (augmentOriginalImports ip f) = expectedOriginal rules f := by
  unfold augmentOriginalImports
  split
  · exact expectedOriginal_mapImports rules _ f
  · rfl

/-! ### T3: the result of `merge` -/

theorem merge_fst (ip : String) (overlays originals : List File) :
    (merge ip overlays originals).1
      = (collectOverlays overlays).2
        ++ (originals.map (augmentOriginalImports ip)).map (augmentOriginalFile (overridesOf overlays)) := by
  simp only [merge]
  congr 1
  split
  · rename_i he
    have he' : overridesOf overlays = [] := by simpa using he
    rw [he', List.map_congr_left (fun f _ => augmentOriginalFile_nil' f), List.map_id']
  · rfl

/-! ### T4: the non-function entries of the expectation are original entries -/

theorem expectedOriginal_nonfunc_mem (rules : List (String × Rule)) (f : File) :
    ∀ e ∈ expectedOriginal rules f, e.kind ≠ Kind.func → e ∈ entries f := by
  intro e he hk
  unfold expectedOriginal at he
  rw [List.mem_filter, List.mem_flatMap] at he
  obtain ⟨⟨d, hd, hed⟩, _⟩ := he
  unfold entries
  rw [List.mem_flatMap]
  refine ⟨d, hd, ?_⟩
  cases d with
  | gen tok dirs doc specs =>
    simp only [originalDecl] at hed
    exact (List.mem_filter.mp hed).1
  | func fn =>
    exfalso
    apply hk
    simp only [originalDecl] at hed
    split at hed
    · split at hed
      · simp only [Decl.entries, List.mem_singleton] at hed
        rw [hed]
      · cases hed
    · split at hed
      · cases hed
      · simp only [Decl.entries, List.mem_singleton] at hed
        rw [hed]

/-! ### T5: the exact result (with constant values) when every constant group is iota-free -/

theorem origDecl_gen_nonconst (ov : Overrides) (tok : Tok) (dirs : List String) (doc : List Cm)
    (specs : List (Option Spec)) (hd : specs.all specNoNil = true) (hc : tok ≠ Tok.const) :
    (optDeclEntries (origDecl ov (some (.gen tok dirs doc specs))).1).filter notBlank
      = ((Decl.entries (.gen tok dirs doc specs)).filter (fun e => !has e.name ov)).filter notBlank := by
  rw [origDecl_gen_fst]
  simp only [optDeclEntries, Decl.entries_gen]
  rw [List.all_eq_true] at hd
  unfold genEntries
  have hc' : (tok == Tok.const) = false := by simpa using hc
  simp only [hc', Bool.false_eq_true, if_false]
  by_cases hi : tok = Tok.imp
  · subst hi; simp
  · have hi' : (tok == Tok.imp) = false := by simpa using hi
    simp only [hi', Bool.false_eq_true, if_false]
    rw [flatMap_filterMap_id, flatMap_filterMap_id, flatMap_map', filter_flatMap', filter_flatMap',
      filter_flatMap']
    apply flatMap_congr'
    intro s hs
    obtain ⟨s0, rfl⟩ := specNoNil_some s (hd s hs)
    exact origSpec_entries ov tok s0 (hd _ hs)

theorem origDecl_entries_exact (ov : Overrides) (rules : List (String × Rule)) (h : Agree ov rules)
    (d : Decl) (hd : declNoNil (some d) = true)
    (hc : ∀ dirs doc specs, d = Decl.gen Tok.const dirs doc specs → ∀ s ∈ specs.filterMap id, s.iotaFree) :
    (optDeclEntries (origDecl ov (some d)).1).filter notBlank = (originalDecl rules d).filter notBlank := by
  cases d with
  | func f => rw [origDecl_func ov rules h f]
  | gen tok dirs doc specs =>
    by_cases ht : tok = Tok.const
    · subst ht
      exact origDecl_const_exact_rules ov rules h dirs doc specs hd (hc dirs doc specs rfl)
    · rw [origDecl_gen_nonconst ov tok dirs doc specs hd ht]
      have hp : (fun e : Entry => !has e.name ov) = (fun e => (ruleFor rules e.name).isNone) := by
        funext e; rw [has_of_agree h]; cases ruleFor rules e.name <;> rfl
      rw [hp]; rfl

theorem original_entries_exact (ov : Overrides) (rules : List (String × Rule)) (h : Agree ov rules)
    (f : File) (hf : fileNoNil f = true)
    (hc : ∀ dirs doc specs, some (Decl.gen Tok.const dirs doc specs) ∈ f.decls →
      ∀ s ∈ specs.filterMap id, s.iotaFree) :
    (entries (augmentOriginalFile ov f)).filter notBlank = expectedOriginal rules f := by
  rw [entries_augmentOriginalFile]
  unfold expectedOriginal
  rw [flatMap_filterMap_id, filter_flatMap', filter_flatMap']
  apply flatMap_congr'
  intro d hd
  unfold fileNoNil at hf
  rw [List.all_eq_true] at hf
  have hdn := hf d hd
  cases d with
  | none => simp [declNoNil] at hdn
  | some d0 =>
    apply origDecl_entries_exact ov rules h d0 hdn
    intro dirs doc specs hd0
    subst hd0
    exact hc dirs doc specs hd

/-! ### T6: a constant group = untouched prefix ++ iota-free suffix -/

theorem constEntries_append (keep : Spec → Bool) (A : List Spec) : ∀ (i : Nat) (inh : List Val),
    ∃ (i' : Nat) (inh' : List Val), ∀ B : List Spec,
      constEntries keep (A ++ B) i inh = constEntries keep A i inh ++ constEntries keep B i' inh' := by
  induction A with
  | nil => intro i inh; exact ⟨i, inh, fun B => rfl⟩
  | cons s t ih =>
    intro i inh
    cases s with
    | type id name dirs sels cms =>
      obtain ⟨i', inh', hB⟩ := ih i inh
      refine ⟨i', inh', fun B => ?_⟩
      simp only [List.cons_append, constEntries]
      exact hB B
    | imp im =>
      obtain ⟨i', inh', hB⟩ := ih i inh
      refine ⟨i', inh', fun B => ?_⟩
      simp only [List.cons_append, constEntries]
      exact hB B
    | value names values d ts c =>
      by_cases hn : (names.filterMap id).isEmpty = true
      · obtain ⟨i', inh', hB⟩ := ih i inh
        refine ⟨i', inh', fun B => ?_⟩
        simp only [List.cons_append, constEntries]
        rw [if_pos hn, if_pos hn]
        exact hB B
      · obtain ⟨i', inh', hB⟩ := ih (i + 1)
          (if (values.filterMap id).isEmpty = true then inh else values.filterMap id)
        refine ⟨i', inh', fun B => ?_⟩
        simp only [List.cons_append, constEntries]
        rw [if_neg hn, if_neg hn, hB B, List.append_assoc]

theorem zipWith_false_mem {α β : Type} (g : β → Bool) :
    ∀ (l : List (Option α)) (m : List β), l.length ≤ m.length → (∀ b ∈ m, g b = false) →
    List.zipWith (fun a h => if h then none else a) l (m.map g) = l := by
  intro l
  induction l with
  | nil => intro m _ _; simp
  | cons a t ih =>
    intro m hm hg
    cases m with
    | nil => simp at hm
    | cons b mt =>
      have hm' : t.length ≤ mt.length := by simpa using hm
      simp only [List.map_cons, List.zipWith_cons_cons, hg b List.mem_cons_self, Bool.false_eq_true,
        if_false]
      rw [ih mt hm' (fun b hb => hg b (List.mem_cons_of_mem _ hb))]

theorem origSpec_value_untouched (ov : Overrides) (names : List (Option Name)) (values : List (Option Val))
    (d t : List String) (c : List Cm) (hn : ∀ n ∈ names.filterMap id, has n.n ov = false) :
    (origSpec ov (some (.value names values d t c))).1 = some (.value names values d t c) := by
  have hov : ∀ o ∈ names, overridden ov o = false := by
    intro o ho
    cases o with
    | none => rfl
    | some n => exact hn n (List.mem_filterMap.mpr ⟨some n, ho, rfl⟩)
  by_cases hl : names.length = values.length
  · rw [origSpec_value_multi ov _ _ d t c hl]
    unfold nilNames nilValues
    rw [zipWith_false_mem _ names names (Nat.le_refl _) hov,
      zipWith_false_mem _ values names (by omega) hov]
  · rw [origSpec_value_single ov _ _ d t c hl]
    have hany : names.any (overridden ov) = false := by
      rw [List.any_eq_false]
      intro o ho
      simp [hov o ho]
    have hm : names.map (blankIf ov) = names := by
      have : ∀ o ∈ names, blankIf ov o = id o := by
        intro o ho
        cases o with
        | none => rfl
        | some n =>
          have := hov _ ho
          simp only [overridden] at this
          simp [blankIf, this]
      rw [List.map_congr_left this, List.map_id]
    simp only [hany, Bool.false_and, Bool.false_eq_true, if_false, hm]

theorem constEntries_pre (ov : Overrides) (keep : Spec → Bool) (pre : List (Option Spec))
    (hpre : ∀ s ∈ pre, ∀ names values d t c, s = some (Spec.value names values d t c) →
      ∀ n ∈ names.filterMap id, has n.n ov = false) : ∀ (i : Nat) (inh : List Val),
    constEntries keep ((pre.map (fun s => (origSpec ov s).1)).filterMap id) i inh
      = constEntries keep (pre.filterMap id) i inh := by
  induction pre with
  | nil => intro _ _; rfl
  | cons s t ih =>
    intro i inh
    have ih' := ih (fun s hs => hpre s (List.mem_cons_of_mem _ hs))
    rw [List.map_cons]
    cases s with
    | none => exact ih' i inh
    | some s =>
      cases s with
      | type tid name dirs sels cms =>
        by_cases hn : has name ov = true
        · simp only [origSpec, hn, if_true, List.filterMap_cons, id, constEntries]
          exact ih' i inh
        · have hn' : has name ov = false := by simpa using hn
          simp only [origSpec, hn', Bool.false_eq_true, if_false, List.filterMap_cons, id, constEntries]
          exact ih' i inh
      | imp im =>
        simp only [origSpec, List.filterMap_cons, id, constEntries]
        exact ih' i inh
      | value names values d ts c =>
        rw [origSpec_value_untouched ov names values d ts c
          (hpre _ List.mem_cons_self names values d ts c rfl)]
        simp only [List.filterMap_cons, id, constEntries, ih']

theorem mem_constEntries_name (keep : Spec → Bool) (specs : List Spec) : ∀ (i : Nat) (inh : List Val),
    ∀ e ∈ constEntries keep specs i inh, ∃ names values d t c,
      Spec.value names values d t c ∈ specs ∧ ∃ n ∈ names.filterMap id, e.name = n.n := by
  induction specs with
  | nil => intro _ _ e he; cases he
  | cons s t ih =>
    intro i inh e he
    have lift : (∃ names values d t' c, Spec.value names values d t' c ∈ t ∧
        ∃ n ∈ names.filterMap id, e.name = n.n) →
        ∃ names values d t' c, Spec.value names values d t' c ∈ s :: t ∧
        ∃ n ∈ names.filterMap id, e.name = n.n := by
      rintro ⟨names, values, d, t', c, hm, hn⟩
      exact ⟨names, values, d, t', c, List.mem_cons_of_mem _ hm, hn⟩
    cases s with
    | type id name dirs sels cms => exact lift (ih i inh e he)
    | imp im => exact lift (ih i inh e he)
    | value names values d ts c =>
      simp only [constEntries] at he
      split at he
      · exact lift (ih _ _ e he)
      · rw [List.mem_append] at he
        rcases he with he | he
        · split at he
          · rw [List.mem_map] at he
            obtain ⟨⟨n, k⟩, hm, rfl⟩ := he
            have hn : n ∈ ((names.filterMap id).zipIdx 0).map (fun p => id p.1) :=
              List.mem_map.mpr ⟨(n, k), hm, rfl⟩
            rw [zipIdx_map_fst' id, List.map_id] at hn
            exact ⟨names, values, d, ts, c, List.mem_cons_self, n, hn, rfl⟩
          · cases he
        · exact lift (ih _ _ e he)

theorem origSpecs_iotaFree (ov : Overrides) (specs : List (Option Spec))
    (hd' : ∀ s ∈ specs, specNoNil s = true) (hi : ∀ s ∈ specs.filterMap id, s.iotaFree) :
    ∀ s' ∈ (specs.map (fun s => (origSpec ov s).1)).filterMap id, s'.iotaFree := by
  intro s' hs'
  rw [List.mem_filterMap] at hs'
  obtain ⟨o, ho, hs'⟩ := hs'
  simp only [id] at hs'
  subst hs'
  obtain ⟨s, hs, hos⟩ := List.mem_map.mp ho
  obtain ⟨s0, rfl⟩ := specNoNil_some s (hd' s hs)
  have hm : s0 ∈ specs.filterMap id := List.mem_filterMap.mpr ⟨some s0, hs, rfl⟩
  exact origSpec_iotaFree ov s0 (hd' _ hs) (hi s0 hm) s' hos

/-- T6, general form: only the suffix has to be free of nil slots -/
theorem origDecl_const_prefix' (ov : Overrides) (dirs : List String) (doc : List Cm)
    (pre post : List (Option Spec)) (hpost : post.all specNoNil = true)
    (hpre : ∀ s ∈ pre, ∀ names values d t c, s = some (Spec.value names values d t c) →
      ∀ n ∈ names.filterMap id, has n.n ov = false)
    (hi : ∀ s ∈ post.filterMap id, s.iotaFree) :
    (optDeclEntries (origDecl ov (some (.gen Tok.const dirs doc (pre ++ post)))).1).filter notBlank
      = (Decl.entries (.gen Tok.const dirs doc (pre ++ post))).filter
          (fun e => !(has e.name ov) && notBlank e) := by
  have hd' : ∀ s ∈ post, specNoNil s = true := by rwa [List.all_eq_true] at hpost
  have hi' := origSpecs_iotaFree ov post hd' hi
  have hex := origDecl_const_exact ov dirs doc post hpost hi
  rw [origDecl_gen_fst] at hex
  simp only [optDeclEntries, Decl.entries_gen, genEntries, beq_self_eq_true, if_true] at hex
  rw [origDecl_gen_fst]
  simp only [optDeclEntries, Decl.entries_gen, genEntries, beq_self_eq_true, if_true, List.map_append,
    List.filterMap_append]
  obtain ⟨i1, inh1, h1⟩ := constEntries_append (fun _ => true)
    ((pre.map (fun s => (origSpec ov s).1)).filterMap id) 0 []
  obtain ⟨i2, inh2, h2⟩ := constEntries_append (fun _ => true) (pre.filterMap id) 0 []
  rw [h1, h2, List.filter_append, List.filter_append, constEntries_pre ov _ pre hpre,
    constEntries_noIota_of _ _ hi' i1 0 inh1 [], constEntries_noIota_of _ _ hi i2 0 inh2 [], hex]
  congr 1
  apply List.filter_congr
  intro e he
  obtain ⟨names, values, d, t, c, hm, n, hn, hname⟩ := mem_constEntries_name _ _ _ _ e he
  have hm' : some (Spec.value names values d t c) ∈ pre := by
    obtain ⟨o, ho, hoe⟩ := List.mem_filterMap.mp hm
    simp only [id] at hoe
    subst hoe; exact ho
  rw [hname, hpre _ hm' names values d t c rfl n hn]
  rfl

/-- T6 as requested -/
theorem origDecl_const_prefix (ov : Overrides) (dirs : List String) (doc : List Cm)
    (pre post : List (Option Spec))
    (hd : declNoNil (some (.gen Tok.const dirs doc (pre ++ post))) = true)
    (hpre : ∀ s ∈ pre, ∀ names values d t c, s = some (Spec.value names values d t c) →
      ∀ n ∈ names.filterMap id, has n.n ov = false)
    (hi : ∀ s ∈ post.filterMap id, s.iotaFree) :
    (optDeclEntries (origDecl ov (some (.gen Tok.const dirs doc (pre ++ post)))).1).filter notBlank
      = (Decl.entries (.gen Tok.const dirs doc (pre ++ post))).filter
          (fun e => !(has e.name ov) && notBlank e) := by
  have hall : (pre ++ post).all specNoNil = true := hd
  rw [List.all_append, Bool.and_eq_true] at hall
  exact origDecl_const_prefix' ov dirs doc pre post hall.2 hpre hi

end GV.Augment
