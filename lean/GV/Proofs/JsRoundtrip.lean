/-
  GV.Proofs.JsRoundtrip — the inductive round-trip domain of the js package's table (scalars, slices, arrays, string-keyed
  maps, structs with exported fields, nested to any depth) and the proof that `$internalize ∘ $externalize` is the identity
  on it, by induction on the value.
-/
import GV.Proofs.JsConv

namespace GV.Proofs.JsConv
open GV.JsConv GV.Utf16 GV.Spec.JsTable

/-! ### the domain -/

mutual
/-- types of the inductive round-trip domain: every row of the documented table except functions and time.Time -/
def domTy : Ty → Bool
  | .bool | .int _ | .i64 | .u64 | .f32 | .f64 | .str => true
  | .slice e => domTy e
  | .arr _ e => domTy e
  | .map e => domTy e
  | .struct _ tys => domTys tys
  | .ptr _ | .iface | .func _ _ _ | .jsobj => false

def domTys : List Ty → Bool
  | [] => true
  | t :: ts => domTy t && domTys ts
end

mutual
/-- the documented round-trip domain, inductively: scalars "representable on both sides" (`RTScalar`), nil and non-nil
    slices, arrays of the declared length, nil and non-nil string-keyed maps with distinct well-formed keys, structs with
    distinct field names whose unexported fields hold their zero value (they do not travel) — over domain values. -/
def RT (τ : Ty) (v : GoVal) : Prop :=
  match τ, v with
  | .slice _, .nil => True
  | .slice e, .slice es => domTy e = true ∧ RTList e es
  | .arr n e, .arr es => domTy e = true ∧ es.length = n ∧ RTList e es
  | .map _, .nil => True
  | .map e, .map ks vs => domTy e = true ∧ ks.length = vs.length ∧ ks.Nodup ∧ (∀ k ∈ ks, ValidUtf8 k) ∧ RTList e vs
  | .struct flds tys, .struct fs => domTys tys = true ∧ (flds.map (·.name)).Nodup ∧ RTFields flds tys fs
  | τ, v => RTScalar τ v

def RTList (e : Ty) (vs : List GoVal) : Prop :=
  match vs with
  | [] => True
  | v :: r => RT e v ∧ RTList e r

def RTFields (flds : List Fld) (tys : List Ty) (fs : List GoVal) : Prop :=
  match fs, flds, tys with
  | [], [], [] => True
  | v :: fs', f :: flds', t :: tys' => (if f.exported = true then RT t v else v = zeroVal t) ∧ RTFields flds' tys' fs'
  | _, _, _ => False
end

/-! ### helpers -/

theorem storeElems_none (gs : List GoVal) : storeElems none none gs = .ok gs := rfl

theorem mapM_length {α β : Type} (f : α → R β) : ∀ (xs : List α) (ys : List β), xs.mapM f = .ok ys → ys.length = xs.length := by
  intro xs
  induction xs with
  | nil => intro ys h; simp [List.mapM_nil, pure, Except.pure] at h; subst h; rfl
  | cons x r ih =>
    intro ys h
    rw [List.mapM_cons] at h
    simp only [bind, Except.bind] at h
    split at h
    · cases h
    · rename_i b hb
      split at h
      · cases h
      · rename_i bs hbs
        simp [pure, Except.pure] at h
        subst h
        simp [ih bs hbs]

/-- elements of a numeric slice / array: each is a number that internalizes to itself and is stored unchanged -/
theorem numeric_elems (e : Ty) (c : TA) (hc : nativeTA e = some c) :
    ∀ (es : List GoVal), RTList e es →
      ∃ xs : List Num, xs.length = es.length ∧ es.mapM getNum = .ok xs ∧
        xs.mapM (fun x => internalize e (.num x)) = .ok es ∧ storeElems (some c) (some c) es = .ok es := by
  intro es
  induction es with
  | nil => intro _; exact ⟨[], rfl, rfl, rfl, rfl⟩
  | cons v r ih =>
    intro h
    simp only [RTList] at h
    obtain ⟨xs, hlen, hg, hi, hst⟩ := ih h.2
    have hv : RTScalar e v := by
      have := h.1
      cases e <;> simp [nativeTA] at hc <;> simpa [RT] using this
    obtain ⟨j, hx, hin⟩ := roundtrip_scalar e v hv
    have : ∃ x, v = .num x ∧ j = .num x ∧ storeTA c (storeTA c x) = x := by
      cases e <;> simp [nativeTA] at hc
      case int k =>
        cases v <;> simp only [RTScalar] at hv
        rename_i x
        cases x <;> simp only [RTScalar] at hv
        rename_i n
        simp [externalize] at hx
        refine ⟨.int n, rfl, hx.symm, ?_⟩
        have hc' : nativeTA (.int k) = some c := by cases k <;> simp_all [nativeTA]
        rw [storeTA_id k c n hc' hv, storeTA_id k c n hc' hv]
      case f32 =>
        cases v <;> simp only [RTScalar] at hv
        rename_i x
        simp [externalize] at hx
        subst hc
        exact ⟨x, rfl, hx.symm, rfl⟩
      case f64 =>
        cases v <;> simp only [RTScalar] at hv
        rename_i x
        simp [externalize] at hx
        subst hc
        exact ⟨x, rfl, hx.symm, rfl⟩
    obtain ⟨x, rfl, rfl, hs⟩ := this
    refine ⟨x :: xs, by simp [hlen], ?_, ?_, ?_⟩
    · simp [List.mapM_cons, getNum, hg, bind, Except.bind, pure, Except.pure]
    · simp [List.mapM_cons, hin, hi, bind, Except.bind, pure, Except.pure]
    · simp only [storeElems] at hst ⊢
      rw [List.mapM_cons, hst]
      simp [getNum, hs, bind, Except.bind, pure, Except.pure]

theorem needsExt_false_dom (e : Ty) (hd : domTy e = true) (hn : needsExt e = false) : e = .bool ∨ ∃ c, nativeTA e = some c := by
  cases e <;> simp_all [domTy, needsExt, nativeTA]
  rename_i k; cases k <;> simp [nativeTA]

theorem bool_elems : ∀ (es : List GoVal), RTList .bool es →
    ∃ bs : List JsVal, bs.length = es.length ∧ nativeView .bool es = .ok (.arr bs) ∧ bs.mapM (fun j => internalize .bool j) = .ok es := by
  intro es
  induction es with
  | nil => intro _; exact ⟨[], rfl, rfl, rfl⟩
  | cons v r ih =>
    intro h
    simp only [RTList] at h
    obtain ⟨bs, hl, h1, h2⟩ := ih h.2
    have hv : RTScalar .bool v := by simpa [RT] using h.1
    cases v <;> simp only [RTScalar] at hv
    rename_i b
    refine ⟨.bool b :: bs, by simp [hl], ?_, ?_⟩
    · simp only [nativeView, nativeTA, bind, Except.bind] at h1 ⊢
      rw [List.mapM_cons]
      split at h1
      · cases h1
      · rename_i bs' hb
        cases h1
        rw [hb]; rfl
    · rw [List.mapM_cons, h2]; simp [internalize, guardWrapper, truthy, bind, Except.bind, pure, Except.pure]

/-! ### objects with distinct keys -/

theorem objSet_new {α : Type} (acc : List (List Nat × α)) (k : List Nat) (v : α) (h : k ∉ acc.map (·.1)) :
    objSet acc k v = acc ++ [(k, v)] := by
  induction acc with
  | nil => rfl
  | cons p t ih =>
    obtain ⟨k', v'⟩ := p
    simp only [List.map_cons, List.mem_cons, not_or] at h
    have hne : ¬ k' = k := fun e => h.1 e.symm
    simp only [objSet, hne, if_false, List.cons_append]
    rw [ih h.2]

theorem foldl_objSet_nodup {α : Type} (ps : List (List Nat × α)) :
    ∀ (acc : List (List Nat × α)), ((acc ++ ps).map (·.1)).Nodup →
      ps.foldl (fun a p => objSet a p.1 p.2) acc = acc ++ ps := by
  induction ps with
  | nil => intro acc _; simp
  | cons p r ih =>
    intro acc h
    simp only [List.foldl_cons]
    have hk : p.1 ∉ acc.map (·.1) := by
      simp only [List.map_append, List.map_cons] at h
      have := (List.nodup_append.mp h).2.2
      intro hm
      exact this _ hm _ (by simp) rfl
    rw [objSet_new acc p.1 p.2 hk]
    have := ih (acc ++ [(p.1, p.2)]) (by simpa using h)
    simpa using this

theorem objOfPairs_nodup {α : Type} (ps : List (List Nat × α)) (h : (ps.map (·.1)).Nodup) : objOfPairs ps = ps := by
  unfold objOfPairs
  have := foldl_objSet_nodup ps [] (by simpa using h)
  simpa using this

theorem lookupProp_mem : ∀ (ps : List (List Nat × JsVal)), (ps.map (·.1)).Nodup →
    ∀ p ∈ ps, lookupProp (ps.map (·.1)) (ps.map (·.2)) p.1 = p.2 := by
  intro ps
  induction ps with
  | nil => intro _ p hp; cases hp
  | cons q r ih =>
    intro hnd p hp
    simp only [List.map_cons, List.nodup_cons] at hnd
    simp only [List.map_cons, lookupProp]
    rcases List.mem_cons.mp hp with rfl | hp'
    · simp
    · have hne : ¬ q.1 = p.1 := by
        intro e
        exact hnd.1 (e ▸ List.mem_map_of_mem hp')
      simp only [hne, if_false]
      exact ih hnd.2 p hp'

/-! ### the first-field search finds nothing in domain types -/

theorem searchJs_dom : ∀ (τ : Ty) (v : GoVal), domTy τ = true → searchJs τ v = none
  | .struct _ (t0 :: _), .struct (f0 :: _), h => by
    simp only [domTy, domTys, Bool.and_eq_true] at h
    simp only [searchJs]
    exact searchJs_dom t0 f0 h.1
  | .struct _ [], v, _ => by cases v <;> simp [searchJs]
  | .struct _ (_ :: _), .struct [], _ => by simp [searchJs]
  | .struct _ (_ :: _), .bool _, _ | .struct _ (_ :: _), .num _, _ | .struct _ (_ :: _), .i64 _ _, _ | .struct _ (_ :: _), .str _, _
  | .struct _ (_ :: _), .nil, _ | .struct _ (_ :: _), .slice _, _ | .struct _ (_ :: _), .arr _, _ | .struct _ (_ :: _), .map _ _, _
  | .struct _ (_ :: _), .ptr _, _ | .struct _ (_ :: _), .iface _ _, _ | .struct _ (_ :: _), .func _, _ | .struct _ (_ :: _), .jsfunc _, _
  | .struct _ (_ :: _), .jsobj _, _ | .struct _ (_ :: _), .opaque _, _ => by simp [searchJs]
  | .bool, v, _ | .int _, v, _ | .i64, v, _ | .u64, v, _ | .f32, v, _ | .f64, v, _ | .str, v, _ | .slice _, v, _ | .arr _ _, v, _
  | .map _, v, _ => by cases v <;> simp [searchJs]
  | .ptr _, _, h | .iface, _, h | .func _ _ _, _, h | .jsobj, _, h => by simp [domTy] at h

theorem wrapJs_dom : ∀ (τ : Ty) (j : JsVal), domTy τ = true → wrapJs τ j = none
  | .struct _ (t0 :: _), j, h => by
    simp only [domTy, domTys, Bool.and_eq_true] at h
    simp only [wrapJs, wrapJs_dom t0 j h.1]
  | .struct _ [], _, _ => by simp [wrapJs]
  | .bool, _, _ | .int _, _, _ | .i64, _, _ | .u64, _, _ | .f32, _, _ | .f64, _, _ | .str, _, _ | .slice _, _, _ | .arr _ _, _, _
  | .map _, _, _ => by simp [wrapJs]
  | .ptr _, _, h | .iface, _, h | .func _ _ _, _, h | .jsobj, _, h => by simp [domTy] at h

/-! ### keys -/

theorem keys_roundtrip (ks : List (List Nat)) (h : ∀ k ∈ ks, ValidUtf8 k) :
    (ks.map externalizeString).map internalizeString = ks := by
  induction ks with
  | nil => rfl
  | cons k r ih =>
    obtain ⟨rs, hs, rfl⟩ := h k (by simp)
    simp only [List.map_cons]
    rw [GV.Proofs.Utf16.externalize_valid rs hs, GV.Proofs.Utf16.internalize_valid rs hs, ih (fun k hk => h k (by simp [hk]))]

theorem nodup_of_map {α β : Type} (f : α → β) : ∀ (l : List α), (l.map f).Nodup → l.Nodup := by
  intro l
  induction l with
  | nil => intro _; exact List.nodup_nil
  | cons a r ih =>
    intro h
    simp only [List.map_cons, List.nodup_cons] at h ⊢
    exact ⟨fun hm => h.1 (List.mem_map_of_mem hm), ih h.2⟩

theorem keys_nodup (ks : List (List Nat)) (h : ∀ k ∈ ks, ValidUtf8 k) (hn : ks.Nodup) : (ks.map externalizeString).Nodup := by
  have hinj := keys_roundtrip ks h
  rw [← hinj] at hn
  exact nodup_of_map _ _ hn

/-! ### the round trip -/

/-- the exported field names, in order -/
def exportedNames : List Fld → List (List Nat)
  | [] => []
  | f :: r => if f.exported = true then f.name :: exportedNames r else exportedNames r

theorem exportedNames_sublist (flds : List Fld) : List.Sublist (exportedNames flds) (flds.map (·.name)) := by
  induction flds with
  | nil => exact List.Sublist.slnil
  | cons f r ih =>
    simp only [exportedNames, List.map_cons]
    split
    · exact List.Sublist.cons₂ _ ih
    · exact List.Sublist.cons _ ih

mutual
theorem roundtrip (τ : Ty) (v : GoVal) (h : RT τ v) :
    ∃ j, externalize τ v = .ok j ∧ internalize τ j = .ok v := by
  match τ, v, h with
  | .slice e, .nil, _ => exact ⟨.null, by simp [externalize], by simp [internalize]⟩
  | .map e, .nil, _ => exact ⟨.null, by simp [externalize], by simp [internalize]⟩
  | .slice e, .slice es, h =>
    simp only [RT] at h
    by_cases hn : needsExt e = true
    · obtain ⟨js, _, h1, h2⟩ := roundtripList e es h.2
      refine ⟨.arr js, by simp [externalize, hn, h1, bind, Except.bind], ?_⟩
      simp [internalize, h2, (needsExt_doc e hn).2, storeElems, bind, Except.bind]
    · have hn' : needsExt e = false := by simpa using hn
      rcases needsExt_false_dom e h.1 hn' with rfl | ⟨c, hcc⟩
      · obtain ⟨bs, _, h1, h2⟩ := bool_elems es h.2
        refine ⟨.arr bs, by simp [externalize, needsExt, h1], ?_⟩
        simp only [internalize, bind, Except.bind] at h2 ⊢
        rw [h2]
        simp [nativeTA, storeElems]
      · obtain ⟨xs, _, hg, hi, hst⟩ := numeric_elems e c hcc es h.2
        refine ⟨.typed c xs, by simp [externalize, hn', nativeView, hcc, hg, bind, Except.bind], ?_⟩
        simp [internalize, hi, hcc, hst, bind, Except.bind]
  | .arr n e, .arr es, h =>
    simp only [RT] at h
    obtain ⟨hd, hlen, hl⟩ := h
    by_cases hn : needsExt e = true
    · obtain ⟨js, hjl, h1, h2⟩ := roundtripList e es hl
      refine ⟨.arr js, by simp [externalize, hn, h1, bind, Except.bind], ?_⟩
      have : js.length = n := by omega
      simp [internalize, this, h2, (needsExt_doc e hn).2, storeElems, bind, Except.bind]
    · have hn' : needsExt e = false := by simpa using hn
      rcases needsExt_false_dom e hd hn' with rfl | ⟨c, hcc⟩
      · obtain ⟨bs, hbl, h1, h2⟩ := bool_elems es hl
        refine ⟨.arr bs, by simp [externalize, needsExt, h1], ?_⟩
        have : bs.length = n := by omega
        simp only [internalize, bind, Except.bind] at h2 ⊢
        simp only [this, ne_eq, not_true_eq_false, if_false]
        rw [h2]
        simp [nativeTA, storeElems]
      · obtain ⟨xs, hxl, hg, hi, hst⟩ := numeric_elems e c hcc es hl
        refine ⟨.typed c xs, by simp [externalize, hn', nativeView, hcc, hg, bind, Except.bind], ?_⟩
        have : xs.length = n := by omega
        simp [internalize, this, hi, hcc, hst, bind, Except.bind]
  | .map e, .map ks vs, h =>
    simp only [RT] at h
    obtain ⟨_, hlen, hnd, hval, hl⟩ := h
    obtain ⟨js, hjl, h1, h2⟩ := roundtripList e vs hl
    have hkl : (ks.map externalizeString).length = js.length := by simp; omega
    have hfst : ((ks.map externalizeString).zip js).map (·.1) = ks.map externalizeString :=
      List.map_fst_zip (by omega)
    have hsnd : ((ks.map externalizeString).zip js).map (·.2) = js := List.map_snd_zip (by omega)
    have hobj : objOfPairs ((ks.map externalizeString).zip js) = (ks.map externalizeString).zip js :=
      objOfPairs_nodup _ (by rw [hfst]; exact keys_nodup ks hval hnd)
    refine ⟨.obj (ks.map externalizeString) js, by simp [externalize, h1, hobj, hfst, hsnd, bind, Except.bind], ?_⟩
    have hfst' : (ks.zip vs).map (·.1) = ks := List.map_fst_zip (by omega)
    have hsnd' : (ks.zip vs).map (·.2) = vs := List.map_snd_zip (by omega)
    have hobj' : objOfPairs (ks.zip vs) = ks.zip vs := objOfPairs_nodup _ (by rw [hfst']; exact hnd)
    simp [internalize, h2, keys_roundtrip ks hval, goMapOfPairs, hobj', hfst', hsnd', bind, Except.bind]
  | .struct flds tys, .struct fs, h =>
    simp only [RT] at h
    obtain ⟨hd, hnd, hf⟩ := h
    obtain ⟨ps, h1, hnames, h2⟩ := roundtripFields flds tys fs hf
    have hpn : (ps.map (·.1)).Nodup := by
      rw [hnames]; exact List.Nodup.sublist (exportedNames_sublist flds) hnd
    have hobj : objOfPairs ps = ps := objOfPairs_nodup ps hpn
    have hs : searchJs (.struct flds tys) (.struct fs) = none := searchJs_dom _ _ (by simpa [domTy] using hd)
    refine ⟨.obj (ps.map (·.1)) (ps.map (·.2)), by simp [externalize, hs, h1, hobj, bind, Except.bind], ?_⟩
    have hw : wrapJs (.struct flds tys) (.obj (ps.map (·.1)) (ps.map (·.2))) = none := wrapJs_dom _ _ (by simpa [domTy] using hd)
    have := h2 (ps.map (·.1)) (ps.map (·.2)) (lookupProp_mem ps hpn)
    simp [internalize, guardWrapper, hw, this, bind, Except.bind]
  | .bool, v, h => exact roundtrip_scalar _ v (by simpa [RT] using h)
  | .int k, v, h => exact roundtrip_scalar _ v (by simpa [RT] using h)
  | .i64, v, h => exact roundtrip_scalar _ v (by simpa [RT] using h)
  | .u64, v, h => exact roundtrip_scalar _ v (by simpa [RT] using h)
  | .str, v, h => exact roundtrip_scalar _ v (by simpa [RT] using h)
  | .f32, v, h => exact roundtrip_scalar _ v (by simpa [RT] using h)
  | .f64, v, h => exact roundtrip_scalar _ v (by simpa [RT] using h)
  | .slice e, .bool _, h | .slice e, .num _, h | .slice e, .i64 _ _, h | .slice e, .str _, h | .slice e, .arr _, h
  | .slice e, .map _ _, h | .slice e, .struct _, h | .slice e, .ptr _, h | .slice e, .iface _ _, h | .slice e, .func _, h
  | .slice e, .jsfunc _, h | .slice e, .jsobj _, h | .slice e, .opaque _, h => simp [RT, RTScalar] at h
  | .arr _ e, .bool _, h | .arr _ e, .num _, h | .arr _ e, .i64 _ _, h | .arr _ e, .str _, h | .arr _ e, .slice _, h | .arr _ e, .nil, h
  | .arr _ e, .map _ _, h | .arr _ e, .struct _, h | .arr _ e, .ptr _, h | .arr _ e, .iface _ _, h | .arr _ e, .func _, h
  | .arr _ e, .jsfunc _, h | .arr _ e, .jsobj _, h | .arr _ e, .opaque _, h => simp [RT, RTScalar] at h
  | .map e, .bool _, h | .map e, .num _, h | .map e, .i64 _ _, h | .map e, .str _, h | .map e, .slice _, h | .map e, .arr _, h
  | .map e, .struct _, h | .map e, .ptr _, h | .map e, .iface _ _, h | .map e, .func _, h
  | .map e, .jsfunc _, h | .map e, .jsobj _, h | .map e, .opaque _, h => simp [RT, RTScalar] at h
  | .struct _ _, .bool _, h | .struct _ _, .num _, h | .struct _ _, .i64 _ _, h | .struct _ _, .str _, h | .struct _ _, .slice _, h
  | .struct _ _, .arr _, h | .struct _ _, .nil, h | .struct _ _, .map _ _, h | .struct _ _, .ptr _, h | .struct _ _, .iface _ _, h
  | .struct _ _, .func _, h | .struct _ _, .jsfunc _, h | .struct _ _, .jsobj _, h | .struct _ _, .opaque _, h => simp [RT, RTScalar] at h
  | .ptr _, v, h | .iface, v, h | .func _ _ _, v, h | .jsobj, v, h => cases v <;> simp [RT, RTScalar] at h
termination_by sizeOf v

theorem roundtripList (e : Ty) (es : List GoVal) (h : RTList e es) :
    ∃ js, js.length = es.length ∧ extList e es = .ok js ∧ js.mapM (internalize e) = .ok es := by
  match es, h with
  | [], _ => exact ⟨[], rfl, by simp [extList], rfl⟩
  | v :: r, h =>
    simp only [RTList] at h
    obtain ⟨j, h1, h2⟩ := roundtrip e v h.1
    obtain ⟨js, hl, h3, h4⟩ := roundtripList e r h.2
    refine ⟨j :: js, by simp [hl], by simp [extList, h1, h3, bind, Except.bind], ?_⟩
    rw [List.mapM_cons, h2, h4]; rfl
termination_by sizeOf es

theorem roundtripFields (flds : List Fld) (tys : List Ty) (fs : List GoVal) (h : RTFields flds tys fs) :
    ∃ ps, extFields flds tys fs = .ok ps ∧ ps.map (·.1) = exportedNames flds ∧
      ∀ (K : List (List Nat)) (V : List JsVal), (∀ p ∈ ps, lookupProp K V p.1 = p.2) →
        internFields flds tys (.obj K V) = .ok fs := by
  match fs, flds, tys, h with
  | [], [], [], _ => exact ⟨[], by simp [extFields], rfl, fun K V _ => by simp [internFields]⟩
  | v :: fs', f :: flds', t :: tys', h =>
    simp only [RTFields] at h
    obtain ⟨ps, h1, hn, h2⟩ := roundtripFields flds' tys' fs' h.2
    by_cases hex : f.exported = true
    · have hv : RT t v := by simpa [hex] using h.1
      obtain ⟨j, hx, hi⟩ := roundtrip t v hv
      refine ⟨(f.name, j) :: ps, by simp [extFields, hex, hx, h1, bind, Except.bind], by simp [exportedNames, hex, hn], ?_⟩
      intro K V hlook
      have hj : lookupProp K V f.name = j := hlook (f.name, j) (by simp)
      have := h2 K V (fun p hp => hlook p (by simp [hp]))
      simp [internFields, hex, isNullish, hj, hi, this, bind, Except.bind]
    · have hv : v = zeroVal t := by simpa [hex] using h.1
      refine ⟨ps, by simp [extFields, hex, h1], by simp [exportedNames, hex, hn], ?_⟩
      intro K V hlook
      have := h2 K V hlook
      simp [internFields, hex, this, hv, bind, Except.bind]
  | [], _ :: _, _, h | [], [], _ :: _, h | _ :: _, [], _, h | _ :: _, _ :: _, [], h => simp [RTFields] at h
termination_by sizeOf fs
end

end GV.Proofs.JsConv
