/-
  GV.Proofs.Dce — the work-list selector (GV.Model.Dce) computes the least closed set (GV.Spec.Dce.Live).
  Loop invariant `Inv` + induction over the work list; helper lemmas for GV.Props.C05.
-/
import GV.Model.Dce
import GV.Spec.Dce

namespace GV.Proofs.Dce
open GV.Dce GV.Spec.Dce

/-! ### the filter map -/

theorem mapFind_append (k k' : Name) (i : Nat) : ∀ m : FMap,
    mapFind k (mapAppend k' i m) = if k' = k then some ((mapFind k m).getD [] ++ [i]) else mapFind k m
  | [] => by
    simp only [mapAppend, mapFind]
    split <;> simp
  | (k₀, v) :: m => by
    have ih := mapFind_append k k' i m
    simp only [mapAppend]
    by_cases h0 : k₀ = k'
    · subst h0
      simp only [if_true, mapFind]
      by_cases h1 : k₀ = k
      · simp [h1]
      · simp [h1]
    · simp only [h0, if_false, mapFind]
      by_cases h1 : k₀ = k
      · have : ¬ k' = k := fun h => h0 (h1.trans h.symm)
        simp [h1, this]
      · simp only [h1, if_false]; exact ih

theorem mapFind_erase (k k' : Name) : ∀ m : FMap,
    mapFind k (mapErase k' m) = if k' = k then none else mapFind k m
  | [] => by simp [mapErase, mapFind]
  | (k₀, v) :: m => by
    have ih := mapFind_erase k k' m
    simp only [mapErase]
    by_cases h0 : k₀ = k'
    · subst h0
      simp only [if_true, mapFind]
      by_cases h1 : k₀ = k
      · simp only [h1, if_true] at ih ⊢; exact ih
      · simp only [h1, if_false] at ih ⊢; exact ih
    · simp only [h0, if_false, mapFind]
      by_cases h1 : k₀ = k
      · have : ¬ k' = k := fun h => h0 (h1.trans h.symm)
        simp [h1, this]
      · simp only [h1, if_false]; exact ih

theorem mapAppend_keeps {k k' : Name} {n i : Nat} {m : FMap} {l : List Nat}
    (h : mapFind k m = some l) (hi : i ∈ l) : ∃ l', mapFind k (mapAppend k' n m) = some l' ∧ i ∈ l' := by
  rw [mapFind_append]
  split
  · exact ⟨_, rfl, by simp [h, hi]⟩
  · exact ⟨l, h, hi⟩

theorem mapAppend_new (k : Name) (n : Nat) (m : FMap) : ∃ l', mapFind k (mapAppend k n m) = some l' ∧ n ∈ l' := by
  rw [mapFind_append, if_pos rfl]
  exact ⟨_, rfl, by simp⟩

/-- the two conditional `append`s of `Include` -/
def addFilters (d : Decl) (n : Nat) (bf : FMap) : FMap :=
  let bf := if d.obj ≠ "" then mapAppend d.obj n bf else bf
  if d.meth ≠ "" then mapAppend d.meth n bf else bf

theorem addFilters_keeps {d : Decl} {n i : Nat} {k : Name} {m : FMap} {l : List Nat}
    (h : mapFind k m = some l) (hi : i ∈ l) : ∃ l', mapFind k (addFilters d n m) = some l' ∧ i ∈ l' := by
  unfold addFilters
  by_cases ho : d.obj = "" <;> by_cases hm : d.meth = "" <;> simp only [ho, hm, ne_eq, not_true_eq_false,
    not_false_eq_true, if_true, if_false]
  · exact ⟨l, h, hi⟩
  · exact mapAppend_keeps h hi
  · exact mapAppend_keeps h hi
  · obtain ⟨l1, h1, hi1⟩ := mapAppend_keeps (k' := d.obj) (n := n) h hi
    exact mapAppend_keeps h1 hi1

theorem addFilters_obj {d : Decl} (n : Nat) (m : FMap) (ho : d.obj ≠ "") :
    ∃ l', mapFind d.obj (addFilters d n m) = some l' ∧ n ∈ l' := by
  unfold addFilters
  obtain ⟨l1, h1, hi1⟩ := mapAppend_new d.obj n m
  by_cases hm : d.meth = "" <;> simp only [ho, hm, ne_eq, not_true_eq_false, not_false_eq_true, if_true, if_false]
  · exact ⟨l1, h1, hi1⟩
  · exact mapAppend_keeps h1 hi1

theorem addFilters_meth {d : Decl} (n : Nat) (m : FMap) (hm : d.meth ≠ "") :
    ∃ l', mapFind d.meth (addFilters d n m) = some l' ∧ n ∈ l' := by
  unfold addFilters
  simp only [hm, ne_eq, not_false_eq_true, if_true]
  exact mapAppend_new _ _ _

/-! ### popping from the pending list -/

theorem popAt_mem {α : Type} : ∀ (i : Nat) (l : List α) (d : α) (r : List α),
    popAt i l = some (d, r) → ∀ x, x ∈ l ↔ x = d ∨ x ∈ r
  | _, [], _, _, h => by simp [popAt] at h
  | 0, x :: xs, d, r, h => by
    simp only [popAt, Option.some.injEq, Prod.mk.injEq] at h
    intro y; rw [← h.1, ← h.2]; simp
  | n + 1, x :: xs, d, r, h => by
    simp only [popAt, Option.map_eq_some_iff] at h
    obtain ⟨p, hp, he⟩ := h
    have ih := popAt_mem n xs p.1 p.2 hp
    simp only [Prod.mk.injEq] at he
    intro y
    rw [← he.1, ← he.2]
    simp only [List.mem_cons, ih y]
    constructor
    · rintro (h | h | h)
      · exact Or.inr (Or.inl h)
      · exact Or.inl h
      · exact Or.inr (Or.inr h)
    · rintro (h | h | h)
      · exact Or.inr (Or.inl h)
      · exact Or.inl h
      · exact Or.inr (Or.inr h)

theorem popAt_none {α : Type} : ∀ (i : Nat) (l : List α), popAt i l = none → l.length ≤ i
  | _, [], _ => by simp
  | 0, x :: xs, h => by simp [popAt] at h
  | n + 1, x :: xs, h => by
    simp only [popAt, Option.map_eq_none_iff] at h
    have := popAt_none n xs h
    simp only [List.length_cons]; omega

theorem pop_none_nil (pick : Pick) (p : List Decl) (h : popAt (pick p % p.length) p = none) : p = [] := by
  cases p with
  | nil => rfl
  | cons x xs =>
    have h1 := popAt_none _ _ h
    have h2 : pick (x :: xs) % (x :: xs).length < (x :: xs).length := Nat.mod_lt _ (by simp)
    omega

/-! ### clearing `declInfo`s -/

theorem clear_idem (k : Name) (info : Info) : (info.clear k).clear k = info.clear k := by
  cases info with
  | mk decl obj meth =>
    simp only [Info.clear]
    congr 1
    · by_cases h : obj = k
      · simp [h]
      · simp [h]
    · by_cases h : meth = k
      · simp [h]
      · simp [h]

theorem clear_decl (k : Name) (info : Info) : (info.clear k).decl = info.decl := rfl

/-- what the inner loop over one `byFilter` bucket does to the heap of `declInfo`s and to the pending list -/
theorem fold_hit (k : Name) : ∀ (l : List Nat) (infos : List Info) (pend : List Decl),
    let r := l.foldl (hitInfo k) (infos, pend)
    (∀ j, r.1[j]? = (infos[j]?).map (fun info => if j ∈ l then info.clear k else info)) ∧
    (∀ x, x ∈ pend → x ∈ r.2) ∧
    (∀ x, x ∈ r.2 → x ∈ pend ∨ ∃ j info, j ∈ l ∧ infos[j]? = some info ∧ (info.clear k).obj = "" ∧
        (info.clear k).meth = "" ∧ x = info.decl) ∧
    (∀ j info, j ∈ l → infos[j]? = some info → (info.clear k).obj = "" → (info.clear k).meth = "" → info.decl ∈ r.2)
  | [], infos, pend => by
    refine ⟨?_, ?_, ?_, ?_⟩
    · intro j
      show infos[j]? = _
      cases h : infos[j]? <;> simp
    · intro x h; exact h
    · intro x h; exact Or.inl h
    · intro j info h; simp at h
  | i :: t, infos, pend => by
    simp only [List.foldl_cons]
    cases hi : infos[i]? with
    | none =>
      have hst : hitInfo k (infos, pend) i = (infos, pend) := by simp [hitInfo, hi]
      rw [hst]
      obtain ⟨a, b1, b2, b3⟩ := fold_hit k t infos pend
      refine ⟨?_, b1, ?_, ?_⟩
      · intro j
        rw [a j]
        by_cases hj : j = i
        · subst hj; simp [hi]
        · cases infos[j]? <;> simp [hj]
      · intro x hx
        rcases b2 x hx with h | ⟨j, info, hj, h1, h2⟩
        · exact Or.inl h
        · exact Or.inr ⟨j, info, List.mem_cons_of_mem _ hj, h1, h2⟩
      · intro j info hj h1
        rcases List.mem_cons.1 hj with h | h
        · subst h; rw [hi] at h1; cases h1
        · exact b3 j info h h1
    | some info₀ =>
      have hlt : i < infos.length := by
        have := (List.getElem?_eq_some_iff.1 hi).1; exact this
      -- the state after visiting `i`
      let infos₁ := infos.set i (info₀.clear k)
      have hget : ∀ j, infos₁[j]? = if i = j then some (info₀.clear k) else infos[j]? := by
        intro j; simp only [infos₁, List.getElem?_set, hlt, if_true]
      by_cases hboth : (info₀.clear k).obj = "" ∧ (info₀.clear k).meth = ""
      · have hst : hitInfo k (infos, pend) i = (infos₁, pend ++ [info₀.decl]) := by
          simp only [hitInfo, hi, infos₁]
          rw [if_pos hboth]; rfl
        rw [hst]
        obtain ⟨a, b1, b2, b3⟩ := fold_hit k t infos₁ (pend ++ [info₀.decl])
        refine ⟨?_, ?_, ?_, ?_⟩
        · intro j
          rw [a j, hget j]
          by_cases hj : i = j
          · subst hj
            simp only [if_true, Option.map_some, hi, List.mem_cons, true_or]
            by_cases ht : i ∈ t
            · simp [ht, clear_idem]
            · simp [ht]
          · have hj' : ¬ j = i := fun h => hj h.symm
            simp only [hj, if_false, List.mem_cons, hj', false_or]
        · intro x hx; exact b1 x (List.mem_append_left _ hx)
        · intro x hx
          rcases b2 x hx with h | ⟨j, info, hj, h1, h2, h3, h4⟩
          · rcases List.mem_append.1 h with h | h
            · exact Or.inl h
            · simp only [List.mem_singleton] at h
              exact Or.inr ⟨i, info₀, List.mem_cons_self, hi, hboth.1, hboth.2, h⟩
          · rw [hget j] at h1
            by_cases hij : i = j
            · subst hij
              simp only [if_true, Option.some.injEq] at h1
              subst h1
              rw [clear_idem] at h2 h3
              exact Or.inr ⟨i, info₀, List.mem_cons_self, hi, h2, h3, h4⟩
            · simp only [hij, if_false] at h1
              exact Or.inr ⟨j, info, List.mem_cons_of_mem _ hj, h1, h2, h3, h4⟩
        · intro j info hj h1 h2 h3
          rcases List.mem_cons.1 hj with h | h
          · subst h
            rw [hi] at h1; cases h1
            exact b1 _ (List.mem_append_right _ (List.mem_singleton.2 rfl))
          · by_cases hij : i = j
            · subst hij
              rw [hi] at h1; cases h1
              exact b1 _ (List.mem_append_right _ (List.mem_singleton.2 rfl))
            · have h1' : infos₁[j]? = some info := by rw [hget j]; simp only [hij, if_false]; exact h1
              exact b3 j info h h1' h2 h3
      · have hst : hitInfo k (infos, pend) i = (infos₁, pend) := by
          simp only [hitInfo, hi, infos₁]
          rw [if_neg hboth]
        rw [hst]
        obtain ⟨a, b1, b2, b3⟩ := fold_hit k t infos₁ pend
        refine ⟨?_, b1, ?_, ?_⟩
        · intro j
          rw [a j, hget j]
          by_cases hj : i = j
          · subst hj
            simp only [if_true, Option.map_some, hi, List.mem_cons, true_or]
            by_cases ht : i ∈ t
            · simp [ht, clear_idem]
            · simp [ht]
          · have hj' : ¬ j = i := fun h => hj h.symm
            simp only [hj, if_false, List.mem_cons, hj', false_or]
        · intro x hx
          rcases b2 x hx with h | ⟨j, info, hj, h1, h2, h3, h4⟩
          · exact Or.inl h
          · rw [hget j] at h1
            by_cases hij : i = j
            · subst hij
              simp only [if_true, Option.some.injEq] at h1
              subst h1
              rw [clear_idem] at h2 h3
              exact absurd ⟨h2, h3⟩ hboth
            · simp only [hij, if_false] at h1
              exact Or.inr ⟨j, info, List.mem_cons_of_mem _ hj, h1, h2, h3, h4⟩
        · intro j info hj h1 h2 h3
          rcases List.mem_cons.1 hj with h | h
          · subst h
            rw [hi] at h1; cases h1
            exact absurd ⟨h2, h3⟩ hboth
          · by_cases hij : i = j
            · subst hij
              rw [hi] at h1; cases h1
              exact absurd ⟨h2, h3⟩ hboth
            · have h1' : infos₁[j]? = some info := by rw [hget j]; simp only [hij, if_false]; exact h1
              exact b3 j info h h1' h2 h3

/-! ### the invariant -/

/-- state of one filter field of a `declInfo` (heap index `i`): `cur` is the current field, `orig` the filter of the
declaration.  Either the field is still set, then its key is still in the map and the bucket holds `i`; or it was
cleared, and then (if the declaration has this filter at all) the name was a processed dependency. -/
def FieldOK (bf : FMap) (P : List Name) (i : Nat) (cur orig : Name) : Prop :=
  (cur = "" ∨ cur = orig) ∧ (cur = "" → orig = "" ∨ orig ∈ P) ∧
  (cur ≠ "" → ∃ l, mapFind cur bf = some l ∧ i ∈ l)

/-- Loop invariant.  `ds`: all declarations of the program; `inc`: those included so far; `sel`: the selection so
far; `P`: the dependency names processed so far. -/
structure Inv (ds inc : List Decl) (s : Sel) (sel : List Decl) (P : List Name) : Prop where
  pdel : ∀ k, k ∈ P → mapFind k s.byFilter = none
  pdep : ∀ k, k ∈ P → ∃ e, Live ds e ∧ k ∈ e.deps
  plive : ∀ d, d ∈ s.pending → Live ds d
  slive : ∀ d, d ∈ sel → Live ds d
  infoOK : ∀ (i : Nat) (info : Info), s.infos[i]? = some info → info.decl ∈ ds ∧ info.decl.isAlive = false ∧
      FieldOK s.byFilter P i info.obj info.decl.obj ∧ FieldOK s.byFilter P i info.meth info.decl.meth
  pushed : ∀ (i : Nat) (info : Info), s.infos[i]? = some info → info.obj = "" → info.meth = "" →
      info.decl ∈ s.pending ∨ info.decl ∈ sel
  reg : ∀ d, d ∈ inc → d.isAlive = false → ∃ (i : Nat) (info : Info), s.infos[i]? = some info ∧ info.decl = d
  roots : ∀ d, d ∈ inc → IsRoot d → d ∈ s.pending ∨ d ∈ sel

theorem live_root {ds : List Decl} {d : Decl} (hd : d ∈ ds) (hr : IsRoot d) : Live ds d :=
  (live_closed ds).roots d hd hr

theorem live_step {ds : List Decl} {e : Decl} (he : e ∈ ds)
    (hf : ∀ f, IsFilter e f → ∃ d, Live ds d ∧ f ∈ d.deps) : Live ds e :=
  (live_closed ds).step e he hf

theorem FieldOK.mono {bf : FMap} {P : List Name} {i : Nat} {cur orig k : Name}
    (h : FieldOK bf P i cur orig) : FieldOK bf (k :: P) i cur orig :=
  ⟨h.1, fun hc => (h.2.1 hc).imp id (List.mem_cons_of_mem _), h.2.2⟩

theorem inv_empty (ds : List Decl) : Inv ds [] Sel.empty [] [] where
  pdel := by intro k h; cases h
  pdep := by intro k h; cases h
  plive := by intro d h; cases h
  slive := by intro d h; cases h
  infoOK := by intro i info h; simp [Sel.empty] at h
  pushed := by intro i info h; simp [Sel.empty] at h
  reg := by intro d h; cases h
  roots := by intro d h; cases h

/-- selector.go:28-57: `Include` keeps the invariant (before any dependency has been processed) -/
theorem include_inv {ds inc : List Decl} {s : Sel} {d : Decl} (hd : d ∈ ds) (h : Inv ds inc s [] []) :
    Inv ds (d :: inc) (includeDecl s d) [] [] := by
  unfold includeDecl
  by_cases ha : d.isAlive = true
  · simp only [ha, if_true]
    exact {
      pdel := by intro k hk; cases hk
      pdep := by intro k hk; cases hk
      plive := by
        intro x hx
        rcases List.mem_append.1 hx with hx | hx
        · exact h.plive x hx
        · simp only [List.mem_singleton] at hx; subst hx; exact live_root hd (Or.inl ha)
      slive := by intro x hx; cases hx
      infoOK := h.infoOK
      pushed := by
        intro i info h1 h2 h3
        rcases h.pushed i info h1 h2 h3 with hp | hp
        · exact Or.inl (List.mem_append_left _ hp)
        · exact Or.inr hp
      reg := by
        intro x hx hna
        rcases List.mem_cons.1 hx with hx | hx
        · subst hx; rw [ha] at hna; cases hna
        · exact h.reg x hx hna
      roots := by
        intro x hx hr
        rcases List.mem_cons.1 hx with hx | hx
        · subst hx; exact Or.inl (List.mem_append_right _ (List.mem_singleton.2 rfl))
        · rcases h.roots x hx hr with hp | hp
          · exact Or.inl (List.mem_append_left _ hp)
          · exact Or.inr hp }
  · have ha' : d.isAlive = false := by cases hh : d.isAlive <;> simp_all
    simp only [ha', Bool.false_eq_true, if_false]
    -- the new map
    have hne : ¬ (d.obj = "" ∧ d.meth = "") := by
      intro hh
      have : d.isAlive = true := by simp [Decl.isAlive, Decl.unnamed, hh.1, hh.2]
      exact ha this
    -- pending only grows
    have hpend : ∀ x, x ∈ s.pending → x ∈ (if d.link = true then s.pending ++ [d] else s.pending) := by
      intro x hx; split
      · exact List.mem_append_left _ hx
      · exact hx
    show Inv ds (d :: inc) ⟨addFilters d s.infos.length s.byFilter, s.infos ++ [⟨d, d.obj, d.meth⟩],
      if d.link = true then s.pending ++ [d] else s.pending⟩ [] []
    exact {
      pdel := by intro k hk; cases hk
      pdep := by intro k hk; cases hk
      plive := by
        intro x hx
        by_cases hl : d.link = true
        · simp only [hl, if_true] at hx
          rcases List.mem_append.1 hx with hx | hx
          · exact h.plive x hx
          · simp only [List.mem_singleton] at hx; subst hx; exact live_root hd (Or.inr hl)
        · simp only [hl] at hx; exact h.plive x hx
      slive := by intro x hx; cases hx
      infoOK := by
        intro i info hi
        simp only [List.getElem?_append] at hi
        by_cases hlt : i < s.infos.length
        · simp only [hlt, if_true] at hi
          obtain ⟨h1, h2, h3, h4⟩ := h.infoOK i info hi
          refine ⟨h1, h2, ?_, ?_⟩
          · refine ⟨h3.1, h3.2.1, ?_⟩
            intro hc
            obtain ⟨l, hl, hil⟩ := h3.2.2 hc
            exact addFilters_keeps hl hil
          · refine ⟨h4.1, h4.2.1, ?_⟩
            intro hc
            obtain ⟨l, hl, hil⟩ := h4.2.2 hc
            exact addFilters_keeps hl hil
        · simp only [hlt, if_false] at hi
          have hi0 : i = s.infos.length := by
            by_cases h0 : i - s.infos.length = 0
            · omega
            · simp [h0] at hi
          subst hi0
          simp only [Nat.sub_self, List.getElem?_singleton, if_true, Option.some.injEq] at hi
          subst hi
          refine ⟨hd, ha', ?_, ?_⟩
          · exact ⟨Or.inr rfl, fun hc => Or.inl hc, fun hc => addFilters_obj _ _ hc⟩
          · exact ⟨Or.inr rfl, fun hc => Or.inl hc, fun hc => addFilters_meth _ _ hc⟩
      pushed := by
        intro i info hi h2 h3
        simp only [List.getElem?_append] at hi
        by_cases hlt : i < s.infos.length
        · simp only [hlt, if_true] at hi
          rcases h.pushed i info hi h2 h3 with hp | hp
          · exact Or.inl (hpend _ hp)
          · exact Or.inr hp
        · simp only [hlt, if_false] at hi
          have hi0 : i - s.infos.length = 0 := by
            by_cases h0 : i - s.infos.length = 0
            · exact h0
            · simp [h0] at hi
          simp only [hi0, List.getElem?_singleton, if_true, Option.some.injEq] at hi
          subst hi
          exact absurd ⟨h2, h3⟩ hne
      reg := by
        intro x hx hna
        rcases List.mem_cons.1 hx with hx | hx
        · subst hx
          exact ⟨s.infos.length, ⟨x, x.obj, x.meth⟩, by simp, rfl⟩
        · obtain ⟨i, info, hi, hdecl⟩ := h.reg x hx hna
          have hlt : i < s.infos.length := (List.getElem?_eq_some_iff.1 hi).1
          exact ⟨i, info, by rw [List.getElem?_append_left hlt]; exact hi, hdecl⟩
      roots := by
        intro x hx hr
        rcases List.mem_cons.1 hx with hx | hx
        · subst hx
          rcases hr with hr | hr
          · rw [ha'] at hr; cases hr
          · simp only [hr, if_true]; exact Or.inl (List.mem_append_right _ (List.mem_singleton.2 rfl))
        · rcases h.roots x hx hr with hp | hp
          · exact Or.inl (hpend _ hp)
          · exact Or.inr hp }

theorem fold_include_inv {ds : List Decl} : ∀ (rest inc : List Decl) (s : Sel),
    (∀ d, d ∈ rest → d ∈ ds) → Inv ds inc s [] [] →
    Inv ds (rest.reverse ++ inc) (rest.foldl includeDecl s) [] []
  | [], inc, s, _, h => by simpa using h
  | d :: rest, inc, s, hsub, h => by
    have h1 := include_inv (hsub d List.mem_cons_self) h
    have h2 := fold_include_inv rest (d :: inc) (includeDecl s d)
      (fun x hx => hsub x (List.mem_cons_of_mem _ hx)) h1
    simpa [List.reverse_cons, List.append_assoc] using h2

/-- a cleared field of a `declInfo` whose declaration has this filter: the filter name has been processed -/
theorem cleared_processed {bf : FMap} {P : List Name} {i : Nat} {cur orig k : Name}
    (h : FieldOK bf P i cur orig) (hc : (if cur = k then "" else cur) = "") (ho : orig ≠ "") : orig ∈ k :: P := by
  by_cases hk : cur = k
  · rcases h.1 with h1 | h1
    · rcases h.2.1 h1 with h2 | h2
      · exact absurd h2 ho
      · exact List.mem_cons_of_mem _ h2
    · rw [← h1, hk]; exact List.mem_cons_self
  · simp only [hk, if_false] at hc
    rcases h.2.1 hc with h2 | h2
    · exact absurd h2 ho
    · exact List.mem_cons_of_mem _ h2

/-- the field invariant survives the deletion of key `k` when the field is cleared iff the info is in the bucket -/
theorem fieldOK_after {bf : FMap} {P : List Name} {j : Nat} {cur orig k : Name} {l : List Nat}
    (hfind : mapFind k bf = some l) (h : FieldOK bf P j cur orig) :
    FieldOK (mapErase k bf) (k :: P) j (if j ∈ l then (if cur = k then "" else cur) else cur) orig := by
  by_cases hj : j ∈ l
  · simp only [hj, if_true]
    by_cases hk : cur = k
    · simp only [hk, if_true]
      refine ⟨Or.inl rfl, ?_, fun hc => absurd rfl hc⟩
      intro _
      rcases h.1 with h1 | h1
      · exact (h.2.1 h1).imp id (List.mem_cons_of_mem _)
      · exact Or.inr (by rw [← h1, hk]; exact List.mem_cons_self)
    · simp only [hk, if_false]
      refine ⟨h.1, fun hc => (h.2.1 hc).imp id (List.mem_cons_of_mem _), ?_⟩
      intro hc
      obtain ⟨l', hl', hjl'⟩ := h.2.2 hc
      refine ⟨l', ?_, hjl'⟩
      rw [mapFind_erase]
      have : ¬ k = cur := fun hh => hk hh.symm
      simp only [this, if_false]; exact hl'
  · simp only [hj, if_false]
    refine ⟨h.1, fun hc => (h.2.1 hc).imp id (List.mem_cons_of_mem _), ?_⟩
    intro hc
    obtain ⟨l', hl', hjl'⟩ := h.2.2 hc
    have hk : ¬ k = cur := by
      intro hh
      rw [← hh, hfind] at hl'
      cases hl'
      exact hj hjl'
    refine ⟨l', ?_, hjl'⟩
    rw [mapFind_erase]
    simp only [hk, if_false]; exact hl'

/-- selector.go:79-94: processing one dependency name of a live declaration keeps the invariant -/
theorem processDep_inv {ds inc : List Decl} {s : Sel} {sel : List Decl} {P : List Name} {k : Name}
    (h : Inv ds inc s sel P) (hk : ∃ e, Live ds e ∧ k ∈ e.deps) :
    Inv ds inc (processDep s k) sel (k :: P) := by
  unfold processDep
  split
  · rename_i hnone
    exact {
      pdel := by
        intro k' hk'
        rcases List.mem_cons.1 hk' with h1 | h1
        · subst h1; exact hnone
        · exact h.pdel k' h1
      pdep := by
        intro k' hk'
        rcases List.mem_cons.1 hk' with h1 | h1
        · subst h1; exact hk
        · exact h.pdep k' h1
      plive := h.plive
      slive := h.slive
      infoOK := by
        intro i info hi
        obtain ⟨h1, h2, h3, h4⟩ := h.infoOK i info hi
        exact ⟨h1, h2, h3.mono, h4.mono⟩
      pushed := h.pushed
      reg := h.reg
      roots := h.roots }
  · rename_i l hfind
    obtain ⟨a, b1, b2, b3⟩ := fold_hit k l s.infos s.pending
    have hpdep : ∀ k', k' ∈ k :: P → ∃ e, Live ds e ∧ k' ∈ e.deps := by
      intro k' hk'
      rcases List.mem_cons.1 hk' with h1 | h1
      · subst h1; exact hk
      · exact h.pdep k' h1
    exact {
      pdel := by
        intro k' hk'
        rw [mapFind_erase]
        rcases List.mem_cons.1 hk' with h1 | h1
        · simp [h1]
        · split
          · rfl
          · exact h.pdel k' h1
      pdep := hpdep
      plive := by
        intro x hx
        rcases b2 x hx with h1 | ⟨j, info, hj, hi, ho, hm, hx⟩
        · exact h.plive x h1
        · obtain ⟨h1, h2, h3, h4⟩ := h.infoOK j info hi
          subst hx
          apply live_step h1
          intro f hf
          apply hpdep
          rcases hf.2 with hf2 | hf2
          · subst hf2; exact cleared_processed h3 ho hf.1
          · subst hf2; exact cleared_processed h4 hm hf.1
      slive := h.slive
      infoOK := by
        intro j info' hj
        rw [a j] at hj
        obtain ⟨info, hi, he⟩ := Option.map_eq_some_iff.1 hj
        obtain ⟨h1, h2, h3, h4⟩ := h.infoOK j info hi
        have e1 := fieldOK_after hfind h3
        have e2 := fieldOK_after hfind h4
        subst he
        by_cases hjl : j ∈ l
        · simp only [hjl, if_true] at e1 e2 ⊢
          exact ⟨h1, h2, e1, e2⟩
        · simp only [hjl, if_false] at e1 e2 ⊢
          exact ⟨h1, h2, e1, e2⟩
      pushed := by
        intro j info' hj ho hm
        rw [a j] at hj
        obtain ⟨info, hi, he⟩ := Option.map_eq_some_iff.1 hj
        subst he
        by_cases hjl : j ∈ l
        · simp only [hjl, if_true] at ho hm ⊢
          exact Or.inl (b3 j info hjl hi ho hm)
        · simp only [hjl, if_false] at ho hm ⊢
          rcases h.pushed j info hi ho hm with hp | hp
          · exact Or.inl (b1 _ hp)
          · exact Or.inr hp
      reg := by
        intro d hd hna
        obtain ⟨i, info, hi, hdecl⟩ := h.reg d hd hna
        refine ⟨i, if i ∈ l then info.clear k else info, ?_, ?_⟩
        · rw [a i, hi]; rfl
        · split <;> exact hdecl
      roots := by
        intro d hd hr
        rcases h.roots d hd hr with hp | hp
        · exact Or.inl (b1 _ hp)
        · exact Or.inr hp }

theorem fold_processDep_inv {ds inc : List Decl} {sel : List Decl} : ∀ (deps : List Name) (s : Sel) (P : List Name),
    Inv ds inc s sel P → (∀ k, k ∈ deps → ∃ e, Live ds e ∧ k ∈ e.deps) →
    Inv ds inc (deps.foldl processDep s) sel (deps.reverse ++ P)
  | [], s, P, h, _ => by simpa using h
  | k :: deps, s, P, h, hk => by
    have h1 := processDep_inv h (hk k List.mem_cons_self)
    have h2 := fold_processDep_inv deps (processDep s k) (k :: P) h1 (fun k' hk' => hk k' (List.mem_cons_of_mem _ hk'))
    simpa [List.reverse_cons, List.append_assoc] using h2

/-- every dependency name of every selected declaration has been processed -/
def DepsDone (sel : List Decl) (P : List Name) : Prop := ∀ e, e ∈ sel → ∀ k, k ∈ e.deps → k ∈ P

/-- selector.go:69-96: the loop ends with exactly the least closed set -/
theorem aliveLoop_spec {ds inc : List Decl} (pick : Pick) (hinc : ∀ d, d ∈ ds → d ∈ inc) :
    ∀ (s : Sel) (sel : List Decl) (P : List Name), Inv ds inc s sel P → DepsDone sel P →
    ∀ d, d ∈ aliveLoop pick s sel ↔ Live ds d := by
  intro s sel
  induction s, sel using aliveLoop.induct pick with
  | case1 s sel hnone =>
    intro P h hdone d
    rw [aliveLoop, hnone]
    have hnil := pop_none_nil pick s.pending hnone
    constructor
    · exact h.slive d
    · intro hl
      apply hl (· ∈ sel)
      constructor
      · intro x hx hr
        rcases h.roots x (hinc x hx) hr with hp | hp
        · rw [hnil] at hp; cases hp
        · exact hp
      · intro e he hf
        by_cases ha : e.isAlive = true
        · rcases h.roots e (hinc e he) (Or.inl ha) with hp | hp
          · rw [hnil] at hp; cases hp
          · exact hp
        · have ha' : e.isAlive = false := by cases hh : e.isAlive <;> simp_all
          obtain ⟨i, info, hi, hdecl⟩ := h.reg e (hinc e he) ha'
          obtain ⟨_, _, h3, h4⟩ := h.infoOK i info hi
          have key : ∀ cur orig, FieldOK s.byFilter P i cur orig → (orig = e.obj ∨ orig = e.meth) → cur = "" := by
            intro cur orig hfo horig
            by_cases hc : cur = ""
            · exact hc
            · exfalso
              obtain ⟨l, hl, _⟩ := hfo.2.2 hc
              have hco : cur = orig := by
                rcases hfo.1 with h1 | h1
                · exact absurd h1 hc
                · exact h1
              obtain ⟨x, hx, hdep⟩ := hf cur ⟨hc, by rw [hco]; exact horig⟩
              have := h.pdel cur (hdone x hx cur hdep)
              rw [this] at hl; cases hl
          have ho := key info.obj info.decl.obj h3 (Or.inl (by rw [hdecl]))
          have hm := key info.meth info.decl.meth h4 (Or.inr (by rw [hdecl]))
          rcases h.pushed i info hi ho hm with hp | hp
          · rw [hnil] at hp; cases hp
          · rw [← hdecl]; exact hp
  | case2 s sel d rest hsome ih =>
    intro P h hdone x
    rw [aliveLoop, hsome]
    have hmem := popAt_mem _ _ _ _ hsome
    have hdlive : Live ds d := h.plive d ((hmem d).2 (Or.inl rfl))
    -- move `d` from the pending list into the selection
    have h1 : Inv ds inc { s with pending := rest } (d :: sel) P := {
      pdel := h.pdel
      pdep := h.pdep
      plive := fun y hy => h.plive y ((hmem y).2 (Or.inr hy))
      slive := by
        intro y hy
        rcases List.mem_cons.1 hy with hy | hy
        · subst hy; exact hdlive
        · exact h.slive y hy
      infoOK := h.infoOK
      pushed := by
        intro i info hi ho hm
        rcases h.pushed i info hi ho hm with hp | hp
        · rcases (hmem _).1 hp with hp | hp
          · exact Or.inr (by rw [hp]; exact List.mem_cons_self)
          · exact Or.inl hp
        · exact Or.inr (List.mem_cons_of_mem _ hp)
      reg := h.reg
      roots := by
        intro y hy hr
        rcases h.roots y hy hr with hp | hp
        · rcases (hmem _).1 hp with hp | hp
          · exact Or.inr (by rw [hp]; exact List.mem_cons_self)
          · exact Or.inl hp
        · exact Or.inr (List.mem_cons_of_mem _ hp) }
    have h2 := fold_processDep_inv d.deps { s with pending := rest } P h1 (fun k hk => ⟨d, hdlive, hk⟩)
    apply ih (d.deps.reverse ++ P) h2
    intro e he k hk
    rcases List.mem_cons.1 he with he | he
    · subst he; exact List.mem_append_left _ (List.mem_reverse.2 hk)
    · exact List.mem_append_right _ (hdone e he k hk)

/-- compiler.go:141-156 + selector.go: `select` computes the least closed set, for every inclusion order `ds`
and every discipline `pick` of the pending list -/
theorem select_spec (pick : Pick) (ds : List Decl) (d : Decl) : d ∈ select pick ds ↔ Live ds d := by
  unfold select
  have h := fold_include_inv (ds := ds) ds [] Sel.empty (fun _ h => h) (inv_empty ds)
  exact aliveLoop_spec pick (by intro x hx; simp [hx]) _ [] [] h (by intro e he; cases he) d

end GV.Proofs.Dce
