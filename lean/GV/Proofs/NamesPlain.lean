import GV.Model.Names
import GV.Model.NamesPlain
import GV.Proofs.NamesLemmas

/-! The name allocator with minification OFF (`name`, `name$1`, `name$2` … with the `allVars` counters):
    invariant and lemmas for `GV.Props.C01.names_distinct_plain`. -/
namespace GV.Proofs.NamesPlain
open GV.Names GV.NamesPlain GV.Proofs.Names

/-- utils.go:310-315: `varName = name` for the first use, `fmt.Sprintf("%s$%d", name, n)` afterwards -/
def render (b : Name) (k : Nat) : Name := if k > 0 then b ++ 36 :: decimal k else b

/-- the side condition: on the encoded names that are ever requested, `(name, counter) ↦ name$counter` is injective —
    no encoded name is another encoded name followed by `$<digits>` -/
def RenderInj (B : List Name) : Prop :=
  ∀ b ∈ B, ∀ b' ∈ B, ∀ k k', render b k = render b' k' → b = b' ∧ k = k'

/-- `allVars[name] = v` -/
def bumpTo (nm : Name) (v : Nat) (c : Scope) : Scope := { c with vars := c.vars.set nm v }

/-- utils.go:323-326: a local allocation bumps the counter of the innermost context and records the variable -/
def addLocal (fc : Scope) (nm v : Name) : Scope :=
  { fc with vars := fc.vars.set nm (fc.vars.cnt nm + 1), locals := fc.locals ++ [v] }

theorem newVariable_plain {name : Name} {pk : Bool} {fc : Scope} {parents chain' : List Scope} {v : Name}
    (h : newVariable false name pk (fc :: parents) = some (chain', v)) :
    v = render (encodeIdent name) (fc.vars.cnt (encodeIdent name)) ∧
      chain' = if pk then (fc :: parents).map (bumpTo (encodeIdent name) (fc.vars.cnt (encodeIdent name) + 1))
               else addLocal fc (encodeIdent name) v :: parents := by
  rw [newVariable] at h
  split at h
  · simp at h
  · simp only [Bool.false_eq_true, if_false] at h
    cases pk with
    | true =>
      simp only [if_true, Option.some.injEq, Prod.mk.injEq] at h
      obtain ⟨h1, h2⟩ := h
      exact ⟨by rw [← h2]; rfl, by simp [← h1, bumpTo]⟩
    | false =>
      simp only [Bool.false_eq_true, if_false, Option.some.injEq, Prod.mk.injEq] at h
      obtain ⟨h1, h2⟩ := h
      refine ⟨by rw [← h2]; rfl, ?_⟩
      simp only [Bool.false_eq_true, if_false, addLocal]
      rw [← h1, ← h2]

/-- per live context: every name visible from it that is `b$k` has `k` below the context's counter for `b`, and the
    counters of an enclosing context never exceed those of the contexts nested in it -/
def OKs (B : List Name) (pk : List Name) : List Scope → Prop
  | [] => True
  | sc :: rest =>
    (∀ v ∈ pk ++ chainLocals (sc :: rest), ∀ b k, b ∈ B → v = render b k → k < sc.vars.cnt b) ∧
    (∀ p ∈ rest, ∀ b, p.vars.cnt b ≤ sc.vars.cnt b) ∧ OKs B pk rest

/-- `R`: the names seeded into the root context (reserved keywords and reserved globals) -/
structure InvP (B R : List Name) (st : NState) : Prop where
  nodup : (visible st).Nodup
  ok : OKs B st.pkgNames st.chain
  res : ∀ sc ∈ st.chain, ∀ r ∈ R, 1 ≤ sc.vars.cnt r
  notres : ∀ n ∈ visible st, n ∉ R

/-- the invariant only looks at the context chain and the package-level names (robust against further bookkeeping
    fields of `NState`) -/
theorem InvP.congr {B R : List Name} {st st' : NState} (hc : st'.chain = st.chain) (hp : st'.pkgNames = st.pkgNames)
    (hi : InvP B R st) : InvP B R st' := by
  have hv : visible st' = visible st := by simp [visible, hc, hp]
  exact ⟨by rw [hv]; exact hi.nodup, by rw [hc, hp]; exact hi.ok, by rw [hc]; exact hi.res, by rw [hv]; exact hi.notres⟩

theorem cnt_bumpTo (nm n : Name) (v : Nat) (c : Scope) : (bumpTo nm v c).vars.cnt n = if nm = n then v else c.vars.cnt n := by
  simp [bumpTo, VarMap.cnt_set]

theorem chainLocals_bumpTo (nm : Name) (x : Nat) : ∀ (chain : List Scope), chainLocals (chain.map (bumpTo nm x)) = chainLocals chain
  | [] => rfl
  | c :: r => by simp [chainLocals, chainLocals_bumpTo nm x r, bumpTo]

theorem reserved_no_dollar : ∀ r ∈ reserved, 36 ∉ r := by decide

theorem render_not_reserved (R : List Name) (hR : ∀ r ∈ R, 36 ∉ r) (b : Name) (k : Nat) (h : k = 0 → b ∉ R) :
    render b k ∉ R := by
  unfold render
  split
  · intro hr
    exact hR _ hr (by simp)
  · exact h (by omega)

theorem foldl_set_ge (l : List Name) : ∀ (m : VarMap) (r : Name), (r ∈ l ∨ 1 ≤ m.cnt r) →
    1 ≤ (l.foldl (fun m k => VarMap.set m k 1) m).cnt r := by
  induction l with
  | nil => intro m r h; simpa using h
  | cons k l ih =>
    intro m r h
    simp only [List.foldl_cons]
    apply ih
    by_cases hk : k = r
    · right; simp [VarMap.cnt_set, hk]
    · rcases h with h | h
      · simp at h
        rcases h with h | h
        · exact absurd h.symm hk
        · left; exact h
      · right; simp [VarMap.cnt_set, hk, h]

theorem reservedAll_no_dollar : ∀ r ∈ reservedAll, 36 ∉ r := by decide

theorem initP (B : List Name) (extra : List Name) : InvP B (reserved ++ extra) (initStateX extra) := by
  refine ⟨by simp [visible, initStateX, chainLocals, rootScope, seedExtra], ?_, ?_,
    by simp [visible, initStateX, chainLocals, rootScope, seedExtra]⟩
  · simp [initStateX, OKs, chainLocals, rootScope, seedExtra]
  · intro sc hsc r hr
    simp [initStateX] at hsc
    subst hsc
    simp only [seedExtra]
    apply foldl_set_ge
    simp only [List.mem_append] at hr
    rcases hr with hr | hr
    · right; exact rootScope_res r hr
    · left; exact hr

/-- a package-level allocation bumps the counter in every live context -/
theorem OKs_bump (B : List Name) (hB : RenderInj B) (nm : Name) (hnm : nm ∈ B) (n : Nat) (pk : List Name) :
    ∀ (chain : List Scope), OKs B pk chain → (∀ sc ∈ chain, sc.vars.cnt nm ≤ n) →
      OKs B (pk ++ [render nm n]) (chain.map (bumpTo nm (n + 1)))
  | [], _, _ => trivial
  | sc :: rest, h, hle => by
    obtain ⟨h1, h2, h3⟩ := h
    refine ⟨?_, ?_, OKs_bump B hB nm hnm n pk rest h3 (fun s hs => hle s (List.mem_cons_of_mem _ hs))⟩
    · intro v hv b k hb hvk
      have hloc := chainLocals_bumpTo nm (n + 1) (sc :: rest)
      simp only [List.map_cons] at hloc
      rw [hloc] at hv
      rw [cnt_bumpTo]
      simp only [List.mem_append, List.mem_singleton] at hv
      have hold : v ∈ pk ++ chainLocals (sc :: rest) → (if nm = b then n + 1 else sc.vars.cnt b) > k := by
        intro hv'
        have := h1 v (by simpa using hv') b k hb hvk
        split
        · rename_i e
          subst e
          have := hle sc (by simp)
          omega
        · exact this
      rcases hv with (hv | hv) | hv
      · exact hold (by simp [hv])
      · rw [hv] at hvk
        obtain ⟨e1, e2⟩ := hB nm hnm b hb n k hvk
        subst e1; subst e2
        simp
      · exact hold (by simp [hv])
    · intro p hp b
      simp only [List.mem_map] at hp
      obtain ⟨p0, hp0, rfl⟩ := hp
      rw [cnt_bumpTo, cnt_bumpTo]
      split
      · exact Nat.le_refl _
      · exact h2 p0 hp0 b

theorem inv_req_plain (B R : List Name) (hR : ∀ r ∈ R, 36 ∉ r) (hB : RenderInj B) {st : NState} {name : Name} {pk : Bool} {c : List Scope} {v : Name}
    (hi : InvP B R st) (hnm : encodeIdent name ∈ B) (h : newVariable false name pk st.chain = some (c, v)) :
    InvP B R { chain := c, pkgNames := if pk then st.pkgNames ++ [v] else st.pkgNames } ∧ v ∉ visible st := by
  cases hch : st.chain with
  | nil => rw [hch] at h; simp [newVariable] at h
  | cons fc parents =>
    rw [hch] at h
    obtain ⟨hv, hc⟩ := newVariable_plain h
    have hok := hi.ok
    rw [hch] at hok
    obtain ⟨o1, o2, o3⟩ := hok
    have hfresh : v ∉ visible st := by
      intro hvis
      have := o1 v (by simpa [visible, hch] using hvis) _ _ hnm hv
      omega
    have hnr : v ∉ R := by
      rw [hv]
      apply render_not_reserved R hR
      intro h0 hr
      have := hi.res fc (by rw [hch]; simp) _ hr
      omega
    refine ⟨?_, hfresh⟩
    cases pk with
    | true =>
      simp only [if_true] at hc ⊢
      subst hc
      have hloc : chainLocals ((fc :: parents).map (bumpTo (encodeIdent name) (fc.vars.cnt (encodeIdent name) + 1)))
          = chainLocals st.chain := by rw [chainLocals_bumpTo, hch]
      refine ⟨?_, ?_, ?_, ?_⟩
      · simp only [visible, hloc]
        have hp : (st.pkgNames ++ [v] ++ chainLocals st.chain).Perm (v :: (st.pkgNames ++ chainLocals st.chain)) := by
          simpa using List.perm_middle (l₁ := st.pkgNames) (a := v) (l₂ := chainLocals st.chain)
        exact hp.nodup_iff.mpr (List.nodup_cons.mpr ⟨hfresh, hi.nodup⟩)
      · show OKs B (st.pkgNames ++ [v]) _
        rw [hv]
        apply OKs_bump B hB _ hnm _ st.pkgNames (fc :: parents) (show OKs B st.pkgNames (fc :: parents) from ⟨o1, o2, o3⟩)
        intro sc hsc
        simp only [List.mem_cons] at hsc
        rcases hsc with rfl | hsc
        · exact Nat.le_refl _
        · exact o2 sc hsc _
      · intro sc hsc r hr
        simp only [List.mem_map] at hsc
        obtain ⟨sc0, hsc0, rfl⟩ := hsc
        rw [cnt_bumpTo]
        split
        · omega
        · exact hi.res sc0 (by rw [hch]; exact hsc0) r hr
      · intro n hn
        simp only [visible, hloc, List.mem_append, List.mem_singleton] at hn
        rcases hn with (hn | hn) | hn
        · exact hi.notres n (by simp [visible, hn])
        · rw [hn]; exact hnr
        · exact hi.notres n (by simp [visible, hn])
    | false =>
      simp only [Bool.false_eq_true, if_false] at hc ⊢
      subst hc
      have hloc : chainLocals (addLocal fc (encodeIdent name) v :: parents) = fc.locals ++ v :: chainLocals parents := by
        simp [chainLocals, addLocal]
      have hold : chainLocals st.chain = fc.locals ++ chainLocals parents := by rw [hch]; rfl
      refine ⟨?_, ?_, ?_, ?_⟩
      · simp only [visible, hloc]
        have hp : (st.pkgNames ++ (fc.locals ++ v :: chainLocals parents)).Perm (v :: (st.pkgNames ++ chainLocals st.chain)) := by
          rw [hold, ← List.append_assoc, ← List.append_assoc]
          exact List.perm_middle
        exact hp.nodup_iff.mpr (List.nodup_cons.mpr ⟨hfresh, hi.nodup⟩)
      · refine ⟨?_, ?_, o3⟩
        · intro w hw b k hb hwk
          rw [hloc] at hw
          simp only [addLocal, VarMap.cnt_set]
          have holdw : w ∈ st.pkgNames ++ chainLocals (fc :: parents) →
              (if encodeIdent name = b then fc.vars.cnt (encodeIdent name) + 1 else fc.vars.cnt b) > k := by
            intro hw'
            have := o1 w hw' b k hb hwk
            split
            · rename_i e; subst e; omega
            · exact this
          simp only [List.mem_append, List.mem_cons] at hw
          rcases hw with hw | hw | hw | hw
          · exact holdw (by simp [hw])
          · exact holdw (by simp [chainLocals, hw])
          · rw [hw, hv] at hwk
            obtain ⟨e1, e2⟩ := hB _ hnm b hb _ k hwk
            subst e1; subst e2
            simp
          · exact holdw (by simp [chainLocals, hw])
        · intro p hp b
          simp only [addLocal, VarMap.cnt_set]
          have := o2 p hp b
          split
          · rename_i e; subst e; omega
          · exact this
      · intro sc hsc r hr
        simp only [List.mem_cons] at hsc
        rcases hsc with rfl | hsc
        · simp only [addLocal, VarMap.cnt_set]
          split
          · omega
          · exact hi.res fc (by rw [hch]; simp) r hr
        · exact hi.res sc (by rw [hch]; simp [hsc]) r hr
      · intro n hn
        simp only [visible, hloc, List.mem_append, List.mem_cons] at hn
        rcases hn with hn | hn | hn | hn
        · exact hi.notres n (by simp [visible, hn])
        · exact hi.notres n (by simp [visible, hold, hn])
        · rw [hn]; exact hnr
        · exact hi.notres n (by simp [visible, hold, hn])

/-- entering a nested function: the new context starts with a copy of the enclosing `allVars` (functions.go:24-69) -/
theorem inv_copy_plain (B R : List Name) {st : NState} {fc : Scope} {parents : List Scope} (hi : InvP B R st)
    (hch : st.chain = fc :: parents) :
    InvP B R { chain := { vars := fc.vars, locals := [] } :: fc :: parents, pkgNames := st.pkgNames } := by
  have hok := hi.ok
  rw [hch] at hok
  have hv : visible { chain := { vars := fc.vars, locals := [] } :: fc :: parents, pkgNames := st.pkgNames } = visible st := by
    simp [visible, chainLocals, hch]
  refine ⟨by rw [hv]; exact hi.nodup, ?_, ?_, by rw [hv]; exact hi.notres⟩
  · refine ⟨?_, ?_, hok⟩
    · intro v hvv b k hb hvk
      exact hok.1 v (by simpa [chainLocals] using hvv) b k hb hvk
    · intro p hp b
      simp only [List.mem_cons] at hp
      rcases hp with rfl | hp
      · exact Nat.le_refl _
      · exact hok.2.1 p hp b
  · intro sc hsc r hr
    simp only [List.mem_cons] at hsc
    rcases hsc with rfl | hsc
    · exact hi.res fc (by rw [hch]; simp) r hr
    · exact hi.res sc (by rw [hch]; simpa using hsc) r hr

/-- encoded names an operation asks for -/
def opBase : Op → List Name
  | .push fn => [encodeIdent (dotsToMidDot fn)]
  | .pop => []
  | .req name _ => [encodeIdent name]
  | .ptr _ name => [encodeIdent (name ++ ptrSuffix)]
  | .obj _ name _ => [encodeIdent name]

/-- remembering a pointer-variable name touches neither `allVars` nor `localVars` -/
theorem inv_recordPtr (B R : List Name) (v : Nat) (nm : Name) {c : List Scope} {p : List Name}
    (hi : InvP B R { chain := c, pkgNames := p }) : InvP B R { chain := recordPtr v nm c, pkgNames := p } := by
  cases c with
  | nil => exact hi
  | cons sc r =>
    have hv : visible { chain := recordPtr v nm (sc :: r), pkgNames := p } = visible { chain := sc :: r, pkgNames := p } := by
      simp [visible, recordPtr, chainLocals]
    refine ⟨by rw [hv]; exact hi.nodup, ?_, ?_, by rw [hv]; exact hi.notres⟩
    · have hok := hi.ok
      exact ⟨fun w hw b k hb hwk => hok.1 w (by simpa [recordPtr, chainLocals] using hw) b k hb hwk,
        fun q hq b => hok.2.1 q hq b, hok.2.2⟩
    · intro s hs r' hr'
      simp only [recordPtr, List.mem_cons] at hs
      rcases hs with rfl | hs
      · exact hi.res sc (by simp) r' hr'
      · exact hi.res s (by simp [hs]) r' hr'

/-- remembering an object name touches neither `allVars` nor `localVars` -/
theorem inv_recordObj (B R : List Name) (o : Nat) (nm : Name) {c : List Scope} {p : List Name}
    (hi : InvP B R { chain := c, pkgNames := p }) : InvP B R { chain := recordObj o nm c, pkgNames := p } := by
  cases c with
  | nil => exact hi
  | cons sc r =>
    have hv : visible { chain := recordObj o nm (sc :: r), pkgNames := p } = visible { chain := sc :: r, pkgNames := p } := by
      simp [visible, recordObj, chainLocals]
    refine ⟨by rw [hv]; exact hi.nodup, ?_, ?_, by rw [hv]; exact hi.notres⟩
    · have hok := hi.ok
      exact ⟨fun w hw b k hb hwk => hok.1 w (by simpa [recordObj, chainLocals] using hw) b k hb hwk,
        fun q hq b => hok.2.1 q hq b, hok.2.2⟩
    · intro s hs r' hr'
      simp only [recordObj, List.mem_cons] at hs
      rcases hs with rfl | hs
      · exact hi.res sc (by simp) r' hr'
      · exact hi.res s (by simp [hs]) r' hr'

theorem inv_step_plain (B R : List Name) (hR : ∀ r ∈ R, 36 ∉ r) (hB : RenderInj B) {st st' : NState} {op : Op}
    (hi : InvP B R st) (hop : ∀ b ∈ opBase op, b ∈ B) (h : stepOp false st op = some st') : InvP B R st' := by
  cases op with
  | push fn =>
    simp only [stepOp] at h
    cases hch : st.chain with
    | nil => rw [hch] at h; simp [newChild] at h
    | cons fc parents =>
      rw [hch] at h
      simp only [newChild] at h
      cases hn : newVariable false (dotsToMidDot fn) true ({ vars := fc.vars, locals := [] } :: fc :: parents) with
      | none => simp [hn] at h
      | some p =>
        obtain ⟨c, nm⟩ := p
        simp [hn] at h
        subst h
        have := (inv_req_plain B R hR hB (inv_copy_plain B R hi hch) (hop _ (by simp [opBase])) hn).1
        exact InvP.congr (hi := this) (by simp) (by simp)
  | pop =>
    simp only [stepOp] at h
    cases hch : st.chain with
    | nil => rw [hch] at h; simp at h
    | cons top rest =>
      cases rest with
      | nil => rw [hch] at h; simp at h
      | cons p r =>
        rw [hch] at h
        simp at h
        subst h
        have hok := hi.ok
        rw [hch] at hok
        have hsub : (st.pkgNames ++ chainLocals (p :: r)).Sublist (visible st) := by
          simp only [visible, hch]
          apply List.Sublist.append_left
          show (chainLocals (p :: r)).Sublist (top.locals ++ chainLocals (p :: r))
          exact List.sublist_append_right _ _
        have hres : InvP B R { chain := p :: r, pkgNames := st.pkgNames } := by
          refine ⟨hi.nodup.sublist hsub, hok.2.2, ?_, ?_⟩
          · intro sc hsc
            exact hi.res sc (by rw [hch]; exact List.mem_cons_of_mem _ hsc)
          · intro n hn
            exact hi.notres n (hsub.subset hn)
        exact InvP.congr (hi := hres) (by rfl) (by rfl)
  | req name pk =>
    simp only [stepOp] at h
    cases hn : newVariable false name pk st.chain with
    | none => simp [hn] at h
    | some p =>
      obtain ⟨c, nm⟩ := p
      simp [hn] at h
      subst h
      exact InvP.congr (hi := (inv_req_plain B R hR hB hi (hop _ (by simp [opBase])) hn).1) (by rfl) (by rfl)
  | obj o name pk =>
    simp only [stepOp] at h
    cases hl : (if pk = true then st.pkgObjs.lookup o else lookupObj o st.chain) with
    | some nm0 =>
      simp [hl] at h
      subst h
      exact hi
    | none =>
      simp only [hl] at h
      cases hn : newVariable false name pk st.chain with
      | none => simp [hn] at h
      | some p =>
        obtain ⟨c, nm⟩ := p
        simp only [hn] at h
        have hq := (inv_req_plain B R hR hB hi (hop _ (by simp [opBase])) hn).1
        cases pk with
        | true =>
          simp at h
          subst h
          exact InvP.congr (hi := hq) (by rfl) (by simp)
        | false =>
          simp at h
          subst h
          simp only [Bool.false_eq_true, if_false] at hq
          exact InvP.congr (hi := inv_recordObj B R o nm hq) (by rfl) (by rfl)
  | ptr v name =>
    simp only [stepOp, varPtrName, Bool.false_eq_true, if_false] at h
    cases hl : lookupPtr v st.chain with
    | some nm =>
      simp [hl] at h
      subst h
      exact hi
    | none =>
      simp only [hl] at h
      cases hn : newVariable false (name ++ ptrSuffix) false st.chain with
      | none => simp [hn] at h
      | some p =>
        obtain ⟨c, nm⟩ := p
        simp [hn] at h
        subst h
        have := (inv_req_plain B R hR hB hi (hop _ (by simp [opBase])) hn).1
        simp only [Bool.false_eq_true, if_false] at this
        exact InvP.congr (hi := inv_recordPtr B R v nm this) (by rfl) (by rfl)

theorem inv_run_plain (B R : List Name) (hR : ∀ r ∈ R, 36 ∉ r) (hB : RenderInj B) : ∀ (ops : List Op) (st st' : NState),
    InvP B R st → (∀ op ∈ ops, ∀ b ∈ opBase op, b ∈ B) → runOps false st ops = some st' → InvP B R st'
  | [], st, st', hi, _, h => by simp [runOps] at h; subst h; exact hi
  | op :: ops, st, st', hi, hops, h => by
    simp only [runOps] at h
    cases hs : stepOp false st op with
    | none => simp [hs] at h
    | some s1 =>
      simp [hs] at h
      exact inv_run_plain B R hR hB ops s1 st' (inv_step_plain B R hR hB hi (hops op (by simp)) hs)
        (fun o ho => hops o (List.mem_cons_of_mem _ ho)) h

end GV.Proofs.NamesPlain

/-! ### a sufficient condition for `RenderInj`: no `$` in the encoded names -/
namespace GV.Proofs.NamesPlain
open GV.Names

theorem toString_toList (n : Nat) : (toString n).toList = Nat.toDigits 10 n := Nat.toList_repr

theorem decimal_digit (k : Nat) : ∀ c ∈ decimal k, 48 ≤ c ∧ c ≤ 57 := by
  intro c hc
  simp only [decimal, List.mem_map] at hc
  obtain ⟨ch, hch, rfl⟩ := hc
  rw [toString_toList] at hch
  have := Nat.isDigit_of_mem_toDigits (by decide) (by decide) hch
  simp only [Char.isDigit, Bool.and_eq_true, decide_eq_true_eq] at this
  have h1 : (48 : Nat) ≤ ch.toNat := by
    have := this.1
    simpa [UInt32.le_iff_toNat_le] using this
  have h2 : ch.toNat ≤ 57 := by
    have := this.2
    simpa [UInt32.le_iff_toNat_le] using this
  exact ⟨h1, h2⟩

def decodeDec (l : List Nat) : Nat := l.foldl (fun a c => a * 10 + (c - 48)) 0

theorem decode_decimal : ∀ (n : Nat), decodeDec (decimal n) = n := by
  intro n
  induction n using Nat.strongRecOn with
  | _ n ih =>
    simp only [decimal, toString_toList]
    rw [Nat.toDigits_eq_if (by decide)]
    split
    · rename_i h
      simp [decodeDec, Nat.toNat_digitChar_of_lt_ten h]
    · rename_i h
      have hlt : n / 10 < n := by omega
      have := ih (n / 10) hlt
      simp only [decimal, toString_toList] at this
      simp only [List.map_append, List.map_cons, List.map_nil, decodeDec, List.foldl_append, List.foldl_cons, List.foldl_nil]
      simp only [decodeDec] at this
      rw [this, Nat.toNat_digitChar_of_lt_ten (Nat.mod_lt _ (by decide))]
      omega

theorem decimal_inj (k k' : Nat) (h : decimal k = decimal k') : k = k' := by
  have := congrArg decodeDec h
  rwa [decode_decimal, decode_decimal] at this

theorem append_cons_unique (x : Nat) : ∀ (a a' r r' : List Nat), x ∉ a → x ∉ a' → a ++ x :: r = a' ++ x :: r' → a = a' ∧ r = r'
  | [], [], r, r', _, _, h => by simpa using h
  | [], c :: a', r, r', _, h2, h => by
    simp only [List.nil_append, List.cons_append, List.cons.injEq] at h
    exact absurd (by simp [h.1]) h2
  | c :: a, [], r, r', h1, _, h => by
    simp only [List.nil_append, List.cons_append, List.cons.injEq] at h
    exact absurd (by simp [← h.1]) h1
  | c :: a, c' :: a', r, r', h1, h2, h => by
    simp only [List.cons_append, List.cons.injEq] at h
    simp only [List.mem_cons, not_or] at h1 h2
    obtain ⟨e1, e2⟩ := append_cons_unique x a a' r r' h1.2 h2.2 h.2
    exact ⟨by rw [h.1, e1], e2⟩

theorem renderInj_noDollar (B : List Name) (hB : ∀ b ∈ B, 36 ∉ b) : RenderInj B := by
  intro b hb b' hb' k k' h
  have hd : ∀ k, 36 ∉ decimal k := fun k hc => by have := decimal_digit k 36 hc; omega
  unfold render at h
  by_cases hk : k > 0 <;> by_cases hk' : k' > 0 <;> simp only [hk, hk', if_true, if_false] at h
  · obtain ⟨e1, e2⟩ := append_cons_unique 36 b b' _ _ (hB b hb) (hB b' hb') h
    exact ⟨e1, decimal_inj k k' e2⟩
  · exact absurd (by rw [← h]; simp) (hB b' hb')
  · exact absurd (by rw [h]; simp) (hB b hb)
  · exact ⟨h, by omega⟩

/-- bytes of an ASCII Go identifier (and `.`, `-`, `~`): what `url.QueryEscape` leaves alone -/
theorem unreserved_lt (c : Nat) (h : unreserved c = true) : c < 128 ∧ c ≠ 36 := by
  simp only [unreserved, Bool.or_eq_true, Bool.and_eq_true, decide_eq_true_eq, beq_iff_eq] at h
  omega

theorem encodeIdent_ascii : ∀ (name : Name), (∀ c ∈ name, unreserved c = true) → encodeIdent name = name
  | [], _ => by rw [encodeIdent]
  | c :: r, h => by
    have hc := h c (by simp)
    have hlt := unreserved_lt c hc
    rw [encodeIdent]
    have h1 : (c == 0xC2) = false := by simp; omega
    simp only [h1, Bool.false_and, Bool.false_eq_true, if_false, hc, if_true]
    rw [encodeIdent_ascii r (fun x hx => h x (List.mem_cons_of_mem _ hx))]

theorem encodeIdent_dots_noDollar : ∀ (fn : Name), (∀ c ∈ fn, unreserved c = true) → 36 ∉ encodeIdent (dotsToMidDot fn)
  | [], _ => by simp [dotsToMidDot, encodeIdent]
  | c :: r, h => by
    have hc := h c (by simp)
    have hlt := unreserved_lt c hc
    have ih := encodeIdent_dots_noDollar r (fun x hx => h x (List.mem_cons_of_mem _ hx))
    rw [dotsToMidDot]
    split
    · rw [encodeIdent]
      simp only [BEq.rfl, List.head?_cons, Bool.and_self, if_true, List.drop_succ_cons, List.drop_zero]
      intro hm
      simp only [List.mem_cons] at hm
      rcases hm with hm | hm | hm
      · omega
      · omega
      · exact ih hm
    · rw [encodeIdent]
      have h1 : (c == 0xC2) = false := by simp; omega
      simp only [h1, Bool.false_and, Bool.false_eq_true, if_false, hc, if_true]
      intro hm
      simp only [List.mem_cons] at hm
      rcases hm with hm | hm
      · omega
      · exact ih hm

end GV.Proofs.NamesPlain
