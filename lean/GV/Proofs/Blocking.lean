/-
  GV.Proofs.Blocking — the propagation loop computes the least fixed point, for every visiting order.
-/
import GV.Model.Blocking

namespace GV.Blocking

/-- facts about one pass, generalised over the fold state -/
theorem foldl_passStep (g : Graph) (es : List Edge) :
    ∀ (s : PassState),
      (∀ e, e ∈ es → e ∈ g.edges) →
      (∀ v, v ∈ s.1 → Reach g v) →
      (∀ v, v ∈ s.1 → v ∈ (es.foldl passStep s).1) ∧
      (∀ v, v ∈ (es.foldl passStep s).1 → Reach g v) ∧
      (∀ e, e ∈ s.2.1 → e ∈ (es.foldl passStep s).2.1) ∧
      (∀ e, e ∈ es → e ∈ (es.foldl passStep s).2.1 ∨ e.1 ∈ (es.foldl passStep s).1) ∧
      (∀ e, e ∈ (es.foldl passStep s).2.1 → e ∈ s.2.1 ∨ e ∈ es) ∧
      (s.2.2 = true → (es.foldl passStep s).2.2 = true) ∧
      ((es.foldl passStep s).2.2 = false → (es.foldl passStep s).1 = s.1 ∧ ∀ e, e ∈ es → (es.foldl passStep s).1.contains e.2 = false) ∧
      ((es.foldl passStep s).2.1.length ≤ s.2.1.length + es.length) ∧
      (s.2.2 = false → (es.foldl passStep s).2.2 = true → (es.foldl passStep s).2.1.length < s.2.1.length + es.length) := by
  induction es with
  | nil =>
    intro s _ hs
    simp only [List.foldl_nil]
    refine ⟨fun _ h => h, hs, fun _ h => h, ?_, fun _ h => .inl h, fun h => h, ?_, by simp, ?_⟩
    · intro e he; cases he
    · intro _; exact ⟨trivial, fun e he => by cases he⟩
    · intro h1 h2; rw [h1] at h2; cases h2
  | cons e es ih =>
    intro s hes hs
    simp only [List.foldl_cons]
    have hes' : ∀ x, x ∈ es → x ∈ g.edges := fun x hx => hes x (List.mem_cons_of_mem _ hx)
    by_cases hc : s.1.contains e.2 = true
    · -- callee blocking: mark caller, delete the edge
      have hstep : passStep s e = (e.1 :: s.1, s.2.1, true) := by unfold passStep; rw [if_pos hc]
      have hsound : ∀ v, v ∈ (passStep s e).1 → Reach g v := by
        rw [hstep]; intro v hv
        simp only [List.mem_cons] at hv
        rcases hv with rfl | hv
        · have hb : e.2 ∈ s.1 := List.contains_iff_mem.mp hc
          exact Reach.step (b := e.2) (hes e (List.mem_cons_self ..)) (hs _ hb)
        · exact hs v hv
      have := ih (passStep s e) hes' hsound
      rw [hstep] at this ⊢
      obtain ⟨m1, m2, m3, m4, m5, m6, m7, m8, m9⟩ := this
      dsimp only at m1 m3 m5 m8 m9
      have hch : (List.foldl passStep (e.1 :: s.1, s.2.1, true) es).2.2 = true := m6 rfl
      refine ⟨fun v hv => m1 v (List.mem_cons_of_mem _ hv), m2, m3, ?_, ?_, fun _ => hch, ?_, ?_, ?_⟩
      · intro x hx
        simp only [List.mem_cons] at hx
        rcases hx with rfl | hx
        · exact .inr (m1 _ (List.mem_cons_self ..))
        · exact m4 x hx
      · intro x hx
        rcases m5 x hx with h | h
        · exact .inl h
        · exact .inr (List.mem_cons_of_mem _ h)
      · intro hf; rw [hch] at hf; cases hf
      · simp only [List.length_cons]; omega
      · intro _ _; simp only [List.length_cons]; omega
    · -- callee not (yet) blocking: keep the edge
      have hc' : s.1.contains e.2 = false := by simpa using hc
      have hstep : passStep s e = (s.1, e :: s.2.1, s.2.2) := by unfold passStep; rw [if_neg hc]
      have hsound : ∀ v, v ∈ (passStep s e).1 → Reach g v := by rw [hstep]; exact hs
      have := ih (passStep s e) hes' hsound
      rw [hstep] at this ⊢
      obtain ⟨m1, m2, m3, m4, m5, m6, m7, m8, m9⟩ := this
      dsimp only at m1 m3 m5 m6 m7 m8 m9
      refine ⟨m1, m2, fun x hx => m3 x (List.mem_cons_of_mem _ hx), ?_, ?_, m6, ?_, ?_, ?_⟩
      · intro x hx
        simp only [List.mem_cons] at hx
        rcases hx with rfl | hx
        · exact .inl (m3 _ (List.mem_cons_self ..))
        · exact m4 x hx
      · intro x hx
        rcases m5 x hx with h | h
        · simp only [List.mem_cons] at h
          rcases h with rfl | h
          · exact .inr (List.mem_cons_self ..)
          · exact .inl h
        · exact .inr (List.mem_cons_of_mem _ h)
      · intro hf
        obtain ⟨q1, q2⟩ := m7 hf
        refine ⟨q1, ?_⟩
        intro x hx
        simp only [List.mem_cons] at hx
        rcases hx with rfl | hx
        · rw [q1]; exact hc'
        · exact q2 x hx
      · simp only [List.length_cons] at m8 ⊢; omega
      · intro h1 h2; have := m9 h1 h2; simp only [List.length_cons] at this ⊢; omega

/-- invariant of the outer loop -/
structure Inv (g : Graph) (B : List Nat) (pending : List Edge) : Prop where
  sound : ∀ v, v ∈ B → Reach g v
  intr : ∀ v, v ∈ g.intrinsic → v ∈ B
  sub : ∀ e, e ∈ pending → e ∈ g.edges
  cover : ∀ e, e ∈ g.edges → e ∈ pending ∨ e.1 ∈ B

theorem propagate_spec (g : Graph) (ord : Nat → List Edge → List Edge)
    (hperm : ∀ i p, (ord i p).Perm p) :
    ∀ fuel i B pending, Inv g B pending → pending.length < fuel →
      (∀ v, v ∈ propagate ord fuel i B pending → Reach g v) ∧
      (∀ v, v ∈ g.intrinsic → v ∈ propagate ord fuel i B pending) ∧
      (∀ a b, (a, b) ∈ g.edges → b ∈ propagate ord fuel i B pending → a ∈ propagate ord fuel i B pending) := by
  intro fuel
  induction fuel with
  | zero => intro i B pending _ h; omega
  | succ n ih =>
    intro i B pending inv hlen
    have hp := hperm i pending
    have hsub : ∀ e, e ∈ ord i pending → e ∈ g.edges := fun e he => inv.sub e (hp.mem_iff.mp he)
    have F := foldl_passStep g (ord i pending) (B, [], false) hsub inv.sound
    obtain ⟨m1, m2, _, m4, m5, _, m7, _, m9⟩ := F
    dsimp only at m1 m5 m7 m9
    have hpass : pass B (ord i pending) = List.foldl passStep (B, [], false) (ord i pending) := rfl
    simp only [propagate]
    rw [hpass]
    generalize hr : List.foldl passStep (B, [], false) (ord i pending) = r at m1 m2 m4 m5 m7 m9
    by_cases hch : r.2.2 = true
    · simp only [hch, if_true]
      have inv' : Inv g r.1 r.2.1 := by
        refine ⟨m2, fun v hv => m1 v (inv.intr v hv), ?_, ?_⟩
        · intro e he
          rcases m5 e he with h | h
          · cases h
          · exact hsub e h
        · intro e he
          rcases inv.cover e he with h | h
          · exact m4 e (hp.mem_iff.mpr h)
          · exact .inr (m1 _ h)
      have hl : r.2.1.length < n := by
        have := m9 rfl hch
        simp only [List.length_nil, Nat.zero_add] at this
        rw [hp.length_eq] at this
        omega
      exact ih (i + 1) r.1 r.2.1 inv' hl
    · have hch' : r.2.2 = false := by simpa using hch
      simp only [hch', Bool.false_eq_true, if_false]
      obtain ⟨q1, q2⟩ := m7 hch'
      refine ⟨m2, fun v hv => m1 v (inv.intr v hv), ?_⟩
      intro a b hab hb
      rcases inv.cover (a, b) hab with h | h
      · have := q2 (a, b) (hp.mem_iff.mpr h)
        simp only at this
        have hb' : r.1.contains b = true := List.contains_iff_mem.mpr hb
        rw [hb'] at this; cases this
      · exact m1 _ h

theorem reach_least (g : Graph) (S : Nat → Prop) (hS : Closed g S) : ∀ v, Reach g v → S v := by
  intro v h
  induction h with
  | base hv => exact hS.1 _ hv
  | step he _ ih => exact hS.2 _ _ he ih

end GV.Blocking
