import GV.Model.FloatBits

/-! Proofs for the math part of GV.Props.C13: bit reinterpretation, sign/class tables, integer parts. -/
namespace GV.Proofs.FloatBits
open GV.FloatBits

theorem decode (b : Nat) (h : b < two64) : b = sign b * two63 + expo b * two52 + mant b := by
  unfold sign expo mant two63 two52 two64 at *; omega

theorem float64bits_frombits (b : Nat) (h : b < two64) : float64bits (float64frombits b) = b := by
  unfold float64bits float64frombits storeF64 loadF64 two64 two32 at *
  simp only
  omega

theorem float64frombits_bits (f : Nat) (h : f < two64) : float64frombits (float64bits f) = f := by
  unfold float64bits float64frombits storeF64 loadF64 two64 two32 at *
  simp only
  omega

/-- quotient part of the key lemma: dividing 2^52 + m by 2^sh -/
theorem div_split (m sh : Nat) (hsh : sh ≤ 52) :
    (2 ^ 52 + m) / 2 ^ sh = 2 ^ (52 - sh) + m / 2 ^ sh := by
  have hp : 2 ^ 52 = 2 ^ sh * 2 ^ (52 - sh) := by rw [← Nat.pow_add]; congr 1; omega
  rw [hp, Nat.mul_add_div (Nat.two_pow_pos sh)]

theorem div_lt (m sh : Nat) (hm : m < 2 ^ 52) (hsh : sh ≤ 52) : m / 2 ^ sh < 2 ^ (52 - sh) := by
  have hp : 2 ^ 52 = 2 ^ (52 - sh) * 2 ^ sh := by rw [← Nat.pow_add]; congr 1; omega
  rw [Nat.div_lt_iff_lt_mul (Nat.two_pow_pos sh), ← hp]; exact hm

/-- exact integer → float conversion of the truncated magnitude = the mantissa with its fractional bits cleared -/
theorem encode_shift (m sh : Nat) (hm : m < 2 ^ 52) (h1 : 1 ≤ sh) (hsh : sh ≤ 52) :
    encodeNat ((2 ^ 52 + m) / 2 ^ sh) = (1075 - sh) * 2 ^ 52 + (m - m % 2 ^ sh) := by
  have hq := div_split m sh hsh
  have hl := div_lt m sh hm hsh
  have hpos : 0 < 2 ^ (52 - sh) := Nat.two_pow_pos _
  have e3 : m / 2 ^ sh * 2 ^ sh = m - m % 2 ^ sh := by
    have h := Nat.div_add_mod m (2 ^ sh)
    rw [Nat.mul_comm] at h
    generalize m / 2 ^ sh * 2 ^ sh = a at h
    generalize m % 2 ^ sh = b at h
    omega
  have hps : 2 ^ (52 - sh + 1) = 2 ^ (52 - sh) * 2 := Nat.pow_succ 2 (52 - sh)
  generalize hd : m / 2 ^ sh = d at *
  generalize hQ : 2 ^ (52 - sh) = Q at *
  have hn0 : (2 ^ 52 + m) / 2 ^ sh ≠ 0 := by rw [hq]; omega
  have hlog : Nat.log2 ((2 ^ 52 + m) / 2 ^ sh) = 52 - sh := by
    rw [Nat.log2_eq_iff hn0, hq, hps, hQ]
    omega
  unfold encodeNat
  rw [if_neg hn0]
  simp only [hlog, two52]
  rw [hq, hQ]
  have e1 : Q + d - Q = d := by omega
  have e2 : 52 - (52 - sh) = sh := by omega
  rw [e1, e2, e3]
  have e4 : 1023 + (52 - sh) = 1075 - sh := by omega
  rw [e4]

end GV.Proofs.FloatBits

namespace GV.Proofs.FloatBits
open GV.FloatBits

/-! ### sign and class tables -/

theorem signbit_spec (b : Nat) (hn : isNaN b = false) : signbit b = (sign b == 1) := by
  unfold signbit ltZero recipIsNegInf isZero at *
  rw [hn]
  cases h1 : (sign b == 1) <;> cases h2 : (expo b == 0) <;> cases h3 : (mant b == 0) <;> simp
  have : mant b = 0 := by simpa using h3
  omega

theorem neg_lt (b : Nat) (h : b < two64) : neg b < two64 := by
  unfold neg two63 two64 at *; split <;> omega

theorem neg_neg (b : Nat) (h : b < two64) : neg (neg b) = b := by
  unfold neg two63 two64 at *; split <;> split <;> omega

theorem sign_neg (b : Nat) (h : b < two64) : sign (neg b) = 1 - sign b := by
  unfold neg sign two63 two64 at *; split <;> omega
theorem expo_neg (b : Nat) (h : b < two64) : expo (neg b) = expo b := by
  unfold neg expo two63 two52 two64 at *; split <;> omega
theorem mant_neg (b : Nat) (h : b < two64) : mant (neg b) = mant b := by
  unfold neg mant two63 two52 two64 at *; split <;> omega

/-- Copysign on non-NaN arguments: magnitude bits of x, sign bit of y -/
theorem copysign_spec (x y : Nat) (hx : x < two64) (hnx : isNaN x = false) (hny : isNaN y = false) :
    copysign x y = x % two63 + sign y * two63 := by
  unfold copysign
  rw [signbit_spec x hnx, signbit_spec y hny]
  have hsx : sign x = 0 ∨ sign x = 1 := by unfold sign; omega
  have hsy : sign y = 0 ∨ sign y = 1 := by unfold sign; omega
  rcases hsx with hsx | hsx <;> rcases hsy with hsy | hsy <;> simp [hsx, hsy] <;>
    (unfold neg sign two63 two64 at *; (try split) <;> omega)

theorem posInf_notNaN : isNaN posInf = false := by decide
theorem negInf_notNaN : isNaN negInf = false := by decide

/-- IsInf(f, sign) = upstream: `sign >= 0 && f > MaxFloat64 || sign <= 0 && f < -MaxFloat64` at bit level -/
theorem isinf_spec (f : Nat) (sg : Int) :
    isInfJS f sg = decide ((sg ≥ 0 ∧ f = posInf) ∨ (sg ≤ 0 ∧ f = negInf)) := by
  unfold isInfJS eqBits
  by_cases h1 : f = posInf
  · subst h1
    have : ¬ (posInf = negInf) := by decide
    simp [posInf_notNaN, this]
  · by_cases h2 : f = negInf
    · subst h2; simp [negInf_notNaN]
      have : ¬ (negInf = posInf) := by decide
      simp [this]
    · simp [h1, h2]

theorem abs_spec (x : Nat) (h : x < two64) : abs x = x % two63 := by
  unfold abs
  rw [float64bits_frombits_aux x h]
  exact float64frombits_bits' (x % two63) (by unfold two63 two64 at *; omega)
where
  float64bits_frombits_aux (f : Nat) (h : f < two64) : float64bits f = f := by
    unfold float64bits storeF64 two64 two32 at *; simp only; omega
  float64frombits_bits' (b : Nat) (h : b < two64) : float64frombits b = b := by
    unfold float64frombits loadF64 two64 two32 at *; simp only; omega

/-! ### integer parts -/

/-- Go's mask algorithm = exact int→float conversion of the truncated magnitude (the ECMAScript reading), any sign -/
theorem encode_trunc (x : Nat) (hx : x < two64) (h1 : 1023 ≤ expo x) (h2 : expo x < 1075) :
    truncGo x = sign x * two63 + encodeNat (truncMag x) := by
  have hd := decode x hx
  have hm : mant x < 2 ^ 52 := by unfold mant two52; omega
  have hs : sign x ≤ 1 := by unfold sign; omega
  have hz : isZero x = false := by unfold isZero; simp; omega
  have hn : isNaN x = false := by unfold isNaN; simp; omega
  have hi : isInf x = false := by unfold isInf; simp; omega
  unfold truncGo truncMag
  rw [hz, hn, hi]
  have c1 : ¬ expo x < 1023 := by omega
  have c2 : expo x ≤ 1075 := by omega
  simp only [Bool.or_false, Bool.false_eq_true, if_false, c1, h2, if_true, c2]
  rw [Nat.shiftRight_eq_div_pow]
  have hsh := encode_shift (mant x) (1075 - expo x) hm (by omega) (by omega)
  have e : 1075 - (1075 - expo x) = expo x := by omega
  rw [e] at hsh
  have t52 : two52 = 2 ^ 52 := by decide
  rw [t52, hsh]
  have hmod : mant x % 2 ^ (1075 - expo x) ≤ mant x := Nat.mod_le _ _
  generalize mant x % 2 ^ (1075 - expo x) = r at *
  have t52' : (2:Nat) ^ 52 = 4503599627370496 := by decide
  rw [t52']
  unfold two52 at hd
  omega

end GV.Proofs.FloatBits
