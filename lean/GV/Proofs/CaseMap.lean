import GV.Model.CaseMap

/-! Binary search of the unicode override = linear scan, on every sorted table (GV.Props.C13). -/
namespace GV.Proofs.CaseMap
open GV.CaseMap

def Contains (r : Int) (cr : CaseRange) : Prop := (cr.lo : Int) ≤ r ∧ r ≤ (cr.hi : Int)

theorem sortedB_iff (t : List CaseRange) : sortedB t = true ↔ Sorted t := by
  induction t with
  | nil => simp [sortedB, Sorted]
  | cons a rest ih =>
    cases rest with
    | nil => simp [sortedB, Sorted]
    | cons b rest => simp only [sortedB, Sorted, Bool.and_eq_true, decide_eq_true_eq, ih, and_assoc]

theorem sorted_tail {a : CaseRange} {l : List CaseRange} (h : Sorted (a :: l)) : Sorted l := by
  cases l with
  | nil => trivial
  | cons b rest => exact h.2.2

theorem sorted_head {a : CaseRange} {l : List CaseRange} (h : Sorted (a :: l)) : a.lo ≤ a.hi := by
  cases l with
  | nil => exact h
  | cons b rest => exact h.1

/-- in a sorted table every later range starts above the head's end -/
theorem sorted_head_lt {a : CaseRange} {l : List CaseRange} (h : Sorted (a :: l)) :
    ∀ j (hj : j < l.length), a.hi < l[j].lo := by
  induction l generalizing a with
  | nil => intro j hj; exact absurd hj (Nat.not_lt_zero _)
  | cons b rest ih =>
    intro j hj
    cases j with
    | zero => exact h.2.1
    | succ j =>
      have hb : b.lo ≤ b.hi := sorted_head h.2.2
      have hs : Sorted (b :: rest) := h.2.2
      have := ih hs j (by simpa using hj)
      have h1 := h.2.1
      simp only [List.getElem_cons_succ]
      omega

theorem sorted_lt {l : List CaseRange} (h : Sorted l) :
    ∀ i j (hij : i < j) (hj : j < l.length), (l[i]'(by omega)).hi < l[j].lo := by
  induction l with
  | nil => intro i j _ hj; exact absurd hj (Nat.not_lt_zero _)
  | cons a rest ih =>
    intro i j hij hj
    cases j with
    | zero => omega
    | succ j =>
      cases i with
      | zero => simpa using sorted_head_lt h j (by simpa using hj)
      | succ i => simpa using ih (sorted_tail h) i j (by omega) (by simpa using hj)

theorem sorted_le {l : List CaseRange} (h : Sorted l) : ∀ i (hi : i < l.length), l[i].lo ≤ l[i].hi := by
  induction l with
  | nil => intro i hi; exact absurd hi (Nat.not_lt_zero _)
  | cons a rest ih =>
    intro i hi
    cases i with
    | zero => exact sorted_head h
    | succ i => simpa using ih (sorted_tail h) i (by simpa using hi)

theorem scan_none (c : Nat) (r : Int) (l : List CaseRange)
    (h : ∀ i (hi : i < l.length), ¬ Contains r l[i]) : scan c r l = (r, false) := by
  induction l with
  | nil => rfl
  | cons a rest ih =>
    have h0 := h 0 (by simp)
    simp only [List.getElem_cons_zero, Contains] at h0
    simp only [scan, h0, if_false]
    apply ih
    intro i hi
    have := h (i + 1) (by simpa using hi)
    simpa using this

theorem scan_at (c : Nat) (r : Int) (l : List CaseRange) (m : Nat) (hm : m < l.length)
    (hc : Contains r l[m]) (hb : ∀ i (hi : i < m), ¬ Contains r (l[i]'(by omega))) :
    scan c r l = (mapIn c r l[m], true) := by
  induction l generalizing m with
  | nil => exact absurd hm (Nat.not_lt_zero _)
  | cons a rest ih =>
    cases m with
    | zero =>
      simp only [List.getElem_cons_zero, Contains] at hc
      simp only [scan, hc, and_self, if_true, List.getElem_cons_zero]
    | succ m =>
      have h0 := hb 0 (by omega)
      simp only [List.getElem_cons_zero, Contains] at h0
      simp only [scan, h0, if_false, List.getElem_cons_succ]
      apply ih m (by simpa using hm) (by simpa using hc)
      intro i hi
      have := hb (i + 1) (by omega)
      simpa using this

/-- the loop invariant: everything left of `lo` ends below r, everything from `hi` on starts above r -/
theorem search_eq_scan (c : Nat) (r : Int) (t : Array CaseRange) (hs : Sorted t.toList) (lo hi : Nat)
    (hhi : hi ≤ t.size)
    (hL : ∀ i (h : i < t.size), i < lo → ((t[i]).hi : Int) < r)
    (hR : ∀ i (h : i < t.size), hi ≤ i → r < ((t[i]).lo : Int)) :
    search c r t lo hi = scan c r t.toList := by
  fun_induction search c r t lo hi with
  | case1 lo hi hlt m hm cr hin =>
    -- found at m
    have hmL : m < t.toList.length := by simpa using hm
    rw [scan_at c r t.toList m hmL]
    · simp [cr]
    · simpa [Contains, cr] using hin
    · intro i hi'
      have hlt' := sorted_lt hs i m hi' hmL
      simp only [Contains, Array.getElem_toList] at *
      have := hin.1
      simp only [cr] at this
      omega
  | case2 lo hi hlt m hm cr hnin hrl ih =>
    apply ih (by omega) hL
    intro i h hmi
    by_cases hmi' : i = m
    · subst hmi'; exact hrl
    · have := sorted_lt hs m i (by omega) (by simpa using h)
      have hle := sorted_le hs m (by simpa using hm)
      simp only [Array.getElem_toList] at this hle
      simp only [cr] at hrl
      omega
  | case3 lo hi hlt m hm cr hnin hrl ih =>
    apply ih hhi _ hR
    intro i h him
    have hrhi : ((t[m]).hi : Int) < r := by
      simp only [cr, not_and, Int.not_le] at hnin hrl
      by_cases h1 : (t[m].lo : Int) ≤ r
      · exact hnin h1
      · omega
    by_cases him' : i = m
    · subst him'; exact hrhi
    · by_cases hlo : i < lo
      · exact hL i h hlo
      · have := sorted_lt hs i m (by omega) (by simpa using hm)
        have hle := sorted_le hs m (by simpa using hm)
        simp only [Array.getElem_toList] at this hle
        omega
  | case4 lo hi hlt m hm => omega
  | case5 lo hi hge =>
    -- empty interval: no range contains r
    rw [scan_none]
    intro i hi'
    have hi'' : i < t.size := by simpa using hi'
    simp only [Contains, Array.getElem_toList]
    by_cases hlo : i < lo
    · have := hL i hi'' hlo
      have hle := sorted_le hs i hi'
      simp only [Array.getElem_toList] at hle
      omega
    · have := hR i hi'' (by omega)
      omega

end GV.Proofs.CaseMap
