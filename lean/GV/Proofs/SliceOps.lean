/-
  GV.Proofs.SliceOps — lemmas about the `$copyArray` loops (both directions) and `$internalAppend`.
-/
import GV.Model.Slice
import GV.Spec.Slice

namespace GV.Slice
open GV.Spec.Slice

/-- cells `dOff+a … dOff+b-1` of `dst` replaced by the ORIGINAL cells `sOff+a … sOff+b-1` of `src` -/
def seg {α} (dst src : List α) (dOff sOff a b : Nat) : List α :=
  dst.take (dOff + a) ++ (src.drop (sOff + a)).take (b - a) ++ dst.drop (dOff + b)

theorem seg_length {α} (dst src : List α) (dOff sOff a b : Nat) (hab : a ≤ b)
    (hd : dOff + b ≤ dst.length) (hs : sOff + b ≤ src.length) :
    (seg dst src dOff sOff a b).length = dst.length := by
  simp only [seg, List.length_append, List.length_take, List.length_drop]
  omega

theorem seg_getElem? {α} (dst src : List α) (dOff sOff a b p : Nat) (hab : a ≤ b)
    (hd : dOff + b ≤ dst.length) (hs : sOff + b ≤ src.length) :
    (seg dst src dOff sOff a b)[p]? =
      if dOff + a ≤ p ∧ p < dOff + b then src[sOff + (p - dOff)]? else dst[p]? := by
  unfold seg
  by_cases h1 : p < dOff + a
  · have : ¬ (dOff + a ≤ p ∧ p < dOff + b) := by omega
    rw [if_neg this, List.append_assoc, List.getElem?_append_left (by simp only [List.length_take]; omega)]
    rw [List.getElem?_take, if_pos h1]
  · by_cases h2 : p < dOff + b
    · rw [if_pos ⟨by omega, h2⟩, List.append_assoc]
      rw [List.getElem?_append_right (by simp only [List.length_take]; omega)]
      have hl : (List.take (dOff + a) dst).length = dOff + a := by simp only [List.length_take]; omega
      rw [hl, List.getElem?_append_left (by simp only [List.length_take, List.length_drop]; omega)]
      rw [List.getElem?_take, if_pos (by omega), List.getElem?_drop]
      congr 1; omega
    · have : ¬ (dOff + a ≤ p ∧ p < dOff + b) := by omega
      rw [if_neg this]
      rw [List.getElem?_append_right (by simp only [List.length_append, List.length_take, List.length_drop]; omega)]
      have hl : (List.take (dOff + a) dst ++ List.take (b - a) (List.drop (sOff + a) src)).length = dOff + b := by
        simp only [List.length_append, List.length_take, List.length_drop]; omega
      rw [hl, List.getElem?_drop]
      congr 1; omega

theorem seg_empty {α} (dst src : List α) (dOff sOff a : Nat) : seg dst src dOff sOff a a = dst := by
  simp [seg]

theorem moveCells_eq_seg {α} (dst src : List α) (dOff sOff n : Nat) :
    moveCells dst src dOff sOff n = seg dst src dOff sOff 0 n := by
  simp [moveCells, seg]

/-- extending the replaced segment on the right by one written cell -/
theorem seg_set_right {α} (dst src : List α) (dOff sOff a b : Nat) (v : α) (hab : a ≤ b)
    (hd : dOff + (b + 1) ≤ dst.length) (hs : sOff + (b + 1) ≤ src.length) (hv : src[sOff + b]? = some v) :
    (seg dst src dOff sOff a b).set (dOff + b) v = seg dst src dOff sOff a (b + 1) := by
  apply List.ext_getElem?
  intro p
  rw [List.getElem?_set, seg_length _ _ _ _ _ _ hab (by omega) (by omega),
    seg_getElem? _ _ _ _ _ _ _ hab (by omega) (by omega),
    seg_getElem? _ _ _ _ _ _ _ (by omega) hd hs]
  by_cases hp : dOff + b = p
  · subst hp
    rw [if_pos rfl, if_pos (by omega), if_pos ⟨by omega, by omega⟩]
    have : sOff + (dOff + b - dOff) = sOff + b := by omega
    rw [this, hv]
  · rw [if_neg hp]
    by_cases h : dOff + a ≤ p ∧ p < dOff + b
    · rw [if_pos h, if_pos ⟨h.1, by omega⟩]
    · rw [if_neg h, if_neg (by omega)]

/-- extending the replaced segment on the left by one written cell -/
theorem seg_set_left {α} (dst src : List α) (dOff sOff a b : Nat) (v : α) (hab : a + 1 ≤ b)
    (hd : dOff + b ≤ dst.length) (hs : sOff + b ≤ src.length) (hv : src[sOff + a]? = some v) :
    (seg dst src dOff sOff (a + 1) b).set (dOff + a) v = seg dst src dOff sOff a b := by
  apply List.ext_getElem?
  intro p
  rw [List.getElem?_set, seg_length _ _ _ _ _ _ hab hd hs,
    seg_getElem? _ _ _ _ _ _ _ hab hd hs,
    seg_getElem? _ _ _ _ _ _ _ (by omega) hd hs]
  by_cases hp : dOff + a = p
  · subst hp
    rw [if_pos rfl, if_pos (by omega), if_pos ⟨by omega, by omega⟩]
    have : sOff + (dOff + a - dOff) = sOff + a := by omega
    rw [this, hv]
  · rw [if_neg hp]
    by_cases h : dOff + (a + 1) ≤ p ∧ p < dOff + b
    · rw [if_pos h, if_pos ⟨by omega, h.2⟩]
    · rw [if_neg h, if_neg (by omega)]

/-- the ascending loop is correct when source and destination are different arrays, or the destination
    starts at or before the source -/
theorem copyFwd_seg {α} (same : Bool) (dst src : List α) (dOff sOff n : Nat)
    (hsame : same = true → src = dst ∧ dOff ≤ sOff)
    (hd : dOff + n ≤ dst.length) (hs : sOff + n ≤ src.length) :
    ∀ k, k ≤ n → (List.range k).foldl (stepCopy same src dOff sOff) dst = seg dst src dOff sOff 0 k := by
  intro k
  induction k with
  | zero => intro _; simp [seg_empty]
  | succ k ih =>
    intro hk
    rw [List.range_succ, List.foldl_append, ih (by omega)]
    simp only [List.foldl_cons, List.foldl_nil]
    have hsv : ∃ v, src[sOff + k]? = some v := ⟨src[sOff + k]'(by omega), List.getElem?_eq_getElem (by omega)⟩
    obtain ⟨v, hv⟩ := hsv
    have hread : (if same = true then seg dst src dOff sOff 0 k else src)[sOff + k]? = some v := by
      by_cases hsm : same = true
      · obtain ⟨he, hle⟩ := hsame hsm
        rw [if_pos hsm, seg_getElem? _ _ _ _ _ _ _ (by omega) (by omega) (by omega), if_neg (by omega)]
        rw [← he]; exact hv
      · rw [if_neg hsm]; exact hv
    unfold stepCopy
    rw [hread]
    exact seg_set_right dst src dOff sOff 0 k v (by omega) (by omega) (by omega) hv

/-- the descending loop is correct when the destination starts after the source in the same array -/
theorem copyBwd_seg {α} (same : Bool) (dst src : List α) (dOff sOff n : Nat)
    (hsame : same = true → src = dst ∧ sOff ≤ dOff)
    (hd : dOff + n ≤ dst.length) (hs : sOff + n ≤ src.length) :
    ∀ j, j ≤ n → (List.range j).reverse.foldl (stepCopy same src dOff sOff) (seg dst src dOff sOff j n)
      = seg dst src dOff sOff 0 n := by
  intro j
  induction j with
  | zero => intro _; simp
  | succ j ih =>
    intro hj
    rw [List.range_succ, List.reverse_append]
    simp only [List.reverse_cons, List.reverse_nil, List.nil_append, List.cons_append, List.foldl_cons]
    have hsv : ∃ v, src[sOff + j]? = some v := ⟨src[sOff + j]'(by omega), List.getElem?_eq_getElem (by omega)⟩
    obtain ⟨v, hv⟩ := hsv
    have hread : (if same = true then seg dst src dOff sOff (j + 1) n else src)[sOff + j]? = some v := by
      by_cases hsm : same = true
      · obtain ⟨he, hle⟩ := hsame hsm
        rw [if_pos hsm, seg_getElem? _ _ _ _ _ _ _ (by omega) (by omega) (by omega), if_neg (by omega)]
        rw [← he]; exact hv
      · rw [if_neg hsm]; exact hv
    have hstep : stepCopy same src dOff sOff (seg dst src dOff sOff (j + 1) n) j = seg dst src dOff sOff j n := by
      unfold stepCopy
      rw [hread]
      exact seg_set_left dst src dOff sOff j n v (by omega) hd hs hv
    rw [hstep]
    exact ih (by omega)

theorem seg_self {α} (dst : List α) (off n : Nat) (hd : off + n ≤ dst.length) :
    seg dst dst off off 0 n = dst := by
  apply List.ext_getElem?
  intro p
  rw [seg_getElem? _ _ _ _ _ _ _ (by omega) hd hd]
  by_cases h : off + 0 ≤ p ∧ p < off + n
  · rw [if_pos h]; congr 1; omega
  · rw [if_neg h]

/-- `$copyArray` is memmove — for every representation, both overlap directions, all in-range windows. -/
theorem copyArray_spec {α} (srcTyped spine same : Bool) (dst src : List α) (dOff sOff n : Nat)
    (hsame : same = true → src = dst)
    (hd : dOff + n ≤ dst.length) (hs : sOff + n ≤ src.length) :
    copyArray srcTyped spine same dst src dOff sOff n = moveCells dst src dOff sOff n := by
  rw [moveCells_eq_seg]
  unfold copyArray
  by_cases h0 : n = 0 ∨ (same = true ∧ dOff = sOff)
  · rw [if_pos h0]
    rcases h0 with h0 | ⟨hsm, he⟩
    · subst h0; rw [seg_empty]
    · have hsd := hsame hsm
      rw [hsd, he]
      exact (seg_self dst sOff n (by omega)).symm
  · rw [if_neg h0]
    have hloops : (if same = true ∧ dOff > sOff then copyBwd same dst src dOff sOff n else copyFwd same dst src dOff sOff n)
        = seg dst src dOff sOff 0 n := by
      by_cases hb : same = true ∧ dOff > sOff
      · rw [if_pos hb]
        unfold copyBwd
        have := copyBwd_seg same dst src dOff sOff n (fun h => ⟨hsame h, by omega⟩) hd hs n (Nat.le_refl _)
        rw [seg_empty] at this
        exact this
      · rw [if_neg hb]
        unfold copyFwd
        exact copyFwd_seg same dst src dOff sOff n (fun h => ⟨hsame h, by
          have : ¬ dOff > sOff := fun hg => hb ⟨h, hg⟩
          omega⟩) hd hs n (Nat.le_refl _)
    by_cases ht : srcTyped = true
    · rw [if_pos ht]
      unfold memmove seg
      have hl : (List.take n (List.drop sOff src)).length = n := by
        simp only [List.length_take, List.length_drop]; omega
      simp only [hl, Nat.add_zero, Nat.sub_zero]
    · rw [if_neg ht]
      by_cases hsp : spine = true
      · rw [if_pos hsp]; exact hloops
      · rw [if_neg hsp]; exact hloops

end GV.Slice
