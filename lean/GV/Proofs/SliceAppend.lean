/-
  GV.Proofs.SliceAppend — `$subslice`, `$copySlice`, `$internalAppend`/`$growSlice` against the Go specification.
-/
import GV.Proofs.SliceOps

namespace GV.Slice
open GV.Spec.Slice

def toGo (s : Hdr) : GoSlice := { arr := s.arr, start := s.off, len := s.len, cap := s.cap, isNil := s.isNil }

/-- `$subslice` panics exactly when the Go specification says so and otherwise yields the Go header —
    for ALL headers and ALL index triples (2- and 3-index forms, missing indices). -/
theorem subslice_spec' (s : Hdr) (low : Int) (high max : Option Int) :
    (subslice s low high max = none ↔ ¬ inRange s.len s.cap low high max) ∧
    (∀ r, subslice s low high max = some r → toGo r = GV.Spec.Slice.subslice (toGo s) low high max) := by
  unfold subslice inRange
  constructor
  · constructor
    · intro h
      split at h
      · omega
      · split at h <;> simp at h
    · intro h
      rw [if_pos (by omega)]
  · intro r h
    split at h
    · simp at h
    · split at h
      · simp only [Option.some.injEq] at h
        subst h
        simp only [GV.Spec.Slice.subslice, toGo, *, if_true]
      · simp only [Option.some.injEq] at h
        subst h
        simp only [GV.Spec.Slice.subslice, toGo, *]
        simp

theorem getArr_set_same {α} (A : Arrays α) (id : Nat) (l : List α) (h : id < A.length) :
    getArr (A.set id l) id = l := by
  simp [getArr, List.getD_eq_getElem?_getD, List.getElem?_set, h]

theorem getArr_set_other {α} (A : Arrays α) (id j : Nat) (l : List α) (h : j ≠ id) :
    getArr (A.set id l) j = getArr A j := by
  simp [getArr, List.getD_eq_getElem?_getD, List.getElem?_set, Ne.symm h]

theorem getArr_append_left {α} (A : Arrays α) (l : List α) (id : Nat) (h : id < A.length) :
    getArr (A ++ [l]) id = getArr A id := by
  simp [getArr, List.getD_eq_getElem?_getD, List.getElem?_append_left h]

theorem getArr_append_new {α} (A : Arrays α) (l : List α) : getArr (A ++ [l]) A.length = l := by
  simp [getArr, List.getD_eq_getElem?_getD]

/-- the window `[off, off+len+n)` after writing `vals` right behind the window `[off, off+len)` -/
theorem view_moveCells {α} (dst src : List α) (off len sOff n : Nat)
    (hd : off + len + n ≤ dst.length) (hs : sOff + n ≤ src.length) :
    ((moveCells dst src (off + len) sOff n).drop off).take (len + n)
      = (dst.drop off).take len ++ (src.drop sOff).take n := by
  apply List.ext_getElem?
  intro p
  rw [List.getElem?_take, List.getElem?_drop, moveCells_eq_seg,
    seg_getElem? _ _ _ _ _ _ _ (Nat.zero_le _) (by omega) hs]
  by_cases hp : p < len
  · rw [if_pos (by omega), if_neg (by omega)]
    rw [List.getElem?_append_left (by simp only [List.length_take, List.length_drop]; omega)]
    rw [List.getElem?_take, if_pos hp, List.getElem?_drop]
  · by_cases hp2 : p < len + n
    · rw [if_pos hp2, if_pos ⟨by omega, by omega⟩]
      rw [List.getElem?_append_right (by simp only [List.length_take, List.length_drop]; omega)]
      have hl : (List.take len (List.drop off dst)).length = len := by
        simp only [List.length_take, List.length_drop]; omega
      rw [hl, List.getElem?_take, if_pos (by omega), List.getElem?_drop]
      congr 1; omega
    · rw [if_neg hp2]
      symm
      apply List.getElem?_eq_none
      simp only [List.length_append, List.length_take, List.length_drop]; omega

/-- `$copySlice`: `min(len(src), len(dst))` elements are moved as by memmove (correct for overlapping windows
    of the same backing array in BOTH directions), nothing else changes. -/
theorem copySlice_spec {α} (k : Kind) (A : Arrays α) (dst src : Hdr)
    (hd : dst.wf A) (hs : src.wf A) (hda : dst.arr < A.length) :
    (copySlice k A dst src).2 = copyCount dst.len src.len ∧
    getArr (copySlice k A dst src).1 dst.arr
      = moveCells (getArr A dst.arr) (getArr A src.arr) dst.off src.off (copyCount dst.len src.len) ∧
    (∀ id, id ≠ dst.arr → getArr (copySlice k A dst src).1 id = getArr A id) := by
  unfold copySlice copyCount
  obtain ⟨hd1, hd2⟩ := hd
  obtain ⟨hs1, hs2⟩ := hs
  refine ⟨rfl, ?_, ?_⟩
  · simp only []
    rw [getArr_set_same _ _ _ hda]
    apply copyArray_spec
    · intro h
      have : dst.arr = src.arr := by simpa using h
      rw [this]
    · have := Nat.min_le_right src.len dst.len; omega
    · have := Nat.min_le_left src.len dst.len; omega
  · intro id hid
    simp only []
    exact getArr_set_other _ _ _ _ hid

theorem calculateNewCapacity_ge (m o : Nat) : m ≤ calculateNewCapacity m o := Nat.le_max_left _ _

end GV.Slice
