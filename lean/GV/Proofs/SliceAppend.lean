/-
  GV.Proofs.SliceAppend — `$subslice`, `$copySlice`, `$internalAppend`/`$growSlice` against the Go specification.
-/
import GV.Proofs.SliceOps

namespace GV.Slice
open GV.Spec.Slice

def toGo (s : Hdr) : GoSlice := { arr := s.arr, start := s.off, len := s.len, cap := s.cap, isNil := s.isNil }

/-- `$subslice` panics exactly when the Go specification says so and otherwise yields the Go header —
    for ALL headers and ALL index triples (2- and 3-index forms, missing indices). -/
theorem subslice_spec' (s : Hdr) (low : Int) (high max : Option Int) :
    (subslice s low high max = none ↔ ¬ inRange s.len s.cap low high max) ∧
    (∀ r, subslice s low high max = some r → toGo r = GV.Spec.Slice.subslice (toGo s) low high max) := by
  unfold subslice GV.Spec.Slice.subslice inRange toGo
  dsimp only
  generalize high.getD (s.len : Int) = hi
  generalize max.getD (s.cap : Int) = mx
  by_cases hb : low < 0 ∨ hi < low ∨ mx < hi ∨ hi > s.cap ∨ mx > s.cap
  · rw [if_pos hb]
    exact ⟨⟨fun _ => by omega, fun _ => rfl⟩, fun r h => by simp at h⟩
  · rw [if_neg hb]
    by_cases hn : s.isNil = true
    · rw [if_pos hn, if_pos hn]
      refine ⟨⟨fun h => by simp at h, fun h => by omega⟩, ?_⟩
      intro r h
      simp only [Option.some.injEq] at h
      subst h
      rfl
    · rw [if_neg hn, if_neg hn]
      refine ⟨⟨fun h => by simp at h, fun h => by omega⟩, ?_⟩
      intro r h
      simp only [Option.some.injEq] at h
      subst h
      rfl

theorem getArr_set_same {α} (A : Arrays α) (id : Nat) (l : List α) (h : id < A.length) :
    getArr (A.set id l) id = l := by
  simp [getArr, List.getD_eq_getElem?_getD, h]

theorem getArr_set_other {α} (A : Arrays α) (id j : Nat) (l : List α) (h : j ≠ id) :
    getArr (A.set id l) j = getArr A j := by
  simp [getArr, List.getD_eq_getElem?_getD, Ne.symm h]

theorem getArr_append_left {α} (A : Arrays α) (l : List α) (id : Nat) (h : id < A.length) :
    getArr (A ++ [l]) id = getArr A id := by
  simp [getArr, List.getD_eq_getElem?_getD, List.getElem?_append_left h]

theorem getArr_append_new {α} (A : Arrays α) (l : List α) : getArr (A ++ [l]) A.length = l := by
  simp [getArr, List.getD_eq_getElem?_getD]

/-- the window `[off, off+len+n)` after writing `vals` right behind the window `[off, off+len)` -/
theorem view_moveCells {α} (dst src : List α) (off len sOff n : Nat)
    (hd : off + len + n ≤ dst.length) (hs : sOff + n ≤ src.length) :
    ((moveCells dst src (off + len) sOff n).drop off).take (len + n)
      = (dst.drop off).take len ++ (src.drop sOff).take n := by
  apply List.ext_getElem?
  intro p
  rw [List.getElem?_take, List.getElem?_drop, moveCells_eq_seg,
    seg_getElem? _ _ _ _ _ _ _ (Nat.zero_le _) (by omega) hs]
  by_cases hp : p < len
  · rw [if_pos (by omega), if_neg (by omega)]
    rw [List.getElem?_append_left (by simp only [List.length_take, List.length_drop]; omega)]
    rw [List.getElem?_take, if_pos hp, List.getElem?_drop]
  · by_cases hp2 : p < len + n
    · rw [if_pos hp2, if_pos ⟨by omega, by omega⟩]
      rw [List.getElem?_append_right (by simp only [List.length_take, List.length_drop]; omega)]
      have hl : (List.take len (List.drop off dst)).length = len := by
        simp only [List.length_take, List.length_drop]; omega
      rw [hl, List.getElem?_take, if_pos (by omega), List.getElem?_drop]
      congr 1; omega
    · rw [if_neg hp2]
      symm
      apply List.getElem?_eq_none
      simp only [List.length_append, List.length_take, List.length_drop]; omega

/-- `$copySlice`: `min(len(src), len(dst))` elements are moved as by memmove (correct for overlapping windows
    of the same backing array in BOTH directions), nothing else changes. -/
theorem copySlice_spec {α} (k : Kind) (A : Arrays α) (dst src : Hdr)
    (hd : dst.wf A) (hs : src.wf A) (hda : dst.arr < A.length) :
    (copySlice k A dst src).2 = copyCount dst.len src.len ∧
    getArr (copySlice k A dst src).1 dst.arr
      = moveCells (getArr A dst.arr) (getArr A src.arr) dst.off src.off (copyCount dst.len src.len) ∧
    (∀ id, id ≠ dst.arr → getArr (copySlice k A dst src).1 id = getArr A id) := by
  unfold copySlice copyCount
  obtain ⟨hd1, hd2⟩ := hd
  obtain ⟨hs1, hs2⟩ := hs
  refine ⟨rfl, ?_, ?_⟩
  · simp only []
    rw [getArr_set_same _ _ _ hda]
    apply copyArray_spec
    · intro h
      have : dst.arr = src.arr := by simpa using h
      rw [this]
    · have := Nat.min_le_right src.len dst.len; omega
    · have := Nat.min_le_left src.len dst.len; omega
  · intro id hid
    simp only []
    exact getArr_set_other _ _ _ _ hid

theorem calculateNewCapacity_ge (m o : Nat) : m ≤ calculateNewCapacity m o := Nat.le_max_left _ _

/-- `$append` within capacity: the shared backing array receives `vals` in cells `[off+len, off+len+n)` and nothing else -/
theorem append_inplace {α} (k : Kind) (zero : α) (A : Arrays α) (s : Hdr) (vals : List α)
    (hwf : s.wf A) (hn : vals.length ≠ 0) (hfit : ¬ s.len + vals.length > s.cap) :
    append k zero A s vals =
      { arrays := A.set s.arr (moveCells (getArr A s.arr) vals (s.off + s.len) 0 vals.length),
        hdr := { arr := s.arr, off := s.off, len := s.len + vals.length, cap := s.cap, isNil := false },
        reusedElemObjects := false } := by
  obtain ⟨h1, h2⟩ := hwf
  unfold append internalAppend growSlice
  rw [if_neg hn]
  simp only [if_neg hfit]
  rw [copyArray_spec _ _ _ _ _ _ _ _ (by intro h; cases h) (by omega) (by omega)]

/-- `$append` beyond capacity: a NEW array is allocated holding the old elements, then `vals`, then zero values;
    no existing array is written -/
theorem append_realloc {α} (k : Kind) (zero : α) (A : Arrays α) (s : Hdr) (vals : List α)
    (hwf : s.wf A) (hbig : s.len + vals.length > s.cap) :
    append k zero A s vals =
      { arrays := (A ++ [view A s ++ List.replicate (calculateNewCapacity (s.len + vals.length) s.cap - s.len) zero]).set A.length
            (moveCells (view A s ++ List.replicate (calculateNewCapacity (s.len + vals.length) s.cap - s.len) zero) vals s.len 0 vals.length),
        hdr := { arr := A.length, off := 0, len := s.len + vals.length,
                 cap := calculateNewCapacity (s.len + vals.length) s.cap, isNil := false },
        reusedElemObjects := false } := by
  obtain ⟨h1, h2⟩ := hwf
  have hn : vals.length ≠ 0 := by omega
  have hcap := calculateNewCapacity_ge (s.len + vals.length) s.cap
  unfold append internalAppend growSlice
  rw [if_neg hn]
  simp only [if_pos hbig, getArr_append_new, view, Nat.zero_add]
  have hl : (List.take s.len (List.drop s.off (getArr A s.arr))).length = s.len := by
    simp only [List.length_take, List.length_drop]; omega
  rw [copyArray_spec _ _ _ _ _ _ _ _ (by intro h; cases h)
    (by simp only [List.length_append, List.length_replicate, hl]; omega) (by omega)]

/-- **append** as the Go specification demands, for every well-formed header and every list of values:
    length and contents; reallocation iff `len + n > cap`; within capacity only the cells `[len, len+n)` behind the
    window are written; beyond capacity no existing array is written; `cap ≥ len` and the header stays well-formed. -/
theorem append_spec' {α} (k : Kind) (zero : α) (A : Arrays α) (s : Hdr) (vals : List α)
    (hwf : s.wf A) (harr : s.arr < A.length) :
    view (append k zero A s vals).arrays (append k zero A s vals).hdr = view A s ++ vals ∧
    (append k zero A s vals).hdr.len = s.len + vals.length ∧
    (append k zero A s vals).hdr.wf (append k zero A s vals).arrays ∧
    (((append k zero A s vals).hdr.arr ≠ s.arr) ↔ (vals ≠ [] ∧ mustReallocate s.len s.cap vals.length)) ∧
    ((append k zero A s vals).hdr.arr = s.arr →
        (append k zero A s vals).hdr.off = s.off ∧ (append k zero A s vals).hdr.cap = s.cap ∧
        getArr (append k zero A s vals).arrays s.arr
          = moveCells (getArr A s.arr) vals (s.off + s.len) 0 vals.length ∧
        ∀ id, id ≠ s.arr → getArr (append k zero A s vals).arrays id = getArr A id) ∧
    ((append k zero A s vals).hdr.arr ≠ s.arr →
        ∀ id, id < A.length → getArr (append k zero A s vals).arrays id = getArr A id) := by
  have hwf' := hwf
  obtain ⟨h1, h2⟩ := hwf
  by_cases hn : vals.length = 0
  · have hv : vals = [] := List.eq_nil_of_length_eq_zero hn
    subst hv
    have he : append k zero A s [] = { arrays := A, hdr := s, reusedElemObjects := false } := by
      simp [append, internalAppend]
    rw [he]
    refine ⟨by simp, by simp, hwf', ?_, ?_, ?_⟩
    · simp
    · intro _
      refine ⟨rfl, rfl, ?_, fun _ _ => rfl⟩
      rw [moveCells_eq_seg]
      simp only [List.length_nil, seg_empty]
    · intro h; exact absurd rfl h
  · by_cases hbig : s.len + vals.length > s.cap
    · rw [append_realloc k zero A s vals hwf' hbig]
      have hcap := calculateNewCapacity_ge (s.len + vals.length) s.cap
      have hvl : (view A s).length = s.len := by
        simp only [view, List.length_take, List.length_drop]; omega
      have hne : A.length ≠ s.arr := by omega
      have hlen : (A ++ [view A s ++ List.replicate (calculateNewCapacity (s.len + vals.length) s.cap - s.len) zero]).length
          = A.length + 1 := by simp
      dsimp only
      refine ⟨?_, rfl, ?_, ?_, ?_, ?_⟩
      · have hm := view_moveCells (view A s ++ List.replicate (calculateNewCapacity (s.len + vals.length) s.cap - s.len) zero)
          vals 0 s.len 0 vals.length
          (by simp only [List.length_append, List.length_replicate, hvl]; omega) (by omega)
        simp only [Nat.zero_add, List.drop_zero] at hm
        rw [List.take_left' hvl, List.take_length] at hm
        rw [← hm]
        simp only [view]
        rw [getArr_set_same _ _ _ (by simp), List.drop_zero]
      · constructor
        · dsimp only; omega
        · dsimp only
          rw [getArr_set_same _ _ _ (by simp), moveCells_eq_seg,
            seg_length _ _ _ _ _ _ (Nat.zero_le _)
              (by simp only [List.length_append, List.length_replicate, hvl]; omega) (by omega)]
          simp only [List.length_append, List.length_replicate, hvl]; omega
      · constructor
        · intro _
          exact ⟨fun h => hn (by rw [h]; rfl), hbig⟩
        · intro _; exact hne
      · intro h; exact absurd h hne
      · intro _ id hid
        rw [getArr_set_other _ _ _ _ (by omega), getArr_append_left _ _ _ hid]
    · rw [append_inplace k zero A s vals hwf' hn hbig]
      dsimp only
      refine ⟨?_, rfl, ?_, ?_, ?_, ?_⟩
      · unfold view
        dsimp only
        rw [getArr_set_same _ _ _ harr]
        have hm := view_moveCells (getArr A s.arr) vals s.off s.len 0 vals.length (by omega) (by omega)
        rw [hm, List.drop_zero, List.take_length]
      · constructor
        · dsimp only; omega
        · dsimp only
          rw [getArr_set_same _ _ _ harr, moveCells_eq_seg,
            seg_length _ _ _ _ _ _ (Nat.zero_le _) (by omega) (by omega)]
          exact h2
      · constructor
        · intro h; exact absurd rfl h
        · intro h; exact absurd h.2 hbig
      · intro _
        exact ⟨rfl, rfl, getArr_set_same _ _ _ harr, fun id hid => getArr_set_other _ _ _ _ hid⟩
      · intro h; exact absurd rfl h

/-- after the repair no `append` shares element objects between the old and the new backing array -/
theorem append_reused {α} (k : Kind) (zero : α) (A : Arrays α) (s : Hdr) (vals : List α) (hwf : s.wf A) :
    (append k zero A s vals).reusedElemObjects = false := by
  by_cases hbig : s.len + vals.length > s.cap
  · rw [append_realloc k zero A s vals hwf hbig]
  · by_cases hn : vals.length = 0
    · have hv : vals = [] := List.eq_nil_of_length_eq_zero hn
      subst hv
      simp [append, internalAppend]
    · rw [append_inplace k zero A s vals hwf hn hbig]

end GV.Slice
