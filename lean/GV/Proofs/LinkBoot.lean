/-
  GV.Proofs.LinkBoot — the boot phase `$packages["runtime"].$init()` is a plain synchronous call
  (compiler.go:193): a suspension there would lose the continuation (`stepSync`). If no initialiser reachable
  from `runtime` suspends, the synchronous machine agrees with the goroutine machine, and the emitted program
  produces exactly `programTrace`.

  Core Lean only.
-/
import GV.Proofs.LinkInit

namespace GV.Proofs.LinkBoot
open GV.Link GV.Proofs.LinkInit

set_option linter.unusedSectionVars false

variable {α : Type} [DecidableEq α]

/-! ### 1. One step appends at most one event -/

theorem call_trace (G : Prog α) (s : State α) (p : α) :
    (call G s p).trace = s.trace ∨ (call G s p).trace = s.trace ++ [Ev.enter p] := by
  unfold call
  split
  · exact Or.inl rfl
  · exact Or.inr rfl

/-- `step` appends at most one event to the trace -/
theorem step_trace (G : Prog α) (sched : α → Nat → Nat) (s : State α) :
    (step G sched s).trace = s.trace ∨ ∃ e, (step G sched s).trace = s.trace ++ [e] := by
  obtain ⟨r, st, t⟩ := s
  cases st with
  | nil => left; rfl
  | cons f rest =>
    obtain ⟨p, imps, items, cur⟩ := f
    cases imps with
    | cons q qs =>
      simp only [step]
      rcases call_trace G { replaced := r, stack := ⟨p, qs, items, cur⟩ :: rest, trace := t } q with h | h
      · left; exact h
      · right; exact ⟨_, h⟩
    | nil =>
      cases items with
      | nil => right; exact ⟨Ev.done p, rfl⟩
      | cons i is =>
        cases cur with
        | none => right; exact ⟨_, rfl⟩
        | some k =>
          cases k with
          | zero => right; exact ⟨_, rfl⟩
          | succ k => right; exact ⟨_, rfl⟩

theorem step_trace_append (G : Prog α) (sched : α → Nat → Nat) (s : State α) :
    ∃ t1, (step G sched s).trace = s.trace ++ t1 := by
  rcases step_trace G sched s with h | ⟨e, h⟩
  · exact ⟨[], by simp [h]⟩
  · exact ⟨[e], h⟩

/-- in the suspension situation the appended event is `Ev.yield` -/
theorem step_yield (G : Prog α) (sched : α → Nat → Nat) (r : List α) (p : α) (i : Nat) (is : List Nat)
    (k : Nat) (rest : List (Frame α)) (t : List (Ev α)) :
    step G sched { replaced := r, stack := ⟨p, [], i :: is, some (k + 1)⟩ :: rest, trace := t }
      = { replaced := r, stack := ⟨p, [], i :: is, some k⟩ :: rest, trace := t ++ [Ev.yield] } := rfl

/-- in the suspension situation the synchronous machine loses the stack -/
theorem stepSync_yield (G : Prog α) (sched : α → Nat → Nat) (r : List α) (p : α) (i : Nat) (is : List Nat)
    (k : Nat) (rest : List (Frame α)) (t : List (Ev α)) :
    stepSync G sched { replaced := r, stack := ⟨p, [], i :: is, some (k + 1)⟩ :: rest, trace := t }
      = { replaced := r, stack := [], trace := t ++ [Ev.yield] } := rfl

/-- general form: if the events appended by `step` contain no `yield`, `stepSync` is `step` -/
theorem stepSync_eq_step_of (G : Prog α) (sched : α → Nat → Nat) (s : State α) (t1 : List (Ev α))
    (h : (step G sched s).trace = s.trace ++ t1) (hy : Ev.yield ∉ t1) :
    stepSync G sched s = step G sched s := by
  obtain ⟨r, st, t⟩ := s
  cases st with
  | nil => rfl
  | cons f rest =>
    obtain ⟨p, imps, items, cur⟩ := f
    cases imps with
    | cons q qs => rfl
    | nil =>
      cases items with
      | nil => rfl
      | cons i is =>
        cases cur with
        | none => rfl
        | some k =>
          cases k with
          | zero => rfl
          | succ k =>
            exfalso
            have h' : t ++ [Ev.yield] = t ++ t1 := h
            have h'' := List.append_cancel_left h'
            exact hy (by rw [← h'']; simp)

/-- **Target 1**: if `step` does not append `Ev.yield`, the synchronous step is the ordinary step -/
theorem stepSync_eq_step (G : Prog α) (sched : α → Nat → Nat) (s : State α)
    (h : (step G sched s).trace ≠ s.trace ++ [Ev.yield]) :
    stepSync G sched s = step G sched s := by
  rcases step_trace G sched s with h1 | ⟨e, h1⟩
  · exact stepSync_eq_step_of G sched s [] (by simp [h1]) (by simp)
  · refine stepSync_eq_step_of G sched s [e] h1 ?_
    intro hm
    simp only [List.mem_singleton] at hm
    subst hm
    exact h h1

/-! ### 2. The trace only grows -/

/-- **Target 2** -/
theorem trace_prefix (G : Prog α) (sched : α → Nat → Nat) :
    ∀ n (s : State α), ∃ t, (steps G sched n s).trace = s.trace ++ t := by
  intro n
  induction n with
  | zero => intro s; exact ⟨[], by simp [steps]⟩
  | succ n ih =>
    intro s
    obtain ⟨t2, h2⟩ := ih (step G sched s)
    obtain ⟨t1, h1⟩ := step_trace_append G sched s
    simp only [steps]
    exact ⟨t1 ++ t2, by rw [h2, h1, List.append_assoc]⟩

/-! ### 3. Without suspensions the synchronous machine is the ordinary machine -/

/-- **Target 3** -/
theorem stepsSync_eq_steps (G : Prog α) (sched : α → Nat → Nat) :
    ∀ n (s : State α) (t : List (Ev α)), (steps G sched n s).trace = s.trace ++ t → Ev.yield ∉ t →
      stepsSync G sched n s = steps G sched n s := by
  intro n
  induction n with
  | zero => intro s t _ _; rfl
  | succ n ih =>
    intro s t h hy
    simp only [steps] at h
    obtain ⟨t2, h2⟩ := trace_prefix G sched n (step G sched s)
    obtain ⟨t1, h1⟩ := step_trace_append G sched s
    have ht : t = t1 ++ t2 := by
      rw [h2, h1, List.append_assoc] at h
      exact (List.append_cancel_left h).symm
    subst ht
    have hs := stepSync_eq_step_of G sched s t1 h1 (fun hh => hy (List.mem_append_left _ hh))
    simp only [stepsSync, steps, hs]
    exact ih _ t2 h2 (fun hh => hy (List.mem_append_right _ hh))

/-! ### 4. No suspension in the initialisation of packages that never suspend -/

theorem yield_not_mem_bodyEvs (G : Prog α) (sched : α → Nat → Nat) (p : α) (h : ∀ i, sched p i = 0) :
    Ev.yield ∉ bodyEvs G sched p := by
  intro hm
  simp only [bodyEvs, itemEvs, List.mem_flatMap, List.mem_range, List.mem_append, List.mem_singleton,
    List.mem_replicate, reduceCtorEq, false_or, or_false] at hm
  obtain ⟨i, _, hne, _⟩ := hm
  exact hne (h i)

theorem no_yield_spec (G : Prog α) (sched : α → Nat → Nat) : ∀ fuel,
    (∀ repl p, (∀ q, Reach G.imports p q → ∀ i, sched q i = 0) →
      Ev.yield ∉ (initRec G sched fuel repl p).2) ∧
    (∀ repl qs, (∀ q' ∈ qs, ∀ q, Reach G.imports q' q → ∀ i, sched q i = 0) →
      Ev.yield ∉ (impsRec G sched fuel repl qs).2) := by
  refine initRec_ind G sched
    (P := fun _ _ p R => (∀ q, Reach G.imports p q → ∀ i, sched q i = 0) → Ev.yield ∉ R.2)
    (Q := fun _ _ qs R => (∀ q' ∈ qs, ∀ q, Reach G.imports q' q → ∀ i, sched q i = 0) → Ev.yield ∉ R.2)
    ?_ ?_ ?_ ?_ ?_
  · intro repl p _ h; simp at h
  · intro fuel repl p _ _ h; simp at h
  · intro fuel repl p M _ _ hQ hs he
    simp only [List.mem_cons, List.mem_append, List.not_mem_nil, or_false, reduceCtorEq, false_or] at he
    rcases he with he | he
    · exact hQ (fun q' hq' q hr i => hs q (Reach.step hq' hr) i) he
    · exact yield_not_mem_bodyEvs G sched p (hs p (Reach.refl p)) he
  · intro fuel repl _ h; simp at h
  · intro fuel repl q qs R1 R2 _ _ hP hQ hs he
    rcases List.mem_append.1 he with he | he
    · exact hP (hs q (by simp)) he
    · exact hQ (fun q' hq' => hs q' (by simp [hq'])) he

/-- **Target 4**: if no initialiser of a package reachable from `runtime` suspends, the trace of
    `runtime.$init()` contains no suspension -/
theorem runtime_no_yield (G : Prog α) (sched : α → Nat → Nat) (fuel : Nat) (runtime : α)
    (hsync : ∀ p, Reach G.imports runtime p → ∀ i, sched p i = 0) :
    Ev.yield ∉ (initRec G sched fuel [] runtime).2 :=
  (no_yield_spec G sched fuel).1 [] runtime hsync

/-! ### 5. The emitted program, with the boot phase run synchronously -/

/-- **Target 5 (main)**: `$packages["runtime"].$init()` run by the synchronous machine, then
    `$go($mainPkg.$init, [])` run by the goroutine machine, produce exactly `programTrace` and end with an
    empty stack — provided no initialiser reachable from `runtime` suspends. -/
theorem boot_sync_program (G : Prog α) (sched : α → Nat → Nat) (fuel : Nat) (runtime main : α)
    (rank : α → Nat) (hac : Acyclic G.imports rank)
    (hr0 : rank runtime < fuel) (hr1 : rank main < fuel)
    (hsync : ∀ p, Reach G.imports runtime p → ∀ i, sched p i = 0) :
    ∃ n m, steps G sched m (call G (stepsSync G sched n (bootState G runtime)) main) =
      { replaced := (initRec G sched fuel (initRec G sched fuel [] runtime).1 main).1, stack := [],
        trace := programTrace G sched fuel runtime main } := by
  obtain ⟨n, hn⟩ := machine_eq_direct G sched rank hac fuel { replaced := [], stack := [], trace := [] }
    runtime hr0
  have hn' : steps G sched n (bootState G runtime) =
      { replaced := (initRec G sched fuel [] runtime).1, stack := [],
        trace := (initRec G sched fuel [] runtime).2 } := by
    simp only [bootState, hn]; simp
  obtain ⟨t, ht⟩ := trace_prefix G sched n (bootState G runtime)
  have hy : Ev.yield ∉ t := by
    intro hm
    have : Ev.yield ∈ (steps G sched n (bootState G runtime)).trace := by
      rw [ht]; exact List.mem_append_right _ hm
    rw [hn'] at this
    exact runtime_no_yield G sched fuel runtime hsync this
  have hsyncEq := stepsSync_eq_steps G sched n (bootState G runtime) t ht hy
  obtain ⟨m, hm⟩ := machine_eq_direct G sched rank hac fuel (steps G sched n (bootState G runtime)) main hr1
  refine ⟨n, m, ?_⟩
  rw [hsyncEq, hm, hn']
  simp [programTrace_eq]

/-! ### 6. The hypothesis `hsync` is necessary -/

theorem steps_nil_stack (G : Prog α) (sched : α → Nat → Nat) :
    ∀ n (s : State α), s.stack = [] → steps G sched n s = s := by
  intro n
  induction n with
  | zero => intro s _; rfl
  | succ n ih =>
    intro s h
    have hs : step G sched s = s := by
      obtain ⟨r, st, t⟩ := s
      simp only at h
      subst h
      rfl
    simp only [steps, hs]
    exact ih s h

theorem stepsSync_nil_stack (G : Prog α) (sched : α → Nat → Nat) :
    ∀ n (s : State α), s.stack = [] → stepsSync G sched n s = s := by
  intro n
  induction n with
  | zero => intro s _; rfl
  | succ n ih =>
    intro s h
    have hs : stepSync G sched s = s := by
      obtain ⟨r, st, t⟩ := s
      simp only at h
      subst h
      rfl
    simp only [stepsSync, hs]
    exact ih s h

/-- once the stack is empty the machine is stuck -/
theorem steps_stuck (G : Prog α) (sched : α → Nat → Nat) (K : Nat) (s : State α)
    (h : (steps G sched K s).stack = []) (m : Nat) (hm : K ≤ m) : steps G sched m s = steps G sched K s := by
  obtain ⟨j, rfl⟩ : ∃ j, m = K + j := ⟨m - K, by omega⟩
  rw [steps_add]
  exact steps_nil_stack G sched j _ h

/-- counterexample program: package `1` (main) imports package `0` (runtime); one body item each -/
def cexG : Prog Nat := { imports := fun p => if p = 1 then [0] else [], nitems := fun _ => 1 }

/-- the only body item of package `0` suspends once -/
def cexSched : Nat → Nat → Nat := fun p _ => if p = 0 then 1 else 0

theorem cex_acyclic : Acyclic cexG.imports (fun p => p) := by
  intro p q h
  simp only [cexG] at h
  split at h
  · rename_i hp
    simp only [List.mem_singleton] at h
    show q < p
    omega
  · simp at h

/-- after two synchronous steps the boot phase has lost its stack, and stays there -/
theorem cex_sync_stuck (k : Nat) :
    stepsSync cexG cexSched (k + 2) (bootState cexG 0)
      = { replaced := [0], stack := [], trace := [Ev.enter 0, Ev.begin 0 0, Ev.yield] } := by
  show stepsSync cexG cexSched k (stepSync cexG cexSched (stepSync cexG cexSched (bootState cexG 0))) = _
  have h : stepSync cexG cexSched (stepSync cexG cexSched (bootState cexG 0))
      = { replaced := [0], stack := [], trace := [Ev.enter 0, Ev.begin 0 0, Ev.yield] } := by
    rfl
  rw [h]
  exact stepsSync_nil_stack cexG cexSched k _ rfl

/-- a property of the trace that fails for the first `K + 1` step counts and with an empty stack after `K`
    steps fails for every step count -/
theorem never_of_stuck (G : Prog α) (sched : α → Nat → Nat) (P : List (Ev α) → Prop) (C : State α) (K : Nat)
    (hK : (steps G sched K C).stack = [])
    (hsmall : ∀ m, m < K + 1 → ¬ P (steps G sched m C).trace) :
    ∀ m, ¬ P (steps G sched m C).trace := by
  intro m
  by_cases hm : m < K + 1
  · exact hsmall m hm
  · rw [steps_stuck G sched K C hK m (by omega)]
    exact hsmall K (by omega)

/-- **Target 6a**: in the counterexample (acyclic by `cex_acyclic`; `rank 0 = 0 < 2`, `rank 1 = 1 < 2`; only
    `hsync` fails: `cexSched 0 0 = 1`), after a boot phase of at least two synchronous steps the body item of the
    runtime package `0` never finishes, although (after two more steps) the body item of package `1`, which
    imports `0`, begins. -/
theorem boot_sync_needs_hsync_trace (n m : Nat) (hn : 2 ≤ n) :
    Ev.fin 0 0 ∉ (steps cexG cexSched m (call cexG (stepsSync cexG cexSched n (bootState cexG 0)) 1)).trace ∧
    (2 ≤ m →
      Ev.begin 1 0 ∈ (steps cexG cexSched m (call cexG (stepsSync cexG cexSched n (bootState cexG 0)) 1)).trace) := by
  obtain ⟨k, rfl⟩ : ∃ k, n = k + 2 := ⟨n - 2, by omega⟩
  rw [cex_sync_stuck]
  refine ⟨?_, ?_⟩
  · exact never_of_stuck cexG cexSched (fun T => Ev.fin 0 0 ∈ T) _ 4 (by decide) (by decide) m
  · intro hm
    have h := never_of_stuck cexG cexSched (fun T => Ev.begin 1 0 ∉ T)
      (steps cexG cexSched 2 (call cexG
        { replaced := [0], stack := [], trace := [Ev.enter 0, Ev.begin 0 0, Ev.yield] } 1)) 2
      (by decide) (by decide) (m - 2)
    obtain ⟨j, rfl⟩ : ∃ j, m = 2 + j := ⟨m - 2, by omega⟩
    rw [steps_add]
    have hj : 2 + j - 2 = j := by omega
    rw [hj] at h
    exact Classical.not_not.1 h

/-- **Target 6b**: without `hsync` the conclusion of `boot_sync_program` fails: for no numbers of steps does
    the emitted program of the counterexample produce `programTrace`. -/
theorem boot_sync_needs_hsync :
    ¬ ∃ n m, (steps cexG cexSched m (call cexG (stepsSync cexG cexSched n (bootState cexG 0)) 1)).trace
      = programTrace cexG cexSched 2 0 1 := by
  rintro ⟨n, m, h⟩
  match n with
  | 0 =>
    exact never_of_stuck cexG cexSched (fun T => T = programTrace cexG cexSched 2 0 1)
      (call cexG (stepsSync cexG cexSched 0 (bootState cexG 0)) 1) 9 (by decide) (by decide) m h
  | 1 =>
    exact never_of_stuck cexG cexSched (fun T => T = programTrace cexG cexSched 2 0 1)
      (call cexG (stepsSync cexG cexSched 1 (bootState cexG 0)) 1) 9 (by decide) (by decide) m h
  | k + 2 =>
    rw [cex_sync_stuck] at h
    exact never_of_stuck cexG cexSched (fun T => T = programTrace cexG cexSched 2 0 1) _ 4
      (by decide) (by decide) m h

end GV.Proofs.LinkBoot
