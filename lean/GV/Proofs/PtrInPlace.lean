/-
  GV.Proofs.PtrInPlace — an in-place assignment `x = y` (`T.copy(x, y)`) of array/struct type keeps every pointer
  into `x` attached: `x`'s objects stay the same objects (`copyInto_correct`: the spine is unchanged) and every leaf
  cell `x.path` then holds `y.path`.
-/
import GV.Proofs.HeapPath
import GV.Proofs.HeapCopy

namespace GV.Heap

theorem inplace_leaf_value (t : Ty) (ht : isSpine t = true) (H : Heap) (d s : Int)
    (hnd : (spine t H d).Nodup) (hdj : ∀ x ∈ spine t H d, x ∉ spine t H s)
    (p : List Nat) (lt : Ty) (hp : typeAt t p = some lt) (hl : isSpine lt = false) :
    navigate (copyInto t H d s) d p = navigate H s p ∧ spine t (copyInto t H d s) d = spine t H d := by
  obtain ⟨hflat, hsp, _, _⟩ := copyInto_correct t ht H d s hnd hdj
  refine ⟨?_, hsp⟩
  have h1 := (sub_value (copyInto t H d s) p t lt d hp).2.1
  have h2 := (sub_value H p t lt s hp).2.1
  rw [flat_leaf hl] at h1 h2
  rw [hflat, ← h2] at h1
  exact List.head_eq_of_cons_eq h1

end GV.Heap
