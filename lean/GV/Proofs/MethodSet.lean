import GV.Model.Types
import GV.Spec.GoTypes

/-!
  GV.Proofs.MethodSet — the general method-set theorem of C09: on a clean embedding closure the breadth-first walk of
  `$methodSet` (types.js) and the reference walk of go/types `NewMethodSet` compute the same set of methods, with
  embedding, promotion by depth, shadowing and pointer indirection. Core Lean only.
-/
namespace GV.Props.C09
open GV.Types GV.Spec.GoTypes

def mkey (m : Method) : SelKey := (m.name, m.pkg)

/-! ## 1. closed form of one level of the model walk -/

/-- the methods `msVisit` collects from an entry it has not seen -/
def mMset (s : St) (e : Ent) : List Method :=
  (if (s.get e.typ).named then (s.get e.typ).methods ++ (if e.indirect then ptrMethods s e.typ else []) else []) ++
    (if (s.get e.typ).kind = kInterface then (s.get e.typ).methods else [])

/-- the successors `msVisit` queues for an entry it has not seen -/
def mNext (s : St) (e : Ent) : List Ent :=
  if (s.get e.typ).kind = kStruct then
    ((s.get e.typ).fields.filter (·.embedded)).map fun f =>
      if (s.get f.typ).kind = kPtr then ⟨(s.get f.typ).elem, true⟩ else ⟨f.typ, e.indirect⟩
  else []

theorem msVisit_seen (s : St) (a : LevelAcc) (e : Ent) (h : a.seen.contains e.typ = true) : msVisit s a e = a := by
  unfold msVisit
  simp only [h, if_true]

theorem msVisit_unseen (s : St) (a : LevelAcc) (e : Ent) (h : a.seen.contains e.typ = false) :
    (msVisit s a e).seen = e.typ :: a.seen ∧ (msVisit s a e).mset = a.mset ++ mMset s e ∧
    (msVisit s a e).next = a.next ++ mNext s e := by
  unfold msVisit mMset mNext
  simp only [h, Bool.false_eq_true, if_false]
  by_cases hn : (s.get e.typ).named = true <;> by_cases hi : e.indirect = true <;>
    by_cases hs : (s.get e.typ).kind = kStruct <;> by_cases hf : (s.get e.typ).kind = kInterface <;>
    simp_all [kStruct, kInterface]

/-- one level of the model walk in closed form: the entries processed are exactly the unseen ones -/
theorem ms_fold (s : St) : ∀ (cur : List Ent) (a : LevelAcc), (cur.map (·.typ)).Nodup →
    (cur.foldl (msVisit s) a).seen = ((cur.filter fun e => !a.seen.contains e.typ).map (·.typ)).reverse ++ a.seen ∧
    (cur.foldl (msVisit s) a).mset = a.mset ++ (cur.filter fun e => !a.seen.contains e.typ).flatMap (mMset s) ∧
    (cur.foldl (msVisit s) a).next = a.next ++ (cur.filter fun e => !a.seen.contains e.typ).flatMap (mNext s)
  | [], a, _ => by simp
  | e :: r, a, hn => by
    simp only [List.map_cons, List.nodup_cons] at hn
    simp only [List.foldl_cons]
    by_cases h : a.seen.contains e.typ = true
    · rw [msVisit_seen s a e h]
      have ih := ms_fold s r a hn.2
      simp only [List.filter_cons, h, Bool.not_true, Bool.false_eq_true, if_false]
      exact ih
    · have h' : a.seen.contains e.typ = false := by simpa using h
      obtain ⟨h1, h2, h3⟩ := msVisit_unseen s a e h'
      have ih := ms_fold s r (msVisit s a e) hn.2
      have hfil : (r.filter fun x => !(msVisit s a e).seen.contains x.typ) = r.filter fun x => !a.seen.contains x.typ := by
        apply List.filter_congr
        intro x hx
        rw [h1]
        have : x.typ ≠ e.typ := fun hh => hn.1 (by rw [← hh]; exact List.mem_map_of_mem hx)
        simp [List.contains_cons, this]
      rw [hfil, h1, h2, h3] at ih
      simp only [List.filter_cons, h', Bool.not_false, if_true, List.map_cons, List.reverse_cons, List.flatMap_cons]
      refine ⟨?_, ?_, ?_⟩
      · rw [ih.1]; simp
      · rw [ih.2.1]; simp
      · rw [ih.2.2]; simp

/-! ## 2. closed form of one level of the reference walk -/

/-- what `sVisit` feeds to `addOne` for an entry it processes: (method, pointer receiver?, indirect?) -/
def sAdds (s : St) (e : SEnt) : List (Method × Bool × Bool) :=
  (if (s.get e.typ).named then (declaredMethods s (ptrOfM s) e.typ).map (fun mp => (mp.1, mp.2, e.indirect)) else []) ++
    (if (s.get e.typ).kind = kInterface then (s.get e.typ).methods.map (fun m => (m, false, true)) else [])

def sFields (s : St) (e : SEnt) : List SelKey :=
  if (s.get e.typ).kind = kStruct then
    (s.get e.typ).fields.map (fun f => (f.name, if f.exported then [] else (s.get e.typ).pkgPath))
  else []

def sNext (s : St) (e : SEnt) : List SEnt :=
  if (s.get e.typ).kind = kStruct then
    ((s.get e.typ).fields.filter (·.embedded)).map fun f =>
      if (s.get f.typ).kind = kPtr ∧ !(s.get f.typ).named then ⟨(s.get f.typ).elem, true, e.multiples⟩
      else ⟨f.typ, e.indirect, e.multiples⟩
  else []

def addOne' (mult : Bool) (t : Tbl) (x : Method × Bool × Bool) : Tbl := addOne t x.1 x.2.1 x.2.2 mult

theorem sVisit_seen (s : St) (a : SLevel) (e : SEnt) (h : ((s.get e.typ).named && a.seen.contains e.typ) = true) :
    sVisit s (ptrOfM s) a e = a := by
  unfold sVisit
  simp only [h, if_true]

theorem sVisit_unseen (s : St) (a : SLevel) (e : SEnt) (h : ((s.get e.typ).named && a.seen.contains e.typ) = false) :
    (sVisit s (ptrOfM s) a e).seen = (if (s.get e.typ).named then e.typ :: a.seen else a.seen) ∧
    (sVisit s (ptrOfM s) a e).mset = (sAdds s e).foldl (addOne' e.multiples) a.mset ∧
    (sVisit s (ptrOfM s) a e).fset = a.fset ++ sFields s e ∧
    (sVisit s (ptrOfM s) a e).next = a.next ++ sNext s e := by
  unfold sVisit sAdds sFields sNext
  simp only [h, Bool.false_eq_true, if_false]
  by_cases hn : (s.get e.typ).named = true <;>
    by_cases hs : (s.get e.typ).kind = kStruct <;> by_cases hf : (s.get e.typ).kind = kInterface <;>
    simp_all [kStruct, kInterface, List.foldl_append, List.foldl_map, addOne']

def sUnseen (s : St) (seen : List Nat) (e : SEnt) : Bool := !((s.get e.typ).named && seen.contains e.typ)

/-- one level of the reference walk in closed form (no entry reached twice: `multiples = false`) -/
theorem s_fold (s : St) : ∀ (cur : List SEnt) (a : SLevel), (cur.map (·.typ)).Nodup → (∀ e ∈ cur, e.multiples = false) →
    (cur.foldl (sVisit s (ptrOfM s)) a).seen =
        (((cur.filter (sUnseen s a.seen)).filter fun e => (s.get e.typ).named).map (·.typ)).reverse ++ a.seen ∧
    (cur.foldl (sVisit s (ptrOfM s)) a).mset = ((cur.filter (sUnseen s a.seen)).flatMap (sAdds s)).foldl (addOne' false) a.mset ∧
    (cur.foldl (sVisit s (ptrOfM s)) a).fset = a.fset ++ (cur.filter (sUnseen s a.seen)).flatMap (sFields s) ∧
    (cur.foldl (sVisit s (ptrOfM s)) a).next = a.next ++ (cur.filter (sUnseen s a.seen)).flatMap (sNext s)
  | [], a, _, _ => by simp
  | e :: r, a, hn, hm => by
    simp only [List.map_cons, List.nodup_cons] at hn
    simp only [List.foldl_cons]
    have hmr : ∀ x ∈ r, x.multiples = false := fun x hx => hm x (List.mem_cons_of_mem _ hx)
    by_cases h : ((s.get e.typ).named && a.seen.contains e.typ) = true
    · rw [sVisit_seen s a e h]
      have ih := s_fold s r a hn.2 hmr
      have : sUnseen s a.seen e = false := by unfold sUnseen; rw [h]; rfl
      simp only [List.filter_cons, this, Bool.false_eq_true, if_false]
      exact ih
    · have h' : ((s.get e.typ).named && a.seen.contains e.typ) = false := by simpa using h
      obtain ⟨h1, h2, h3, h4⟩ := sVisit_unseen s a e h'
      have ih := s_fold s r (sVisit s (ptrOfM s) a e) hn.2 hmr
      have hfil : r.filter (sUnseen s (sVisit s (ptrOfM s) a e).seen) = r.filter (sUnseen s a.seen) := by
        apply List.filter_congr
        intro x hx
        rw [h1]
        have hne : x.typ ≠ e.typ := fun hh => hn.1 (by rw [← hh]; exact List.mem_map_of_mem hx)
        unfold sUnseen
        split <;> simp [hne]
      rw [hfil, h1, h2, h3, h4, hm e (by simp)] at ih
      have hu : sUnseen s a.seen e = true := by unfold sUnseen; rw [h']; rfl
      simp only [List.filter_cons, hu, if_true, List.flatMap_cons, List.foldl_append]
      refine ⟨?_, ih.2.1, ?_, ?_⟩
      · rw [ih.1]
        by_cases hnm : (s.get e.typ).named = true <;> simp [hnm]
      · rw [ih.2.2.1]; simp
      · rw [ih.2.2.2]; simp
