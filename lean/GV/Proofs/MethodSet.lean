import GV.Model.Types
import GV.Spec.GoTypes

/-!
  GV.Proofs.MethodSet — the general method-set theorem of C09: on a clean embedding closure the breadth-first walk of
  `$methodSet` (types.js) and the reference walk of go/types `NewMethodSet` compute the same set of methods, with
  embedding, promotion by depth, shadowing and pointer indirection. Core Lean only.
-/
namespace GV.Props.C09
open GV.Types GV.Spec.GoTypes

def mkey (m : Method) : SelKey := (m.name, m.pkg)

/-! ## 1. closed form of one level of the model walk -/

/-- the methods `msVisit` collects from an entry it has not seen -/
def mMset (s : St) (e : Ent) : List Method :=
  (if (s.get e.typ).named then (s.get e.typ).methods ++ (if e.indirect then ptrMethods s e.typ else []) else []) ++
    (if (s.get e.typ).kind = kInterface then (s.get e.typ).methods else [])

/-- the successors `msVisit` queues for an entry it has not seen -/
def mNext (s : St) (e : Ent) : List Ent :=
  if (s.get e.typ).kind = kStruct then
    ((s.get e.typ).fields.filter (·.embedded)).map fun f =>
      if (s.get f.typ).kind = kPtr then ⟨(s.get f.typ).elem, true⟩ else ⟨f.typ, e.indirect⟩
  else []

theorem msVisit_seen (s : St) (a : LevelAcc) (e : Ent) (h : a.seen.contains e.typ = true) : msVisit s a e = a := by
  unfold msVisit
  simp only [h, if_true]

theorem msVisit_unseen (s : St) (a : LevelAcc) (e : Ent) (h : a.seen.contains e.typ = false) :
    (msVisit s a e).seen = e.typ :: a.seen ∧ (msVisit s a e).mset = a.mset ++ mMset s e ∧
    (msVisit s a e).next = a.next ++ mNext s e := by
  unfold msVisit mMset mNext
  simp only [h, Bool.false_eq_true, if_false]
  by_cases hn : (s.get e.typ).named = true <;> by_cases hi : e.indirect = true <;>
    by_cases hs : (s.get e.typ).kind = kStruct <;> by_cases hf : (s.get e.typ).kind = kInterface <;>
    simp_all [kStruct, kInterface]

/-- one level of the model walk in closed form: the entries processed are exactly the unseen ones -/
theorem ms_fold (s : St) : ∀ (cur : List Ent) (a : LevelAcc), (cur.map (·.typ)).Nodup →
    (cur.foldl (msVisit s) a).seen = ((cur.filter fun e => !a.seen.contains e.typ).map (·.typ)).reverse ++ a.seen ∧
    (cur.foldl (msVisit s) a).mset = a.mset ++ (cur.filter fun e => !a.seen.contains e.typ).flatMap (mMset s) ∧
    (cur.foldl (msVisit s) a).next = a.next ++ (cur.filter fun e => !a.seen.contains e.typ).flatMap (mNext s)
  | [], a, _ => by simp
  | e :: r, a, hn => by
    simp only [List.map_cons, List.nodup_cons] at hn
    simp only [List.foldl_cons]
    by_cases h : a.seen.contains e.typ = true
    · rw [msVisit_seen s a e h]
      have ih := ms_fold s r a hn.2
      simp only [List.filter_cons, h, Bool.not_true, Bool.false_eq_true, if_false]
      exact ih
    · have h' : a.seen.contains e.typ = false := by simpa using h
      obtain ⟨h1, h2, h3⟩ := msVisit_unseen s a e h'
      have ih := ms_fold s r (msVisit s a e) hn.2
      have hfil : (r.filter fun x => !(msVisit s a e).seen.contains x.typ) = r.filter fun x => !a.seen.contains x.typ := by
        apply List.filter_congr
        intro x hx
        rw [h1]
        have : x.typ ≠ e.typ := fun hh => hn.1 (by rw [← hh]; exact List.mem_map_of_mem hx)
        simp [List.contains_cons, this]
      rw [hfil, h1, h2, h3] at ih
      simp only [List.filter_cons, h', Bool.not_false, if_true, List.map_cons, List.reverse_cons, List.flatMap_cons]
      refine ⟨?_, ?_, ?_⟩
      · rw [ih.1]; simp
      · rw [ih.2.1]; simp
      · rw [ih.2.2]; simp

/-! ## 2. closed form of one level of the reference walk -/

/-- what `sVisit` feeds to `addOne` for an entry it processes: (method, pointer receiver?, indirect?) -/
def sAdds (s : St) (e : SEnt) : List (Method × Bool × Bool) :=
  (if (s.get e.typ).named then (declaredMethods s (ptrOfM s) e.typ).map (fun mp => (mp.1, mp.2, e.indirect)) else []) ++
    (if (s.get e.typ).kind = kInterface then (s.get e.typ).methods.map (fun m => (m, false, true)) else [])

def sFields (s : St) (e : SEnt) : List SelKey :=
  if (s.get e.typ).kind = kStruct then
    (s.get e.typ).fields.map (fun f => (f.name, if f.exported then [] else (s.get e.typ).pkgPath))
  else []

def sNext (s : St) (e : SEnt) : List SEnt :=
  if (s.get e.typ).kind = kStruct then
    ((s.get e.typ).fields.filter (·.embedded)).map fun f =>
      if (s.get f.typ).kind = kPtr ∧ !(s.get f.typ).named then ⟨(s.get f.typ).elem, true, e.multiples⟩
      else ⟨f.typ, e.indirect, e.multiples⟩
  else []

def addOne' (mult : Bool) (t : Tbl) (x : Method × Bool × Bool) : Tbl := addOne t x.1 x.2.1 x.2.2 mult

theorem sVisit_seen (s : St) (a : SLevel) (e : SEnt) (h : ((s.get e.typ).named && a.seen.contains e.typ) = true) :
    sVisit s (ptrOfM s) a e = a := by
  unfold sVisit
  simp only [h, if_true]

theorem sVisit_unseen (s : St) (a : SLevel) (e : SEnt) (h : ((s.get e.typ).named && a.seen.contains e.typ) = false) :
    (sVisit s (ptrOfM s) a e).seen = (if (s.get e.typ).named then e.typ :: a.seen else a.seen) ∧
    (sVisit s (ptrOfM s) a e).mset = (sAdds s e).foldl (addOne' e.multiples) a.mset ∧
    (sVisit s (ptrOfM s) a e).fset = a.fset ++ sFields s e ∧
    (sVisit s (ptrOfM s) a e).next = a.next ++ sNext s e := by
  unfold sVisit sAdds sFields sNext
  simp only [h, Bool.false_eq_true, if_false]
  by_cases hn : (s.get e.typ).named = true <;>
    by_cases hs : (s.get e.typ).kind = kStruct <;> by_cases hf : (s.get e.typ).kind = kInterface <;>
    simp_all [kStruct, kInterface, List.foldl_append, List.foldl_map, addOne']

def sUnseen (s : St) (seen : List Nat) (e : SEnt) : Bool := !((s.get e.typ).named && seen.contains e.typ)

/-- one level of the reference walk in closed form (no entry reached twice: `multiples = false`) -/
theorem s_fold (s : St) : ∀ (cur : List SEnt) (a : SLevel), (cur.map (·.typ)).Nodup → (∀ e ∈ cur, e.multiples = false) →
    (cur.foldl (sVisit s (ptrOfM s)) a).seen =
        (((cur.filter (sUnseen s a.seen)).filter fun e => (s.get e.typ).named).map (·.typ)).reverse ++ a.seen ∧
    (cur.foldl (sVisit s (ptrOfM s)) a).mset = ((cur.filter (sUnseen s a.seen)).flatMap (sAdds s)).foldl (addOne' false) a.mset ∧
    (cur.foldl (sVisit s (ptrOfM s)) a).fset = a.fset ++ (cur.filter (sUnseen s a.seen)).flatMap (sFields s) ∧
    (cur.foldl (sVisit s (ptrOfM s)) a).next = a.next ++ (cur.filter (sUnseen s a.seen)).flatMap (sNext s)
  | [], a, _, _ => by simp
  | e :: r, a, hn, hm => by
    simp only [List.map_cons, List.nodup_cons] at hn
    simp only [List.foldl_cons]
    have hmr : ∀ x ∈ r, x.multiples = false := fun x hx => hm x (List.mem_cons_of_mem _ hx)
    by_cases h : ((s.get e.typ).named && a.seen.contains e.typ) = true
    · rw [sVisit_seen s a e h]
      have ih := s_fold s r a hn.2 hmr
      have : sUnseen s a.seen e = false := by unfold sUnseen; rw [h]; rfl
      simp only [List.filter_cons, this, Bool.false_eq_true, if_false]
      exact ih
    · have h' : ((s.get e.typ).named && a.seen.contains e.typ) = false := by simpa using h
      obtain ⟨h1, h2, h3, h4⟩ := sVisit_unseen s a e h'
      have ih := s_fold s r (sVisit s (ptrOfM s) a e) hn.2 hmr
      have hfil : r.filter (sUnseen s (sVisit s (ptrOfM s) a e).seen) = r.filter (sUnseen s a.seen) := by
        apply List.filter_congr
        intro x hx
        rw [h1]
        have hne : x.typ ≠ e.typ := fun hh => hn.1 (by rw [← hh]; exact List.mem_map_of_mem hx)
        unfold sUnseen
        split <;> simp [hne]
      rw [hfil, h1, h2, h3, h4, hm e (by simp)] at ih
      have hu : sUnseen s a.seen e = true := by unfold sUnseen; rw [h']; rfl
      simp only [List.filter_cons, hu, if_true, List.flatMap_cons, List.foldl_append]
      refine ⟨?_, ih.2.1, ?_, ?_⟩
      · rw [ih.1]
        by_cases hnm : (s.get e.typ).named = true <;> simp [hnm]
      · rw [ih.2.2.1]; simp
      · rw [ih.2.2.2]; simp

/-! ## 3. tables -/

theorem has_iff (t : Tbl) (k : SelKey) : t.has k = true ↔ ∃ v, (k, v) ∈ t := by
  simp only [Tbl.has, List.any_eq_true, beq_iff_eq]
  constructor
  · rintro ⟨⟨k', v⟩, he, rfl⟩; exact ⟨v, he⟩
  · rintro ⟨v, he⟩; exact ⟨(k, v), he, rfl⟩

theorem has_false_iff (t : Tbl) (k : SelKey) : t.has k = false ↔ ∀ v, (k, v) ∉ t := by
  rw [← Bool.not_eq_true, has_iff]; simp

theorem put_new (t : Tbl) (k : SelKey) (v : Option Method) (h : t.has k = false) : t.put k v = t ++ [(k, v)] := by
  simp [Tbl.put, h]

/-- the table entry `addOne` makes for a fresh key -/
def entOf (x : Method × Bool × Bool) : SelKey × Option Method :=
  (mkey x.1, if (x.2.2 || !x.2.1) then some x.1 else none)

theorem foldl_addOne : ∀ (l : List (Method × Bool × Bool)) (t : Tbl),
    (t.map (·.1) ++ l.map (fun x => mkey x.1)).Nodup → l.foldl (addOne' false) t = t ++ l.map entOf
  | [], t, _ => by simp
  | x :: r, t, hn => by
    have hh : t.has (mkey x.1) = false := by
      rw [has_false_iff]
      intro v hv
      rw [List.nodup_append] at hn
      exact hn.2.2 (mkey x.1) (List.mem_map_of_mem (f := (·.1)) hv) (mkey x.1) (by simp) rfl
    have step : addOne' false t x = t ++ [entOf x] := by
      obtain ⟨m, pr, ind⟩ := x
      have hh' : t.has (m.name, m.pkg) = false := hh
      unfold addOne' addOne entOf
      simp only [Bool.not_false, Bool.true_and, hh', mkey]
      by_cases hc : (ind || !pr) = true
      · simp [hc, put_new _ _ _ hh']
      · have : (ind || !pr) = false := by simpa using hc
        simp [this, put_new _ _ _ hh']
    simp only [List.foldl_cons, step]
    rw [foldl_addOne r _ (by simpa [List.map_append, entOf] using hn)]
    simp

/-- `consolidateMultiples` changes nothing when no type occurs twice -/
theorem consolidate_nodup : ∀ (l acc : List SEnt), ((acc ++ l).map (·.typ)).Nodup → consolidate acc l = acc ++ l
  | [], acc, _ => by simp [consolidate]
  | e :: r, acc, hn => by
    have hnot : acc.any (fun x => x.typ == e.typ) = false := by
      rw [List.any_eq_false]
      intro x hx hxe
      simp only [List.map_append, List.map_cons] at hn
      rw [List.nodup_append] at hn
      exact hn.2.2 x.typ (List.mem_map_of_mem hx) e.typ (by simp) (by simpa using hxe)
    simp only [consolidate, hnot, Bool.false_eq_true, if_false]
    rw [consolidate_nodup r (acc ++ [e]) (by simpa using hn)]
    simp

theorem has_append (t : Tbl) (k k' : SelKey) (v : Option Method) : Tbl.has (t ++ [(k, v)]) k' = (t.has k' || k == k') := by
  simp [Tbl.has, List.any_append]

/-- membership in the result of the method pass of `mergeLevel` -/
theorem tfold_mem (F : List SelKey) : ∀ (T B : Tbl), (T.map (·.1)).Nodup → ∀ (k : SelKey) (v : Option Method),
    (k, v) ∈ T.foldl (fun b e => if b.has e.1 then b else b ++ [(e.1, if F.contains e.1 then none else e.2)]) B ↔
      (k, v) ∈ B ∨ (B.has k = false ∧ ∃ v0, (k, v0) ∈ T ∧ v = if F.contains k then none else v0)
  | [], B, _, k, v => by simp
  | e :: T', B, hn, k, v => by
    obtain ⟨ek, ev⟩ := e
    simp only [List.map_cons, List.nodup_cons] at hn
    have hne : ∀ v0, (k, v0) ∈ T' → k ≠ ek := fun v0 h0 hk => hn.1 (by rw [← hk]; exact List.mem_map_of_mem (f := (·.1)) h0)
    simp only [List.foldl_cons]
    by_cases hb : B.has ek = true
    · simp only [hb, if_true]
      rw [tfold_mem F T' B hn.2 k v]
      constructor
      · rintro (h | ⟨h1, v0, h2, h3⟩)
        · exact Or.inl h
        · exact Or.inr ⟨h1, v0, List.mem_cons_of_mem _ h2, h3⟩
      · rintro (h | ⟨h1, v0, h2, h3⟩)
        · exact Or.inl h
        · rcases List.mem_cons.mp h2 with h2 | h2
          · simp only [Prod.mk.injEq] at h2
            rw [h2.1, hb] at h1; cases h1
          · exact Or.inr ⟨h1, v0, h2, h3⟩
    · have hb' : B.has ek = false := by simpa using hb
      simp only [hb', Bool.false_eq_true, if_false]
      rw [tfold_mem F T' _ hn.2 k v]
      simp only [List.mem_append, List.mem_singleton, Prod.mk.injEq, has_append, Bool.or_eq_false_iff, beq_eq_false_iff_ne]
      constructor
      · rintro ((h | ⟨rfl, rfl⟩) | ⟨⟨h1, _⟩, v0, h2, h3⟩)
        · exact Or.inl h
        · exact Or.inr ⟨hb', ev, List.mem_cons_self, rfl⟩
        · exact Or.inr ⟨h1, v0, List.mem_cons_of_mem _ h2, h3⟩
      · rintro (h | ⟨h1, v0, h2, h3⟩)
        · exact Or.inl (Or.inl h)
        · rcases List.mem_cons.mp h2 with h2 | h2
          · simp only [Prod.mk.injEq] at h2
            obtain ⟨rfl, rfl⟩ := h2
            exact Or.inl (Or.inr ⟨rfl, h3⟩)
          · exact Or.inr ⟨⟨h1, fun hh => hne v0 h2 hh.symm⟩, v0, h2, h3⟩

/-- membership in the result of the field pass of `mergeLevel` -/
theorem ffold_mem : ∀ (F : List SelKey) (B : Tbl) (k : SelKey) (v : Option Method),
    (k, v) ∈ F.foldl (fun b q => if b.has q then b else b ++ [(q, none)]) B ↔
      (k, v) ∈ B ∨ (v = none ∧ k ∈ F ∧ B.has k = false)
  | [], B, k, v => by simp
  | q :: F', B, k, v => by
    simp only [List.foldl_cons]
    by_cases hb : B.has q = true
    · simp only [hb, if_true]
      rw [ffold_mem F' B k v]
      constructor
      · rintro (h | ⟨h1, h2, h3⟩)
        · exact Or.inl h
        · exact Or.inr ⟨h1, List.mem_cons_of_mem _ h2, h3⟩
      · rintro (h | ⟨h1, h2, h3⟩)
        · exact Or.inl h
        · rcases List.mem_cons.mp h2 with rfl | h2
          · rw [hb] at h3; cases h3
          · exact Or.inr ⟨h1, h2, h3⟩
    · have hb' : B.has q = false := by simpa using hb
      simp only [hb', Bool.false_eq_true, if_false]
      rw [ffold_mem F' _ k v]
      simp only [List.mem_append, List.mem_singleton, Prod.mk.injEq, has_append, Bool.or_eq_false_iff, beq_eq_false_iff_ne]
      constructor
      · rintro ((h | ⟨rfl, rfl⟩) | ⟨h1, h2, h3, _⟩)
        · exact Or.inl h
        · exact Or.inr ⟨rfl, List.mem_cons_self, hb'⟩
        · exact Or.inr ⟨h1, List.mem_cons_of_mem _ h2, h3⟩
      · rintro (h | ⟨rfl, h2, h3⟩)
        · exact Or.inl (Or.inl h)
        · by_cases hq : q = k
          · exact Or.inl (Or.inr ⟨hq.symm, rfl⟩)
          · rcases List.mem_cons.mp h2 with rfl | h2
            · exact absurd rfl hq
            · exact Or.inr ⟨rfl, h2, h3, hq⟩

theorem merge_some (B T : Tbl) (F : List SelKey) (hT : (T.map (·.1)).Nodup) (k : SelKey) (m : Method) :
    (k, some m) ∈ mergeLevel B T F ↔ (k, some m) ∈ B ∨ (B.has k = false ∧ F.contains k = false ∧ (k, some m) ∈ T) := by
  unfold mergeLevel
  rw [ffold_mem, tfold_mem F T B hT]
  constructor
  · rintro ((h | ⟨h1, v0, h2, h3⟩) | ⟨h, _⟩)
    · exact Or.inl h
    · by_cases hc : F.contains k = true
      · rw [if_pos hc] at h3; cases h3
      · have hc' : F.contains k = false := by simpa using hc
        simp only [hc', Bool.false_eq_true, if_false] at h3
        exact Or.inr ⟨h1, hc', h3 ▸ h2⟩
    · cases h
  · rintro (h | ⟨h1, h2, h3⟩)
    · exact Or.inl (Or.inl h)
    · exact Or.inl (Or.inr ⟨h1, some m, h3, by simp only [h2, Bool.false_eq_true, if_false]⟩)

theorem merge_none (B T : Tbl) (F : List SelKey) (hT : (T.map (·.1)).Nodup) (k : SelKey) :
    (k, none) ∈ mergeLevel B T F → (k, none) ∈ B ∨ k ∈ F ∨ (k, none) ∈ T := by
  unfold mergeLevel
  rw [ffold_mem, tfold_mem F T B hT]
  rintro ((h | ⟨_, v0, h2, h3⟩) | ⟨_, h, _⟩)
  · exact Or.inl h
  · by_cases hc : F.contains k = true
    · exact Or.inr (Or.inl (by simpa using hc))
    · have hc' : F.contains k = false := by simpa using hc
      simp only [hc', Bool.false_eq_true, if_false] at h3
      exact Or.inr (Or.inr (h3 ▸ h2))
  · exact Or.inr (Or.inl h)

/-- membership in `addBase` when equal names in `mset` mean equal methods -/
theorem addBase_mem : ∀ (mset B : List Method), (∀ a ∈ mset, ∀ b ∈ mset, a.name = b.name → a = b) → ∀ m,
    m ∈ addBase B mset ↔ m ∈ B ∨ (m ∈ mset ∧ ∀ x ∈ B, x.name ≠ m.name)
  | [], B, _, m => by simp [addBase]
  | a :: r, B, hf, m => by
    have hfr : ∀ x ∈ r, ∀ y ∈ r, x.name = y.name → x = y :=
      fun x hx y hy => hf x (List.mem_cons_of_mem _ hx) y (List.mem_cons_of_mem _ hy)
    have step : addBase B (a :: r) = addBase (if B.any (fun x => x.name == a.name) then B else B ++ [a]) r := by
      simp [addBase]
    rw [step]
    by_cases hb : B.any (fun x => x.name == a.name) = true
    · simp only [hb, if_true]
      rw [addBase_mem r B hfr m]
      obtain ⟨x, hx, hxa⟩ := List.any_eq_true.mp hb
      have hxa' : x.name = a.name := by simpa using hxa
      constructor
      · rintro (h | ⟨h1, h2⟩)
        · exact Or.inl h
        · exact Or.inr ⟨List.mem_cons_of_mem _ h1, h2⟩
      · rintro (h | ⟨h1, h2⟩)
        · exact Or.inl h
        · rcases List.mem_cons.mp h1 with rfl | h1
          · exact absurd hxa' (h2 x hx)
          · exact Or.inr ⟨h1, h2⟩
    · have hb' : ∀ x ∈ B, x.name ≠ a.name := by
        intro x hx hxa
        exact hb (List.any_eq_true.mpr ⟨x, hx, by simpa using hxa⟩)
      simp only [hb, Bool.false_eq_true, if_false]
      rw [addBase_mem r _ hfr m]
      simp only [List.mem_append, List.mem_singleton]
      constructor
      · rintro ((h | rfl) | ⟨h1, h2⟩)
        · exact Or.inl h
        · exact Or.inr ⟨List.mem_cons_self, hb'⟩
        · exact Or.inr ⟨List.mem_cons_of_mem _ h1, fun x hx => h2 x (Or.inl hx)⟩
      · rintro (h | ⟨h1, h2⟩)
        · exact Or.inl (Or.inl h)
        · rcases List.mem_cons.mp h1 with rfl | h1
          · exact Or.inl (Or.inr rfl)
          · by_cases hn : a.name = m.name
            · have := hf a List.mem_cons_self m (List.mem_cons_of_mem _ h1) hn
              exact Or.inl (Or.inr this.symm)
            · refine Or.inr ⟨h1, ?_⟩
              rintro x (hx | rfl)
              · exact h2 x hx
              · exact hn

/-! ## 4. the hypotheses, and how the two walks see one entry -/

def lift (e : Ent) : SEnt := ⟨e.typ, e.indirect, false⟩

/-- the methods declared at a type, as both walks can meet them -/
def declM (s : St) (u : Nat) : List Method :=
  if (s.get u).kind = kInterface then (s.get u).methods
  else if (s.get u).named then (s.get u).methods ++ ptrMethods s u else []

/-- the types embedded in `u` (pointers dereferenced) -/
def succIds (s : St) (u : Nat) : List Nat :=
  if (s.get u).kind = kStruct then
    ((s.get u).fields.filter (·.embedded)).map fun f => if (s.get f.typ).kind = kPtr then (s.get f.typ).elem else f.typ
  else []

/-- `U` is a set of types that contains the embedding closure and on which the recorded defects of `$methodSet` cannot show:
    well-formed embedding (Go syntax), one package qualifier per method name (`pkgname`), no field named like a method
    (`fieldhide`), and pointer-receiver method names not reused by other types (`ptrshadow`). -/
structure CleanOn (s : St) (U : List Nat) : Prop where
  closed : ∀ u ∈ U, ∀ v ∈ succIds s u, v ∈ U
  embwf : ∀ u ∈ U, (s.get u).kind = kStruct → ∀ f ∈ (s.get u).fields, f.embedded = true →
    (if (s.get f.typ).kind = kPtr then (s.get f.typ).named = false ∧ (s.get (s.get f.typ).elem).named = true
     else (s.get f.typ).named = true)
  ifaceptr : ∀ u ∈ U, (s.get u).kind = kInterface → ptrMethods s u = []
  pkg : ∀ u ∈ U, ∀ v ∈ U, ∀ m ∈ declM s u, ∀ m' ∈ declM s v, m.name = m'.name → m.pkg = m'.pkg
  field : ∀ u ∈ U, (s.get u).kind = kStruct → ∀ f ∈ (s.get u).fields, ∀ v ∈ U, ∀ m ∈ declM s v, f.name ≠ m.name
  ptr : ∀ u ∈ U, (s.get u).named = true → (s.get u).kind ≠ kInterface → ∀ m ∈ ptrMethods s u,
    ∀ v ∈ U, ∀ m' ∈ declM s v, m'.name = m.name → v = u

theorem mNext_typ (s : St) (e : Ent) : (mNext s e).map (·.typ) = succIds s e.typ := by
  unfold mNext succIds
  split
  · simp only [List.map_map]
    apply List.map_congr_left
    intro f _
    simp only [Function.comp]
    split <;> rfl
  · rfl

theorem declared_eq (s : St) (t : Nat) :
    declaredMethods s (ptrOfM s) t = if (s.get t).kind = kInterface then [] else
      (s.get t).methods.map (fun m => (m, false)) ++ (ptrMethods s t).map (fun m => (m, true)) := by
  unfold declaredMethods ptrMethods ptrOfM
  cases s.cache.lookup (cPtr, dec t) <;> by_cases hk : (s.get t).kind = kInterface <;> simp [hk]

/-- both walks meet the same declared methods at an entry -/
theorem sAdds_methods (s : St) (e : Ent) : (sAdds s (lift e)).map (·.1) = declM s e.typ := by
  unfold sAdds declM lift
  simp only [declared_eq]
  by_cases hf : (s.get e.typ).kind = kInterface <;> by_cases hn : (s.get e.typ).named = true <;>
    simp [hf, hn, List.map_append, Function.comp_def]

/-- the model collects exactly the methods the reference walk counts as members (receiver rule) -/
theorem mMset_real (s : St) (U : List Nat) (h : CleanOn s U) (e : Ent) (he : e.typ ∈ U) (m : Method) :
    m ∈ mMset s e ↔ ∃ x ∈ sAdds s (lift e), x.1 = m ∧ (x.2.2 || !x.2.1) = true := by
  unfold mMset sAdds lift
  simp only [declared_eq]
  by_cases hf : (s.get e.typ).kind = kInterface
  · have hp := h.ifaceptr e.typ he hf
    by_cases hn : (s.get e.typ).named = true <;> simp [hf, hn, hp]
  · by_cases hn : (s.get e.typ).named = true <;> by_cases hi : e.indirect = true <;>
      simp [hf, hn, hi]

/-- an entry the reference walk records as a non-member is a pointer-receiver method reached without indirection -/
theorem sAdds_blocked (s : St) (e : Ent) (x : Method × Bool × Bool) (hx : x ∈ sAdds s (lift e))
    (hr : (x.2.2 || !x.2.1) = false) :
    (s.get e.typ).named = true ∧ (s.get e.typ).kind ≠ kInterface ∧ x.1 ∈ ptrMethods s e.typ := by
  unfold sAdds lift at hx
  simp only [declared_eq] at hx
  by_cases hf : (s.get e.typ).kind = kInterface <;> by_cases hn : (s.get e.typ).named = true <;>
    simp [hf, hn] at hx
  · obtain ⟨m, _, rfl⟩ := hx; simp at hr
  · obtain ⟨m, _, rfl⟩ := hx; simp at hr
  · rcases hx with ⟨m, _, rfl⟩ | ⟨m, hm, rfl⟩
    · simp at hr
    · exact ⟨hn, hf, hm⟩

theorem sNext_lift (s : St) (U : List Nat) (h : CleanOn s U) (e : Ent) (he : e.typ ∈ U) :
    sNext s (lift e) = (mNext s e).map lift := by
  unfold sNext mNext lift
  by_cases hs : (s.get e.typ).kind = kStruct
  · simp only [hs, if_true, List.map_map]
    apply List.map_congr_left
    intro f hf
    have hf' := List.mem_filter.mp hf
    have hw := h.embwf e.typ he hs f hf'.1 hf'.2
    simp only [Function.comp]
    by_cases hp : (s.get f.typ).kind = kPtr
    · simp only [hp, if_true] at hw
      simp [hp, hw.1]
    · simp [hp]
  · simp [hs]

/-- successors are named types -/
theorem mNext_named (s : St) (U : List Nat) (h : CleanOn s U) (e : Ent) (he : e.typ ∈ U) :
    ∀ x ∈ mNext s e, (s.get x.typ).named = true := by
  unfold mNext
  by_cases hs : (s.get e.typ).kind = kStruct
  · simp only [hs, if_true, List.mem_map]
    rintro x ⟨f, hf, rfl⟩
    have hf' := List.mem_filter.mp hf
    have hw := h.embwf e.typ he hs f hf'.1 hf'.2
    by_cases hp : (s.get f.typ).kind = kPtr
    · simp only [hp, if_true] at hw ⊢; exact hw.2
    · simp only [hp, if_false] at hw ⊢; exact hw
  · simp [hs]

theorem sFields_name (s : St) (e : Ent) (k : SelKey) (hk : k ∈ sFields s (lift e)) :
    (s.get e.typ).kind = kStruct ∧ ∃ f ∈ (s.get e.typ).fields, k.1 = f.name := by
  unfold sFields lift at hk
  by_cases hs : (s.get e.typ).kind = kStruct
  · simp only [hs, if_true, List.mem_map] at hk
    obtain ⟨f, hf, rfl⟩ := hk
    exact ⟨hs, f, hf, rfl⟩
  · simp [hs] at hk

/-! ## 5. one level preserves the invariant -/

theorem nodup_of_comp {α β γ : Type} (f : α → β) (g : β → γ) : ∀ (l : List α),
    (l.map (fun x => g (f x))).Nodup → (l.map f).Nodup
  | [], _ => by simp
  | a :: l, h => by
    simp only [List.map_cons, List.nodup_cons] at h ⊢
    refine ⟨?_, nodup_of_comp f g l h.2⟩
    intro hm
    apply h.1
    simp only [List.mem_map] at hm ⊢
    obtain ⟨x, hx, hxe⟩ := hm
    exact ⟨x, hx, by rw [hxe]⟩

theorem inj_of_nodup_map {α β : Type} (f : α → β) : ∀ (l : List α), (l.map f).Nodup →
    ∀ a ∈ l, ∀ b ∈ l, f a = f b → a = b
  | [], _, a, ha, _, _, _ => by cases ha
  | x :: l, h, a, ha, b, hb, hab => by
    simp only [List.map_cons, List.nodup_cons] at h
    rcases List.mem_cons.mp ha with rfl | ha' <;> rcases List.mem_cons.mp hb with rfl | hb'
    · rfl
    · exact absurd (by rw [hab]; exact List.mem_map_of_mem hb') h.1
    · exact absurd (by rw [← hab]; exact List.mem_map_of_mem ha') h.1
    · exact inj_of_nodup_map f l h.2 a ha' b hb' hab

/-- what links the two `base` tables between levels -/
structure Inv (s : St) (U : List Nat) (mseen : List Nat) (baseM : List Method) (baseS : Tbl) : Prop where
  j1 : ∀ m ∈ baseM, (mkey m, some m) ∈ baseS
  j2 : ∀ k m, (k, some m) ∈ baseS → k = mkey m ∧ m ∈ baseM
  j3 : ∀ m ∈ baseM, ∃ u ∈ U, m ∈ declM s u
  j4 : ∀ k, (k, none) ∈ baseS → ∀ v ∈ U, v ∉ mseen → ∀ m' ∈ declM s v, m'.name ≠ k.1

theorem inv_final (s : St) (U : List Nat) (mseen : List Nat) (baseM : List Method) (baseS : Tbl)
    (inv : Inv s U mseen baseM baseS) (m : Method) : m ∈ baseM ↔ m ∈ baseS.filterMap (·.2) := by
  simp only [List.mem_filterMap]
  constructor
  · intro h; exact ⟨(mkey m, some m), inv.j1 m h, rfl⟩
  · rintro ⟨⟨k, v⟩, he, hv⟩
    simp only at hv
    subst hv
    exact (inv.j2 k m he).2

theorem level_step (s : St) (U : List Nat) (h : CleanOn s U) (proc : List Ent) (mseen : List Nat)
    (baseM : List Method) (baseS : Tbl)
    (hU : ∀ e ∈ proc, e.typ ∈ U) (hun : ∀ e ∈ proc, e.typ ∉ mseen)
    (hnames : ((proc.flatMap fun e => declM s e.typ).map (·.name)).Nodup)
    (inv : Inv s U mseen baseM baseS) :
    Inv s U ((proc.map (·.typ)).reverse ++ mseen) (addBase baseM (proc.flatMap (mMset s)))
      (mergeLevel baseS ((proc.flatMap fun e => sAdds s (lift e)).map entOf) (proc.flatMap fun e => sFields s (lift e))) := by
  -- the list of additions and its properties
  have hLm : (proc.flatMap fun e => sAdds s (lift e)).map (·.1) = proc.flatMap fun e => declM s e.typ := by
    rw [List.map_flatMap]
    congr 1
    funext e
    exact sAdds_methods s e
  have hLn : ((proc.flatMap fun e => sAdds s (lift e)).map (fun x => x.1.name)).Nodup := by
    have : (proc.flatMap fun e => sAdds s (lift e)).map (fun x => x.1.name) =
        ((proc.flatMap fun e => sAdds s (lift e)).map (·.1)).map (·.name) := by simp [List.map_map, Function.comp_def]
    rw [this, hLm]; exact hnames
  have hLinj := inj_of_nodup_map (fun x : Method × Bool × Bool => x.1.name) _ hLn
  have hT : (((proc.flatMap fun e => sAdds s (lift e)).map entOf).map (·.1)).Nodup := by
    have : ((proc.flatMap fun e => sAdds s (lift e)).map entOf).map (·.1) =
        (proc.flatMap fun e => sAdds s (lift e)).map (fun x => mkey x.1) := by simp [List.map_map, Function.comp_def, entOf]
    rw [this]
    exact nodup_of_comp (fun x : Method × Bool × Bool => mkey x.1) (fun k => k.1) _ hLn
  -- members of the model's `mset`
  have hmem : ∀ m, m ∈ proc.flatMap (mMset s) ↔
      ∃ e ∈ proc, ∃ x ∈ sAdds s (lift e), x.1 = m ∧ (x.2.2 || !x.2.1) = true := by
    intro m
    simp only [List.mem_flatMap]
    constructor
    · rintro ⟨e, he, hm⟩; exact ⟨e, he, (mMset_real s U h e (hU e he) m).mp hm⟩
    · rintro ⟨e, he, hx⟩; exact ⟨e, he, (mMset_real s U h e (hU e he) m).mpr hx⟩
  have hdecl : ∀ e ∈ proc, ∀ x ∈ sAdds s (lift e), x.1 ∈ declM s e.typ := by
    intro e _ x hx
    rw [← sAdds_methods s e]
    exact List.mem_map_of_mem hx
  have hfun : ∀ a ∈ proc.flatMap (mMset s), ∀ b ∈ proc.flatMap (mMset s), a.name = b.name → a = b := by
    intro a ha b hb hab
    obtain ⟨e1, he1, x1, hx1, rfl, _⟩ := (hmem a).mp ha
    obtain ⟨e2, he2, x2, hx2, rfl, _⟩ := (hmem b).mp hb
    have := hLinj x1 (List.mem_flatMap.mpr ⟨e1, he1, hx1⟩) x2 (List.mem_flatMap.mpr ⟨e2, he2, hx2⟩) hab
    rw [this]
  have hfield : ∀ k ∈ proc.flatMap (fun e => sFields s (lift e)), ∀ v ∈ U, ∀ m' ∈ declM s v, m'.name ≠ k.1 := by
    intro k hk v hv m' hm'
    obtain ⟨e, he, hke⟩ := List.mem_flatMap.mp hk
    obtain ⟨hs, f, hf, hkf⟩ := sFields_name s e k hke
    rw [hkf]
    exact fun hh => h.field e.typ (hU e he) hs f hf v hv m' hm' hh.symm
  constructor
  · -- j1
    intro m hm
    rw [merge_some _ _ _ hT]
    rcases (addBase_mem _ _ hfun m).mp hm with hb | ⟨hms, hne⟩
    · exact Or.inl (inv.j1 m hb)
    · obtain ⟨e, he, x, hx, rfl, hr⟩ := (hmem m).mp hms
      refine Or.inr ⟨?_, ?_, ?_⟩
      · rw [has_false_iff]
        intro v hv
        cases v with
        | some y =>
          have := inv.j2 _ y hv
          have hname : y.name = x.1.name := by have := congrArg Prod.fst this.1; simpa [mkey] using this.symm
          exact hne y this.2 hname
        | none =>
          exact inv.j4 _ hv e.typ (hU e he) (hun e he) x.1 (hdecl e he x hx) rfl
      · rw [← Bool.not_eq_true, List.contains_iff_mem]
        intro hk
        exact hfield _ hk e.typ (hU e he) x.1 (hdecl e he x hx) rfl
      · refine List.mem_map.mpr ⟨x, List.mem_flatMap.mpr ⟨e, he, hx⟩, ?_⟩
        simp [entOf, hr]
  · -- j2
    intro k m hk
    rw [merge_some _ _ _ hT] at hk
    rcases hk with hb | ⟨hhas, _, hTm⟩
    · have := inv.j2 k m hb
      exact ⟨this.1, (addBase_mem _ _ hfun m).mpr (Or.inl this.2)⟩
    · obtain ⟨x, hxL, hxe⟩ := List.mem_map.mp hTm
      obtain ⟨e, he, hx⟩ := List.mem_flatMap.mp hxL
      have hr : (x.2.2 || !x.2.1) = true := by
        by_cases hr : (x.2.2 || !x.2.1) = true
        · exact hr
        · simp [entOf, hr] at hxe
      simp only [entOf, hr, if_true, Prod.mk.injEq, Option.some.injEq] at hxe
      obtain ⟨rfl, rfl⟩ := hxe
      refine ⟨rfl, (addBase_mem _ _ hfun _).mpr (Or.inr ⟨(hmem _).mpr ⟨e, he, x, hx, rfl, hr⟩, ?_⟩)⟩
      intro y hy hyn
      obtain ⟨u, hu, hyu⟩ := inv.j3 y hy
      have hp := h.pkg u hu e.typ (hU e he) y hyu x.1 (hdecl e he x hx) hyn
      have : mkey y = mkey x.1 := by simp [mkey, hyn, hp]
      have hin := inv.j1 y hy
      rw [this] at hin
      rw [has_false_iff] at hhas
      exact hhas _ hin
  · -- j3
    intro m hm
    rcases (addBase_mem _ _ hfun m).mp hm with hb | ⟨hms, _⟩
    · exact inv.j3 m hb
    · obtain ⟨e, he, x, hx, rfl, _⟩ := (hmem m).mp hms
      exact ⟨e.typ, hU e he, hdecl e he x hx⟩
  · -- j4
    intro k hk v hv hvs m' hm'
    have hvs' : v ∉ mseen := fun hh => hvs (List.mem_append_right _ hh)
    rcases merge_none _ _ _ hT k hk with hb | hF | hTn
    · exact inv.j4 k hb v hv hvs' m' hm'
    · exact hfield k hF v hv m' hm'
    · obtain ⟨x, hxL, hxe⟩ := List.mem_map.mp hTn
      obtain ⟨e, he, hx⟩ := List.mem_flatMap.mp hxL
      have hr : (x.2.2 || !x.2.1) = false := by
        by_cases hr : (x.2.2 || !x.2.1) = true
        · simp [entOf, hr] at hxe
        · simpa using hr
      simp only [entOf, hr, Bool.false_eq_true, if_false, Prod.mk.injEq, and_true] at hxe
      obtain ⟨hn, hk', hp⟩ := sAdds_blocked s e x hx hr
      intro hname
      have hve : v = e.typ := h.ptr e.typ (hU e he) hn hk' x.1 hp v hv m' hm' (by rw [hname, ← hxe]; rfl)
      apply hvs
      rw [hve]
      exact List.mem_append_left _ (List.mem_reverse.mpr (List.mem_map_of_mem he))

/-! ## 6. the two loops, level by level -/

/-- the walk-dependent part of the hypothesis ("no ambiguous selector at its depth"): at every depth no type is reached
    twice (no diamond) and no method name is declared twice among the types first reached at that depth -/
def WalkClean (s : St) : Nat → List Ent → List Nat → Prop
  | 0, _, _ => True
  | f + 1, cur, seen =>
    (cur.map (·.typ)).Nodup ∧
    (((cur.filter fun e => !seen.contains e.typ).flatMap fun e => declM s e.typ).map (·.name)).Nodup ∧
    WalkClean s f ((cur.filter fun e => !seen.contains e.typ).flatMap (mNext s))
      (((cur.filter fun e => !seen.contains e.typ).map (·.typ)).reverse ++ seen)

instance (s : St) : ∀ (f : Nat) (cur : List Ent) (seen : List Nat), Decidable (WalkClean s f cur seen)
  | 0, _, _ => isTrue trivial
  | f + 1, cur, seen =>
    have := instDecidableWalkClean s f ((cur.filter fun e => !seen.contains e.typ).flatMap (mNext s))
      (((cur.filter fun e => !seen.contains e.typ).map (·.typ)).reverse ++ seen)
    by unfold WalkClean; infer_instance

theorem msLoop_nil (s : St) (f : Nat) (seen : List Nat) (base : List Method) (al : List Nat) :
    msLoop s f [] seen base al = (base, al) := by cases f <;> rfl

theorem sLoop_nil (s : St) (p : Nat → Option Nat) (f : Nat) (seen : List Nat) (base : Tbl) :
    sLoop s p f [] seen base = base := by cases f <;> rfl

theorem flatMap_congr' {α β : Type} {f g : α → List β} : ∀ (l : List α), (∀ x ∈ l, f x = g x) → l.flatMap f = l.flatMap g
  | [], _ => rfl
  | a :: l, h => by
    simp only [List.flatMap_cons]
    rw [h a (by simp), flatMap_congr' l (fun x hx => h x (by simp [hx]))]

theorem loops_agree (s : St) (U : List Nat) (h : CleanOn s U) : ∀ (f : Nat) (cur : List Ent) (mseen sseen : List Nat)
    (baseM : List Method) (baseS : Tbl) (al : List Nat),
    WalkClean s f cur mseen → (∀ e ∈ cur, e.typ ∈ U) →
    (∀ e ∈ cur, (s.get e.typ).named = true ∨ e.typ ∉ mseen) →
    (∀ i, (s.get i).named = true → (i ∈ sseen ↔ i ∈ mseen)) → Inv s U mseen baseM baseS →
    ∀ m, m ∈ (msLoop s f cur mseen baseM al).1 ↔ m ∈ (sLoop s (ptrOfM s) f (cur.map lift) sseen baseS).filterMap (·.2)
  | 0, cur, mseen, sseen, baseM, baseS, al, _, _, _, _, inv => by
    intro m
    simp only [msLoop, sLoop]
    exact inv_final s U mseen baseM baseS inv m
  | f + 1, [], mseen, sseen, baseM, baseS, al, _, _, _, _, inv => by
    intro m
    simp only [msLoop, sLoop, List.map_nil]
    exact inv_final s U mseen baseM baseS inv m
  | f + 1, e0 :: r0, mseen, sseen, baseM, baseS, al, hw, hU, hnamed, hseen, inv => by
    intro m
    obtain ⟨hnd, hnames, hwnext⟩ := hw
    -- the model level
    have hmf := ms_fold s (e0 :: r0) { seen := mseen, mset := [], next := [], allocs := al } hnd
    simp only [List.nil_append] at hmf
    -- the reference level
    have hnd' : (((e0 :: r0).map lift).map (·.typ)).Nodup := by
      have : ((e0 :: r0).map lift).map (·.typ) = (e0 :: r0).map (·.typ) := by simp [List.map_map, Function.comp_def, lift]
      rw [this]; exact hnd
    have hmult : ∀ e ∈ (e0 :: r0).map lift, e.multiples = false := by
      intro e he; obtain ⟨x, _, rfl⟩ := List.mem_map.mp he; rfl
    have hsf := s_fold s ((e0 :: r0).map lift) { seen := sseen, mset := [], fset := [], next := [] } hnd' hmult
    simp only [List.nil_append] at hsf
    -- the same entries are processed
    have hproc : ((e0 :: r0).map lift).filter (sUnseen s sseen) =
        ((e0 :: r0).filter fun e => !mseen.contains e.typ).map lift := by
      rw [List.filter_map]
      congr 1
      apply List.filter_congr
      intro e he
      simp only [Function.comp, sUnseen, lift]
      by_cases hn' : (s.get e.typ).named = true
      · have := hseen e.typ hn'
        by_cases hc : e.typ ∈ mseen
        · have hc2 := this.mpr hc
          simp [hn', hc, hc2]
        · have hc2 : e.typ ∉ sseen := fun hh => hc (this.mp hh)
          simp [hn', hc, hc2]
      · have hc : e.typ ∉ mseen := (hnamed e he).resolve_left hn'
        simp [hn', hc]
    generalize hp : ((e0 :: r0).filter fun e => !mseen.contains e.typ) = proc at hmf hproc hnames hwnext
    have hpU : ∀ e ∈ proc, e.typ ∈ U := by
      intro e he; rw [← hp] at he; exact hU e (List.mem_filter.mp he).1
    have hpun : ∀ e ∈ proc, e.typ ∉ mseen := by
      intro e he; rw [← hp] at he
      have := (List.mem_filter.mp he).2
      simpa using this
    rw [hproc] at hsf
    have hadds : (proc.map lift).flatMap (sAdds s) = proc.flatMap fun e => sAdds s (lift e) := by
      rw [List.flatMap_map]
    have hflds : (proc.map lift).flatMap (sFields s) = proc.flatMap fun e => sFields s (lift e) := by
      rw [List.flatMap_map]
    have hnext : (proc.map lift).flatMap (sNext s) = (proc.flatMap (mNext s)).map lift := by
      rw [List.flatMap_map, List.map_flatMap]
      apply flatMap_congr'
      intro e he
      exact sNext_lift s U h e (hpU e he)
    -- keys of this level are fresh in the empty per-level table
    have hLn : ((proc.flatMap fun e => sAdds s (lift e)).map (fun x => x.1.name)).Nodup := by
      have h1 : (proc.flatMap fun e => sAdds s (lift e)).map (·.1) = proc.flatMap fun e => declM s e.typ := by
        rw [List.map_flatMap]; congr 1; funext e; exact sAdds_methods s e
      have h2 : (proc.flatMap fun e => sAdds s (lift e)).map (fun x => x.1.name) =
          ((proc.flatMap fun e => sAdds s (lift e)).map (·.1)).map (·.name) := by simp [List.map_map, Function.comp_def]
      rw [h2, h1]; exact hnames
    have hmsetS := foldl_addOne (proc.flatMap fun e => sAdds s (lift e)) []
      (by simpa using nodup_of_comp (fun x : Method × Bool × Bool => mkey x.1) (fun k => k.1) _ hLn)
    simp only [List.nil_append] at hmsetS
    rw [hadds, hmsetS, hflds, hnext] at hsf
    -- the invariant after this level
    have inv' := level_step s U h proc mseen baseM baseS hpU hpun hnames inv
    -- unfold both loops one step
    simp only [msLoop, sLoop, List.map_cons]
    have hcons : lift e0 :: List.map lift r0 = (e0 :: r0).map lift := rfl
    rw [hcons, hmf.1, hmf.2.1, hmf.2.2, hsf.1, hsf.2.1, hsf.2.2.1, hsf.2.2.2]
    cases f with
    | zero =>
      simp only [msLoop, sLoop]
      exact inv_final s U _ _ _ inv' m
    | succ f' =>
      have hndn : ((proc.flatMap (mNext s)).map (·.typ)).Nodup := hwnext.1
      have hcons2 : consolidate [] ((proc.flatMap (mNext s)).map lift) = (proc.flatMap (mNext s)).map lift := by
        rw [consolidate_nodup _ [] (by simpa [List.map_map, Function.comp_def, lift] using hndn)]
        simp
      rw [hcons2]
      apply loops_agree s U h (f' + 1) (proc.flatMap (mNext s)) _ _ _ _ _ hwnext
      · intro e he
        obtain ⟨x, hx, hex⟩ := List.mem_flatMap.mp he
        apply h.closed x.typ (hpU x hx)
        rw [← mNext_typ]
        exact List.mem_map_of_mem hex
      · intro e he
        obtain ⟨x, hx, hex⟩ := List.mem_flatMap.mp he
        exact Or.inl (mNext_named s U h x (hpU x hx) e hex)
      · intro i hi
        simp only [List.mem_append, List.mem_reverse, List.mem_map, List.mem_filter]
        constructor
        · rintro (⟨x, ⟨⟨y, hy, rfl⟩, _⟩, rfl⟩ | hh)
          · exact Or.inl ⟨y, hy, rfl⟩
          · exact Or.inr ((hseen i hi).mp hh)
        · rintro (⟨x, hx, rfl⟩ | hh)
          · exact Or.inl ⟨lift x, ⟨⟨x, hx, rfl⟩, by simpa [lift] using hi⟩, rfl⟩
          · exact Or.inr ((hseen i hi).mpr hh)
      · exact inv'

/-! ## 7. the theorem -/

/-- where both walks start for the type object `t`: `*T` (unnamed pointer) starts at `T` with indirection -/
def startEnt (s : St) (t : Nat) : Ent :=
  if (s.get t).kind = kPtr ∧ (s.get t).named = false then ⟨(s.get t).elem, true⟩ else ⟨t, false⟩

theorem inv_empty (s : St) (U : List Nat) : Inv s U [] [] [] := by
  constructor <;> intros <;> simp_all

/-- **`methodset_correct`** (general form): let `U` contain the start type and be closed under embedding, let the
    declarations in `U` be clean (`CleanOn`), and let no selector be ambiguous at its depth (`WalkClean`). Then the
    run-time method set computed by `$methodSet` — with promotion through embedded fields by depth, shadowing by shallower
    declarations, and pointer indirection — is exactly the Go method set. -/
theorem methodset_correct_clean (s : St) (t : Nat) (U : List Nat) (h : CleanOn s U)
    (hstart : (startEnt s t).typ ∈ U) (hw : WalkClean s (s.size + 1) [startEnt s t] []) :
    ∀ m, m ∈ methodSet s t ↔ m ∈ specMethodSet s (ptrOfM s) t := by
  intro m
  unfold methodSet methodSetAux specMethodSet specTable
  by_cases hp : (s.get t).kind = kPtr ∧ (s.get t).named = false
  · have hp' : (s.get t).kind = kPtr ∧ (!(s.get t).named) = true := ⟨hp.1, by simp [hp.2]⟩
    by_cases hi : (s.get (s.get t).elem).kind = kInterface
    · simp [hp, hp', hi]
    · have hst : startEnt s t = ⟨(s.get t).elem, true⟩ := by simp [startEnt, hp]
      rw [hst] at hstart hw
      have := loops_agree s U h (s.size + 1) [⟨(s.get t).elem, true⟩] [] [] [] [] [] hw
        (by intro e he; simp only [List.mem_singleton] at he; rw [he]; exact hstart)
        (by intro e _; exact Or.inr (by simp)) (by intro i _; simp) (inv_empty s U) m
      simpa [hp, hp', hi, lift] using this
  · have hp' : ¬((s.get t).kind = kPtr ∧ (!(s.get t).named) = true) := by
      intro hh; exact hp ⟨hh.1, by simpa using hh.2⟩
    have hst : startEnt s t = ⟨t, false⟩ := by simp [startEnt, hp]
    rw [hst] at hstart hw
    have := loops_agree s U h (s.size + 1) [⟨t, false⟩] [] [] [] [] [] hw
      (by intro e he; simp only [List.mem_singleton] at he; rw [he]; exact hstart)
      (by intro e _; exact Or.inr (by simp)) (by intro i _; simp) (inv_empty s U) m
    simpa [hp, hp', lift] using this

/-! ## 8. the hypotheses are decidable (used by the driver to report how many probes the theorem covers) -/

def CleanP1 (s : St) (U : List Nat) : Prop := ∀ u ∈ U, ∀ v ∈ succIds s u, v ∈ U
def CleanP2 (s : St) (U : List Nat) : Prop :=
  ∀ u ∈ U, (s.get u).kind = kStruct → ∀ f ∈ (s.get u).fields, f.embedded = true →
    (if (s.get f.typ).kind = kPtr then (s.get f.typ).named = false ∧ (s.get (s.get f.typ).elem).named = true
     else (s.get f.typ).named = true)
def CleanP3 (s : St) (U : List Nat) : Prop := ∀ u ∈ U, (s.get u).kind = kInterface → ptrMethods s u = []
def CleanP4 (s : St) (U : List Nat) : Prop :=
  ∀ u ∈ U, ∀ v ∈ U, ∀ m ∈ declM s u, ∀ m' ∈ declM s v, m.name = m'.name → m.pkg = m'.pkg
def CleanP5 (s : St) (U : List Nat) : Prop :=
  ∀ u ∈ U, (s.get u).kind = kStruct → ∀ f ∈ (s.get u).fields, ∀ v ∈ U, ∀ m ∈ declM s v, f.name ≠ m.name
def CleanP6 (s : St) (U : List Nat) : Prop :=
  ∀ u ∈ U, (s.get u).named = true → (s.get u).kind ≠ kInterface → ∀ m ∈ ptrMethods s u,
    ∀ v ∈ U, ∀ m' ∈ declM s v, m'.name = m.name → v = u

instance (s : St) (U : List Nat) : Decidable (CleanP1 s U) := by unfold CleanP1; infer_instance
instance (s : St) (U : List Nat) : Decidable (CleanP2 s U) := by unfold CleanP2; infer_instance
instance (s : St) (U : List Nat) : Decidable (CleanP3 s U) := by unfold CleanP3; infer_instance
instance (s : St) (U : List Nat) : Decidable (CleanP4 s U) := by unfold CleanP4; infer_instance
instance (s : St) (U : List Nat) : Decidable (CleanP5 s U) := by unfold CleanP5; infer_instance
instance (s : St) (U : List Nat) : Decidable (CleanP6 s U) := by unfold CleanP6; infer_instance

theorem cleanOn_iff (s : St) (U : List Nat) : CleanOn s U ↔
    (CleanP1 s U ∧ CleanP2 s U ∧ CleanP3 s U ∧ CleanP4 s U ∧ CleanP5 s U ∧ CleanP6 s U) :=
  ⟨fun h => ⟨h.closed, h.embwf, h.ifaceptr, h.pkg, h.field, h.ptr⟩, fun ⟨a, b, c, d, e, f⟩ => ⟨a, b, c, d, e, f⟩⟩

instance (s : St) (U : List Nat) : Decidable (CleanOn s U) := decidable_of_iff _ (cleanOn_iff s U).symm

/-- the embedding closure of `t` (every type either walk can reach) -/
def closureU (s : St) (t : Nat) : List Nat :=
  (List.range s.size).foldl (fun acc _ => (acc ++ acc.flatMap (succIds s)).eraseDups) [(startEnt s t).typ]

/-- the hypothesis of `methodset_correct_clean`, instantiated with the embedding closure -/
def theoremCovers (s : St) (t : Nat) : Bool :=
  decide (CleanOn s (closureU s t) ∧ (startEnt s t).typ ∈ closureU s t ∧ WalkClean s (s.size + 1) [startEnt s t] [])

theorem covered_correct (s : St) (t : Nat) (h : theoremCovers s t = true) :
    ∀ m, m ∈ methodSet s t ↔ m ∈ specMethodSet s (ptrOfM s) t := by
  have h' := of_decide_eq_true h
  exact methodset_correct_clean s t (closureU s t) h'.1 h'.2.1 h'.2.2

end GV.Props.C09
