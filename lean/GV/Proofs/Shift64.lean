import GV.Proofs.Num64

/-! The 64-bit shift helpers of numeric.js ($shiftLeft64, $shiftRightInt64, $shiftRightUint64) against the `BitVec 64` shifts,
    for every count (helper lemmas for GV.Props.C06). -/
namespace GV.Proofs.Shift64
open GV.JSInt GV.Num64 GV.NumScheme GV.Spec.Num GV.Proofs.Num GV.Proofs.Num64

theorem toUint32_toInt32 (v : Int) : toUint32 (toInt32 v) = toUint32 v := by
  unfold toUint32 toInt32; split <;> omega

theorem bor_comm (a b : Int) : bor a b = bor b a := by unfold bor; rw [Nat.or_comm]

/-- `A | B` when A (as uint32) is a multiple of 2^k and 0 ≤ B < 2^k: no carries -/
theorem bor_add (A B : Int) (k : Nat) (q : Nat) (hA : toUint32 A = (q * 2 ^ k : Nat)) (hq : q * 2 ^ k + 2 ^ k ≤ 4294967296)
    (hB : 0 ≤ B ∧ B < (2 ^ k : Nat)) : toUint32 (bor A B) = toUint32 A + B := by
  unfold bor
  have e1 : bits32 A = q * 2 ^ k := by unfold bits32; rw [hA]; exact Int.toNat_natCast _
  have e2 : bits32 B = B.toNat := by unfold bits32; rw [toUint32_id (by omega)]
  rw [e1, e2, GV.Bits.mul_or_add q B.toNat k (by omega), Int.ofNat_eq_natCast, toUint32_toInt32, hA]
  have : ((q * 2 ^ k + B.toNat : Nat) : Int) = ((q * 2 ^ k : Nat) : Int) + B := by omega
  rw [this]
  exact toUint32_id (by omega)

theorem two_pow_pos (n : Nat) : (0 : Int) < 2 ^ n := by
  have := Nat.two_pow_pos n; exact_mod_cast this

theorem pow_split (k : Nat) (hk : k ≤ 32) : (2 : Int) ^ k * 2 ^ (32 - k) = 4294967296 := by
  rw [← Int.pow_add]
  have : k + (32 - k) = 32 := by omega
  rw [this]; decide

theorem divmod_eq (a b : Int) (hb : 0 < b) : a % b + b * (a / b) = a :=
  ((Int.ediv_emod_unique hb).1 ⟨rfl, rfl⟩).1

/-- `toUint32 ((a << k))` for the multiplier p = 2^k -/
theorem toUint32_mul (a p : Int) : toUint32 (toInt32 (toInt32 a * p)) = (a * p) % 4294967296 := by
  rw [toUint32_toInt32]; unfold toUint32
  rw [Int.mul_emod, toInt32_emod, ← Int.mul_emod]

/-- the low bits shifted up: (a * p) mod (r * p) = (a mod r) * p -/
theorem mul_emod_split (a p r : Int) (hp : 0 < p) (hpr : p * r = 4294967296) : (a * p) % 4294967296 = (a % r) * p := by
  rw [← hpr, Int.mul_comm a p, Int.mul_emod_mul_of_pos _ _ hp, Int.mul_comm]

/-- bor of a value shifted up by k (multiplier p = 2^k, cofactor r) with a value below 2^k -/
theorem bor_shifted (a B : Int) (k : Nat) (hk : k ≤ 32) (hB : 0 ≤ B ∧ B < 2 ^ k) :
    toUint32 (bor (toInt32 (toInt32 a * 2 ^ k)) B) = (a % 2 ^ (32 - k)) * 2 ^ k + B := by
  have hp := two_pow_pos k; have hr := two_pow_pos (32 - k)
  have hpr := pow_split k hk
  have e1 := toUint32_mul a (2 ^ k)
  rw [mul_emod_split a _ _ hp hpr] at e1
  have hm0 := Int.emod_nonneg a (show (2 : Int) ^ (32 - k) ≠ 0 by omega)
  have hm1 := Int.emod_lt_of_pos a hr
  have hq : ((a % 2 ^ (32 - k)).toNat : Int) = a % 2 ^ (32 - k) := Int.toNat_of_nonneg hm0
  have hle : (a % 2 ^ (32 - k) + 1) * 2 ^ k ≤ 2 ^ (32 - k) * 2 ^ k :=
    Int.mul_le_mul_of_nonneg_right (by omega) (by omega)
  rw [Int.mul_comm (2 ^ (32 - k)) (2 ^ k), hpr, Int.add_mul] at hle
  have hcast : (((a % 2 ^ (32 - k)).toNat * 2 ^ k : Nat) : Int) = (a % 2 ^ (32 - k)) * 2 ^ k := by
    rw [Int.natCast_mul, hq, Int.natCast_pow]; rfl
  have := bor_add (toInt32 (toInt32 a * 2 ^ k)) B k (a % 2 ^ (32 - k)).toNat (by rw [e1, hcast])
    (by have h2 : (((a % 2 ^ (32 - k)).toNat * 2 ^ k + 2 ^ k : Nat) : Int) ≤ 4294967296 := by
          rw [Int.natCast_add, hcast, Int.natCast_pow]; simp only [Int.cast_ofNat_Int]; omega
        have h3 : ((4294967296 : Nat) : Int) = 4294967296 := rfl
        exact Int.ofNat_le.1 (by rw [h3]; exact h2))
    (by rw [Int.natCast_pow]; simpa using hB)
  rw [this, e1]


/-! #### specification side: shifts of `BitVec.ofInt 64 V` as integer arithmetic -/

theorem ofInt64_shl (V : Int) (n : Nat) : BitVec.ofInt 64 V <<< n = BitVec.ofInt 64 (V * 2 ^ n) := by
  apply BitVec.eq_of_toNat_eq
  apply Int.ofNat_inj.1
  rw [BitVec.toNat_shiftLeft, Nat.shiftLeft_eq, BitVec.toNat_ofInt, BitVec.toNat_ofInt]
  have hM : ((2 ^ 64 : Nat) : Int) ≠ 0 := by decide
  rw [Int.natCast_emod, Int.natCast_mul, Int.toNat_of_nonneg (Int.emod_nonneg _ hM), Int.toNat_of_nonneg (Int.emod_nonneg _ hM),
    Int.natCast_pow]
  simp only [Int.natCast_pow, Int.cast_ofNat_Int]
  rw [Int.mul_emod, Int.emod_emod, ← Int.mul_emod]

theorem ofInt64_ushr (V : Int) (n : Nat) (hV : 0 ≤ V ∧ V < 18446744073709551616) :
    BitVec.ofInt 64 V >>> n = BitVec.ofInt 64 (V / 2 ^ n) := by
  apply BitVec.eq_of_toNat_eq
  apply Int.ofNat_inj.1
  rw [BitVec.toNat_ushiftRight, Nat.shiftRight_eq_div_pow, BitVec.toNat_ofInt, BitVec.toNat_ofInt]
  have hM : ((2 ^ 64 : Nat) : Int) ≠ 0 := by decide
  have e64 : ((2 ^ 64 : Nat) : Int) = 18446744073709551616 := by rfl
  have hp := two_pow_pos n
  have h1 : 0 ≤ V / 2 ^ n := Int.ediv_nonneg hV.1 (by omega)
  have h2 : V / 2 ^ n ≤ V := Int.ediv_le_self _ hV.1
  rw [Int.natCast_ediv, Int.toNat_of_nonneg (Int.emod_nonneg _ hM), Int.toNat_of_nonneg (Int.emod_nonneg _ hM), e64,
    Int.emod_eq_of_lt hV.1 hV.2, Int.emod_eq_of_lt h1 (by omega), Int.natCast_pow]
  rfl

theorem ediv_between (X p : Int) (hp : 0 < p) :
    (0 ≤ X → 0 ≤ X / p ∧ X / p ≤ X) ∧ (X ≤ 0 → X ≤ X / p ∧ X / p ≤ 0) := by
  constructor
  · intro h; exact ⟨Int.ediv_nonneg h (by omega), Int.ediv_le_self p h⟩
  · intro h
    refine ⟨Int.le_ediv_of_mul_le hp ?_, ?_⟩
    · have := Int.mul_le_mul_of_nonpos_left (a := X) (b := p) (c := 1) h (by omega)
      omega
    · by_cases h0 : X = 0
      · subst h0; simp
      · have := Int.ediv_neg_of_neg_of_pos (show X < 0 by omega) hp; omega

theorem ofInt64_sshr (V : Int) (n : Nat) (hV : -9223372036854775808 ≤ V ∧ V < 9223372036854775808) :
    (BitVec.ofInt 64 V).sshiftRight n = BitVec.ofInt 64 (V / 2 ^ n) := by
  apply BitVec.eq_of_toInt_eq
  rw [BitVec.toInt_sshiftRight, BitVec.toInt_ofInt, BitVec.toInt_ofInt, Int.shiftRight_eq_div_pow, Int.natCast_pow]
  have hb := ediv_between V (2 ^ n) (two_pow_pos n)
  have e1 : V.bmod (2 ^ 64) = V := by
    simp only [Int.bmod_def, Nat.reducePow, Int.cast_ofNat_Int]; omega
  rw [e1]
  simp only [Int.cast_ofNat_Int]
  generalize V / 2 ^ n = d at *
  simp only [Int.bmod_def, Nat.reducePow, Int.cast_ofNat_Int]; omega


/-! #### `$shiftLeft64` -/

theorem shiftCount_sub (k : Nat) (h0 : 0 < k) (h1 : k < 32) : shiftCount (32 - (k : Int)) = 32 - k := by
  have : (32 : Int) - k = ((32 - k : Nat) : Int) := by omega
  rw [this, shiftCount_lit (32 - k) (by omega)]

theorem shiftCount_sub32 (k : Nat) (h0 : 32 ≤ k) (h1 : k < 64) : shiftCount ((k : Int) - 32) = k - 32 := by
  have : (k : Int) - 32 = ((k - 32 : Nat) : Int) := by omega
  rw [this, shiftCount_lit (k - 32) (by omega)]

theorem sc0 : shiftCount 0 = 0 := shiftCount_lit 0 (by omega)

/-- the algebra behind a left shift by 0 < n < 32 of the pair (h, l) -/
theorem shl_algebra (h l p r : Int) (hr : 0 < r) (hpr : p * r = 4294967296) :
    (h * 4294967296 + l) * p =
      ((h % r) * p + (h / r) * 4294967296) * 4294967296 + (l % r) * p + (l / r) * 4294967296 := by
  have d1 := divmod_eq h r hr
  have d2 := divmod_eq l r hr
  grind

theorem shl64_correct (s : Bool) (x : W64) (hx : Canon s x) (n : Nat) : toBV (shiftLeft64 s x n) = toBV x <<< n := by
  rw [show toBV x = BitVec.ofInt 64 (flatten64 x) from rfl, ofInt64_shl]
  have hl := hx.2
  by_cases h0 : n = 0
  · subst h0; simp [shiftLeft64, toBV]
  by_cases h1 : n < 32
  · have hk0 : ¬ ((n : Int) = 0) := by omega
    have hk1 : (n : Int) < 32 := by omega
    unfold shiftLeft64
    rw [if_neg hk0, if_pos hk1, toBV_mk64]
    apply ofInt64_congr
    unfold shl shr flatten64
    rw [shiftCount_lit n h1, shiftCount_sub n (by omega) h1, sc0, toUint32_id hl]
    have hp := two_pow_pos n; have hr := two_pow_pos (32 - n)
    have hpr := pow_split n (by omega)
    have hB0 : 0 ≤ x.low / 2 ^ (32 - n) := Int.ediv_nonneg hl.1 (by omega)
    have hB1 : x.low / 2 ^ (32 - n) < 2 ^ n := Int.ediv_lt_of_lt_mul hr (by rw [hpr]; exact hl.2)
    have ebor := bor_shifted x.high (x.low / 2 ^ (32 - n)) n (by omega) ⟨hB0, hB1⟩
    have elow := toUint32_mul x.low (2 ^ n)
    rw [mul_emod_split x.low _ _ hp hpr] at elow
    have hm0 := Int.emod_nonneg x.low (show (2 : Int) ^ (32 - n) ≠ 0 by omega)
    have hml : (x.low % 2 ^ (32 - n) + 1) * 2 ^ n ≤ 2 ^ (32 - n) * 2 ^ n :=
      Int.mul_le_mul_of_nonneg_right (by have := Int.emod_lt_of_pos x.low hr; omega) (by omega)
    rw [Int.mul_comm (2 ^ (32 - n)) (2 ^ n), hpr, Int.add_mul] at hml
    have hml0 : 0 ≤ x.low % 2 ^ (32 - n) * 2 ^ n := Int.mul_nonneg hm0 (by omega)
    rw [shl_algebra x.high x.low (2 ^ n) (2 ^ (32 - n)) hr hpr, elow]
    generalize bor (toInt32 (toInt32 x.high * 2 ^ n)) (x.low / 2 ^ (32 - n)) = H at *
    generalize x.low / 2 ^ (32 - n) = B at *
    generalize x.low % 2 ^ (32 - n) * 2 ^ n = ml at *
    generalize x.high % 2 ^ (32 - n) * 2 ^ n = mh at *
    generalize x.high / 2 ^ (32 - n) = qh at *
    unfold toUint32 at ebor
    simp only [Int.pow_zero, Int.ediv_one]
    omega
  by_cases h2 : n < 64
  · have hk0 : ¬ ((n : Int) = 0) := by omega
    have hk1 : ¬ (n : Int) < 32 := by omega
    have hk2 : (n : Int) < 64 := by omega
    unfold shiftLeft64
    rw [if_neg hk0, if_neg hk1, if_pos hk2, toBV_mk64]
    apply ofInt64_congr
    unfold shl flatten64
    rw [shiftCount_sub32 n (by omega) h2]
    have e := toUint32_mul x.low (2 ^ (n - 32))
    have hn : (2 : Int) ^ n = 2 ^ (n - 32) * 4294967296 := by
      have : n = (n - 32) + 32 := by omega
      conv => lhs; rw [this, Int.pow_add]
      rfl
    have halg : (x.high * 4294967296 + x.low) * 2 ^ n =
        (x.high * 2 ^ (n - 32)) * 18446744073709551616 + (x.low * 2 ^ (n - 32)) * 4294967296 := by
      rw [hn]; grind
    rw [halg]
    generalize toInt32 (toInt32 x.low * 2 ^ (n - 32)) = T at *
    generalize x.low * 2 ^ (n - 32) = lp at *
    generalize x.high * 2 ^ (n - 32) = hp' at *
    unfold toUint32 at e
    omega
  · have hk0 : ¬ ((n : Int) = 0) := by omega
    have hk1 : ¬ (n : Int) < 32 := by omega
    have hk2 : ¬ (n : Int) < 64 := by omega
    unfold shiftLeft64
    rw [if_neg hk0, if_neg hk1, if_neg hk2, toBV_mk64]
    apply ofInt64_congr
    have hn : (2 : Int) ^ n = 2 ^ (n - 64) * 18446744073709551616 := by
      have : n = (n - 64) + 64 := by omega
      conv => lhs; rw [this, Int.pow_add]
      rfl
    rw [hn, ← Int.mul_assoc, Int.mul_emod_left]
    rfl


/-! #### `$shiftRightInt64`, `$shiftRightUint64` -/

theorem shr_algebra (h l p r : Int) (hp : 0 < p) (hpr : p * r = 4294967296) :
    (h * 4294967296 + l) / p = (h / p) * 4294967296 + (h % p) * r + l / p := by
  have d1 := divmod_eq h p hp
  have e : h * 4294967296 + l = l + (h * r) * p := by grind
  rw [e, Int.add_mul_ediv_right _ _ (by omega)]
  grind

theorem shr_algebra2 (h l pj : Int) (hl : 0 ≤ l ∧ l < 4294967296) (hpj : 0 < pj) :
    (h * 4294967296 + l) / (pj * 4294967296) = h / pj := by
  have d1 := divmod_eq h pj hpj
  have hm0 := Int.emod_nonneg h (show pj ≠ 0 by omega)
  have hm1 := Int.emod_lt_of_pos h hpj
  have hb : (0 : Int) < pj * 4294967296 := by omega
  have key := (Int.ediv_emod_unique (a := h * 4294967296 + l) (q := h / pj) (r := (h % pj) * 4294967296 + l) hb).2
  refine (key ⟨?_, by omega, ?_⟩).1
  · grind
  · have : (h % pj + 1) * 4294967296 ≤ pj * 4294967296 := Int.mul_le_mul_of_nonneg_right (by omega) (by omega)
    omega

theorem ediv_big (x q : Int) (hq : 0 < q) (h : -q ≤ x ∧ x < q) : x / q = if x < 0 then -1 else 0 := by
  split
  · have := (Int.ediv_emod_unique hq (a := x) (q := -1) (r := x + q)).2 ⟨by omega, by omega, by omega⟩
    exact this.1
  · exact Int.ediv_eq_zero_of_lt (by omega) h.2

theorem pow_ge64 (n : Nat) (h : 64 ≤ n) : (18446744073709551616 : Int) ≤ 2 ^ n := by
  have := Nat.pow_le_pow_right (show 0 < 2 by omega) h
  have e : ((2 ^ 64 : Nat) : Int) = 18446744073709551616 := by rfl
  have h2 : ((2 ^ 64 : Nat) : Int) ≤ ((2 ^ n : Nat) : Int) := Int.ofNat_le.2 this
  rw [e, Int.natCast_pow] at h2
  exact h2

/-- the low word of both right shifts for 0 < n < 32 -/
theorem shr_low (h l : Int) (n : Nat) (h0 : 0 < n) (h1 : n < 32) (hl : 0 ≤ l ∧ l < 4294967296) :
    toUint32 (bor (l / 2 ^ n) (toInt32 (toInt32 h * 2 ^ (32 - n)))) = (h % 2 ^ n) * 2 ^ (32 - n) + l / 2 ^ n := by
  have hp := two_pow_pos n; have hr := two_pow_pos (32 - n)
  have hpr := pow_split n (by omega)
  have hB0 : 0 ≤ l / 2 ^ n := Int.ediv_nonneg hl.1 (by omega)
  have hB1 : l / 2 ^ n < 2 ^ (32 - n) := Int.ediv_lt_of_lt_mul hp (by rw [Int.mul_comm, hpr]; exact hl.2)
  have e := bor_shifted h (l / 2 ^ n) (32 - n) (by omega) ⟨hB0, hB1⟩
  have hnn : 32 - (32 - n) = n := by omega
  rw [hnn] at e
  rw [bor_comm, e]

theorem pow_n_32 (n : Nat) (h : 32 ≤ n) : (2 : Int) ^ n = 2 ^ (n - 32) * 4294967296 := by
  have : n = (n - 32) + 32 := by omega
  conv => lhs; rw [this, Int.pow_add]
  rfl

theorem shrU64_correct (x : W64) (hx : Canon false x) (n : Nat) : toBV (shiftRightUint64 x n) = toBV x >>> n := by
  have hl := hx.2
  have hh : 0 ≤ x.high ∧ x.high < 4294967296 := by simpa [Canon] using hx.1
  have hV : 0 ≤ flatten64 x ∧ flatten64 x < 18446744073709551616 := by unfold flatten64; omega
  rw [show toBV x = BitVec.ofInt 64 (flatten64 x) from rfl, ofInt64_ushr _ _ hV]
  by_cases h0 : n = 0
  · subst h0; simp [shiftRightUint64, toBV]
  have hk0 : ¬ ((n : Int) = 0) := by omega
  by_cases h1 : n < 32
  · have hk1 : (n : Int) < 32 := by omega
    unfold shiftRightUint64
    rw [if_neg hk0, if_pos hk1, toBV_mk64]
    congr 1
    unfold shr shl flatten64
    rw [shiftCount_lit n h1, shiftCount_sub n (by omega) h1, sc0, toUint32_id hl, toUint32_id hh,
      shr_algebra x.high x.low (2 ^ n) (2 ^ (32 - n)) (two_pow_pos n) (pow_split n (by omega))]
    simp only [Int.pow_zero, Int.ediv_one]
    rw [shr_low x.high x.low n (by omega) h1 hl]
    omega
  by_cases h2 : n < 64
  · have hk1 : ¬ (n : Int) < 32 := by omega
    have hk2 : (n : Int) < 64 := by omega
    unfold shiftRightUint64
    rw [if_neg hk0, if_neg hk1, if_pos hk2, toBV_mk64]
    congr 1
    unfold shr flatten64
    rw [shiftCount_sub32 n (by omega) h2, toUint32_id hh, pow_n_32 n (by omega),
      shr_algebra2 x.high x.low _ hl (two_pow_pos (n - 32))]
    omega
  · have hk1 : ¬ (n : Int) < 32 := by omega
    have hk2 : ¬ (n : Int) < 64 := by omega
    unfold shiftRightUint64
    rw [if_neg hk0, if_neg hk1, if_neg hk2, toBV_mk64]
    congr 1
    have := pow_ge64 n (by omega)
    rw [Int.ediv_eq_zero_of_lt hV.1 (by omega)]
    rfl

theorem shrS64_correct (x : W64) (hx : Canon true x) (n : Nat) : toBV (shiftRightInt64 x n) = (toBV x).sshiftRight n := by
  have hl := hx.2
  have hh : -2147483648 ≤ x.high ∧ x.high < 2147483648 := by simpa [Canon] using hx.1
  have hV : -9223372036854775808 ≤ flatten64 x ∧ flatten64 x < 9223372036854775808 := by unfold flatten64; omega
  rw [show toBV x = BitVec.ofInt 64 (flatten64 x) from rfl, ofInt64_sshr _ _ hV]
  by_cases h0 : n = 0
  · subst h0; simp [shiftRightInt64, toBV]
  have hk0 : ¬ ((n : Int) = 0) := by omega
  by_cases h1 : n < 32
  · have hk1 : (n : Int) < 32 := by omega
    unfold shiftRightInt64
    rw [if_neg hk0, if_pos hk1, toBV_mk64]
    congr 1
    unfold sar shr shl flatten64
    rw [shiftCount_lit n h1, shiftCount_sub n (by omega) h1, sc0, toUint32_id hl]
    simp only [Int.pow_zero, Int.ediv_one]
    rw [shr_low x.high x.low n (by omega) h1 hl, toInt32_id hh,
      shr_algebra x.high x.low (2 ^ n) (2 ^ (32 - n)) (two_pow_pos n) (pow_split n (by omega))]
    omega
  by_cases h2 : n < 64
  · have hk1 : ¬ (n : Int) < 32 := by omega
    have hk2 : (n : Int) < 64 := by omega
    unfold shiftRightInt64
    rw [if_neg hk0, if_neg hk1, if_pos hk2, toBV_mk64]
    congr 1
    unfold sar shr flatten64
    have sc31 : shiftCount 31 = 31 := shiftCount_lit 31 (by omega)
    rw [shiftCount_sub32 n (by omega) h2, sc31, sc0, toInt32_id hh, pow_n_32 n (by omega),
      shr_algebra2 x.high x.low _ hl (two_pow_pos (n - 32))]
    have hb := ediv_between x.high (2 ^ (n - 32)) (two_pow_pos (n - 32))
    have hneg : x.high < 0 → x.high / 2 ^ (n - 32) < 0 := fun h => Int.ediv_neg_of_neg_of_pos h (two_pow_pos (n - 32))
    generalize x.high / 2 ^ (n - 32) = d at *
    simp only [Int.pow_zero, Int.ediv_one]
    unfold toUint32
    omega
  · have hk1 : ¬ (n : Int) < 32 := by omega
    have hk2 : ¬ (n : Int) < 64 := by omega
    have hp := pow_ge64 n (by omega)
    unfold shiftRightInt64
    rw [if_neg hk0, if_neg hk1, if_neg hk2, ediv_big _ _ (two_pow_pos n) (by constructor <;> omega)]
    by_cases hneg : x.high < 0
    · have : flatten64 x < 0 := by unfold flatten64; omega
      rw [if_pos hneg, if_pos this, toBV_mk64]; rfl
    · have : ¬ flatten64 x < 0 := by unfold flatten64; omega
      rw [if_neg hneg, if_neg this, toBV_mk64]; rfl

end GV.Proofs.Shift64
