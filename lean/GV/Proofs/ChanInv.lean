import GV.Model.Sched
/-
  GV.Proofs.ChanInv — per-channel invariants of the runtime model, preserved by every event.
-/
namespace GV.Proofs.ChanInv
open GV.Chan GV.Sched

/-- queue shape + FIFO conservation of one channel -/
structure ChanInv (ch : Chan) : Prop where
  buf_le : ch.buf.length ≤ ch.cap
  recv_buf : ch.recvQ ≠ [] → ch.buf = []
  send_full : ch.sendQ ≠ [] → ch.cap ≤ ch.buf.length
  nil_empty : ch.isNil = true → ch.sendQ = [] ∧ ch.recvQ = [] ∧ ch.buf = [] ∧ ch.cap = 0
  fifo : ch.hRecv ++ ch.buf = ch.hCommit
  nil_open : ch.isNil = true → ch.closed = false
  /-- queued senders and queued receivers of one channel belong to the same goroutine (one select) -/
  mixed : ∀ e1 ∈ ch.sendQ, ∀ e2 ∈ ch.recvQ, e1.gid = e2.gid

/-- `b` is `a` with some queue entries removed (and possibly closed) -/
structure Shrink (a b : Chan) : Prop where
  isNil : b.isNil = a.isNil
  cap : b.cap = a.cap
  buf : b.buf = a.buf
  hCommit : b.hCommit = a.hCommit
  hRecv : b.hRecv = a.hRecv
  closed : b.closed = a.closed
  sendQ : b.sendQ.Sublist a.sendQ
  recvQ : b.recvQ.Sublist a.recvQ

theorem Shrink.refl (a : Chan) : Shrink a a :=
  ⟨rfl, rfl, rfl, rfl, rfl, rfl, List.Sublist.refl _, List.Sublist.refl _⟩

theorem Shrink.trans {a b c : Chan} (h1 : Shrink a b) (h2 : Shrink b c) : Shrink a c :=
  ⟨h2.isNil.trans h1.isNil, h2.cap.trans h1.cap, h2.buf.trans h1.buf, h2.hCommit.trans h1.hCommit,
   h2.hRecv.trans h1.hRecv, h2.closed.trans h1.closed, h2.sendQ.trans h1.sendQ, h2.recvQ.trans h1.recvQ⟩

theorem sub_ne_nil {α} {a b : List α} (h : b.Sublist a) (hb : b ≠ []) : a ≠ [] := by
  intro ha; subst ha; exact hb (List.sublist_nil.mp h)

theorem sub_eq_nil {α} {a b : List α} (h : b.Sublist a) (ha : a = []) : b = [] := by
  subst ha; exact List.sublist_nil.mp h

theorem ChanInv.shrink {a b : Chan} (h : ChanInv a) (s : Shrink a b) : ChanInv b where
  buf_le := by rw [s.buf, s.cap]; exact h.buf_le
  recv_buf := fun hb => by rw [s.buf]; exact h.recv_buf (sub_ne_nil s.recvQ hb)
  send_full := fun hb => by rw [s.buf, s.cap]; exact h.send_full (sub_ne_nil s.sendQ hb)
  nil_empty := fun hn => by
    have := h.nil_empty (s.isNil ▸ hn)
    rw [s.buf, s.cap]
    exact ⟨sub_eq_nil s.sendQ this.1, sub_eq_nil s.recvQ this.2.1, this.2.2⟩
  fifo := by rw [s.hRecv, s.buf, s.hCommit]; exact h.fifo
  nil_open := fun hn => by rw [s.closed]; exact h.nil_open (s.isNil ▸ hn)
  mixed := fun e1 h1 e2 h2 => h.mixed e1 (s.sendQ.subset h1) e2 (s.recvQ.subset h2)

theorem inv_nil : ChanInv Chan.nil :=
  ⟨by decide, by intro h; exact absurd rfl h, by intro h; exact absurd rfl h, by intro _; exact ⟨rfl, rfl, rfl, rfl⟩, rfl, by intro _; rfl, by intro e1 h1; cases h1⟩

theorem inv_make (cap : Nat) : ChanInv (Chan.make cap) :=
  ⟨Nat.zero_le _, by intro h; exact absurd rfl h, by intro h; exact absurd rfl h,
   by intro h; simp [Chan.make] at h, rfl, by intro _; rfl, by intro e1 h1; cases h1⟩

/-! ### channel lists, addressed with `getD _ Chan.nil` -/

def AllInv (cs : List Chan) : Prop := ∀ i, ChanInv (cs.getD i Chan.nil)

def Shrinks (as bs : List Chan) : Prop := ∀ i, Shrink (as.getD i Chan.nil) (bs.getD i Chan.nil)

theorem Shrinks.refl (as : List Chan) : Shrinks as as := fun _ => Shrink.refl _
theorem Shrinks.trans {a b c : List Chan} (h1 : Shrinks a b) (h2 : Shrinks b c) : Shrinks a c :=
  fun i => (h1 i).trans (h2 i)
theorem AllInv.shrinks {a b : List Chan} (h : AllInv a) (s : Shrinks a b) : AllInv b := fun i => (h i).shrink (s i)

theorem getD_set (cs : List Chan) (c i : Nat) (x : Chan) :
    (cs.set c x).getD i Chan.nil = if c = i ∧ c < cs.length then x else cs.getD i Chan.nil := by
  simp only [List.getD_eq_getElem?_getD, List.getElem?_set]
  by_cases h : c = i
  · subst h
    by_cases h2 : c < cs.length
    · simp [h2]
    · simp [h2]
  · simp [h]

theorem AllInv.set {cs : List Chan} (h : AllInv cs) (c : Nat) {x : Chan} (hx : ChanInv x) : AllInv (cs.set c x) := by
  intro i; rw [getD_set]; split
  · exact hx
  · exact h i

/-- replacing channel `c` by a shrunk version of itself -/
theorem Shrinks.set (cs : List Chan) (c : Nat) {x : Chan} (hx : Shrink (cs.getD c Chan.nil) x) : Shrinks cs (cs.set c x) := by
  intro i; rw [getD_set]; split
  · next h => rw [← h.1]; exact hx
  · exact Shrink.refl _

theorem filter_shrink_recv (ch : Chan) (p : Entry → Bool) : Shrink ch { ch with recvQ := ch.recvQ.filter p } :=
  ⟨rfl, rfl, rfl, rfl, rfl, rfl, List.Sublist.refl _, List.filter_sublist⟩
theorem filter_shrink_send (ch : Chan) (p : Entry → Bool) : Shrink ch { ch with sendQ := ch.sendQ.filter p } :=
  ⟨rfl, rfl, rfl, rfl, rfl, rfl, List.filter_sublist, List.Sublist.refl _⟩

theorem removeFromQueues_shrinks (g : Nat) (cases : List Case) : ∀ (i : Nat) (cs : List Chan),
    Shrinks cs (removeFromQueues g cases i cs) := by
  induction cases with
  | nil => intro i cs; exact Shrinks.refl _
  | cons k rest ih =>
    intro i cs
    cases k with
    | dflt => exact ih _ _
    | recv c => exact (Shrinks.set cs c (filter_shrink_recv _ _)).trans (ih _ _)
    | send c v => exact (Shrinks.set cs c (filter_shrink_send _ _)).trans (ih _ _)

/-! ### functions that do not touch the channels -/

@[simp] theorem setG_chans (s : State) (g : Nat) (x : Gor) : (setG s g x).chans = s.chans := rfl
@[simp] theorem schedule_chans (s : State) (g : Nat) : (schedule s g).chans = s.chans := by
  unfold schedule; simp only; split <;> rfl
@[simp] theorem endLoop_chans (s : State) : (endLoop s).chans = s.chans := rfl
@[simp] theorem endSlice_chans (s : State) (g : Nat) : (endSlice s g).chans = s.chans := by
  unfold endSlice endLoop setG; simp only
  repeat' split
  all_goals rfl
@[simp] theorem block_chans (s : State) (g : Nat) (b : Blocked) : (block s g b).chans = s.chans := by
  unfold block; simp
@[simp] theorem runHead_chans (s : State) (g : Nat) (r : List Nat) : (runHead s g r).1.chans = s.chans := rfl
@[simp] theorem enterLoop_chans (s : State) : (enterLoop s).1.chans = s.chans := by
  unfold enterLoop; simp only; split <;> simp
@[simp] theorem goNew_chans (s : State) : (goNew s).chans = s.chans := rfl
@[simp] theorem setC_chans (s : State) (c : Nat) (x : Chan) : (setC s c x).chans = s.chans.set c x := rfl
theorem getC_def (s : State) (c : Nat) : getC s c = s.chans.getD c Chan.nil := rfl

theorem wakeG_shrinks (s : State) (g : Nat) (w : Wake) (cases : List Case) : Shrinks s.chans (wakeG s g w cases).chans := by
  unfold wakeG; simp; exact removeFromQueues_shrinks _ _ _ _

theorem fireRecv_shrinks (s : State) (e : Entry) (v : Nat) (ok : Bool) : Shrinks s.chans (fireRecv s e v ok).chans := by
  unfold fireRecv; split <;> exact wakeG_shrinks _ _ _ _

theorem fireSend_shrinks (s : State) (e : Entry) (cl : Bool) : Shrinks s.chans (fireSend s e cl).chans := by
  unfold fireSend; split <;> exact wakeG_shrinks _ _ _ _

/-! ### the primitives -/

theorem doSend_inv (s : State) (g c v : Nat) (h : AllInv s.chans) : AllInv (doSend s g c v).1.chans := by
  unfold doSend; simp only
  have hc : ChanInv (getC s c) := h c
  generalize getC s c = ch at hc ⊢
  split
  · exact h
  · split
    · next e rq heq =>
      refine AllInv.shrinks ?_ (fireRecv_shrinks _ _ _ _)
      simp only [setC_chans]
      apply h.set
      have hb : ch.buf = [] := hc.recv_buf (by rw [heq]; simp)
      refine ⟨hc.buf_le, fun _ => hb, hc.send_full, ?_, ?_, hc.nil_open,
        fun e1 h1 e2 h2 => hc.mixed e1 h1 e2 (by rw [heq]; exact List.mem_cons_of_mem _ h2)⟩
      · intro hn; have := (hc.nil_empty hn).2.1; rw [heq] at this; cases this
      · have := hc.fifo; simp only [hb, List.append_nil] at this ⊢; rw [this]
    · next heq =>
      split
      · next hlt =>
        simp only [setC_chans]
        apply h.set
        refine ⟨?_, ?_, ?_, ?_, ?_, hc.nil_open, hc.mixed⟩
        · simp; omega
        · intro hr; exact absurd heq hr
        · intro hs; have := hc.send_full hs; omega
        · intro hn; have := (hc.nil_empty hn).2.2; rw [this.1, this.2] at hlt; simp at hlt
        · simp only; rw [← List.append_assoc, hc.fifo]
      · next hge =>
        simp only [block_chans, setC_chans]
        apply h.set
        refine ⟨hc.buf_le, hc.recv_buf, ?_, ?_, hc.fifo, hc.nil_open, fun e1 _ e2 h2 => by rw [heq] at h2; cases h2⟩
        · intro _; simp only; omega
        · intro hn
          have := hc.nil_empty hn
          simp only [pushQ]; rw [if_pos hn]
          exact this

theorem recvTail_inv (s : State) (g c : Nat) (h : AllInv s.chans) (hq : (getC s c).sendQ = []) :
    AllInv (recvTail s g c).1.chans := by
  unfold recvTail; simp only
  have hc : ChanInv (getC s c) := h c
  generalize getC s c = ch at hc hq ⊢
  split
  · next v b heq =>
    simp only [setC_chans]; apply h.set
    refine ⟨?_, ?_, ?_, ?_, ?_, hc.nil_open, hc.mixed⟩
    · have := hc.buf_le; rw [heq] at this; simp at this ⊢; omega
    · intro hr; have := hc.recv_buf hr; rw [heq] at this; cases this
    · intro hs; exact absurd hq hs
    · intro hn; have := (hc.nil_empty hn).2.2.1; rw [heq] at this; cases this
    · have := hc.fifo; rw [heq] at this; simp only; rw [← this]; simp
  · next heq =>
    split
    · split <;> exact h
    · simp only [block_chans, setC_chans]; apply h.set
      refine ⟨hc.buf_le, fun _ => heq, hc.send_full, ?_, hc.fifo, hc.nil_open, fun e1 h1 => by rw [hq] at h1; cases h1⟩
      intro hn
      have := hc.nil_empty hn
      simp only [pushQ]; rw [if_pos hn]
      exact this

/-- `recvTail` after a queued sender's value was pushed onto a full buffer -/
theorem recvTail_inv_pushed (s1 : State) (g c x : Nat) (h : AllInv s1.chans) (hlen : c < s1.chans.length)
    (hfull : (getC s1 c).cap ≤ (getC s1 c).buf.length) :
    AllInv (recvTail (setC s1 c { getC s1 c with buf := (getC s1 c).buf ++ [x], hCommit := (getC s1 c).hCommit ++ [x] }) g c).1.chans := by
  have hc : ChanInv (getC s1 c) := h c
  generalize hch : getC s1 c = ch at hc hfull ⊢
  unfold recvTail; simp only
  have hg : getC (setC s1 c { ch with buf := ch.buf ++ [x], hCommit := ch.hCommit ++ [x] }) c
      = { ch with buf := ch.buf ++ [x], hCommit := ch.hCommit ++ [x] } := by
    simp [getC_def, hlen]
  rw [hg]; simp only
  split
  · next v b heq =>
    simp only [setC_chans, List.set_set]; apply h.set
    have hl : b.length = ch.buf.length := by
      have := congrArg List.length heq; simp at this; omega
    have hle := hc.buf_le
    refine ⟨by dsimp only; omega, ?_, by intro _; dsimp only; omega, ?_, ?_, hc.nil_open, hc.mixed⟩
    · intro hr; have := hc.recv_buf hr; rw [this] at hl; simpa using hl
    · intro hn; have := hc.nil_empty hn
      refine ⟨this.1, this.2.1, ?_, this.2.2.2⟩
      rw [this.2.2.1] at hl; simpa using hl
    · dsimp only; rw [List.append_assoc, List.singleton_append, ← heq, ← List.append_assoc, hc.fifo]
  · next heq => simp at heq

theorem doRecv_inv (s : State) (g c : Nat) (h : AllInv s.chans) : AllInv (doRecv s g c).1.chans := by
  unfold doRecv; simp only
  have hc : ChanInv (getC s c) := h c
  split
  · next e sq heq =>
    have hsh0 : Shrink (getC s c) { getC s c with sendQ := sq } :=
      ⟨rfl, rfl, rfl, rfl, rfl, rfl, by simp [heq], List.Sublist.refl _⟩
    have h0 : AllInv (setC s c { getC s c with sendQ := sq }).chans := by
      simp only [setC_chans]; apply h.set; exact hc.shrink hsh0
    have hlen : c < s.chans.length := by
      apply Decidable.byContradiction; intro hn
      have : getC s c = Chan.nil := by simp [getC_def, List.getD_eq_getElem?_getD, List.getElem?_eq_none (Nat.le_of_not_lt hn)]
      rw [this] at heq; cases heq
    have h1 : AllInv (fireSend (setC s c { getC s c with sendQ := sq }) e false).chans := h0.shrinks (fireSend_shrinks _ _ _)
    have hsh : Shrink (getC (setC s c { getC s c with sendQ := sq }) c) (getC (fireSend (setC s c { getC s c with sendQ := sq }) e false) c) :=
      fireSend_shrinks _ _ _ c
    have hg : getC (setC s c { getC s c with sendQ := sq }) c = { getC s c with sendQ := sq } := by
      simp [getC_def, hlen]
    rw [hg] at hsh
    generalize fireSend (setC s c { getC s c with sendQ := sq }) e false = s1 at h1 hsh ⊢
    have hlen1 : c < s1.chans.length := by
      apply Decidable.byContradiction; intro hn
      have hnil : getC s1 c = Chan.nil := by simp [getC_def, List.getD_eq_getElem?_getD, List.getElem?_eq_none (Nat.le_of_not_lt hn)]
      have h3 := hsh.isNil; rw [hnil] at h3
      have := (hc.nil_empty (by simpa [Chan.nil, Chan.make] using h3.symm)).1
      rw [heq] at this; cases this
    apply recvTail_inv_pushed _ _ _ _ h1 hlen1
    rw [hsh.cap, hsh.buf]; exact hc.send_full (by rw [heq]; simp)
  · next heq => exact recvTail_inv _ _ _ h heq

theorem closeSenders_shrinks : ∀ (n : Nat) (s : State) (c : Nat), Shrinks s.chans (closeSenders n s c).chans := by
  intro n; induction n with
  | zero => intro s c; exact Shrinks.refl _
  | succ n ih =>
    intro s c; unfold closeSenders; simp only
    split
    · exact Shrinks.refl _
    · next e sq heq =>
      have h0 : Shrinks s.chans (setC s c { getC s c with sendQ := sq }).chans := by
        simp only [setC_chans]; apply Shrinks.set
        exact ⟨rfl, rfl, rfl, rfl, rfl, rfl, by rw [← getC_def, heq]; simp, List.Sublist.refl _⟩
      exact (h0.trans (fireSend_shrinks _ _ _)).trans (ih _ _)

theorem closeRecvs_shrinks : ∀ (n : Nat) (s : State) (c : Nat), Shrinks s.chans (closeRecvs n s c).chans := by
  intro n; induction n with
  | zero => intro s c; exact Shrinks.refl _
  | succ n ih =>
    intro s c; unfold closeRecvs; simp only
    split
    · exact Shrinks.refl _
    · next e rq heq =>
      have h0 : Shrinks s.chans (setC s c { getC s c with recvQ := rq }).chans := by
        simp only [setC_chans]; apply Shrinks.set
        exact ⟨rfl, rfl, rfl, rfl, rfl, rfl, List.Sublist.refl _, by rw [← getC_def, heq]; simp⟩
      exact (h0.trans (fireRecv_shrinks _ _ _ _)).trans (ih _ _)

/-- the two loops of `$close`, after the flag was set -/
theorem closeLoops_shrinks (s1 : State) (c n : Nat) :
    Shrinks s1.chans (closeRecvs (getC (closeSenders n s1 c) c).recvQ.length (closeSenders n s1 c) c).chans :=
  (closeSenders_shrinks _ _ _).trans (closeRecvs_shrinks _ _ _)

theorem doClose_inv (s : State) (c : Nat) (h : AllInv s.chans) : AllInv (doClose s c).1.chans := by
  unfold doClose; simp only
  split
  · exact h
  · next hnn =>
    split
    · exact h
    · have hc : ChanInv (getC s c) := h c
      have h1 : AllInv (setC s c { getC s c with closed := true }).chans := by
        simp only [setC_chans]; apply h.set
        exact ⟨hc.buf_le, hc.recv_buf, hc.send_full, hc.nil_empty, hc.fifo, fun hn => absurd hn hnn, hc.mixed⟩
      exact h1.shrinks (closeLoops_shrinks _ _ _)

/-- what "no case is ready" gives for the registration loop -/
def NotReady (g : Nat) (cs : List Chan) : Case → Prop
  | .dflt => True
  | .recv c => (cs.getD c Chan.nil).buf = [] ∧ (cs.getD c Chan.nil).closed = false ∧
      ∀ e ∈ (cs.getD c Chan.nil).sendQ, e.gid = g
  | .send c _ => (cs.getD c Chan.nil).cap ≤ (cs.getD c Chan.nil).buf.length ∧ (cs.getD c Chan.nil).closed = false ∧
      ∀ e ∈ (cs.getD c Chan.nil).recvQ, e.gid = g

/-- registering an entry of goroutine `g` on channel `c` keeps "no case is ready" for the remaining clauses -/
theorem notReady_stable (g : Nat) (cs : List Chan) (x : Chan) (c : Nat)
    (hb : x.buf = (cs.getD c Chan.nil).buf) (hcap : x.cap = (cs.getD c Chan.nil).cap)
    (hcl : x.closed = (cs.getD c Chan.nil).closed)
    (hs : ∀ e ∈ x.sendQ, e ∈ (cs.getD c Chan.nil).sendQ ∨ e.gid = g)
    (hr : ∀ e ∈ x.recvQ, e ∈ (cs.getD c Chan.nil).recvQ ∨ e.gid = g)
    (k' : Case) (hk : NotReady g cs k') : NotReady g (cs.set c x) k' := by
  cases k' with
  | dflt => trivial
  | recv c' =>
    simp only [NotReady] at hk ⊢; rw [getD_set]; split
    · next h' =>
      rw [hb, hcl, h'.1]
      refine ⟨hk.1, hk.2.1, fun e he => ?_⟩
      rcases hs e he with h1 | h1
      · exact hk.2.2 e (h'.1 ▸ h1)
      · exact h1
    · exact hk
  | send c' v' =>
    simp only [NotReady] at hk ⊢; rw [getD_set]; split
    · next h' =>
      rw [hb, hcap, hcl, h'.1]
      refine ⟨hk.1, hk.2.1, fun e he => ?_⟩
      rcases hr e he with h1 | h1
      · exact hk.2.2 e (h'.1 ▸ h1)
      · exact h1
    · exact hk

theorem mem_pushQ {nl : Bool} {q : List Entry} {e0 e : Entry} (h : e ∈ pushQ nl q e0) : e ∈ q ∨ e = e0 := by
  unfold pushQ at h; split at h
  · exact Or.inl h
  · rcases List.mem_append.mp h with h1 | h1
    · exact Or.inl h1
    · exact Or.inr (by simpa using h1)

theorem registerCases_inv (g : Nat) (cases : List Case) : ∀ (i : Nat) (cs : List Chan),
    AllInv cs → (∀ k ∈ cases, NotReady g cs k) → AllInv (registerCases g cases i cs) := by
  induction cases with
  | nil => intro i cs h _; exact h
  | cons k rest ih =>
    intro i cs h hn
    have hk := hn k (by simp)
    cases k with
    | dflt => exact ih _ _ h (fun k' hk' => hn k' (by simp [hk']))
    | recv c =>
      unfold registerCases; simp only
      have hc := h c
      apply ih
      · apply h.set
        refine ⟨hc.buf_le, fun _ => hk.1, hc.send_full, ?_, hc.fifo, hc.nil_open, ?_⟩
        · intro hnil; have := hc.nil_empty hnil; simp only [pushQ]; rw [if_pos hnil]; exact this
        · intro e1 h1 e2 h2
          rcases mem_pushQ h2 with h3 | h3
          · exact hc.mixed e1 h1 e2 h3
          · rw [h3]; exact hk.2.2 e1 h1
      · intro k' hk'
        exact notReady_stable g cs
          { cs.getD c Chan.nil with recvQ := pushQ (cs.getD c Chan.nil).isNil (cs.getD c Chan.nil).recvQ ⟨g, some i, 0⟩ }
          c rfl rfl rfl (fun e he => Or.inl he)
          (fun e he => by rcases mem_pushQ he with h3 | h3; exact Or.inl h3; exact Or.inr (by rw [h3])) k' (hn k' (by simp [hk']))
    | send c v =>
      unfold registerCases; simp only
      have hc := h c
      apply ih
      · apply h.set
        refine ⟨hc.buf_le, hc.recv_buf, fun _ => hk.1, ?_, hc.fifo, hc.nil_open, ?_⟩
        · intro hnil; have := hc.nil_empty hnil; simp only [pushQ]; rw [if_pos hnil]; exact this
        · intro e1 h1 e2 h2
          rcases mem_pushQ h1 with h3 | h3
          · exact hc.mixed e1 h3 e2 h2
          · rw [h3]; exact (hk.2.2 e2 h2).symm
      · intro k' hk'
        exact notReady_stable g cs
          { cs.getD c Chan.nil with sendQ := pushQ (cs.getD c Chan.nil).isNil (cs.getD c Chan.nil).sendQ ⟨g, some i, v⟩ }
          c rfl rfl rfl
          (fun e he => by rcases mem_pushQ he with h3 | h3; exact Or.inl h3; exact Or.inr (by rw [h3]))
          (fun e he => Or.inl he) k' (hn k' (by simp [hk']))

theorem scan_notReady (g : Nat) (s : State) (cases : List Case) : ∀ (i : Nat) (d : Option Nat),
    scan s cases i = ([], d, false) → ∀ k ∈ cases, NotReady g s.chans k := by
  induction cases with
  | nil => intro i d _ k hk; cases hk
  | cons k rest ih =>
    intro i d hs k' hk'
    unfold scan at hs
    generalize hr : scan s rest (i + 1) = r at hs
    obtain ⟨rd, dsel, thr⟩ := r
    simp only at hs
    cases k with
    | dflt =>
      simp only [Prod.mk.injEq] at hs
      obtain ⟨h1, _, h3⟩ := hs; subst h1; subst h3
      rcases List.mem_cons.mp hk' with h | h
      · subst h; trivial
      · exact ih _ _ hr k' h
    | recv c =>
      simp only [Prod.mk.injEq] at hs
      obtain ⟨h1, _, h3⟩ := hs; subst h3
      split at h1
      · cases h1
      · next hnr =>
        subst h1
        rcases List.mem_cons.mp hk' with h | h
        · subst h
          simp only [NotReady, ← getC_def]
          simp only [Chan.recvReady, Bool.or_eq_true, not_or, bne_iff_ne, ne_eq, Decidable.not_not] at hnr
          refine ⟨List.eq_nil_of_length_eq_zero hnr.1.2, by simpa using hnr.2, ?_⟩
          intro e he; rw [List.eq_nil_of_length_eq_zero hnr.1.1] at he; cases he
        · exact ih _ _ hr k' h
    | send c v =>
      simp only at hs
      split at hs
      · simp at hs
      · next hopen =>
        simp only [Prod.mk.injEq] at hs
        obtain ⟨h1, _, h3⟩ := hs; subst h3
        split at h1
        · cases h1
        · next hnr =>
          subst h1
          rcases List.mem_cons.mp hk' with h | h
          · subst h
            simp only [NotReady, ← getC_def]
            simp only [Chan.sendReady, Bool.or_eq_true, not_or, decide_eq_true_eq] at hnr
            refine ⟨by omega, by simpa using hopen, ?_⟩
            intro e he
            have hz : (getC s c).recvQ = [] := List.eq_nil_of_length_eq_zero (by simpa using hnr.1)
            rw [hz] at he; cases he
          · exact ih _ _ hr k' h

theorem doSelect_inv (s : State) (g : Nat) (cases : List Case) (pick : Nat) (h : AllInv s.chans) :
    AllInv (doSelect s g cases pick).1.chans := by
  unfold doSelect
  generalize hsc : scan s cases 0 = r
  obtain ⟨ready, dsel, thr⟩ := r
  simp only
  split
  · exact h
  · next hthr =>
    split
    · split
      · exact h
      · next c _ =>
        have := doRecv_inv s g c h
        split
        · next s1 v ok heq => rw [heq] at this; exact this
        · exact this
      · next c v _ =>
        have := doSend_inv s g c v h
        split
        · next s1 heq => rw [heq] at this; exact this
        · exact this
    · next hsel =>
      simp only [block_chans]
      have hr : ready = [] := by
        split at hsel
        · cases hsel
        · next hl => simp at hl; exact hl
      have ht : thr = false := by simpa using hthr
      subst hr; subst ht
      exact registerCases_inv g cases 0 s.chans h (scan_notReady g s cases 0 dsel hsc)

theorem allInv_append {cs : List Chan} (h : AllInv cs) {x : Chan} (hx : ChanInv x) : AllInv (cs ++ [x]) := by
  intro i
  simp only [List.getD_eq_getElem?_getD]
  by_cases h1 : i < cs.length
  · rw [List.getElem?_append_left h1]; have := h i; simpa [List.getD_eq_getElem?_getD] using this
  · by_cases h2 : i = cs.length
    · subst h2; simp; exact hx
    · rw [List.getElem?_eq_none (by simp; omega)]; exact inv_nil

theorem step_inv (s : State) (ev : Event) (h : AllInv s.chans) : AllInv (step s ev).1.chans := by
  unfold step
  split
  · -- a goroutine is running
    split
    · exact allInv_append h (inv_make _)
    · exact h
    · split
      · exact doSend_inv _ _ _ _ h
      · exact h
    · split
      · exact doRecv_inv _ _ _ h
      · exact h
    · split
      · exact doClose_inv _ _ h
      · exact h
    · split
      · exact doSelect_inv _ _ _ _ h
      · exact h
    · split <;> exact h
    · simp only [endSlice_chans, setG_chans]; exact h
    · exact h
    · exact h
  · split
    · split
      · split
        · exact h
        · exact h
      · exact h
      · exact h
    · split
      · exact allInv_append h (inv_make _)
      · simp only [enterLoop_chans, goNew_chans]; exact h
      · split
        · exact h
        · simp only [enterLoop_chans]; exact h
        · simp only
          split
          · exact h
          · split
            · next s2 heq =>
              have hcl : AllInv s2.chans := by
                have e := congrArg Prod.fst heq; simp only at e; rw [← e]; exact doClose_inv _ _ h
              split
              · simp only [enterLoop_chans]; exact hcl
              · exact hcl
            · exact doClose_inv _ _ h
      · exact h

theorem init_inv : AllInv GV.Sched.init.chans := by
  intro i
  cases i with
  | zero => exact inv_nil
  | succ n => simp [GV.Sched.init, List.getD_eq_getElem?_getD]; exact inv_nil

theorem runAll_inv : ∀ (evs : List Event) (s : State), AllInv s.chans → AllInv (runAll s evs).chans := by
  intro evs; induction evs with
  | nil => intro s h; exact h
  | cons e es ih => intro s h; exact ih _ (step_inv s e h)

theorem allInv_mem {cs : List Chan} (h : AllInv cs) {ch : Chan} (hm : ch ∈ cs) : ChanInv ch := by
  obtain ⟨i, hi, rfl⟩ := List.getElem_of_mem hm
  have := h i
  simpa [List.getD_eq_getElem?_getD, List.getElem?_eq_getElem hi] using this

/-! ### closed channels hold no queue entries -/

def CE (ch : Chan) : Prop := ch.closed = true → ch.sendQ = [] ∧ ch.recvQ = []
def AllCE (cs : List Chan) : Prop := ∀ i, CE (cs.getD i Chan.nil)

theorem CE.shrink {a b : Chan} (h : CE a) (s : Shrink a b) : CE b := by
  intro hb
  have := h (s.closed ▸ hb)
  exact ⟨sub_eq_nil s.sendQ this.1, sub_eq_nil s.recvQ this.2⟩

theorem AllCE.shrinks {a b : List Chan} (h : AllCE a) (s : Shrinks a b) : AllCE b := fun i => (h i).shrink (s i)

theorem AllCE.set {cs : List Chan} (h : AllCE cs) (c : Nat) {x : Chan} (hx : CE x) : AllCE (cs.set c x) := by
  intro i; rw [getD_set]; split
  · exact hx
  · exact h i

theorem ce_open {x : Chan} (h : x.closed = false) : CE x := by intro h'; rw [h] at h'; cases h'

theorem ce_nil : CE Chan.nil := ce_open rfl

theorem allCE_append {cs : List Chan} (h : AllCE cs) {x : Chan} (hx : CE x) : AllCE (cs ++ [x]) := by
  intro i
  simp only [List.getD_eq_getElem?_getD]
  by_cases h1 : i < cs.length
  · rw [List.getElem?_append_left h1]; have := h i; simpa [List.getD_eq_getElem?_getD] using this
  · by_cases h2 : i = cs.length
    · subst h2; simp; exact hx
    · rw [List.getElem?_eq_none (by simp; omega)]; exact ce_nil

theorem doSend_ce (s : State) (g c v : Nat) (h : AllCE s.chans) : AllCE (doSend s g c v).1.chans := by
  unfold doSend; simp only
  split
  · exact h
  · next hopen =>
    have ho : (getC s c).closed = false := by simpa using hopen
    split
    · refine AllCE.shrinks ?_ (fireRecv_shrinks _ _ _ _)
      simp only [setC_chans]; exact h.set c (ce_open ho)
    · split
      · simp only [setC_chans]; exact h.set c (ce_open ho)
      · simp only [block_chans, setC_chans]; exact h.set c (ce_open ho)

theorem recvTail_ce (s : State) (g c : Nat) (h : AllCE s.chans) : AllCE (recvTail s g c).1.chans := by
  unfold recvTail; simp only
  have hc : CE (getC s c) := h c
  split
  · simp only [setC_chans]; exact h.set c (fun hcl => hc hcl)
  · split
    · split <;> exact h
    · next hopen =>
      simp only [block_chans, setC_chans]; exact h.set c (ce_open (by simpa using hopen))

theorem doRecv_ce (s : State) (g c : Nat) (h : AllCE s.chans) : AllCE (doRecv s g c).1.chans := by
  unfold doRecv; simp only
  have hc : CE (getC s c) := h c
  split
  · next e sq heq =>
    apply recvTail_ce
    have h0 : AllCE (setC s c { getC s c with sendQ := sq }).chans := by
      simp only [setC_chans]; apply h.set
      exact hc.shrink ⟨rfl, rfl, rfl, rfl, rfl, rfl, by simp [heq], List.Sublist.refl _⟩
    have h1 := h0.shrinks (fireSend_shrinks (setC s c { getC s c with sendQ := sq }) e false)
    simp only [setC_chans]; apply h1.set
    exact fun hcl => (h1 c) hcl
  · exact recvTail_ce _ _ _ h

theorem closeSenders_empties : ∀ (n : Nat) (s : State) (c : Nat), (getC s c).sendQ.length ≤ n →
    (getC (closeSenders n s c) c).sendQ = [] := by
  intro n; induction n with
  | zero => intro s c hl; simp only [closeSenders]; exact List.eq_nil_of_length_eq_zero (Nat.le_zero.mp hl)
  | succ n ih =>
    intro s c hl
    unfold closeSenders; simp only
    split
    · next heq => exact heq
    · next e sq heq =>
      apply ih
      have hc : c < s.chans.length := by
        apply Decidable.byContradiction; intro hn
        have : getC s c = Chan.nil := by
          simp [getC_def, List.getD_eq_getElem?_getD, List.getElem?_eq_none (Nat.le_of_not_lt hn)]
        rw [this] at heq; cases heq
      have hg : getC (setC s c { getC s c with sendQ := sq }) c = { getC s c with sendQ := sq } := by
        simp [getC_def, hc]
      have h1 := (fireSend_shrinks (setC s c { getC s c with sendQ := sq }) e true c).sendQ.length_le
      rw [← getC_def, ← getC_def, hg] at h1
      dsimp only at h1
      rw [heq] at hl; simp at hl; omega

theorem closeRecvs_empties : ∀ (n : Nat) (s : State) (c : Nat), (getC s c).recvQ.length ≤ n →
    (getC (closeRecvs n s c) c).recvQ = [] := by
  intro n; induction n with
  | zero => intro s c hl; simp only [closeRecvs]; exact List.eq_nil_of_length_eq_zero (Nat.le_zero.mp hl)
  | succ n ih =>
    intro s c hl
    unfold closeRecvs; simp only
    split
    · next heq => exact heq
    · next e rq heq =>
      apply ih
      have hc : c < s.chans.length := by
        apply Decidable.byContradiction; intro hn
        have : getC s c = Chan.nil := by
          simp [getC_def, List.getD_eq_getElem?_getD, List.getElem?_eq_none (Nat.le_of_not_lt hn)]
        rw [this] at heq; cases heq
      have hg : getC (setC s c { getC s c with recvQ := rq }) c = { getC s c with recvQ := rq } := by
        simp [getC_def, hc]
      have h1 := (fireRecv_shrinks (setC s c { getC s c with recvQ := rq }) e 0 false c).recvQ.length_le
      rw [← getC_def, ← getC_def, hg] at h1
      dsimp only at h1
      rw [heq] at hl; simp at hl; omega

/-- after the two loops of `$close` nobody is queued on the channel -/
theorem closeLoops_empty (s1 : State) (c : Nat) :
    let s3 := closeRecvs (getC (closeSenders (getC s1 c).sendQ.length s1 c) c).recvQ.length (closeSenders (getC s1 c).sendQ.length s1 c) c
    (getC s3 c).sendQ = [] ∧ (getC s3 c).recvQ = [] := by
  intro s3
  refine ⟨?_, closeRecvs_empties _ _ _ (Nat.le_refl _)⟩
  have h1 := closeSenders_empties (getC s1 c).sendQ.length s1 c (Nat.le_refl _)
  have h2 := (closeRecvs_shrinks (getC (closeSenders (getC s1 c).sendQ.length s1 c) c).recvQ.length (closeSenders (getC s1 c).sendQ.length s1 c) c c).sendQ
  rw [← getC_def, ← getC_def, h1] at h2
  exact List.sublist_nil.mp h2

theorem doClose_ce (s : State) (c : Nat) (h : AllCE s.chans) : AllCE (doClose s c).1.chans := by
  unfold doClose; simp only
  split
  · exact h
  · split
    · exact h
    · intro i
      have hsh := closeLoops_shrinks (setC s c { getC s c with closed := true }) c (getC s c).sendQ.length i
      by_cases hi : c = i
      · subst hi
        have hl : (getC (setC s c { getC s c with closed := true }) c).sendQ.length = (getC s c).sendQ.length := by
          simp only [getC_def, setC_chans, getD_set]; split <;> rfl
        have := closeLoops_empty (setC s c { getC s c with closed := true }) c
        rw [hl] at this
        intro _; exact this
      · apply CE.shrink _ hsh
        simp only [setC_chans, getD_set]
        rw [if_neg (fun hh => hi hh.1)]
        exact h i

theorem registerCases_ce (g : Nat) (cases : List Case) : ∀ (i : Nat) (cs : List Chan),
    AllCE cs → (∀ k ∈ cases, NotReady g cs k) → AllCE (registerCases g cases i cs) := by
  induction cases with
  | nil => intro i cs h _; exact h
  | cons k rest ih =>
    intro i cs h hn
    have hk := hn k (by simp)
    cases k with
    | dflt => exact ih _ _ h (fun k' hk' => hn k' (by simp [hk']))
    | recv c =>
      unfold registerCases; simp only
      apply ih
      · exact h.set c (ce_open hk.2.1)
      · intro k' hk'
        exact notReady_stable g cs
          { cs.getD c Chan.nil with recvQ := pushQ (cs.getD c Chan.nil).isNil (cs.getD c Chan.nil).recvQ ⟨g, some i, 0⟩ }
          c rfl rfl rfl (fun e he => Or.inl he)
          (fun e he => by rcases mem_pushQ he with h3 | h3; exact Or.inl h3; exact Or.inr (by rw [h3])) k' (hn k' (by simp [hk']))
    | send c v =>
      unfold registerCases; simp only
      apply ih
      · exact h.set c (ce_open hk.2.1)
      · intro k' hk'
        exact notReady_stable g cs
          { cs.getD c Chan.nil with sendQ := pushQ (cs.getD c Chan.nil).isNil (cs.getD c Chan.nil).sendQ ⟨g, some i, v⟩ }
          c rfl rfl rfl
          (fun e he => by rcases mem_pushQ he with h3 | h3; exact Or.inl h3; exact Or.inr (by rw [h3]))
          (fun e he => Or.inl he) k' (hn k' (by simp [hk']))

theorem doSelect_ce (s : State) (g : Nat) (cases : List Case) (pick : Nat) (h : AllCE s.chans) :
    AllCE (doSelect s g cases pick).1.chans := by
  unfold doSelect
  generalize hsc : scan s cases 0 = r
  obtain ⟨ready, dsel, thr⟩ := r
  simp only
  split
  · exact h
  · next hthr =>
    split
    · split
      · exact h
      · next c _ =>
        have := doRecv_ce s g c h
        split
        · next s1 v ok heq => rw [heq] at this; exact this
        · exact this
      · next c v _ =>
        have := doSend_ce s g c v h
        split
        · next s1 heq => rw [heq] at this; exact this
        · exact this
    · next hsel =>
      simp only [block_chans]
      have hr : ready = [] := by
        split at hsel
        · cases hsel
        · next hl => simp at hl; exact hl
      have ht : thr = false := by simpa using hthr
      subst hr; subst ht
      exact registerCases_ce g cases 0 s.chans h (scan_notReady g s cases 0 dsel hsc)

theorem step_ce (s : State) (ev : Event) (h : AllCE s.chans) : AllCE (step s ev).1.chans := by
  unfold step
  split
  · split
    · exact allCE_append h (ce_open rfl)
    · exact h
    · split
      · exact doSend_ce _ _ _ _ h
      · exact h
    · split
      · exact doRecv_ce _ _ _ h
      · exact h
    · split
      · exact doClose_ce _ _ h
      · exact h
    · split
      · exact doSelect_ce _ _ _ _ h
      · exact h
    · split <;> exact h
    · simp only [endSlice_chans, setG_chans]; exact h
    · exact h
    · exact h
  · split
    · split
      · split
        · exact h
        · exact h
      · exact h
      · exact h
    · split
      · exact allCE_append h (ce_open rfl)
      · simp only [enterLoop_chans, goNew_chans]; exact h
      · split
        · exact h
        · simp only [enterLoop_chans]; exact h
        · simp only
          split
          · exact h
          · split
            · next s2 heq =>
              have hcl : AllCE s2.chans := by
                have e := congrArg Prod.fst heq; simp only at e; rw [← e]; exact doClose_ce _ _ h
              split
              · simp only [enterLoop_chans]; exact hcl
              · exact hcl
            · exact doClose_ce _ _ h
      · exact h

theorem init_ce : AllCE GV.Sched.init.chans := by
  intro i
  cases i with
  | zero => exact ce_nil
  | succ n => simp [GV.Sched.init, List.getD_eq_getElem?_getD]; exact ce_nil

theorem runAll_ce : ∀ (evs : List Event) (s : State), AllCE s.chans → AllCE (runAll s evs).chans := by
  intro evs; induction evs with
  | nil => intro s h; exact h
  | cons e es ih => intro s h; exact ih _ (step_ce s e h)

theorem allCE_mem {cs : List Chan} (h : AllCE cs) {ch : Chan} (hm : ch ∈ cs) : CE ch := by
  obtain ⟨i, hi, rfl⟩ := List.getElem_of_mem hm
  have := h i
  simpa [List.getD_eq_getElem?_getD, List.getElem?_eq_getElem hi] using this

end GV.Proofs.ChanInv
