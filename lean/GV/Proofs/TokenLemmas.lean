import GV.Spec.JsTokens

/-! Item-level lemmas for GV.Props.C16: what `rwItems` keeps, and the token simulation. -/
namespace GV.Proofs.Tokens
open GV.JsTokens

theorem rwItems_significant : ∀ (its : List Item) (prev : Nat) (o : List Item),
    rwItems prev its = some o → significant o = significant its := by
  intro its
  induction its with
  | nil => intro prev o h; simp [rwItems] at h; subst h; rfl
  | cons it r ih =>
    intro prev o h
    cases it with
    | ws c =>
      rw [rwItems] at h
      cases hd : dropsWs prev (nextByte r) with
      | none => simp [hd] at h
      | some b =>
        cases b
        · simp only [hd] at h
          cases hr : rwItems c r with
          | none => simp [hr] at h
          | some o' =>
            simp [hr] at h; subst h
            simp [significant, ih c o' hr]
        · simp only [hd] at h
          simp [significant, ih prev o h]
    | comment b => rw [rwItems] at h; simp [significant, ih prev o h]
    | hint bs =>
      rw [rwItems] at h
      cases hr : rwItems prev r with
      | none => simp [hr] at h
      | some o' => simp [hr] at h; subst h; simp [significant, ih prev o' hr]
    | str b =>
      rw [rwItems] at h
      cases hr : rwItems 34 r with
      | none => simp [hr] at h
      | some o' => simp [hr] at h; subst h; simp [significant, ih 34 o' hr]
    | ch y =>
      rw [rwItems] at h
      split at h
      · simp at h
      · cases hr : rwItems y r with
        | none => simp [hr] at h
        | some o' => simp [hr] at h; subst h; simp [significant, ih y o' hr]

theorem hints_significant : ∀ (its : List Item), hintsOf (significant its) = hintsOf its
  | [] => rfl
  | it :: r => by
    cases it <;> simp [significant, hintsOf, hints_significant r]

theorem rwItems_ok : ∀ (its : List Item) (prev : Nat) (o : List Item),
    rwItems prev its = some o → its.all Item.ok = true → o.all Item.ok = true := by
  intro its
  induction its with
  | nil => intro prev o h _; simp [rwItems] at h; subst h; rfl
  | cons it r ih =>
    intro prev o h hok
    simp only [List.all_cons, Bool.and_eq_true] at hok
    cases it with
    | ws c =>
      rw [rwItems] at h
      cases hd : dropsWs prev (nextByte r) with
      | none => simp [hd] at h
      | some b =>
        cases b
        · simp only [hd] at h
          cases hr : rwItems c r with
          | none => simp [hr] at h
          | some o' => simp [hr] at h; subst h; simp [hok.1, ih c o' hr hok.2]
        · simp only [hd] at h
          exact ih prev o h hok.2
    | comment b => rw [rwItems] at h; exact ih prev o h hok.2
    | hint bs =>
      rw [rwItems] at h
      cases hr : rwItems prev r with
      | none => simp [hr] at h
      | some o' => simp [hr] at h; subst h; simp [hok.1, ih prev o' hr hok.2]
    | str b =>
      rw [rwItems] at h
      cases hr : rwItems 34 r with
      | none => simp [hr] at h
      | some o' => simp [hr] at h; subst h; simp [hok.1, ih 34 o' hr hok.2]
    | ch y =>
      rw [rwItems] at h
      split at h
      · simp at h
      · cases hr : rwItems y r with
        | none => simp [hr] at h
        | some o' => simp [hr] at h; subst h; simp [hok.1, ih y o' hr hok.2]

def okTail (p : Nat) : Bool := !needsSpaceS p && p != 45

/-- well-formed input that does not end at a look-ahead position is processed without reading past the end -/
theorem rwItems_total : ∀ (its : List Item) (p q : Nat), its.all Item.ok = true → tailOK q its = true →
    (okTail q = true → okTail p = true) → ∃ o, rwItems p its = some o := by
  intro its
  induction its with
  | nil => intro p q _ _ _; exact ⟨[], rfl⟩
  | cons it r ih =>
    intro p q hok ht hpq
    simp only [List.all_cons, Bool.and_eq_true] at hok
    cases it with
    | ws c =>
      rw [rwItems]
      rw [tailOK] at ht
      cases r with
      | nil =>
        simp at ht
        have := hpq (by simpa [okTail] using ht)
        simp [okTail] at this
        simp [dropsWs, this, rwItems]
      | cons it' r' =>
        simp at ht
        have hc : okTail c = true := by
          have : isWsByte c = true := by simpa [Item.ok] using hok.1
          simp [isWsByte] at this
          rcases this with (h | h) | h <;> subst h <;> rfl
        cases hd : dropsWs p (nextByte (it' :: r')) with
        | none =>
          simp only [dropsWs, nextByte] at hd
          split at hd <;> simp at hd
        | some b =>
          cases b
          · obtain ⟨o, ho⟩ := ih c q hok.2 ht (fun _ => hc)
            exact ⟨Item.ws c :: o, by simp [ho]⟩
          · exact ih p q hok.2 ht hpq
    | comment b => rw [rwItems]; rw [tailOK] at ht; exact ih p q hok.2 ht hpq
    | hint bs =>
      rw [rwItems]; rw [tailOK] at ht
      obtain ⟨o, ho⟩ := ih p q hok.2 ht hpq
      exact ⟨Item.hint bs :: o, by simp [ho]⟩
    | str b =>
      rw [rwItems]; rw [tailOK] at ht
      obtain ⟨o, ho⟩ := ih 34 34 hok.2 ht id
      exact ⟨Item.str b :: o, by simp [ho]⟩
    | ch y =>
      rw [rwItems]; rw [tailOK] at ht
      split at ht
      · simp at ht
      · rename_i hne
        obtain ⟨o, ho⟩ := ih y y hok.2 ht id
        simp only [hne]
        exact ⟨Item.ch y :: o, by simp [ho]⟩

end GV.Proofs.Tokens

namespace GV.Proofs.Tokens
open GV.JsTokens

theorem table_slash : ∀ e ∈ punctTable, e.getLast? = some 47 → e = [47] := by decide

theorem punct_slash (acc : List Nat) (h : isPunct (acc ++ [47]) = true) : acc = [] := by
  have h1 : (acc ++ [47]) ∈ punctTable := by simpa [isPunct] using h
  have := table_slash _ h1 (by simp)
  simpa using this

/-- after a `/` the automaton is in a state that would swallow a `*` -/
theorem step_slash (st : St) : absorbs (step st 47).2 42 = true := by
  unfold step
  by_cases ha : absorbs st 47 = true
  · simp only [ha, if_true]
    cases st with
    | start => simp [absorbs] at ha
    | word acc => simp [absorbs, isIdentChar] at ha
    | num acc => simp [absorbs, isIdentChar] at ha
    | punct acc =>
      have hacc : acc = [] := by
        simp only [absorbs, Bool.or_eq_true, Bool.and_eq_true] at ha
        rcases ha with (h | h) | h
        · exact punct_slash acc h
        · simp [isDigit] at h
        · simp at h
      subst hacc
      decide
  · simp only [ha, Bool.false_eq_true, if_false]
    decide

theorem flush_start_step (y : Nat) : step .start y = ((begin y).1, (begin y).2) := by
  simp [step, absorbs, flush]

/-- The simulation: `S` — output and input automata in the same state; `P` — the output automaton still holds the
    token `st` while the input automaton was reset by a separator that has been dropped. -/
theorem sim : ∀ (its : List Item),
    (∀ (prev : Nat) (st : St) (f : Bool) (o : List Item), safeGo false prev st its = true → nssGo f its = true →
        rwItems prev its = some o → (f = true → absorbs st 42 = true) →
        tokGo st o = tokGo st its ∧ nssGo f o = true) ∧
    (∀ (prev : Nat) (st : St) (f' : Bool) (o : List Item), safeGo true prev st its = true → nssGo false its = true →
        rwItems prev its = some o → (f' = true → absorbs st 42 = true) →
        tokGo st o = flush st ++ tokGo .start its ∧ nssGo f' o = true) := by
  intro its
  induction its with
  | nil =>
    constructor
    · intro prev st f o _ _ h _; simp [rwItems] at h; subst h; exact ⟨rfl, rfl⟩
    · intro prev st f' o _ _ h _; simp [rwItems] at h; subst h; simp [tokGo, flush, nssGo]
  | cons it r ih =>
    obtain ⟨ihS, ihP⟩ := ih
    cases it with
    | ws c =>
      constructor
      · intro prev st f o hs hn h hf
        rw [rwItems] at h; rw [safeGo] at hs
        have hn' : nssGo false r = true := by simpa [nssGo] using hn
        cases hd : dropsWs prev (nextByte r) with
        | none => simp [hd] at h
        | some b =>
          cases b
          · simp only [hd] at h hs
            cases hr : rwItems c r with
            | none => simp [hr] at h
            | some o' =>
              simp [hr] at h; subst h
              obtain ⟨h1, h2⟩ := ihS c .start false o' hs hn' hr (by simp)
              simp [tokGo, h1, nssGo, h2]
          · simp only [hd] at h hs
            obtain ⟨h1, h2⟩ := ihP prev st f o hs hn' h hf
            simp [tokGo, h1, h2]
      · intro prev st f' o hs hn h hf
        rw [rwItems] at h; rw [safeGo] at hs
        have hn' : nssGo false r = true := by simpa [nssGo] using hn
        cases hd : dropsWs prev (nextByte r) with
        | none => simp [hd] at h
        | some b =>
          cases b
          · simp only [hd] at h hs
            cases hr : rwItems c r with
            | none => simp [hr] at h
            | some o' =>
              simp [hr] at h; subst h
              obtain ⟨h1, h2⟩ := ihS c .start false o' hs hn' hr (by simp)
              simp [tokGo, h1, nssGo, h2, flush]
          · simp only [hd] at h hs
            obtain ⟨h1, h2⟩ := ihP prev st f' o hs hn' h hf
            simp [tokGo, h1, h2, flush]
    | comment b =>
      constructor
      · intro prev st f o hs hn h hf
        rw [rwItems] at h; rw [safeGo] at hs
        have hn' : nssGo false r = true := by simpa [nssGo] using hn
        obtain ⟨h1, h2⟩ := ihP prev st f o hs hn' h hf
        simp [tokGo, h1, h2]
      · intro prev st f' o hs hn h hf
        rw [rwItems] at h; rw [safeGo] at hs
        have hn' : nssGo false r = true := by simpa [nssGo] using hn
        obtain ⟨h1, h2⟩ := ihP prev st f' o hs hn' h hf
        simp [tokGo, h1, h2, flush]
    | hint bs =>
      constructor
      · intro prev st f o hs hn h hf
        rw [rwItems] at h; rw [safeGo] at hs
        have hn' : nssGo false r = true := by simpa [nssGo] using hn
        cases hr : rwItems prev r with
        | none => simp [hr] at h
        | some o' =>
          simp [hr] at h; subst h
          obtain ⟨h1, h2⟩ := ihS prev st false o' hs hn' hr (by simp)
          simp [tokGo, h1, nssGo, h2]
      · intro prev st f' o hs hn h hf
        rw [rwItems] at h; rw [safeGo] at hs
        have hn' : nssGo false r = true := by simpa [nssGo] using hn
        cases hr : rwItems prev r with
        | none => simp [hr] at h
        | some o' =>
          simp [hr] at h; subst h
          obtain ⟨h1, h2⟩ := ihP prev st false o' hs hn' hr (by simp)
          simp [tokGo, h1, nssGo, h2]
    | str b =>
      constructor
      · intro prev st f o hs hn h hf
        rw [rwItems] at h; rw [safeGo] at hs
        have hn' : nssGo false r = true := by simpa [nssGo] using hn
        cases hr : rwItems 34 r with
        | none => simp [hr] at h
        | some o' =>
          simp [hr] at h; subst h
          obtain ⟨h1, h2⟩ := ihS 34 .start false o' hs hn' hr (by simp)
          simp [tokGo, h1, nssGo, h2]
      · intro prev st f' o hs hn h hf
        rw [rwItems] at h; rw [safeGo] at hs
        have hn' : nssGo false r = true := by simpa [nssGo] using hn
        cases hr : rwItems 34 r with
        | none => simp [hr] at h
        | some o' =>
          simp [hr] at h; subst h
          obtain ⟨h1, h2⟩ := ihS 34 .start false o' hs hn' hr (by simp)
          simp [tokGo, h1, nssGo, h2, flush]
    | ch y =>
      constructor
      · intro prev st f o hs hn h hf
        rw [rwItems] at h; rw [safeGo] at hs
        simp only [nssGo, Bool.and_eq_true] at hn
        simp only [Bool.false_and, Bool.not_false, Bool.true_and] at hs
        split at h
        · simp at h
        · cases hr : rwItems y r with
          | none => simp [hr] at h
          | some o' =>
            simp [hr] at h; subst h
            have hf' : (y == 47) = true → absorbs (step st y).2 42 = true := by
              intro h47; have : y = 47 := by simpa using h47
              subst this; exact step_slash st
            obtain ⟨h1, h2⟩ := ihS y (step st y).2 (y == 47) o' hs hn.2 hr hf'
            simp [tokGo, h1, nssGo, h2, hn.1]
      · intro prev st f' o hs hn h hf
        rw [rwItems] at h; rw [safeGo] at hs
        simp only [nssGo, Bool.and_eq_true] at hn
        simp only [Bool.true_and, Bool.and_eq_true, Bool.not_eq_true'] at hs
        obtain ⟨hna, hs⟩ := hs
        split at h
        · simp at h
        · cases hr : rwItems y r with
          | none => simp [hr] at h
          | some o' =>
            simp [hr] at h; subst h
            have hstep : step st y = (flush st ++ (begin y).1, (begin y).2) := by simp [step, hna]
            have hf2 : (y == 47) = true → absorbs (begin y).2 42 = true := by
              intro h47; have : y = 47 := by simpa using h47
              subst this; decide
            rw [hstep] at hs
            obtain ⟨h1, h2⟩ := ihS y (begin y).2 (y == 47) o' hs hn.2 hr hf2
            have hy42 : (f' && y == 42) = false := by
              cases f' with
              | false => rfl
              | true =>
                have := hf rfl
                by_cases h42 : y = 42
                · subst h42; rw [this] at hna; cases hna
                · simp [h42]
            simp [tokGo, hstep, flush_start_step, h1, nssGo, h2, hy42]
end GV.Proofs.Tokens
