import GV.Spec.JsTokens

/-! Item-level lemmas for GV.Props.C16: what `rwItems` keeps, and the token simulation. -/
namespace GV.Proofs.Tokens
open GV.JsTokens

theorem rwItems_significant : ∀ (its : List Item) (prev : Nat) (o : List Item),
    rwItems prev its = some o → significant o = significant its := by
  intro its
  induction its with
  | nil => intro prev o h; simp [rwItems] at h; subst h; rfl
  | cons it r ih =>
    intro prev o h
    cases it with
    | ws c =>
      rw [rwItems] at h
      cases hd : dropsWs prev (nextByte r) with
      | none => simp [hd] at h
      | some b =>
        cases b
        · simp only [hd] at h
          cases hr : rwItems c r with
          | none => simp [hr] at h
          | some o' =>
            simp [hr] at h; subst h
            simp [significant, ih c o' hr]
        · simp only [hd] at h
          simp [significant, ih prev o h]
    | comment b => rw [rwItems] at h; simp [significant, ih prev o h]
    | hint bs =>
      rw [rwItems] at h
      cases hr : rwItems prev r with
      | none => simp [hr] at h
      | some o' => simp [hr] at h; subst h; simp [significant, ih prev o' hr]
    | str b =>
      rw [rwItems] at h
      cases hr : rwItems 34 r with
      | none => simp [hr] at h
      | some o' => simp [hr] at h; subst h; simp [significant, ih 34 o' hr]
    | ch y =>
      rw [rwItems] at h
      split at h
      · simp at h
      · cases hr : rwItems y r with
        | none => simp [hr] at h
        | some o' => simp [hr] at h; subst h; simp [significant, ih y o' hr]

theorem hints_significant : ∀ (its : List Item), hintsOf (significant its) = hintsOf its
  | [] => rfl
  | it :: r => by
    cases it <;> simp [significant, hintsOf, hints_significant r]

theorem rwItems_ok : ∀ (its : List Item) (prev : Nat) (o : List Item),
    rwItems prev its = some o → its.all Item.ok = true → o.all Item.ok = true := by
  intro its
  induction its with
  | nil => intro prev o h _; simp [rwItems] at h; subst h; rfl
  | cons it r ih =>
    intro prev o h hok
    simp only [List.all_cons, Bool.and_eq_true] at hok
    cases it with
    | ws c =>
      rw [rwItems] at h
      cases hd : dropsWs prev (nextByte r) with
      | none => simp [hd] at h
      | some b =>
        cases b
        · simp only [hd] at h
          cases hr : rwItems c r with
          | none => simp [hr] at h
          | some o' => simp [hr] at h; subst h; simp [hok.1, ih c o' hr hok.2]
        · simp only [hd] at h
          exact ih prev o h hok.2
    | comment b => rw [rwItems] at h; exact ih prev o h hok.2
    | hint bs =>
      rw [rwItems] at h
      cases hr : rwItems prev r with
      | none => simp [hr] at h
      | some o' => simp [hr] at h; subst h; simp [hok.1, ih prev o' hr hok.2]
    | str b =>
      rw [rwItems] at h
      cases hr : rwItems 34 r with
      | none => simp [hr] at h
      | some o' => simp [hr] at h; subst h; simp [hok.1, ih 34 o' hr hok.2]
    | ch y =>
      rw [rwItems] at h
      split at h
      · simp at h
      · cases hr : rwItems y r with
        | none => simp [hr] at h
        | some o' => simp [hr] at h; subst h; simp [hok.1, ih y o' hr hok.2]

def okTail (p : Nat) : Bool := !needsSpaceS p && p != 45

/-- well-formed input that does not end at a look-ahead position is processed without reading past the end -/
theorem rwItems_total : ∀ (its : List Item) (p q : Nat), its.all Item.ok = true → tailOK q its = true →
    (okTail q = true → okTail p = true) → ∃ o, rwItems p its = some o := by
  intro its
  induction its with
  | nil => intro p q _ _ _; exact ⟨[], rfl⟩
  | cons it r ih =>
    intro p q hok ht hpq
    simp only [List.all_cons, Bool.and_eq_true] at hok
    cases it with
    | ws c =>
      rw [rwItems]
      rw [tailOK] at ht
      cases r with
      | nil =>
        simp at ht
        have := hpq (by simpa [okTail] using ht)
        simp [okTail] at this
        simp [dropsWs, this, rwItems]
      | cons it' r' =>
        simp at ht
        have hc : okTail c = true := by
          have : isWsByte c = true := by simpa [Item.ok] using hok.1
          simp [isWsByte] at this
          rcases this with (h | h) | h <;> subst h <;> rfl
        cases hd : dropsWs p (nextByte (it' :: r')) with
        | none =>
          simp only [dropsWs, nextByte] at hd
          split at hd <;> simp at hd
        | some b =>
          cases b
          · obtain ⟨o, ho⟩ := ih c q hok.2 ht (fun _ => hc)
            exact ⟨Item.ws c :: o, by simp [ho]⟩
          · exact ih p q hok.2 ht hpq
    | comment b => rw [rwItems]; rw [tailOK] at ht; exact ih p q hok.2 ht hpq
    | hint bs =>
      rw [rwItems]; rw [tailOK] at ht
      obtain ⟨o, ho⟩ := ih p q hok.2 ht hpq
      exact ⟨Item.hint bs :: o, by simp [ho]⟩
    | str b =>
      rw [rwItems]; rw [tailOK] at ht
      obtain ⟨o, ho⟩ := ih 34 34 hok.2 ht id
      exact ⟨Item.str b :: o, by simp [ho]⟩
    | ch y =>
      rw [rwItems]; rw [tailOK] at ht
      split at ht
      · simp at ht
      · rename_i hne
        obtain ⟨o, ho⟩ := ih y y hok.2 ht id
        simp only [hne]
        exact ⟨Item.ch y :: o, by simp [ho]⟩

end GV.Proofs.Tokens
