/-
  GV.Proofs.DceNames — the filter-name rendering of GV.Model.DceNames is injective (prefix property by mutual
  structural induction).
-/
import GV.Model.DceNames

namespace GV.DceNames

/-- tokens that can follow a complete type inside a filter name -/
def isSep : Tok → Bool
  | .comma | .rb | .rp | .semi => true
  | _ => false

/-- tokens that close a list -/
def isClose : Tok → Bool
  | .rb | .rp | .semi => true
  | _ => false

/-- first tokens of types -/
def isStart : Tok → Bool
  | .atom _ | .obj _ _ | .star | .slice | .arr _ | .chan | .map | .func => true
  | _ => false

def Follow (r : List Tok) : Prop := ∀ a r', r = a :: r' → isSep a = true
def Close (r : List Tok) : Prop := ∃ a r', r = a :: r' ∧ isClose a = true

theorem Close.follow {r : List Tok} (h : Close r) : Follow r := by
  obtain ⟨a, r', rfl, ha⟩ := h
  intro b r'' hb
  cases hb
  cases a <;> simp_all [isClose, isSep]

theorem follow_nil : Follow [] := by intro a r' h; cases h

theorem follow_cons {a : Tok} {r : List Tok} (h : isSep a = true) : Follow (a :: r) := by
  intro b r' hb; cases hb; exact h

theorem close_cons {a : Tok} {r : List Tok} (h : isClose a = true) : Close (a :: r) := ⟨a, r, rfl, h⟩

theorem Ty.render_head (t : Ty) : ∃ a rest, t.render = a :: rest ∧ isStart a = true := by
  cases t <;> simp [Ty.render, isStart]

theorem TyList.isNil_eq {l : TyList} (h : l.isNil = true) : l = .nil := by
  cases l <;> simp_all [TyList.isNil]

theorem TyList.render_head {l : TyList} (h : l.isNil = false) :
    ∃ a rest, l.render = a :: rest ∧ (isStart a = true ∨ a = .ellipsis) := by
  cases l with
  | nil => simp [TyList.isNil] at h
  | cons t l =>
    obtain ⟨a, rest, ha, hs⟩ := t.render_head
    exact ⟨a, rest ++ (if l.isNil then [] else .comma :: l.render), by simp [TyList.render, ha], Or.inl hs⟩
  | variadic t => exact ⟨.ellipsis, t.render, by simp [TyList.render], Or.inr rfl⟩

/-- a start token (or `...`) is neither a separator nor a closer nor one of `[ ( blank` -/
theorem start_not {a : Tok} (h : isStart a = true ∨ a = .ellipsis) :
    isSep a = false ∧ isClose a = false ∧ a ≠ .lb ∧ a ≠ .lp ∧ a ≠ .sp ∧ a ≠ .comma := by
  rcases h with h | h
  · cases a <;> simp_all [isStart, isSep, isClose]
  · subst h; simp [isSep, isClose]

/-- the text after the results of a signature: nothing, " T", or "(T, …)" -/
def resTail (rs : TyList) : List Tok :=
  if rs.isNil then [] else if rs.isSingle then .sp :: rs.render else .lp :: (rs.render ++ [.rp])

/-- the bracket part of an object name -/
def bracket (nest args : TyList) : List Tok :=
  if nest.isNil && args.isNil then []
  else .lb :: ((if nest.isNil then [] else nest.render ++ .semi :: (if args.isNil then [] else [.sp])) ++
         args.render ++ [.rb])

theorem render_named (p n : String) (nest args : TyList) :
    (Ty.named p n nest args).render = .obj p n :: bracket nest args := by
  simp [Ty.render, bracket]

theorem render_func (ps rs : TyList) : (Ty.func ps rs).render = .func :: .lp :: (ps.render ++ .rp :: resTail rs) := by
  simp [Ty.render, resTail]

theorem isSingle_cases {l : TyList} (h : l.isSingle = true) : ∃ t, l = .cons t .nil := by
  cases l with
  | nil => simp [TyList.isSingle] at h
  | cons t l => cases l <;> simp_all [TyList.isSingle]
  | variadic t => simp [TyList.isSingle] at h

set_option linter.unusedSimpArgs false in
mutual
  /-- prefix property: a rendered type followed by a separator (or nothing) determines the type -/
  theorem ty_prefix : ∀ (t₁ t₂ : Ty) (r₁ r₂ : List Tok), t₁.render ++ r₁ = t₂.render ++ r₂ →
      Follow r₁ → Follow r₂ → t₁ = t₂ ∧ r₁ = r₂
    | .basic s₁, t₂, r₁, r₂, h, _, _ => by
      cases t₂ with
      | basic s₂ => simp [Ty.render] at h; simp [h]
      | _ => simp [Ty.render] at h
    | .ptr e₁, t₂, r₁, r₂, h, f₁, f₂ => by
      cases t₂ with
      | ptr e₂ =>
        have := ty_prefix e₁ e₂ r₁ r₂ (by simpa [Ty.render] using h) f₁ f₂
        simp [this]
      | _ => simp [Ty.render] at h
    | .slice e₁, t₂, r₁, r₂, h, f₁, f₂ => by
      cases t₂ with
      | slice e₂ =>
        have := ty_prefix e₁ e₂ r₁ r₂ (by simpa [Ty.render] using h) f₁ f₂
        simp [this]
      | _ => simp [Ty.render] at h
    | .chan e₁, t₂, r₁, r₂, h, f₁, f₂ => by
      cases t₂ with
      | chan e₂ =>
        have := ty_prefix e₁ e₂ r₁ r₂ (by simpa [Ty.render] using h) f₁ f₂
        simp [this]
      | _ => simp [Ty.render] at h
    | .arr n₁ e₁, t₂, r₁, r₂, h, f₁, f₂ => by
      cases t₂ with
      | arr n₂ e₂ =>
        simp only [Ty.render, List.cons_append, List.cons.injEq, Tok.arr.injEq] at h
        have := ty_prefix e₁ e₂ r₁ r₂ h.2 f₁ f₂
        simp [this, h.1]
      | _ => simp [Ty.render] at h
    | .map k₁ v₁, t₂, r₁, r₂, h, f₁, f₂ => by
      cases t₂ with
      | map k₂ v₂ =>
        simp only [Ty.render, List.cons_append, List.cons.injEq, true_and, List.append_assoc] at h
        have hk := ty_prefix k₁ k₂ (.rb :: (v₁.render ++ r₁)) (.rb :: (v₂.render ++ r₂)) h
          (follow_cons rfl) (follow_cons rfl)
        simp only [List.cons.injEq, true_and] at hk
        have hv := ty_prefix v₁ v₂ r₁ r₂ hk.2 f₁ f₂
        simp [hk.1, hv]
      | _ => simp [Ty.render] at h
    | .named p₁ n₁ nest₁ args₁, t₂, r₁, r₂, h, f₁, f₂ => by
      cases t₂ with
      | named p₂ n₂ nest₂ args₂ =>
        rw [render_named, render_named] at h
        simp only [List.cons_append, List.cons.injEq, Tok.obj.injEq] at h
        obtain ⟨⟨hp, hn⟩, h⟩ := h
        subst hp hn
        -- the part between the brackets, as one list-level statement
        have key : ∀ (na₁ na₂ : TyList × TyList) (r₁ r₂ : List Tok),
            bracket na₁.1 na₁.2 ++ r₁ = bracket na₂.1 na₂.2 ++ r₂ → Follow r₁ → Follow r₂ →
            (∀ q₁ q₂, na₁.1.render ++ q₁ = na₂.1.render ++ q₂ → Close q₁ → Close q₂ → na₁.1 = na₂.1 ∧ q₁ = q₂) →
            (∀ q₁ q₂, na₁.2.render ++ q₁ = na₂.2.render ++ q₂ → Close q₁ → Close q₂ → na₁.2 = na₂.2 ∧ q₁ = q₂) →
            (∀ q₁ q₂, na₁.2.render ++ q₁ = na₂.1.render ++ q₂ → Close q₁ → Close q₂ → na₁.2 = na₂.1 ∧ q₁ = q₂) →
            (∀ q₁ q₂, na₁.1.render ++ q₁ = na₂.2.render ++ q₂ → Close q₁ → Close q₂ → na₁.1 = na₂.2 ∧ q₁ = q₂) →
            na₁ = na₂ ∧ r₁ = r₂ := by
          intro ⟨ne₁, ar₁⟩ ⟨ne₂, ar₂⟩ r₁ r₂ hb g₁ g₂ inn iaa ian ina
          simp only at hb inn iaa ian ina ⊢
          unfold bracket at hb
          by_cases e₁ : ne₁.isNil = true <;> by_cases a₁ : ar₁.isNil = true <;>
            by_cases e₂ : ne₂.isNil = true <;> by_cases a₂ : ar₂.isNil = true
          all_goals simp only [e₁, a₁, e₂, a₂, Bool.and_self, Bool.and_true, Bool.and_false, Bool.true_and, Bool.false_and,
            if_true, if_false, Bool.false_eq_true, List.nil_append, List.cons_append, List.append_assoc,
            List.cons.injEq, true_and] at hb
          -- 16 cases
          · simp [TyList.isNil_eq e₁, TyList.isNil_eq a₁, TyList.isNil_eq e₂, TyList.isNil_eq a₂, hb]
          · exact absurd (g₁ _ _ hb) (by simp [isSep])
          · exact absurd (g₁ _ _ hb) (by simp [isSep])
          · exact absurd (g₁ _ _ hb) (by simp [isSep])
          · exact absurd (g₂ _ _ hb.symm) (by simp [isSep])
          · -- [args₁] vs [args₂]
            have := iaa _ _ hb (close_cons rfl) (close_cons rfl)
            simp only [List.cons.injEq, true_and] at this
            simp [TyList.isNil_eq e₁, TyList.isNil_eq e₂, this]
          · -- [args₁] vs [nest₂;]
            rw [TyList.isNil_eq a₂] at hb
            have := ian _ _ (by simpa [TyList.render] using hb) (close_cons rfl) (close_cons rfl)
            simp at this
          · -- [args₁] vs [nest₂; args₂]
            have := ian _ _ hb (close_cons rfl) (close_cons rfl)
            simp at this
          · exact absurd (g₂ _ _ hb.symm) (by simp [isSep])
          · -- [nest₁;] vs [args₂]
            rw [TyList.isNil_eq a₁] at hb
            have := ina _ _ (by simpa [TyList.render] using hb) (close_cons rfl) (close_cons rfl)
            simp at this
          · -- [nest₁;] vs [nest₂;]
            rw [TyList.isNil_eq a₁, TyList.isNil_eq a₂] at hb
            have := inn _ _ (by simpa [TyList.render] using hb) (close_cons rfl) (close_cons rfl)
            simp only [List.cons.injEq, true_and] at this
            simp [TyList.isNil_eq a₁, TyList.isNil_eq a₂, this]
          · -- [nest₁;] vs [nest₂; args₂]
            rw [TyList.isNil_eq a₁] at hb
            have := inn _ _ (by simpa [TyList.render] using hb) (close_cons rfl) (close_cons rfl)
            simp only [List.cons.injEq, true_and] at this
            obtain ⟨a, rest, ha, hs⟩ := TyList.render_head (l := ar₂) (by simpa using a₂)
            rw [ha] at this
            simp at this
          · exact absurd (g₂ _ _ hb.symm) (by simp [isSep])
          · -- [nest₁; args₁] vs [args₂]
            have := ina _ _ hb (close_cons rfl) (close_cons rfl)
            simp at this
          · -- [nest₁; args₁] vs [nest₂;]
            rw [TyList.isNil_eq a₂] at hb
            have := inn _ _ (by simpa [TyList.render] using hb) (close_cons rfl) (close_cons rfl)
            simp only [List.cons.injEq, true_and] at this
            obtain ⟨a, rest, ha, hs⟩ := TyList.render_head (l := ar₁) (by simpa using a₁)
            rw [ha] at this
            simp at this
          · -- [nest₁; args₁] vs [nest₂; args₂]
            have h1 := inn _ _ hb (close_cons rfl) (close_cons rfl)
            simp only [List.cons.injEq, true_and] at h1
            have h2 := iaa _ _ h1.2 (close_cons rfl) (close_cons rfl)
            simp only [List.cons.injEq, true_and] at h2
            simp [h1.1, h2]
        have := key (nest₁, args₁) (nest₂, args₂) r₁ r₂ h f₁ f₂
          (fun q₁ q₂ => list_prefix nest₁ nest₂ q₁ q₂) (fun q₁ q₂ => list_prefix args₁ args₂ q₁ q₂)
          (fun q₁ q₂ => list_prefix args₁ nest₂ q₁ q₂) (fun q₁ q₂ => list_prefix nest₁ args₂ q₁ q₂)
        simp only [Prod.mk.injEq] at this
        simp [this]
      | _ => simp [Ty.render] at h
    | .func ps₁ rs₁, t₂, r₁, r₂, h, f₁, f₂ => by
      cases t₂ with
      | func ps₂ rs₂ =>
        rw [render_func, render_func] at h
        simp only [List.cons_append, List.cons.injEq, true_and, List.append_assoc] at h
        have hp := list_prefix ps₁ ps₂ _ _ h (close_cons rfl) (close_cons rfl)
        simp only [List.cons.injEq, true_and] at hp
        obtain ⟨hps, hr⟩ := hp
        unfold resTail at hr
        by_cases n₁ : rs₁.isNil = true <;> by_cases n₂ : rs₂.isNil = true
        · simp only [n₁, n₂, if_true, List.nil_append, Bool.false_eq_true, if_false] at hr
          simp [hps, TyList.isNil_eq n₁, TyList.isNil_eq n₂, hr]
        · simp only [n₁, n₂, if_true, if_false, List.nil_append, Bool.false_eq_true] at hr
          by_cases s₂ : rs₂.isSingle = true
          · simp only [s₂, if_true, List.cons_append, Bool.false_eq_true, if_false] at hr
            exact absurd (f₁ _ _ hr) (by simp [isSep])
          · simp only [s₂, if_false, List.cons_append, Bool.false_eq_true, if_true] at hr
            exact absurd (f₁ _ _ hr) (by simp [isSep])
        · simp only [n₁, n₂, if_true, if_false, List.nil_append, Bool.false_eq_true] at hr
          by_cases s₁ : rs₁.isSingle = true
          · simp only [s₁, if_true, List.cons_append, Bool.false_eq_true, if_false] at hr
            exact absurd (f₂ _ _ hr.symm) (by simp [isSep])
          · simp only [s₁, if_false, List.cons_append, Bool.false_eq_true, if_true] at hr
            exact absurd (f₂ _ _ hr.symm) (by simp [isSep])
        · simp only [n₁, n₂, if_false, Bool.false_eq_true, if_true] at hr
          by_cases s₁ : rs₁.isSingle = true <;> by_cases s₂ : rs₂.isSingle = true
          · simp only [s₁, s₂, if_true, List.cons_append, List.cons.injEq, true_and, Bool.false_eq_true, if_false] at hr
            match rs₁, rs₂, s₁, s₂, hr with
            | .cons u₁ .nil, .cons u₂ .nil, _, _, hr =>
              have := ty_prefix u₁ u₂ r₁ r₂ (by simpa [TyList.render, TyList.isNil] using hr) f₁ f₂
              simp [hps, this]
          · simp only [s₁, s₂, if_true, if_false, List.cons_append, List.cons.injEq, Bool.false_eq_true] at hr
            exact absurd hr.1 (by simp)
          · simp only [s₁, s₂, if_true, if_false, List.cons_append, List.cons.injEq, Bool.false_eq_true] at hr
            exact absurd hr.1 (by simp)
          · simp only [s₁, s₂, if_false, List.cons_append, List.cons.injEq, true_and, List.append_assoc, Bool.false_eq_true, if_true] at hr
            have := list_prefix rs₁ rs₂ _ _ hr (close_cons rfl) (close_cons rfl)
            simp only [List.cons.injEq, true_and, List.nil_append] at this
            simp [hps, this]
      | _ => simp [Ty.render] at h
  /-- prefix property of lists: a rendered tuple / argument list followed by its closer determines the list -/
  theorem list_prefix : ∀ (l₁ l₂ : TyList) (r₁ r₂ : List Tok), l₁.render ++ r₁ = l₂.render ++ r₂ →
      Close r₁ → Close r₂ → l₁ = l₂ ∧ r₁ = r₂
    | .nil, l₂, r₁, r₂, h, c₁, _ => by
      by_cases n₂ : l₂.isNil = true
      · rw [TyList.isNil_eq n₂] at h ⊢
        simpa [TyList.render] using h
      · obtain ⟨a, rest, ha, hs⟩ := TyList.render_head (l := l₂) (by simpa using n₂)
        obtain ⟨b, r', hb, hc⟩ := c₁
        rw [ha, hb] at h
        simp only [TyList.render, List.nil_append, List.cons_append, List.cons.injEq] at h
        rw [h.1] at hc
        simp [(start_not hs).2.1] at hc
    | .variadic u₁, l₂, r₁, r₂, h, c₁, c₂ => by
      cases l₂ with
      | nil =>
        obtain ⟨b, r', hb, hc⟩ := c₂
        rw [hb] at h
        simp only [TyList.render, List.nil_append, List.cons_append, List.cons.injEq] at h
        rw [← h.1] at hc
        simp [isClose] at hc
      | cons u₂ l₂ =>
        obtain ⟨a, rest, ha, hs⟩ := u₂.render_head
        simp only [TyList.render, ha, List.cons_append, List.cons.injEq] at h
        rw [← h.1] at hs
        simp [isStart] at hs
      | variadic u₂ =>
        simp only [TyList.render, List.cons_append, List.cons.injEq, true_and] at h
        have := ty_prefix u₁ u₂ r₁ r₂ h c₁.follow c₂.follow
        simp [this]
    | .cons u₁ l₁, l₂, r₁, r₂, h, c₁, c₂ => by
      cases l₂ with
      | nil =>
        obtain ⟨a, rest, ha, hs⟩ := u₁.render_head
        obtain ⟨b, r', hb, hc⟩ := c₂
        rw [hb] at h
        simp only [TyList.render, ha, List.nil_append, List.cons_append, List.cons.injEq] at h
        rw [← h.1] at hc
        simp [(start_not (Or.inl hs)).2.1] at hc
      | variadic u₂ =>
        obtain ⟨a, rest, ha, hs⟩ := u₁.render_head
        simp only [TyList.render, ha, List.cons_append, List.cons.injEq] at h
        rw [h.1] at hs
        simp [isStart] at hs
      | cons u₂ l₂ =>
        simp only [TyList.render, List.append_assoc] at h
        have tailFollow : ∀ (l : TyList) (r : List Tok), Close r →
            Follow ((if l.isNil = true then [] else Tok.comma :: l.render) ++ r) := by
          intro l r c
          by_cases n : l.isNil = true
          · simp only [n, if_true, List.nil_append]; exact c.follow
          · simp only [n, if_false, List.cons_append]; exact follow_cons rfl
        have hu := ty_prefix u₁ u₂ _ _ h (tailFollow l₁ r₁ c₁) (tailFollow l₂ r₂ c₂)
        obtain ⟨hu1, ht⟩ := hu
        by_cases n₁ : l₁.isNil = true <;> by_cases n₂ : l₂.isNil = true
        · simp only [n₁, n₂, if_true, List.nil_append, Bool.false_eq_true, if_false] at ht
          simp [hu1, TyList.isNil_eq n₁, TyList.isNil_eq n₂, ht]
        · simp only [n₁, n₂, if_true, if_false, List.nil_append, List.cons_append, Bool.false_eq_true] at ht
          obtain ⟨b, r', hb, hc⟩ := c₁
          rw [hb] at ht
          simp only [List.cons.injEq] at ht
          rw [ht.1] at hc
          simp [isClose] at hc
        · simp only [n₁, n₂, if_true, if_false, List.nil_append, List.cons_append, Bool.false_eq_true] at ht
          obtain ⟨b, r', hb, hc⟩ := c₂
          rw [hb] at ht
          simp only [List.cons.injEq] at ht
          rw [← ht.1] at hc
          simp [isClose] at hc
        · simp only [n₁, n₂, if_false, List.cons_append, List.cons.injEq, true_and, Bool.false_eq_true, if_true] at ht
          have := list_prefix l₁ l₂ r₁ r₂ ht c₁ c₂
          simp [hu1, this]
end

end GV.DceNames
