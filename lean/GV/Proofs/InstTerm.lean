/-
  GV.Proofs.InstTerm — termination of the instance collector when the set of instances of the program is finite:
  every round of `Finish` that does not find all sets exhausted processes at least one more instance of the finite
  universe, so `|U| + 1` rounds suffice.
-/
import GV.Proofs.Inst

namespace GV.Inst

variable {P : Prog}

/-- cursors only advance -/
def CurLe (s s' : St) : Prop := ∀ q, s.cur q ≤ s'.cur q

theorem CurLe.refl (s : St) : CurLe s s := fun _ => Nat.le_refl _
theorem CurLe.trans {a b c : St} (h₁ : CurLe a b) (h₂ : CurLe b c) : CurLe a c := fun q => Nat.le_trans (h₁ q) (h₂ q)

theorem stepAt_cur (s : St) (p : Nat) (i : Inst) (q : Nat) :
    (stepAt P s p i).cur q = if q = p then s.cur p + 1 else s.cur q := by
  unfold stepAt; rw [addAll_cur]

theorem stepAt_curLe (s : St) (p : Nat) (i : Inst) : CurLe s (stepAt P s p i) := by
  intro q; rw [stepAt_cur]
  by_cases hq : q = p
  · subst hq; simp
  · simp [hq]

theorem propagate_curLe (fuel : Nat) (s : St) (p : Nat) : CurLe s (propagate P fuel s p) := by
  induction fuel generalizing s with
  | zero => exact CurLe.refl s
  | succ n ih =>
    rw [propagate_succ]
    cases h : (s.insts p)[s.cur p]? with
    | none => exact CurLe.refl s
    | some i => exact (stepAt_curLe s p i).trans (ih _)

theorem foldl_propagate_curLe (fuel : Nat) (ks : List Nat) (s : St) :
    CurLe s (ks.foldl (fun acc p => propagate P fuel acc p) s) := by
  induction ks generalizing s with
  | nil => exact CurLe.refl s
  | cons k ks ih => exact (propagate_curLe fuel s k).trans (ih _)

/-- with at least one unit of fuel `propagate` processes the instance under the cursor -/
theorem propagate_advances (n : Nat) {s : St} (p : Nat) {i : Inst} (hi : (s.insts p)[s.cur p]? = some i) :
    s.cur p + 1 ≤ (propagate P (n + 1) s p).cur p := by
  rw [propagate_succ, hi]
  refine Nat.le_trans ?_ (propagate_curLe n _ p p)
  rw [stepAt_cur]; simp

/-- a round that visits package `p` moves `p`'s cursor beyond the position `k` it stood at -/
theorem round_advances (n : Nat) (p k : Nat) (i : Inst) : ∀ (ks : List Nat) (t : St), p ∈ ks → k ≤ t.cur p →
    (t.insts p)[k]? = some i → k < (ks.foldl (fun acc q => propagate P (n + 1) acc q) t).cur p := by
  intro ks
  induction ks with
  | nil => intro t hp; cases hp
  | cons q ks ih =>
    intro t hp hk hi
    simp only [List.foldl_cons]
    by_cases hlt : k < t.cur p
    · exact Nat.lt_of_lt_of_le hlt (((propagate_curLe (n + 1) t q).trans (foldl_propagate_curLe (n + 1) ks _)) p)
    · have hkeq : t.cur p = k := by omega
      by_cases hq : q = p
      · subst hq
        have := propagate_advances (P := P) n q (s := t) (i := i) (by rw [hkeq]; exact hi)
        exact Nat.lt_of_lt_of_le (by omega) (foldl_propagate_curLe (n + 1) ks _ q)
      · have hp' : p ∈ ks := by
          rcases List.mem_cons.mp hp with h | h
          · exact absurd h.symm hq
          · exact h
        exact ih _ hp' (Nat.le_trans hk (propagate_curLe (n + 1) t q p)) ((propagate_le (n + 1) t q).get hi)

/-- `i` has been taken from its package's list -/
def proc (P : Prog) (s : St) (i : Inst) : Bool := decide (i ∈ (s.insts (P.pkgOf i)).take (s.cur (P.pkgOf i)))

theorem proc_mono {s s' : St} (hle : Le s s') (hc : CurLe s s') {i : Inst} (h : proc P s i = true) : proc P s' i = true := by
  simp only [proc, decide_eq_true_eq] at *
  have hp : (s.insts (P.pkgOf i)).take (s.cur (P.pkgOf i)) <+: (s'.insts (P.pkgOf i)).take (s'.cur (P.pkgOf i)) :=
    List.prefix_take_iff.mpr ⟨(List.take_prefix _ _).trans (hle _), Nat.le_trans (List.length_take_le _ _) (hc _)⟩
  exact hp.subset h

theorem proc_of_lt {s : St} {i : Inst} {k : Nat} (hi : (s.insts (P.pkgOf i))[k]? = some i) (hk : k < s.cur (P.pkgOf i)) :
    proc P s i = true := by
  simp only [proc, decide_eq_true_eq]
  obtain ⟨hlen, hget⟩ := List.getElem?_eq_some_iff.mp hi
  exact List.mem_take_iff_getElem.mpr ⟨k, by omega, hget⟩

theorem not_proc_at_cursor {s : St} (hnd : ∀ q, (s.insts q).Nodup) {i : Inst} (hi : (s.insts (P.pkgOf i))[s.cur (P.pkgOf i)]? = some i) :
    proc P s i = false := by
  cases hp : proc P s i with
  | false => rfl
  | true =>
    exfalso
    simp only [proc, decide_eq_true_eq] at hp
    obtain ⟨hlen, hget⟩ := List.getElem?_eq_some_iff.mp hi
    have hsplit := List.take_append_drop (s.cur (P.pkgOf i)) (s.insts (P.pkgOf i))
    have hnd' := hnd (P.pkgOf i)
    rw [← hsplit, List.drop_eq_getElem_cons hlen, hget] at hnd'
    exact (List.nodup_append.mp hnd').2.2 i hp i List.mem_cons_self rfl

theorem countP_lt {α : Type} {l : List α} {p q : α → Bool} (hmono : ∀ x ∈ l, p x = true → q x = true) {a : α} (ha : a ∈ l)
    (hpa : p a = false) (hqa : q a = true) : l.countP p < l.countP q := by
  induction l with
  | nil => cases ha
  | cons b l ih =>
    have htail : l.countP p ≤ l.countP q := List.countP_mono_left (fun x hx => hmono x (List.mem_cons_of_mem _ hx))
    rw [List.countP_cons, List.countP_cons]
    rcases List.mem_cons.mp ha with rfl | ha'
    · simp only [hpa, hqa, if_true, Bool.false_eq_true, if_false]; omega
    · have := ih (fun x hx => hmono x (List.mem_cons_of_mem _ hx)) ha'
      have hb := hmono b List.mem_cons_self
      cases hpb : p b with
      | false => cases hqb : q b <;> simp <;> omega
      | true => simp [hb hpb]; omega

/-- number of instances of the universe already processed -/
def done (P : Prog) (U : List Inst) (s : St) : Nat := U.countP (proc P s)

/-- **termination of `Finish`**: if all instances of the program lie in a finite universe `U`, every round's order covers
    the current keys, and the fuel exceeds the number of instances of `U` not yet processed, all sets end up exhausted. -/
theorem finishWith_exhausts (hstep : ∀ i, Reach P i → ∀ j ∈ discover P i, Reach P j)
    (U : List Inst) (hU : ∀ i, Reach P i → i ∈ U) (order : List Nat → List Nat) (hord : ∀ ks k, k ∈ ks → k ∈ order ks) :
    ∀ (fuel : Nat) (s : St), Inv P s → (∀ q, ∀ j ∈ s.insts q, Reach P j) → U.length < fuel + done P U s →
      allExhausted (finishWith P order fuel s) = true := by
  intro fuel
  induction fuel with
  | zero =>
    intro s _ _ h
    have : done P U s ≤ U.length := List.countP_le_length
    omega
  | succ n ih =>
    intro s hinv hsound hf
    rw [finishWith_succ]
    by_cases hex : allExhausted s = true
    · rw [if_pos hex]; exact hex
    · rw [if_neg hex]
      -- a package with an unprocessed instance
      have : ∃ p ∈ s.keys, s.cur p < (s.insts p).length := by
        apply Classical.byContradiction
        intro hno
        apply hex
        unfold allExhausted
        rw [List.all_eq_true]
        intro p hp
        simp only [decide_eq_true_eq]
        exact Nat.le_of_not_lt (fun hlt => hno ⟨p, hp, hlt⟩)
      obtain ⟨p, hpk, hlt⟩ := this
      let i0 := (s.insts p)[s.cur p]
      have hi0 : (s.insts p)[s.cur p]? = some i0 := List.getElem?_eq_getElem hlt
      have hmem0 : i0 ∈ s.insts p := List.getElem_mem hlt
      have hhome : P.pkgOf i0 = p := hinv.homed p i0 hmem0
      let s' := (order s.keys).foldl (fun acc q => propagate P (n + 1) acc q) s
      have hle : Le s s' := foldl_propagate_le (n + 1) _ s
      have hcl : CurLe s s' := foldl_propagate_curLe (n + 1) _ s
      have hadv : s.cur p < s'.cur p := round_advances n p (s.cur p) i0 _ s (hord _ _ hpk) (Nat.le_refl _) hi0
      have hproc' : proc P s' i0 = true := by
        apply proc_of_lt (k := s.cur p)
        · rw [hhome]; exact hle.get hi0
        · rw [hhome]; exact hadv
      have hproc : proc P s i0 = false := not_proc_at_cursor hinv.nodup (by rw [hhome]; exact hi0)
      have hdone : done P U s < done P U s' :=
        countP_lt (fun x _ hx => proc_mono hle hcl hx) (hU i0 (hsound p i0 hmem0)) hproc hproc'
      apply ih s' (inv_foldl_propagate _ _ hinv) (all_foldl_propagate (Reach P) hstep _ _ hsound)
      omega

end GV.Inst
