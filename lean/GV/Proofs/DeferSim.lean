import GV.Model.Defer

/-!
  GV.Proofs.DeferSim — forward simulation between the Go reference semantics (`rCall/rBody/rDefers`) and the
  emulation (`eFn/eBody/eCallDeferred/eLoop/eStep`) of GV.Model.Defer, part 1: programs without non-local exits
  (no `panic`, run-time panic or `runtime.Goexit` statement), arbitrary nesting of calls and deferred calls.
-/
namespace GV.Defer

/-! ### heap lemmas -/

theorem getD_set_same {α} (l : List α) (i : Nat) (v d : α) (h : i < l.length) : (l.set i v).getD i d = v := by
  simp [List.getD_eq_getElem?_getD, h]

theorem getD_set_other {α} (l : List α) (i j : Nat) (v d : α) (h : i ≠ j) : (l.set i v).getD j d = l.getD j d := by
  simp [List.getD_eq_getElem?_getD, List.getElem?_set_ne h]

theorem getD_append_left {α} (l r : List α) (i : Nat) (d : α) (h : i < l.length) : (l ++ r).getD i d = l.getD i d := by
  simp [List.getD_eq_getElem?_getD, List.getElem?_append_left h]

theorem getD_append_new {α} (l : List α) (v d : α) : (l ++ [v]).getD l.length d = v := by
  simp [List.getD_eq_getElem?_getD]

theorem cell_setCell_same (s : JS) (i : Nat) (v : Val) (h : i < s.cells.length) : (s.setCell i v).cell i = v :=
  getD_set_same _ _ _ _ h

theorem cell_setCell_other (s : JS) (i j : Nat) (v : Val) (h : i ≠ j) : (s.setCell i v).cell j = s.cell j :=
  getD_set_other _ _ _ _ _ h

theorem list_setList_same (s : JS) (i : Nat) (l : List DCall) (h : i < s.lists.length) : (s.setList i l).list i = l :=
  getD_set_same _ _ _ _ h

theorem list_setList_other (s : JS) (i j : Nat) (l : List DCall) (h : i ≠ j) : (s.setList i l).list j = s.list j :=
  getD_set_other _ _ _ _ _ h

/-! ### the fragment and the relations -/

def Stmt.noNLE : Stmt → Bool
  | .panic _ => false
  | .nilDeref _ => false
  | .goexit => false
  | _ => true

/-- no function of the program contains `panic`, a run-time panic or `runtime.Goexit` -/
def NoNLE (P : Prog) : Prop := ∀ f, (P.fn f).body.all Stmt.noNLE = true

/-- no panic in flight, `runtime.Goexit` not called -/
def Quiet (s : JS) : Prop := s.psd = none ∧ s.panicStack = [] ∧ s.exit = false

def toRDef (c : DCall) : RDef :=
  match c.callee with
  | .fn _ f => .fn f c.arg
  | .recoverBuiltin => .recoverBuiltin

/-- the `$deferred` array `id` of the emulation holds the pending deferred calls of the reference frame -/
def DefRel (s : JS) (id cell : Nat) (defers : List RDef) : Prop :=
  id < s.lists.length ∧ (s.list id).map toRDef = defers ∧ ∀ c ∈ s.list id, c.outer = cell

/-- what a completed call leaves untouched -/
structure Ext (s s' : JS) (oc : Nat) : Prop where
  ds : s'.deferStack = s.deferStack
  off : s'.off = s.off
  quiet : Quiet s'
  llen : s.lists.length ≤ s'.lists.length
  lists : ∀ i, i < s.lists.length → s'.list i = s.list i
  clen : s.cells.length ≤ s'.cells.length
  cells : ∀ i, i < s.cells.length → i ≠ oc → s'.cell i = s.cell i


/-- relation between a frame of the emulation and the reference frame while its body runs -/
structure BodyRel (s : JS) (fr : EFrame) (hasD : Bool) (outer : Val) (rfr : RFrame) (st : RState) : Prop where
  quiet : Quiet s
  hc : fr.cell < s.cells.length
  ho : fr.outer < s.cells.length
  hne : fr.cell ≠ fr.outer
  res : s.cell fr.cell = rfr.res
  out : s.cell fr.outer = outer
  tr : s.trace = st.trace
  defs : hasD = true → DefRel s fr.did fr.cell rfr.defers
  nodefs : hasD = false → rfr.defers = []

/-- what running (part of) a body leaves untouched -/
structure BExt (s s' : JS) (fr : EFrame) (hasD : Bool) : Prop where
  ds : s'.deferStack = s.deferStack
  off : s'.off = s.off
  llen : s.lists.length ≤ s'.lists.length
  lists : ∀ i, i < s.lists.length → (hasD = true → i ≠ fr.did) → s'.list i = s.list i
  clen : s.cells.length ≤ s'.cells.length
  cells : ∀ i, i < s.cells.length → i ≠ fr.cell → i ≠ fr.outer → s'.cell i = s.cell i

theorem BExt.refl (s : JS) (fr : EFrame) (hasD : Bool) : BExt s s fr hasD :=
  ⟨rfl, rfl, Nat.le_refl _, fun _ _ _ => rfl, Nat.le_refl _, fun _ _ _ _ => rfl⟩

theorem BExt.trans {s s' s'' : JS} {fr : EFrame} {hasD : Bool} (h1 : BExt s s' fr hasD) (h2 : BExt s' s'' fr hasD) :
    BExt s s'' fr hasD :=
  ⟨h2.ds.trans h1.ds, h2.off.trans h1.off, Nat.le_trans h1.llen h2.llen,
   fun i hi hne => (h2.lists i (Nat.lt_of_lt_of_le hi h1.llen) hne).trans (h1.lists i hi hne),
   Nat.le_trans h1.clen h2.clen,
   fun i hi h1' h2' => (h2.cells i (Nat.lt_of_lt_of_le hi h1.clen) h1' h2').trans (h1.cells i hi h1' h2')⟩

def CallSim (P : Prog) (n : Nat) : Prop :=
  ∀ (f : Nat) (a : Val) (byPanic : Bool) (outer : Val) (st : RState), st.panics = [] →
    (rCall n P f a byPanic outer st).comp ≠ .oof →
    (rCall n P f a byPanic outer st).comp = .normal ∧ (rCall n P f a byPanic outer st).st.panics = [] ∧
    ∃ m0, ∀ m, m0 ≤ m → ∀ (d oc : Nat) (s : JS), Quiet s → oc < s.cells.length → s.cell oc = outer →
      s.trace = st.trace →
      ∃ s', eFn m P f a oc d s = (s', .ret (rCall n P f a byPanic outer st).val) ∧ Ext s s' oc ∧
        s'.cell oc = (rCall n P f a byPanic outer st).outer ∧ s'.trace = (rCall n P f a byPanic outer st).st.trace

def BodySim (P : Prog) (n : Nat) : Prop :=
  ∀ (stmts : List Stmt) (hasD : Bool) (byPanic : Bool) (outer : Val) (rfr : RFrame) (st : RState),
    stmts.all Stmt.noNLE = true → (stmts.any Stmt.isDefer = true → hasD = true) → st.panics = [] →
    (rBody n P stmts byPanic outer rfr st).comp ≠ .oof →
    (rBody n P stmts byPanic outer rfr st).comp = .normal ∧ (rBody n P stmts byPanic outer rfr st).st.panics = [] ∧
    ∃ m0, ∀ m, m0 ≤ m → ∀ (fr : EFrame) (s : JS), BodyRel s fr hasD outer rfr st →
      ∃ s' c, eBody m P stmts fr s = (s', c) ∧ (c = .normal ∨ c = .ret (s'.cell fr.cell)) ∧
        BodyRel s' fr hasD (rBody n P stmts byPanic outer rfr st).outer (rBody n P stmts byPanic outer rfr st).fr
          (rBody n P stmts byPanic outer rfr st).st ∧ BExt s s' fr hasD

def DefersSim (P : Prog) (n : Nat) : Prop :=
  ∀ (base : Nat) (byP : Bool) (rfr : RFrame) (st : RState), st.panics = [] →
    (rDefers n P .normal base byP rfr st).comp ≠ .oof →
    (rDefers n P .normal base byP rfr st).comp = .normal ∧ (rDefers n P .normal base byP rfr st).st.panics = [] ∧
    ∃ m0, ∀ m, m0 ≤ m → ∀ (id cell c : Nat) (rest : List Nat) (s : JS), Quiet s → cell < s.cells.length →
      DefRel s id cell rfr.defers → s.cell cell = rfr.res → s.trace = st.trace → s.deferStack = id :: rest →
      ∃ s', eLoop m P (.id id) none false c s = (s', .normal, .id id) ∧ s'.deferStack = rest ∧ s'.off = s.off ∧
        Quiet s' ∧ s'.cell cell = (rDefers n P .normal base byP rfr st).fr.res ∧
        s'.trace = (rDefers n P .normal base byP rfr st).st.trace ∧
        s.lists.length ≤ s'.lists.length ∧ (∀ i, i < s.lists.length → i ≠ id → s'.list i = s.list i) ∧
        s.cells.length ≤ s'.cells.length ∧ (∀ i, i < s.cells.length → i ≠ cell → s'.cell i = s.cell i)

/-! ### small facts about state updates -/

@[simp] theorem emit_cells (s : JS) (e : Ev) : (s.emit e).cells = s.cells := rfl
@[simp] theorem emit_lists (s : JS) (e : Ev) : (s.emit e).lists = s.lists := rfl
@[simp] theorem emit_ds (s : JS) (e : Ev) : (s.emit e).deferStack = s.deferStack := rfl
@[simp] theorem emit_off (s : JS) (e : Ev) : (s.emit e).off = s.off := rfl
@[simp] theorem emit_trace (s : JS) (e : Ev) : (s.emit e).trace = e :: s.trace := rfl
@[simp] theorem emit_cell (s : JS) (e : Ev) (i : Nat) : (s.emit e).cell i = s.cell i := rfl
@[simp] theorem emit_list (s : JS) (e : Ev) (i : Nat) : (s.emit e).list i = s.list i := rfl
theorem emit_quiet {s : JS} (e : Ev) (h : Quiet s) : Quiet (s.emit e) := h

@[simp] theorem setCell_lists (s : JS) (i : Nat) (v : Val) : (s.setCell i v).lists = s.lists := rfl
@[simp] theorem setCell_ds (s : JS) (i : Nat) (v : Val) : (s.setCell i v).deferStack = s.deferStack := rfl
@[simp] theorem setCell_off (s : JS) (i : Nat) (v : Val) : (s.setCell i v).off = s.off := rfl
@[simp] theorem setCell_trace (s : JS) (i : Nat) (v : Val) : (s.setCell i v).trace = s.trace := rfl
@[simp] theorem setCell_list (s : JS) (i : Nat) (v : Val) (j : Nat) : (s.setCell i v).list j = s.list j := rfl
@[simp] theorem setCell_len (s : JS) (i : Nat) (v : Val) : (s.setCell i v).cells.length = s.cells.length := by
  simp [JS.setCell]
theorem setCell_quiet {s : JS} (i : Nat) (v : Val) (h : Quiet s) : Quiet (s.setCell i v) := h

@[simp] theorem setList_cells (s : JS) (i : Nat) (l : List DCall) : (s.setList i l).cells = s.cells := rfl
@[simp] theorem setList_ds (s : JS) (i : Nat) (l : List DCall) : (s.setList i l).deferStack = s.deferStack := rfl
@[simp] theorem setList_off (s : JS) (i : Nat) (l : List DCall) : (s.setList i l).off = s.off := rfl
@[simp] theorem setList_trace (s : JS) (i : Nat) (l : List DCall) : (s.setList i l).trace = s.trace := rfl
@[simp] theorem setList_cell (s : JS) (i : Nat) (l : List DCall) (j : Nat) : (s.setList i l).cell j = s.cell j := rfl
@[simp] theorem setList_len (s : JS) (i : Nat) (l : List DCall) : (s.setList i l).lists.length = s.lists.length := by
  simp [JS.setList]
theorem setList_quiet {s : JS} (i : Nat) (l : List DCall) (h : Quiet s) : Quiet (s.setList i l) := h

/-- the conclusion of `CallSim` for `eFn` carries over to `eInvoke` for every way of reaching the function -/
theorem invoke_of_fn (P : Prog) (f : Nat) (a : Val) (outer v out' : Val) (tr tr' : List Ev) (m0 : Nat)
    (H : ∀ m, m0 ≤ m → ∀ (d oc : Nat) (s : JS), Quiet s → oc < s.cells.length → s.cell oc = outer → s.trace = tr →
      ∃ s', eFn m P f a oc d s = (s', .ret v) ∧ Ext s s' oc ∧ s'.cell oc = out' ∧ s'.trace = tr') :
    ∀ m, m0 + 1 ≤ m → ∀ (h : How) (d oc : Nat) (s : JS), Quiet s → oc < s.cells.length → s.cell oc = outer →
      s.trace = tr →
      ∃ s', eInvoke m P h f a oc d s = (s', .ret v) ∧ Ext s s' oc ∧ s'.cell oc = out' ∧ s'.trace = tr' := by
  intro m hm h d oc s hq hoc hcell htr
  obtain ⟨m, rfl⟩ : ∃ k, m = k + 1 := ⟨m - 1, by omega⟩
  cases h with
  | direct =>
    obtain ⟨s', he, hx⟩ := H m (by omega) (d + 1) oc s hq hoc hcell htr
    exact ⟨s', by simp [eInvoke, he], hx⟩
  | mexpr =>
    obtain ⟨s', he, hx, hc', ht'⟩ := H m (by omega) (d + 2) oc { s with off := s.off - 1 } hq hoc hcell htr
    refine ⟨{ s' with off := s'.off + 1 }, by simp [eInvoke, he], ?_, hc', ht'⟩
    exact ⟨hx.ds, by simp [hx.off], hx.quiet, hx.llen, hx.lists, hx.clen, hx.cells⟩
  | pwrap =>
    obtain ⟨s', he, hx, hc', ht'⟩ := H m (by omega) (d + 2) oc { s with off := s.off - 1 } hq hoc hcell htr
    refine ⟨{ s' with off := s'.off + 1 }, by simp [eInvoke, he], ?_, hc', ht'⟩
    exact ⟨hx.ds, by simp [hx.off], hx.quiet, hx.llen, hx.lists, hx.clen, hx.cells⟩

theorem rRecover_quiet (byPanic : Bool) (st : RState) (h : st.panics = []) : rRecover byPanic st = (st, none) := by
  cases byPanic <;> simp [rRecover, h]

theorem eRecover_quiet (d : Nat) (s : JS) (h : Quiet s) : eRecover d s = (s, none) := by
  simp [eRecover, h.1]

/-- the proxy of `defer recover()` leaves a quiet state unchanged -/
theorem recoverBuiltin_quiet (c : Nat) (s : JS) (hq : Quiet s) :
    ({ (eRecover (c + 2) { s with off := s.off - 1 }).1 with
        off := (eRecover (c + 2) { s with off := s.off - 1 }).1.off + 1 } : JS) = s := by
  have : eRecover (c + 2) { s with off := s.off - 1 } = ({ s with off := s.off - 1 }, none) := eRecover_quiet _ _ hq
  rw [this]
  obtain ⟨lists, ds, ps, psd, pv, off, exit, cells, trace⟩ := s
  simp

theorem body_step (P : Prog) (n : Nat) (hC : CallSim P n) (hB : BodySim P n) : BodySim P (n + 1) := by
  intro stmts hasD byPanic outer rfr st hall hany hp hoof
  cases stmts with
  | nil =>
    simp only [rBody] at hoof ⊢
    refine ⟨trivial, hp, 1, ?_⟩
    intro m hm fr s hrel
    obtain ⟨m, rfl⟩ : ∃ k, m = k + 1 := ⟨m - 1, by omega⟩
    exact ⟨s, .normal, by simp [eBody], Or.inl rfl, hrel, BExt.refl _ _ _⟩
  | cons a rest =>
    simp only [List.all_cons, Bool.and_eq_true] at hall
    simp only [List.any_cons, Bool.or_eq_true] at hany
    cases a with
    | panic v => simp [Stmt.noNLE] at hall
    | nilDeref v => simp [Stmt.noNLE] at hall
    | goexit => simp [Stmt.noNLE] at hall
    | ret =>
      simp only [rBody] at hoof ⊢
      refine ⟨trivial, hp, 1, ?_⟩
      intro m hm fr s hrel
      obtain ⟨m, rfl⟩ : ∃ k, m = k + 1 := ⟨m - 1, by omega⟩
      exact ⟨s, .ret (s.cell fr.cell), by simp [eBody], Or.inr rfl, hrel, BExt.refl _ _ _⟩
    | recover =>
      simp only [rBody, rRecover_quiet byPanic st hp] at hoof ⊢
      obtain ⟨h1, h2, m0, H⟩ := hB rest hasD byPanic outer rfr (st.emit (.recov none)) hall.2
        (fun h => hany (Or.inr h)) (by simpa [RState.emit] using hp) hoof
      refine ⟨h1, h2, m0 + 1, ?_⟩
      intro m hm fr s hrel
      obtain ⟨m, rfl⟩ : ∃ k, m = k + 1 := ⟨m - 1, by omega⟩
      have hrel' : BodyRel (s.emit (.recov none)) fr hasD outer rfr (st.emit (.recov none)) :=
        ⟨emit_quiet _ hrel.quiet, hrel.hc, hrel.ho, hrel.hne, hrel.res, hrel.out,
         by simp [RState.emit, hrel.tr], hrel.defs, hrel.nodefs⟩
      obtain ⟨s', c, he, hc, hr, hx⟩ := H m (by omega) fr _ hrel'
      refine ⟨s', c, by simp [eBody, eRecover_quiet _ s hrel.quiet, he], hc, hr, ?_⟩
      exact ⟨hx.ds, hx.off, hx.llen, hx.lists, hx.clen, hx.cells⟩
    | setResult v =>
      simp only [rBody] at hoof ⊢
      obtain ⟨h1, h2, m0, H⟩ := hB rest hasD byPanic outer { rfr with res := v } st hall.2
        (fun h => hany (Or.inr h)) hp hoof
      refine ⟨h1, h2, m0 + 1, ?_⟩
      intro m hm fr s hrel
      obtain ⟨m, rfl⟩ : ∃ k, m = k + 1 := ⟨m - 1, by omega⟩
      have hrel' : BodyRel (s.setCell fr.cell v) fr hasD outer { rfr with res := v } st :=
        ⟨setCell_quiet _ _ hrel.quiet, by simpa using hrel.hc, by simpa using hrel.ho, hrel.hne,
         cell_setCell_same s _ v hrel.hc, by rw [cell_setCell_other s _ _ v hrel.hne]; exact hrel.out,
         hrel.tr, fun h => by
           obtain ⟨a1, a2, a3⟩ := hrel.defs h
           exact ⟨a1, a2, a3⟩, hrel.nodefs⟩
      obtain ⟨s', c, he, hc, hr, hx⟩ := H m (by omega) fr _ hrel'
      refine ⟨s', c, by simp [eBody, he], hc, hr, ?_⟩
      refine ⟨hx.ds, hx.off, hx.llen, hx.lists, by simpa using hx.clen, ?_⟩
      intro i hi h1' h2'
      rw [hx.cells i (by simpa using hi) h1' h2', cell_setCell_other s _ _ v (Ne.symm h1')]
    | setOuter v =>
      simp only [rBody] at hoof ⊢
      obtain ⟨h1, h2, m0, H⟩ := hB rest hasD byPanic v rfr st hall.2
        (fun h => hany (Or.inr h)) hp hoof
      refine ⟨h1, h2, m0 + 1, ?_⟩
      intro m hm fr s hrel
      obtain ⟨m, rfl⟩ : ∃ k, m = k + 1 := ⟨m - 1, by omega⟩
      have hrel' : BodyRel (s.setCell fr.outer v) fr hasD v rfr st :=
        ⟨setCell_quiet _ _ hrel.quiet, by simpa using hrel.hc, by simpa using hrel.ho, hrel.hne,
         by rw [cell_setCell_other s _ _ v (Ne.symm hrel.hne)]; exact hrel.res,
         cell_setCell_same s _ v hrel.ho,
         hrel.tr, fun h => by
           obtain ⟨a1, a2, a3⟩ := hrel.defs h
           exact ⟨a1, a2, a3⟩, hrel.nodefs⟩
      obtain ⟨s', c, he, hc, hr, hx⟩ := H m (by omega) fr _ hrel'
      refine ⟨s', c, by simp [eBody, he], hc, hr, ?_⟩
      refine ⟨hx.ds, hx.off, hx.llen, hx.lists, by simpa using hx.clen, ?_⟩
      intro i hi h1' h2'
      rw [hx.cells i (by simpa using hi) h1' h2', cell_setCell_other s _ _ v (Ne.symm h2')]
    | deferRecover =>
      have hD : hasD = true := hany (Or.inl rfl)
      simp only [rBody] at hoof ⊢
      obtain ⟨h1, h2, m0, H⟩ := hB rest hasD byPanic outer
        { rfr with defers := .recoverBuiltin :: rfr.defers } st hall.2 (fun h => hany (Or.inr h)) hp hoof
      refine ⟨h1, h2, m0 + 1, ?_⟩
      intro m hm fr s hrel
      obtain ⟨m, rfl⟩ : ∃ k, m = k + 1 := ⟨m - 1, by omega⟩
      obtain ⟨a1, a2, a3⟩ := hrel.defs hD
      have hrel' : BodyRel (s.setList fr.did (⟨.recoverBuiltin, 0, fr.cell⟩ :: s.list fr.did)) fr hasD outer
          { rfr with defers := .recoverBuiltin :: rfr.defers } st :=
        ⟨setList_quiet _ _ hrel.quiet, hrel.hc, hrel.ho, hrel.hne, hrel.res, hrel.out, hrel.tr,
         fun _ => ⟨by simpa using a1, by rw [list_setList_same s _ _ a1]; simp [toRDef, a2],
           by rw [list_setList_same s _ _ a1]; intro c hc; cases hc with
              | head => rfl
              | tail _ h => exact a3 c h⟩,
         fun h => by rw [hD] at h; cases h⟩
      obtain ⟨s', c, he, hc, hr, hx⟩ := H m (by omega) fr _ hrel'
      refine ⟨s', c, by simp [eBody, he], hc, hr, ?_⟩
      refine ⟨hx.ds, hx.off, by simpa using hx.llen, ?_, hx.clen, hx.cells⟩
      intro i hi hne
      rw [hx.lists i (by simpa using hi) hne, list_setList_other s _ _ _ (Ne.symm (hne hD))]
    | defer_ h g a =>
      have hD : hasD = true := hany (Or.inl rfl)
      simp only [rBody] at hoof ⊢
      obtain ⟨h1, h2, m0, H⟩ := hB rest hasD byPanic outer
        { rfr with defers := .fn g (argVal a rfr.res) :: rfr.defers } st hall.2 (fun h => hany (Or.inr h)) hp hoof
      refine ⟨h1, h2, m0 + 1, ?_⟩
      intro m hm fr s hrel
      obtain ⟨m, rfl⟩ : ∃ k, m = k + 1 := ⟨m - 1, by omega⟩
      obtain ⟨a1, a2, a3⟩ := hrel.defs hD
      have hrel' : BodyRel (s.setList fr.did (⟨.fn h g, argVal a (s.cell fr.cell), fr.cell⟩ :: s.list fr.did)) fr hasD outer
          { rfr with defers := .fn g (argVal a rfr.res) :: rfr.defers } st :=
        ⟨setList_quiet _ _ hrel.quiet, hrel.hc, hrel.ho, hrel.hne, hrel.res, hrel.out, hrel.tr,
         fun _ => ⟨by simpa using a1, by rw [list_setList_same s _ _ a1]; simp [toRDef, a2, hrel.res],
           by rw [list_setList_same s _ _ a1]; intro c hc; cases hc with
              | head => rfl
              | tail _ h => exact a3 c h⟩,
         fun h => by rw [hD] at h; cases h⟩
      obtain ⟨s', c, he, hc, hr, hx⟩ := H m (by omega) fr _ hrel'
      refine ⟨s', c, by simp [eBody, he], hc, hr, ?_⟩
      refine ⟨hx.ds, hx.off, by simpa using hx.llen, ?_, hx.clen, hx.cells⟩
      intro i hi hne
      rw [hx.lists i (by simpa using hi) hne, list_setList_other s _ _ _ (Ne.symm (hne hD))]
    | call h g =>
      simp only [rBody] at hoof ⊢
      generalize hR : rCall n P g 0 false rfr.res st = R at hoof ⊢
      have hRo : R.comp ≠ .oof := by
        intro hh
        simp [hh] at hoof
      obtain ⟨hn, hpn, m1, H1⟩ := hC g 0 false rfr.res st hp (by rw [hR]; exact hRo)
      rw [hR] at hn hpn H1
      simp only [hn] at hoof ⊢
      obtain ⟨h1, h2, m2, H2⟩ := hB rest hasD byPanic outer { rfr with res := R.outer }
        (R.st.emit (.result g R.val)) hall.2 (fun hh => hany (Or.inr hh)) (by simpa [RState.emit] using hpn) hoof
      refine ⟨h1, h2, m1 + m2 + 2, ?_⟩
      intro m hm fr s hrel
      obtain ⟨m, rfl⟩ : ∃ k, m = k + 1 := ⟨m - 1, by omega⟩
      obtain ⟨s1, he1, hx1, hc1, ht1⟩ := invoke_of_fn P g 0 rfr.res R.val R.outer st.trace R.st.trace m1 H1 m
        (by omega) h fr.d fr.cell s hrel.quiet hrel.hc hrel.res hrel.tr
      have hrel' : BodyRel (s1.emit (.result g R.val)) fr hasD outer { rfr with res := R.outer }
          (R.st.emit (.result g R.val)) :=
        ⟨emit_quiet _ hx1.quiet, Nat.lt_of_lt_of_le hrel.hc hx1.clen, Nat.lt_of_lt_of_le hrel.ho hx1.clen, hrel.hne,
         hc1, by rw [emit_cell, hx1.cells _ hrel.ho (Ne.symm hrel.hne)]; exact hrel.out,
         by simp [RState.emit, ht1],
         fun hD => by
           obtain ⟨a1, a2, a3⟩ := hrel.defs hD
           refine ⟨Nat.lt_of_lt_of_le a1 hx1.llen, ?_, ?_⟩
           · rw [emit_list, hx1.lists _ a1]; exact a2
           · rw [emit_list, hx1.lists _ a1]; exact a3,
         hrel.nodefs⟩
      obtain ⟨s', c, he, hc, hr, hx⟩ := H2 m (by omega) fr _ hrel'
      refine ⟨s', c, by simp [eBody, he1, he], hc, hr, ?_⟩
      refine ⟨by rw [hx.ds]; exact hx1.ds, by rw [hx.off]; exact hx1.off, Nat.le_trans hx1.llen hx.llen, ?_,
        Nat.le_trans hx1.clen hx.clen, ?_⟩
      · intro i hi hne
        rw [hx.lists i (Nat.lt_of_lt_of_le hi hx1.llen) hne]
        exact hx1.lists i hi
      · intro i hi h1' h2'
        rw [hx.cells i (Nat.lt_of_lt_of_le hi hx1.clen) h1' h2']
        exact hx1.cells i hi h1'

theorem toRDef_builtin {c : DCall} (h : toRDef c = .recoverBuiltin) : c.callee = .recoverBuiltin := by
  obtain ⟨callee, a, o⟩ := c
  cases callee <;> simp_all [toRDef]

theorem toRDef_fn {c : DCall} {g : Nat} {a : Val} (h : toRDef c = .fn g a) : ∃ hw, c.callee = .fn hw g ∧ c.arg = a := by
  obtain ⟨callee, a', o⟩ := c
  cases callee with
  | fn hw f => simp [toRDef] at h; exact ⟨hw, by simp [h.1], h.2⟩
  | recoverBuiltin => simp [toRDef] at h

theorem defers_step (P : Prog) (n : Nat) (hC : CallSim P n) (hD : DefersSim P n) : DefersSim P (n + 1) := by
  intro base byP rfr st hp hoof
  obtain ⟨res, defers⟩ := rfr
  cases defers with
  | nil =>
    simp only [rDefers] at hoof ⊢
    refine ⟨trivial, hp, 2, ?_⟩
    intro m hm id cell c rest s hq hcell hdr hres htr hds
    obtain ⟨m, rfl⟩ : ∃ k, m = k + 2 := ⟨m - 2, by omega⟩
    obtain ⟨a1, a2, a3⟩ := hdr
    have hl : s.list id = [] := by simpa using a2
    refine ⟨{ s with deferStack := s.deferStack.tail }, by simp [eLoop, eStep, hl], by simp [hds], rfl, hq, hres, htr,
      Nat.le_refl _, fun _ _ _ => rfl, Nat.le_refl _, fun _ _ _ => rfl⟩
  | cons d ds =>
    cases d with
    | recoverBuiltin =>
      simp only [rDefers] at hoof ⊢
      have hbeq : (RComp.normal == RComp.panicking) = false := by decide
      simp only [hbeq, rRecover_quiet byP st hp] at hoof ⊢
      obtain ⟨h1, h2, m0, H⟩ := hD base byP ⟨res, ds⟩ st hp (by simpa using hoof)
      refine ⟨by simpa using h1, by simpa using h2, m0 + 2, ?_⟩
      intro m hm id cell c rest s hq hcell hdr hres htr hds
      obtain ⟨m, rfl⟩ : ∃ k, m = k + 2 := ⟨m - 2, by omega⟩
      obtain ⟨a1, a2, a3⟩ := hdr
      obtain ⟨call, more, hl, hcall, hmore⟩ : ∃ call more, s.list id = call :: more ∧ toRDef call = .recoverBuiltin ∧
          more.map toRDef = ds := by
        cases hl : s.list id with
        | nil => simp [hl] at a2
        | cons call more => simp [hl] at a2; exact ⟨call, more, rfl, a2.1, a2.2⟩
      have hcal := toRDef_builtin hcall
      have hdr' : DefRel (s.setList id more) id cell ds :=
        ⟨by simpa using a1, by rw [list_setList_same s _ _ a1]; exact hmore,
         by rw [list_setList_same s _ _ a1]; intro x hx; exact a3 x (by rw [hl]; exact List.mem_cons_of_mem _ hx)⟩
      obtain ⟨s', he, r1, r2, r3, r4, r5, r6, r7, r8, r9⟩ := H m (by omega) id cell c rest (s.setList id more)
        (setList_quiet _ _ hq) hcell hdr' hres htr hds
      have hrb := recoverBuiltin_quiet c (s.setList id more) (setList_quiet _ _ hq)
      refine ⟨s', ?_, r1, r2, r3, by simpa using r4, by simpa using r5, by simpa using r6, ?_, r8, r9⟩
      · simp only [eLoop, eStep, hl, hcal]
        rw [hrb]
        simp [he]
      intro i hi hne
      rw [r7 i (by simpa using hi) hne, list_setList_other s _ _ _ (Ne.symm hne)]
    | fn g a =>
      have hbeq : (RComp.normal == RComp.panicking) = false := by decide
      simp only [rDefers, hbeq, Bool.false_and] at hoof ⊢
      generalize hR : rCall n P g a false res st = R at hoof ⊢
      have hRo : R.comp ≠ .oof := by
        intro hh
        simp [hh] at hoof
      obtain ⟨hn, hpn, m1, H1⟩ := hC g a false res st hp (by rw [hR]; exact hRo)
      rw [hR] at hn hpn H1
      simp only [hn] at hoof ⊢
      obtain ⟨h1, h2, m2, H2⟩ := hD base byP ⟨R.outer, ds⟩ R.st hpn (by simpa using hoof)
      refine ⟨by simpa using h1, by simpa using h2, m1 + m2 + 3, ?_⟩
      intro m hm id cell c rest s hq hcell hdr hres htr hds
      obtain ⟨m, rfl⟩ : ∃ k, m = k + 2 := ⟨m - 2, by omega⟩
      obtain ⟨a1, a2, a3⟩ := hdr
      obtain ⟨call, more, hl, hcall, hmore⟩ : ∃ call more, s.list id = call :: more ∧ toRDef call = .fn g a ∧
          more.map toRDef = ds := by
        cases hl : s.list id with
        | nil => simp [hl] at a2
        | cons call more => simp [hl] at a2; exact ⟨call, more, rfl, a2.1, a2.2⟩
      obtain ⟨hw, hcal, harg⟩ := toRDef_fn hcall
      have hout : call.outer = cell := a3 call (by rw [hl]; exact List.mem_cons_self)
      obtain ⟨s1, he1, hx1, hc1, ht1⟩ := invoke_of_fn P g a res R.val R.outer st.trace R.st.trace m1 H1 m
        (by omega) hw c cell (s.setList id more) (setList_quiet _ _ hq) hcell hres htr
      have hdr' : DefRel s1 id cell ds := by
        refine ⟨Nat.lt_of_lt_of_le (by simpa using a1) hx1.llen, ?_, ?_⟩
        · rw [hx1.lists id (by simpa using a1), list_setList_same s _ _ a1]; exact hmore
        · rw [hx1.lists id (by simpa using a1), list_setList_same s _ _ a1]
          intro x hx; exact a3 x (by rw [hl]; exact List.mem_cons_of_mem _ hx)
      obtain ⟨s', he, r1, r2, r3, r4, r5, r6, r7, r8, r9⟩ := H2 m (by omega) id cell c rest s1
        hx1.quiet (Nat.lt_of_lt_of_le hcell hx1.clen) hdr' hc1 ht1 (by rw [hx1.ds]; exact hds)
      refine ⟨s', ?_, r1, by rw [r2]; exact hx1.off, r3, by simpa using r4, by simpa using r5,
        Nat.le_trans (by simpa using hx1.llen) r6, ?_, Nat.le_trans hx1.clen r8, ?_⟩
      · simp [eLoop, eStep, hl, hcal, harg, hout, he1, he, hx1.quiet.1]
      · intro i hi hne
        rw [r7 i (Nat.lt_of_lt_of_le (by simpa using hi) hx1.llen) hne, hx1.lists i (by simpa using hi),
          list_setList_other s _ _ _ (Ne.symm hne)]
      · intro i hi hne
        rw [r9 i (Nat.lt_of_lt_of_le hi hx1.clen) hne]
        exact hx1.cells i hi hne

theorem rDefers_oof (P : Prog) (n base : Nat) (byP : Bool) (fr : RFrame) (st : RState) :
    (rDefers n P .oof base byP fr st).comp = .oof := by
  cases n <;> simp [rDefers]

/-- `$callDeferred($deferred, null)` at a normal return when no panic is in flight: just the loop -/
theorem callDeferred_normal (P : Prog) (k id c : Nat) (s s' : JS) (hq : Quiet s)
    (hin : s.deferStack.contains id = true)
    (hl : eLoop k P (.id id) none false c { s with off := s.off - 1, panicStack := s.panicStack.tail } = (s', .normal, .id id)) :
    eCallDeferred (k + 1) P (.id id) .null false c s = ({ s' with off := s'.off + 1 }, .normal) := by
  obtain ⟨q1, q2, q3⟩ := hq
  simp only [eCallDeferred, hin, q2, List.head?_nil, List.tail_nil]
  simp only [q2, List.tail_nil] at hl
  simp [hl]

theorem cell_append_old (s : JS) (i : Nat) (h : i < s.cells.length) :
    ({ s with cells := s.cells ++ [0] } : JS).cell i = s.cell i := getD_append_left _ _ _ _ h

theorem cell_append_new (s : JS) : ({ s with cells := s.cells ++ [0] } : JS).cell s.cells.length = 0 :=
  getD_append_new _ _ _

theorem rDefers_nil_normal (P : Prog) (n base : Nat) (byP : Bool) (fr : RFrame) (st : RState) (h : fr.defers = [])
    (ho : (rDefers n P .normal base byP fr st).comp ≠ .oof) : rDefers n P .normal base byP fr st = ⟨.normal, fr, st⟩ := by
  cases n with
  | zero => simp [rDefers] at ho
  | succ n => obtain ⟨res, defers⟩ := fr; simp only at h; subst h; simp [rDefers]

/-- state at the start of a function body: `run` event pushed, result cell allocated -/
def enter (s : JS) (f : Nat) (a : Val) : JS :=
  { (s.emit (.run f a)) with cells := (s.emit (.run f a)).cells ++ [0] }

/-- `$deferred = []; $curGoroutine.deferStack.push($deferred);` -/
def pushList (s : JS) : JS := { s with lists := s.lists ++ [[]], deferStack := s.lists.length :: s.deferStack }

theorem eFn_noDefer (P : Prog) (m f : Nat) (a : Val) (oc d : Nat) (s s3 : JS) (c : Comp)
    (hd : (P.fn f).hasDefer = false)
    (hb : eBody m P (P.fn f).body ⟨s.cells.length, oc, 0, d⟩ (enter s f a) = (s3, c))
    (hc : c = .normal ∨ c = .ret (s3.cell s.cells.length)) :
    eFn (m + 1) P f a oc d s = (s3, .ret (s3.cell s.cells.length)) := by
  have hb' : eBody m P (P.fn f).body ⟨s.cells.length, oc, 0, d⟩
      { lists := s.lists, deferStack := s.deferStack, panicStack := s.panicStack, psd := s.psd,
        pv := s.pv, off := s.off, exit := s.exit, cells := s.cells ++ [0], trace := Ev.run f a :: s.trace } = (s3, c) := hb
  rcases hc with h | h <;> subst h <;> simp [eFn, hd, JS.emit, hb']

theorem eFn_defer (P : Prog) (m f : Nat) (a : Val) (oc d : Nat) (s s4 s6 : JS) (c1 : Comp)
    (hd : (P.fn f).hasDefer = true)
    (hb : eBody m P (P.fn f).body ⟨s.cells.length, oc, s.lists.length, d⟩ (pushList (enter s f a)) = (s4, c1))
    (hc1 : c1 = .normal ∨ c1 = .ret (s4.cell s.cells.length))
    (hcd : eCallDeferred m P (.id s.lists.length) .null false (d + 1) s4 = (s6, .normal)) :
    eFn (m + 1) P f a oc d s =
      (s6, if (P.fn f).named then .ret (s6.cell s.cells.length) else .ret (s4.cell s.cells.length)) := by
  have hb' : eBody m P (P.fn f).body ⟨s.cells.length, oc, s.lists.length, d⟩
      { lists := s.lists ++ [[]], deferStack := s.lists.length :: s.deferStack, panicStack := s.panicStack, psd := s.psd,
        pv := s.pv, off := s.off, exit := s.exit, cells := s.cells ++ [0], trace := Ev.run f a :: s.trace } = (s4, c1) := hb
  rcases hc1 with h | h <;> subst h <;> simp [eFn, hd, JS.emit, hb', hcd]

theorem enter_quiet {s : JS} (f : Nat) (a : Val) (h : Quiet s) : Quiet (enter s f a) := h
@[simp] theorem enter_len (s : JS) (f : Nat) (a : Val) : (enter s f a).cells.length = s.cells.length + 1 := by
  simp [enter]
theorem enter_new (s : JS) (f : Nat) (a : Val) : (enter s f a).cell s.cells.length = 0 := getD_append_new _ _ _
theorem enter_old (s : JS) (f : Nat) (a : Val) (i : Nat) (h : i < s.cells.length) : (enter s f a).cell i = s.cell i :=
  getD_append_left _ _ _ _ h
@[simp] theorem enter_lists (s : JS) (f : Nat) (a : Val) : (enter s f a).lists = s.lists := rfl
@[simp] theorem enter_list (s : JS) (f : Nat) (a : Val) (i : Nat) : (enter s f a).list i = s.list i := rfl
@[simp] theorem enter_ds (s : JS) (f : Nat) (a : Val) : (enter s f a).deferStack = s.deferStack := rfl
@[simp] theorem enter_off (s : JS) (f : Nat) (a : Val) : (enter s f a).off = s.off := rfl
@[simp] theorem enter_trace (s : JS) (f : Nat) (a : Val) : (enter s f a).trace = .run f a :: s.trace := rfl

theorem pushList_quiet {s : JS} (h : Quiet s) : Quiet (pushList s) := h
@[simp] theorem pushList_cells (s : JS) : (pushList s).cells = s.cells := rfl
@[simp] theorem pushList_cell (s : JS) (i : Nat) : (pushList s).cell i = s.cell i := rfl
@[simp] theorem pushList_len (s : JS) : (pushList s).lists.length = s.lists.length + 1 := by simp [pushList]
theorem pushList_new (s : JS) : (pushList s).list s.lists.length = [] := getD_append_new _ _ _
theorem pushList_old (s : JS) (i : Nat) (h : i < s.lists.length) : (pushList s).list i = s.list i :=
  getD_append_left _ _ _ _ h
@[simp] theorem pushList_ds (s : JS) : (pushList s).deferStack = s.lists.length :: s.deferStack := rfl
@[simp] theorem pushList_off (s : JS) : (pushList s).off = s.off := rfl
@[simp] theorem pushList_trace (s : JS) : (pushList s).trace = s.trace := rfl

theorem call_step (P : Prog) (hP : NoNLE P) (n : Nat) (hB : BodySim P n) (hD : DefersSim P n) : CallSim P (n + 1) := by
  intro f a byPanic outer st hp hoof
  simp only [rCall] at hoof ⊢
  generalize hb : rBody n P (P.fn f).body byPanic outer ⟨0, []⟩ (st.emit (.run f a)) = b at hoof ⊢
  have hbo : b.comp ≠ .oof := by
    intro hh
    rw [hh] at hoof
    exact hoof (rDefers_oof P n _ _ _ _)
  obtain ⟨hbn, hbp, m1, H1⟩ := hB (P.fn f).body (P.fn f).hasDefer byPanic outer ⟨0, []⟩ (st.emit (.run f a)) (hP f)
    (fun h => h) (by simpa [RState.emit] using hp) (by rw [hb]; exact hbo)
  rw [hb] at hbn hbp H1
  rw [hbn] at hoof ⊢
  obtain ⟨hdn, hdp, m2, H2⟩ := hD (st.emit (.run f a)).panics.length byPanic b.fr b.st hbp hoof
  refine ⟨hdn, hdp, m1 + m2 + 3, ?_⟩
  intro m hm d oc s hq hoc hcell htr
  obtain ⟨m, rfl⟩ : ∃ k, m = k + 2 := ⟨m - 2, by omega⟩
  have hne : s.cells.length ≠ oc := by omega
  cases hd : (P.fn f).hasDefer with
  | false =>
    rw [hd] at H1
    have hrel : BodyRel (enter s f a) ⟨s.cells.length, oc, 0, d⟩ false outer ⟨0, []⟩ (st.emit (.run f a)) :=
      ⟨enter_quiet f a hq, (by simp), (by simp; omega), hne, enter_new s f a,
       (by rw [enter_old s f a oc hoc]; exact hcell), (by simp [RState.emit, htr]), (fun h => by cases h), (fun _ => rfl)⟩
    obtain ⟨s3, c, he, hc, hr, hx⟩ := H1 (m + 1) (by omega) _ _ hrel
    have hnil : b.fr.defers = [] := hr.nodefs rfl
    rw [rDefers_nil_normal P n _ byPanic b.fr b.st hnil hoof]
    have hres : s3.cell s.cells.length = b.fr.res := hr.res
    refine ⟨s3, ?_, ?_, hr.out, hr.tr⟩
    · rw [eFn_noDefer P (m + 1) f a oc d s s3 c hd he hc, hres]; simp
    · refine ⟨by rw [hx.ds]; rfl, by rw [hx.off]; rfl, hr.quiet, hx.llen, ?_, by have := hx.clen; simp at this; omega, ?_⟩
      · intro i hi
        exact hx.lists i hi (fun h => by cases h)
      · intro i hi hne'
        have : s3.cell i = (enter s f a).cell i := hx.cells i (by simp; omega) (by simp; omega) (by simpa using hne')
        rw [this, enter_old s f a i hi]
  | true =>
    rw [hd] at H1
    have hrel : BodyRel (pushList (enter s f a)) ⟨s.cells.length, oc, s.lists.length, d⟩ true outer ⟨0, []⟩
        (st.emit (.run f a)) :=
      ⟨pushList_quiet (enter_quiet f a hq), (by simp), (by simp; omega), hne, enter_new s f a,
       (by rw [pushList_cell, enter_old s f a oc hoc]; exact hcell), (by simp [RState.emit, htr]),
       (fun _ => ⟨by simp, by rw [show s.lists.length = (enter s f a).lists.length from rfl, pushList_new]; rfl,
          by rw [show s.lists.length = (enter s f a).lists.length from rfl, pushList_new]; intro c hc; cases hc⟩),
       (fun h => by cases h)⟩
    obtain ⟨s4, c1, he, hc, hr, hx⟩ := H1 (m + 1) (by omega) _ _ hrel
    obtain ⟨a1, a2, a3⟩ := hr.defs rfl
    have hds4 : s4.deferStack = s.lists.length :: s.deferStack := by rw [hx.ds]; rfl
    have hq5 : Quiet ({ s4 with off := s4.off - 1, panicStack := s4.panicStack.tail } : JS) :=
      ⟨hr.quiet.1, by simp [hr.quiet.2.1], hr.quiet.2.2⟩
    obtain ⟨s6, hl, r1, r2, r3, r4, r5, r6, r7, r8, r9⟩ := H2 m (by omega) s.lists.length s.cells.length (d + 1)
      s.deferStack { s4 with off := s4.off - 1, panicStack := s4.panicStack.tail } hq5 hr.hc ⟨a1, a2, a3⟩ hr.res hr.tr hds4
    have hcd := callDeferred_normal P m s.lists.length (d + 1) s4 s6 hr.quiet (by simp [hds4]) hl
    have hs4res : s4.cell s.cells.length = b.fr.res := hr.res
    have hs6res : ({ s6 with off := s6.off + 1 } : JS).cell s.cells.length =
        (rDefers n P RComp.normal (st.emit (Ev.run f a)).panics.length byPanic b.fr b.st).fr.res := r4
    refine ⟨{ s6 with off := s6.off + 1 }, ?_, ?_, ?_, r5⟩
    · rw [eFn_defer P (m + 1) f a oc d s s4 _ c1 hd he hc hcd, hs6res, hs4res]
      cases (P.fn f).named <;> simp
    · refine ⟨r1, ?_, r3, ?_, ?_, ?_, ?_⟩
      · show s6.off + 1 = s.off
        rw [r2]
        show s4.off - 1 + 1 = s.off
        rw [hx.off]; simp
      · have h1 := hx.llen; simp at h1
        have h2 : s4.lists.length ≤ s6.lists.length := r6
        show s.lists.length ≤ s6.lists.length
        omega
      · intro i hi
        have h1 := hx.llen; simp at h1
        show s6.list i = s.list i
        rw [r7 i (show i < s4.lists.length by omega) (by omega)]
        show s4.list i = s.list i
        rw [hx.lists i (by simp; omega) (fun _ => by simp; omega), pushList_old _ i (by simpa using hi)]
        rfl
      · have h1 := hx.clen; simp at h1
        have h2 : s4.cells.length ≤ s6.cells.length := r8
        show s.cells.length ≤ s6.cells.length
        omega
      · intro i hi hne'
        have h1 := hx.clen; simp at h1
        show s6.cell i = s.cell i
        rw [r9 i (show i < s4.cells.length by omega) (by omega)]
        show s4.cell i = s.cell i
        rw [hx.cells i (by simp; omega) (by simp; omega) (by simpa using hne'), pushList_cell, enter_old s f a i hi]
    · show s6.cell oc = b.outer
      have h1 := hx.clen; simp at h1
      rw [r9 oc (show oc < s4.cells.length by omega) (by omega)]
      exact hr.out

theorem sim_all (P : Prog) (hP : NoNLE P) : ∀ n, CallSim P n ∧ BodySim P n ∧ DefersSim P n
  | 0 => by
    refine ⟨?_, ?_, ?_⟩
    · intro f a byPanic outer st _ hoof; simp [rCall] at hoof
    · intro stmts hasD byPanic outer rfr st _ _ _ hoof; simp [rBody] at hoof
    · intro base byP rfr st _ hoof; simp [rDefers] at hoof
  | n + 1 => by
    obtain ⟨c, b, d⟩ := sim_all P hP n
    exact ⟨call_step P hP n b d, body_step P n c b, defers_step P n c d⟩

/-- Forward simulation for programs without non-local exits: whenever the reference semantics terminates, the
    emulation terminates (for every sufficiently large fuel) with the same trace — every function execution incl.
    every deferred call exactly once, in LIFO order, with the arguments captured at the defer statement, the same
    `recover()` results (nil) and the same results of every call — and the same outcome. -/
theorem emu_refines_ref_noNLE (P : Prog) (hP : NoNLE P) (n : Nat) (h : (ref n P).outcome ≠ .oof) :
    ∃ m0, ∀ m, m0 ≤ m → emu m P = ref n P := by
  have hoof : (rCall n P 0 0 false 0 ⟨[], []⟩).comp ≠ .oof := by
    intro hh
    simp [ref, hh] at h
  obtain ⟨hn, _, m0, H⟩ := (sim_all P hP n).1 0 0 false 0 ⟨[], []⟩ rfl hoof
  refine ⟨m0, ?_⟩
  intro m hm
  obtain ⟨s', he, _, _, ht⟩ := H m hm 2 0 JS.init ⟨rfl, rfl, rfl⟩ (by decide) rfl rfl
  simp [emu, ref, he, hn, ht]

end GV.Defer
