import GV.Model.NoSync

/-! nosync.Map against the abstract map `Key → Option Val` (GV.Props.C13). Values are codes; code 0 is the nil interface
    value: a key stored with a nil value is PRESENT (`some 0`), not absent (`none`). -/
namespace GV.Proofs.NoSyncMap
open GV.NoSync

abbrev AbsMap := Int → Option Int

inductive MapOp where
  | load (k : Int) | store (k v : Int) | loadOrStore (k v : Int) | delete (k : Int)
  deriving DecidableEq, Repr

def MapOp.toOp : MapOp → Op
  | .load k => .mapLoad k
  | .store k v => .mapStore k v
  | .loadOrStore k v => .mapLoadOrStore k v
  | .delete k => .mapDelete k

def upd (a : AbsMap) (k : Int) (v : Option Int) : AbsMap := fun x => if x = k then v else a x

/-- sync.Map on the abstract map (documentation of Load / Store / LoadOrStore / Delete) -/
def absStep (a : AbsMap) : MapOp → AbsMap × Val
  | .load k => (a, .loaded (a k) (a k).isSome)
  | .store k v => (upd a k (some v), .unit)
  | .loadOrStore k v =>
    match a k with
    | some x => (a, .loaded (some x) true)
    | none => (upd a k (some v), .loaded (some v) false)
  | .delete k => (upd a k none, .unit)

def absRun : AbsMap → List MapOp → List Out
  | _, [] => []
  | a, op :: ops => .ok (absStep a op).2 :: absRun (absStep a op).1 ops

def Rel (s : State) (a : AbsMap) : Prop := ∀ k, goLookup s.map k = a k

theorem lookup_insert (m : List (Int × Int)) (k v k' : Int) :
    (goInsert m k v).lookup k' = if k' = k then some v else m.lookup k' := by
  induction m with
  | nil => simp [goInsert, List.lookup]
  | cons p rest ih =>
    obtain ⟨pk, pv⟩ := p
    simp only [goInsert]
    by_cases h : pk = k
    · subst h
      simp only [if_true, List.lookup]
      by_cases h2 : k' = pk
      · subst h2; simp
      · have : (k' == pk) = false := by simpa using h2
        simp [this, h2]
    · simp only [h, if_false, List.lookup]
      by_cases h2 : k' = pk
      · subst h2
        have : ¬ k' = k := h
        simp [this]
      · have : (k' == pk) = false := by simpa using h2
        simp only [this]; exact ih

theorem lookup_delete (m : List (Int × Int)) (k k' : Int) :
    (goDelete m k).lookup k' = if k' = k then none else m.lookup k' := by
  induction m with
  | nil => simp [goDelete, List.lookup]
  | cons p rest ih =>
    obtain ⟨pk, pv⟩ := p
    unfold goDelete at ih ⊢
    by_cases h : pk = k
    · subst h
      simp only [List.filter_cons, ne_eq, not_true_eq_false, decide_false, Bool.false_eq_true, if_false, List.lookup]
      by_cases h2 : k' = pk
      · subst h2; simpa using ih
      · have : (k' == pk) = false := by simpa using h2
        simp only [this]; exact ih
    · have hd : decide ((pk, pv).1 ≠ k) = true := by simpa using h
      simp only [List.filter_cons, hd, if_true, List.lookup]
      by_cases h2 : k' = pk
      · subst h2
        have : ¬ k' = k := h
        simp [this]
      · have : (k' == pk) = false := by simpa using h2
        simp only [this]; exact ih

theorem step_refines (s : State) (a : AbsMap) (op : MapOp) (h : Rel s a) :
    (step s op.toOp).2 = .ok (absStep a op).2 ∧ Rel (step s op.toOp).1 (absStep a op).1 := by
  cases op with
  | load k =>
    simp only [MapOp.toOp, step, absStep, h k]
    exact ⟨trivial, h⟩
  | store k v =>
    refine ⟨by simp [MapOp.toOp, step, absStep], ?_⟩
    intro k'
    have := h k'
    cases hm : s.map <;> simp only [hm, goLookup, Option.getD] at this ⊢ <;>
      simp only [MapOp.toOp, step, hm, absStep, upd, goLookup, Option.getD, lookup_insert] <;> rw [this]
  | loadOrStore k v =>
    have hk := h k
    cases ha : a k with
    | some x =>
      rw [ha] at hk
      simp only [MapOp.toOp, step, absStep, hk, ha]
      exact ⟨trivial, h⟩
    | none =>
      rw [ha] at hk
      have hs : step s (.mapLoadOrStore k v) =
          ({ s with map := some (goInsert (s.map.getD []) k v) }, .ok (.loaded (some v) false)) := by
        simp only [step, hk]
        cases hm : s.map <;> simp
      simp only [MapOp.toOp, hs, absStep, ha]
      refine ⟨trivial, ?_⟩
      intro k'
      have := h k'
      unfold goLookup at this
      simp only [goLookup, Option.getD_some, lookup_insert, upd, this]
  | delete k =>
    refine ⟨by cases hm : s.map <;> simp [MapOp.toOp, step, absStep, hm], ?_⟩
    intro k'
    have := h k'
    cases hm : s.map with
    | none =>
      simp only [hm, goLookup, Option.getD, List.lookup] at this
      simp only [MapOp.toOp, step, hm, absStep, upd, goLookup, Option.getD, List.lookup]
      split <;> simp_all
    | some m =>
      simp only [hm, goLookup, Option.getD] at this
      simp only [MapOp.toOp, step, hm, absStep, upd, goLookup, Option.getD, lookup_delete]; rw [this]

/-- for EVERY history of Load / Store / LoadOrStore / Delete, nosync.Map returns what the abstract map returns -/
theorem run_refines (s : State) (a : AbsMap) (h : Rel s a) (ops : List MapOp) :
    run s (ops.map MapOp.toOp) = absRun a ops := by
  induction ops generalizing s a with
  | nil => rfl
  | cons op ops ih =>
    obtain ⟨h1, h2⟩ := step_refines s a op h
    simp only [List.map_cons, run, absRun, h1]
    rw [ih _ _ h2]

theorem rel_init : Rel {} (fun _ => none) := by intro k; rfl

/-- a key stored with the nil value (code 0) is present: LoadOrStore returns (nil, true) and leaves the entry alone -/
theorem present_nil_is_present (s : State) (k v : Int) :
    let s1 := (step s (.mapStore k 0)).1
    step s1 (.mapLoadOrStore k v) = (s1, .ok (.loaded (some 0) true)) := by
  intro s1
  have hl : goLookup s1.map k = some 0 := by
    cases hm : s.map <;> simp [s1, step, hm, goLookup, lookup_insert]
  simp only [step, hl]

/-- the SEEDED / defective presence test `if actual = m.m[key]; actual != nil` (a nil value counts as absent) -/
def loadOrStoreNeNil (s : State) (k v : Int) : State × Out :=
  match goLookup s.map k with
  | some x => if x ≠ 0 then (s, .ok (.loaded (some x) true)) else (step s (.mapStore k v)).1 |> fun s' => (s', .ok (.loaded (some v) false))
  | none => (step s (.mapStore k v)).1 |> fun s' => (s', .ok (.loaded (some v) false))

/-- …does NOT refine the abstract map: `Store(k, nil); LoadOrStore(k, 5)` must return (nil, true) -/
theorem ne_nil_test_counterexample :
    (loadOrStoreNeNil (step {} (.mapStore 10 0)).1 10 5).2 ≠ .ok (absStep (absStep (fun _ => none) (.store 10 0)).1 (.loadOrStore 10 5)).2 := by
  decide

end GV.Proofs.NoSyncMap
