/-
  GV.Proofs.SrcMap — helper lemmas about the hint filter model (GV.Model.SrcMap) used by GV.Props.C19:
  unfolding of `write`, behaviour on a code prefix and on an encoded hint, the rendering of item
  lists, and the link between the filter's (line, column) state and text positions of the output.
-/
import GV.Model.SrcMap
import GV.Spec.SrcMap

namespace GV.Proofs.SrcMap
open GV.SrcMap
open GV.Spec.SrcMap (Item codeBytes posOf lineCount colOf)

theorem write_eq (st : St) (p : Bytes) : write st p =
    match findHint p with
    | none => ⟨advance st p, p, [], p.length, none⟩
    | some i =>
      match readHint (p.drop i) with
      | .error e => ⟨advance st (p.take i), p.take i, [], (p.take i).length, some e⟩
      | .ok (payload, length) =>
        let st' := advance st (p.take i)
        let r := write st' (p.drop (i + length))
        ⟨r.st, p.take i ++ r.out, ⟨st'.line + 1, st'.column, payload⟩ :: r.maps, (p.take i).length + length + r.n, r.err⟩ := by
  rw [write]
  split
  · rename_i h; simp only [h]
  · rename_i i h
    simp only [h]
    split
    · rename_i e h2; simp only [h2]
    · rename_i pl len h2; simp only [h2]

abbrev NoMagic (c : Bytes) : Prop := ∀ b ∈ c, b ≠ magic

theorem findHint_append {c : Bytes} (hc : NoMagic c) (r : Bytes) :
    findHint (c ++ r) = (findHint r).map (· + c.length) := by
  induction c with
  | nil => simp
  | cons b tl ih =>
    have hb : b ≠ magic := hc b (by simp)
    have htl : NoMagic tl := fun x hx => hc x (by simp [hx])
    simp only [List.cons_append, findHint, hb, if_false, ih htl, List.length_cons]
    cases findHint r <;> simp [Nat.add_assoc]

theorem findHint_nomagic {c : Bytes} (hc : NoMagic c) : findHint c = none := by
  have := findHint_append hc []
  simpa [findHint] using this

theorem advance_append (st : St) (a b : Bytes) : advance st (a ++ b) = advance (advance st a) b := by
  induction a generalizing st with
  | nil => rfl
  | cons x tl ih =>
    simp only [List.cons_append, advance]
    split <;> exact ih _

/-- prepend code bytes to a result -/
def _root_.GV.SrcMap.Res.pre (c : Bytes) (r : Res) : Res := ⟨r.st, c ++ r.out, r.maps, c.length + r.n, r.err⟩

theorem write_code_append {c : Bytes} (hc : NoMagic c) (st : St) (r : Bytes) :
    write st (c ++ r) = (write (advance st c) r).pre c := by
  rw [write_eq st (c ++ r), write_eq (advance st c) r, findHint_append hc]
  cases hf : findHint r with
  | none => simp [Res.pre, advance_append]
  | some j =>
    simp only [Option.map_some]
    have h1 : List.drop (j + c.length) (c ++ r) = List.drop j r := by
      rw [Nat.add_comm, ← List.drop_drop]; simp
    have h2 : List.take (j + c.length) (c ++ r) = c ++ List.take j r := by
      rw [Nat.add_comm, List.take_length_add_append]
    rw [h1, h2]
    cases hr : readHint (List.drop j r) with
    | error e => simp [Res.pre, advance_append]
    | ok v =>
      obtain ⟨pl, len⟩ := v
      have h3 : List.drop (j + c.length + len) (c ++ r) = List.drop (j + len) r := by
        have : j + c.length + len = c.length + (j + len) := by omega
        rw [this, ← List.drop_drop]; simp
      simp only [h3, Res.pre, advance_append, List.append_assoc, List.length_append]
      congr 1
      omega

theorem readHint_enc (h r : Bytes) : readHint (enc h ++ r) = .ok (h, h.length + 3) := by
  have hsz : h.length / 256 * 256 + h.length % 256 = h.length := by omega
  simp only [enc, List.cons_append, readHint, ne_eq, not_true_eq_false, if_false, hsz,
    List.length_append]
  have : ¬ (h.length + r.length < h.length) := by omega
  simp [this]

/-- add the mapping of a hint standing at `st` in front of a result -/
def _root_.GV.SrcMap.Res.hintAt (st : St) (h : Bytes) (r : Res) : Res :=
  ⟨r.st, r.out, ⟨st.line + 1, st.column, h⟩ :: r.maps, h.length + 3 + r.n, r.err⟩

theorem write_hint_append (st : St) (h r : Bytes) :
    write st (enc h ++ r) = (write st r).hintAt st h := by
  rw [write_eq st (enc h ++ r)]
  have hf : findHint (enc h ++ r) = some 0 := by simp [enc, findHint]
  simp only [hf, List.drop_zero, readHint_enc, List.take_zero, advance, List.nil_append,
    List.length_nil, Nat.zero_add]
  have hd : List.drop (h.length + 3) (enc h ++ r) = r := by
    have : (enc h).length = h.length + 3 := by simp [enc]
    rw [← this, List.drop_left]
  simp [hd, Res.hintAt]

def render : List Item → Bytes
  | [] => []
  | .code c :: tl => c ++ render tl
  | .hint h :: tl => enc h ++ render tl

theorem render_append (a b : List Item) : render (a ++ b) = render a ++ render b := by
  induction a with
  | nil => rfl
  | cons x tl ih => cases x <;> simp [render, ih]

theorem codeBytes_append (a b : List Item) : codeBytes (a ++ b) = codeBytes a ++ codeBytes b := by
  induction a with
  | nil => rfl
  | cons x tl ih => cases x <;> simp [codeBytes, ih]

/-- the mappings the model reports for a list of items, starting in state `st` -/
def modelMaps (st : St) : List Item → List Mapping
  | [] => []
  | .code c :: tl => modelMaps (advance st c) tl
  | .hint h :: tl => ⟨st.line + 1, st.column, h⟩ :: modelMaps st tl

abbrev WFs (items : List Item) : Prop := ∀ it ∈ items, it.WF

theorem write_nil (st : St) : write st [] = ⟨st, [], [], 0, none⟩ := by
  rw [write_eq]; simp [findHint, advance]

theorem write_render (items : List Item) (wf : WFs items) (st : St) (r : Bytes) :
    write st (render items ++ r) =
      (let R := write (advance st (codeBytes items)) r
       ⟨R.st, codeBytes items ++ R.out, modelMaps st items ++ R.maps, (render items).length + R.n, R.err⟩) := by
  induction items generalizing st with
  | nil => simp [render, codeBytes, modelMaps, advance]
  | cons it tl ih =>
    have wtl : WFs tl := fun x hx => wf x (by simp [hx])
    cases it with
    | code c =>
      have hc : NoMagic c := wf (.code c) (by simp)
      simp only [render, List.append_assoc, codeBytes, modelMaps]
      rw [write_code_append hc, ih wtl]
      simp only [Res.pre, advance_append, List.length_append]
      congr 1
      omega
    | hint h =>
      simp only [render, List.append_assoc, codeBytes, modelMaps]
      rw [write_hint_append, ih wtl]
      simp only [Res.hintAt, List.length_append, List.cons_append]
      congr 1
      simp [enc]; omega

theorem write_render' (items : List Item) (wf : WFs items) (st : St) :
    write st (render items) =
      ⟨advance st (codeBytes items), codeBytes items, modelMaps st items, (render items).length, none⟩ := by
  have := write_render items wf st []
  simpa [write_nil] using this

theorem writeAll_render (chunks : List (List Item)) (wf : ∀ ch ∈ chunks, WFs ch) (st : St) :
    writeAll st (chunks.map render) = write st (render chunks.flatten) := by
  induction chunks generalizing st with
  | nil => simp [writeAll, render, write_nil]
  | cons ch rest ih =>
    have wch : WFs ch := wf ch (by simp)
    have wrest : ∀ c ∈ rest, WFs c := fun c hc => wf c (by simp [hc])
    simp only [List.map_cons, writeAll, List.flatten_cons, render_append]
    rw [write_render' ch wch, write_render ch wch]
    simp only [ih wrest]

/-- the filter state that corresponds to having written `pre` -/
def stOf (pre : Bytes) : St := ⟨lineCount pre, colOf pre⟩

theorem colOf_snoc (pre : Bytes) (b : Nat) : colOf (pre ++ [b]) = if b = 10 then 0 else colOf pre + 1 := by
  unfold colOf
  simp only [List.reverse_append, List.reverse_cons, List.reverse_nil, List.nil_append,
    List.cons_append, List.takeWhile_cons]
  by_cases hb : b = 10 <;> simp [hb]

theorem lineCount_snoc (pre : Bytes) (b : Nat) : lineCount (pre ++ [b]) = lineCount pre + if b = 10 then 1 else 0 := by
  unfold lineCount
  by_cases hb : b = 10 <;> simp [hb, List.count_append]

theorem advance_stOf (pre c : Bytes) : advance (stOf pre) c = stOf (pre ++ c) := by
  induction c generalizing pre with
  | nil => simp [advance]
  | cons b tl ih =>
    have e : pre ++ b :: tl = (pre ++ [b]) ++ tl := by simp
    rw [e, ← ih (pre ++ [b])]
    simp only [advance, nl]
    by_cases hb : b = 10
    · simp [hb, stOf, colOf_snoc, lineCount_snoc]
    · simp [hb, stOf, colOf_snoc, lineCount_snoc]

def toMapping (m : Nat × Nat × Bytes) : Mapping := ⟨m.1, m.2.1, m.2.2⟩

theorem modelMaps_stOf (pre : Bytes) (items : List Item) :
    modelMaps (stOf pre) items = (GV.Spec.SrcMap.mappings pre items).map toMapping := by
  induction items generalizing pre with
  | nil => rfl
  | cons it tl ih =>
    cases it with
    | code c => simp only [modelMaps, GV.Spec.SrcMap.mappings, advance_stOf, ih]
    | hint h =>
      simp only [modelMaps, GV.Spec.SrcMap.mappings, ih, List.map_cons, toMapping, posOf]
      congr 2
      simp only [stOf]; omega

end GV.Proofs.SrcMap
