/-
  GV.Proofs.JsTagKey — the property name denoted by the accessor emitted for a `js:"…"` tag is the UTF-16 form of the tag.
-/
import GV.Model.JsTagKey
import GV.Proofs.StrLit
import GV.Proofs.Utf16

namespace GV.Proofs.JsTagKey
open GV.JsTagKey GV.Spec.JsTable GV.StrLit

theorem hex4_u4 (r : Nat) (h : r ≤ 0xFFFF) :
    hex4 (hexUpper (r / 4096 % 16)) (hexUpper (r / 256 % 16)) (hexUpper (r / 16 % 16)) (hexUpper (r % 16)) = some r := by
  unfold hex4
  rw [hexVal_hexUpper _ (by omega), hexVal_hexUpper _ (by omega), hexVal_hexUpper _ (by omega), hexVal_hexUpper _ (by omega)]
  simp only [Option.some.injEq]
  omega

/-- the escape of one rune is read back in one step as the UTF-16 encoding of that rune -/
theorem litStep_escRune (T : Tables) (r : Nat) (hr : r ≤ 0x10FFFF) (hp : r > 0xFFFF → T.isPrint r = true) (rest : List Nat) :
    litStep (escRune T r ++ rest) = some (utf16Of r, rest) ∧ escRune T r ++ rest ≠ [34] := by
  have hsmall : r ≤ 0xFFFF → utf16Of r = [r] := by
    intro h; unfold utf16Of; simp [show r < 0x10000 by omega]
  have hu4 : ∀ x, x ≤ 0xFFFF → litStep (u4 x ++ rest) = some ([x], rest) ∧ u4 x ++ rest ≠ [34] := by
    intro x hx
    simp [u4, litStep, hex4_u4 x hx]
  unfold escRune
  by_cases h92 : r = 92
  · subst h92; simp [litStep, utf16Of]
  by_cases h39 : r = 39
  · subst h39; simp [litStep, utf16Of]
  by_cases h34 : r = 34
  · subst h34; simp [litStep, utf16Of]
  simp only [h92, h39, h34, if_false]
  by_cases hsp : r = 60 ∨ r = 62 ∨ r = 38 ∨ r = 61
  · rw [if_pos hsp, hsmall (by omega)]; exact hu4 r (by omega)
  rw [if_neg hsp]
  by_cases hc : r < 32
  · rw [if_pos hc, hsmall (by omega)]; exact hu4 r (by omega)
  rw [if_neg hc]
  have hraw : litStep ([r] ++ rest) = some (utf16Of r, rest) ∧ [r] ++ rest ≠ [34] := by
    have h10 : r ≠ 10 := by omega
    have h13 : r ≠ 13 := by omega
    simp [litStep, h92, h34, h10, h13]
  by_cases ha : r < 128
  · rw [if_pos ha]; exact hraw
  rw [if_neg ha]
  by_cases hpr : T.isPrint r = true
  · rw [if_pos hpr]; exact hraw
  · rw [if_neg hpr]
    have hbmp : r ≤ 0xFFFF := by
      by_cases hb : r > 0xFFFF
      · exact absurd (hp hb) hpr
      · omega
    unfold fmtU
    rw [if_pos hbmp, hsmall hbmp]
    exact hu4 r hbmp

theorem unescN_jsEscape (T : Tables) : ∀ (runes : List Nat), (∀ r ∈ runes, r ≤ 0x10FFFF) → (∀ r ∈ runes, r > 0xFFFF → T.isPrint r = true) →
    ∀ (n : Nat) (acc : List Nat), runes.length < n →
      unescN n (jsEscape T runes ++ [34]) acc = some (acc ++ (runes.map utf16Of).flatten) := by
  intro runes
  induction runes with
  | nil =>
    intro _ _ n acc hn
    cases n with
    | zero => simp at hn
    | succ n => simp [jsEscape, unescN]
  | cons r rs ih =>
    intro h1 h2 n acc hn
    cases n with
    | zero => simp at hn
    | succ n =>
      simp only [jsEscape, List.map_cons, List.flatten_cons, List.append_assoc]
      obtain ⟨hs, hne⟩ := litStep_escRune T r (h1 r (by simp)) (h2 r (by simp)) ((rs.map (escRune T)).flatten ++ [34])
      rw [unescN, if_neg hne, hs]
      have := ih (fun x hx => h1 x (by simp [hx])) (fun x hx => h2 x (by simp [hx])) n (acc ++ utf16Of r) (by simp at hn; omega)
      simp only [jsEscape] at this
      simp only [this, List.append_assoc]

theorem jsEscape_length (T : Tables) (runes : List Nat) : runes.length ≤ (jsEscape T runes).length := by
  induction runes with
  | nil => simp [jsEscape]
  | cons r rs ih =>
    simp only [jsEscape, List.map_cons, List.flatten_cons, List.length_append, List.length_cons] at ih ⊢
    have : 1 ≤ (escRune T r).length := by
      unfold escRune fmtU u4
      repeat (first | split | simp)
    omega

/-- **tagKey_name** — whatever the Unicode tables say, the accessor `formatJSStructTagVal` emits denotes the property whose
    name is the tag's runes in UTF-16 -/
theorem tagKey_name (T : Tables) (runes : List Nat) (h1 : ∀ r ∈ runes, r ≤ 0x10FFFF)
    (h2 : ∀ r ∈ runes, r > 0xFFFF → T.isPrint r = true) :
    keyName (tagKey T runes) = some ((runes.map utf16Of).flatten) := by
  unfold tagKey
  split
  · rfl
  · simp only [List.cons_append, List.nil_append, keyName]
    have hl := jsEscape_length T runes
    have := unescN_jsEscape T runes h1 h2 (jsEscape T runes ++ [34]).length [] (by simp; omega)
    simpa [unesc] using this

end GV.Proofs.JsTagKey
