import GV.Model.Bits32
import GV.Basic.Bits

/-! Helper lemmas and proofs for the math/bits part of GV.Props.C13. -/
namespace GV.Proofs.Bits32
open GV.Bits32

theorem mul_le_sq {a b : Nat} (ha : a ≤ 65535) (hb : b ≤ 65535) : a * b ≤ 4294836225 := by
  have := Nat.mul_le_mul ha hb
  omega

theorem split_prod (x1 x0 y1 y0 : Nat) :
    (x1 * 65536 + x0) * (y1 * 65536 + y0) = x1 * y1 * 4294967296 + (x1 * y0 + x0 * y1) * 65536 + x0 * y0 := by
  grind

/-- `Mul32`: the pair (hi, lo) is the 64-bit product -/
theorem mul32_correct (x y : Nat) (hx : x < 4294967296) (hy : y < 4294967296) :
    (mul32 x y).1 * 4294967296 + (mul32 x y).2 = x * y ∧ (mul32 x y).1 < 4294967296 ∧ (mul32 x y).2 < 4294967296 := by
  have hx0 : x &&& 65535 = x % 65536 := GV.Bits.and_mask x 16
  have hy0 : y &&& 65535 = y % 65536 := GV.Bits.and_mask y 16
  have hx1 : x >>> 16 = x / 65536 := GV.Bits.shr_div x 16
  have hy1 : y >>> 16 = y / 65536 := GV.Bits.shr_div y 16
  have ex : x = (x / 65536) * 65536 + x % 65536 := by omega
  have ey : y = (y / 65536) * 65536 + y % 65536 := by omega
  have hp := split_prod (x / 65536) (x % 65536) (y / 65536) (y % 65536)
  rw [← ex, ← ey] at hp
  have ha := mul_le_sq (a := x % 65536) (b := y % 65536) (by omega) (by omega)
  have hb := mul_le_sq (a := x / 65536) (b := y % 65536) (by omega) (by omega)
  have hc := mul_le_sq (a := x % 65536) (b := y / 65536) (by omega) (by omega)
  have hd := mul_le_sq (a := x / 65536) (b := y / 65536) (by omega) (by omega)
  simp only [mul32, u32, hx0, hy0, hx1, hy1]
  generalize x % 65536 * (y % 65536) = a at *
  generalize x / 65536 * (y % 65536) = b at *
  generalize x % 65536 * (y / 65536) = c at *
  generalize x / 65536 * (y / 65536) = d at *
  generalize x * y = p at *
  simp only [GV.Bits.and_mask _ 16, GV.Bits.shr_div _ 16, show (65535:Nat) = 2^16 - 1 from rfl] 
  omega

set_option linter.unusedSimpArgs false

theorem shr31 (a : Nat) (h : a < 4294967296) : a >>> 31 = if a.testBit 31 then 1 else 0 := by
  rw [GV.Bits.shr_div, Nat.testBit_eq_decide_div_mod_eq]
  by_cases hb : a / 2 ^ 31 % 2 = 1 <;> simp [hb] <;> omega

theorem tb31 (a : Nat) : a.testBit 31 = decide (a / 2147483648 % 2 = 1) := by
  rw [Nat.testBit_eq_decide_div_mod_eq]

/-- `Add32`: sum and carry-out are the 33-bit sum -/
theorem add32_correct (x y c : Nat) (hx : x < 4294967296) (hy : y < 4294967296) (hc : c ≤ 1) :
    (add32 x y c).1 + (add32 x y c).2 * 4294967296 = x + y + c ∧ (add32 x y c).1 < 4294967296 ∧ (add32 x y c).2 ≤ 1 := by
  simp only [add32, u32, andNot32]
  have hs : (x + y) % 4294967296 % 4294967296 = (x + y) % 4294967296 := by omega
  have hlt : (x &&& y ||| (x ||| y) &&& (((x + y) % 4294967296 + c) % 4294967296 ^^^ 4294967295)) < 2 ^ 32 := by
    apply Nat.or_lt_two_pow
    · exact Nat.and_lt_two_pow _ (by omega)
    · exact Nat.lt_of_le_of_lt Nat.and_le_left (Nat.or_lt_two_pow (by omega) (by omega))
  rw [shr31 _ hlt]
  simp only [Nat.testBit_or, Nat.testBit_and, Nat.testBit_xor]
  simp only [tb31]
  by_cases bx : x / 2147483648 % 2 = 1 <;> by_cases by_ : y / 2147483648 % 2 = 1 <;>
    by_cases bs : ((x + y) % 4294967296 + c) % 4294967296 / 2147483648 % 2 = 1 <;>
    simp only [bx, by_, bs, decide_true, decide_false, Bool.true_and, Bool.false_and, Bool.and_true, Bool.and_false, Bool.true_or, Bool.false_or, Bool.or_true, Bool.or_false, Bool.xor_true, Bool.not_true, Bool.not_false, if_true, if_false, Bool.false_eq_true, decide_eq_true_eq, Bool.true_xor, Bool.false_xor, Bool.xor_false] <;> omega

/-- `Div32` panics as upstream: divide error on y = 0, overflow error on 0 < y ≤ hi -/
theorem div32_panics (hi lo y : Nat) :
    (y = 0 → div32 hi lo y = .divideError) ∧ (y ≠ 0 → y ≤ hi → div32 hi lo y = .overflowError) := by
  refine ⟨fun h => ?_, fun h1 h2 => ?_⟩
  · unfold div32; rw [if_pos h]
  · unfold div32; rw [if_neg h1, if_pos h2]

/-- `Rem32` panics (the runtime's divide error of `hi % y`) when y = 0 -/
theorem rem32_panics (hi lo y : Nat) (h : y = 0) : rem32 hi lo y = .divideError := by
  unfold rem32; rw [if_pos h]

theorem corrLoop_last (n q rhat yn1 yn0 un : Nat) (h : 65536 ≤ rhat + yn1) (h2 : rhat + yn1 < 4294967296) :
    corrLoop (n + 1) q rhat yn1 yn0 un ≠ none := by
  have e : u32 (rhat + yn1) = rhat + yn1 := Nat.mod_eq_of_lt h2
  unfold corrLoop
  by_cases hc : q ≥ 65536 ∨ u32 (q * yn0) > u32 (u32 (65536 * rhat) + un)
  · rw [if_pos hc]
    simp only [e]
    rw [if_pos h]; simp
  · rw [if_neg hc]; simp

/-- each correction loop of `Div32` leaves within two decrements once the divisor is normalised (yn1 ≥ 2^15):
    the model's loop budget is never exhausted -/
theorem corrLoop_terminates (q rhat yn1 yn0 un : Nat) (hy : 32768 ≤ yn1) (hy' : yn1 < 65536) (hr : rhat < 65536) :
    corrLoop loopFuel q rhat yn1 yn0 un ≠ none := by
  have e : u32 (rhat + yn1) = rhat + yn1 := Nat.mod_eq_of_lt (by omega)
  unfold loopFuel corrLoop
  by_cases hc : q ≥ 65536 ∨ u32 (q * yn0) > u32 (u32 (65536 * rhat) + un)
  · rw [if_pos hc]
    simp only [e]
    by_cases hb : rhat + yn1 ≥ 65536
    · rw [if_pos hb]; simp
    · rw [if_neg hb]
      exact corrLoop_last 1 _ _ _ _ _ (by omega) (by omega)
  · rw [if_neg hc]; simp

/-- the Knuth-D digit estimate of `Div32` (one correction loop), on a normalised two-digit divisor y = y1·2^16 + y0:
    starting from any (q, r) with q·y1 + r = u1, q ≤ 2^16+1, r < 2^16 and q not below the true digit, the loop returns
    the true quotient digit of (u1·2^16 + u0) / y. -/
theorem corrLoop_digit (f : Nat) : ∀ (q r y1 y0 u1 u0 : Nat),
    32768 ≤ y1 → y1 < 65536 → y0 < 65536 → u0 < 65536 → r < 65536 → q ≤ 65537 →
    u1 < y1 * 65536 + y0 →
    q * y1 + r = u1 →
    u1 * 65536 + u0 < (q + 1) * (y1 * 65536 + y0) →
    65536 ≤ r + f * y1 →
    ∃ q', corrLoop f q r y1 y0 u0 = some q' ∧
      q' * (y1 * 65536 + y0) ≤ u1 * 65536 + u0 ∧ u1 * 65536 + u0 < (q' + 1) * (y1 * 65536 + y0) := by
  induction f with
  | zero => intro q r y1 y0 u1 u0 _ _ _ _ hr _ _ _ _ hf; omega
  | succ f ih =>
    intro q r y1 y0 u1 u0 hy1 hy1' hy0 hu0 hr hq hu1 hinv hup hf
    -- products as atoms
    have eP : q * (y1 * 65536 + y0) = q * y1 * 65536 + q * y0 := by rw [Nat.mul_add, Nat.mul_assoc]
    have eP1 : (q + 1) * (y1 * 65536 + y0) = q * y1 * 65536 + q * y0 + y1 * 65536 + y0 := by
      rw [Nat.add_mul, eP]; omega
    have hB : q * y0 ≤ 65537 * 65535 := Nat.mul_le_mul hq (by omega)
    have e1 : u32 (q * y0) = q * y0 := Nat.mod_eq_of_lt (by omega)
    have e2 : u32 (u32 (65536 * r) + u0) = 65536 * r + u0 := by
      unfold u32; omega
    unfold corrLoop
    rw [e1, e2]
    by_cases hc : q ≥ 65536 ∨ q * y0 > 65536 * r + u0
    · rw [if_pos hc]
      -- q ≥ 1 and u < q·y
      have hq1 : 1 ≤ q := by
        rcases hc with hc | hc
        · omega
        · rcases Nat.eq_zero_or_pos q with h0 | h0
          · subst h0; simp at hc
          · exact h0
      have hlt : u1 * 65536 + u0 < q * (y1 * 65536 + y0) := by
        rw [eP]
        rcases hc with hc | hc
        · have h1 : 65536 * y1 ≤ q * y1 := Nat.mul_le_mul_right y1 hc
          have h2 : 65536 * y0 ≤ q * y0 := Nat.mul_le_mul_right y0 hc
          generalize q * y1 = A at *
          generalize q * y0 = B at *
          omega
        · generalize q * y1 = A at *
          generalize q * y0 = B at *
          omega
      have es : sub32 q 1 = q - 1 := by unfold sub32; omega
      have er : u32 (r + y1) = r + y1 := Nat.mod_eq_of_lt (by omega)
      simp only [es, er]
      have eA : (q - 1) * y1 = q * y1 - y1 := Nat.sub_one_mul q y1
      have eB : (q - 1) * y0 = q * y0 - y0 := Nat.sub_one_mul q y0
      have hAy : y1 ≤ q * y1 := Nat.le_mul_of_pos_left y1 hq1
      have hBy : y0 ≤ q * y0 := Nat.le_mul_of_pos_left y0 hq1
      have hup' : u1 * 65536 + u0 < (q - 1 + 1) * (y1 * 65536 + y0) := by
        rw [Nat.sub_add_cancel hq1]; exact hlt
      have hinv' : (q - 1) * y1 + (r + y1) = u1 := by rw [eA]; omega
      by_cases hb : r + y1 ≥ 65536
      · rw [if_pos hb]
        refine ⟨q - 1, rfl, ?_, hup'⟩
        have eP' : (q - 1) * (y1 * 65536 + y0) = (q - 1) * y1 * 65536 + (q - 1) * y0 := by
          rw [Nat.mul_add, Nat.mul_assoc]
        rw [eP', eA, eB]
        have hB' : q * y0 - y0 ≤ 65536 * 65536 := by
          have : (q - 1) * y0 ≤ 65536 * 65536 := Nat.mul_le_mul (by omega) (by omega)
          rw [eB] at this; exact this
        generalize q * y1 = A at *
        generalize q * y0 = B at *
        omega
      · rw [if_neg hb]
        exact ih (q - 1) (r + y1) y1 y0 u1 u0 hy1 hy1' hy0 hu0 (by omega) (by omega) hu1 hinv' hup' (by
          rw [Nat.succ_mul] at hf; omega)
    · rw [if_neg hc]
      refine ⟨q, rfl, ?_, hup⟩
      rw [eP]
      have hc' : q * y0 ≤ 65536 * r + u0 := by omega
      generalize q * y1 = A at *
      generalize q * y0 = B at *
      omega

end GV.Proofs.Bits32
