import GV.Model.JSInt
import GV.Model.Num64
import GV.Model.NumScheme
import GV.Spec.Num

/-! Helper lemmas for GV.Props.C06: normal forms of the JS integer fragment. -/
namespace GV.Proofs.Num
open GV.JSInt

theorem toInt32_eq_bmod (v : Int) : toInt32 v = v.bmod (2 ^ 32) := by
  unfold toInt32; rw [Int.bmod_def]; rfl

theorem toUint32_eq_emod (v : Int) : toUint32 v = v % 4294967296 := rfl

theorem toInt32_range (v : Int) : -2147483648 ≤ toInt32 v ∧ toInt32 v < 2147483648 := by
  unfold toInt32; split <;> omega

theorem toUint32_range (v : Int) : 0 ≤ toUint32 v ∧ toUint32 v < 4294967296 := by
  unfold toUint32; omega

theorem toInt32_id {v : Int} (h : -2147483648 ≤ v ∧ v < 2147483648) : toInt32 v = v := by
  unfold toInt32; split <;> omega

theorem toUint32_id {v : Int} (h : 0 ≤ v ∧ v < 4294967296) : toUint32 v = v := by
  unfold toUint32; omega

theorem shiftCount_lit (n : Nat) (h : n < 32) : shiftCount (n : Int) = n := by
  unfold shiftCount toUint32; omega

/-- `v << 24 >> 24` -/
theorem fix8s (v : Int) : sar (shl v 24) 24 = (v % 256 + 128) % 256 - 128 := by
  have h24 : shiftCount 24 = 24 := shiftCount_lit 24 (by omega)
  unfold sar shl; rw [h24]
  have := toInt32_range (toInt32 v * 2 ^ 24)
  rw [toInt32_id this]
  unfold toInt32
  split <;> split <;> omega

/-- `v << 24 >>> 24` -/
theorem fix8u (v : Int) : shr (shl v 24) 24 = v % 256 := by
  have h24 : shiftCount 24 = 24 := shiftCount_lit 24 (by omega)
  unfold shr shl; rw [h24]
  unfold toUint32 toInt32
  split <;> split <;> omega

/-- `v << 16 >> 16` -/
theorem fix16s (v : Int) : sar (shl v 16) 16 = (v % 65536 + 32768) % 65536 - 32768 := by
  have h16 : shiftCount 16 = 16 := shiftCount_lit 16 (by omega)
  unfold sar shl; rw [h16]
  have := toInt32_range (toInt32 v * 2 ^ 16)
  rw [toInt32_id this]
  unfold toInt32
  split <;> split <;> omega

/-- `v << 16 >>> 16` -/
theorem fix16u (v : Int) : shr (shl v 16) 16 = v % 65536 := by
  have h16 : shiftCount 16 = 16 := shiftCount_lit 16 (by omega)
  unfold shr shl; rw [h16]
  unfold toUint32 toInt32
  split <;> split <;> omega

/-- `v >> 0` -/
theorem fix32s (v : Int) : sar v 0 = toInt32 v := by
  have h0 : shiftCount 0 = 0 := shiftCount_lit 0 (by omega)
  unfold sar; rw [h0]; simp

/-- `v >>> 0` -/
theorem fix32u (v : Int) : shr v 0 = toUint32 v := by
  have h0 : shiftCount 0 = 0 := shiftCount_lit 0 (by omega)
  unfold shr; rw [h0]; simp

theorem toInt32_emod (v : Int) : toInt32 v % 4294967296 = v % 4294967296 := by
  unfold toInt32; split <;> omega

theorem toInt32_congr {a b : Int} (h : a % 4294967296 = b % 4294967296) : toInt32 a = toInt32 b := by
  unfold toInt32; rw [h]

/-- `Math.imul` is the wrapped exact product -/
theorem imul_eq (x y : Int) : imul x y = toInt32 (x * y) := by
  unfold imul; apply toInt32_congr
  rw [Int.mul_emod, toInt32_emod, toInt32_emod, ← Int.mul_emod]

theorem mul_toInt (x y : Int) : (GV.JSInt.mul x y).toInt = x * y := by
  unfold GV.JSInt.mul
  split
  · next h => simp only [JSNum.toInt]; omega
  · rfl

/-- |x tdiv y| ≤ |x|, as two linear facts for `omega` -/
theorem tdiv_bounds (x y : Int) : -(x.natAbs : Int) ≤ x.tdiv y ∧ x.tdiv y ≤ x.natAbs := by
  have := Int.natAbs_tdiv_le_natAbs x y
  omega

/-- the quotient reaches |x| only for a divisor ±1 (or x = 0) -/
theorem tdiv_natAbs_eq (x y : Int) (h : (x.tdiv y).natAbs = x.natAbs) (hx : x ≠ 0) : y = 1 ∨ y = -1 := by
  rw [Int.natAbs_tdiv] at h
  have h' : x.natAbs / y.natAbs = x.natAbs := h
  have hpos : 0 < x.natAbs := by omega
  by_cases h2 : 2 ≤ y.natAbs
  · have := Nat.div_lt_self hpos (by omega : 1 < y.natAbs)
    omega
  · have : y.natAbs = 0 ∨ y.natAbs = 1 := by omega
    rcases this with h0 | h1
    · rw [h0, Nat.div_zero] at h'; omega
    · omega

end GV.Proofs.Num
