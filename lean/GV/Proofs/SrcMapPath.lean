/-
  GV.Proofs.SrcMapPath — lemmas for the source-name theorems of GV.Props.C19: splitting at '/' distributes over
  concatenation, "below a root by components" = "starts with <root>/src/", the code's lookup as a `find?`, and the two
  comparisons with the component specification (repaired scheme: unconditional; code as it is: under `FirstMatchReal`).
-/
import GV.Model.SrcMapPath
import GV.Spec.SrcMapPath
import GV.Proofs.PathClean

namespace GV.Proofs.SrcMapPath
open GV.PathClean GV.SrcMapPath
open GV.Spec.SrcMapPath (below srcComponents lastComponent)
open GV.PathClean GV.SrcMapPath
open GV.Spec.SrcMapPath (below srcComponents lastComponent)

theorem splitSlash_append_slash (a b : (List Nat)) : splitSlash (a ++ 47 :: b) = splitSlash a ++ splitSlash b := by
  induction a with
  | nil => simp [splitSlash_cons_slash, splitSlash_nil]
  | cons c cs ih =>
    by_cases hc : c = 47
    · subst hc; simp [splitSlash_cons_slash, ih]
    · simp only [List.cons_append, splitSlash_cons_other _ _ hc]
      have ih' := ih
      simp only [splitSlash, List.cons_append] at ih'
      injection ih' with h1 h2
      simp [h1, h2, splitSlash]

theorem splitSlash_ne_nil (s : (List Nat)) : splitSlash s ≠ [] := by simp [splitSlash]

theorem joinSlash_append (x y : List (List Nat)) (hx : x ≠ []) (hy : y ≠ []) :
    joinSlash (x ++ y) = joinSlash x ++ 47 :: joinSlash y := by
  induction x with
  | nil => exact absurd rfl hx
  | cons e es ih =>
    cases es with
    | nil =>
      cases y with
      | nil => exact absurd rfl hy
      | cons f fs => simp [joinSlash]
    | cons e' es' =>
      have := ih (by simp)
      simp only [List.cons_append] at this ⊢
      simp only [joinSlash, this, List.append_assoc, List.cons_append]

/-- "/src" -/
abbrev SRC : List Nat := [47, 115, 114, 99]

/-- the root as the specification uses it in front of "/src" -/
abbrev rootPart (root : List Nat) : List Nat := if root = [47] then [] else root

/-- a file that is `<root>/src/` + t lies below the root, with the components of t -/
theorem below_of_eq (root file t : List Nat) (h : file = rootPart root ++ SRC ++ 47 :: t) :
    below root file = some (splitSlash t) := by
  have hs : splitSlash file = srcComponents root ++ splitSlash t := by
    rw [h, splitSlash_append_slash]; rfl
  have hne : splitSlash t ≠ [] := splitSlash_ne_nil t
  have hlen : (srcComponents root).length < (splitSlash file).length := by
    rw [hs, List.length_append]
    have : 0 < (splitSlash t).length := List.length_pos_iff.mpr hne
    omega
  have hp : (srcComponents root).isPrefixOf (splitSlash file) = true := by
    rw [List.isPrefixOf_iff_prefix, hs]; exact List.prefix_append _ _
  have hlen' : (srcComponents root).length < (srcComponents root ++ splitSlash t).length := by rw [← hs]; exact hlen
  have hp' : (srcComponents root).isPrefixOf (srcComponents root ++ splitSlash t) = true := by rw [← hs]; exact hp
  simp only [below, hs, hp', hlen', decide_true, Bool.and_self, if_true, List.drop_left]

/-- conversely, a file below a root IS `<root>/src/` + the joined rest -/
theorem eq_of_below (root file : List Nat) (rest : List (List Nat)) (h : below root file = some rest) :
    file = rootPart root ++ SRC ++ 47 :: joinSlash rest := by
  simp only [below] at h
  split at h
  · rename_i hc
    simp only [Bool.and_eq_true, decide_eq_true_eq] at hc
    obtain ⟨hp, hlen⟩ := hc
    injection h with h
    obtain ⟨tl, htl⟩ := List.isPrefixOf_iff_prefix.mp hp
    have hrest : rest = tl := by rw [← h, ← htl, List.drop_left]
    have hne : tl ≠ [] := by
      intro e; subst e; rw [← htl] at hlen; simp at hlen
    have : joinSlash (splitSlash file) = joinSlash (srcComponents root ++ tl) := by rw [htl]
    have hsc : srcComponents root ≠ [] := by unfold srcComponents; exact splitSlash_ne_nil _
    rw [join_split, joinSlash_append _ _ hsc hne] at this
    rw [this, hrest]
    simp only [srcComponents, join_split]
  · cases h

/-- string form of "below": the file starts with `<root>/src/` -/
theorem below_isSome_iff (root file : List Nat) :
    (below root file).isSome = true ↔ (rootPart root ++ SRC ++ [47]) <+: file := by
  constructor
  · intro h
    obtain ⟨rest, hr⟩ := Option.isSome_iff_exists.mp h
    have := eq_of_below root file rest hr
    exact ⟨joinSlash rest, by rw [this]; simp⟩
  · rintro ⟨t, ht⟩
    have := below_of_eq root file t (by rw [← ht]; simp)
    simp [this]

theorem below_name (root file t : List Nat) (h : file = rootPart root ++ SRC ++ 47 :: t) :
    (below root file).map (fun rest => 47 :: joinSlash rest) = some (47 :: t) := by
  rw [below_of_eq root file t h]; simp [join_split]

theorem findSome_map {α β γ : Type} (l : List α) (f : α → Option β) (g : β → γ) :
    (l.findSome? f).map g = l.findSome? (fun a => (f a).map g) := by
  induction l with
  | nil => rfl
  | cons a tl ih =>
    simp only [List.findSome?_cons]
    cases f a <;> simp [ih]

theorem srcDir_eq (r : List Nat) : srcDir r = rootPart (clean r) ++ SRC ++ [47] := by
  simp [srcDir, rootPart, SRC]

theorem base_eq (s : List Nat) : base s = lastComponent s := rfl

abbrev nameOf (rest : List (List Nat)) : List Nat := 47 :: joinSlash rest

theorem relToRoots_eq (file : List Nat) (rs : List (List Nat)) :
    relToRoots file rs = (rs.map clean).findSome? (fun r => (below r file).map nameOf) := by
  induction rs with
  | nil => rfl
  | cons r tl ih =>
    simp only [relToRoots, List.map_cons, List.findSome?_cons]
    by_cases hp : hasPrefix file (srcDir r) = true
    · simp only [hp, if_true]
      obtain ⟨t, ht⟩ := List.isPrefixOf_iff_prefix.mp hp
      rw [srcDir_eq] at ht
      have hf : file = rootPart (clean r) ++ SRC ++ 47 :: t := by rw [← ht]; simp
      rw [below_name (clean r) file t hf]
      simp only [srcDir_eq]
      rw [hf]
      have : (rootPart (clean r) ++ SRC ++ [47]).length - 1 = (rootPart (clean r) ++ SRC).length := by simp
      rw [this, List.drop_left]
    · simp only [hp]
      have hb : below (clean r) file = none := by
        cases hbb : below (clean r) file with
        | none => rfl
        | some rest =>
          exfalso; apply hp
          have := (below_isSome_iff (clean r) file).mp (by simp [hbb])
          rw [← srcDir_eq] at this
          exact List.isPrefixOf_iff_prefix.mpr this
      simp [hb, ih]

/-- the repaired `normalizePathOld` IS the component specification, for all roots and files -/
theorem fixed_eq_spec (goroot gopath file : List Nat) :
    normalizePath false goroot gopath file =
      GV.Spec.SrcMapPath.name ((splitList gopath ++ [goroot]).map clean) file := by
  simp only [normalizePath, GV.Spec.SrcMapPath.name, relToRoots_eq, ← findSome_map, base_eq]
  cases ((splitList gopath ++ [goroot]).map clean).findSome? (fun r => below r file) <;> simp [nameOf]

/-- the roots as the code tests them: cleaned GOPATH workspaces in order, then GOROOT as given -/
def codeRoots (goroot gopath : List Nat) : List (List Nat) := (splitList gopath).map clean ++ [goroot]

theorem hasGopathPrefix_eq (file : List Nat) (ws : List (List Nat)) :
    hasGopathPrefix file ws = ((ws.map clean).find? (hasPrefix file)).map List.length := by
  induction ws with
  | nil => rfl
  | cons w tl ih =>
    simp only [hasGopathPrefix, List.map_cons, List.find?_cons]
    by_cases h : hasPrefix file (clean w) = true
    · simp [h]
    · simp [h, ih]

/-- the code as it is = "first root that is a STRING prefix, then cut 4 bytes behind it" -/
theorem asis_lookup (goroot gopath file : List Nat) :
    normalizePathOld false goroot gopath file =
      match (codeRoots goroot gopath).find? (hasPrefix file) with
      | some r => sliceFrom file (r.length + 4)
      | none => some (base file) := by
  simp only [normalizePathOld, hasGopathPrefix_eq, codeRoots, List.find?_append]
  cases hg : ((splitList gopath).map clean).find? (hasPrefix file) with
  | some r => simp
  | none =>
    simp only [Option.map_none, Option.none_or, List.find?_cons, List.find?_nil]
    by_cases h : hasPrefix file goroot = true
    · simp [h]
    · simp [h]

/-- hypothesis of the partial theorem: no root is "/", and the FIRST root (in the code's order) that is a string prefix
    of the file really has the file inside its src directory — i.e. the deciding match is not a bare string-prefix
    match (`/x/go` vs `/x/go-work/...`) and not a file of the root outside `src` (`$GOPATH/pkg/mod/...`) -/
def FirstMatchReal (rs : List (List Nat)) (file : List Nat) : Prop :=
  (∀ r ∈ rs, r ≠ [47]) ∧ (∀ r, rs.find? (hasPrefix file) = some r → (r ++ SRC ++ [47]) <+: file)

theorem lookup_eq_spec (rs : List (List Nat)) (file : List Nat) (h : FirstMatchReal rs file) :
    (match rs.find? (hasPrefix file) with
      | some r => sliceFrom file (r.length + 4)
      | none => some (base file)) = some (GV.Spec.SrcMapPath.name rs file) := by
  induction rs with
  | nil => simp [GV.Spec.SrcMapPath.name, base_eq]
  | cons r tl ih =>
    obtain ⟨h1, h2⟩ := h
    have hr1 : r ≠ [47] := h1 r (by simp)
    have hrp : rootPart r = r := by simp [rootPart, hr1]
    simp only [List.find?_cons, GV.Spec.SrcMapPath.name, List.findSome?_cons]
    by_cases hp : hasPrefix file r = true
    · obtain ⟨t, ht⟩ := h2 r (by simp [List.find?_cons, hp])
      have hf : file = rootPart r ++ SRC ++ 47 :: t := by rw [hrp, ← ht]; simp
      rw [below_of_eq r file t hf]
      simp only [hp, join_split]
      rw [hrp] at hf
      have hl : r.length + 4 ≤ file.length := by rw [hf]; simp
      have hd : file.drop (r.length + 4) = 47 :: t := by
        have : r.length + 4 = (r ++ SRC).length := by simp
        rw [this, hf, List.drop_left]
      simp [sliceFrom, hl, hd]
    · have hb : below r file = none := by
        cases hbb : below r file with
        | none => rfl
        | some rest =>
          exfalso; apply hp
          obtain ⟨t, ht⟩ := (below_isSome_iff r file).mp (by simp [hbb])
          rw [hrp] at ht
          exact List.isPrefixOf_iff_prefix.mpr ⟨SRC ++ [47] ++ t, by rw [← ht]; simp⟩
      have htl : FirstMatchReal tl file :=
        ⟨fun x hx => h1 x (by simp [hx]), fun x hx => h2 x (by simp [List.find?_cons, hp, hx])⟩
      simp only [hp, hb]
      have := ih htl
      simpa [GV.Spec.SrcMapPath.name] using this

/-- `normalize_partial`: the code as it is agrees with the component specification whenever the deciding string-prefix
    match is a real containment (and GOROOT is given in clean form) -/
theorem asis_eq_spec_of_real (goroot gopath file : List Nat) (hc : clean goroot = goroot)
    (h : FirstMatchReal (codeRoots goroot gopath) file) :
    normalizePathOld false goroot gopath file =
      some (GV.Spec.SrcMapPath.name ((splitList gopath ++ [goroot]).map clean) file) := by
  rw [asis_lookup, lookup_eq_spec _ _ h]
  simp [codeRoots, hc]


end GV.Proofs.SrcMapPath
