import GV.Model.StrLit

namespace GV.StrLit

theorem hexVal_hexUpper (x : Nat) (h : x < 16) : hexVal (hexUpper x) = some x := by
  unfold hexVal hexUpper
  by_cases h10 : x < 10
  · simp only [h10, if_true]
    rw [if_pos (by omega)]; congr 1; omega
  · simp only [h10, if_false]
    rw [if_neg (by omega), if_pos (by omega)]; congr 1; omega

/-- reading one emitted byte gives the byte back -/
theorem step (b : Nat) (hb : b < 256) (rest acc : List Nat) :
    unescapeBody (encByte b ++ rest) acc = unescapeBody rest (b :: acc) := by
  unfold encByte
  by_cases h1 : b = 8
  · subst h1; simp [unescapeBody]
  by_cases h2 : b = 12
  · subst h2; simp [unescapeBody]
  by_cases h3 : b = 10
  · subst h3; simp [unescapeBody]
  by_cases h4 : b = 13
  · subst h4; simp [unescapeBody]
  by_cases h5 : b = 9
  · subst h5; simp [unescapeBody]
  by_cases h6 : b = 11
  · subst h6; simp [unescapeBody]
  by_cases h7 : b = 34
  · subst h7; simp [unescapeBody]
  by_cases h8 : b = 92
  · subst h8; simp [unescapeBody]
  simp only [h1, h2, h3, h4, h5, h6, h7, h8, if_false]
  by_cases hx : b < 0x20 ∨ b > 0x7E
  · simp only [hx, if_true, List.cons_append, List.nil_append]
    rw [unescapeBody]
    simp only [hexVal_hexUpper (b / 16) (by omega), hexVal_hexUpper (b % 16) (by omega)]
    congr 2; omega
  · simp only [hx, if_false, List.cons_append, List.nil_append]
    rw [unescapeBody.eq_def]
    split <;> simp_all

theorem body (s : List Nat) (hs : ∀ b ∈ s, b < 256) (rest acc : List Nat) :
    unescapeBody (encBody s ++ rest) acc = unescapeBody rest (s.reverse ++ acc) := by
  induction s generalizing acc with
  | nil => simp [encBody]
  | cons b t ih =>
    have hb : b < 256 := hs b (by simp)
    have ht : ∀ x ∈ t, x < 256 := fun x hx => hs x (by simp [hx])
    have : encBody (b :: t) = encByte b ++ encBody t := by simp [encBody]
    rw [this, List.append_assoc, step b hb, ih ht]
    simp

/-- every code unit of an emitted byte is printable ASCII other than a raw `"` … unless escaped -/
theorem encByte_ascii (b : Nat) (hb : b < 256) : ∀ c ∈ encByte b, 0x20 ≤ c ∧ c ≤ 0x7E := by
  unfold encByte hexUpper
  intro c hc
  repeat' split at hc
  all_goals simp only [List.mem_cons, List.not_mem_nil, or_false] at hc
  all_goals (try (rcases hc with h | h | h | h <;> omega))
  all_goals (try (rcases hc with h | h <;> omega))
  all_goals omega

end GV.StrLit
