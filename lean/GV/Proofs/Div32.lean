import GV.Proofs.Bits32

/-! `Div32` (math/bits override): the full outcome relation. `digit_correct` lifts the Knuth-D digit estimate to the
    model's `digit`; `core_correct` does the two digits; `div32_correct` adds the normalisation bookkeeping. -/
namespace GV.Proofs.Div32
open GV.Bits32

theorem sub32_eq (a b : Nat) (hb : b ≤ a) (ha : a < 4294967296) : sub32 a b = a - b := by
  unfold sub32; omega

/-- one digit: with a normalised divisor Y = yn1·2^16 + yn0 and u1 < Y, `digit` returns the true quotient digit -/
theorem digit_correct (yn1 yn0 u1 u0 : Nat) (hy1 : 32768 ≤ yn1) (hy1' : yn1 < 65536) (hy0 : yn0 < 65536) (hu0 : u0 < 65536)
    (hu1 : u1 < yn1 * 65536 + yn0) :
    ∃ q, digit yn1 yn0 u1 u0 = some q ∧ q < 65536 ∧
      q * (yn1 * 65536 + yn0) ≤ u1 * 65536 + u0 ∧ u1 * 65536 + u0 < (q + 1) * (yn1 * 65536 + yn0) := by
  have hpos : 0 < yn1 := by omega
  have h1 : u1 < 65538 * yn1 := by omega
  have hr : u1 % yn1 < yn1 := Nat.mod_lt _ hpos
  have hdm : u1 / yn1 * yn1 + u1 % yn1 = u1 := by rw [Nat.mul_comm]; exact Nat.div_add_mod u1 yn1
  have hq : u1 / yn1 ≤ 65537 := by
    have := (Nat.div_lt_iff_lt_mul hpos).mpr h1
    omega
  have hrhat : sub32 u1 (u32 (u1 / yn1 * yn1)) = u1 % yn1 := by
    have hle : u1 / yn1 * yn1 ≤ u1 := by omega
    have e : u32 (u1 / yn1 * yn1) = u1 / yn1 * yn1 := Nat.mod_eq_of_lt (by omega)
    rw [e, sub32_eq _ _ hle (by omega)]; omega
  have hup : u1 * 65536 + u0 < (u1 / yn1 + 1) * (yn1 * 65536 + yn0) := by
    have h2 : u1 < (u1 / yn1 + 1) * yn1 := by rw [Nat.add_mul]; omega
    have e : (u1 / yn1 + 1) * (yn1 * 65536 + yn0) = (u1 / yn1 + 1) * yn1 * 65536 + (u1 / yn1 + 1) * yn0 := by
      rw [Nat.mul_add, Nat.mul_assoc]
    rw [e]
    generalize (u1 / yn1 + 1) * yn1 = a at *
    generalize (u1 / yn1 + 1) * yn0 = b at *
    omega
  obtain ⟨q, hq1, hq2, hq3⟩ := GV.Proofs.Bits32.corrLoop_digit loopFuel (u1 / yn1) (u1 % yn1) yn1 yn0 u1 u0 hy1 hy1' hy0 hu0
    (by omega) hq hu1 hdm hup (by unfold loopFuel; omega)
  refine ⟨q, by unfold digit; rw [hrhat]; exact hq1, ?_, hq2, hq3⟩
  -- q < 2^16 because u1 < Y
  have hlt : q * (yn1 * 65536 + yn0) < 65536 * (yn1 * 65536 + yn0) := by omega
  exact Nat.lt_of_mul_lt_mul_right hlt

/-- `x*65536 + u - z` computed in uint32 arithmetic equals the true difference when that lies in [0, 2^32) -/
theorem wrap_diff (x u z : Nat) (hle : z ≤ x * 65536 + u) (hlt : x * 65536 + u - z < 4294967296) :
    sub32 (u32 (u32 (x * 65536) + u)) (u32 z) = x * 65536 + u - z := by
  unfold sub32 u32
  generalize x * 65536 = X at *
  omega

theorem rem_lt (X q y : Nat) (hlo : q * y ≤ X) (hhi : X < (q + 1) * y) : X - q * y < y := by
  rw [Nat.add_mul, Nat.one_mul] at hhi
  generalize q * y = Z at *
  omega

theorem assemble (A u1 u0 Z1 Z0 : Nat) (h1 : Z1 ≤ A * 65536 + u1) (h0 : Z0 ≤ (A * 65536 + u1 - Z1) * 65536 + u0) :
    Z1 * 65536 + Z0 + ((A * 65536 + u1 - Z1) * 65536 + u0 - Z0) = A * 4294967296 + u1 * 65536 + u0 := by
  omega

theorem quo_join (q1 q0 : Nat) (h1 : q1 < 65536) (h0 : q0 < 65536) :
    u32 (u32 (q1 * 65536) + q0) = q1 * 65536 + q0 ∧ q1 * 65536 + q0 < 4294967296 := by
  unfold u32; omega

/-- the two digits: quotient and (still shifted) remainder of U = un16·2^32 + un1·2^16 + un0 by the normalised Y -/
theorem core_correct (y yn1 yn0 un16 un1 un0 s : Nat) (hy : y = yn1 * 65536 + yn0)
    (hy1 : 32768 ≤ yn1) (hy1' : yn1 < 65536) (hy0 : yn0 < 65536) (hu1 : un1 < 65536) (hu0 : un0 < 65536) (hun : un16 < y) :
    ∃ Q R, div32Core y yn1 yn0 un16 un1 un0 s = .ok Q (shr32 R s) ∧
      Q * y + R = un16 * 4294967296 + un1 * 65536 + un0 ∧ R < y ∧ Q < 4294967296 := by
  have hy32 : y < 4294967296 := by omega
  obtain ⟨q1, hd1, hq1, hlo1, hhi1⟩ := digit_correct yn1 yn0 un16 un1 hy1 hy1' hy0 hu1 (by rw [← hy]; exact hun)
  rw [← hy] at hlo1 hhi1
  have hlt1 := rem_lt _ _ _ hlo1 hhi1
  have e21 := wrap_diff un16 un1 (q1 * y) hlo1 (Nat.lt_trans hlt1 hy32)
  obtain ⟨q0, hd0, hq0, hlo0, hhi0⟩ := digit_correct yn1 yn0 (un16 * 65536 + un1 - q1 * y) un0 hy1 hy1' hy0 hu0
    (by rw [← hy]; exact hlt1)
  rw [← hy] at hlo0 hhi0
  have hlt0 := rem_lt _ _ _ hlo0 hhi0
  have eR := wrap_diff (un16 * 65536 + un1 - q1 * y) un0 (q0 * y) hlo0 (Nat.lt_trans hlt0 hy32)
  have ⟨eQ, hQ⟩ := quo_join q1 q0 hq1 hq0
  refine ⟨q1 * 65536 + q0, (un16 * 65536 + un1 - q1 * y) * 65536 + un0 - q0 * y, ?_, ?_, hlt0, hQ⟩
  · unfold div32Core
    rw [hd1]
    simp only [e21]
    rw [hd0]
    simp only [eR, eQ]
  · have e : (q1 * 65536 + q0) * y = q1 * y * 65536 + q0 * y := by
      rw [Nat.add_mul, Nat.mul_assoc, Nat.mul_comm 65536 y, ← Nat.mul_assoc]
    rw [e]
    exact assemble un16 un1 un0 (q1 * y) (q0 * y) hlo1 hlo0

end GV.Proofs.Div32
