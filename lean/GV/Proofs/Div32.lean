import GV.Proofs.Bits32
import GV.Basic.Bits

/-! `Div32` (math/bits override): the full outcome relation. `digit_correct` lifts the Knuth-D digit estimate to the
    model's `digit`; `core_correct` does the two digits; `div32_correct` adds the normalisation bookkeeping. -/
namespace GV.Proofs.Div32
open GV.Bits32

theorem sub32_eq (a b : Nat) (hb : b ≤ a) (ha : a < 4294967296) : sub32 a b = a - b := by
  unfold sub32; omega

/-- one digit: with a normalised divisor Y = yn1·2^16 + yn0 and u1 < Y, `digit` returns the true quotient digit -/
theorem digit_correct (yn1 yn0 u1 u0 : Nat) (hy1 : 32768 ≤ yn1) (hy1' : yn1 < 65536) (hy0 : yn0 < 65536) (hu0 : u0 < 65536)
    (hu1 : u1 < yn1 * 65536 + yn0) :
    ∃ q, digit yn1 yn0 u1 u0 = some q ∧ q < 65536 ∧
      q * (yn1 * 65536 + yn0) ≤ u1 * 65536 + u0 ∧ u1 * 65536 + u0 < (q + 1) * (yn1 * 65536 + yn0) := by
  have hpos : 0 < yn1 := by omega
  have h1 : u1 < 65538 * yn1 := by omega
  have hr : u1 % yn1 < yn1 := Nat.mod_lt _ hpos
  have hdm : u1 / yn1 * yn1 + u1 % yn1 = u1 := by rw [Nat.mul_comm]; exact Nat.div_add_mod u1 yn1
  have hq : u1 / yn1 ≤ 65537 := by
    have := (Nat.div_lt_iff_lt_mul hpos).mpr h1
    omega
  have hrhat : sub32 u1 (u32 (u1 / yn1 * yn1)) = u1 % yn1 := by
    have hle : u1 / yn1 * yn1 ≤ u1 := by omega
    have e : u32 (u1 / yn1 * yn1) = u1 / yn1 * yn1 := Nat.mod_eq_of_lt (by omega)
    rw [e, sub32_eq _ _ hle (by omega)]; omega
  have hup : u1 * 65536 + u0 < (u1 / yn1 + 1) * (yn1 * 65536 + yn0) := by
    have h2 : u1 < (u1 / yn1 + 1) * yn1 := by rw [Nat.add_mul]; omega
    have e : (u1 / yn1 + 1) * (yn1 * 65536 + yn0) = (u1 / yn1 + 1) * yn1 * 65536 + (u1 / yn1 + 1) * yn0 := by
      rw [Nat.mul_add, Nat.mul_assoc]
    rw [e]
    generalize (u1 / yn1 + 1) * yn1 = a at *
    generalize (u1 / yn1 + 1) * yn0 = b at *
    omega
  obtain ⟨q, hq1, hq2, hq3⟩ := GV.Proofs.Bits32.corrLoop_digit loopFuel (u1 / yn1) (u1 % yn1) yn1 yn0 u1 u0 hy1 hy1' hy0 hu0
    (by omega) hq hu1 hdm hup (by unfold loopFuel; omega)
  refine ⟨q, by unfold digit; rw [hrhat]; exact hq1, ?_, hq2, hq3⟩
  -- q < 2^16 because u1 < Y
  have hlt : q * (yn1 * 65536 + yn0) < 65536 * (yn1 * 65536 + yn0) := by omega
  exact Nat.lt_of_mul_lt_mul_right hlt

/-- `x*65536 + u - z` computed in uint32 arithmetic equals the true difference when that lies in [0, 2^32) -/
theorem wrap_diff (x u z : Nat) (hle : z ≤ x * 65536 + u) (hlt : x * 65536 + u - z < 4294967296) :
    sub32 (u32 (u32 (x * 65536) + u)) (u32 z) = x * 65536 + u - z := by
  unfold sub32 u32
  generalize x * 65536 = X at *
  omega

theorem rem_lt (X q y : Nat) (hlo : q * y ≤ X) (hhi : X < (q + 1) * y) : X - q * y < y := by
  rw [Nat.add_mul, Nat.one_mul] at hhi
  generalize q * y = Z at *
  omega

theorem assemble (A u1 u0 Z1 Z0 : Nat) (h1 : Z1 ≤ A * 65536 + u1) (h0 : Z0 ≤ (A * 65536 + u1 - Z1) * 65536 + u0) :
    Z1 * 65536 + Z0 + ((A * 65536 + u1 - Z1) * 65536 + u0 - Z0) = A * 4294967296 + u1 * 65536 + u0 := by
  omega

theorem quo_join (q1 q0 : Nat) (h1 : q1 < 65536) (h0 : q0 < 65536) :
    u32 (u32 (q1 * 65536) + q0) = q1 * 65536 + q0 ∧ q1 * 65536 + q0 < 4294967296 := by
  unfold u32; omega

/-- the two digits: quotient and (still shifted) remainder of U = un16·2^32 + un1·2^16 + un0 by the normalised Y -/
theorem core_correct (y yn1 yn0 un16 un1 un0 s : Nat) (hy : y = yn1 * 65536 + yn0)
    (hy1 : 32768 ≤ yn1) (hy1' : yn1 < 65536) (hy0 : yn0 < 65536) (hu1 : un1 < 65536) (hu0 : un0 < 65536) (hun : un16 < y) :
    ∃ Q R, div32Core y yn1 yn0 un16 un1 un0 s = .ok Q (shr32 R s) ∧
      Q * y + R = un16 * 4294967296 + un1 * 65536 + un0 ∧ R < y ∧ Q < 4294967296 := by
  have hy32 : y < 4294967296 := by omega
  obtain ⟨q1, hd1, hq1, hlo1, hhi1⟩ := digit_correct yn1 yn0 un16 un1 hy1 hy1' hy0 hu1 (by rw [← hy]; exact hun)
  rw [← hy] at hlo1 hhi1
  have hlt1 := rem_lt _ _ _ hlo1 hhi1
  have e21 := wrap_diff un16 un1 (q1 * y) hlo1 (Nat.lt_trans hlt1 hy32)
  obtain ⟨q0, hd0, hq0, hlo0, hhi0⟩ := digit_correct yn1 yn0 (un16 * 65536 + un1 - q1 * y) un0 hy1 hy1' hy0 hu0
    (by rw [← hy]; exact hlt1)
  rw [← hy] at hlo0 hhi0
  have hlt0 := rem_lt _ _ _ hlo0 hhi0
  have eR := wrap_diff (un16 * 65536 + un1 - q1 * y) un0 (q0 * y) hlo0 (Nat.lt_trans hlt0 hy32)
  have ⟨eQ, hQ⟩ := quo_join q1 q0 hq1 hq0
  refine ⟨q1 * 65536 + q0, (un16 * 65536 + un1 - q1 * y) * 65536 + un0 - q0 * y, ?_, ?_, hlt0, hQ⟩
  · have hd0' : digit yn1 yn0 (sub32 (u32 (u32 (un16 * 65536) + un1)) (u32 (q1 * y))) un0 = some q0 := by
      rw [e21]; exact hd0
    rw [div32Core, hd1, div32Hi, hd0', div32Lo, e21, eR, eQ]
  · have e : (q1 * 65536 + q0) * y = q1 * y * 65536 + q0 * y := by
      rw [Nat.add_mul, Nat.mul_assoc, Nat.mul_comm 65536 y, ← Nat.mul_assoc]
    rw [e]
    exact assemble un16 un1 un0 (q1 * y) (q0 * y) hlo1 hlo0

/-! ### normalisation bookkeeping -/

/-- `s := LeadingZeros32(y)` normalises y: the top bit of `y << s` is set and nothing is shifted out -/
theorem lz_norm (y : Nat) (hy0 : y ≠ 0) (hy : y < 4294967296) :
    leadingZeros32 y ≤ 31 ∧ 2147483648 ≤ y * 2 ^ leadingZeros32 y ∧ y * 2 ^ leadingZeros32 y < 4294967296 := by
  unfold leadingZeros32
  rw [if_neg hy0]
  have hk : Nat.log2 y < 32 := (Nat.log2_lt hy0).mpr (by omega)
  have hb := (Nat.log2_eq_iff (k := Nat.log2 y) hy0).mp rfl
  have hs : Nat.log2 y + (31 - Nat.log2 y) = 31 := by omega
  have hs1 : Nat.log2 y + 1 + (31 - Nat.log2 y) = 32 := by omega
  have hP : 0 < 2 ^ (31 - Nat.log2 y) := Nat.two_pow_pos _
  have e31 : 2 ^ Nat.log2 y * 2 ^ (31 - Nat.log2 y) = 2147483648 := by rw [← Nat.pow_add, hs]
  have e32 : 2 ^ (Nat.log2 y + 1) * 2 ^ (31 - Nat.log2 y) = 4294967296 := by rw [← Nat.pow_add, hs1]
  refine ⟨by omega, ?_, ?_⟩
  · rw [← e31]; exact Nat.mul_le_mul_right _ hb.1
  · rw [← e32]; exact (Nat.mul_lt_mul_right hP).mpr hb.2

/-- undoing the normalisation: from Q·(y·P) + R = N·P and R < y·P, Q and R/P are quotient and remainder of N by y -/
theorem unnormalise (N y P Q R : Nat) (hP : 0 < P) (hy : 0 < y) (h : Q * (y * P) + R = N * P) (hR : R < y * P) :
    Q = N / y ∧ R / P = N % y := by
  have e : Q * (y * P) = Q * y * P := by rw [Nat.mul_assoc]
  rw [e] at h
  have hle : Q * y ≤ N := Nat.le_of_mul_le_mul_right (by omega) hP
  have hR' : R = (N - Q * y) * P := by rw [Nat.sub_mul]; omega
  have hdiv : R / P = N - Q * y := by rw [hR']; exact Nat.mul_div_cancel _ hP
  have hlt : N - Q * y < y := by
    rw [hR'] at hR; exact Nat.lt_of_mul_lt_mul_right hR
  have := (Nat.div_mod_unique (a := N) (d := Q) (c := N - Q * y) hy).mpr ⟨by rw [Nat.mul_comm y Q]; omega, hlt⟩
  exact ⟨this.1.symm, by rw [hdiv]; exact this.2.symm⟩

theorem shl32_eq (x s : Nat) (hs : s ≤ 31) : shl32 x s = (x * 2 ^ s) % 4294967296 := by
  unfold shl32 u32; rw [if_pos (by omega), Nat.shiftLeft_eq]

theorem shr32_eq (x s : Nat) (hs : s ≤ 31) : shr32 x s = x / 2 ^ s := by
  unfold shr32; rw [if_pos (by omega), Nat.shiftRight_eq_div_pow]

/-- `lo >> (32 - s)`: for s = 0 the Go shift by 32 gives 0, and so does the division by 2^32 -/
theorem shr32_comp (x s : Nat) (hs : s ≤ 31) (hx : x < 4294967296) : shr32 x (32 - s) = x / 2 ^ (32 - s) := by
  unfold shr32
  by_cases h0 : s = 0
  · subst h0
    have e : (2:Nat) ^ (32 - 0) = 4294967296 := by decide
    rw [if_neg (by omega), e, Nat.div_eq_of_lt hx]
  · rw [if_pos (by omega), Nat.shiftRight_eq_div_pow]

theorem split16 (m : Nat) : m / 65536 * 65536 + m % 65536 = m := by omega

/-- the normalised operands represent N·2^s -/
theorem norm_value (hi lo s : Nat) (hs : s ≤ 31) (hlo : lo < 4294967296) :
    (hi * 2 ^ s + lo / 2 ^ (32 - s)) * 4294967296 + (lo * 2 ^ s) % 4294967296 = (hi * 4294967296 + lo) * 2 ^ s ∧
    lo / 2 ^ (32 - s) < 2 ^ s := by
  have hPP : 2 ^ (32 - s) * 2 ^ s = 4294967296 := by
    rw [← Nat.pow_add]; have : 32 - s + s = 32 := by omega
    rw [this]
  have hP : 0 < 2 ^ s := Nat.two_pow_pos _
  have hq : lo / 2 ^ (32 - s) < 2 ^ s := Nat.div_lt_of_lt_mul (by rw [hPP]; exact hlo)
  have hdiv : lo * 2 ^ s / 4294967296 = lo / 2 ^ (32 - s) := by
    rw [← hPP]; exact Nat.mul_div_mul_right lo (2 ^ (32 - s)) hP
  have hdm := Nat.div_add_mod (lo * 2 ^ s) 4294967296
  rw [hdiv] at hdm
  refine ⟨?_, hq⟩
  rw [Nat.add_mul, Nat.add_mul, Nat.mul_right_comm hi 4294967296 (2 ^ s)]
  generalize hi * 2 ^ s = A at *
  generalize lo / 2 ^ (32 - s) = d at *
  generalize lo * 2 ^ s % 4294967296 = m at *
  generalize lo * 2 ^ s = L at *
  omega

/-- `Div32(hi, lo, y)` for hi < y: quotient and remainder of hi·2^32 + lo by y — ALL operands -/
theorem div32_correct (hi lo y : Nat) (hhi : hi < y) (hy : y < 4294967296) (hlo : lo < 4294967296) :
    div32 hi lo y = .ok ((hi * 4294967296 + lo) / y) ((hi * 4294967296 + lo) % y) := by
  have hy0 : y ≠ 0 := by omega
  obtain ⟨hs, hYlo, hYhi⟩ := lz_norm y hy0 hy
  rw [div32, if_neg hy0, if_neg (by omega), div32Norm]
  generalize leadingZeros32 y = s at *
  have hP : 0 < 2 ^ s := Nat.two_pow_pos _
  have hHlt : hi * 2 ^ s < y * 2 ^ s := (Nat.mul_lt_mul_right hP).mpr hhi
  have hH1 : (hi + 1) * 2 ^ s ≤ y * 2 ^ s := Nat.mul_le_mul_right _ hhi
  rw [Nat.add_mul, Nat.one_mul] at hH1
  have eY : shl32 y s = y * 2 ^ s := by rw [shl32_eq y s hs]; exact Nat.mod_eq_of_lt hYhi
  have eH : shl32 hi s = hi * 2 ^ s := by rw [shl32_eq hi s hs]; exact Nat.mod_eq_of_lt (by omega)
  have eL : shl32 lo s = (lo * 2 ^ s) % 4294967296 := shl32_eq lo s hs
  have eR : shr32 lo (32 - s) = lo / 2 ^ (32 - s) := shr32_comp lo s hs hlo
  obtain ⟨hval, hq⟩ := norm_value hi lo s hs hlo
  have eOr : hi * 2 ^ s ||| lo / 2 ^ (32 - s) = hi * 2 ^ s + lo / 2 ^ (32 - s) :=
    GV.Bits.or_add_of_dvd (hi * 2 ^ s) (lo / 2 ^ (32 - s)) s ⟨hi, Nat.mul_comm _ _⟩ hq
  rw [eY, eH, eL, eR, eOr, GV.Bits.shr_div, GV.Bits.shr_div, show (65535 : Nat) = 2 ^ 16 - 1 from rfl,
    GV.Bits.and_mask, GV.Bits.and_mask]
  have e16 : (2 : Nat) ^ 16 = 65536 := by decide
  rw [e16]
  have hm : lo * 2 ^ s % 4294967296 < 4294967296 := Nat.mod_lt _ (by omega)
  obtain ⟨Q, R, hcore, hsum, hR, _⟩ := core_correct (y * 2 ^ s) (y * 2 ^ s / 65536) (y * 2 ^ s % 65536)
    (hi * 2 ^ s + lo / 2 ^ (32 - s)) (lo * 2 ^ s % 4294967296 / 65536) (lo * 2 ^ s % 4294967296 % 65536) s
    (by omega) (by omega) (by omega) (Nat.mod_lt _ (by omega)) (by omega) (Nat.mod_lt _ (by omega)) (by omega)
  rw [hcore, shr32_eq R s hs]
  have hU : Q * (y * 2 ^ s) + R = (hi * 4294967296 + lo) * 2 ^ s := by
    rw [← hval, hsum, Nat.add_assoc, split16]
  obtain ⟨h1, h2⟩ := unnormalise (hi * 4294967296 + lo) y (2 ^ s) Q R hP (by omega) hU hR
  rw [h1, h2]

/-- `Rem32(hi, lo, y)` = (hi·2^32 + lo) mod y for every y ≠ 0 (no overflow panic: hi is reduced first) -/
theorem rem32_correct (hi lo y : Nat) (hy0 : y ≠ 0) (hy : y < 4294967296) (hlo : lo < 4294967296) :
    rem32 hi lo y = .ok ((hi * 4294967296 + lo) % y) := by
  have hpos : 0 < y := Nat.pos_of_ne_zero hy0
  have hc : (hi % y * 4294967296 + lo) % y = (hi * 4294967296 + lo) % y := by
    rw [Nat.add_mod, Nat.mul_mod, Nat.mod_mod, ← Nat.mul_mod, ← Nat.add_mod]
  rw [rem32, if_neg hy0, div32_correct (hi % y) lo y (Nat.mod_lt _ hpos) hy hlo, hc]

end GV.Proofs.Div32
