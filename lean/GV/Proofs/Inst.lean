/-
  GV.Proofs.Inst — invariants of the instance collector (GV.Model.Inst): sets only grow by appending, lists stay
  duplicate-free, every collected instance is reachable, every processed instance has all its discoveries in the sets.
-/
import GV.Model.Inst
import GV.Spec.Inst
import GV.Proofs.InstTy

namespace GV.Inst

variable {P : Prog}

/-! ### `add` -/

theorem add_insts (s : St) (i : Inst) (q : Nat) :
    (add P s i).insts q = if q = P.pkgOf i ∧ i ∉ s.insts (P.pkgOf i) then s.insts q ++ [i] else s.insts q := by
  unfold add
  by_cases hm : i ∈ s.insts (P.pkgOf i)
  · simp [hm]
  · by_cases hq : q = P.pkgOf i
    · simp [hm, hq]
    · simp [hm, hq]

theorem add_cur (s : St) (i : Inst) : (add P s i).cur = s.cur := by
  unfold add; by_cases hm : i ∈ s.insts (P.pkgOf i) <;> simp [hm]

/-- the sets only grow, by appending -/
def Le (s s' : St) : Prop := ∀ q, s.insts q <+: s'.insts q

theorem Le.refl (s : St) : Le s s := fun _ => List.prefix_refl _
theorem Le.trans {a b c : St} (h₁ : Le a b) (h₂ : Le b c) : Le a c := fun q => (h₁ q).trans (h₂ q)

theorem add_le (s : St) (i : Inst) : Le s (add P s i) := by
  intro q; rw [add_insts]; split
  · exact List.prefix_append _ _
  · exact List.prefix_refl _

theorem add_mem_self (s : St) (i : Inst) : (add P s i).mem P i := by
  unfold St.mem; rw [add_insts]
  by_cases hm : i ∈ s.insts (P.pkgOf i) <;> simp [hm]

theorem add_mem_inv {s : St} {i j : Inst} {q : Nat} (h : j ∈ (add P s i).insts q) : j ∈ s.insts q ∨ j = i := by
  rw [add_insts] at h; split at h
  · rcases List.mem_append.mp h with h | h
    · exact Or.inl h
    · exact Or.inr (by simpa using h)
  · exact Or.inl h

theorem Le.mem {s s' : St} (h : Le s s') {q : Nat} {j : Inst} (hj : j ∈ s.insts q) : j ∈ s'.insts q :=
  (h q).subset hj

theorem Le.get {s s' : St} (h : Le s s') {q k : Nat} {j : Inst} (hj : (s.insts q)[k]? = some j) : (s'.insts q)[k]? = some j := by
  obtain ⟨r, hr⟩ := h q
  rw [← hr]
  have hk : k < (s.insts q).length := by
    rcases Nat.lt_or_ge k (s.insts q).length with hk | hk
    · exact hk
    · rw [List.getElem?_eq_none hk] at hj; cases hj
  rw [List.getElem?_append_left hk]; exact hj

theorem add_nodup {s : St} (i : Inst) (h : ∀ q, (s.insts q).Nodup) : ∀ q, ((add P s i).insts q).Nodup := by
  intro q; rw [add_insts]; split
  · rename_i hc
    rw [hc.1]
    exact List.nodup_append.mpr ⟨h _, (by simp), by
      intro a ha b hb; have : b = i := by simpa using hb
      subst this; intro hab; subst hab; exact hc.2 ha⟩
  · exact h q

/-- a package that has instances has a set (a key) -/
def KeysOK (s : St) : Prop := ∀ q, s.insts q ≠ [] → q ∈ s.keys

theorem add_keys_mono (s : St) (i : Inst) {q : Nat} (h : q ∈ s.keys) : q ∈ (add P s i).keys := by
  unfold add
  by_cases hm : i ∈ s.insts (P.pkgOf i)
  · simpa [hm] using h
  · by_cases hk : P.pkgOf i ∈ s.keys
    · simpa [hm, hk] using h
    · simp [hm, hk, h]

theorem add_keysOK {s : St} (i : Inst) (h : KeysOK s) : KeysOK (add P s i) := by
  intro q hq
  rw [add_insts] at hq
  by_cases hc : q = P.pkgOf i ∧ i ∉ s.insts (P.pkgOf i)
  · -- the key is created
    unfold add
    simp only [hc.2, if_false]
    by_cases hk : P.pkgOf i ∈ s.keys
    · simp [hk, hc.1]
    · simp [hk, hc.1]
  · rw [if_neg hc] at hq
    exact add_keys_mono s i (h q hq)

/-- every instance sits in the set of its own package -/
def Homed (P : Prog) (s : St) : Prop := ∀ q j, j ∈ s.insts q → P.pkgOf j = q

theorem add_homed {s : St} (i : Inst) (h : Homed P s) : Homed P (add P s i) := by
  intro q j hj
  rw [add_insts] at hj
  split at hj
  · rename_i hc
    rcases List.mem_append.mp hj with hj | hj
    · exact h q j hj
    · have : j = i := by simpa using hj
      rw [this]; exact hc.1.symm
  · exact h q j hj

/-! ### `addAll` -/

theorem addAll_nil (s : St) : addAll P s [] = s := rfl
theorem addAll_cons (s : St) (i : Inst) (l : List Inst) : addAll P s (i :: l) = addAll P (add P s i) l := rfl

theorem addAll_le (s : St) (l : List Inst) : Le s (addAll P s l) := by
  induction l generalizing s with
  | nil => exact Le.refl s
  | cons i l ih => rw [addAll_cons]; exact (add_le s i).trans (ih _)

theorem addAll_cur (s : St) (l : List Inst) : (addAll P s l).cur = s.cur := by
  induction l generalizing s with
  | nil => rfl
  | cons i l ih => rw [addAll_cons, ih, add_cur]

theorem addAll_mem (s : St) (l : List Inst) : ∀ j ∈ l, (addAll P s l).mem P j := by
  induction l generalizing s with
  | nil => intro j hj; cases hj
  | cons i l ih =>
    intro j hj
    rw [addAll_cons]
    rcases List.mem_cons.mp hj with rfl | hj
    · exact (addAll_le _ l).mem (add_mem_self s j)
    · exact ih _ j hj

theorem addAll_mem_inv {s : St} {l : List Inst} {j : Inst} {q : Nat} (h : j ∈ (addAll P s l).insts q) :
    j ∈ s.insts q ∨ j ∈ l := by
  induction l generalizing s with
  | nil => exact Or.inl h
  | cons i l ih =>
    rw [addAll_cons] at h
    rcases ih h with h | h
    · rcases add_mem_inv h with h | h
      · exact Or.inl h
      · exact Or.inr (h ▸ List.mem_cons_self)
    · exact Or.inr (List.mem_cons_of_mem _ h)

theorem addAll_nodup {s : St} (l : List Inst) (h : ∀ q, (s.insts q).Nodup) : ∀ q, ((addAll P s l).insts q).Nodup := by
  induction l generalizing s with
  | nil => exact h
  | cons i l ih => rw [addAll_cons]; exact ih (add_nodup i h)

theorem addAll_homed {s : St} (l : List Inst) (h : Homed P s) : Homed P (addAll P s l) := by
  induction l generalizing s with
  | nil => exact h
  | cons i l ih => rw [addAll_cons]; exact ih (add_homed i h)

theorem addAll_keysOK {s : St} (l : List Inst) (h : KeysOK s) : KeysOK (addAll P s l) := by
  induction l generalizing s with
  | nil => exact h
  | cons i l ih => rw [addAll_cons]; exact ih (add_keysOK i h)

/-! ### invariants of the work-list -/

/-- cursors stay inside the lists; every instance before the cursor has all its discoveries in the sets -/
structure Inv (P : Prog) (s : St) : Prop where
  cur : ∀ q, s.cur q ≤ (s.insts q).length
  processed : ∀ q k i, k < s.cur q → (s.insts q)[k]? = some i → ∀ j ∈ discover P i, s.mem P j
  keys : KeysOK s
  nodup : ∀ q, (s.insts q).Nodup
  homed : Homed P s

theorem Le.memP {s s' : St} (h : Le s s') {j : Inst} (hj : s.mem P j) : s'.mem P j := h.mem hj

theorem inv_addAll {s : St} (l : List Inst) (h : Inv P s) : Inv P (addAll P s l) := by
  have hle := addAll_le (P := P) s l
  refine ⟨?_, ?_, addAll_keysOK l h.keys, addAll_nodup l h.nodup, addAll_homed l h.homed⟩
  · intro q; rw [addAll_cur]; exact Nat.le_trans (h.cur q) (hle q).length_le
  · intro q k i hk hi j hj
    rw [addAll_cur] at hk
    have hk' : k < (s.insts q).length := Nat.lt_of_lt_of_le hk (h.cur q)
    have hi' : (s.insts q)[k]? = some i := by
      obtain ⟨r, hr⟩ := hle q
      rw [← hr, List.getElem?_append_left hk'] at hi; exact hi
    exact hle.memP (h.processed q k i hk hi' j hj)

/-- one step of `propagate` -/
def stepAt (P : Prog) (s : St) (p : Nat) (i : Inst) : St :=
  addAll P { s with cur := fun q => if q = p then s.cur p + 1 else s.cur q } (discover P i)

theorem stepAt_le (s : St) (p : Nat) (i : Inst) : Le s (stepAt P s p i) := by
  intro q; exact addAll_le (P := P) { s with cur := fun q => if q = p then s.cur p + 1 else s.cur q } (discover P i) q

theorem inv_stepAt {s : St} {p : Nat} {i : Inst} (h : Inv P s) (hi : (s.insts p)[s.cur p]? = some i) : Inv P (stepAt P s p i) := by
  have hlt : s.cur p < (s.insts p).length := by
    rcases Nat.lt_or_ge (s.cur p) (s.insts p).length with hk | hk
    · exact hk
    · rw [List.getElem?_eq_none hk] at hi; cases hi
  let s1 : St := { s with cur := fun q => if q = p then s.cur p + 1 else s.cur q }
  have hle : Le s1 (stepAt P s p i) := addAll_le (P := P) s1 (discover P i)
  refine ⟨?_, ?_, addAll_keysOK _ h.keys, addAll_nodup _ h.nodup, addAll_homed _ h.homed⟩
  · intro q
    show (addAll P s1 (discover P i)).cur q ≤ _
    rw [addAll_cur]
    refine Nat.le_trans ?_ (hle q).length_le
    show (if q = p then s.cur p + 1 else s.cur q) ≤ (s.insts q).length
    by_cases hq : q = p
    · subst hq; simp; exact hlt
    · simpa [hq] using h.cur q
  · intro q k i' hk hi' j hj
    have hk2 : k < (if q = p then s.cur p + 1 else s.cur q) := by
      have : (stepAt P s p i).cur q = (if q = p then s.cur p + 1 else s.cur q) := by
        show (addAll P s1 (discover P i)).cur q = _
        rw [addAll_cur]
      rw [this] at hk; exact hk
    have hklen : k < (s.insts q).length := by
      by_cases hq : q = p
      · subst hq; simp at hk2; omega
      · simp [hq] at hk2; exact Nat.lt_of_lt_of_le hk2 (h.cur q)
    have hi'' : (s.insts q)[k]? = some i' := by
      obtain ⟨r, hr⟩ := hle q
      have : (s1.insts q) = s.insts q := rfl
      rw [← hr, this, List.getElem?_append_left hklen] at hi'; exact hi'
    by_cases hnew : q = p ∧ k = s.cur p
    · obtain ⟨rfl, rfl⟩ := hnew
      rw [hi] at hi''
      cases hi''
      exact addAll_mem s1 (discover P i) j hj
    · have hkold : k < s.cur q := by
        by_cases hq : q = p
        · subst hq; simp at hk2
          have : k ≠ s.cur q := fun e => hnew ⟨rfl, e⟩
          omega
        · simpa [hq] using hk2
      exact hle.memP (h.processed q k i' hkold hi'' j hj)

theorem propagate_succ (fuel : Nat) (s : St) (p : Nat) :
    propagate P (fuel + 1) s p = match (s.insts p)[s.cur p]? with
      | none => s
      | some i => propagate P fuel (stepAt P s p i) p := rfl

theorem propagate_le (fuel : Nat) (s : St) (p : Nat) : Le s (propagate P fuel s p) := by
  induction fuel generalizing s with
  | zero => exact Le.refl s
  | succ n ih =>
    rw [propagate_succ]
    cases h : (s.insts p)[s.cur p]? with
    | none => exact Le.refl s
    | some i => exact (stepAt_le s p i).trans (ih _)

theorem inv_propagate (fuel : Nat) {s : St} (p : Nat) (h : Inv P s) : Inv P (propagate P fuel s p) := by
  induction fuel generalizing s with
  | zero => exact h
  | succ n ih =>
    rw [propagate_succ]
    cases hi : (s.insts p)[s.cur p]? with
    | none => exact h
    | some i => exact ih (inv_stepAt h hi)

/-- a property of the members that every addition respects is kept by the whole collector -/
theorem all_propagate (Q : Inst → Prop) (hQ : ∀ i, Q i → ∀ j ∈ discover P i, Q j) (fuel : Nat) {s : St} (p : Nat)
    (h : ∀ q, ∀ j ∈ s.insts q, Q j) : ∀ q, ∀ j ∈ (propagate P fuel s p).insts q, Q j := by
  induction fuel generalizing s with
  | zero => exact h
  | succ n ih =>
    rw [propagate_succ]
    cases hi : (s.insts p)[s.cur p]? with
    | none => exact h
    | some i =>
      apply ih
      intro q j hj
      rcases addAll_mem_inv hj with hj | hj
      · exact h q j hj
      · exact hQ i (h p i (List.mem_of_getElem? hi)) j hj

theorem foldl_propagate_le (fuel : Nat) (ks : List Nat) (s : St) :
    Le s (ks.foldl (fun acc p => propagate P fuel acc p) s) := by
  induction ks generalizing s with
  | nil => exact Le.refl s
  | cons k ks ih => exact (propagate_le fuel s k).trans (ih _)

theorem inv_foldl_propagate (fuel : Nat) (ks : List Nat) {s : St} (h : Inv P s) :
    Inv P (ks.foldl (fun acc p => propagate P fuel acc p) s) := by
  induction ks generalizing s with
  | nil => exact h
  | cons k ks ih => exact ih (inv_propagate fuel k h)

theorem all_foldl_propagate (Q : Inst → Prop) (hQ : ∀ i, Q i → ∀ j ∈ discover P i, Q j) (fuel : Nat) (ks : List Nat) {s : St}
    (h : ∀ q, ∀ j ∈ s.insts q, Q j) : ∀ q, ∀ j ∈ (ks.foldl (fun acc p => propagate P fuel acc p) s).insts q, Q j := by
  induction ks generalizing s with
  | nil => exact h
  | cons k ks ih => exact ih (all_propagate Q hQ fuel k h)

theorem finishWith_succ (order : List Nat → List Nat) (fuel : Nat) (s : St) :
    finishWith P order (fuel + 1) s =
      if allExhausted s then s
      else finishWith P order fuel ((order s.keys).foldl (fun acc p => propagate P (fuel + 1) acc p) s) := rfl

theorem finishWith_le (order : List Nat → List Nat) (fuel : Nat) (s : St) : Le s (finishWith P order fuel s) := by
  induction fuel generalizing s with
  | zero => exact Le.refl s
  | succ n ih =>
    rw [finishWith_succ]; split
    · exact Le.refl s
    · exact (foldl_propagate_le _ _ s).trans (ih _)

theorem inv_finishWith (order : List Nat → List Nat) (fuel : Nat) {s : St} (h : Inv P s) : Inv P (finishWith P order fuel s) := by
  induction fuel generalizing s with
  | zero => exact h
  | succ n ih =>
    rw [finishWith_succ]; split
    · exact h
    · exact ih (inv_foldl_propagate _ _ h)

theorem all_finishWith (Q : Inst → Prop) (hQ : ∀ i, Q i → ∀ j ∈ discover P i, Q j) (order : List Nat → List Nat) (fuel : Nat) {s : St}
    (h : ∀ q, ∀ j ∈ s.insts q, Q j) : ∀ q, ∀ j ∈ (finishWith P order fuel s).insts q, Q j := by
  induction fuel generalizing s with
  | zero => exact h
  | succ n ih =>
    rw [finishWith_succ]; split
    · exact h
    · exact ih (all_foldl_propagate Q hQ _ _ h)

theorem inv_empty : Inv P St.empty :=
  ⟨fun _ => Nat.le_refl _, fun _ k _ hk => absurd hk (Nat.not_lt_zero k), fun _ h => absurd rfl h, fun _ => List.nodup_nil,
    fun _ _ hj => by cases hj⟩

theorem inv_seedState : Inv P (seedState P) := inv_addAll _ inv_empty

/-- when every set is exhausted, the members are closed under `discover` -/
theorem closed_of_exhausted {s : St} (h : Inv P s) (hex : allExhausted s = true) :
    ∀ i, s.mem P i → ∀ j ∈ discover P i, s.mem P j := by
  intro i hi j hj
  have hall : ∀ q, (s.insts q).length ≤ s.cur q := by
    intro q
    by_cases hq : s.insts q = []
    · simp [hq]
    · have := List.all_eq_true.mp hex q (h.keys q hq)
      simpa using this
  obtain ⟨k, hk, hki⟩ := List.mem_iff_getElem.mp hi
  have hk' : k < s.cur (P.pkgOf i) := Nat.lt_of_lt_of_le hk (hall _)
  exact h.processed (P.pkgOf i) k i hk' (by rw [List.getElem?_eq_getElem hk, hki]) j hj

end GV.Inst
