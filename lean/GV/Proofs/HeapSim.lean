/-
  GV.Proofs.HeapSim — value semantics: under the ownership invariant the JS heap semantics (`runJS`, references
  + `$clone` where the clone table says so) prints exactly what Go's value semantics (`runGo`) prints — at full
  strength for the translator's table `cloneAt`; the four contexts where the table did not copy before the repairs
  (`box`, `rangeOperand`, `boundCall`, `ifaceCall`) are kept as theorems about `cloneAtBeforeRepair`.
-/
import GV.Proofs.HeapOwn

namespace GV.Heap
open GV.Spec.GoValue

/-! ### abstraction: a JS state represents a Go state -/

def absSlots (H : Heap) (slots : List (Ty × Int)) : List (Ty × List Int) :=
  slots.map (fun tv => (tv.1, flat tv.1 H tv.2))

def absState (σ : JState) : GState := { slots := absSlots σ.heap σ.slots, out := σ.out }

theorem absSlots_get (H : Heap) (slots : List (Ty × Int)) (x : Nat) :
    (absSlots H slots)[x]? = (slots[x]?).map (fun tv => (tv.1, flat tv.1 H tv.2)) := by
  simp [absSlots]

theorem abs_append {H H' : Heap} {slots : List (Ty × Int)} (t : Ty) (v : Int) (ho : OwnedH H slots)
    (hn : H.next ≤ H'.next) (hfr : ∀ id, id < H.next → ∀ i, H'.cell id i = H.cell id i) :
    absSlots H' (slots ++ [(t, v)]) = absSlots H slots ++ [(t, flat t H' v)] := by
  obtain ⟨_, _, hs⟩ := owned_frame ho hn hfr
  have : absSlots H' slots = absSlots H slots := by
    unfold absSlots
    apply List.map_congr_left
    intro a ha
    obtain ⟨y, hy⟩ := List.mem_iff_getElem?.1 ha
    rw [(hs y a.1 a.2 hy).2]
  rw [← this]; simp [absSlots]

theorem abs_set {H H' : Heap} {slots : List (Ty × Int)} {x : Nat} {tx : Ty} {vx : Int} {cells : List Int}
    (hx : slots[x]? = some (tx, vx))
    (hoth : ∀ (y : Nat) (ty : Ty) (vy : Int), slots[y]? = some (ty, vy) → y ≠ x → flat ty H' vy = flat ty H vy)
    (hx' : flat tx H' vx = cells) : absSlots H' slots = (absSlots H slots).set x (tx, cells) := by
  apply List.ext_getElem?
  intro y
  have hlt : x < slots.length := (List.getElem?_eq_some_iff.1 hx).1
  simp only [absSlots, List.getElem?_set, List.getElem?_map, List.length_map]
  by_cases hyx : x = y
  · subst hyx
    rw [if_pos rfl, if_pos hlt, hx]; simp [hx']
  · rw [if_neg hyx]
    cases hy : slots[y]? with
    | none => rfl
    | some tv => simp [hoth y tv.1 tv.2 hy (Ne.symm hyx)]

/-! ### expressions -/

theorem evalGo_abs (H : Heap) (slots : List (Ty × Int)) : ∀ e : Expr,
    evalGo (absSlots H slots) e =
      match slots[e.var]? with
      | some (tx, vx) => (match typeAt tx e.path with
        | some t => some (t, flat t H (navigate H vx e.path))
        | none => none)
      | none => none := by
  intro e; induction e with
  | loc x p =>
    simp only [evalGo, Expr.var, Expr.path, absSlots_get]
    cases hx : slots[x]? with
    | none => rfl
    | some tv =>
      obtain ⟨tx, vx⟩ := tv
      simp only [Option.map_some]
      cases ht : typeAt tx p with
      | none => rfl
      | some t => simp only; rw [(sub_value H p tx t vx ht).2.1]
  | via c e ih => simp only [evalGo, Expr.var, Expr.path]; exact ih

theorem evalJS_none (tbl : Ctx → Bool) (slots : List (Ty × Int)) (H : Heap) : ∀ e : Expr,
    evalJS tbl slots e H = none → evalGo (absSlots H slots) e = none := by
  intro e; induction e with
  | loc x p =>
    intro h
    rw [evalGo_abs]
    simp only [evalJS, Expr.var, Expr.path] at h ⊢
    cases hx : slots[x]? with
    | none => rfl
    | some tv =>
      obtain ⟨tx, vx⟩ := tv
      rw [hx] at h; simp only at h ⊢
      cases ht : typeAt tx p with
      | none => rfl
      | some t => rw [ht] at h; cases h
  | via c e ih =>
    intro h
    simp only [evalJS] at h
    cases he : evalJS tbl slots e H with
    | none => simp only [evalGo]; exact ih he
    | some r =>
      obtain ⟨Ha, ta, va⟩ := r
      rw [he] at h; simp only at h
      split at h <;> cases h

theorem evalJS_some (tbl : Ctx → Bool) (slots : List (Ty × Int)) (H : Heap) (ho : OwnedH H slots)
    {e : Expr} {H1 : Heap} {t : Ty} {v : Int} (he : evalJS tbl slots e H = some (H1, t, v)) :
    evalGo (absSlots H slots) e = some (t, flat t H1 v) := by
  obtain ⟨tx, vx, hx, ht, hfl, _⟩ := evalJS_spec tbl slots H ho.2 e H1 t v he
  rw [evalGo_abs, hx]; simp only; rw [ht]; simp only; rw [hfl]

/-! ### 6. one statement: JS step = Go step on the represented state -/

theorem sim_decl (tbl : Ctx → Bool) (σ : JState) (t : Ty) (ho : Owned σ) :
    absState (stepJS tbl σ (.decl t)) = stepGo (absState σ) (.decl t) := by
  rcases hz : zero t σ.heap with ⟨H', v⟩
  obtain ⟨z1, z2, _, _, z5⟩ := zero_ok t σ.heap H' v hz
  simp only [stepJS, stepGo, absState, hz]
  rw [abs_append t v ho z1 z2, z5]

theorem sim_bind (tbl : Ctx → Bool) (σ : JState) (c : Ctx) (e : Expr) (ho : Owned σ) :
    absState (stepJS tbl σ (.bind c e)) = stepGo (absState σ) (.bind c e) := by
  simp only [stepJS, stepGo]
  cases he : evalJS tbl σ.slots e σ.heap with
  | none =>
    have := evalJS_none tbl σ.slots σ.heap e he
    simp only [absState] at this ⊢
    rw [this]
  | some r =>
    obtain ⟨H1, t, v⟩ := r
    have hg := evalJS_some tbl σ.slots σ.heap ho he
    obtain ⟨tx, vx, hx, ht, hfl, hn, hfr, hb, _⟩ := evalJS_spec tbl σ.slots σ.heap ho.2 e H1 t v he
    simp only [absState] at hg ⊢
    rw [hg]
    simp only
    by_cases hc : (tbl c && isSpine t) = true
    · rw [if_pos hc]
      have hsp : isSpine t = true := by simp only [Bool.and_eq_true] at hc; exact hc.2
      obtain ⟨d1, d2, d3, d4, d5⟩ := clone_deep t hsp H1 v hb
      rcases hcl : clone t H1 v with ⟨H2, v'⟩
      rw [hcl] at d1 d2 d3 d4 d5
      simp only at d1 d2 d3 d4 d5 ⊢
      rw [abs_append t v' ho (by omega) (fun id hid i => by rw [d4 id (by omega) i, hfr id hid i]), d1]
    · rw [if_neg hc]
      simp only
      rw [abs_append t v ho hn hfr]

theorem sim_store (tbl : Ctx → Bool) (σ : JState) (c : Ctx) (x : Nat) (p : List Nat) (e : Expr)
    (ho : Owned σ) (hne : e.var ≠ x) :
    absState (stepJS tbl σ (.store c x p e)) = stepGo (absState σ) (.store c x p e) := by
  simp only [stepJS, stepGo]
  cases he : evalJS tbl σ.slots e σ.heap with
  | none =>
    have := evalJS_none tbl σ.slots σ.heap e he
    simp only [absState] at this ⊢
    rw [this]
  | some r =>
    obtain ⟨H1, t, v⟩ := r
    have hg := evalJS_some tbl σ.slots σ.heap ho he
    simp only [absState] at hg ⊢
    rw [hg]
    simp only [absSlots_get]
    cases hx : σ.slots[x]? with
    | none => rfl
    | some tv =>
      obtain ⟨tx, vx⟩ := tv
      simp only [Option.map_some]
      cases htp : typeAt tx p with
      | none => rfl
      | some t' =>
        simp only
        by_cases hc : (Ty.beq t' t && isSpine t) = true
        · rw [if_pos hc, if_pos hc]
          simp only [Bool.and_eq_true] at hc
          have := (Ty.beq_iff t' t).1 hc.1
          subst this
          obtain ⟨f1, f2, f3, f4⟩ := store_facts tbl σ.slots σ.heap ho he hx htp hc.2 hne
          simp only
          rw [abs_set hx (fun y ty vy hy hyx => (f3 y ty vy hy).2 hyx) f4]
        · rw [if_neg hc, if_neg hc]

theorem sim_setLeaf (tbl : Ctx → Bool) (σ : JState) (x : Nat) (p : List Nat) (n : Int) (ho : Owned σ) :
    absState (stepJS tbl σ (.setLeaf x p n)) = stepGo (absState σ) (.setLeaf x p n) := by
  simp only [stepJS, stepGo, absState, absSlots_get]
  cases hx : σ.slots[x]? with
  | none => rfl
  | some tv =>
    obtain ⟨tx, vx⟩ := tv
    simp only [Option.map_some]
    cases htp : typeAt tx p with
    | none => rfl
    | some t =>
      simp only
      cases hsp : isSpine t with
      | true => rfl
      | false =>
        simp only [Bool.false_eq_true, if_false]
        cases hl : p.getLast? with
        | none =>
          simp only
          have hp : p = [] := List.getLast?_eq_none_iff.1 hl
          subst hp
          simp only [typeAt, Option.some.injEq] at htp
          subst htp
          simp only [absSlots, List.map_set, flat_leaf hsp, offsetAt, List.set_cons_zero]
        | some i =>
          simp only
          obtain ⟨q, hq⟩ := List.getLast?_eq_some_iff.1 hl
          subst hq
          rw [List.dropLast_concat]
          obtain ⟨f3, f4⟩ := setLeaf_facts σ.slots σ.heap ho n hx htp hsp
          rw [abs_set hx (fun y ty vy hy hyx => (f3 y ty vy hy).2 hyx) f4]

theorem sim_dump (tbl : Ctx → Bool) (σ : JState) (x : Nat) :
    absState (stepJS tbl σ (.dump x)) = stepGo (absState σ) (.dump x) := by
  simp only [stepJS, stepGo, absState, absSlots_get]
  cases hx : σ.slots[x]? with
  | none => rfl
  | some tv => rfl

theorem sim_step (tbl : Ctx → Bool) (σ : JState) (s : Stmt) (ho : Owned σ) (hs : stmtOK tbl s) :
    absState (stepJS tbl σ s) = stepGo (absState σ) s := by
  cases s with
  | decl t => exact sim_decl tbl σ t ho
  | bind c e => exact sim_bind tbl σ c e ho
  | store c x p e => exact sim_store tbl σ c x p e ho hs
  | setLeaf x p n => exact sim_setLeaf tbl σ x p n ho
  | dump x => exact sim_dump tbl σ x

theorem sim_foldl (tbl : Ctx → Bool) (prog : List Stmt) (h : ∀ s ∈ prog, stmtOK tbl s) :
    ∀ σ, Owned σ → absState (prog.foldl (stepJS tbl) σ) = prog.foldl stepGo (absState σ) := by
  induction prog with
  | nil => intro σ _; rfl
  | cons s prog ih =>
    intro σ hσ
    rw [List.foldl_cons, List.foldl_cons,
      ih (fun s' hs' => h s' (List.mem_cons_of_mem _ hs')) _ (owned_step tbl σ s hσ (h s List.mem_cons_self)),
      sim_step tbl σ s hσ (h s List.mem_cons_self)]

/-- value semantics: whenever every new storage location is initialised through a cloning context (and an
    in-place store does not read the variable it overwrites), the JS program prints what the Go program prints. -/
theorem value_semantics_partial (tbl : Ctx → Bool) (prog : List Stmt) (h : ∀ s ∈ prog, stmtOK tbl s) :
    runJS tbl prog = runGo prog := by
  have := sim_foldl tbl prog h JState.init owned_init
  have h0 : absState JState.init = GState.init := rfl
  rw [h0] at this
  unfold runJS runGo
  rw [← this]; rfl

/-! ### the real clone table -/

/-- the clone table of the translator copies at EVERY new-location context -/
theorem cloneAt_newLocation (c : Ctx) (h : c.kind = .newLocation) : cloneAt c = true := by
  revert h; cases c <;> decide

def wfStmt : Stmt → Prop
  | .bind c _ => c.kind = .newLocation
  | .store c x _ e => c.kind = .inPlace ∧ e.var ≠ x
  | _ => True

theorem stmtOK_of_wf (s : Stmt) (h : wfStmt s) : stmtOK cloneAt s := by
  cases s with
  | bind c e => exact cloneAt_newLocation c h
  | store c x p e => exact h.2
  | _ => trivial

/-- FULL STRENGTH, for the real table: the JS run and the Go run of every well-formed program agree -/
theorem value_semantics (prog : List Stmt) (h : ∀ s ∈ prog, wfStmt s) :
    runJS cloneAt prog = runGo prog :=
  value_semantics_partial cloneAt prog (fun s hs => stmtOK_of_wf s (h s hs))

theorem no_sharing_cloneAt (prog : List Stmt) (h : ∀ s ∈ prog, wfStmt s) :
    Owned (prog.foldl (stepJS cloneAt) JState.init) :=
  no_sharing cloneAt prog (fun s hs => stmtOK_of_wf s (h s hs))

/-! ### repaired defects: the table before the repairs -/

/-- the statement that was false of the old table -/
def value_semantics_before_repair : Prop :=
  ∀ prog : List Stmt, (∀ s ∈ prog, wfStmt s) → runJS cloneAtBeforeRepair prog = runGo prog

/-- `x := S{}; x.f = 1; var i interface{} = x; x.f = 2; print(i)` -/
def cexBox : List Stmt :=
  [.decl (.struct [.int]), .setLeaf 0 [0] 1, .bind .box (.loc 0 []), .setLeaf 0 [0] 2, .dump 1]

/-- `var a [2]int; a[1] = 7; for … range a { (_ref = a) ; a[1] = 9; print(_ref) }` -/
def cexRange : List Stmt :=
  [.decl (.array 2 .int), .setLeaf 0 [1] 7, .bind .rangeOperand (.loc 0 []), .setLeaf 0 [1] 9, .dump 1]

/-- `f := x.m; f(); f()` where `m` mutates its value receiver: the second call sees the first call's mutation -/
def cexBound : List Stmt :=
  [.decl (.struct [.int]), .setLeaf 0 [0] 1, .bind .methodValue (.loc 0 []), .bind .boundCall (.loc 1 []),
   .setLeaf 2 [0] 9, .bind .boundCall (.loc 1 []), .dump 3]

/-- `var i I = x; i.m(); i.m()` where `m` mutates its value receiver (the box itself is mutated) -/
def cexIface : List Stmt :=
  [.decl (.struct [.int]), .setLeaf 0 [0] 1, .bind .define (.loc 0 []), .bind .ifaceCall (.loc 1 []),
   .setLeaf 2 [0] 9, .bind .ifaceCall (.loc 1 []), .dump 3]

theorem cexBox_wf : ∀ s ∈ cexBox, wfStmt s := by
  intro s hs
  simp only [cexBox, List.mem_cons, List.not_mem_nil, or_false] at hs
  rcases hs with rfl | rfl | rfl | rfl | rfl <;> simp [wfStmt, Ctx.kind]

theorem cexRange_wf : ∀ s ∈ cexRange, wfStmt s := by
  intro s hs
  simp only [cexRange, List.mem_cons, List.not_mem_nil, or_false] at hs
  rcases hs with rfl | rfl | rfl | rfl | rfl <;> simp [wfStmt, Ctx.kind]

theorem cexBound_wf : ∀ s ∈ cexBound, wfStmt s := by
  intro s hs
  simp only [cexBound, List.mem_cons, List.not_mem_nil, or_false] at hs
  rcases hs with rfl | rfl | rfl | rfl | rfl | rfl | rfl <;> simp [wfStmt, Ctx.kind]

theorem cexIface_wf : ∀ s ∈ cexIface, wfStmt s := by
  intro s hs
  simp only [cexIface, List.mem_cons, List.not_mem_nil, or_false] at hs
  rcases hs with rfl | rfl | rfl | rfl | rfl | rfl | rfl <;> simp [wfStmt, Ctx.kind]

theorem cexBox_js : runJS cloneAtBeforeRepair cexBox = [[2]] := by decide
theorem cexBox_go : runGo cexBox = [[1]] := by decide
theorem cexRange_js : runJS cloneAtBeforeRepair cexRange = [[0, 9]] := by decide
theorem cexRange_go : runGo cexRange = [[0, 7]] := by decide
theorem cexBound_js : runJS cloneAtBeforeRepair cexBound = [[9]] := by decide
theorem cexBound_go : runGo cexBound = [[1]] := by decide
theorem cexIface_js : runJS cloneAtBeforeRepair cexIface = [[9]] := by decide
theorem cexIface_go : runGo cexIface = [[1]] := by decide

theorem before_repair_box : ¬ value_semantics_before_repair := by
  intro h
  have := h cexBox cexBox_wf
  rw [cexBox_js, cexBox_go] at this
  exact absurd this (by decide)

theorem before_repair_range : ¬ value_semantics_before_repair := by
  intro h
  have := h cexRange cexRange_wf
  rw [cexRange_js, cexRange_go] at this
  exact absurd this (by decide)

theorem before_repair_boundCall : ¬ value_semantics_before_repair := by
  intro h
  have := h cexBound cexBound_wf
  rw [cexBound_js, cexBound_go] at this
  exact absurd this (by decide)

theorem before_repair_ifaceCall : ¬ value_semantics_before_repair := by
  intro h
  have := h cexIface cexIface_wf
  rw [cexIface_js, cexIface_go] at this
  exact absurd this (by decide)

/-- with the repaired table the same four programs behave as in Go -/
theorem after_repair_witnesses :
    runJS cloneAt cexBox = runGo cexBox ∧ runJS cloneAt cexRange = runGo cexRange ∧
    runJS cloneAt cexBound = runGo cexBound ∧ runJS cloneAt cexIface = runGo cexIface :=
  ⟨value_semantics _ cexBox_wf, value_semantics _ cexRange_wf, value_semantics _ cexBound_wf, value_semantics _ cexIface_wf⟩

/-- a non-trivial program meeting the premise of `value_semantics_partial` for the real table (nested
    struct/array, define, argument passing, in-place store of a sub-array, leaf writes) -/
example : runJS cloneAt
    [.decl (.struct [.int, .array 2 (.struct [.int, .ptr .int])]), .setLeaf 0 [1, 1, 0] 5,
     .bind .define (.loc 0 [1]), .bind .arg (.via .result (.loc 1 [0])),
     .store .assign 0 [1, 0] (.loc 2 []), .setLeaf 1 [0, 0] 3, .store .elemStore 1 [1] (.via .recv (.loc 0 [1, 0])),
     .dump 0, .dump 1, .dump 2] =
  runGo
    [.decl (.struct [.int, .array 2 (.struct [.int, .ptr .int])]), .setLeaf 0 [1, 1, 0] 5,
     .bind .define (.loc 0 [1]), .bind .arg (.via .result (.loc 1 [0])),
     .store .assign 0 [1, 0] (.loc 2 []), .setLeaf 1 [0, 0] 3, .store .elemStore 1 [1] (.via .recv (.loc 0 [1, 0])),
     .dump 0, .dump 1, .dump 2] :=
  value_semantics_partial cloneAt _ (by decide)

end GV.Heap
