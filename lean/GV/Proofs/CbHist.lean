/-
  GV.Proofs.CbHist — `$curGoroutine` is `$noGoroutine` whenever control is back in JavaScript, for every history.
-/
import GV.Model.CbHist

namespace GV.Proofs.CbHist
open GV.CbGuard GV.CbHist

/-- every activation ends with `$curGoroutine = $noGoroutine` — normal return, suspension, and unrecovered panic alike
    (the reset is in the `finally` of `$goroutine`) -/
theorem activate_cur (h : HSt) (g : Nat) : (activate h g).2.base.cur = none := by
  unfold activate
  dsimp only
  split <;> rfl

theorem loop_cur : ∀ (fuel : Nat) (h : HSt), h.base.cur = none → (loop fuel h).2.base.cur = none
  | 0, h, hc => hc
  | fuel + 1, h, hc => by
    unfold loop
    cases hs : h.base.scheduled with
    | nil => exact hc
    | cons a rest =>
      cases a with
      | none => exact hc
      | some g =>
        simp only
        have ha := activate_cur { h with base := { h.base with scheduled := rest } } g
        split
        · exact ha
        · exact loop_cur fuel _ ha

theorem pushSched_cur (s : St) (g : Gid) : (pushSched s g).cur = s.cur := by
  unfold pushSched
  cases g with
  | none => rfl
  | some n => simp only; split <;> rfl

theorem runScheduled_cur (h : HSt) (hc : h.base.cur = none) : (runScheduled h).2.base.cur = none :=
  loop_cur _ _ hc

theorem scheduleC_cur (h : HSt) (g : Gid) (hc : h.base.cur = none) : (scheduleC h g).2.base.cur = none := by
  unfold scheduleC
  exact runScheduled_cur _ (by simp [pushSched_cur, hc])

theorem sendC_cur (h : HSt) (v : Nat) (hc : h.base.cur = none) : (sendC h v).2.base.cur = none := by
  unfold sendC
  simp only
  split
  · exact hc
  · split
    · exact scheduleC_cur _ _ hc
    · split
      · exact hc
      · simp [canBlock, hc]

theorem recvC_cur (h : HSt) (hc : h.base.cur = none) : (recvC h).2.base.cur = none := by
  unfold recvC
  simp only
  cases hq : h.base.chan.sendQ with
  | nil =>
    simp only [Bool.false_eq_true, if_false]
    split
    · exact hc
    · split
      · exact hc
      · simp [canBlock, hc]
  | cons e sq =>
    simp only
    have hs := scheduleC_cur { h with base := { h.base with chan := removeSel { h.base.chan with sendQ := sq } e.sel } } e.g hc
    split
    · simp only [if_true]; exact hs
    · simp only [Bool.false_eq_true, if_false]
      split
      · exact hs
      · split
        · exact hs
        · simp [canBlock, hs]

theorem selectC_cur (h : HSt) (cs : List Case) (pick : Nat) (hc : h.base.cur = none) : (selectC h cs pick).2.base.cur = none := by
  unfold selectC
  simp only
  split
  · exact hc
  · split
    · split
      · exact sendC_cur h _ hc
      · exact recvC_cur h hc
      · exact hc
    · simp [canBlock, hc]

theorem step_cur (h : HSt) (e : HEv) (hc : h.base.cur = none) : (GV.CbHist.step h e).2.base.cur = none := by
  cases e with
  | go prog => exact scheduleC_cur _ _ hc
  | cbSend v => exact sendC_cur h v hc
  | cbRecv => exact recvC_cur h hc
  | cbSelect pick cs => exact selectC_cur h cs pick hc
  | tick =>
    simp only [GV.CbHist.step]
    split
    · exact hc
    · exact runScheduled_cur _ hc

theorem run_cur : ∀ (es : List HEv) (h : HSt), h.base.cur = none → (GV.CbHist.run h es).2.base.cur = none
  | [], _, hc => hc
  | e :: es, h, hc => run_cur es (GV.CbHist.step h e).2 (step_cur h e hc)

/-- a callback operation that has to block is rejected and changes nothing, in every state with `$curGoroutine = $noGoroutine` -/
theorem blocked_rejected (h : HSt) (hc : h.base.cur = none) :
    (∀ v, h.base.chan.closed = false → h.base.chan.recvQ = [] → ¬ h.base.chan.buffer.length < h.base.chan.capacity →
      sendC h v = (.op .errCannotBlock, h)) ∧
    (h.base.chan.sendQ = [] → h.base.chan.buffer = [] → h.base.chan.closed = false → recvC h = (.op .errCannotBlock, h)) ∧
    (∀ cs pick, sendOnClosed h.base cs = false → choose h.base cs pick = none → selectC h cs pick = (.op .errCannotBlock, h)) := by
  refine ⟨?_, ?_, ?_⟩
  · intro v h1 h2 h3
    simp [sendC, h1, h2, h3, canBlock, hc]
  · intro h1 h2 h3
    simp [recvC, h1, h2, h3, canBlock, hc]
  · intro cs pick h1 h2
    simp [selectC, h1, h2, canBlock, hc]

end GV.Proofs.CbHist
